#!/usr/bin/env python3
"""Regenerates /verif/MANIFEST.json from the table below (claimed checks) -- keep in sync with props/*.py."""
import json, os
V = os.path.dirname(os.path.dirname(os.path.abspath(__file__)))
TECH = 'bounded symbolic checking of the real code: clang-14 LLVM IR of the anchored functions -> C (engine/ir2c.py) -> CBMC 6.11 (SAT), witness twins, native replay against the g++ build'
CLAIMED = {
 'C01': ('Kernel lemmas, each decided by CBMC over the C translation of the LLVM IR of the real functions: L1 ArrayStreamBuf::feed/ParserBase::feed re-bases exactly (concrete sizes 0..3+spare, all contents, any maxSize); L3 every cursor primitive stays inside the delivered bytes with its exact contract (all buffers <= 6, thorough 12); L5 BodyStep: for every body section of exactly 8 and 11 bytes (thorough: every n in 3..13) and every single cut (thorough: plus cut pairs) the segmented run equals the one-shot run (state, error code, body bytes, consumed count) and equals an RFC 7230 reference decoder on well-formed input, with no early completion, and for Content-Length every cl in 0..2^64-1; L6 ParserBase::parse dispatch. The request-/status-/header-line steps (L2) are in progress. Composition of the lemmas into the end-to-end statement is argued in DESIGN.md, not solver-checked.',
         'Trusted: ir2c translation (validated natively against the g++ build on random inputs where a tv driver exists), models of std::string::_M_append/reserve, strtol, exception runtime; cursor contract stubs are themselves proven by the cursor kernel harnesses in the same run. Bounded sizes only.', '4 C01'),
 'C03': ('Parser-level memory safety and termination kernels: every StreamCursor primitive and match_* helper of stream.cc on every buffer of <= 6 (thorough 12) bytes held in an exact-size heap block at every cursor position: no out-of-bounds access, no overflow/shift UB, loops terminate (unwinding assertions), exact functional contract. Body-step kernels (C01) add: appends stay inside the delivered bytes, reserve() never exceeds the request budget, strtol scanners stay inside the buffer.',
         'Trusted: ir2c, libc models (byte-exact scanners), CBMC. Server-level clauses (responses on the wire, other connections) are outside; header value parsers and line steps are in progress.', '4 C03'),
 'C04': ('(a) ParserBase::reset() from an ARBITRARY parser state (any step index, any 64-bit body/chunk counters, any small buffer) restores the fresh-parser state: one inductive step covering every history before a reset; (b) every Done/raise of the body step leaves the progress counters at their initial values (asserted in the C01 body lemmas for every body section of 8/11 bytes and every cut).',
         'Trusted: as C01. Handler::onInput calling reset exactly once per finished message and Request::operator= are outside this check (planned).', '4 C04'),
 'C16': ('(a) Consistency of the case-insensitive hash and equality used by every header map, on the real toLowercase / LowercaseEqual / LowercaseEqualStatic code with real std::string SSO code: for all pairs of strings of length <= 3 (thorough 6) over all 256 byte values LowercaseEqual(a,b) <=> toLowercase(a)==toLowercase(b) and toLowercase is the C-locale fold, so a stored name is found under every capitalisation and equal keys hash equally. (b) HeadersStep hands exactly the sent name/value byte ranges to addRaw/parseRaw/cookie parsers (C01 headers harness, every 8-byte header section). Typed write/parse round trips (c) are in progress.',
         'Trusted: libstdc++ unordered_map semantics (insert keeps the first value, find = hash + equal), std::hash<string> a function of the bytes, C locale. Date header outside.', '4 C16'),
 'C19': ('AddressParser, Port(const std::string&) and the port section of Address::init (src/common/net.cc, sel mode with ghost strings, byte-exact strtol model): for every text of length <= 11 (thorough 12): host/port/hasColon/family equal a reference splitter (bracketed literal first, else first colon); a port is accepted iff it is a complete numeral in 0..65535 and is then stored untruncated (80 when absent); everything else raises std::invalid_argument before any resolution is attempted.',
         'Trusted: ghost models of std::string find/substr/c_str, strtol model (cross-checked with glibc), environment stubs for inet_pton/getaddrinfo (arbitrary). Literal<->binary conversion, printing and name resolution are libc and outside.', '4 C19'),
 'C20': ('Base64 Encode/Decode kernels (src/common/base64.cc, real std::string/vector code inlined): for every byte string of each concrete length 0..6 (thorough 0..9) CBMC shows Decode(Encode(x))==x and Encode(x) equal to an RFC 4648 reference; for every NUL-terminated text of length 0..5 (thorough 0..8) Decode throws or returns <=3n/4 bytes with all accesses inside the exact-size text block.',
         'Trusted: ir2c translation (validated natively against the g++ build on random inputs every run), models of std::string::_M_construct/reserve/operator new, CBMC. Bounded lengths only; one query per concrete length.', '4 C20'),
}
NA = {
}
PENDING = 'check not built yet in this round (planned, see DESIGN.md section 4); no claim is made until the check exists'
def main():
    props = [json.loads(l) for l in open(os.path.join(V, 'properties.jsonl'))]
    checks = []; na = []
    for p in props:
        pid = p['id']
        if pid in CLAIMED:
            text, note, ref = CLAIMED[pid]
            checks.append({'property_id': pid, 'quick_cmd': './check %s --tier quick' % pid, 'thorough_cmd': './check %s --tier thorough' % pid,
                           'evidence_file': 'evidence/%s.json' % pid, 'replay_cmd_template': './check %s --replay {path}' % pid, 'engine': 'ir2c+cbmc',
                           'level_claimed': {'category': 'model_checking', 'text': text, 'design_ref': 'DESIGN.md section ' + ref},
                           'level_note': note, 'technique': TECH})
        else:
            na.append({'property_id': pid, 'reason': NA.get(pid, PENDING)})
    m = {'version': 1, 'setup_cmd': 'python3 engine/selftest.py',
         'hooks': {'guard': 'PISTACHE_VERIF_HOOKS', 'enable': 'checks compile the anchored translation units themselves with clang++-14/g++ -DPISTACHE_VERIF_HOOKS (no cmake option needed)',
                   'baseline_off_cmd': 'cmake --build /repo/_build -j8 && ctest --test-dir /repo/_build -j8 --timeout 900', 'source_commits': [], 'add_only': True},
         'engines': [{'name': 'ir2c+cbmc', 'path': 'engine/', 'serves_properties': sorted(CLAIMED), 'kind_free_text': 'LLVM-IR to C translator + CBMC bounded model checker + native replay/translation validation'}],
         'checks': checks, 'not_applicable': na,
         'notes': 'All checks regenerate IR, C and verdicts from /repo\'s working tree on every run; scratch in /verif/.work is removed on exit.'}
    json.dump(m, open(os.path.join(V, 'MANIFEST.json'), 'w'), indent=1)
if __name__ == '__main__': main()
