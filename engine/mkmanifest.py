#!/usr/bin/env python3
"""Regenerates /verif/MANIFEST.json from the table below (claimed checks) -- keep in sync with props/*.py."""
import json, os
V = os.path.dirname(os.path.dirname(os.path.abspath(__file__)))
TECH = 'bounded symbolic checking of the real code: clang-14 LLVM IR of the anchored functions -> C (engine/ir2c.py) -> CBMC 6.11 (SAT), witness twins, native replay against the g++ build'
CLAIMED = {
 'C20': ('Base64 Encode/Decode kernels (src/common/base64.cc, real std::string/vector code inlined): for every byte string of each concrete length 0..6 (thorough 0..9) CBMC shows Decode(Encode(x))==x and Encode(x) equal to an RFC 4648 reference; for every NUL-terminated text of length 0..5 (thorough 0..8) Decode throws or returns <=3n/4 bytes with all accesses inside the exact-size text block.',
         'Trusted: ir2c translation (validated natively against the g++ build on random inputs every run), models of std::string::_M_construct/reserve/operator new, CBMC. Bounded lengths only; one query per concrete length.', '4 C20'),
}
NA = {
}
PENDING = 'check not built yet in this round (planned, see DESIGN.md section 4); no claim is made until the check exists'
def main():
    props = [json.loads(l) for l in open(os.path.join(V, 'properties.jsonl'))]
    checks = []; na = []
    for p in props:
        pid = p['id']
        if pid in CLAIMED:
            text, note, ref = CLAIMED[pid]
            checks.append({'property_id': pid, 'quick_cmd': './check %s --tier quick' % pid, 'thorough_cmd': './check %s --tier thorough' % pid,
                           'evidence_file': 'evidence/%s.json' % pid, 'replay_cmd_template': './check %s --replay {path}' % pid, 'engine': 'ir2c+cbmc',
                           'level_claimed': {'category': 'model_checking', 'text': text, 'design_ref': 'DESIGN.md section ' + ref},
                           'level_note': note, 'technique': TECH})
        else:
            na.append({'property_id': pid, 'reason': NA.get(pid, PENDING)})
    m = {'version': 1, 'setup_cmd': 'python3 engine/selftest.py',
         'hooks': {'guard': 'PISTACHE_VERIF_HOOKS', 'enable': 'checks compile the anchored translation units themselves with clang++-14/g++ -DPISTACHE_VERIF_HOOKS (no cmake option needed)',
                   'baseline_off_cmd': 'cmake --build /repo/_build -j8 && ctest --test-dir /repo/_build -j8 --timeout 900', 'source_commits': [], 'add_only': True},
         'engines': [{'name': 'ir2c+cbmc', 'path': 'engine/', 'serves_properties': sorted(CLAIMED), 'kind_free_text': 'LLVM-IR to C translator + CBMC bounded model checker + native replay/translation validation'}],
         'checks': checks, 'not_applicable': na,
         'notes': 'All checks regenerate IR, C and verdicts from /repo\'s working tree on every run; scratch in /verif/.work is removed on exit.'}
    json.dump(m, open(os.path.join(V, 'MANIFEST.json'), 'w'), indent=1)
if __name__ == '__main__': main()
