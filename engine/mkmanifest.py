#!/usr/bin/env python3
"""Regenerates /verif/MANIFEST.json from the table below (claimed checks) -- keep in sync with props/*.py."""
import json, os
V = os.path.dirname(os.path.dirname(os.path.abspath(__file__)))
TECH = 'bounded symbolic checking of the real code: clang-14 LLVM IR of the anchored functions -> C (engine/ir2c.py) -> CBMC 6.11 (SAT), witness twins, native replay against the g++ build'
CLAIMED = {
 'C01': ('Kernel lemmas, each decided by CBMC over the C translation of the LLVM IR of the real functions: L1 ArrayStreamBuf::feed/ParserBase::feed re-bases exactly (concrete sizes 0..3+spare, all contents, any maxSize); L3 every cursor primitive stays inside the delivered bytes with its exact contract (all buffers <= 6, thorough 12); L5 BodyStep: for every body section of exactly 8 and 11 bytes (thorough: every n in 3..13) and every single cut (thorough: plus cut pairs) the segmented run equals the one-shot run (state, error code, body bytes, consumed count) and equals an RFC 7230 reference decoder on well-formed input, with no early completion, and for Content-Length every cl in 0..2^64-1; L6 ParserBase::parse dispatch. The request-/status-/header-line steps (L2) are in progress. Composition of the lemmas into the end-to-end statement is argued in DESIGN.md, not solver-checked.',
         'Trusted: ir2c translation (validated natively against the g++ build on random inputs where a tv driver exists), models of std::string::_M_append/reserve, strtol, exception runtime; cursor contract stubs are themselves proven by the cursor kernel harnesses in the same run. Bounded sizes only.', '4 C01'),
 'C03': ('Parser-level memory safety and termination kernels: every StreamCursor primitive and match_* helper of stream.cc on every buffer of <= 6 (thorough 12) bytes held in an exact-size heap block at every cursor position: no out-of-bounds access, no overflow/shift UB, loops terminate (unwinding assertions), exact functional contract. Body-step kernels (C01) add: appends stay inside the delivered bytes, reserve() never exceeds the request budget, strtol scanners stay inside the buffer.',
         'Trusted: ir2c, libc models (byte-exact scanners), CBMC. Server-level clauses (responses on the wire, other connections) are outside; header value parsers and line steps are in progress.', '4 C03'),
 'C04': ('(a) ParserBase::reset() from an ARBITRARY parser state (any step index, any 64-bit body/chunk counters, any small buffer) restores the fresh-parser state: one inductive step covering every history before a reset; (b) every Done/raise of the body step leaves the progress counters at their initial values (asserted in the C01 body lemmas for every body section of 8/11 bytes and every cut).',
         'Trusted: as C01. Handler::onInput calling reset exactly once per finished message and Request::operator= are outside this check (planned).', '4 C04'),
 'C05': ('(a) DynamicStreamBuf (src/common/stream.cc, real std::vector<char> growth code inlined): for each concrete (initial size, maximum) in {0,1,3}x{s0,s0+1,5,6,8} and two writes of symbolic bytes, a write is cut short iff the configured maximum is reached, the stored bytes are exactly the accepted bytes in order across every growth boundary, the storage never exceeds the maximum, nothing is stored after a refused byte, clear() rewinds. Sequencing of status line / headers / Content-Length / chunk framing (putOnWire, ResponseStream) sits on std::ostream and is outside.',
         'Trusted: ir2c, byte-wise put model of xsputn (libstdc++), fixed-size allocation mode (sizes asserted functionally).', '4 C05'),
 'C06': ('Drain loop Transport::asyncWriteImpl with the inlined BufferHolder/WriteEntry code (sel mode): for every queue of 1..2 (thorough 3) raw/file entries with symbolic sizes <= 2..3 (thorough 4), any resume offset of the head entry, any flags, and every script of short writes / would-block results over 2..3 (thorough 4) invocations, each send/sendfile call continues exactly at the end of the accepted stream (pointer, length, file offset, flags), each promise is settled at most once and fulfilled only after its last byte with the buffer\'s full size, EAGAIN leaves the unwritten tail at the head with the rest of the queue untouched, and when the peer keeps reading everything is fulfilled. A second harness adds EPIPE/other errno (at-most-once settlement, lock, no spinning).',
         'Trusted: ghost deque/unordered_map/unique_lock/shared_ptr models at method boundaries, recording stubs for Resolver/Rejection, socket fault stub. Cross-thread enqueueing is C13; TLS and real sockets outside.', '4 C06'),
 'C07': ('Would-block step of the same unit as C06 (only the C07 obligations are asserted): after EAGAIN no further send attempt is made in the same invocation (a stub that keeps answering EAGAIN would otherwise fail the unwinding assertions, i.e. no spinning), Read|Write interest is armed exactly once, the queue lock is released on return, queues of other descriptors are not touched, and once the socket accepts data again everything pending is delivered; for every fault script within the C06 bounds.',
         'Trusted: as C06. Latency of other connections, the reactor loop and the kernel\'s edge-triggered re-arm are outside.', '4 C07'),
 'C13': ('Real Queue<int>/PollableQueue<int> push/pop/popSafe code of mailbox.h (hooks on) translated in resumable mode and run under our own sequentialisation: for every schedule of <= 9/14 steps (one shared access per step, idle allowed) of 1 producer x 1 push, 2 producers x 1 push and 1 producer x 2 pushes against the consumer\'s drain loop (thorough: 2x2 and 3x1, <= 22 steps), at every quiescent end state each item is popped at most once, per-producer FIFO holds, popped + queued == pushed, and a queued item implies a pending eventfd notification.',
         'Trusted: sequential consistency (as the property states), eventfd counter model, level-triggered wake-up of the consumer, hook placement checked by the translator. Relaxed-memory effects and the real epoll are outside.', '4 C13'),
 'C16': ('(a) Consistency of the case-insensitive hash and equality used by every header map, on the real toLowercase / LowercaseEqual / LowercaseEqualStatic code with real std::string SSO code: for all pairs of strings of length <= 3 (thorough 6) over all 256 byte values LowercaseEqual(a,b) <=> toLowercase(a)==toLowercase(b) and toLowercase is the C-locale fold, so a stored name is found under every capitalisation and equal keys hash equally. (b) HeadersStep hands exactly the sent name/value byte ranges to addRaw/parseRaw/cookie parsers (C01 headers harness, every 8-byte header section). Typed write/parse round trips (c) are in progress.',
         'Trusted: libstdc++ unordered_map semantics (insert keeps the first value, find = hash + equal), std::hash<string> a function of the bytes, C locale. Date header outside.', '4 C16'),
 'C19': ('AddressParser, Port(const std::string&) and the port section of Address::init (src/common/net.cc, sel mode with ghost strings, byte-exact strtol model): for every text of length <= 11 (thorough 12): host/port/hasColon/family equal a reference splitter (bracketed literal first, else first colon); a port is accepted iff it is a complete numeral in 0..65535 and is then stored untruncated (80 when absent); everything else raises std::invalid_argument before any resolution is attempted.',
         'Trusted: ghost models of std::string find/substr/c_str, strtol model (cross-checked with glibc), environment stubs for inet_pton/getaddrinfo (arbitrary). Literal<->binary conversion, printing and name resolution are libc and outside.', '4 C19'),
 'C20': ('Base64 Encode/Decode kernels (src/common/base64.cc, real std::string/vector code inlined): for every byte string of each concrete length 0..6 (thorough 0..9) CBMC shows Decode(Encode(x))==x and Encode(x) equal to an RFC 4648 reference; for every NUL-terminated text of length 0..5 (thorough 0..8) Decode throws or returns <=3n/4 bytes with all accesses inside the exact-size text block.',
         'Trusted: ir2c translation (validated natively against the g++ build on random inputs every run), models of std::string::_M_construct/reserve/operator new, CBMC. Bounded lengths only; one query per concrete length.', '4 C20'),
}
NA = {
}
PENDING = 'check not built yet in this round (planned, see DESIGN.md section 4); no claim is made until the check exists'
HOOK_COMMITS = ['83d9942']
def main():
    props = [json.loads(l) for l in open(os.path.join(V, 'properties.jsonl'))]
    checks = []; na = []
    for p in props:
        pid = p['id']
        if pid in CLAIMED:
            text, note, ref = CLAIMED[pid]
            checks.append({'property_id': pid, 'quick_cmd': './check %s --tier quick' % pid, 'thorough_cmd': './check %s --tier thorough' % pid,
                           'evidence_file': 'evidence/%s.json' % pid, 'replay_cmd_template': './check %s --replay {path}' % pid, 'engine': 'ir2c+cbmc',
                           'level_claimed': {'category': 'model_checking', 'text': text, 'design_ref': 'DESIGN.md section ' + ref},
                           'level_note': note, 'technique': TECH})
        else:
            na.append({'property_id': pid, 'reason': NA.get(pid, PENDING)})
    m = {'version': 1, 'setup_cmd': 'python3 engine/selftest.py',
         'hooks': {'guard': 'PISTACHE_VERIF_HOOKS', 'enable': 'checks compile the anchored translation units themselves with clang++-14/g++ -DPISTACHE_VERIF_HOOKS (no cmake option needed)',
                   'baseline_off_cmd': 'cmake --build /repo/_build -j8 && ctest --test-dir /repo/_build -j8 --timeout 900', 'source_commits': HOOK_COMMITS, 'add_only': True},
         'engines': [{'name': 'ir2c+cbmc', 'path': 'engine/', 'serves_properties': sorted(CLAIMED), 'kind_free_text': 'LLVM-IR to C translator + CBMC bounded model checker + native replay/translation validation'}],
         'checks': checks, 'not_applicable': na,
         'notes': 'All checks regenerate IR, C and verdicts from /repo\'s working tree on every run; scratch in /verif/.work is removed on exit.'}
    json.dump(m, open(os.path.join(V, 'MANIFEST.json'), 'w'), indent=1)
if __name__ == '__main__': main()
