#!/bin/bash
# usage: seedtest.sh <seed-id> <property> [extra check args]   -- applies seeded/<id>/patch.diff to /repo, runs the check, restores /repo
ID=$1; PROP=$2; shift 2
cd /repo || exit 9
if [ -n "$(git status --porcelain --untracked-files=no)" ]; then echo "/repo not clean"; exit 9; fi
P=/verif/seeded/$ID/patch.diff; [ -f /verif/seeded/$ID/patch_rebased.diff ] && P=/verif/seeded/$ID/patch_rebased.diff
git apply $P 2>/dev/null || { echo "PATCH-FAILED"; git checkout -q -- .; git reset -q; exit 8; }
git reset -q
cd /verif && ./check $PROP "$@" 2>&1 | grep -E "^BROKEN|^VIOLATION|^OK|^UNCONF|^KNOWN|^  harness" | cut -c1-300
git -C /repo checkout -q -- . ; git -C /repo clean -fdq -e _build 2>/dev/null; git -C /repo status --short | head -3
