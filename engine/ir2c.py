#!/usr/bin/env python3
"""Prototype LLVM-14 textual IR -> C translator (byte-addressed memory model).
Usage: ir2c.py out.c --roots f1,f2 --stub s1,s2 a.ll b.ll ...
Translates the transitive closure of the root functions; anything declared but not
defined (or listed in --stub) is emitted as an extern prototype to be provided by the
harness / model library."""
import re, sys, collections

# ---------------------------------------------------------------- tokenizer
TOK = re.compile(r'''
   \s+
 | (?P<str>c"(?:[^"\\]|\\[0-9A-Fa-f]{2}|\\\\)*")
 | (?P<gid>@(?:"[^"]*"|[-a-zA-Z$._0-9]+))
 | (?P<qstr>"[^"]*")
 | (?P<lid>%(?:"[^"]*"|[-a-zA-Z$._0-9]+))
 | (?P<meta>![-a-zA-Z$._0-9]*(?:\([^)]*\))?)
 | (?P<attr>\#[0-9]+)
 | (?P<num>-?[0-9]+\.[0-9]*(?:e[+-]?[0-9]+)?|0x[KLMHR]?[0-9A-Fa-f]+|-?[0-9]+)
 | (?P<dots>\.\.\.)
 | (?P<word>[a-zA-Z_][-a-zA-Z$._0-9]*)
 | (?P<p>[()\[\]{}<>,=*:])
''', re.X)

def tokenize(s):
    out = []; i = 0
    while i < len(s):
        m = TOK.match(s, i)
        if not m: raise SyntaxError('tok: ' + s[i:i+40])
        i = m.end()
        k = m.lastgroup
        if k: out.append((k, m.group(k)))
    return out

# ---------------------------------------------------------------- types
class T:
    pass
class TInt(T):
    def __init__(s, n): s.n = n
    def __repr__(s): return 'i%d' % s.n
class TFloat(T):
    def __init__(s, k): s.k = k
    def __repr__(s): return s.k
class TPtr(T):
    def __init__(s, to): s.to = to
    def __repr__(s): return 'ptr'
class TArr(T):
    def __init__(s, n, el): s.n = n; s.el = el
    def __repr__(s): return '[%d x %r]' % (s.n, s.el)
class TVec(T):
    def __init__(s, n, el): s.n = n; s.el = el
class TStruct(T):
    def __init__(s, els, packed=False, name=None): s.els = els; s.packed = packed; s.name = name
    def __repr__(s): return s.name or '{%s}' % ','.join(map(repr, s.els))
class TNamed(T):
    def __init__(s, name): s.name = name
    def __repr__(s): return s.name
class TFunc(T):
    def __init__(s, ret, args, va): s.ret = ret; s.args = args; s.va = va
    def __repr__(s): return 'fn'
class TVoid(T):
    def __repr__(s): return 'void'
class TOther(T):
    def __init__(s, k): s.k = k

class Module:
    def __init__(s):
        s.named = {}      # name -> TStruct or None(opaque)
        s.globals = {}    # name -> (type, init tokens or None, is_const)
        s.funcs = {}      # name -> Function (defined)
        s.decls = {}      # name -> (ret, args, va)
        s.lit_structs = {}

    def resolve(s, t):
        while isinstance(t, TNamed):
            r = s.named.get(t.name)
            if r is None: raise KeyError('opaque ' + t.name)
            t = r
        return t

    def size_align(s, t):
        t0 = t
        if isinstance(t, TNamed): t = s.resolve(t)
        if isinstance(t, TInt):
            b = max(1, (t.n + 7) // 8)
            p = 1
            while p < b: p *= 2
            return p, min(p, 16)
        if isinstance(t, TFloat):
            return {'float': (4, 4), 'double': (8, 8), 'x86_fp80': (16, 16), 'half': (2, 2), 'fp128': (16, 16)}[t.k]
        if isinstance(t, TPtr): return 8, 8
        if isinstance(t, TArr):
            sz, al = s.size_align(t.el)
            return sz * t.n, al
        if isinstance(t, TVec):
            sz, al = s.size_align(t.el)
            tot = sz * t.n
            return tot, tot
        if isinstance(t, TStruct):
            off = 0; mal = 1
            for e in t.els:
                sz, al = s.size_align(e)
                if t.packed: al = 1
                off = (off + al - 1) // al * al
                off += sz; mal = max(mal, al)
            off = (off + mal - 1) // mal * mal
            return off, mal
        raise TypeError('size of %r' % (t0,))

    def field_off(s, t, idx):
        t = s.resolve(t) if isinstance(t, TNamed) else t
        off = 0
        for i, e in enumerate(t.els):
            sz, al = s.size_align(e)
            if t.packed: al = 1
            off = (off + al - 1) // al * al
            if i == idx: return off, e
            off += sz
        raise IndexError

class P:
    """token stream parser"""
    def __init__(s, toks, mod): s.t = toks; s.i = 0; s.mod = mod
    def peek(s, k=0): return s.t[s.i + k] if s.i + k < len(s.t) else (None, None)
    def next(s): x = s.t[s.i]; s.i += 1; return x
    def accept(s, v):
        if s.peek()[1] == v: s.i += 1; return True
        return False
    def expect(s, v):
        x = s.next()
        if x[1] != v: raise SyntaxError('expected %s got %s at %s' % (v, x, s.t[max(0, s.i-6):s.i+4]))
    def eof(s): return s.i >= len(s.t)

    def type(s):
        k, v = s.next()
        if k == 'word':
            if re.fullmatch(r'i\d+', v): t = TInt(int(v[1:]))
            elif v in ('float', 'double', 'x86_fp80', 'half', 'fp128'): t = TFloat(v)
            elif v == 'void': t = TVoid()
            elif v == 'ptr': t = TPtr(TInt(8))
            elif v in ('label', 'metadata', 'token', 'opaque'): t = TOther(v)
            else: raise SyntaxError('type word ' + v)
        elif k == 'lid': t = TNamed(v)
        elif v == '[':
            n = int(s.next()[1]); s.expect('x'); el = s.type(); s.expect(']'); t = TArr(n, el)
        elif v == '<':
            if s.peek()[1] == '{':
                s.next(); els = s.typelist('}'); s.expect('>'); t = TStruct(els, True)
            else:
                n = int(s.next()[1]); s.expect('x'); el = s.type(); s.expect('>'); t = TVec(n, el)
        elif v == '{':
            els = s.typelist('}'); t = TStruct(els)
        else: raise SyntaxError('type ' + str((k, v)))
        while True:
            if s.peek()[1] == '*': s.next(); t = TPtr(t)
            elif s.peek()[1] == '(':
                s.next(); args = []; va = False
                while not s.accept(')'):
                    if s.peek()[0] == 'dots': s.next(); va = True
                    else:
                        args.append(s.type())
                        s.skip_param_attrs()
                    s.accept(',')
                t = TFunc(t, args, va)
            elif s.peek()[1] == 'addrspace': s.next(); s.expect('('); s.next(); s.expect(')')
            else: break
        return t
    def typelist(s, close):
        els = []
        while not s.accept(close):
            els.append(s.type()); s.accept(',')
        return els

    PATTR = {'noundef','nonnull','nocapture','readonly','readnone','writeonly','noalias','signext','zeroext','returned',
             'immarg','nofree','inreg','nest','swiftself','noescape'}
    def skip_param_attrs(s):
        while True:
            k, v = s.peek()
            if v in P.PATTR: s.next()
            elif v in ('align', 'dereferenceable', 'dereferenceable_or_null'):
                s.next()
                if s.accept('('): s.next(); s.expect(')')
                else: s.next()
            elif v in ('sret', 'byval', 'byref', 'inalloca', 'preallocated', 'elementtype'):
                s.next(); s.expect('('); s.type(); s.expect(')')
            else: break

    # values: returns python repr: ('int', n) ('null',) ('undef',) ('g', name) ('l', name) ('cexpr', op, ...)
    def value(s, ty):
        k, v = s.next()
        if k == 'num':
            if v.startswith('0x'):
                return ('fphex', v)
            if '.' in v or 'e' in v: return ('fp', v)
            return ('int', int(v))
        if k == 'lid': return ('l', v)
        if k == 'gid': return ('g', v)
        if k == 'str': return ('str', v)
        if v in ('true', 'false'): return ('int', 1 if v == 'true' else 0)
        if v in ('null', 'none'): return ('null',)
        if v in ('undef', 'poison'): return ('undef',)
        if v == 'zeroinitializer': return ('zero',)
        if v in ('getelementptr',):
            inb = s.accept('inbounds'); s.expect('(')
            bt = s.type(); s.expect(',')
            pt = s.type(); pv = s.value(pt); idx = []
            while s.accept(','):
                s.accept('inrange')
                it = s.type(); iv = s.value(it); idx.append((it, iv))
            s.expect(')')
            return ('cgep', bt, pv, idx)
        if v in ('bitcast', 'ptrtoint', 'inttoptr', 'addrspacecast', 'trunc', 'zext', 'sext'):
            s.expect('('); ft = s.type(); fv = s.value(ft); s.expect('to'); tt = s.type(); s.expect(')')
            return ('ccast', v, ft, fv, tt)
        if v in ('add', 'sub', 'mul', 'and', 'or', 'xor', 'shl', 'lshr', 'ashr'):
            while s.peek()[1] in ('nuw', 'nsw', 'exact'): s.next()
            s.expect('('); t1 = s.type(); v1 = s.value(t1); s.expect(','); t2 = s.type(); v2 = s.value(t2); s.expect(')')
            return ('cbin', v, t1, v1, v2)
        if v == 'icmp':
            pred = s.next()[1]
            s.expect('('); t1 = s.type(); v1 = s.value(t1); s.expect(','); t2 = s.type(); v2 = s.value(t2); s.expect(')')
            return ('cicmp', pred, t1, v1, v2)
        if v == 'select':
            s.expect('('); t0 = s.type(); v0 = s.value(t0); s.expect(','); t1 = s.type(); v1 = s.value(t1); s.expect(','); t2 = s.type(); v2 = s.value(t2); s.expect(')')
            return ('cselect', v0, t1, v1, v2)
        if v == '{' or (v == '<' and s.peek()[1] == '{'):
            packed = False
            if v == '<': s.next(); packed = True
            els = []
            while not s.accept('}'):
                t = s.type(); els.append((t, s.value(t))); s.accept(',')
            if packed: s.expect('>')
            return ('cstruct', els)
        if v == '[':
            els = []
            while not s.accept(']'):
                t = s.type(); els.append((t, s.value(t))); s.accept(',')
            return ('carray', els)
        if v == '<':
            els = []
            while not s.accept('>'):
                t = s.type(); els.append((t, s.value(t))); s.accept(',')
            return ('cvec', els)
        if v == 'blockaddress' or v == 'dso_local_equivalent':
            raise SyntaxError('unsupported const ' + v)
        raise SyntaxError('value %s %s near %s' % (k, v, s.t[max(0, s.i-8):s.i+4]))

class Inst:
    def __init__(s, op, res=None, **kw): s.op = op; s.res = res; s.__dict__.update(kw)
class Block:
    def __init__(s, name): s.name = name; s.insts = []
class Function:
    def __init__(s, name, ret, params, va): s.name = name; s.ret = ret; s.params = params; s.va = va; s.blocks = []

LINKAGE = {'private','internal','available_externally','linkonce','weak','common','appending','extern_weak','linkonce_odr','weak_odr','external',
           'dso_local','dso_preemptable','default','hidden','protected','unnamed_addr','local_unnamed_addr','thread_local','externally_initialized',
           'dllimport','dllexport','fastcc','ccc','coldcc','noundef','nonnull','zeroext','signext','noalias'}

def parse_module(text, mod):
    lines = text.split('\n')
    i = 0
    while i < len(lines):
        ln = lines[i]
        if ln.startswith('%') and ' = type ' in ln:
            name, rest = ln.split(' = type ', 1)
            if rest.strip() == 'opaque': mod.named.setdefault(name.strip(), None)
            else:
                p = P(tokenize(rest), mod); t = p.type(); t.name = name.strip(); mod.named[name.strip()] = t
        elif ln.startswith('@'):
            parse_global(ln, mod)
        elif ln.startswith('declare '):
            parse_decl(ln, mod)
        elif ln.startswith('define '):
            j = i
            body = []
            while lines[j] != '}':
                j += 1
            parse_func(lines[i:j], mod)
            i = j
        i += 1

def strip_comment(ln):
    # remove trailing '; ...' comments not inside quotes
    q = False
    for k, c in enumerate(ln):
        if c == '"': q = not q
        elif c == ';' and not q: return ln[:k]
    return ln

def parse_global(ln, mod):
    toks = tokenize(strip_comment(ln))
    p = P(toks, mod)
    name = p.next()[1]; p.expect('=')
    while p.peek()[1] in LINKAGE: p.next()
    if p.peek()[1] == 'thread_local':
        p.next()
        if p.accept('('): p.next(); p.expect(')')
    while p.peek()[1] in LINKAGE: p.next()
    kind = p.next()[1]
    if kind == 'alias':
        t = p.type(); p.expect(','); t2 = p.type(); v = p.value(t2)
        mod.globals[name] = ('alias', v); return
    assert kind in ('global', 'constant'), ln
    t = p.type()
    init = None
    if not p.eof() and p.peek()[1] != ',':
        init = p.value(t)
    mod.globals[name] = (t, init, kind == 'constant')

def parse_proto(p):
    while p.peek()[1] in LINKAGE or p.peek()[1] in P.PATTR or p.peek()[1] in ('align', 'dereferenceable', 'dereferenceable_or_null'):
        v = p.next()[1]
        if v in ('align', 'dereferenceable', 'dereferenceable_or_null'):
            if p.accept('('): p.next(); p.expect(')')
            else: p.next()
    ret = p.type()
    name = p.next()[1]
    p.expect('(')
    params = []; va = False
    while not p.accept(')'):
        if p.peek()[0] == 'dots': p.next(); va = True
        else:
            t = p.type(); p.skip_param_attrs()
            pn = None
            if p.peek()[0] == 'lid': pn = p.next()[1]
            params.append((t, pn))
        p.accept(',')
    return ret, name, params, va

def parse_decl(ln, mod):
    p = P(tokenize(strip_comment(ln)[len('declare '):]), mod)
    ret, name, params, va = parse_proto(p)
    mod.decls[name] = (ret, [t for t, _ in params], va)

def parse_func(lines, mod):
    head = strip_comment(lines[0])[len('define '):]
    p = P(tokenize(head), mod)
    ret, name, params, va = parse_proto(p)
    # unnamed params get %0.. numbering
    cnt = 0; ps = []
    for t, pn in params:
        if pn is None: pn = '%%%d' % cnt; cnt += 1
        elif re.fullmatch(r'%\d+', pn): cnt = int(pn[1:]) + 1
        ps.append((t, pn))
    f = Function(name, ret, ps, va)
    cur = Block('%%%d' % cnt)  # entry block implicit label
    f.blocks.append(cur)
    first = True
    joined = []
    pend = None
    for ln in lines[1:]:
        ln = strip_comment(ln).rstrip()
        if not ln.strip(): continue
        st = ln.strip()
        if pend is not None:
            pend += ' ' + st
            if st == ']': joined.append(pend); pend = None
            continue
        if (st.startswith(('to label', 'catch ', 'filter ')) or st == 'cleanup') and joined and not re.match(r'^("[^"]*"|[-a-zA-Z$._0-9]+):', st):
            joined[-1] += ' ' + st; continue
        if st.startswith('switch ') and st.endswith('[') :
            pend = ln; continue
        joined.append(ln)
    for ln in joined:
        m = re.match(r'^("[^"]*"|[-a-zA-Z$._0-9]+):', ln)
        if m:
            nm = '%' + m.group(1)
            if first and not cur.insts:
                cur.name = nm
            else:
                cur = Block(nm); f.blocks.append(cur)
            first = False
            continue
        first = False
        inst = parse_inst(ln.strip(), mod)
        if inst: cur.insts.append(inst)
    mod.funcs[name] = f

def parse_inst(ln, mod):
    toks = tokenize(ln)
    # cut metadata suffix ", !tbaa !5" etc.
    cut = len(toks)
    for k, (kind, v) in enumerate(toks):
        if kind == 'meta' and k > 0 and toks[k-1][1] == ',':
            cut = k - 1; break
    toks = toks[:cut]
    p = P(toks, mod)
    res = None
    if p.peek()[0] == 'lid' and p.peek(1)[1] == '=':
        res = p.next()[1]; p.next()
    op = p.next()[1]
    I = lambda **kw: Inst(op, res, **kw)
    if op in ('add','sub','mul','udiv','sdiv','urem','srem','and','or','xor','shl','lshr','ashr','fadd','fsub','fmul','fdiv','frem'):
        while p.peek()[1] in ('nuw','nsw','exact','fast','nnan','ninf','nsz','arcp','contract','afn','reassoc'): p.next()
        t = p.type(); a = p.value(t); p.expect(','); b = p.value(t)
        return I(ty=t, a=a, b=b)
    if op == 'fneg':
        while p.peek()[1] in ('fast','nnan','ninf','nsz','arcp','contract','afn','reassoc'): p.next()
        t = p.type(); a = p.value(t); return I(ty=t, a=a)
    if op in ('icmp', 'fcmp'):
        while p.peek()[1] in ('fast','nnan','ninf','nsz','arcp','contract','afn','reassoc'): p.next()
        pred = p.next()[1]; t = p.type(); a = p.value(t); p.expect(','); b = p.value(t)
        return I(pred=pred, ty=t, a=a, b=b)
    if op in ('trunc','zext','sext','bitcast','ptrtoint','inttoptr','fptoui','fptosi','uitofp','sitofp','fpext','fptrunc','addrspacecast'):
        ft = p.type(); a = p.value(ft); p.expect('to'); tt = p.type()
        return I(ft=ft, a=a, tt=tt)
    if op == 'freeze':
        t = p.type(); a = p.value(t); return I(ty=t, a=a)
    if op == 'alloca':
        p.accept('inalloca')
        t = p.type(); n = None
        if p.accept(','):
            if p.peek()[1] != 'align':
                nt = p.type(); n = (nt, p.value(nt))
        return I(ty=t, n=n)
    if op == 'load':
        atomic = p.accept('atomic'); p.accept('volatile')
        t = p.type(); p.expect(','); pt = p.type(); a = p.value(pt)
        return I(ty=t, a=a, atomic=atomic)
    if op == 'store':
        atomic = p.accept('atomic'); p.accept('volatile')
        t = p.type(); v = p.value(t); p.expect(','); pt = p.type(); a = p.value(pt)
        return I(ty=t, v=v, a=a, atomic=atomic)
    if op == 'getelementptr':
        p.accept('inbounds')
        bt = p.type(); p.expect(','); pt = p.type(); a = p.value(pt); idx = []
        while p.accept(','):
            it = p.type(); idx.append((it, p.value(it)))
        return I(bt=bt, a=a, idx=idx)
    if op == 'phi':
        while p.peek()[1] in ('fast','nnan','ninf','nsz','arcp','contract','afn','reassoc'): p.next()
        t = p.type(); inc = []
        while True:
            p.expect('['); v = p.value(t); p.expect(','); lbl = p.next()[1]; p.expect(']')
            inc.append((v, lbl))
            if not p.accept(','): break
        return I(ty=t, inc=inc)
    if op == 'select':
        while p.peek()[1] in ('fast','nnan','ninf','nsz','arcp','contract','afn','reassoc'): p.next()
        ct = p.type(); c = p.value(ct); p.expect(','); t = p.type(); a = p.value(t); p.expect(','); t2 = p.type(); b = p.value(t2)
        return I(c=c, ty=t, a=a, b=b)
    if op == 'br':
        if p.peek()[1] == 'label':
            p.next(); return I(cond=None, t=p.next()[1])
        ct = p.type(); c = p.value(ct); p.expect(','); p.expect('label'); t = p.next()[1]; p.expect(','); p.expect('label'); f = p.next()[1]
        return I(cond=c, t=t, f=f)
    if op == 'switch':
        t = p.type(); v = p.value(t); p.expect(','); p.expect('label'); d = p.next()[1]; p.expect('[')
        cases = []
        while not p.accept(']'):
            ct = p.type(); cv = p.value(ct); p.expect(','); p.expect('label'); cases.append((cv, p.next()[1]))
        return I(ty=t, v=v, default=d, cases=cases)
    if op == 'ret':
        t = p.type()
        if isinstance(t, TVoid): return I(ty=t, v=None)
        return I(ty=t, v=p.value(t))
    if op == 'unreachable': return I()
    if op in ('call', 'invoke') or (op in ('tail', 'musttail', 'notail') and p.peek()[1] == 'call'):
        if op in ('tail', 'musttail', 'notail'): p.next(); op = 'call'
        while p.peek()[1] in LINKAGE or p.peek()[1] in P.PATTR or p.peek()[1] in ('fast','nnan','ninf','nsz','arcp','contract','afn','reassoc','align','dereferenceable','dereferenceable_or_null'):
            v = p.next()[1]
            if v in ('align', 'dereferenceable', 'dereferenceable_or_null'):
                if p.accept('('): p.next(); p.expect(')')
                else: p.next()
        rt = p.type()
        # rt may be a function type (for varargs) -> TFunc
        callee = p.value(None)
        p.expect('(')
        args = []
        while not p.accept(')'):
            at = p.type(); p.skip_param_attrs()
            if isinstance(at, TOther) and at.k == 'metadata':
                # metadata arg: skip tokens until , or )
                while p.peek()[1] not in (',', ')'): p.next()
                args.append((at, ('undef',)))
            else:
                args.append((at, p.value(at)))
            p.accept(',')
        inst = Inst(op, res, rt=rt, callee=callee, args=args)
        if op == 'invoke':
            while p.peek()[1] != 'to': p.next()
            p.expect('to'); p.expect('label'); inst.normal = p.next()[1]; p.expect('unwind'); p.expect('label'); inst.unwind = p.next()[1]
        return inst
    if op == 'landingpad':
        t = p.type(); clauses = []; cleanup = False
        while not p.eof():
            k = p.next()[1]
            if k == 'cleanup': cleanup = True
            elif k == 'catch':
                ct = p.type(); clauses.append(('catch', p.value(ct)))
            elif k == 'filter':
                ct = p.type(); clauses.append(('filter', p.value(ct)))
        return I(ty=t, clauses=clauses, cleanup=cleanup)
    if op == 'resume':
        t = p.type(); return I(ty=t, v=p.value(t))
    if op == 'extractvalue':
        t = p.type(); a = p.value(t); idx = []
        while p.accept(','): idx.append(int(p.next()[1]))
        return I(ty=t, a=a, idx=idx)
    if op == 'insertvalue':
        t = p.type(); a = p.value(t); p.expect(','); et = p.type(); v = p.value(et); idx = []
        while p.accept(','): idx.append(int(p.next()[1]))
        return I(ty=t, a=a, et=et, v=v, idx=idx)
    if op == 'atomicrmw':
        p.accept('volatile'); rop = p.next()[1]; pt = p.type(); a = p.value(pt); p.expect(','); t = p.type(); v = p.value(t)
        return I(rop=rop, a=a, ty=t, v=v)
    if op == 'cmpxchg':
        p.accept('weak'); p.accept('volatile'); pt = p.type(); a = p.value(pt); p.expect(','); t = p.type(); c = p.value(t); p.expect(','); t2 = p.type(); n = p.value(t2)
        return I(a=a, ty=t, c=c, n=n)
    if op == 'fence': return I()
    raise SyntaxError('inst ' + ln)


def tkey(mod, t):
    if isinstance(t, TNamed): return t.name
    if isinstance(t, TInt): return 'i%d' % t.n
    if isinstance(t, TFloat): return t.k
    if isinstance(t, TVoid): return 'void'
    if isinstance(t, TPtr): return 'ptr'
    if isinstance(t, TArr): return '[%d x %s]' % (t.n, tkey(mod, t.el))
    if isinstance(t, TVec): return '<%d x %s>' % (t.n, tkey(mod, t.el))
    if isinstance(t, TStruct): return t.name or '{' + ','.join(tkey(mod, e) for e in t.els) + '}'
    if isinstance(t, TFunc): return tkey(mod, t.ret) + '(' + ','.join(tkey(mod, a) for a in t.args) + (',...' if t.va else '') + ')'
    return '?'

def walk_vals(v, fn):
    if not isinstance(v, tuple): return
    if v and v[0] == 'g': fn(v[1]); return
    for x in v:
        if isinstance(x, tuple): walk_vals(x, fn)
        elif isinstance(x, list):
            for y in x:
                if isinstance(y, tuple): walk_vals(y, fn)

def address_taken(mod):
    taken = set()
    def add(n):
        if n in mod.funcs or n in mod.decls: taken.add(n)
    for nm, g in mod.globals.items():
        if g[0] == 'alias': walk_vals(g[1], add)
        elif g[1] is not None: walk_vals(g[1], add)
    for f in mod.funcs.values():
        for b in f.blocks:
            for ins in b.insts:
                for k, v in ins.__dict__.items():
                    if k == 'callee': continue
                    if isinstance(v, tuple): walk_vals(v, add)
                    elif isinstance(v, list):
                        for y in v:
                            if isinstance(y, tuple): walk_vals(y, add)
    return taken

# ---------------------------------------------------------------- C emission
def cid(name):
    n = name[1:]
    if n.startswith('"'): n = n[1:-1]
    return re.sub(r'[^A-Za-z0-9_]', lambda m: '_%02x' % ord(m.group(0)), n)

class Emitter:
    def __init__(s, mod, stubs):
        s.mod = mod; s.stubs = stubs; s.out = []; s.structs = {}; s.struct_defs = []
        s.need_funcs = collections.OrderedDict(); s.need_globals = collections.OrderedDict()
        s.protos = {}; s.dispatchers = {}; s.intrinsic_protos = {}

    def ctype(s, t):
        m = s.mod
        if isinstance(t, TNamed): t = m.resolve(t)
        if isinstance(t, TInt):
            if t.n == 1: return 'u8'
            for w in (8, 16, 32, 64, 128):
                if t.n <= w: return 'u%d' % w
        if isinstance(t, TFloat): return {'float': 'float', 'double': 'double'}.get(t.k, 'long double')
        if isinstance(t, TPtr): return 'u8*'
        if isinstance(t, TVoid): return 'void'
        if isinstance(t, (TStruct, TArr)):
            return s.aggtype(t)
        raise TypeError('ctype %r' % (t,))

    def aggtype(s, t):
        key = s.aggkey(t)
        if key not in s.structs:
            sz, al = s.mod.size_align(t)
            nm = 'agg%d_%d' % (max(sz, 1), al)     # stable name: harnesses that model an aggregate-returning callee declare the same type
            s.structs[key] = nm
            s.struct_defs.append('typedef struct { u8 b[%d]; } __attribute__((aligned(%d))) %s;' % (max(sz, 1), al, nm))
        return s.structs[key]
    def aggkey(s, t):
        sz, al = s.mod.size_align(t)
        return (sz, al)

    def mask(s, t, e):
        if isinstance(t, TInt) and t.n not in (8, 16, 32, 64, 128) and t.n != 1:
            return '((%s)&%dULL)' % (e, (1 << t.n) - 1)
        if isinstance(t, TInt) and t.n == 1: return '((%s)&1)' % e
        return e

    def const(s, t, v):
        """C expression for constant/value v of LLVM type t (scalar contexts)."""
        k = v[0]
        if k == 'l': return 'v_' + cid(v[1])
        tt = s.mod.resolve(t) if isinstance(t, TNamed) else t
        if k == 'int':
            if isinstance(tt, TInt):
                n = v[1] & ((1 << tt.n) - 1)
                if tt.n > 64: return '((u128)%dULL)' % n if n < (1 << 64) else '(((u128)%dULL<<64)|%dULL)' % (n >> 64, n & ((1 << 64) - 1))
                return '((%s)%dULL)' % (s.ctype(tt), n)
            return str(v[1])
        if k == 'null': return '((u8*)0)'
        if k in ('undef', 'zero'):
            if isinstance(tt, (TStruct, TArr)): return '(%s){{0}}' % s.ctype(tt)
            if isinstance(tt, TPtr): return '((u8*)0)'
            return '((%s)0)' % s.ctype(tt)
        if k == 'g':
            nm = v[1]
            s.ref_global(nm)
            return '((u8*)&%s)' % s.gname(nm) if not s.is_func(nm) else '((u8*)%s)' % s.gname(nm)
        if k == 'fp': return v[1]
        if k == 'fphex':
            import struct
            h = v[1][2:]
            if h[0] in 'KLMHR': raise TypeError('fp80')
            return repr(struct.unpack('>d', bytes.fromhex(h.rjust(16, '0')))[0])
        if k == 'cgep':
            _, bt, pv, idx = v
            base = s.const(TPtr(bt), pv)
            return s.gep_expr(bt, base, idx)
        if k == 'ccast':
            _, op, ft, fv, to = v
            e = s.const(ft, fv)
            return s.cast_expr(op, ft, e, to)
        if k == 'cbin':
            _, op, t1, a, b = v
            return s.bin_expr(op, t1, s.const(t1, a), s.const(t1, b))
        if k == 'cicmp':
            _, pred, t1, a, b = v
            return s.icmp_expr(pred, t1, s.const(t1, a), s.const(t1, b))
        if k == 'cselect':
            _, c, t1, a, b = v
            return '(%s ? %s : %s)' % (s.const(TInt(1), c), s.const(t1, a), s.const(t1, b))
        raise TypeError('const %r' % (v,))

    def is_func(s, nm): return nm in s.mod.funcs or nm in s.mod.decls
    def gname(s, nm):
        base = nm[1:]
        if nm in s.mod.decls and nm not in s.mod.funcs and not base.startswith(('_Z', 'llvm.', '"')):
            if not base.startswith('__') or base in ('__errno_location',) or base.startswith(('__isoc', '__strto', '__mem', '__str')):
                return 'x_' + cid(nm)
        return cid(nm)
    def ref_global(s, nm):
        if s.is_func(nm):
            s.need_funcs[nm] = True
        else:
            g = s.mod.globals.get(nm)
            if g and g[0] == 'alias':
                raise TypeError('alias ' + nm)
            s.need_globals[nm] = True

    def gep_expr(s, bt, base, idx):
        m = s.mod
        parts = []
        t = bt
        first = True
        for it, iv in idx:
            if first:
                sz, _ = m.size_align(t)
                parts.append(s.scaled(it, iv, sz)); first = False
                continue
            tt = m.resolve(t) if isinstance(t, TNamed) else t
            if isinstance(tt, TStruct):
                assert iv[0] == 'int', 'struct index must be const'
                off, t = m.field_off(tt, iv[1])
                parts.append(str(off))
            elif isinstance(tt, (TArr, TVec)):
                sz, _ = m.size_align(tt.el)
                parts.append(s.scaled(it, iv, sz)); t = tt.el
            else: raise TypeError('gep into %r' % tt)
        parts = [x for x in parts if x != '0']
        if not parts: return base
        return '(%s + (%s))' % (base, ' + '.join(parts))
    def scaled(s, it, iv, sz):
        if iv[0] == 'int': return str(iv[1] * sz)
        e = s.const(it, iv)
        # sign-extend index to 64 bits
        n = it.n
        e = '(i64)(i%d)%s' % (n if n in (8, 16, 32, 64) else 64, e) if n in (8, 16, 32, 64) else '(i64)' + e
        return '(%s)*%d' % (e, sz) if sz != 1 else '(%s)' % e

    def sx(s, t, e):
        """signed view of integer expr"""
        n = t.n
        if n in (8, 16, 32, 64, 128): return '((i%d)%s)' % (n, e)
        w = 8
        while w < n: w *= 2
        return '((i%d)((i%d)(%s << %d) >> %d))' % (w, w, '(u%d)%s' % (w, e), w - n, w - n)

    def cast_expr(s, op, ft, e, to):
        m = s.mod
        if op in ('bitcast', 'addrspacecast'):
            f = m.resolve(ft) if isinstance(ft, TNamed) else ft
            t = m.resolve(to) if isinstance(to, TNamed) else to
            if isinstance(f, TPtr) and isinstance(t, TPtr): return e
            if isinstance(f, TInt) and isinstance(t, TInt): return e
            raise TypeError('bitcast %r->%r' % (f, t))
        if op == 'ptrtoint': return s.mask(to, '((%s)(u64)%s)' % (s.ctype(to), e))
        if op == 'inttoptr': return '((u8*)(u64)%s)' % e
        if op == 'trunc': return s.mask(to, '((%s)%s)' % (s.ctype(to), e))
        if op == 'zext': return '((%s)%s)' % (s.ctype(to), e)
        if op == 'sext': return s.mask(to, '((%s)%s)' % (s.ctype(to), s.sx(ft, e)))
        if op in ('sitofp',): return '((%s)%s)' % (s.ctype(to), s.sx(ft, e))
        if op in ('uitofp', 'fpext', 'fptrunc'): return '((%s)%s)' % (s.ctype(to), e)
        if op == 'fptoui': return s.mask(to, '((%s)%s)' % (s.ctype(to), e))
        if op == 'fptosi': return s.mask(to, '((%s)(i64)%s)' % (s.ctype(to), e))
        raise TypeError(op)

    def bin_expr(s, op, t, a, b):
        tt = s.mod.resolve(t) if isinstance(t, TNamed) else t
        if isinstance(tt, TFloat):
            return '(%s %s %s)' % (a, {'fadd': '+', 'fsub': '-', 'fmul': '*', 'fdiv': '/'}[op], b)
        ct = s.ctype(tt)
        # promote to at least 32-bit unsigned to avoid int promotion UB
        w = 'u64' if tt.n <= 64 else 'u128'
        A = '(%s)%s' % (w, a); B = '(%s)%s' % (w, b)
        sym = {'add': '+', 'sub': '-', 'mul': '*', 'and': '&', 'or': '|', 'xor': '^'}
        if op in sym: r = '(%s %s %s)' % (A, sym[op], B)
        elif op == 'udiv': r = '(%s / %s)' % (A, B)
        elif op == 'urem': r = '(%s %% %s)' % (A, B)
        elif op == 'sdiv': r = '((%s)(%s / %s))' % (w, s.sx(tt, a), s.sx(tt, b))
        elif op == 'srem': r = '((%s)(%s %% %s))' % (w, s.sx(tt, a), s.sx(tt, b))
        elif op == 'shl': r = '(%s << %s)' % (A, B)
        elif op == 'lshr': r = '(%s >> %s)' % (A, B)
        elif op == 'ashr': r = '((%s)(%s >> %s))' % (w, s.sx(tt, a), B)
        else: raise TypeError(op)
        return s.mask(tt, '((%s)%s)' % (ct, r))

    def icmp_expr(s, pred, t, a, b):
        tt = s.mod.resolve(t) if isinstance(t, TNamed) else t
        sym = {'eq': '==', 'ne': '!=', 'ugt': '>', 'uge': '>=', 'ult': '<', 'ule': '<=', 'sgt': '>', 'sge': '>=', 'slt': '<', 'sle': '<='}[pred]
        if isinstance(tt, TPtr):
            if pred in ('eq', 'ne'): return '((u8)(%s %s %s))' % (a, sym, b)
            return '((u8)((u64)%s %s (u64)%s))' % (a, sym, b)
        if pred[0] == 's':
            return '((u8)(%s %s %s))' % (s.sx(tt, a), sym, s.sx(tt, b))
        return '((u8)(%s %s %s))' % (a, sym, b)

    # ---------------- function emission
    def cproto(s, name, ret, argtys, va):
        r = s.ctype(ret)
        a = ', '.join(s.ctype(t) for t in argtys) or 'void'
        if va: a += ', ...'
        return '%s %s(%s)' % (r, s.gname(name), a)

    def emit_function(s, f):
        m = s.mod
        o = []
        w = o.append
        s.cur_loops = {}
        s.cur_defs = {ins.res: ins for b in f.blocks for ins in b.insts if ins.res is not None}
        s.cur_res = f.name in getattr(s, 'resumable', ())
        s.res_fields = []; s.res_pcs = []
        args = ', '.join('%s v_%s' % (s.ctype(t), cid(n)) for t, n in f.params) or 'void'
        if not s.cur_res:
            w('%s %s(%s) {' % (s.ctype(f.ret), s.gname(f.name), args))
        else:
            w('@@RESUMABLE_HEAD@@')
        # declare all SSA results
        decls = []; rnames = []
        for b in f.blocks:
            for ins in b.insts:
                if ins.res is not None:
                    t = s.result_type(ins)
                    if isinstance(t, TVoid): ins.res = None; continue
                    decls.append('  %s v_%s;' % (s.ctype(t), cid(ins.res))); rnames.append('v_' + cid(ins.res))
                    if ins.op == 'phi':
                        decls.append('  %s p_%s;' % (s.ctype(t), cid(ins.res))); rnames.append('p_' + cid(ins.res))
        if not s.cur_res: o.extend(decls)
        phis = {b.name: [i for i in b.insts if i.op == 'phi'] for b in f.blocks}
        def goto(frm, to):
            # parallel copy into p_ temps then jump; phi reads p_ at block head
            cp = []
            for ph in phis[to]:
                for v, lbl in ph.inc:
                    if lbl == frm:
                        cp.append('p_%s = %s;' % (cid(ph.res), s.val(ph.ty, v)))
                        break
            mark = ''
            lp = s.cur_loops.get(to)
            if lp is not None and frm in lp['body']:
                mark = ' /*LOOPBACK d=%d nest=%d*/' % (lp['depth'], lp['nest'])
            return ' '.join(cp) + ' goto L_%s;%s' % (cid(to), mark)
        # reverse post-order so that only real loop back-edges are backward gotos
        succ = {}
        for b in f.blocks:
            t = b.insts[-1] if b.insts else None
            ss = []
            if t is not None:
                if t.op == 'br': ss = [t.t] + ([t.f] if t.cond is not None else [])
                elif t.op == 'switch': ss = [t.default] + [l for _, l in t.cases]
                elif t.op == 'invoke': ss = [t.normal, t.unwind]
            succ[b.name] = ss
        # natural loops: dominators, back edges, loop membership
        names = [b.name for b in f.blocks]
        preds = {n: [] for n in names}
        for n in names:
            for m_ in succ[n]: preds[m_].append(n)
        dom = {n: set(names) for n in names}; dom[names[0]] = {names[0]}
        ch = True
        while ch:
            ch = False
            for n in names[1:]:
                ps = [dom[p] for p in preds[n]]
                nd = (set.intersection(*ps) if ps else set()) | {n}
                if nd != dom[n]: dom[n] = nd; ch = True
        loops = {}   # header -> set of blocks
        for u in names:
            for h in succ[u]:
                if h in dom[u]:
                    body = loops.setdefault(h, {h}); st = [u]
                    while st:
                        x = st.pop()
                        if x not in body:
                            body.add(x); st.extend(preds[x])
        s.cur_loops = {}
        for h, bd in loops.items():
            depth = sum(1 for h2, bd2 in loops.items() if h2 != h and h in bd2)
            nest = 1 if any(h2 != h and h2 in bd for h2 in loops) else 0
            s.cur_loops[h] = {'body': bd, 'depth': depth, 'nest': nest}
        def inloops(n): return [h for h, bd in loops.items() if n in bd]
        memb = {n: set(inloops(n)) for n in names}
        for n in names:
            # visit loop exits first so that they are finished first and laid out after the loop body
            succ[n] = sorted(succ[n], key=lambda m_: 0 if not memb[n] <= memb[m_] else 1)
        seen = set(); post = []
        def dfs(n0):
            stack = [(n0, iter(succ[n0]))]; seen.add(n0)
            while stack:
                n, it = stack[-1]
                for m_ in it:
                    if m_ not in seen:
                        seen.add(m_); stack.append((m_, iter(succ[m_]))); break
                else:
                    post.append(n); stack.pop()
        dfs(f.blocks[0].name)
        order = {n: i for i, n in enumerate(reversed(post))}
        blocks = sorted([b for b in f.blocks if b.name in order], key=lambda b: order[b.name])
        for b in blocks:
            w(' L_%s: ;' % cid(b.name))
            for ph in phis[b.name]:
                w('  v_%s = p_%s;' % (cid(ph.res), cid(ph.res)))
            for ins in b.insts:
                if ins.op == 'phi': continue
                s.emit_inst(ins, b, w, goto)
        w('}')
        if s.cur_res:
            fn = s.gname(f.name)
            head = ['struct frame_%s { int pc; int yield_point; %s' % (fn, '' if isinstance(f.ret, TVoid) else s.ctype(f.ret) + ' ret;')]
            for t, n in f.params: head.append('  %s v_%s;' % (s.ctype(t), cid(n))); rnames.append('v_' + cid(n))
            head += decls + ['  ' + x for x in s.res_fields] + ['};']
            head.append('\n'.join('#define %s (F->%s)' % (n, n) for n in rnames))
            head.append('int rstep_%s(struct frame_%s* F) {' % (fn, fn))
            head.append('  switch (F->pc) { case 0: break; %s default: __ir_unreachable(); }' % ' '.join('case %d: goto R_%d;' % (k, k) for k in s.res_pcs))
            i = o.index('@@RESUMABLE_HEAD@@')
            o[i:i+1] = head
            o.append('\n'.join('#undef %s' % n for n in rnames))
        s.cur_res = False
        return '\n'.join(o)

    def val(s, t, v): return s.const(t, v)

    def ptrdiff_operands(s, ins):
        out = []
        for v in (ins.a, ins.b):
            if v[0] != 'l' or v[1] not in s.cur_defs: return None
            d = s.cur_defs[v[1]]
            if d.op != 'ptrtoint' or not (isinstance(d.tt, TInt) and d.tt.n == 64): return None
            out.append(s.val(d.ft, d.a))
        return out

    def ret_stmt(s, expr):
        if not getattr(s, 'cur_res', False):
            return 'return%s;' % ('' if expr is None else ' ' + expr)
        if expr is None or isinstance(s.cur_ret, TVoid): return '{ F->pc = -1; return 0; }'
        return '{ F->ret = %s; F->pc = -1; return 0; }' % expr
    def exc_ret(s):
        return s.ret_stmt(None if isinstance(s.cur_ret, TVoid) else s.val(s.cur_ret, ('undef',)))

    def result_type(s, ins):
        op = ins.op
        if op in ('add','sub','mul','udiv','sdiv','urem','srem','and','or','xor','shl','lshr','ashr','fadd','fsub','fmul','fdiv','frem','fneg','freeze','phi','select','load'): return ins.ty
        if op in ('icmp', 'fcmp'): return TInt(1)
        if op in ('trunc','zext','sext','bitcast','ptrtoint','inttoptr','fptoui','fptosi','uitofp','sitofp','fpext','fptrunc','addrspacecast'): return ins.tt
        if op in ('alloca', 'getelementptr'): return TPtr(TInt(8))
        if op in ('call', 'invoke'):
            rt = ins.rt
            if isinstance(rt, TFunc): rt = rt.ret
            if isinstance(rt, TPtr) and isinstance(rt.to, TFunc) and False: pass
            return rt
        if op == 'landingpad': return ins.ty
        if op == 'extractvalue':
            t = ins.ty
            for i in ins.idx:
                tt = s.mod.resolve(t) if isinstance(t, TNamed) else t
                t = tt.els[i] if isinstance(tt, TStruct) else tt.el
            return t
        if op == 'insertvalue': return ins.ty
        if op == 'atomicrmw': return ins.ty
        if op == 'cmpxchg': return TStruct([ins.ty, TInt(1)])
        raise TypeError('result_type ' + op)

    def agg_off(s, t, idx):
        off = 0
        for i in idx:
            tt = s.mod.resolve(t) if isinstance(t, TNamed) else t
            if isinstance(tt, TStruct):
                o, t = s.mod.field_off(tt, i); off += o
            else:
                sz, _ = s.mod.size_align(tt.el); off += sz * i; t = tt.el
        return off, t

    def emit_inst(s, ins, blk, w, goto):
        op = ins.op; m = s.mod
        R = 'v_' + cid(ins.res) if ins.res else None
        if op == 'sub' and isinstance(ins.ty, TInt) and ins.ty.n == 64 and s.ptrdiff_operands(ins):
            # (ptrtoint a) - (ptrtoint b): keep it a pointer difference, which CBMC's symbolic execution can constant-fold
            pa, pb = s.ptrdiff_operands(ins)
            w('  %s = __IR_PTRDIFF(%s, %s);' % (R, pa, pb))
        elif op in ('add','sub','mul','udiv','sdiv','urem','srem','and','or','xor','shl','lshr','ashr','fadd','fsub','fmul','fdiv'):
            w('  %s = %s;' % (R, s.bin_expr(op, ins.ty, s.val(ins.ty, ins.a), s.val(ins.ty, ins.b))))
        elif op == 'icmp':
            w('  %s = %s;' % (R, s.icmp_expr(ins.pred, ins.ty, s.val(ins.ty, ins.a), s.val(ins.ty, ins.b))))
        elif op == 'fcmp':
            sym = {'oeq': '==', 'one': '!=', 'ogt': '>', 'oge': '>=', 'olt': '<', 'ole': '<=', 'ueq': '==', 'une': '!=', 'ugt': '>', 'uge': '>=', 'ult': '<', 'ule': '<='}[ins.pred]
            w('  %s = (u8)(%s %s %s);' % (R, s.val(ins.ty, ins.a), sym, s.val(ins.ty, ins.b)))
        elif op in ('trunc','zext','sext','bitcast','ptrtoint','inttoptr','fptoui','fptosi','uitofp','sitofp','fpext','fptrunc','addrspacecast'):
            w('  %s = %s;' % (R, s.cast_expr(op, ins.ft, s.val(ins.ft, ins.a), ins.tt)))
        elif op == 'freeze':
            w('  %s = %s;' % (R, s.val(ins.ty, ins.a)))
        elif op == 'alloca':
            sz, al = m.size_align(ins.ty)
            nm = 'a_' + cid(ins.res)
            if getattr(s, 'cur_res', False) and (ins.n is None or ins.n[1][0] == 'int'):
                cnt = 1 if ins.n is None else ins.n[1][1]
                s.res_fields.append('u8 %s[%d] __attribute__((aligned(%d)));' % (nm, max(1, sz * cnt), max(al, 1)))
                w('  %s = F->%s;' % (R, nm))
            elif ins.n is None or ins.n[1][0] == 'int':
                cnt = 1 if ins.n is None else ins.n[1][1]
                w('  static u8 %s_dummy; u8 %s[%d] __attribute__((aligned(%d))); %s = %s;' % (nm, nm, max(1, sz * cnt), max(al, 1), R, nm))
            else:
                w('  %s = (u8*)__builtin_alloca(%d * (u64)%s);' % (R, sz, s.val(ins.n[0], ins.n[1])))
        elif op == 'load':
            t = m.resolve(ins.ty) if isinstance(ins.ty, TNamed) else ins.ty
            a = s.val(TPtr(ins.ty), ins.a)
            if isinstance(t, (TStruct, TArr)):
                w('  %s = *(%s*)%s;' % (R, s.ctype(t), a))
            else:
                w('  %s = %s;' % (R, s.mask(t, '*(%s*)%s' % (s.ctype(t), a))))
        elif op == 'store':
            t = m.resolve(ins.ty) if isinstance(ins.ty, TNamed) else ins.ty
            a = s.val(TPtr(ins.ty), ins.a)
            w('  *(%s*)%s = %s;' % (s.ctype(t), a, s.val(t, ins.v)))
        elif op == 'getelementptr':
            w('  %s = %s;' % (R, s.gep_expr(ins.bt, s.val(TPtr(ins.bt), ins.a), ins.idx)))
        elif op == 'select':
            w('  %s = %s ? %s : %s;' % (R, s.val(TInt(1), ins.c), s.val(ins.ty, ins.a), s.val(ins.ty, ins.b)))
        elif op == 'br':
            if ins.cond is None: w('  ' + goto(blk.name, ins.t))
            else: w('  if (%s) { %s } else { %s }' % (s.val(TInt(1), ins.cond), goto(blk.name, ins.t), goto(blk.name, ins.f)))
        elif op == 'switch':
            w('  switch (%s) {' % s.val(ins.ty, ins.v))
            for cv, lbl in ins.cases:
                w('   case %s: { %s }' % (s.val(ins.ty, cv), goto(blk.name, lbl)))
            w('   default: { %s } }' % goto(blk.name, ins.default))
        elif op == 'ret':
            if ins.v is None: w('  ' + s.ret_stmt(None))
            else: w('  ' + s.ret_stmt(s.val(ins.ty, ins.v)))
        elif op == 'unreachable':
            w('  __ir_unreachable();')
        elif op in ('call', 'invoke'):
            s.emit_call(ins, blk, w, goto)
        elif op == 'landingpad':
            w('  __ir_landingpad((u8*)&%s);' % R)
            # clause handling left to runtime model: selector computed by __ir_selector with clause list
            cl = []
            for k, v in ins.clauses:
                if k == 'catch': cl.append(s.val(TPtr(TInt(8)), v))
            w('  __ir_lp_select((u8*)&%s, %d, (u8*[]){%s});' % (R, len(cl), ', '.join(cl + ['0'])))
        elif op == 'resume':
            w('  __ir_resume(*(u8**)&%s); %s' % (s.val(ins.ty, ins.v), s.exc_ret()))
        elif op == 'extractvalue':
            off, t = s.agg_off(ins.ty, ins.idx)
            src = s.val(ins.ty, ins.a)
            if ins.a[0] != 'l':
                w('  { %s tmp_ = %s; %s = *(%s*)(tmp_.b + %d); }' % (s.ctype(ins.ty), src, R, s.ctype(t), off))
            else:
                w('  %s = *(%s*)(%s.b + %d);' % (R, s.ctype(t), src, off))
        elif op == 'insertvalue':
            off, t = s.agg_off(ins.ty, ins.idx)
            w('  %s = %s; *(%s*)(%s.b + %d) = %s;' % (R, s.val(ins.ty, ins.a), s.ctype(t), R, off, s.val(ins.et, ins.v)))
        elif op == 'atomicrmw':
            a = s.val(TPtr(ins.ty), ins.a); ct = s.ctype(ins.ty); v = s.val(ins.ty, ins.v)
            newv = {'xchg': v, 'add': '(%s)(old_ + %s)' % (ct, v), 'sub': '(%s)(old_ - %s)' % (ct, v), 'and': 'old_ & %s' % v, 'or': 'old_ | %s' % v, 'xor': 'old_ ^ %s' % v}[ins.rop]
            w('  { __ir_atomic_begin(); %s old_ = *(%s*)%s; *(%s*)%s = %s; __ir_atomic_end(); %s = old_; }' % (ct, ct, a, ct, a, newv, R))
        elif op == 'cmpxchg':
            a = s.val(TPtr(ins.ty), ins.a); ct = s.ctype(ins.ty)
            off1, _ = m.field_off(TStruct([ins.ty, TInt(1)]), 1)
            w('  { __ir_atomic_begin(); %s old_ = *(%s*)%s; u8 ok_ = old_ == %s; if (ok_) *(%s*)%s = %s; __ir_atomic_end(); *(%s*)(%s.b) = old_; *(u8*)(%s.b + %d) = ok_; }' % (ct, ct, a, s.val(ins.ty, ins.c), ct, a, s.val(ins.ty, ins.n), ct, R, R, off1))
        elif op == 'fence':
            w('  __ir_fence();')
        else:
            raise TypeError('emit ' + op)

    INTRIN_IGNORE = ('llvm.lifetime.', 'llvm.dbg.', 'llvm.assume', 'llvm.experimental.noalias', 'llvm.invariant.', 'llvm.prefetch')
    def emit_call(s, ins, blk, w, goto):
        m = s.mod
        rt = ins.rt; fty = None
        if isinstance(rt, TFunc): fty = rt; rt = rt.ret
        R = 'v_' + cid(ins.res) if ins.res and not isinstance(rt, TVoid) else None
        callee = ins.callee
        if callee[0] == 'g' and callee[1][1:].startswith(s.INTRIN_IGNORE):
            if ins.op == 'invoke': w('  ' + goto(blk.name, ins.normal))
            return
        args = [s.val(t, v) for t, v in ins.args]
        def finish(expr):
            w('  %s%s;' % (R + ' = ' if R else '', expr))
            if ins.op == 'invoke':
                w('  if (__ir_exc_pending) { %s } else { %s }' % (goto(blk.name, ins.unwind), goto(blk.name, ins.normal)))
            else:
                w('  if (__ir_exc_pending) %s' % s.exc_ret())
        if callee[0] == 'g':
            nm = callee[1]; base = nm[1:]
            if base.startswith(s.INTRIN_IGNORE):
                if ins.op == 'invoke': w('  ' + goto(blk.name, ins.normal))
                return
            cst = '_c' if len(ins.args) > 2 and ins.args[2][1][0] == 'int' else ''   # constant length: CBMC's built-in; dynamic length: bounded byte loop
            if base.startswith('llvm.memcpy') or base.startswith('llvm.memmove'):
                return finish('__ir_%s%s(%s, %s, (u64)%s)' % ('memcpy' if 'memcpy' in base else 'memmove', cst, args[0], args[1], args[2]))
            if base.startswith('llvm.memset'):
                return finish('__ir_memset%s(%s, %s, (u64)%s)' % (cst, args[0], args[1], args[2]))
            if base.startswith('llvm.expect'): return finish(args[0])
            mm = re.match(r'llvm\.(umin|umax|smin|smax)\.i(\d+)', base)
            if mm:
                t = TInt(int(mm.group(2))); a, b = args
                if mm.group(1)[0] == 's': ca, cb = s.sx(t, a), s.sx(t, b)
                else: ca, cb = a, b
                cmp = '<' if mm.group(1).endswith('min') else '>'
                return finish('(%s %s %s ? %s : %s)' % (ca, cmp, cb, a, b))
            if base.startswith('llvm.eh.typeid.for'): return finish('__ir_typeid_for(%s)' % args[0])
            if base.startswith('llvm.trap'): return finish('__ir_trap()')
            if base.startswith('llvm.'):
                # generic: call a model named __ir_llvm_xxx (prototype emitted with the unit; the harness provides the body)
                gn = '__ir_' + re.sub(r'[^A-Za-z0-9_]', '_', base)
                if nm in m.decls:
                    r_, ar_, _va = m.decls[nm]
                    s.intrinsic_protos[gn] = '%s %s(%s);' % (s.ctype(r_), gn, ', '.join(s.ctype(t_) for t_ in ar_) or 'void')
                return finish('%s(%s)' % (gn, ', '.join(args)))
            if getattr(s, 'cur_res', False) and base == 'pistache_verif_yield':
                k = len(s.res_pcs) + 1; s.res_pcs.append(k)
                w('  F->yield_point = (int)%s; F->pc = %d; return 1; R_%d: ;' % (args[0], k, k))
                if ins.op == 'invoke': w('  ' + goto(blk.name, ins.normal))
                return
            s.need_funcs[nm] = True
            if getattr(s, 'cur_res', False) and nm in s.resumable:
                s.emit_res_call(nm, args, R, w)
                return finish(R if R else '0')
            va = (nm in m.decls and m.decls[nm][2]) or (nm in m.funcs and m.funcs[nm].va)
            if va:
                # varargs: cast through prototype of actual call
                proto = '%s (*)(%s)' % (s.ctype(rt), ', '.join(s.ctype(t) for t, _ in ins.args) or 'void')
                return finish('((%s)%s)(%s)' % (proto, s.gname(nm), ', '.join(args)))
            return finish('%s(%s)' % (s.gname(nm), ', '.join(args)))
        # indirect call: slot-based devirtualisation for virtual calls, exact-IR-type for other pointers
        fp = s.val(TPtr(TInt(8)), callee)
        cands = s.indirect_candidates(ins, rt) or []
        # candidates known from the module first; anything else goes to a dispatcher __ir_indirect_<sig>(fp, args...) whose
        # default body (generated, overridable by the harness with -DVP_DISPATCH_<sig>) is an assertion failure
        key = 'r%s_%s' % (s.ctype(rt).replace('*', 'p'), '_'.join(s.ctype(t).replace('*', 'p') for t, _ in ins.args))
        dn = '__ir_indirect_' + key
        s.dispatchers[dn] = (s.ctype(rt), [s.ctype(t) for t, _ in ins.args], key)
        w('  { u8* fp_ = %s;' % fp)
        for c_ in cands:
            s.need_funcs[c_] = True
            if getattr(s, 'cur_res', False) and c_ in s.resumable:
                w('    if (fp_ == (u8*)%s) {' % s.gname(c_)); s.emit_res_call(c_, args, R, w); w('    } else')
                continue
            w('    if (fp_ == (u8*)%s) { %s%s(%s); } else' % (s.gname(c_), R + ' = ' if R else '', s.gname(c_), ', '.join(args)))
        w('    { %s%s(%s); } }' % (R + ' = ' if R else '', dn, ', '.join(['fp_'] + args)))
        return finish('0' if not R else R)

    def emit_res_call(s, callee, args, R, w):
        f2 = s.mod.funcs[callee]
        k = len(s.res_pcs) + 1; s.res_pcs.append(k)
        sub = 'sub_%d' % k
        s.res_fields.append('struct frame_%s %s;' % (s.gname(callee), sub))
        w('  F->%s.pc = 0;' % sub)
        for (t, n), a in zip(f2.params, args): w('  F->%s.v_%s = %s;' % (sub, cid(n), a))
        w('  R_%d: if (rstep_%s(&F->%s)) { F->yield_point = F->%s.yield_point; F->pc = %d; return 1; }' % (k, s.gname(callee), sub, sub, k))
        if R and not isinstance(f2.ret, TVoid): w('  %s = F->%s.ret;' % (R, sub))

    def vtable_slots(s):
        """vtable global name -> {slot index (relative to the address point): function name}"""
        if hasattr(s, '_slots'): return s._slots
        m = s.mod; tabs = {}
        for nm, g in m.globals.items():
            if not nm.startswith('@_ZTV') or g[0] == 'alias' or g[1] is None: continue
            init = g[1]
            arrays = []
            if init[0] == 'cstruct': arrays = [ev for et, ev in init[1] if ev[0] == 'carray']
            elif init[0] == 'carray': arrays = [init]
            def fn_of(v):
                while v[0] == 'ccast': v = v[3]
                if v[0] == 'g' and (v[1] in m.funcs or v[1] in m.decls): return v[1]
                return None
            slots = {}
            for arr in arrays:
                els = [ev for et, ev in arr[1]]
                ap = None
                for i, v in enumerate(els):
                    vv = v
                    while vv[0] == 'ccast': vv = vv[3]
                    if vv[0] == 'g' and vv[1].startswith('@_ZTI'): ap = i + 1
                    elif ap is None and vv[0] == 'null' and i + 1 < len(els) and fn_of(els[i+1]): ap = i + 1  # -fno-rtti
                if ap is None: ap = 2
                for i in range(ap, len(els)):
                    f = fn_of(els[i])
                    if f: slots.setdefault(i - ap, set()).add(f)
            tabs[nm] = slots
        s._slots = tabs
        return tabs

    def derived_vtables(s, static_type):
        """vtables of the classes derived from (or equal to) the class named by the IR struct type of 'this', using the
        type_info globals of the module; None when the hierarchy cannot be established (template classes, missing RTTI)"""
        m = s.mod
        if not isinstance(static_type, TPtr) or not isinstance(static_type.to, TNamed): return None
        nm = static_type.to.name.strip('%').strip('"')
        mm = re.match(r'(?:class|struct)\.([A-Za-z_][A-Za-z0-9_]*(?:::[A-Za-z_][A-Za-z0-9_]*)*)(?:\.base)?(?:\.\d+)?$', nm)
        if not mm: return None
        parts = mm.group(1).split('::')
        enc = ''.join('%d%s' % (len(p), p) for p in parts)
        if parts[0] == 'std' and len(parts) == 2: suffix = 'St' + '%d%s' % (len(parts[1]), parts[1])
        else: suffix = ('N' + enc + 'E') if len(parts) > 1 else enc
        base = '@_ZTI' + suffix
        if base not in m.globals: return None
        def bases_of(ti):
            g = m.globals.get(ti)
            if not g or g[0] == 'alias' or g[1] is None or g[1][0] != 'cstruct': return []
            out = []
            def walk(v):
                if not isinstance(v, tuple): return
                if v and v[0] == 'g' and v[1].startswith('@_ZTI') and v[1] != ti: out.append(v[1]); return
                for x in v:
                    if isinstance(x, tuple): walk(x)
                    elif isinstance(x, list):
                        for y in x:
                            if isinstance(y, tuple): walk(y)
            for et, ev in g[1][1][2:]: walk(ev)
            return out
        derived = set()
        for ti in [n for n in m.globals if n.startswith('@_ZTI')]:
            seen = set(); st = [ti]
            while st:
                x = st.pop()
                if x in seen: continue
                seen.add(x)
                if x == base: derived.add(ti); break
                st.extend(bases_of(x))
        return ['@_ZTV' + t[5:] for t in derived]

    def indirect_candidates(s, ins, rt):
        m = s.mod
        defs = s.cur_defs
        nargs = len(ins.args)
        def arity(n):
            if n in m.funcs: return len(m.funcs[n].params), m.funcs[n].ret, [t for t, _ in m.funcs[n].params]
            r_, a_, _ = m.decls[n]; return len(a_), r_, a_
        def compatible(n):
            na, r_, a_ = arity(n)
            if na != nargs: return False
            if s.ctype(r_) != s.ctype(rt): return False
            return all(s.ctype(t1) == s.ctype(t2) for t1, (t2, _) in zip(a_, ins.args))
        callee = ins.callee
        slot = None
        if callee[0] == 'l' and callee[1] in defs and defs[callee[1]].op == 'load':
            a = defs[callee[1]].a
            k = None
            if a[0] == 'l' and a[1] in defs:
                d = defs[a[1]]
                if d.op == 'getelementptr' and len(d.idx) == 1 and d.idx[0][1][0] == 'int' and d.a[0] == 'l' and d.a[1] in defs and defs[d.a[1]].op == 'load':
                    k = d.idx[0][1][1]
                elif d.op == 'load':
                    k = 0
            slot = k
        if slot is not None:
            tabs = s.vtable_slots()
            only = s.derived_vtables(ins.args[0][0]) if ins.args else None
            names = set()
            for vt, slots in tabs.items():
                if only is not None and vt not in only: continue
                names |= slots.get(slot, set())
            c = sorted(n for n in names if compatible(n))
            c = [n for n in c if n[1:] not in ('__cxa_pure_virtual',)]
            return c
        if not hasattr(s, 'taken'):
            s.taken = address_taken(m)
            s.sig = {}
            for n in s.taken:
                if n in m.funcs: f_ = m.funcs[n]; k_ = (tkey(m, f_.ret), tuple(tkey(m, t) for t, _ in f_.params))
                else: r_, a_, _ = m.decls[n]; k_ = (tkey(m, r_), tuple(tkey(m, t) for t in a_))
                s.sig.setdefault(k_, []).append(n)
        key = (tkey(m, rt), tuple(tkey(m, t) for t, _ in ins.args))
        return sorted(s.sig.get(key, []))

    # ---------------- globals
    def emit_global(s, nm):
        m = s.mod
        t, init, const = m.globals[nm]
        sz, al = m.size_align(t)
        inits = []   # runtime pointer stores
        data = bytearray(max(sz, 1))
        def fill(t, v, off):
            tt = m.resolve(t) if isinstance(t, TNamed) else t
            k = v[0]
            if k in ('zero', 'undef', 'null'): return
            if k == 'int':
                n = max(1, (tt.n + 7) // 8); data[off:off+n] = (v[1] & ((1 << (8*n)) - 1)).to_bytes(n, 'little'); return
            if k == 'str':
                raw = v[1][2:-1]; bs = bytearray(); i = 0
                while i < len(raw):
                    if raw[i] == '\\':
                        if raw[i+1] == '\\': bs.append(92); i += 2
                        else: bs.append(int(raw[i+1:i+3], 16)); i += 3
                    else: bs.append(ord(raw[i])); i += 1
                data[off:off+len(bs)] = bs; return
            if k == 'cstruct':
                for i, (et, ev) in enumerate(v[1]):
                    o, _ = m.field_off(tt, i); fill(et, ev, off + o)
                return
            if k == 'carray':
                esz, _ = m.size_align(tt.el)
                for i, (et, ev) in enumerate(v[1]): fill(et, ev, off + i * esz)
                return
            if k in ('fp', 'fphex'):
                import struct
                x = float(s.const(tt, v)); data[off:off+8] = struct.pack('<d', x) if tt.k == 'double' else struct.pack('<f', x); return
            # pointer-valued constant expression
            inits.append('  *(%s*)((u8*)&%s + %d) = %s;' % (s.ctype(tt), s.gname(nm), off, s.const(tt, v)))
        if init is not None: fill(t, init, 0)
        if init is None:
            return 'extern u8 %s[];' % s.gname(nm), []
        body = ','.join(str(b) for b in data)
        return 'u8 %s[%d] __attribute__((aligned(%d))) = {%s};' % (s.gname(nm), max(sz, 1), max(al, 8), body), inits

PRELUDE = r'''
#include <stdint.h>
#include <stddef.h>
typedef uint8_t u8; typedef uint16_t u16; typedef uint32_t u32; typedef uint64_t u64; typedef unsigned __int128 u128;
typedef int8_t i8; typedef int16_t i16; typedef int32_t i32; typedef int64_t i64; typedef __int128 i128;
extern int __ir_exc_pending;
/* (ptrtoint a) - (ptrtoint b) with 64-bit wrap-around: inside one object the difference of the offsets (which CBMC can
 * constant-fold; C pointer subtraction itself is flagged as signed overflow by CBMC 6.11 when the result is negative) */
#ifdef NATIVE
#define __IR_PTRDIFF(a, b) ((u64)(a) - (u64)(b))
#else
#define __IR_PTRDIFF(a, b) (__CPROVER_same_object((a), (b)) ? (u64)__CPROVER_POINTER_OFFSET(a) - (u64)__CPROVER_POINTER_OFFSET(b) : (u64)(a) - (u64)(b))
#endif
void __ir_unreachable(void); void __ir_trap(void);
u8* __ir_memcpy(u8*, u8*, u64); u8* __ir_memmove(u8*, u8*, u64); u8* __ir_memset(u8*, u8, u64);
u8* __ir_memcpy_c(u8*, u8*, u64); u8* __ir_memmove_c(u8*, u8*, u64); u8* __ir_memset_c(u8*, u8, u64);
void __ir_atomic_begin(void); void __ir_atomic_end(void); void __ir_fence(void);
void __ir_resume(u8*); u32 __ir_typeid_for(u8*);
void __ir_lp_select(u8* lp, int n, u8** clauses); void __ir_bad_indirect(void); void __ir_landingpad(u8* lp);
'''

def main():
    import argparse, json, hashlib
    ap = argparse.ArgumentParser()
    ap.add_argument('out'); ap.add_argument('files', nargs='+')
    ap.add_argument('--roots', default=''); ap.add_argument('--stub', default=''); ap.add_argument('--stubfile')
    ap.add_argument('--info'); ap.add_argument('--globals', default=''); ap.add_argument('--resumable', default='')
    a = ap.parse_args()
    roots = [r for r in a.roots.split(',') if r]; stubs = set(x for x in a.stub.split(',') if x)
    if a.stubfile: stubs |= set(open(a.stubfile).read().split())
    mod = Module()
    h = hashlib.sha256()
    for f in a.files:
        t = open(f).read(); h.update(t.encode()); parse_module(t, mod)
    em = Emitter(mod, stubs)
    em.resumable = set()
    if a.resumable:
        def callees(f):
            out = set()
            for b in f.blocks:
                for ins in b.insts:
                    if ins.op in ('call', 'invoke') and ins.callee[0] == 'g': out.add(ins.callee[1])
            return out
        direct = {n: callees(f) for n, f in mod.funcs.items()}
        em.resumable = {n for n, c in direct.items() if '@pistache_verif_yield' in c}
        # virtual/indirect calls: any function whose address is taken and that is resumable may be a devirtualisation candidate
        changed = True
        while changed:
            changed = False
            for n, c in direct.items():
                if n not in em.resumable and (c & em.resumable or (any(ins.op in ('call', 'invoke') and ins.callee[0] != 'g' for b in mod.funcs[n].blocks for ins in b.insts) and n[1:] in a.resumable.split(','))):
                    em.resumable.add(n); changed = True
    for r in roots:
        if '@' + r not in mod.funcs and '@' + r not in mod.decls: raise SystemExit('ir2c: root not in module: ' + r)
        em.need_funcs['@' + r] = True
    for g_ in [x for x in a.globals.split(',') if x]:
        if '@' + g_ not in mod.globals: raise SystemExit('ir2c: global not in module: ' + g_)
        em.need_globals['@' + g_] = True
    done = set(); bodies = []; protos = []; res_bodies = {}
    gl_done = set(); gl_defs = []; gl_inits = []
    progress = True
    translated = []
    while progress:
        progress = False
        for nm in list(em.need_funcs):
            if nm in done: continue
            done.add(nm); progress = True
            if nm in mod.funcs and nm[1:] not in stubs:
                f = mod.funcs[nm]; em.cur_ret = f.ret
                protos.append(em.cproto(nm, f.ret, [t for t, _ in f.params], f.va) + ';')
                body = em.emit_function(f); translated.append(nm[1:])
                if nm in em.resumable:
                    args_ = ', '.join('%s a%d' % (em.ctype(t), i) for i, (t, _) in enumerate(f.params)) or 'void'
                    body += '\n%s %s(%s) { __ir_unreachable(); %s }' % (em.ctype(f.ret), em.gname(nm), args_, '' if isinstance(f.ret, TVoid) else 'return (%s)%s;' % (em.ctype(f.ret), '{{0}}' if em.ctype(f.ret).startswith('agg') else '0'))
                    res_bodies[em.gname(nm)] = body
                else:
                    bodies.append(body)
            elif nm in mod.funcs:
                f = mod.funcs[nm]
                protos.append(em.cproto(nm, f.ret, [t for t, _ in f.params], f.va) + '; /* stubbed */')
            elif nm in mod.decls:
                r, ar, va = mod.decls[nm]
                protos.append(em.cproto(nm, r, ar, va) + '; /* extern */')
            else:
                raise KeyError(nm)
        for nm in list(em.need_globals):
            if nm in gl_done: continue
            gl_done.add(nm); progress = True
            d, ini = em.emit_global(nm)
            gl_defs.append(d); gl_inits.extend(ini)
    # resumable functions: callee frames must be complete before their callers
    ordered = []; left = dict(res_bodies)
    while left:
        prog = False
        for n_ in list(left):
            deps = [d for d in left if d != n_ and ('struct frame_%s ' % d) in left[n_]]
            if not deps: ordered.append(left.pop(n_)); prog = True
        if not prog: raise SystemExit('ir2c: recursive resumable functions: ' + ', '.join(left))
    bodies = ordered + bodies
    dispatch_bodies = []
    with open(a.out, 'w') as fo:
        fo.write(PRELUDE)
        fo.write('\n'.join(em.struct_defs) + '\n')
        fo.write('\n'.join(protos) + '\n')
        fo.write('\n'.join(sorted(em.intrinsic_protos.values())) + '\n')
        for dn, (rt_, ats, key) in em.dispatchers.items():
            proto = '%s %s(u8* fp%s)' % (rt_, dn, ''.join(', %s a%d' % (t, i) for i, t in enumerate(ats)))
            fo.write('%s;\n' % proto)
            dispatch_bodies.append('#ifndef VP_DISPATCH_%s\n%s { __ir_bad_indirect(); %s }\n#endif' % (key, proto, '' if rt_ == 'void' else 'return (%s)%s;' % (rt_, '{{0}}' if rt_.startswith('agg') else '0')))
        fo.write('\n'.join(gl_defs) + '\n')
        fo.write('void __ir_rt_init(void);\nvoid __ir_init_globals(void) {\n  __ir_rt_init();\n' + '\n'.join(gl_inits) + '\n}\n')
        fo.write('\n\n'.join(bodies) + '\n')
        fo.write('\n'.join(dispatch_bodies) + '\n')
    ext = sorted(n[1:] for n in done if n not in mod.funcs or n[1:] in stubs)
    if a.info:
        json.dump({'translated': translated, 'externs': ext, 'globals': sorted(gl_done), 'dispatchers': sorted(em.dispatchers), 'ir_sha256': h.hexdigest()}, open(a.info, 'w'), indent=1)
    sys.stderr.write('ir2c: %d functions, %d externs, %d globals\n' % (len(bodies), len(ext), len(gl_defs)))

if __name__ == '__main__':
    main()
