#!/usr/bin/env python3
"""Maintenance helper (not run by checks): refresh the commit hashes of 'fixed' entries in known_findings.json from /repo's log."""
import json, subprocess, re
log = subprocess.run(['git', '-C', '/repo', 'log', '--format=%h %s'], stdout=subprocess.PIPE, text=True).stdout.split('\n')
KEYS = {'D12': 'PollableQueue::pop could swallow', 'D10': 'asyncWriteImpl busy-waited', 'D9': 'a write resumed after EAGAIN', 'D1': 'snext read one byte past', 'D3a': 'match_double ran strtod', 'D2': 'appended the chunk terminator', 'D3b': 'chunk-size line was handed to strtol',
        'D4': 'reserve() was called with a length taken', 'D16': 'reported complete before its final CRLF', 'D5': 'parser reset kept the body step',
        'D6': 'status line shorter than the HTTP version', 'D3c': 'status code token was handed to strtol'}
kf = json.load(open('/verif/known_findings.json'))
for f in kf['findings']:
    k = f.get('subject_key') or KEYS.get(f['id'])
    if not k or f.get('status') != 'fixed': continue
    f['subject_key'] = k
    hit = [l.split()[0] for l in log if k in l]
    if hit:
        old = f['commit']; f['commit'] = hit[0]
        f['line'] = re.sub(r'(fixed: property=\S+ )\S+', r'\g<1>' + hit[0], f['line'])
json.dump(kf, open('/verif/known_findings.json', 'w'), indent=1)
print('\n'.join(f['line'][:110] for f in kf['findings']))
