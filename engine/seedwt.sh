#!/bin/bash
# usage: seedwt.sh <seed-id|path-to-diff> <property> [extra check args]
# Applies a seeded change in a throw-away git worktree of /repo (so several seeds can be tried in parallel and /repo stays
# untouched), runs the check against it (VP_REPO), prints the verdict lines and removes the worktree.
ID=$1; PROP=$2; shift 2
if [ -f "$ID" ]; then P=$ID; ID=$(basename $ID .diff); else P=/verif/seeded/$ID/patch.diff; [ -f /verif/seeded/$ID/patch_rebased.diff ] && P=/verif/seeded/$ID/patch_rebased.diff; fi
WT=/tmp/swt_${ID}_$$
git -C /repo worktree add -q --detach $WT HEAD || exit 9
mkdir -p $WT/_build && ln -s /repo/_build/include $WT/_build/include
if [ "$REVERSE" = 1 ]; then git -C $WT apply -R $P || { echo PATCH-FAILED; git -C /repo worktree remove --force $WT; exit 8; }
else git -C $WT apply $P 2>/dev/null || git -C $WT apply -3 $P 2>/dev/null || { echo PATCH-FAILED; git -C /repo worktree remove --force $WT; exit 8; }; fi
cd /verif && VP_REPO=$WT ./check $PROP --no-evidence "$@" 2>&1 | grep -E "^BROKEN|^VIOLATION|^OK|^UNCONF|^KNOWN|^  harness" | cut -c1-300
git -C /repo worktree remove --force $WT
