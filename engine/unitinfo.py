#!/usr/bin/env python3
"""dev helper: build one unit of a property spec and list translated functions / externs.  usage: unitinfo.py C17 unitname [outdir]"""
import sys, os, json
sys.path.insert(0, os.path.dirname(os.path.abspath(__file__)))
import vprun
spec = vprun.load_spec(sys.argv[1]); name = sys.argv[2]
work = sys.argv[3] if len(sys.argv) > 3 else os.path.join(vprun.VERIF, '.scratch', sys.argv[1] + '_' + name)
os.makedirs(work, exist_ok=True)
try:
    u = vprun.build_unit(work, name, spec.UNITS[name])
except vprun.Broken as e:
    print('BROKEN', e); sys.exit(2)
print('translated:'); [print('  ', f) for f in u['info']['translated']]
print('externs:'); [print('  ', f) for f in u['info']['externs']]
print('C:', u['c'])
