#!/usr/bin/env python3
"""setup_cmd: verifies that the offline tool chain the checks need is present (nothing is downloaded or built)."""
import shutil, subprocess, sys
need = ['clang++-14', 'opt-14', 'cbmc', 'gcc', 'g++', 'python3']
missing = [t for t in need if not shutil.which(t)]
if missing: print('missing tools:', missing); sys.exit(1)
v = subprocess.run(['cbmc', '--version'], stdout=subprocess.PIPE, text=True).stdout.strip()
print('tool chain ok; cbmc', v)
