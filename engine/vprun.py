#!/usr/bin/env python3
"""Runner for the solver-based checks.  One invocation = one property, one tier.

  python3 engine/vprun.py C20 [--tier quick|thorough] [--replay FILE] [--only HARNESS] [--keep]

Pipeline per run (everything regenerated from /repo's working tree):
  unit source --clang++-14--> LLVM IR --(sel: noinline marking + opt-14)--> ir2c --> unit.c
  unit.c + models + harness.c --cbmc--> verdict | trace --> replay natively against the real g++ build
Exit codes: 0 held on everything explored; 1 violation (VIOLATION line printed); 2 inconclusive/broken.
"""
import sys, os, re, json, time, subprocess, shutil, hashlib, importlib.util, concurrent.futures as cf, threading, random

VERIF = os.path.dirname(os.path.dirname(os.path.abspath(__file__)))
REPO = os.environ.get('VP_REPO', '/repo')
ENGINE = os.path.join(VERIF, 'engine')
MODELS = os.path.join(VERIF, 'models')
HARNESS = os.path.join(VERIF, 'harness')
CLANG = 'clang++-14'
CXXDEFS = ['-std=c++17', '-DNDEBUG', '-DONLY_C_LOCALE=1',
           '-I' + os.path.join(REPO, 'include'), '-I' + os.path.join(REPO, 'subprojects/hinnant-date/include'),
           '-I' + os.path.join(REPO, '_build/include'), '-I' + os.path.join(VERIF, 'harness')]
IRFLAGS = ['-fno-vectorize', '-fno-slp-vectorize', '-fno-unroll-loops', '-fno-discard-value-names', '-S', '-emit-llvm',
           '-Wno-everything']
CBMC_SAFETY = ['--unwinding-assertions', '--signed-overflow-check', '--undefined-shift-check',
               '--drop-unused-functions', '--no-malloc-may-fail', '--no-standard-checks', '--bounds-check', '--pointer-check',
               '--div-by-zero-check', '--object-bits', '12', '--max-field-sensitivity-array-size', '256']
NCPU = os.cpu_count() or 8
print_lock = threading.Lock()
procs = set(); procs_lock = threading.Lock()   # process groups of running solver jobs (killed when the runner is interrupted)

def log(*a):
    with print_lock:
        print(*a, flush=True)

def sh(cmd, **kw):
    return subprocess.run(cmd, stdout=subprocess.PIPE, stderr=subprocess.STDOUT, text=True, **kw)

class Broken(Exception):
    pass

# ----------------------------------------------------------------------------- units
INLINE_OK = re.compile(r'^(?:_ZNK?St15basic_streambuf|_ZNSt11char_traitsIcE|_ZSt4moveI|_ZSt7forwardI|_ZNK?St16initializer_list|_ZSt3minI|_ZSt3maxI|'
                       r'_ZNK?9__gnu_cxx17__normal_iterator|_ZN9__gnu_cxx(?:eq|ne|lt|mi)|_ZSt9addressof|_ZSt11__addressof|_ZNK?St6chrono|_ZNSt5ratio|_ZNSt6chrono|_ZSt(?:mi|pl|lt|gt|ge|le|eq|ne)[IR]?.*St6chrono|'
                       r'_ZSt3getI|_ZNSt5tupleI|_ZNSt11_Tuple_impl|_ZNSt10_Head_base|_ZSt12__get_helper|_ZSt4swapI|'
                       r'_ZNK?St6atomic|_ZNK?St13__atomic_base|_ZStanSt12memory_order|_ZSt23__cmpexch_failure_order|_ZNSt15__new_allocator|_ZNSaI|_ZNKSaI|_ZNSt16allocator_traits|_ZNSt19__ptr_traits|_ZSt12__to_address|'
                       r'_ZNSt14numeric_limits|_ZSt8distanceI|_ZSt10__distanceI|_ZSt19__iterator_category|_ZNSt14pointer_traits)')

def sel_mark(text, keep_noinline, extra_inline=None, std_too=True, marked_out=None):
    """sel mode: add noinline to every std::/__gnu_cxx:: function definition except whitelisted helpers and to the
    functions the harness stubs, so that opt -O1 keeps them as call boundaries."""
    attr_groups = {}
    for m in re.finditer(r'^attributes #(\d+) = \{([^}]*)\}', text, re.M):
        attr_groups[m.group(1)] = m.group(2)
    out = []
    for ln in text.split('\n'):
        if ln.startswith('define '):
            m = re.search(r'@("[^"]*"|[-a-zA-Z$._0-9]+)\(', ln)
            name = m.group(1) if m else ''
            am = re.search(r'#(\d+)(?: (?:align \d+ |comdat |personality[^{]*|section "[^"]*" )*)?\s*(?:personality[^{]*)?(?:!dbg ![0-9]+ )?\{$', ln)
            is_std = name.startswith(('_ZNSt', '_ZNKSt', '_ZSt', '_ZN9__gnu_cxx', '_ZNK9__gnu_cxx', '_ZNSa', '_ZNKSa', '_ZStpl', '_ZSteq', '_ZStne', '_ZStlt'))
            want = (std_too and is_std and not INLINE_OK.match(name) and not (extra_inline and extra_inline.search(name))) or name in keep_noinline
            if want and am and 'alwaysinline' not in attr_groups.get(am.group(1), '') and ' noinline' not in ln:
                i = ln.rfind('#' + am.group(1))
                ln = ln[:i] + 'noinline ' + ln[i:]
                ln = ln.replace(' available_externally ', ' linkonce_odr ')
                if marked_out is not None and is_std: marked_out.add(name)
        out.append(ln)
    return '\n'.join(out)

def build_unit(work, name, u):
    """returns dict(c=path, info=dict).  u['src'] may be one source file or a list (linked with llvm-link-14)."""
    srcs = u['src'] if isinstance(u['src'], (list, tuple)) else [u['src']]
    ll = os.path.join(work, name + '.ll')
    mode = u.get('mode', 'inl')
    t0 = time.time()
    extra = u.get('cflags', [])
    parts = []
    for i, s_ in enumerate(srcs):
        src = s_ if os.path.isabs(s_) else os.path.join(VERIF, s_)
        src = src.replace('/repo/', REPO + '/') if src.startswith('/repo/') else src
        part = os.path.join(work, '%s.part%d.ll' % (name, i))
        two_stage = mode != 'inl' or bool(u.get('noinline'))
        fl = ['-O1'] if not two_stage else ['-O1', '-Xclang', '-disable-llvm-passes']
        r = sh([CLANG] + CXXDEFS + extra + fl + IRFLAGS + [src, '-o', part])
        if r.returncode: raise Broken('clang failed for unit %s (%s):\n%s' % (name, s_, r.stdout[-3000:]))
        parts.append(part)
    linked = os.path.join(work, name + '.linked.ll')
    if len(parts) > 1:
        r = sh(['llvm-link-14', '-S'] + parts + ['-o', linked])
        if r.returncode: raise Broken('llvm-link failed for unit %s:\n%s' % (name, r.stdout[-3000:]))
        for p_ in parts: os.unlink(p_)
    else:
        os.rename(parts[0], linked)
    if u.get('stubs_re'):
        # stubs chosen by pattern (template instantiations over lambda types whose mangled names contain a running number)
        pat = re.compile(u['stubs_re']); found = set()
        for m_ in re.finditer(r'^define [^@]*@("[^"]*"|[-a-zA-Z$._0-9]+)\(', open(linked).read(), re.M):
            nm_ = m_.group(1).strip('"')
            if pat.search(nm_): found.add(m_.group(1))
        if not found: raise Broken('unit %s: stubs_re %r matches no function of the translation unit' % (name, u['stubs_re']))
        u = dict(u); u['stubs'] = sorted(set(u.get('stubs', [])) | found)
    if mode == 'inl' and not u.get('noinline'):
        if len(srcs) > 1:
            r = sh(['opt-14', '-S', '-O1', '-vectorize-loops=false', '-vectorize-slp=false', linked, '-o', ll])
            if r.returncode: raise Broken('opt failed for unit %s:\n%s' % (name, r.stdout[-3000:]))
            os.unlink(linked)
        else:
            os.rename(linked, ll)
    else:
        marked = set()
        txt = sel_mark(open(linked).read(), set(u.get('stubs', [])) | set(u.get('noinline', [])),
                       re.compile(u['extra_inline']) if u.get('extra_inline') else None, std_too=(mode != 'inl'), marked_out=marked)
        if mode != 'inl':
            keep = set(u.get('translate_std', []))
            u = dict(u); u['stubs'] = sorted((set(u.get('stubs', [])) | marked) - keep)
        marked = os.path.join(work, name + '.marked.ll')
        open(marked, 'w').write(txt)
        r = sh(['opt-14', '-S', '-O1', '-vectorize-loops=false', '-vectorize-slp=false', marked, '-o', ll])
        if r.returncode: raise Broken('opt failed for unit %s:\n%s' % (name, r.stdout[-3000:]))
        os.unlink(linked); os.unlink(marked)
    c = os.path.join(work, name + '.c'); info = os.path.join(work, name + '.info.json')
    cmd = [sys.executable, os.path.join(ENGINE, 'ir2c.py'), c, ll, '--roots', ','.join(u['roots']), '--info', info]
    if u.get('stubs'):
        sf = os.path.join(work, name + '.stubs'); open(sf, 'w').write('\n'.join(u['stubs'])); cmd += ['--stubfile', sf]
    if u.get('globals'): cmd += ['--globals', ','.join(u['globals'])]
    if u.get('resumable'): cmd += ['--resumable', ','.join(u['resumable'])]
    r = sh(cmd)
    if r.returncode: raise Broken('ir2c failed for unit %s:\n%s' % (name, r.stdout[-3000:]))
    inf = json.load(open(info)); inf['seconds'] = round(time.time() - t0, 2); inf['mode'] = mode; inf['source'] = ', '.join(srcs)
    if u.get('selfcall'):
        # inductive harnesses: direct recursive calls of a root are redirected to a harness-provided stub (the induction hypothesis);
        # prototype and definition lines (which start with the return type) keep the real name
        txt = open(c).read(); out_ = []
        for fn_, stub_ in u['selfcall'].items():
            n_calls = 0; inside = False
            for ln_ in txt.split('\n'):
                is_head = re.match(r'^(?:void|u8\*?|u16|u32|u64|agg\d+_\d+|double|float) ' + re.escape(fn_) + r'\(', ln_)
                if is_head and ln_.rstrip().endswith('{'): inside = True       # definition of fn_: only calls in ITS body are recursive calls
                elif inside and ln_.startswith('}'): inside = False
                elif inside and fn_ + '(' in ln_:
                    n_calls += ln_.count(fn_ + '('); ln_ = ln_.replace(fn_ + '(', stub_ + '(')
                out_.append(ln_)
            if not n_calls: raise Broken('unit %s: selfcall: no recursive call of %s found' % (name, fn_))
            txt = '\n'.join(out_); out_ = []
            m_ = re.search(r'^(\w[\w\*]*) ' + re.escape(fn_) + r'\(([^)]*)\);', txt, re.M)
            txt = txt.replace(m_.group(0), m_.group(0) + '\n%s %s(%s);' % (m_.group(1), stub_, m_.group(2)), 1)
            inf['selfcalls_redirected'] = inf.get('selfcalls_redirected', 0) + n_calls
        open(c, 'w').write(txt)
    if u.get('alias'):
        # give pattern-selected externs (names containing lambda numbers) a stable C name the harness can define
        txt = open(c).read()
        for rx, al in u['alias'].items():
            hits = [e for e in inf['externs'] if re.search(rx, e)]
            if len(hits) != 1: raise Broken('unit %s: alias pattern %r matches %d externs' % (name, rx, len(hits)))
            cn = re.sub(r'[^A-Za-z0-9_]', lambda m: '_%02x' % ord(m.group(0)), hits[0].strip('"'))
            txt = re.sub(r'\b' + re.escape(cn) + r'\b', al, txt)
        open(c, 'w').write(txt)
    return {'c': c, 'info': inf, 'll': ll}

# ----------------------------------------------------------------------------- cbmc
def cbmc_run(work, tag, files, defs, opts, timeout, memgb):
    """run cbmc with --json-ui; returns dict(status, props=[{name,desc,status,loc}], traces={name: trace}, seconds, rss_mb, out)"""
    out = os.path.join(work, tag + '.json'); tm = os.path.join(work, tag + '.time')
    cmd = ['cbmc'] + files + ['-I', MODELS, '-I', HARNESS, '-I', work] + ['-D%s=%s' % (k, v) if v is not None else '-D' + k for k, v in defs.items()]
    cmd += opts + ['--json-ui', '--trace', '--stop-on-fail']
    shcmd = 'ulimit -v %d; exec /usr/bin/time -o %s -f "%%M %%e" %s > %s 2>&1' % (int(memgb * 1024 * 1024), tm, ' '.join("'%s'" % c for c in cmd), out)
    open(os.path.join(work, tag + '.cmd'), 'w').write(' '.join("'%s'" % c for c in cmd) + '\n')
    t0 = time.time()
    import signal
    pr = subprocess.Popen(['bash', '-c', shcmd], start_new_session=True)
    with procs_lock: procs.add(pr.pid)
    try:
        rc = pr.wait(timeout=timeout)
    except subprocess.TimeoutExpired:
        try: os.killpg(pr.pid, signal.SIGKILL)
        except OSError: pass
        pr.wait()
        with procs_lock: procs.discard(pr.pid)
        return {'status': 'TIMEOUT', 'props': [], 'traces': {}, 'seconds': round(time.time() - t0, 1), 'rss_mb': 0, 'cmd': cmd}
    with procs_lock: procs.discard(pr.pid)
    secs = round(time.time() - t0, 1); rss = 0
    try:
        a = open(tm).read().split(); rss = int(a[-2]) // 1024
    except Exception: pass
    txt = open(out).read()
    res = {'status': 'ERROR', 'props': [], 'traces': {}, 'seconds': secs, 'rss_mb': rss, 'cmd': cmd, 'rc': rc}
    try:
        js = json.loads(txt)
    except Exception:
        res['err'] = txt[-2000:]
        if 'std::bad_alloc' in txt or 'Out of memory' in txt or rc in (134, 137): res['status'] = 'OOM'
        return res
    msgs = []
    for item in js:
        if 'messageText' in item: msgs.append(item['messageText'])
        if 'result' in item:
            for pr in item['result']:
                loc = pr.get('sourceLocation', {})
                res['props'].append({'name': pr['property'], 'desc': pr['description'], 'status': pr['status'],
                                     'loc': '%s:%s %s' % (os.path.basename(loc.get('file', '?')), loc.get('line', '?'), loc.get('function', ''))})
                if 'trace' in pr: res['traces'][pr['property']] = pr['trace']
        if 'property' in item and 'status' in item and 'result' not in item:   # --stop-on-fail: the single failing property
            loc = item.get('sourceLocation', {})
            if not loc and item.get('trace'):
                for st in reversed(item['trace']):
                    if st.get('sourceLocation'): loc = st['sourceLocation']; break
            res['props'].append({'name': item['property'], 'desc': item['description'], 'status': item['status'],
                                 'loc': '%s:%s %s' % (os.path.basename(loc.get('file', '?')), loc.get('line', '?'), loc.get('function', ''))})
            if 'trace' in item: res['traces'][item['property']] = item['trace']
        if 'cProverStatus' in item:
            res['status'] = {'success': 'SUCCESS', 'failure': 'FAILURE'}.get(item['cProverStatus'], 'ERROR')
    nb = [m for m in msgs if 'no body for' in m]
    if nb:
        res['status'] = 'ERROR'; res['err'] = 'missing bodies: ' + '; '.join(sorted(set(nb))[:20])
    if res['status'] == 'ERROR' and 'err' not in res:
        res['err'] = '\n'.join(m for m in msgs if 'rror' in m or 'onflict' in m)[-2000:] or txt[-1500:]
    for m in msgs:
        mm = re.match(r'(\d+) variables, (\d+) clauses', m)
        if mm: res['vars'] = int(mm.group(1)); res['clauses'] = int(mm.group(2))
    return res

def harness_loops(work, tag, files, defs):
    """(names of the loops that live in harness code or in the rt/vp support headers (constant-bounded by construction),
        names of the unit loops that contain inner loops (outer loops, from ir2c's LOOPBACK markers))"""
    cmd = ['cbmc'] + files + ['-I', MODELS, '-I', HARNESS, '-I', work] + ['-D%s=%s' % (k, v) if v is not None else '-D' + k for k, v in defs.items()] + ['--show-loops', '--json-ui']
    r = subprocess.run(cmd, stdout=subprocess.PIPE, stderr=subprocess.DEVNULL, text=True)
    out = []; outer = []
    marks = {}
    for f in files:
        if f.startswith(work):
            for i, ln in enumerate(open(f), 1):
                if 'LOOPBACK' in ln:
                    m = re.search(r'LOOPBACK d=(\d+) nest=(\d+)', ln)
                    marks[(os.path.abspath(f), i)] = (int(m.group(1)), int(m.group(2)))
    try:
        for item in json.loads(r.stdout):
            for lp in item.get('loops', []):
                loc = lp.get('sourceLocation', {})
                f = loc.get('file', '')
                b = os.path.basename(f)
                if os.path.dirname(os.path.abspath(f)) in (HARNESS, MODELS) and b != 'cursor_contract.h' and b != 'libc.h':
                    out.append(lp['name'])
                else:
                    mk = marks.get((os.path.abspath(os.path.join(loc.get('workingDirectory', ''), f)), int(loc.get('line', 0))))
                    if mk and mk[1] == 1: outer.append(lp['name'])
    except Exception:
        pass
    return out, outer

def trace_inputs(trace):
    ins = []
    for st in trace:
        if st.get('stepType') == 'input':
            vals = st.get('values', [])
            for v in vals:
                d = v.get('data')
                if d is None: continue
                try: n = int(d)
                except ValueError:
                    try: n = int(v.get('binary', '0'), 2)
                    except Exception: n = 0
                ins.append((st.get('inputID'), n))
    return ins

# ----------------------------------------------------------------------------- native builds (replay / translation validation)
class Native:
    def __init__(self, work):
        self.work = work; self.lock = threading.Lock(); self.real = {}; self.bins = {}
    def real_objs(self, srcs, san=True):
        """g++ objects of the real sources (built once per run, in parallel)"""
        def norm(s): return s.replace('/repo/', REPO + '/') if s.startswith('/repo/') else (s if os.path.isabs(s) else os.path.join(VERIF, s))
        keys = [(norm(s), san) for s in srcs]
        def build(key):
            s, san_ = key
            with self.lock:
                ev = self.real.get(key)
                if ev is None:
                    ev = self.real[key] = {'done': threading.Event(), 'obj': None, 'err': None}; mine = True
                else: mine = False
            if not mine:
                ev['done'].wait(); return ev
            o = os.path.join(self.work, 'real_%s_%s.o' % (hashlib.md5(s.encode()).hexdigest()[:8], 'san' if san_ else 'plain'))
            fl = ['-fsanitize=address,undefined', '-fno-sanitize=vptr', '-fno-sanitize-recover=undefined', '-fno-omit-frame-pointer'] if san_ else []
            r = sh(['g++', '-c', '-O1'] + fl + CXXDEFS + ['-w', s, '-o', o])
            if r.returncode: ev['err'] = 'g++ failed for %s:\n%s' % (s, r.stdout[-3000:])
            ev['obj'] = o; ev['done'].set(); return ev
        with cf.ThreadPoolExecutor(max_workers=12) as ex:
            evs = list(ex.map(build, keys))
        for ev in evs:
            if ev['err']: raise Broken(ev['err'])
        return [ev['obj'] for ev in evs]
    def build_real(self, tag, harness_c, defs, srcs, extra_cc=()):
        """harness (C) compiled natively and linked with the real g++ objects of srcs (ASan/UBSan)"""
        exe = os.path.join(self.work, tag + '.real')
        ho = exe + '.h.o'
        dd = ['-D%s=%s' % (k, v) if v is not None else '-D' + k for k, v in defs.items()]
        r = sh(['gcc', '-c', '-O0', '-g', '-fsanitize=address,undefined', '-fno-sanitize=vptr', '-w', '-DNATIVE', '-DREAL', '-I', MODELS, '-I', HARNESS, '-I', self.work] + dd + [harness_c, '-o', ho])
        if r.returncode: raise Broken('gcc failed for native harness %s:\n%s' % (tag, r.stdout[-3000:]))
        objs = self.real_objs(list(srcs) + list(extra_cc))
        r = sh(['g++', '-fsanitize=address,undefined', ho] + objs + ['-o', exe, '-lpthread'])
        if r.returncode: raise Broken('link failed for native harness %s:\n%s' % (tag, r.stdout[-3000:]))
        return exe
    def build_model(self, tag, harness_c, defs, unit_c):
        """harness + generated C + models compiled natively (no real code): used for translation validation"""
        exe = os.path.join(self.work, tag + '.model')
        dd = ['-D%s=%s' % (k, v) if v is not None else '-D' + k for k, v in defs.items()]
        r = sh(['gcc', '-O1', '-g', '-w', '-ftrivial-auto-var-init=pattern', '-fno-builtin', '-DNATIVE', '-I', MODELS, '-I', HARNESS, '-I', self.work] + dd + [harness_c] + unit_c + ['-o', exe])
        if r.returncode: raise Broken('gcc failed for model build %s:\n%s' % (tag, r.stdout[-3000:]))
        return exe

def run_native(exe, replay_file=None, seed=None, timeout=10):
    env = dict(os.environ); env['ASAN_OPTIONS'] = 'detect_leaks=0:abort_on_error=0:exitcode=66'; env['UBSAN_OPTIONS'] = 'halt_on_error=1:exitcode=67'
    if replay_file: env['VP_REPLAY'] = replay_file
    if seed is not None: env['VP_RANDOM'] = str(seed)
    try:
        p = subprocess.run([exe], env=env, stdout=subprocess.PIPE, stderr=subprocess.PIPE, timeout=timeout)
        return p.returncode, p.stdout.decode('latin1'), p.stderr.decode('latin1')
    except subprocess.TimeoutExpired:
        return 'timeout', '', ''

def classify_native(rc, out, err):
    """-> (confirmed?, reason)"""
    if rc == 'timeout': return True, 'hang (watchdog)'
    if rc == 3: return True, [l for l in out.split('\n') if l.startswith('ASSERT-FAIL')][-1]
    if rc == 66 or 'AddressSanitizer' in err:
        m = re.search(r'ERROR: AddressSanitizer: (\S+)', err); return True, 'ASan: ' + (m.group(1) if m else '?')
    if rc == 67 or 'runtime error:' in err:
        m = re.search(r'runtime error: (.*)', err); return True, 'UBSan: ' + (m.group(1) if m else '?')
    if rc == 4: return False, 'assumption violated in replay (' + out.strip()[-200:] + ')'
    if isinstance(rc, int) and rc < 0: return True, 'signal %d' % -rc
    if rc == 0: return False, 'ran clean'
    return False, 'exit %s' % rc

# ----------------------------------------------------------------------------- main driver
def build_offsets(spec, work):
    srcs = getattr(spec, 'OFFSETS', [])
    out = os.path.join(work, 'offsets.h')
    txt = ''
    for s_ in srcs:
        exe = os.path.join(work, 'offgen_' + os.path.basename(s_).replace('.cc', ''))
        r = sh(['g++', '-w', '-O1', '-ffunction-sections', '-fdata-sections', '-no-pie', '-fno-pie'] + CXXDEFS + [os.path.join(VERIF, s_), '-Wl,--gc-sections', '-Wl,--unresolved-symbols=ignore-all', '-o', exe])
        if r.returncode: raise Broken('offsets generator %s failed to compile:\n%s' % (s_, r.stdout[-2000:]))
        r = subprocess.run([exe], stdout=subprocess.PIPE, text=True)
        if r.returncode: raise Broken('offsets generator %s failed' % s_)
        txt += r.stdout
    open(out, 'w').write(txt)

def load_spec(pid):
    p = os.path.join(VERIF, 'props', pid + '.py')
    sp = importlib.util.spec_from_file_location('prop_' + pid, p)
    m = importlib.util.module_from_spec(sp); sp.loader.exec_module(m)
    return m

def load_findings(pid):
    f = os.path.join(VERIF, 'known_findings.json')
    if not os.path.exists(f): return []
    return [x for x in json.load(open(f)).get('findings', []) if x['property'] == pid]

def kill_jobs():
    import signal
    with procs_lock: ps = list(procs)
    for p_ in ps:
        try: os.killpg(p_, signal.SIGKILL)
        except OSError: pass

def main():
    import argparse, signal
    signal.signal(signal.SIGTERM, lambda *a_: (kill_jobs(), os._exit(2)))
    ap = argparse.ArgumentParser()
    ap.add_argument('pid'); ap.add_argument('--tier', default=os.environ.get('VERIF_TIER', 'quick'))
    ap.add_argument('--replay'); ap.add_argument('--only'); ap.add_argument('--keep', action='store_true')
    ap.add_argument('--jobs', type=int, default=int(os.environ.get('VP_JOBS', '0')))
    ap.add_argument('--no-evidence', action='store_true')
    a = ap.parse_args()
    pid = a.pid; tier = a.tier if a.tier in ('quick', 'thorough') else 'quick'
    seed = int(os.environ.get('VERIF_SEED', '1') or 1)
    spec = load_spec(pid)
    t_start = time.time()
    work = os.path.join(VERIF, '.work', '%s-%s-%d' % (pid, tier, os.getpid()))
    os.makedirs(work, exist_ok=True)
    rc = 2
    try:
        if a.replay:
            build_offsets(spec, work)
            rc = do_replay(spec, pid, a.replay, work)
        else:
            build_offsets(spec, work)
            rc = do_check(spec, pid, tier, seed, work, a, t_start)
    except Broken as e:
        log('BROKEN property=%s: %s' % (pid, e)); rc = 2
    except KeyboardInterrupt:
        rc = 2
    finally:
        kill_jobs()
        if not a.keep: shutil.rmtree(work, ignore_errors=True)
        try:
            if not os.listdir(os.path.join(VERIF, '.work')): os.rmdir(os.path.join(VERIF, '.work'))
        except OSError: pass
    sys.exit(rc)

def harness_instances(spec, tier, only=None):
    out = []
    for h in spec.HARNESSES:
        if only and not re.search(only, h['name']): continue
        tiers = h.get('tiers', ('quick', 'thorough'))
        if tier not in tiers: continue
        hh = dict(h)
        if tier == 'thorough' and 'thorough' in h: hh.update(h['thorough'])
        out.append(hh)
    return out

def defs_for(h, findings, skip=None, extra=None):
    d = dict(h.get('defs', {}))
    for f in findings:
        if f.get('status', 'open') == 'open' and h['name'] in f.get('harnesses', [h['name']]) and f['id'] != skip and f.get('exclude_define'):
            d[f['exclude_define']] = None
    if extra: d.update(extra)
    return d

def cbmc_opts(h):
    o = list(CBMC_SAFETY if h.get('safety', True) else [x for x in CBMC_SAFETY if x not in ('--pointer-overflow-check', '--signed-overflow-check', '--undefined-shift-check')])
    if h.get('fs'):    # per-harness override of --max-field-sensitivity-array-size (256 helps most units, but makes symex of byte-array heavy units crawl)
        i_ = o.index('--max-field-sensitivity-array-size'); o[i_ + 1] = str(h['fs'])
    o += ['--unwind', str(h.get('unwind', 10))]
    if h.get('unwindset'): o += ['--unwindset', ','.join('%s:%d' % kv for kv in h['unwindset'].items())]
    o += h.get('opts', [])
    if h.get('function'): o += ['--function', h['function']]
    return o

def do_check(spec, pid, tier, seed, work, a, t_start):
    findings = load_findings(pid)
    insts = harness_instances(spec, tier, a.only)
    if not insts: raise Broken('no harness selected')
    # 1. build units (parallel)
    units = {}
    need = sorted({u for h in insts for u in h['units']})
    with cf.ThreadPoolExecutor(max_workers=min(8, len(need))) as ex:
        futs = {n: ex.submit(build_unit, work, n, spec.UNITS[n]) for n in need}
        for n, f in futs.items(): units[n] = f.result()
    native = Native(work)
    queries = []; violations = []; known_hits = []; broken = []; samples = []
    tv_total = 0; tv_runs = []
    lock = threading.Lock()

    def files_of(h): return ([] if h.get('include_units') else [units[u]['c'] for u in h['units']]) + [os.path.join(HARNESS, h['file'])]

    # memory-aware scheduling: a job reserves its expected footprint (harness key 'mem_est', GB; default 3) out of a budget derived
    # from the machine's RAM, so that a tier with several 8-10 GB queries does not push the others into their ulimit
    try: ram_gb = int(open('/proc/meminfo').read().split('MemTotal:')[1].split()[0]) // (1024 * 1024)
    except Exception: ram_gb = 32
    budget = {'free': max(8, ram_gb - 8)}; budget_cv = threading.Condition()
    def reserve(gb):
        gb = min(gb, max(8, ram_gb - 8))
        with budget_cv:
            while budget['free'] < gb: budget_cv.wait()
            budget['free'] -= gb
        return gb
    def release(gb):
        with budget_cv: budget['free'] += gb; budget_cv.notify_all()

    def run_one(h, kind, finding=None):
        """kind: 'main' | 'witness' | 'confirm'"""
        got = reserve(h.get('mem_est', 3))
        try: return run_one_(h, kind, finding)
        finally: release(got)

    def run_one_(h, kind, finding=None):
        defs = defs_for(h, findings, skip=finding['id'] if finding else None)
        if kind == 'witness': defs['WITNESS'] = None
        tag = '%s.%s%s' % (h['name'], kind, '.' + finding['id'] if finding else '')
        opts = cbmc_opts(h)
        hl, outer = harness_loops(work, tag, files_of(h), defs)
        us = dict(h.get('unwindset', {}))
        for nm in hl: us.setdefault(nm, h.get('hunwind', 24))
        if h.get('outer_unwind'):
            for nm in outer: us.setdefault(nm, h['outer_unwind'])
        if us:
            opts = [o for o in opts]
            if '--unwindset' in opts:
                i = opts.index('--unwindset'); del opts[i:i + 2]
            opts += ['--unwindset', ','.join('%s:%d' % kv for kv in us.items())]
        r = cbmc_run(work, tag, files_of(h), defs, opts, h.get('timeout', 600 if tier == 'quick' else 3000), h.get('memgb', 12))
        r['harness'] = h['name']; r['kind'] = kind; r['defs'] = defs
        return r

    jobs = []
    for h in insts:
        jobs.append((h, 'main', None))
        if h.get('witness', True): jobs.append((h, 'witness', None))
        for f in findings:
            if f.get('status', 'open') == 'open' and h['name'] in f.get('harnesses', []): jobs.append((h, 'confirm', f))
    nj = a.jobs or max(1, min(NCPU, len(jobs)))
    results = []
    with cf.ThreadPoolExecutor(max_workers=nj) as ex:
        futs = [ex.submit(run_one, *j) for j in jobs]
        # translation validation runs concurrently in the main thread
        for h in insts:
            if h.get('tv'):
                try:
                    n, dis = translation_validate(native, h, units, seed, findings)
                    tv_total += n; tv_runs.append({'harness': h['name'], 'inputs': n, 'disagreements': len(dis)})
                    if dis:
                        broken.append('translation validation: %s disagrees with the real build on %d inputs, e.g. %s' % (h['name'], len(dis), dis[0]))
                except Broken as e:
                    broken.append(str(e))
        for (h, kind, f), fu in zip(jobs, futs):
            r = fu.result(); results.append((h, kind, f, r))

    n_oblig = 0; n_nontriv = 0; witness_other = set()
    for h, kind, f, r in results:
        q = {'harness': h['name'], 'kind': kind, 'bound': h.get('bound', ''), 'unwind': h.get('unwind', 10), 'status': r['status'],
             'properties': len(r['props']), 'failed': sum(1 for p in r['props'] if p['status'] in ('FAILURE', 'failed')),
             'seconds': r['seconds'], 'rss_mb': r['rss_mb'], 'solver': 'cbmc/minisat' if not any('sat-solver' in o for o in h.get('opts', [])) else 'cbmc/' + ' '.join(h['opts']),
             'vars': r.get('vars'), 'clauses': r.get('clauses'), 'defines': ' '.join(sorted(r.get('defs', {}).keys()))}
        if f: q['finding'] = f['id']
        queries.append(q)
        log('  [%s] %-28s %-8s %-8s props=%d failed=%d %.0fs %dMB' % (pid, h['name'], kind, r['status'], q['properties'], q['failed'], r['seconds'], r['rss_mb']))
        if r['status'] in ('TIMEOUT', 'OOM', 'ERROR'):
            if kind == 'confirm': continue
            broken.append('%s/%s: %s %s' % (h['name'], kind, r['status'], r.get('err', '')[:600]))
            continue
        for p in r['props']:
            if p['status'] in ('failed', 'FAILED'): p['status'] = 'FAILURE'
        failed = [p for p in r['props'] if p['status'] == 'FAILURE']
        if kind == 'witness':
            wit = [p for p in failed if 'witness' in p['desc'].lower()]
            if not wit:
                if failed: witness_other.add(h['name'])    # another assertion failed first (stop-on-fail): the main run reports it
                else: broken.append('%s: vacuous harness (witness assertion not reachable)' % h['name'])
            else:
                n_nontriv += 1
                tr = r['traces'].get(wit[0]['name'])
                if tr is not None and len(samples) < 6:
                    samples.append({'harness': h['name'], 'obligation': h.get('desc', ''), 'witness_inputs': compress_inputs(trace_inputs(tr))})
            continue
        if kind == 'confirm':
            pat = re.compile(f.get('match', '.'))
            hit = [p for p in failed if pat.search(p['desc'] + ' ' + p['loc'])]
            if hit:
                known_hits.append((f, h, hit[0]))
            continue
        # main
        n_oblig += len(r['props'])
        if failed:
            # report the earliest failure of the run (shortest trace); later failures on the same path are consequences
            failed.sort(key=lambda p: (len(r['traces'].get(p['name']) or []) or 10**9))
            first = failed[0]
            violations.append((h, first, r['traces'].get(first['name']), [p['desc'] + ' @ ' + p['loc'] for p in failed[1:12]]))
    # 2. replay violations
    confirmed = []; unconfirmed = []
    seen = set()
    for h, p, tr, also in violations:
        key = (h['name'], p['desc'], p['loc'])
        if key in seen: continue
        seen.add(key)
        ins = trace_inputs(tr) if tr else []
        rdir = os.path.join(VERIF, 'replays', pid); os.makedirs(rdir, exist_ok=True)
        hsh = hashlib.md5(json.dumps([h['name'], p['desc'], p['loc'], ins]).encode()).hexdigest()[:10]
        rpath = os.path.join(rdir, '%s-%s.json' % (h['name'], hsh))
        rec = {'property': pid, 'harness': h['name'], 'defs': defs_for(h, findings), 'failed_assertion': p['desc'], 'location': p['loc'],
               'cbmc_property': p['name'], 'inputs': ins, 'tier': tier, 'also_failed': also}
        ok, why = (None, 'no native replay driver for this harness')
        locfile = p['loc'].split(':')[0]
        if (os.path.exists(os.path.join(MODELS, locfile)) or os.path.exists(os.path.join(HARNESS, locfile))) and ('unwinding assertion' in p['desc'] or 'harness bound' in p['desc']):
            # a bound of the harness or of a model is too small for this tree: not a statement about the code under test
            broken.append('%s: harness/model bound exceeded: "%s" at %s' % (h['name'], p['desc'], p['loc']))
            continue
        if 'no body for callee' in p['desc']:
            # the tree calls a library function the harness has no model for (changed code shape): nothing can be concluded
            broken.append('%s: no model for a callee of the unit: "%s" at %s' % (h['name'], p['desc'], p['loc']))
            continue
        if h.get('replay'):
            try:
                ok, why = replay_record(native, spec, h, rec, work)
            except Broken as e:
                ok, why = None, 'replay build failed: %s' % str(e)[:300]
        rec['native_replay'] = {'confirmed': ok, 'detail': why}
        json.dump(rec, open(rpath, 'w'), indent=1)
        if ok is False and not h.get('report_unconfirmed'):
            unconfirmed.append((h, p, rpath, why))
        else:
            confirmed.append((h, p, rpath, why))
    for f, h, p in known_hits:
        log('KNOWN-FINDING: property=%s %s [%s] (harness %s: %s)' % (pid, f['what'], f['id'], h['name'], p['desc']))
    for h, p, rpath, why in confirmed:
        log('VIOLATION property=%s replay=%s' % (pid, rpath))
        log('  harness=%s assertion="%s" at %s; native replay: %s' % (h['name'], p['desc'], p['loc'], why))
    for h, p, rpath, why in unconfirmed:
        log('UNCONFIRMED property=%s harness=%s assertion="%s" at %s: counterexample did not reproduce natively (%s) -> encoding mismatch, see %s' % (pid, h['name'], p['desc'], p['loc'], why, rpath))
        broken.append('%s: counterexample not reproduced natively (%s)' % (h['name'], why))
    for b in broken: log('BROKEN property=%s %s' % (pid, b))
    wall = round(time.time() - t_start, 1)
    if not a.no_evidence and not a.only:
        write_evidence(spec, pid, tier, seed, wall, units, queries, samples, n_oblig, n_nontriv, tv_total, tv_runs, len(confirmed), known_hits, broken, insts)
    if confirmed: return 1
    if broken: return 2
    log('OK property=%s tier=%s harnesses=%d queries=%d obligations=%d wall=%.0fs' % (pid, tier, len(insts), len(queries), n_oblig, wall))
    return 0

def compress_inputs(ins):
    d = {}
    for k, v in ins: d.setdefault(k, []).append(v)
    return {k: (v[0] if len(v) == 1 else v) for k, v in d.items()}

def write_replay_file(path, ins):
    with open(path, 'w') as f:
        for k, v in ins: f.write('%s %d\n' % (k, v))

def replay_record(native, spec, h, rec, work):
    rp = h['replay']
    tag = 'rp_' + h['name']
    defs = dict(rec.get('defs') or h.get('defs', {}))
    rf = os.path.join(work, tag + '.in'); write_replay_file(rf, [tuple(x) for x in rec['inputs']])
    if rp.get('program'):
        # stand-alone C++ replay driver (real threads / real API), linked with the listed real sources
        exe = os.path.join(work, tag + '.prog')
        if not os.path.exists(exe):
            srcs = [os.path.join(VERIF, rp['program'])] + [x.replace('/repo/', REPO + '/') for x in rp.get('real', [])]
            r = sh(['g++', '-O1', '-g', '-fsanitize=address,undefined', '-fno-sanitize=vptr', '-fno-sanitize-recover=undefined'] + CXXDEFS + rp.get('cflags', []) + ['-w'] + srcs + ['-o', exe, '-lpthread'])
            if r.returncode: raise Broken('replay program failed to build:\n%s' % r.stdout[-2000:])
        env = dict(os.environ); env['VP_REPLAY'] = rf; env['ASAN_OPTIONS'] = 'detect_leaks=0:exitcode=66'; env['UBSAN_OPTIONS'] = 'halt_on_error=1:exitcode=67'
        args = [str(defs.get(k, '')) for k in rp.get('args', [])]
        try:
            p = subprocess.run([exe] + args, env=env, stdout=subprocess.PIPE, stderr=subprocess.PIPE, timeout=rp.get('timeout', 20))
            return classify_native(p.returncode, p.stdout.decode('latin1'), p.stderr.decode('latin1'))
        except subprocess.TimeoutExpired:
            return classify_native('timeout', '', '')
    exe = native.build_real(tag, os.path.join(HARNESS, h['file']), defs, rp['real'], rp.get('shim', ()))
    rc, out, err = run_native(exe, replay_file=rf, timeout=rp.get('timeout', 10))
    ok, why = classify_native(rc, out, err)
    return ok, why

def do_replay(spec, pid, path, work):
    rec = json.load(open(path))
    hs = [h for h in spec.HARNESSES if h['name'] == rec['harness']]
    if not hs: raise Broken('unknown harness in replay file')
    h = hs[0]
    if not h.get('replay'):
        log('no native replay driver for harness %s; the recorded counterexample is: %s' % (h['name'], json.dumps(compress_inputs([tuple(x) for x in rec['inputs']]))))
        return 2
    ok, why = replay_record(Native(work), spec, h, rec, work)
    log('replay %s: %s (%s)' % (path, 'REPRODUCED' if ok else 'not reproduced', why))
    return 1 if ok else 0

def translation_validate(native, h, units, seed, findings):
    tv = h['tv']; tag = 'tv_' + h['name']
    defs = dict(h.get('defs', {})); defs['TV'] = None
    hfile = os.path.join(HARNESS, h['file'])
    exe_m = native.build_model(tag, hfile, defs, [units[u]['c'] for u in h['units']])
    # the real build for validation is unsanitised (the tree may contain known over-reads that ASan would abort on)
    objs = native.real_objs(tv['real'], san=False)
    exe_r = os.path.join(native.work, tag + '.realplain')
    dd = ['-D%s=%s' % (k, v) if v is not None else '-D' + k for k, v in defs.items()]
    r = sh(['gcc', '-c', '-O0', '-w', '-DNATIVE', '-DREAL', '-I', MODELS, '-I', HARNESS, '-I', native.work] + dd + [hfile, '-o', exe_r + '.o'])
    if r.returncode: raise Broken('gcc failed (tv real) %s: %s' % (h['name'], r.stdout[-2000:]))
    r = sh(['g++', exe_r + '.o'] + objs + ['-o', exe_r, '-lpthread'])
    if r.returncode: raise Broken('link failed (tv real) %s: %s' % (h['name'], r.stdout[-2000:]))
    n = tv.get('n', 300); dis = []; done = 0
    def one(sd):
        a_ = run_native(exe_m, seed=sd, timeout=10); b_ = run_native(exe_r, seed=sd, timeout=10)
        return sd, a_, b_
    with cf.ThreadPoolExecutor(max_workers=4) as ex:
        for sd, a_, b_ in ex.map(one, [seed * 100003 + i for i in range(n)]):
            if a_[0] == 4 or b_[0] == 4: continue   # outside the assumptions
            done += 1
            oa = [l for l in a_[1].split('\n') if l.startswith('OBS ')]; ob = [l for l in b_[1].split('\n') if l.startswith('OBS ')]
            if oa != ob and len(dis) < 5:
                dis.append('seed %d: model %s vs real %s' % (sd, oa[:6], ob[:6]))
    return done, dis

def write_evidence(spec, pid, tier, seed, wall, units, queries, samples, n_oblig, n_nontriv, tv_total, tv_runs, nviol, known_hits, broken, insts):
    fe = []
    for n, u in units.items():
        fe.append({'unit': n, 'mode': u['info']['mode'], 'source': u['info']['source'], 'ir_sha256': u['info']['ir_sha256'][:16],
                   'functions': u['info']['translated'], 'externs_modelled': u['info']['externs'], 'build_seconds': u['info']['seconds']})
    main_q = [q for q in queries if q['kind'] == 'main']
    if not samples:
        samples = [{'harness': h['name'], 'obligation': h.get('desc', '')} for h in insts[:3]]
    ev = {
        'property_id': pid, 'tier': tier, 'seed': seed, 'level': 'model_checking',
        'coverage': {
            'evaluations': len(queries),
            'distinct_nontrivial': n_nontriv,
            'rule': 'one evaluation = one CBMC query (main run, witness twin or known-finding confirmation) over the C translation of the LLVM IR '
                    'compiled from /repo on this run; a harness counts as non-trivial when its -DWITNESS twin shows the final program point reachable '
                    '(the witness assertion FAILS), i.e. the assumptions are satisfiable and the assertions are reached',
            'samples': samples,
            'traces_validated_against_impl': tv_total,
            'obligations': n_oblig, 'discharged': sum(q['properties'] - q['failed'] for q in main_q),
            'queries': queries,
            'functions_encoded': fe,
            'bounds': [{'harness': h['name'], 'bound': h.get('bound', ''), 'unwind': h.get('unwind', 10), 'what': h.get('desc', '')} for h in insts],
            'translation_validation': tv_runs,
            'solver_seconds': round(sum(q['seconds'] for q in queries), 1),
            'outside_claim': getattr(spec, 'OUTSIDE', []),
            'known_findings_confirmed': [f['id'] for f, _, _ in known_hits],
            'broken': broken,
            'exhaustive': False,
        },
        'assumptions': getattr(spec, 'ASSUMPTIONS', []),
        'wall_s': wall, 'violations': nviol,
    }
    os.makedirs(os.path.join(VERIF, 'evidence'), exist_ok=True)
    json.dump(ev, open(os.path.join(VERIF, 'evidence', pid + '.json'), 'w'), indent=1)

if __name__ == '__main__':
    main()
