#!/bin/bash
# usage: seed_confirm.sh <worktree> <seed-id> <property>
# Confirms a seeded breaking change independently: patch applies on the pinned commit, tree builds, existing tests pass
# (net_test fails at baseline too), the demo fails with the patch and passes without it.  Then stores it under /verif/seeded/<id>/
# and removes the worktree.
WT=$1; ID=$2; PROP=$3
OUT=/verif/seeded/$ID; LOG=/tmp/seedlog_$ID.txt
exec > $LOG 2>&1
set -x
cd $WT || exit 9
[ -f demo/patch.diff ] || { echo NO-PATCH; exit 9; }
git stash -q 2>/dev/null; git checkout -q -- . ; git stash drop -q 2>/dev/null
git apply --check demo/patch.diff || { echo PATCH-DOES-NOT-APPLY; exit 8; }
git apply demo/patch.diff
cmake -G Ninja -B _build -DCMAKE_BUILD_TYPE=RelWithDebInfo -DPISTACHE_BUILD_TESTS=ON >/dev/null && cmake --build _build -j8 2>&1 | tail -1
ctest --test-dir _build -j8 --timeout 900 2>&1 | tee /tmp/seed_ctest_$ID.txt | tail -6
FAILED=$(grep -E "^\s+[0-9]+ - " /tmp/seed_ctest_$ID.txt | grep -v net_test | wc -l)
chmod +x demo/run_demo.sh
timeout 900 demo/run_demo.sh > /tmp/seed_demo_with_$ID.txt 2>&1; RC_WITH=$?
git apply -R demo/patch.diff
timeout 900 demo/run_demo.sh > /tmp/seed_demo_without_$ID.txt 2>&1; RC_WITHOUT=$?
set +x
echo "SUMMARY id=$ID tests_failed_other_than_net_test=$FAILED demo_with_patch_rc=$RC_WITH demo_without_patch_rc=$RC_WITHOUT"
if [ "$FAILED" = 0 ] && [ $RC_WITH != 0 ] && [ $RC_WITHOUT = 0 ]; then
  mkdir -p $OUT && cp -r demo/* $OUT/ && rm -rf $OUT/_build $OUT/build $OUT/*.o
  find $OUT -type f -size +300k -delete
  python3 - <<PY
import json
json.dump({"seed_id": "$ID", "property": "$PROP", "confirmed": True,
 "what_i_ran": ["git apply demo/patch.diff on the pinned commit in a scratch worktree", "cmake --build; ctest -j8 (only net_test fails, as at baseline)",
                "demo/run_demo.sh with the patch: exit $RC_WITH (fails)", "demo/run_demo.sh without the patch: exit $RC_WITHOUT (passes)"],
 "needs_to_manifest": "see NOTES.md", "detected_by": "TBD"}, open("$OUT/meta.json", "w"), indent=1)
PY
  echo CONFIRMED
else
  echo NOT-CONFIRMED
fi
cd / && git -C /repo worktree remove --force $WT
