
#include <stdint.h>
#include <stddef.h>
typedef uint8_t u8; typedef uint16_t u16; typedef uint32_t u32; typedef uint64_t u64; typedef unsigned __int128 u128;
typedef int8_t i8; typedef int16_t i16; typedef int32_t i32; typedef int64_t i64; typedef __int128 i128;
extern int __ir_exc_pending;
/* (ptrtoint a) - (ptrtoint b) with 64-bit wrap-around: inside one object the difference of the offsets (which CBMC can
 * constant-fold; C pointer subtraction itself is flagged as signed overflow by CBMC 6.11 when the result is negative) */
#ifdef NATIVE
#define __IR_PTRDIFF(a, b) ((u64)(a) - (u64)(b))
#else
#define __IR_PTRDIFF(a, b) (__CPROVER_same_object((a), (b)) ? (u64)__CPROVER_POINTER_OFFSET(a) - (u64)__CPROVER_POINTER_OFFSET(b) : (u64)(a) - (u64)(b))
#endif
void __ir_unreachable(void); void __ir_trap(void);
u8* __ir_memcpy(u8*, u8*, u64); u8* __ir_memmove(u8*, u8*, u64); u8* __ir_memset(u8*, u8, u64);
u8* __ir_memcpy_c(u8*, u8*, u64); u8* __ir_memmove_c(u8*, u8*, u64); u8* __ir_memset_c(u8*, u8, u64);
void __ir_atomic_begin(void); void __ir_atomic_end(void); void __ir_fence(void);
void __ir_resume(u8*); u32 __ir_typeid_for(u8*);
void __ir_lp_select(u8* lp, int n, u8** clauses); void __ir_bad_indirect(void); void __ir_landingpad(u8* lp);
typedef struct { u8 b[16]; } __attribute__((aligned(8))) agg0;
void _ZN8Pistache4Http6Cookie7fromRawEPKcm(u8*, u8*, u64);
void _ZN8Pistache4Http9CookieJar10addFromRawEPKcm(u8*, u8*, u64);
void _ZNK8Pistache4Http6Cookie5writeERSo(u8*, u8*);
void _ZNSt6localeC1Ev(u8*); /* extern */
u64 _ZNSt15basic_streambufIcSt11char_traitsIcEE9showmanycEv(u8*); /* extern */
u8 _ZN8Pistache11match_untilESt16initializer_listIcERNS_12StreamCursorENS_15CaseSensitivityE(u8*, u64, u8*, u32);
u8* __cxa_allocate_exception(u64); /* extern */
void _ZNSt13runtime_errorC1EPKc(u8*, u8*); /* extern */
void __cxa_free_exception(u8*); /* extern */
void _ZNSt13runtime_errorD1Ev(u8*); /* extern */
void __cxa_throw(u8*, u8*, u8*); /* extern */
void _ZNSt7__cxx1112basic_stringIcSt11char_traitsIcESaIcEEC2EPKcmRKS3_(u8*, u8*, u64, u8*); /* stubbed */
u32 _ZNSt15basic_streambufIcSt11char_traitsIcEE5uflowEv(u8*); /* extern */
void _ZNSt7__cxx1112basic_stringIcSt11char_traitsIcESaIcEEC2EOS4_(u8*, u8*); /* stubbed */
void _ZNSt8optionalINSt7__cxx1112basic_stringIcSt11char_traitsIcESaIcEEEEC2Ev(u8*); /* stubbed */
void _ZNSt8optionalIN8Pistache4Http8FullDateEEC2Ev(u8*); /* stubbed */
void _ZNSt8optionalIiEC2Ev(u8*); /* stubbed */
void _ZNSt3mapINSt7__cxx1112basic_stringIcSt11char_traitsIcESaIcEEES5_St4lessIS5_ESaISt4pairIKS5_S5_EEEC2Ev(u8*); /* stubbed */
void _ZNSt7__cxx1112basic_stringIcSt11char_traitsIcESaIcEED2Ev(u8*); /* stubbed */
u32 _ZNSt15basic_streambufIcSt11char_traitsIcEE9underflowEv(u8*); /* extern */
u8 _ZN8Pistache4Http12_GLOBAL__N_115match_attributeISt8optionalINSt7__cxx1112basic_stringIcSt11char_traitsIcESaIcEEEEEEbPKcmRNS_12StreamCursorEPNS0_6CookieEMSF_T_(u8*, u64, u8*, u8*, u64);
u8 _ZN8Pistache12match_stringEPKcmRNS_12StreamCursorENS_15CaseSensitivityE(u8*, u64, u8*, u32);
void _ZN8Pistache4Http12_GLOBAL__N_110matchValueERNS_12StreamCursorE(u8*, u8*);
void _ZNSt16invalid_argumentC1EPKc(u8*, u8*); /* extern */
void _ZNSt16invalid_argumentD1Ev(u8*); /* extern */
void _ZNSt8optionalIiEC2IiLb1EEEOT_(u8*, u8*); /* stubbed */
u64 _ZN8Pistache4Http8FullDate10fromStringERKNSt7__cxx1112basic_stringIcSt11char_traitsIcESaIcEEE(u8*); /* extern */
u8* _ZNSt8optionalIN8Pistache4Http8FullDateEEaSIS2_EENSt9enable_ifIX7__and_vISt6__not_ISt7is_sameIS3_NSt9remove_cvINSt16remove_referenceIT_E4typeEE4typeEEES6_ISt6__and_IJSt9is_scalarIS2_ES7_IS2_NSt5decayISA_E4typeEEEEESt16is_constructibleIS2_JSA_EESt13is_assignableIRS2_SA_EEERS3_E4typeEOSA_(u8*, u8*); /* stubbed */
void _ZNSt7__cxx1112basic_stringIcSt11char_traitsIcESaIcEEC2Ev(u8*); /* stubbed */
u8* _ZNSt7__cxx1112basic_stringIcSt11char_traitsIcESaIcEEaSEOS4_(u8*, u8*); /* stubbed */
void _ZSt9make_pairINSt7__cxx1112basic_stringIcSt11char_traitsIcESaIcEEES5_ESt4pairINSt25__strip_reference_wrapperINSt5decayIT_E4typeEE6__typeENS7_INS8_IT0_E4typeEE6__typeEEOS9_OSE_(u8*, u8*, u8*); /* stubbed */
agg0 _ZNSt3mapINSt7__cxx1112basic_stringIcSt11char_traitsIcESaIcEEES5_St4lessIS5_ESaISt4pairIKS5_S5_EEE6insertIS8_IS5_S5_EEENSt9enable_ifIXsr16is_constructibleISA_T_EE5valueES8_ISt17_Rb_tree_iteratorISA_EbEE4typeEOSG_(u8*, u8*); /* stubbed */
void _ZNSt4pairINSt7__cxx1112basic_stringIcSt11char_traitsIcESaIcEEES5_ED2Ev(u8*); /* stubbed */
void _ZN8Pistache4Http6CookieD2Ev(u8*);
void _ZNSt6localeD1Ev(u8*); /* extern */
void _ZN8Pistache4Http9CookieJar3addERKNS0_6CookieE(u8*, u8*);
void _ZNSt3mapINSt7__cxx1112basic_stringIcSt11char_traitsIcESaIcEEES5_St4lessIS5_ESaISt4pairIKS5_S5_EEED2Ev(u8*); /* stubbed */
void _ZNSt14_Optional_baseINSt7__cxx1112basic_stringIcSt11char_traitsIcESaIcEEELb0ELb0EED2Ev(u8*); /* stubbed */
u8* _ZStlsIcSt11char_traitsIcESaIcEERSt13basic_ostreamIT_T0_ES7_RKNSt7__cxx1112basic_stringIS4_S5_T1_EE(u8*, u8*); /* stubbed */
u8* _ZStlsISt11char_traitsIcEERSt13basic_ostreamIcT_ES5_PKc(u8*, u8*); /* stubbed */
u8 _ZNKSt8optionalINSt7__cxx1112basic_stringIcSt11char_traitsIcESaIcEEEE9has_valueEv(u8*); /* stubbed */
u8* _ZNKSt19_Optional_base_implINSt7__cxx1112basic_stringIcSt11char_traitsIcESaIcEEESt14_Optional_baseIS5_Lb0ELb0EEE6_M_getEv(u8*); /* stubbed */
u8 _ZNKSt8optionalIiE9has_valueEv(u8*); /* stubbed */
u8* _ZNKSt19_Optional_base_implIiSt14_Optional_baseIiLb1ELb1EEE6_M_getEv(u8*); /* stubbed */
u8* _ZNSolsEi(u8*, u32); /* extern */
u8 _ZNKSt8optionalIN8Pistache4Http8FullDateEE9has_valueEv(u8*); /* stubbed */
u8* _ZNKSt19_Optional_base_implIN8Pistache4Http8FullDateESt14_Optional_baseIS2_Lb1ELb1EEE6_M_getEv(u8*); /* stubbed */
void _ZNK8Pistache4Http8FullDate5writeERSoNS1_4TypeE(u8*, u8*, u32); /* extern */
u8 _ZNKSt3mapINSt7__cxx1112basic_stringIcSt11char_traitsIcESaIcEEES5_St4lessIS5_ESaISt4pairIKS5_S5_EEE5emptyEv(u8*); /* stubbed */
u8* _ZSt5beginISt3mapINSt7__cxx1112basic_stringIcSt11char_traitsIcESaIcEEES6_St4lessIS6_ESaISt4pairIKS6_S6_EEEEDTcldtfp_5beginEERKT_(u8*); /* stubbed */
u8* _ZSt3endISt3mapINSt7__cxx1112basic_stringIcSt11char_traitsIcESaIcEEES6_St4lessIS6_ESaISt4pairIKS6_S6_EEEEDTcldtfp_3endEERKT_(u8*); /* stubbed */
u8 _ZStneRKSt23_Rb_tree_const_iteratorISt4pairIKNSt7__cxx1112basic_stringIcSt11char_traitsIcESaIcEEES6_EESB_(u8*, u8*); /* stubbed */
u8* _ZNKSt23_Rb_tree_const_iteratorISt4pairIKNSt7__cxx1112basic_stringIcSt11char_traitsIcESaIcEEES6_EEptEv(u8*); /* stubbed */
u8* _ZNSt23_Rb_tree_const_iteratorISt4pairIKNSt7__cxx1112basic_stringIcSt11char_traitsIcESaIcEEES6_EEppEv(u8*); /* stubbed */
void _ZNSt15basic_streambufIcSt11char_traitsIcEED2Ev(u8*); /* extern */
void _ZN8Pistache12RawStreamBufIcED0Ev(u8*);
void _ZNSt15basic_streambufIcSt11char_traitsIcEE5imbueERKSt6locale(u8*, u8*); /* extern */
u8* _ZNSt15basic_streambufIcSt11char_traitsIcEE6setbufEPcl(u8*, u8*, u64); /* extern */
agg0 _ZNSt15basic_streambufIcSt11char_traitsIcEE7seekoffElSt12_Ios_SeekdirSt13_Ios_Openmode(u8*, u64, u32, u32); /* extern */
agg0 _ZNSt15basic_streambufIcSt11char_traitsIcEE7seekposESt4fposI11__mbstate_tESt13_Ios_Openmode(u8*, u64, u64, u32); /* extern */
u32 _ZNSt15basic_streambufIcSt11char_traitsIcEE4syncEv(u8*); /* extern */
u64 _ZNSt15basic_streambufIcSt11char_traitsIcEE6xsgetnEPcl(u8*, u8*, u64); /* extern */
u32 _ZNSt15basic_streambufIcSt11char_traitsIcEE9pbackfailEi(u8*, u32); /* extern */
u64 _ZNSt15basic_streambufIcSt11char_traitsIcEE6xsputnEPKcl(u8*, u8*, u64); /* extern */
u32 _ZNSt15basic_streambufIcSt11char_traitsIcEE8overflowEi(u8*, u32); /* extern */
u32 x_tolower(u32); /* extern */
u8* _ZNSt8optionalINSt7__cxx1112basic_stringIcSt11char_traitsIcESaIcEEEEaSIS5_EENSt9enable_ifIX7__and_vISt6__not_ISt7is_sameIS6_NSt9remove_cvINSt16remove_referenceIT_E4typeEE4typeEEES9_ISt6__and_IJSt9is_scalarIS5_ESA_IS5_NSt5decayISD_E4typeEEEEESt16is_constructibleIS5_JSD_EESt13is_assignableIRS5_SD_EEERS6_E4typeEOSD_(u8*, u8*); /* stubbed */
u32 x_strncmp(u8*, u8*, u64); /* extern */
void _ZNSt7__cxx1112basic_stringIcSt11char_traitsIcESaIcEEC2ERKS4_(u8*, u8*); /* stubbed */
u8* _ZNSt13unordered_mapINSt7__cxx1112basic_stringIcSt11char_traitsIcESaIcEEES_IS5_N8Pistache4Http6CookieESt4hashIS5_ESt8equal_toIS5_ESaISt4pairIKS5_S8_EEESA_SC_SaISD_ISE_SH_EEE4findERSE_(u8*, u8*); /* stubbed */
u8* _ZNSt13unordered_mapINSt7__cxx1112basic_stringIcSt11char_traitsIcESaIcEEES_IS5_N8Pistache4Http6CookieESt4hashIS5_ESt8equal_toIS5_ESaISt4pairIKS5_S8_EEESA_SC_SaISD_ISE_SH_EEE3endEv(u8*); /* stubbed */
u8 _ZNSt8__detaileqERKNS_19_Node_iterator_baseISt4pairIKNSt7__cxx1112basic_stringIcSt11char_traitsIcESaIcEEESt13unordered_mapIS7_N8Pistache4Http6CookieESt4hashIS7_ESt8equal_toIS7_ESaIS1_IS8_SC_EEEELb1EEESN_(u8*, u8*); /* stubbed */
u8* _ZNKSt8__detail14_Node_iteratorISt4pairIKNSt7__cxx1112basic_stringIcSt11char_traitsIcESaIcEEESt13unordered_mapIS7_N8Pistache4Http6CookieESt4hashIS7_ESt8equal_toIS7_ESaIS1_IS8_SC_EEEELb0ELb1EEptEv(u8*); /* stubbed */
void _ZSt9make_pairIRNSt7__cxx1112basic_stringIcSt11char_traitsIcESaIcEEERKN8Pistache4Http6CookieEESt4pairINSt25__strip_reference_wrapperINSt5decayIT_E4typeEE6__typeENSD_INSE_IT0_E4typeEE6__typeEEOSF_OSK_(u8*, u8*, u8*); /* stubbed */
agg0 _ZNSt13unordered_mapINSt7__cxx1112basic_stringIcSt11char_traitsIcESaIcEEEN8Pistache4Http6CookieESt4hashIS5_ESt8equal_toIS5_ESaISt4pairIKS5_S8_EEE6insertISD_IS5_S8_EEENSt9enable_ifIXsr16is_constructibleISF_OT_EE5valueESD_INSt8__detail14_Node_iteratorISF_Lb0ELb1EEEbEE4typeESM_(u8*, u8*); /* stubbed */
void _ZNSt4pairINSt7__cxx1112basic_stringIcSt11char_traitsIcESaIcEEEN8Pistache4Http6CookieEED2Ev(u8*); /* stubbed */
void _ZNSt13unordered_mapINSt7__cxx1112basic_stringIcSt11char_traitsIcESaIcEEEN8Pistache4Http6CookieESt4hashIS5_ESt8equal_toIS5_ESaISt4pairIKS5_S8_EEEC2Ev(u8*); /* stubbed */
void _ZSt9make_pairIRNSt7__cxx1112basic_stringIcSt11char_traitsIcESaIcEEERSt13unordered_mapIS5_N8Pistache4Http6CookieESt4hashIS5_ESt8equal_toIS5_ESaISt4pairIKS5_SA_EEEESF_INSt25__strip_reference_wrapperINSt5decayIT_E4typeEE6__typeENSL_INSM_IT0_E4typeEE6__typeEEOSN_OSS_(u8*, u8*, u8*); /* stubbed */
agg0 _ZNSt13unordered_mapINSt7__cxx1112basic_stringIcSt11char_traitsIcESaIcEEES_IS5_N8Pistache4Http6CookieESt4hashIS5_ESt8equal_toIS5_ESaISt4pairIKS5_S8_EEESA_SC_SaISD_ISE_SH_EEE6insertISD_IS5_SH_EEENSt9enable_ifIXsr16is_constructibleISI_OT_EE5valueESD_INSt8__detail14_Node_iteratorISI_Lb0ELb1EEEbEE4typeESP_(u8*, u8*); /* stubbed */
void _ZNSt4pairINSt7__cxx1112basic_stringIcSt11char_traitsIcESaIcEEESt13unordered_mapIS5_N8Pistache4Http6CookieESt4hashIS5_ESt8equal_toIS5_ESaIS_IKS5_S9_EEEED2Ev(u8*); /* stubbed */
void _ZNSt13unordered_mapINSt7__cxx1112basic_stringIcSt11char_traitsIcESaIcEEEN8Pistache4Http6CookieESt4hashIS5_ESt8equal_toIS5_ESaISt4pairIKS5_S8_EEED2Ev(u8*); /* stubbed */
void _ZdlPv(u8*); /* extern */
u64 __ir_indirect_ru64_u8p(u8* fp, u8* a0);
u32 __ir_indirect_ru32_u8p(u8* fp, u8* a0);
extern u8 _ZTVSt15basic_streambufIcSt11char_traitsIcEE[];
u8 _ZTVN8Pistache12RawStreamBufIcEE[128] __attribute__((aligned(8))) = {0,0,0,0,0,0,0,0,0,0,0,0,0,0,0,0,0,0,0,0,0,0,0,0,0,0,0,0,0,0,0,0,0,0,0,0,0,0,0,0,0,0,0,0,0,0,0,0,0,0,0,0,0,0,0,0,0,0,0,0,0,0,0,0,0,0,0,0,0,0,0,0,0,0,0,0,0,0,0,0,0,0,0,0,0,0,0,0,0,0,0,0,0,0,0,0,0,0,0,0,0,0,0,0,0,0,0,0,0,0,0,0,0,0,0,0,0,0,0,0,0,0,0,0,0,0,0,0};
u8 _2estr[30] __attribute__((aligned(8))) = {73,110,118,97,108,105,100,32,99,111,111,107,105,101,44,32,109,105,115,115,105,110,103,32,118,97,108,117,101,0};
extern u8 _ZTISt13runtime_error[];
u8 _2estr_2e1[5] __attribute__((aligned(8))) = {80,97,116,104,0};
u8 _2estr_2e2[7] __attribute__((aligned(8))) = {68,111,109,97,105,110,0};
u8 _2estr_2e3[7] __attribute__((aligned(8))) = {83,101,99,117,114,101,0};
u8 _2estr_2e4[9] __attribute__((aligned(8))) = {72,116,116,112,79,110,108,121,0};
u8 _2estr_2e5[8] __attribute__((aligned(8))) = {77,97,120,45,65,103,101,0};
u8 _2estr_2e20[33] __attribute__((aligned(8))) = {73,110,118,97,108,105,100,32,99,111,110,118,101,114,115,105,111,110,44,32,111,117,116,32,111,102,32,114,97,110,103,101,0};
extern u8 _ZTISt16invalid_argument[];
u8 _2estr_2e19[19] __attribute__((aligned(8))) = {73,110,118,97,108,105,100,32,99,111,110,118,101,114,115,105,111,110,0};
u8 _2estr_2e6[8] __attribute__((aligned(8))) = {69,120,112,105,114,101,115,0};
u8 _2estr_2e7[2] __attribute__((aligned(8))) = {61,0};
u8 _2estr_2e8[3] __attribute__((aligned(8))) = {59,32,0};
u8 _2estr_2e9[6] __attribute__((aligned(8))) = {80,97,116,104,61,0};
u8 _2estr_2e10[8] __attribute__((aligned(8))) = {68,111,109,97,105,110,61,0};
u8 _2estr_2e11[9] __attribute__((aligned(8))) = {77,97,120,45,65,103,101,61,0};
u8 _2estr_2e12[9] __attribute__((aligned(8))) = {69,120,112,105,114,101,115,61,0};
u8 _2estr_2e13[9] __attribute__((aligned(8))) = {59,32,83,101,99,117,114,101,0};
u8 _2estr_2e14[11] __attribute__((aligned(8))) = {59,32,72,116,116,112,79,110,108,121,0};
u8 _ZTIN8Pistache12RawStreamBufIcEE[24] __attribute__((aligned(8))) = {0,0,0,0,0,0,0,0,0,0,0,0,0,0,0,0,0,0,0,0,0,0,0,0};
u8 _2estr_2e18[26] __attribute__((aligned(8))) = {73,110,118,97,108,105,100,32,99,111,111,107,105,101,44,32,101,97,114,108,121,32,101,111,102,0};
u8 _2estr_2e17[15] __attribute__((aligned(8))) = {73,110,118,97,108,105,100,32,99,111,111,107,105,101,0};
extern u8 _ZTVN10__cxxabiv120__si_class_type_infoE[];
u8 _ZTSN8Pistache12RawStreamBufIcEE[29] __attribute__((aligned(8))) = {78,56,80,105,115,116,97,99,104,101,49,50,82,97,119,83,116,114,101,97,109,66,117,102,73,99,69,69,0};
u8 _ZTIN8Pistache9StreamBufIcEE[24] __attribute__((aligned(8))) = {0,0,0,0,0,0,0,0,0,0,0,0,0,0,0,0,0,0,0,0,0,0,0,0};
u8 _ZTSN8Pistache9StreamBufIcEE[25] __attribute__((aligned(8))) = {78,56,80,105,115,116,97,99,104,101,57,83,116,114,101,97,109,66,117,102,73,99,69,69,0};
extern u8 _ZTISt15basic_streambufIcSt11char_traitsIcEE[];
void __ir_rt_init(void);
void __ir_init_globals(void) {
  __ir_rt_init();
  *(u8**)((u8*)&_ZTVN8Pistache12RawStreamBufIcEE + 8) = ((u8*)&_ZTIN8Pistache12RawStreamBufIcEE);
  *(u8**)((u8*)&_ZTVN8Pistache12RawStreamBufIcEE + 16) = ((u8*)_ZNSt15basic_streambufIcSt11char_traitsIcEED2Ev);
  *(u8**)((u8*)&_ZTVN8Pistache12RawStreamBufIcEE + 24) = ((u8*)_ZN8Pistache12RawStreamBufIcED0Ev);
  *(u8**)((u8*)&_ZTVN8Pistache12RawStreamBufIcEE + 32) = ((u8*)_ZNSt15basic_streambufIcSt11char_traitsIcEE5imbueERKSt6locale);
  *(u8**)((u8*)&_ZTVN8Pistache12RawStreamBufIcEE + 40) = ((u8*)_ZNSt15basic_streambufIcSt11char_traitsIcEE6setbufEPcl);
  *(u8**)((u8*)&_ZTVN8Pistache12RawStreamBufIcEE + 48) = ((u8*)_ZNSt15basic_streambufIcSt11char_traitsIcEE7seekoffElSt12_Ios_SeekdirSt13_Ios_Openmode);
  *(u8**)((u8*)&_ZTVN8Pistache12RawStreamBufIcEE + 56) = ((u8*)_ZNSt15basic_streambufIcSt11char_traitsIcEE7seekposESt4fposI11__mbstate_tESt13_Ios_Openmode);
  *(u8**)((u8*)&_ZTVN8Pistache12RawStreamBufIcEE + 64) = ((u8*)_ZNSt15basic_streambufIcSt11char_traitsIcEE4syncEv);
  *(u8**)((u8*)&_ZTVN8Pistache12RawStreamBufIcEE + 72) = ((u8*)_ZNSt15basic_streambufIcSt11char_traitsIcEE9showmanycEv);
  *(u8**)((u8*)&_ZTVN8Pistache12RawStreamBufIcEE + 80) = ((u8*)_ZNSt15basic_streambufIcSt11char_traitsIcEE6xsgetnEPcl);
  *(u8**)((u8*)&_ZTVN8Pistache12RawStreamBufIcEE + 88) = ((u8*)_ZNSt15basic_streambufIcSt11char_traitsIcEE9underflowEv);
  *(u8**)((u8*)&_ZTVN8Pistache12RawStreamBufIcEE + 96) = ((u8*)_ZNSt15basic_streambufIcSt11char_traitsIcEE5uflowEv);
  *(u8**)((u8*)&_ZTVN8Pistache12RawStreamBufIcEE + 104) = ((u8*)_ZNSt15basic_streambufIcSt11char_traitsIcEE9pbackfailEi);
  *(u8**)((u8*)&_ZTVN8Pistache12RawStreamBufIcEE + 112) = ((u8*)_ZNSt15basic_streambufIcSt11char_traitsIcEE6xsputnEPKcl);
  *(u8**)((u8*)&_ZTVN8Pistache12RawStreamBufIcEE + 120) = ((u8*)_ZNSt15basic_streambufIcSt11char_traitsIcEE8overflowEi);
  *(u8**)((u8*)&_ZTIN8Pistache12RawStreamBufIcEE + 0) = (((u8*)&_ZTVN10__cxxabiv120__si_class_type_infoE) + (16));
  *(u8**)((u8*)&_ZTIN8Pistache12RawStreamBufIcEE + 8) = ((u8*)&_ZTSN8Pistache12RawStreamBufIcEE);
  *(u8**)((u8*)&_ZTIN8Pistache12RawStreamBufIcEE + 16) = ((u8*)&_ZTIN8Pistache9StreamBufIcEE);
  *(u8**)((u8*)&_ZTIN8Pistache9StreamBufIcEE + 0) = (((u8*)&_ZTVN10__cxxabiv120__si_class_type_infoE) + (16));
  *(u8**)((u8*)&_ZTIN8Pistache9StreamBufIcEE + 8) = ((u8*)&_ZTSN8Pistache9StreamBufIcEE);
  *(u8**)((u8*)&_ZTIN8Pistache9StreamBufIcEE + 16) = ((u8*)&_ZTISt15basic_streambufIcSt11char_traitsIcEE);
}
void _ZN8Pistache4Http6Cookie7fromRawEPKcm(u8* v_agg_2eresult, u8* v_str, u64 v_len) {
  u8* v_ref_2etmp_2ei284;
  u8* v_ref_2etmp_2ei258;
  u8* v_ref_2etmp_2ei254;
  u8* v_ref_2etmp_2ei_2ei_2ei;
  u8* v_token_2ei_2ei205;
  u8* v_ref_2etmp_2ei_2ei206;
  u8* v_ref_2etmp1_2ei_2ei207;
  u8* v_token_2ei_2ei;
  u8* v_ref_2etmp_2ei_2ei;
  u8* v_ref_2etmp1_2ei_2ei;
  u8* v_ref_2etmp_2ei45;
  u8* v_ref_2etmp_2ei42;
  u8* v_ref_2etmp_2ei20;
  u8* v_ref_2etmp_2ei;
  u8* v_buf;
  u8* v_cursor;
  u8* v_name_;
  u8* v_value_;
  u8* v_agg_2etmp;
  u8* v_agg_2etmp23;
  u8* v_name;
  u8* v_value;
  u8* v_token;
  u8* v_ref_2etmp;
  u8* v_ref_2etmp74;
  u8* v_0;
  u8* v_1;
  u8* v__M_in_beg_2ei_2ei_2ei;
  u8* v__M_buf_locale_2ei_2ei_2ei;
  u8* v_2;
  u8* v_add_2eptr_2ei;
  u8* v__M_in_cur_2ei_2ei;
  u8* v__M_in_end_2ei_2ei;
  u8* v_3;
  u8* v_4;
  u8* v_buf_2ei;
  u8* v__M_in_end_2ei_2ei_2ei_2ei;
  u8* v_5;
  u8* v__M_in_cur_2ei_2ei_2ei_2ei;
  u8* v_6;
  u8 v_tobool_2enot_2ei_2ei_2ei;
  u8* v__2ecast_2ei;
  u8* v_7;
  u8* v_vtable_2ei_2ei_2ei;
  u8* v_vfn_2ei_2ei_2ei;
  u8* v_8;
  u64 v_call3_2ei_2ei_2ei16;
  u8* v_9;
  u8* v__M_in_cur_2ei_2ei_2ei;
  u8* v_10;
  u8* v__M_in_beg_2ei_2ei_2ei18;
  u8* v_11;
  u64 v_sub_2eptr_2elhs_2ecast_2ei_2ei;
  u64 v_sub_2eptr_2erhs_2ecast_2ei_2ei;
  u8* v_12;
  u8 v_call_2ei19;
  u8* v_exception;
  u8* v_13;
  agg0 v_14;
  agg0 v_15;
  agg0 v_16;
  u8* v_17;
  u8* v_18;
  u8* v__M_in_cur_2ei_2ei_2ei_2ei_2ei;
  u8* v_19;
  u8* v__M_in_beg_2ei_2ei_2ei_2ei_2ei;
  u8* v_20;
  u64 v_sub_2eptr_2elhs_2ecast_2ei_2ei_2ei_2ei;
  u64 v_sub_2eptr_2erhs_2ecast_2ei_2ei_2ei_2ei;
  u64 v_21;
  u64 v_22;
  u64 v_sub_2ei_2ei;
  u8* v_23;
  u8* v_24;
  u8* v_25;
  u8* v__M_in_end_2ei_2ei_2ei22;
  u8* v_26;
  u8* v__M_in_cur_2ei_2ei_2ei23;
  u8* v_27;
  u64 v_sub_2eptr_2elhs_2ecast_2ei_2ei24;
  u64 v_sub_2eptr_2erhs_2ecast_2ei_2ei25;
  u64 v_sub_2eptr_2esub_2ei_2ei26;
  u8 v_tobool_2enot_2ei_2ei;
  u8* v_28;
  u8* v_vtable_2ei_2ei;
  u8* v_vfn_2ei_2ei;
  u8* v_29;
  u64 v_call3_2ei_2ei28;
  u64 v_cond_2ei_2ei;
  u64 p_cond_2ei_2ei;
  u8 v_cmp_2ei;
  u8* v_30;
  u8* v__M_in_cur_2ei_2ei4_2ei;
  u8* v_31;
  u8* v__M_in_end_2ei_2ei5_2ei;
  u8* v_32;
  u8 v_cmp_2ei_2ei27;
  u8* v_add_2eptr_2ei_2ei_2ei;
  u8* v_33;
  u8* v_vtable_2ei6_2ei;
  u8* v_vfn_2ei7_2ei;
  u8* v_34;
  u32 v_call5_2ei_2ei29;
  u8* v_exception12;
  u8* v_35;
  agg0 v_36;
  agg0 v_lpad_2eloopexit388;
  agg0 v_lpad_2eloopexit_2esplit_2dlp389;
  agg0 v_37;
  u8* v_38;
  u8* v__M_in_cur_2ei_2ei_2ei33;
  u8* v_39;
  u8* v__M_in_beg_2ei_2ei_2ei34;
  u8* v_40;
  u8* v_41;
  u8 v_call_2ei43;
  u64 v_sub_2eptr_2elhs_2ecast_2ei_2ei35;
  u64 v_sub_2eptr_2erhs_2ecast_2ei_2ei36;
  u8* v_42;
  u8* v_43;
  u8* v__M_in_cur_2ei_2ei_2ei_2ei_2ei49;
  u8* v_44;
  u8* v__M_in_beg_2ei_2ei_2ei_2ei_2ei50;
  u8* v_45;
  u64 v_sub_2eptr_2elhs_2ecast_2ei_2ei_2ei_2ei51;
  u64 v_sub_2eptr_2erhs_2ecast_2ei_2ei_2ei_2ei52;
  u64 v_46;
  u64 v_47;
  u64 v_sub_2ei_2ei54;
  u8* v_48;
  u8* v_name2_2ei;
  u8* v_value3_2ei;
  u8* v_path_2ei;
  u8* v_domain_2ei;
  u8* v_expires_2ei;
  u8* v_maxAge_2ei;
  u8* v_secure_2ei;
  u8* v_httpOnly_2ei;
  u8* v_ext_2ei;
  u8* v_49;
  u8* v_50;
  u8* v__M_in_end_2ei_2ei_2ei_2ei56;
  u8* v_51;
  u8* v__M_in_cur_2ei_2ei_2ei_2ei57;
  u8* v_52;
  u64 v_sub_2eptr_2elhs_2ecast_2ei_2ei_2ei58;
  u64 v_sub_2eptr_2erhs_2ecast_2ei_2ei_2ei59;
  u64 v_sub_2eptr_2esub_2ei_2ei_2ei60;
  u8 v_tobool_2enot_2ei_2ei_2ei61;
  u8* v_53;
  u8* v_vtable_2ei_2ei_2ei62;
  u8* v_vfn_2ei_2ei_2ei63;
  u8* v_54;
  u64 v_call3_2ei_2ei_2ei68;
  u64 v_cond_2ei_2ei_2ei65;
  u64 p_cond_2ei_2ei_2ei65;
  u8 v_cmp_2ei66;
  agg0 v_55;
  agg0 v_56;
  agg0 v_lpad_2eloopexit379;
  agg0 v_lpad_2eloopexit382;
  agg0 v_lpad_2eloopexit385;
  agg0 v_lpad_2eloopexit_2esplit_2dlp386;
  u8* v_57;
  u8* v__M_in_end_2ei_2ei_2ei69;
  u8* v_58;
  u8* v__M_in_cur_2ei_2ei_2ei70;
  u8* v_59;
  u64 v_sub_2eptr_2elhs_2ecast_2ei_2ei71;
  u64 v_sub_2eptr_2erhs_2ecast_2ei_2ei72;
  u64 v_sub_2eptr_2esub_2ei_2ei73;
  u8 v_tobool_2enot_2ei_2ei74;
  u8* v_60;
  u8* v_vtable_2ei_2ei75;
  u8* v_vfn_2ei_2ei76;
  u8* v_61;
  u64 v_call3_2ei_2ei95;
  u64 v_cond_2ei_2ei78;
  u64 p_cond_2ei_2ei78;
  u8 v_cmp_2ei79;
  u8* v_62;
  u8* v__M_in_cur_2ei_2ei4_2ei82;
  u8* v_63;
  u8* v__M_in_end_2ei_2ei5_2ei83;
  u8* v_64;
  u8 v_cmp_2ei_2ei84;
  u8* v_add_2eptr_2ei_2ei_2ei86;
  u8* v_65;
  u8* v_vtable_2ei6_2ei88;
  u8* v_vfn_2ei7_2ei89;
  u8* v_66;
  u32 v_call5_2ei_2ei97;
  u8* v_67;
  u8* v_68;
  u8* v_69;
  u8* v_70;
  u8* v_71;
  u8* v_gptr_2ei_2ei_2ei;
  u8* v_cursor_2ei_2ei_2ei_2ei;
  u8* v_position_2ei_2ei_2ei_2ei;
  u8* v_tmpcast_2ei_2ei;
  u8* v_72;
  u8* v_73;
  u8* v_74;
  u8* v_75;
  u8* v_gptr_2ei_2ei_2ei208;
  u8* v_cursor_2ei_2ei_2ei_2ei_2ei;
  u8* v_position_2ei_2ei_2ei_2ei_2ei;
  u8* v_76;
  u8* v_coerce_2edive3_2ei_2ei;
  u8* v_77;
  u8* v_78;
  u8* v_79;
  u8* v_80;
  u8* v_81;
  u8* v_82;
  u8* v_gptr_2ei285;
  u8* v_cursor_2ei_2ei_2ei286;
  u8* v_position_2ei_2ei_2ei292;
  u8* v_83;
  u8* v_84;
  u8* v_85;
  u8* v__M_in_end_2ei_2ei_2ei_2ei_2ei;
  u8* v_86;
  u8* v__M_in_cur_2ei_2ei_2ei_2ei_2ei99;
  u8* v_87;
  u64 v_sub_2eptr_2elhs_2ecast_2ei_2ei_2ei_2ei100;
  u64 v_sub_2eptr_2erhs_2ecast_2ei_2ei_2ei_2ei101;
  u64 v_sub_2eptr_2esub_2ei_2ei_2ei_2ei;
  u8 v_tobool_2enot_2ei_2ei_2ei_2ei;
  u8* v_88;
  u8* v_vtable_2ei_2ei_2ei_2ei;
  u8* v_vfn_2ei_2ei_2ei_2ei;
  u8* v_89;
  u64 v_call3_2ei_2ei_2ei_2ei113;
  u64 v_cond_2ei_2ei_2ei_2ei;
  u64 p_cond_2ei_2ei_2ei_2ei;
  u8 v_cmp_2ei_2ei102;
  u8* v_90;
  u8* v__M_in_cur_2ei_2ei_2ei_2ei103;
  u8* v_91;
  u8* v__M_in_end_2ei_2ei_2ei_2ei104;
  u8* v_92;
  u8 v_cmp_2ei_2ei_2ei;
  u8 v_93;
  u32 v_conv_2ei_2ei_2ei_2ei;
  u8* v_94;
  u8* v_vtable_2ei_2ei_2ei105;
  u8* v_vfn_2ei_2ei_2ei106;
  u8* v_95;
  u32 v_call5_2ei_2ei_2ei114;
  u32 v___ret_2e0_2ei_2ei_2ei;
  u32 p___ret_2e0_2ei_2ei_2ei;
  u8 v_conv_2ei_2ei;
  u8* v_96;
  u8* v__M_in_end_2ei_2ei_2ei5_2ei;
  u8* v_97;
  u8* v__M_in_cur_2ei_2ei_2ei6_2ei;
  u8* v_98;
  u64 v_sub_2eptr_2elhs_2ecast_2ei_2ei_2ei107;
  u64 v_sub_2eptr_2erhs_2ecast_2ei_2ei_2ei108;
  u64 v_sub_2eptr_2esub_2ei_2ei_2ei109;
  u8 v_tobool_2enot_2ei_2ei_2ei110;
  u8* v_99;
  u8* v_vtable_2ei_2ei7_2ei;
  u8* v_vfn_2ei_2ei8_2ei;
  u8* v_100;
  u64 v_call3_2ei_2ei_2ei116;
  u64 v_cond_2ei_2ei_2ei112;
  u64 p_cond_2ei_2ei_2ei112;
  u8 v_cmp_2ei9_2ei;
  u8* v_101;
  u8* v__M_in_cur_2ei_2ei4_2ei_2ei;
  u8* v_102;
  u8* v__M_in_end_2ei_2ei5_2ei_2ei;
  u8* v_103;
  u8 v_cmp_2ei_2ei10_2ei;
  u8* v_add_2eptr_2ei_2ei_2ei_2ei;
  u8* v_104;
  u8* v_vtable_2ei6_2ei_2ei;
  u8* v_vfn_2ei7_2ei_2ei;
  u8* v_105;
  u32 v_call5_2ei_2ei12_2ei117;
  u8 v_call36;
  u8 v_call39;
  u8 v_call_2ei139;
  u8* v_106;
  u8* v__M_in_end_2ei_2ei_2ei_2ei118;
  u8* v_107;
  u8* v__M_in_cur_2ei_2ei_2ei_2ei119;
  u8* v_108;
  u64 v_sub_2eptr_2elhs_2ecast_2ei_2ei_2ei120;
  u64 v_sub_2eptr_2erhs_2ecast_2ei_2ei_2ei121;
  u64 v_sub_2eptr_2esub_2ei_2ei_2ei122;
  u8 v_tobool_2enot_2ei_2ei_2ei123;
  u8* v_109;
  u8* v_vtable_2ei_2ei_2ei124;
  u8* v_vfn_2ei_2ei_2ei125;
  u8* v_110;
  u64 v_call3_2ei_2ei_2ei141;
  u64 v_cond_2ei_2ei_2ei127;
  u64 p_cond_2ei_2ei_2ei127;
  u8 v_cmp_2ei_2ei128;
  u8* v_111;
  u8* v__M_in_cur_2ei_2ei4_2ei_2ei130;
  u8* v_112;
  u8* v__M_in_end_2ei_2ei5_2ei_2ei131;
  u8* v_113;
  u8 v_cmp_2ei_2ei_2ei132;
  u8* v_add_2eptr_2ei_2ei_2ei_2ei134;
  u8* v_114;
  u8* v_vtable_2ei6_2ei_2ei136;
  u8* v_vfn_2ei7_2ei_2ei137;
  u8* v_115;
  u32 v_call5_2ei_2ei_2ei143;
  u8 v_call_2ei168;
  u8* v_116;
  u8* v__M_in_end_2ei_2ei_2ei_2ei145;
  u8* v_117;
  u8* v__M_in_cur_2ei_2ei_2ei_2ei146;
  u8* v_118;
  u64 v_sub_2eptr_2elhs_2ecast_2ei_2ei_2ei147;
  u64 v_sub_2eptr_2erhs_2ecast_2ei_2ei_2ei148;
  u64 v_sub_2eptr_2esub_2ei_2ei_2ei149;
  u8 v_tobool_2enot_2ei_2ei_2ei150;
  u8* v_119;
  u8* v_vtable_2ei_2ei_2ei152;
  u8* v_vfn_2ei_2ei_2ei153;
  u8* v_120;
  u64 v_call3_2ei_2ei_2ei170;
  u64 v_cond_2ei_2ei_2ei155;
  u64 p_cond_2ei_2ei_2ei155;
  u8 v_cmp_2ei_2ei156;
  u8* v_121;
  u8* v__M_in_cur_2ei_2ei4_2ei_2ei158;
  u8* v_122;
  u8* v__M_in_end_2ei_2ei5_2ei_2ei159;
  u8* v_123;
  u8 v_cmp_2ei_2ei_2ei160;
  u8* v_add_2eptr_2ei_2ei_2ei_2ei162;
  u8* v_124;
  u8* v_vtable_2ei6_2ei_2ei164;
  u8* v_vfn_2ei7_2ei_2ei165;
  u8* v_125;
  u32 v_call5_2ei_2ei_2ei172;
  u8 v_call_2ei198;
  u8* v_126;
  u8* v_127;
  u8* v_buf_2ei_2ei_2ei_2ei;
  u8* v_128;
  u8* v__M_in_cur_2ei_2ei_2ei_2ei_2ei_2ei;
  u8* v_129;
  u8* v__M_in_beg_2ei_2ei_2ei_2ei_2ei_2ei;
  u8* v_130;
  u64 v_sub_2eptr_2elhs_2ecast_2ei_2ei_2ei_2ei_2ei;
  u64 v_sub_2eptr_2erhs_2ecast_2ei_2ei_2ei_2ei_2ei;
  u64 v_131;
  u64 v_132;
  u64 v_sub_2ei_2ei_2ei;
  u8 v_cmp4_2enot_2ei_2ei_2ei;
  u32 v_ret_2e06_2ei_2ei_2ei;
  u32 p_ret_2e06_2ei_2ei_2ei;
  u64 v_i_2e05_2ei_2ei_2ei;
  u64 p_i_2e05_2ei_2ei_2ei;
  u8* v_arrayidx_2ei_2ei_2ei;
  u8 v_133;
  u32 v_conv_2ei_2ei_2ei;
  u32 v_isdigittmp_2ei_2ei_2ei;
  u8 v_isdigit_2ei_2ei_2ei;
  u8* v_exception_2ei_2ei_2ei;
  u8* v_134;
  agg0 v_135;
  u32 v_sub5_2ei_2ei_2ei;
  u32 v_div_2ei_2ei_2ei;
  u8 v_cmp6_2ei_2ei_2ei;
  u8* v_exception8_2ei_2ei_2ei;
  u8* v_136;
  agg0 v_137;
  u32 v_mul_2ei_2ei_2ei;
  u32 v_add_2ei_2ei_2ei;
  u64 v_inc_2ei_2ei_2ei;
  u8 v_exitcond_2enot_2ei_2ei_2ei;
  u32 v_ret_2e0_2elcssa_2ei_2ei_2ei;
  u32 p_ret_2e0_2elcssa_2ei_2ei_2ei;
  u64 v_138;
  u8* v_139;
  u8* v__M_in_end_2ei_2ei_2ei_2ei177;
  u8* v_140;
  u8* v__M_in_cur_2ei_2ei_2ei_2ei178;
  u8* v_141;
  u64 v_sub_2eptr_2elhs_2ecast_2ei_2ei_2ei179;
  u64 v_sub_2eptr_2erhs_2ecast_2ei_2ei_2ei180;
  u64 v_sub_2eptr_2esub_2ei_2ei_2ei181;
  u8 v_tobool_2enot_2ei_2ei_2ei182;
  u8* v_142;
  u8* v_vtable_2ei_2ei_2ei183;
  u8* v_vfn_2ei_2ei_2ei184;
  u8* v_143;
  u64 v_call3_2ei_2ei_2ei202;
  u64 v_cond_2ei_2ei_2ei186;
  u64 p_cond_2ei_2ei_2ei186;
  u8 v_cmp_2ei_2ei187;
  u8* v_144;
  u8* v__M_in_cur_2ei_2ei4_2ei_2ei189;
  u8* v_145;
  u8* v__M_in_end_2ei_2ei5_2ei_2ei190;
  u8* v_146;
  u8 v_cmp_2ei_2ei_2ei191;
  u8* v_add_2eptr_2ei_2ei_2ei_2ei193;
  u8* v_147;
  u8* v_vtable_2ei6_2ei_2ei194;
  u8* v_vfn_2ei7_2ei_2ei195;
  u8* v_148;
  u32 v_call5_2ei_2ei_2ei204;
  u8 v_call_2ei233;
  u8* v_149;
  u8* v_150;
  u8* v_buf_2ei_2ei_2ei_2ei_2ei;
  u8* v_151;
  u8* v__M_in_cur_2ei_2ei_2ei_2ei_2ei_2ei_2ei;
  u8* v_152;
  u8* v__M_in_beg_2ei_2ei_2ei_2ei_2ei_2ei_2ei;
  u8* v_153;
  u64 v_sub_2eptr_2elhs_2ecast_2ei_2ei_2ei_2ei_2ei_2ei;
  u64 v_sub_2eptr_2erhs_2ecast_2ei_2ei_2ei_2ei_2ei_2ei;
  u64 v_154;
  u64 v_155;
  u64 v_sub_2ei_2ei_2ei_2ei;
  u64 v_call_2ei_2ei;
  agg0 v_156;
  u8* v_157;
  u8* v_158;
  u8* v_159;
  u8* v_call4_2ei_2ei;
  u8* v_160;
  u8* v__M_in_end_2ei_2ei_2ei_2ei211;
  u8* v_161;
  u8* v__M_in_cur_2ei_2ei_2ei_2ei212;
  u8* v_162;
  u64 v_sub_2eptr_2elhs_2ecast_2ei_2ei_2ei213;
  u64 v_sub_2eptr_2erhs_2ecast_2ei_2ei_2ei214;
  u64 v_sub_2eptr_2esub_2ei_2ei_2ei215;
  u8 v_tobool_2enot_2ei_2ei_2ei216;
  u8* v_163;
  u8* v_vtable_2ei_2ei_2ei217;
  u8* v_vfn_2ei_2ei_2ei218;
  u8* v_164;
  u64 v_call3_2ei_2ei_2ei239;
  u64 v_cond_2ei_2ei_2ei220;
  u64 p_cond_2ei_2ei_2ei220;
  u8 v_cmp_2ei_2ei221;
  u8* v_165;
  u8* v__M_in_cur_2ei_2ei4_2ei_2ei223;
  u8* v_166;
  u8* v__M_in_end_2ei_2ei5_2ei_2ei224;
  u8* v_167;
  u8 v_cmp_2ei_2ei_2ei225;
  u8* v_add_2eptr_2ei_2ei_2ei_2ei227;
  u8* v_168;
  u8* v_vtable_2ei6_2ei_2ei229;
  u8* v_vfn_2ei7_2ei_2ei230;
  u8* v_169;
  u32 v_call5_2ei_2ei_2ei241;
  u8* v_170;
  u8* v__M_in_cur_2ei_2ei_2ei245;
  u8* v_171;
  u8* v__M_in_beg_2ei_2ei_2ei246;
  u8* v_172;
  u8 v_call_2ei256;
  u64 v_sub_2eptr_2elhs_2ecast_2ei_2ei247;
  u64 v_sub_2eptr_2erhs_2ecast_2ei_2ei248;
  u8* v_173;
  u8* v__M_in_cur_2ei_2ei_2ei_2ei_2ei262;
  u8* v_174;
  u8* v__M_in_beg_2ei_2ei_2ei_2ei_2ei263;
  u8* v_175;
  u64 v_sub_2eptr_2elhs_2ecast_2ei_2ei_2ei_2ei264;
  u64 v_sub_2eptr_2erhs_2ecast_2ei_2ei_2ei_2ei265;
  u64 v_176;
  u64 v_177;
  u64 v_sub_2ei_2ei267;
  u8* v_178;
  u8* v__M_in_end_2ei_2ei_2ei_2ei270;
  u8* v_179;
  u8* v__M_in_cur_2ei_2ei_2ei_2ei271;
  u8* v_180;
  u64 v_sub_2eptr_2elhs_2ecast_2ei_2ei_2ei272;
  u64 v_sub_2eptr_2erhs_2ecast_2ei_2ei_2ei273;
  u64 v_sub_2eptr_2esub_2ei_2ei_2ei274;
  u8 v_tobool_2enot_2ei_2ei_2ei275;
  u8* v_181;
  u8* v_vtable_2ei_2ei_2ei276;
  u8* v_vfn_2ei_2ei_2ei277;
  u8* v_182;
  u64 v_call3_2ei_2ei_2ei282;
  u64 v_cond_2ei_2ei_2ei279;
  u64 p_cond_2ei_2ei_2ei279;
  u8 v_cmp_2ei280;
  u8* v_183;
  u8* v_184;
  u8* v_buf_2ei_2ei_2ei287;
  u8* v_185;
  u8* v__M_in_cur_2ei_2ei_2ei_2ei_2ei288;
  u8* v_186;
  u8* v__M_in_beg_2ei_2ei_2ei_2ei_2ei289;
  u8* v_187;
  u64 v_sub_2eptr_2elhs_2ecast_2ei_2ei_2ei_2ei290;
  u64 v_sub_2eptr_2erhs_2ecast_2ei_2ei_2ei_2ei291;
  u64 v_188;
  u64 v_189;
  u64 v_sub_2ei_2ei293;
  u8* v_call72;
  agg0 v_190;
  agg0 v_191;
  agg0 v_lpad_2eloopexit;
  agg0 v_lpad_2eloopexit_2esplit_2dlp;
  agg0 v_192;
  agg0 v_193;
  u8* v_194;
  agg0 v__2epn;
  agg0 p__2epn;
  u8* v_195;
  agg0 v_call81;
  u8* v_196;
  u8* v__M_in_end_2ei_2ei_2ei296;
  u8* v_197;
  u8* v__M_in_cur_2ei_2ei_2ei297;
  u8* v_198;
  u64 v_sub_2eptr_2elhs_2ecast_2ei_2ei298;
  u64 v_sub_2eptr_2erhs_2ecast_2ei_2ei299;
  u64 v_sub_2eptr_2esub_2ei_2ei300;
  u8 v_tobool_2enot_2ei_2ei301;
  u8* v_199;
  u8* v_vtable_2ei_2ei302;
  u8* v_vfn_2ei_2ei303;
  u8* v_200;
  u64 v_call3_2ei_2ei322;
  u64 v_cond_2ei_2ei305;
  u64 p_cond_2ei_2ei305;
  u8 v_cmp_2ei306;
  u8* v_201;
  u8* v__M_in_cur_2ei_2ei4_2ei309;
  u8* v_202;
  u8* v__M_in_end_2ei_2ei5_2ei310;
  u8* v_203;
  u8 v_cmp_2ei_2ei311;
  u8* v_add_2eptr_2ei_2ei_2ei313;
  u8* v_204;
  u8* v_vtable_2ei6_2ei315;
  u8* v_vfn_2ei7_2ei316;
  u8* v_205;
  u32 v_call5_2ei_2ei324;
  agg0 v_206;
  agg0 v_207;
  agg0 v__2epn2;
  agg0 p__2epn2;
  u8* v_208;
  agg0 v__2epn3;
  agg0 p__2epn3;
  u8* v_209;
  agg0 v__2epn3_2epn;
  agg0 p__2epn3_2epn;
  u8* v_210;
  u8* v_211;
  u8* v__M_in_end_2ei_2ei_2ei_2ei326;
  u8* v_212;
  u8* v__M_in_cur_2ei_2ei_2ei_2ei327;
  u8* v_213;
  u64 v_sub_2eptr_2elhs_2ecast_2ei_2ei_2ei328;
  u64 v_sub_2eptr_2erhs_2ecast_2ei_2ei_2ei329;
  u64 v_sub_2eptr_2esub_2ei_2ei_2ei330;
  u8 v_tobool_2enot_2ei_2ei_2ei331;
  u8* v_214;
  u8* v_vtable_2ei_2ei_2ei332;
  u8* v_vfn_2ei_2ei_2ei333;
  u8* v_215;
  u64 v_call3_2ei_2ei_2ei338;
  u64 v_cond_2ei_2ei_2ei335;
  u64 p_cond_2ei_2ei_2ei335;
  u8 v_cmp_2ei336;
  u8* v_216;
  u8* v__M_buf_locale_2ei;
  agg0 v__2epn4;
  agg0 p__2epn4;
  agg0 v__2epn4_2epn;
  agg0 p__2epn4_2epn;
  agg0 v__2epn4_2epn_2epn_2epn;
  agg0 p__2epn4_2epn_2epn_2epn;
  agg0 v__2epn4_2epn_2epn_2epn_2epn;
  agg0 p__2epn4_2epn_2epn_2epn_2epn;
  agg0 v__2epn4_2epn_2epn_2epn_2epn_2epn_2epn;
  agg0 p__2epn4_2epn_2epn_2epn_2epn_2epn_2epn;
  u8* v_217;
  u8* v__M_buf_locale_2ei340;
 L_entry: ;
  static u8 a_ref_2etmp_2ei284_dummy; u8 a_ref_2etmp_2ei284[1] __attribute__((aligned(1))); v_ref_2etmp_2ei284 = a_ref_2etmp_2ei284;
  static u8 a_ref_2etmp_2ei258_dummy; u8 a_ref_2etmp_2ei258[1] __attribute__((aligned(1))); v_ref_2etmp_2ei258 = a_ref_2etmp_2ei258;
  static u8 a_ref_2etmp_2ei254_dummy; u8 a_ref_2etmp_2ei254[1] __attribute__((aligned(1))); v_ref_2etmp_2ei254 = a_ref_2etmp_2ei254;
  static u8 a_ref_2etmp_2ei_2ei_2ei_dummy; u8 a_ref_2etmp_2ei_2ei_2ei[1] __attribute__((aligned(1))); v_ref_2etmp_2ei_2ei_2ei = a_ref_2etmp_2ei_2ei_2ei;
  static u8 a_token_2ei_2ei205_dummy; u8 a_token_2ei_2ei205[40] __attribute__((aligned(8))); v_token_2ei_2ei205 = a_token_2ei_2ei205;
  static u8 a_ref_2etmp_2ei_2ei206_dummy; u8 a_ref_2etmp_2ei_2ei206[8] __attribute__((aligned(8))); v_ref_2etmp_2ei_2ei206 = a_ref_2etmp_2ei_2ei206;
  static u8 a_ref_2etmp1_2ei_2ei207_dummy; u8 a_ref_2etmp1_2ei_2ei207[32] __attribute__((aligned(8))); v_ref_2etmp1_2ei_2ei207 = a_ref_2etmp1_2ei_2ei207;
  static u8 a_token_2ei_2ei_dummy; u8 a_token_2ei_2ei[40] __attribute__((aligned(8))); v_token_2ei_2ei = a_token_2ei_2ei;
  static u8 a_ref_2etmp_2ei_2ei_dummy; u8 a_ref_2etmp_2ei_2ei[8] __attribute__((aligned(8))); v_ref_2etmp_2ei_2ei = a_ref_2etmp_2ei_2ei;
  static u8 a_ref_2etmp1_2ei_2ei_dummy; u8 a_ref_2etmp1_2ei_2ei[4] __attribute__((aligned(4))); v_ref_2etmp1_2ei_2ei = a_ref_2etmp1_2ei_2ei;
  static u8 a_ref_2etmp_2ei45_dummy; u8 a_ref_2etmp_2ei45[1] __attribute__((aligned(1))); v_ref_2etmp_2ei45 = a_ref_2etmp_2ei45;
  static u8 a_ref_2etmp_2ei42_dummy; u8 a_ref_2etmp_2ei42[1] __attribute__((aligned(1))); v_ref_2etmp_2ei42 = a_ref_2etmp_2ei42;
  static u8 a_ref_2etmp_2ei20_dummy; u8 a_ref_2etmp_2ei20[1] __attribute__((aligned(1))); v_ref_2etmp_2ei20 = a_ref_2etmp_2ei20;
  static u8 a_ref_2etmp_2ei_dummy; u8 a_ref_2etmp_2ei[1] __attribute__((aligned(1))); v_ref_2etmp_2ei = a_ref_2etmp_2ei;
  static u8 a_buf_dummy; u8 a_buf[64] __attribute__((aligned(8))); v_buf = a_buf;
  static u8 a_cursor_dummy; u8 a_cursor[8] __attribute__((aligned(8))); v_cursor = a_cursor;
  static u8 a_name__dummy; u8 a_name_[32] __attribute__((aligned(8))); v_name_ = a_name_;
  static u8 a_value__dummy; u8 a_value_[32] __attribute__((aligned(8))); v_value_ = a_value_;
  static u8 a_agg_2etmp_dummy; u8 a_agg_2etmp[32] __attribute__((aligned(8))); v_agg_2etmp = a_agg_2etmp;
  static u8 a_agg_2etmp23_dummy; u8 a_agg_2etmp23[32] __attribute__((aligned(8))); v_agg_2etmp23 = a_agg_2etmp23;
  static u8 a_name_dummy; u8 a_name[32] __attribute__((aligned(8))); v_name = a_name;
  static u8 a_value_dummy; u8 a_value[32] __attribute__((aligned(8))); v_value = a_value;
  static u8 a_token_dummy; u8 a_token[40] __attribute__((aligned(8))); v_token = a_token;
  static u8 a_ref_2etmp_dummy; u8 a_ref_2etmp[32] __attribute__((aligned(8))); v_ref_2etmp = a_ref_2etmp;
  static u8 a_ref_2etmp74_dummy; u8 a_ref_2etmp74[64] __attribute__((aligned(8))); v_ref_2etmp74 = a_ref_2etmp74;
  v_0 = v_buf;
  v_1 = v_buf;
  *(u8**)v_1 = (((u8*)&_ZTVSt15basic_streambufIcSt11char_traitsIcEE) + (16));
  v__M_in_beg_2ei_2ei_2ei = (v_buf + (8));
  v__M_buf_locale_2ei_2ei_2ei = (v_buf + (56));
  v_2 = v__M_in_beg_2ei_2ei_2ei;
  __ir_memset_c(v_2, ((u8)0ULL), (u64)((u64)48ULL));
  if (__ir_exc_pending) return;
  _ZNSt6localeC1Ev(v__M_buf_locale_2ei_2ei_2ei);
  if (__ir_exc_pending) return;
  *(u8**)v_1 = (((u8*)&_ZTVN8Pistache12RawStreamBufIcEE) + (16));
  v_add_2eptr_2ei = (v_str + (((i64)(i64)v_len)));
  *(u8**)v__M_in_beg_2ei_2ei_2ei = v_str;
  v__M_in_cur_2ei_2ei = (v_buf + (16));
  *(u8**)v__M_in_cur_2ei_2ei = v_str;
  v__M_in_end_2ei_2ei = (v_buf + (24));
  *(u8**)v__M_in_end_2ei_2ei = v_add_2eptr_2ei;
  v_3 = v_cursor;
  v_4 = v_buf;
  v_buf_2ei = v_cursor;
  *(u8**)v_buf_2ei = v_4;
  v__M_in_end_2ei_2ei_2ei_2ei = (v_buf + (24));
  v_5 = *(u8**)v__M_in_end_2ei_2ei_2ei_2ei;
  v__M_in_cur_2ei_2ei_2ei_2ei = (v_buf + (16));
  v_6 = *(u8**)v__M_in_cur_2ei_2ei_2ei_2ei;
  v_tobool_2enot_2ei_2ei_2ei = ((u8)(v_5 == v_6));
  if (v_tobool_2enot_2ei_2ei_2ei) {  goto L_cond_2efalse_2ei_2ei_2ei; } else {  goto L_invoke_2econt; }
 L_cond_2efalse_2ei_2ei_2ei: ;
  v__2ecast_2ei = v_buf;
  v_7 = v_buf;
  v_vtable_2ei_2ei_2ei = *(u8**)v_7;
  v_vfn_2ei_2ei_2ei = (v_vtable_2ei_2ei_2ei + (56));
  v_8 = *(u8**)v_vfn_2ei_2ei_2ei;
  { u8* fp_ = v_8;
    if (fp_ == (u8*)_ZNSt15basic_streambufIcSt11char_traitsIcEE9showmanycEv) { v_call3_2ei_2ei_2ei16 = _ZNSt15basic_streambufIcSt11char_traitsIcEE9showmanycEv(v__2ecast_2ei); } else
    { v_call3_2ei_2ei_2ei16 = __ir_indirect_ru64_u8p(fp_, v__2ecast_2ei); } }
  v_call3_2ei_2ei_2ei16 = v_call3_2ei_2ei_2ei16;
  if (__ir_exc_pending) {  goto L_lpad; } else {  goto L_invoke_2econt; }
 L_lpad: ;
  __ir_landingpad((u8*)&v_14);
  __ir_lp_select((u8*)&v_14, 0, (u8*[]){0});
  p__2epn4_2epn_2epn_2epn_2epn_2epn_2epn = v_14; goto L_ehcleanup113;
 L_invoke_2econt: ;
  v_9 = *(u8**)v_buf_2ei;
  v__M_in_cur_2ei_2ei_2ei = (v_9 + (16));
  v_10 = *(u8**)v__M_in_cur_2ei_2ei_2ei;
  v__M_in_beg_2ei_2ei_2ei18 = (v_9 + (8));
  v_11 = *(u8**)v__M_in_beg_2ei_2ei_2ei18;
  v_sub_2eptr_2elhs_2ecast_2ei_2ei = ((u64)(u64)v_10);
  v_sub_2eptr_2erhs_2ecast_2ei_2ei = ((u64)(u64)v_11);
  v_12 = v_ref_2etmp_2ei;
  *(u8*)v_12 = ((u8)61ULL);
  v_call_2ei19 = _ZN8Pistache11match_untilESt16initializer_listIcERNS_12StreamCursorENS_15CaseSensitivityE(v_12, ((u64)1ULL), v_cursor, ((u32)1ULL));
  if (__ir_exc_pending) {  goto L_lpad1; } else {  goto L__ZN8Pistache11match_untilEcRNS_12StreamCursorENS_15CaseSensitivityE_2eexit; }
 L__ZN8Pistache11match_untilEcRNS_12StreamCursorENS_15CaseSensitivityE_2eexit: ;
  if (v_call_2ei19) {  goto L_if_2eend; } else {  goto L_if_2ethen; }
 L_if_2ethen: ;
  v_exception = __cxa_allocate_exception(((u64)16ULL));
  if (__ir_exc_pending) return;
  v_13 = v_exception;
  _ZNSt13runtime_errorC1EPKc(v_13, ((u8*)&_2estr));
  if (__ir_exc_pending) {  goto L_lpad4; } else {  goto L_invoke_2econt5; }
 L_lpad4: ;
  __ir_landingpad((u8*)&v_16);
  __ir_lp_select((u8*)&v_16, 0, (u8*[]){0});
  __cxa_free_exception(v_exception);
  if (__ir_exc_pending) return;
  p__2epn4_2epn_2epn_2epn_2epn_2epn_2epn = v_16; goto L_ehcleanup113;
 L_invoke_2econt5: ;
  __cxa_throw(v_exception, ((u8*)&_ZTISt13runtime_error), ((u8*)_ZNSt13runtime_errorD1Ev));
  if (__ir_exc_pending) {  goto L_lpad1; } else {  goto L_unreachable; }
 L_lpad1: ;
  __ir_landingpad((u8*)&v_15);
  __ir_lp_select((u8*)&v_15, 0, (u8*[]){0});
  p__2epn4_2epn_2epn_2epn_2epn_2epn_2epn = v_15; goto L_ehcleanup113;
 L_if_2eend: ;
  v_17 = v_name_;
  v_18 = *(u8**)v_buf_2ei;
  v__M_in_cur_2ei_2ei_2ei_2ei_2ei = (v_18 + (16));
  v_19 = *(u8**)v__M_in_cur_2ei_2ei_2ei_2ei_2ei;
  v__M_in_beg_2ei_2ei_2ei_2ei_2ei = (v_18 + (8));
  v_20 = *(u8**)v__M_in_beg_2ei_2ei_2ei_2ei_2ei;
  v_sub_2eptr_2elhs_2ecast_2ei_2ei_2ei_2ei = ((u64)(u64)v_19);
  v_sub_2eptr_2erhs_2ecast_2ei_2ei_2ei_2ei = ((u64)(u64)v_20);
  v_21 = ((u64)((u64)v_sub_2eptr_2erhs_2ecast_2ei_2ei + (u64)v_sub_2eptr_2elhs_2ecast_2ei_2ei_2ei_2ei));
  v_22 = ((u64)((u64)v_sub_2eptr_2elhs_2ecast_2ei_2ei + (u64)v_sub_2eptr_2erhs_2ecast_2ei_2ei_2ei_2ei));
  v_sub_2ei_2ei = ((u64)((u64)v_21 - (u64)v_22));
  v_23 = v_ref_2etmp_2ei20;
  _ZNSt7__cxx1112basic_stringIcSt11char_traitsIcESaIcEEC2EPKcmRKS3_(v_name_, v_10, v_sub_2ei_2ei, v_ref_2etmp_2ei20);
  if (__ir_exc_pending) {  goto L_lpad6; } else {  goto L__ZNK8Pistache12StreamCursor5Token4textB5cxx11Ev_2eexit; }
 L_lpad6: ;
  __ir_landingpad((u8*)&v_36);
  __ir_lp_select((u8*)&v_36, 0, (u8*[]){0});
  p__2epn4_2epn_2epn_2epn_2epn = v_36; goto L_ehcleanup109;
 L__ZNK8Pistache12StreamCursor5Token4textB5cxx11Ev_2eexit: ;
  v_24 = v_cursor;
  v_25 = *(u8**)v_24;
  v__M_in_end_2ei_2ei_2ei22 = (v_25 + (24));
  v_26 = *(u8**)v__M_in_end_2ei_2ei_2ei22;
  v__M_in_cur_2ei_2ei_2ei23 = (v_25 + (16));
  v_27 = *(u8**)v__M_in_cur_2ei_2ei_2ei23;
  v_sub_2eptr_2elhs_2ecast_2ei_2ei24 = ((u64)(u64)v_26);
  v_sub_2eptr_2erhs_2ecast_2ei_2ei25 = ((u64)(u64)v_27);
  v_sub_2eptr_2esub_2ei_2ei26 = __IR_PTRDIFF(v_26, v_27);
  v_tobool_2enot_2ei_2ei = ((u8)(v_sub_2eptr_2esub_2ei_2ei26 == ((u64)0ULL)));
  if (v_tobool_2enot_2ei_2ei) {  goto L_cond_2efalse_2ei_2ei; } else { p_cond_2ei_2ei = v_sub_2eptr_2esub_2ei_2ei26; goto L__ZNSt15basic_streambufIcSt11char_traitsIcEE8in_availEv_2eexit_2ei; }
 L_cond_2efalse_2ei_2ei: ;
  v_28 = v_25;
  v_vtable_2ei_2ei = *(u8**)v_28;
  v_vfn_2ei_2ei = (v_vtable_2ei_2ei + (56));
  v_29 = *(u8**)v_vfn_2ei_2ei;
  { u8* fp_ = v_29;
    if (fp_ == (u8*)_ZNSt15basic_streambufIcSt11char_traitsIcEE9showmanycEv) { v_call3_2ei_2ei28 = _ZNSt15basic_streambufIcSt11char_traitsIcEE9showmanycEv(v_25); } else
    { v_call3_2ei_2ei28 = __ir_indirect_ru64_u8p(fp_, v_25); } }
  v_call3_2ei_2ei28 = v_call3_2ei_2ei28;
  if (__ir_exc_pending) {  goto L_lpad8_2eloopexit_2esplit_2dlp; } else { p_cond_2ei_2ei = v_call3_2ei_2ei28; goto L__ZNSt15basic_streambufIcSt11char_traitsIcEE8in_availEv_2eexit_2ei; }
 L__ZNSt15basic_streambufIcSt11char_traitsIcEE8in_availEv_2eexit_2ei: ;
  v_cond_2ei_2ei = p_cond_2ei_2ei;
  v_cmp_2ei = ((u8)(((i64)v_cond_2ei_2ei) < ((i64)((u64)1ULL))));
  if (v_cmp_2ei) {  goto L_if_2ethen11; } else {  goto L_for_2ebody_2ei; }
 L_for_2ebody_2ei: ;
  v_30 = *(u8**)v_24;
  v__M_in_cur_2ei_2ei4_2ei = (v_30 + (16));
  v_31 = *(u8**)v__M_in_cur_2ei_2ei4_2ei;
  v__M_in_end_2ei_2ei5_2ei = (v_30 + (24));
  v_32 = *(u8**)v__M_in_end_2ei_2ei5_2ei;
  v_cmp_2ei_2ei27 = ((u8)((u64)v_31 < (u64)v_32));
  if (v_cmp_2ei_2ei27) {  goto L_if_2ethen_2ei_2ei; } else {  goto L_if_2eelse_2ei_2ei; }
 L_if_2eelse_2ei_2ei: ;
  v_33 = v_30;
  v_vtable_2ei6_2ei = *(u8**)v_33;
  v_vfn_2ei7_2ei = (v_vtable_2ei6_2ei + (80));
  v_34 = *(u8**)v_vfn_2ei7_2ei;
  { u8* fp_ = v_34;
    if (fp_ == (u8*)_ZNSt15basic_streambufIcSt11char_traitsIcEE5uflowEv) { v_call5_2ei_2ei29 = _ZNSt15basic_streambufIcSt11char_traitsIcEE5uflowEv(v_30); } else
    { v_call5_2ei_2ei29 = __ir_indirect_ru32_u8p(fp_, v_30); } }
  v_call5_2ei_2ei29 = v_call5_2ei_2ei29;
  if (__ir_exc_pending) {  goto L_lpad8_2eloopexit; } else {  goto L__ZN8Pistache12StreamCursor7advanceEm_2eexit; }
 L_lpad8_2eloopexit: ;
  __ir_landingpad((u8*)&v_lpad_2eloopexit388);
  __ir_lp_select((u8*)&v_lpad_2eloopexit388, 0, (u8*[]){0});
  p__2epn4_2epn_2epn_2epn = v_lpad_2eloopexit388; goto L_ehcleanup107;
 L_if_2ethen_2ei_2ei: ;
  v_add_2eptr_2ei_2ei_2ei = (v_31 + (1));
  *(u8**)v__M_in_cur_2ei_2ei4_2ei = v_add_2eptr_2ei_2ei_2ei;
   goto L__ZN8Pistache12StreamCursor7advanceEm_2eexit;
 L__ZN8Pistache12StreamCursor7advanceEm_2eexit: ;
  if (v_cmp_2ei) {  goto L_if_2ethen11; } else {  goto L_if_2eend15; }
 L_if_2eend15: ;
  v_38 = *(u8**)v_buf_2ei;
  v__M_in_cur_2ei_2ei_2ei33 = (v_38 + (16));
  v_39 = *(u8**)v__M_in_cur_2ei_2ei_2ei33;
  v__M_in_beg_2ei_2ei_2ei34 = (v_38 + (8));
  v_40 = *(u8**)v__M_in_beg_2ei_2ei_2ei34;
  v_41 = v_ref_2etmp_2ei42;
  *(u8*)v_41 = ((u8)59ULL);
  v_call_2ei43 = _ZN8Pistache11match_untilESt16initializer_listIcERNS_12StreamCursorENS_15CaseSensitivityE(v_41, ((u64)1ULL), v_cursor, ((u32)1ULL));
  if (__ir_exc_pending) {  goto L_lpad16; } else {  goto L__ZN8Pistache11match_untilEcRNS_12StreamCursorENS_15CaseSensitivityE_2eexit44; }
 L_lpad16: ;
  __ir_landingpad((u8*)&v_55);
  __ir_lp_select((u8*)&v_55, 0, (u8*[]){0});
  p__2epn4_2epn_2epn_2epn = v_55; goto L_ehcleanup107;
 L__ZN8Pistache11match_untilEcRNS_12StreamCursorENS_15CaseSensitivityE_2eexit44: ;
  v_sub_2eptr_2elhs_2ecast_2ei_2ei35 = ((u64)(u64)v_39);
  v_sub_2eptr_2erhs_2ecast_2ei_2ei36 = ((u64)(u64)v_40);
  v_42 = v_value_;
  v_43 = *(u8**)v_buf_2ei;
  v__M_in_cur_2ei_2ei_2ei_2ei_2ei49 = (v_43 + (16));
  v_44 = *(u8**)v__M_in_cur_2ei_2ei_2ei_2ei_2ei49;
  v__M_in_beg_2ei_2ei_2ei_2ei_2ei50 = (v_43 + (8));
  v_45 = *(u8**)v__M_in_beg_2ei_2ei_2ei_2ei_2ei50;
  v_sub_2eptr_2elhs_2ecast_2ei_2ei_2ei_2ei51 = ((u64)(u64)v_44);
  v_sub_2eptr_2erhs_2ecast_2ei_2ei_2ei_2ei52 = ((u64)(u64)v_45);
  v_46 = ((u64)((u64)v_sub_2eptr_2erhs_2ecast_2ei_2ei36 + (u64)v_sub_2eptr_2elhs_2ecast_2ei_2ei_2ei_2ei51));
  v_47 = ((u64)((u64)v_sub_2eptr_2elhs_2ecast_2ei_2ei35 + (u64)v_sub_2eptr_2erhs_2ecast_2ei_2ei_2ei_2ei52));
  v_sub_2ei_2ei54 = ((u64)((u64)v_46 - (u64)v_47));
  v_48 = v_ref_2etmp_2ei45;
  _ZNSt7__cxx1112basic_stringIcSt11char_traitsIcESaIcEEC2EPKcmRKS3_(v_value_, v_39, v_sub_2ei_2ei54, v_ref_2etmp_2ei45);
  if (__ir_exc_pending) {  goto L_lpad20; } else {  goto L__ZNK8Pistache12StreamCursor5Token4textB5cxx11Ev_2eexit55; }
 L_lpad20: ;
  __ir_landingpad((u8*)&v_56);
  __ir_lp_select((u8*)&v_56, 0, (u8*[]){0});
  p__2epn4_2epn = v_56; goto L_ehcleanup103;
 L__ZNK8Pistache12StreamCursor5Token4textB5cxx11Ev_2eexit55: ;
  _ZNSt7__cxx1112basic_stringIcSt11char_traitsIcESaIcEEC2EOS4_(v_agg_2etmp, v_name_);
  if (__ir_exc_pending) return;
  _ZNSt7__cxx1112basic_stringIcSt11char_traitsIcESaIcEEC2EOS4_(v_agg_2etmp23, v_value_);
  if (__ir_exc_pending) return;
  v_name2_2ei = v_agg_2eresult;
  _ZNSt7__cxx1112basic_stringIcSt11char_traitsIcESaIcEEC2EOS4_(v_name2_2ei, v_agg_2etmp);
  if (__ir_exc_pending) return;
  v_value3_2ei = (v_agg_2eresult + (32));
  _ZNSt7__cxx1112basic_stringIcSt11char_traitsIcESaIcEEC2EOS4_(v_value3_2ei, v_agg_2etmp23);
  if (__ir_exc_pending) return;
  v_path_2ei = (v_agg_2eresult + (64));
  _ZNSt8optionalINSt7__cxx1112basic_stringIcSt11char_traitsIcESaIcEEEEC2Ev(v_path_2ei);
  if (__ir_exc_pending) return;
  v_domain_2ei = (v_agg_2eresult + (104));
  _ZNSt8optionalINSt7__cxx1112basic_stringIcSt11char_traitsIcESaIcEEEEC2Ev(v_domain_2ei);
  if (__ir_exc_pending) return;
  v_expires_2ei = (v_agg_2eresult + (144));
  _ZNSt8optionalIN8Pistache4Http8FullDateEEC2Ev(v_expires_2ei);
  if (__ir_exc_pending) return;
  v_maxAge_2ei = (v_agg_2eresult + (160));
  _ZNSt8optionalIiEC2Ev(v_maxAge_2ei);
  if (__ir_exc_pending) return;
  v_secure_2ei = (v_agg_2eresult + (168));
  *(u8*)v_secure_2ei = ((u8)0ULL);
  v_httpOnly_2ei = (v_agg_2eresult + (169));
  *(u8*)v_httpOnly_2ei = ((u8)0ULL);
  v_ext_2ei = (v_agg_2eresult + (176));
  v_49 = v_ext_2ei;
  __ir_memset_c(v_49, ((u8)0ULL), (u64)((u64)48ULL));
  if (__ir_exc_pending) return;
  _ZNSt3mapINSt7__cxx1112basic_stringIcSt11char_traitsIcESaIcEEES5_St4lessIS5_ESaISt4pairIKS5_S5_EEEC2Ev(v_ext_2ei);
  if (__ir_exc_pending) return;
  _ZNSt7__cxx1112basic_stringIcSt11char_traitsIcESaIcEED2Ev(v_agg_2etmp23);
  if (__ir_exc_pending) return;
  _ZNSt7__cxx1112basic_stringIcSt11char_traitsIcESaIcEED2Ev(v_agg_2etmp);
  if (__ir_exc_pending) return;
  v_50 = *(u8**)v_24;
  v__M_in_end_2ei_2ei_2ei_2ei56 = (v_50 + (24));
  v_51 = *(u8**)v__M_in_end_2ei_2ei_2ei_2ei56;
  v__M_in_cur_2ei_2ei_2ei_2ei57 = (v_50 + (16));
  v_52 = *(u8**)v__M_in_cur_2ei_2ei_2ei_2ei57;
  v_sub_2eptr_2elhs_2ecast_2ei_2ei_2ei58 = ((u64)(u64)v_51);
  v_sub_2eptr_2erhs_2ecast_2ei_2ei_2ei59 = ((u64)(u64)v_52);
  v_sub_2eptr_2esub_2ei_2ei_2ei60 = __IR_PTRDIFF(v_51, v_52);
  v_tobool_2enot_2ei_2ei_2ei61 = ((u8)(v_sub_2eptr_2esub_2ei_2ei_2ei60 == ((u64)0ULL)));
  if (v_tobool_2enot_2ei_2ei_2ei61) {  goto L_cond_2efalse_2ei_2ei_2ei64; } else { p_cond_2ei_2ei_2ei65 = v_sub_2eptr_2esub_2ei_2ei_2ei60; goto L__ZNK8Pistache12StreamCursor3eofEv_2eexit; }
 L_cond_2efalse_2ei_2ei_2ei64: ;
  v_53 = v_50;
  v_vtable_2ei_2ei_2ei62 = *(u8**)v_53;
  v_vfn_2ei_2ei_2ei63 = (v_vtable_2ei_2ei_2ei62 + (56));
  v_54 = *(u8**)v_vfn_2ei_2ei_2ei63;
  { u8* fp_ = v_54;
    if (fp_ == (u8*)_ZNSt15basic_streambufIcSt11char_traitsIcEE9showmanycEv) { v_call3_2ei_2ei_2ei68 = _ZNSt15basic_streambufIcSt11char_traitsIcEE9showmanycEv(v_50); } else
    { v_call3_2ei_2ei_2ei68 = __ir_indirect_ru64_u8p(fp_, v_50); } }
  v_call3_2ei_2ei_2ei68 = v_call3_2ei_2ei_2ei68;
  if (__ir_exc_pending) {  goto L_lpad27_2eloopexit_2esplit_2dlp_2eloopexit_2esplit_2dlp_2eloopexit_2esplit_2dlp; } else { p_cond_2ei_2ei_2ei65 = v_call3_2ei_2ei_2ei68; goto L__ZNK8Pistache12StreamCursor3eofEv_2eexit; }
 L__ZNK8Pistache12StreamCursor3eofEv_2eexit: ;
  v_cond_2ei_2ei_2ei65 = p_cond_2ei_2ei_2ei65;
  v_cmp_2ei66 = ((u8)(v_cond_2ei_2ei_2ei65 == ((u64)0ULL)));
  if (v_cmp_2ei66) {  goto L_nrvo_2eskipdtor; } else {  goto L_if_2eend31; }
 L_if_2eend31: ;
  v_57 = *(u8**)v_24;
  v__M_in_end_2ei_2ei_2ei69 = (v_57 + (24));
  v_58 = *(u8**)v__M_in_end_2ei_2ei_2ei69;
  v__M_in_cur_2ei_2ei_2ei70 = (v_57 + (16));
  v_59 = *(u8**)v__M_in_cur_2ei_2ei_2ei70;
  v_sub_2eptr_2elhs_2ecast_2ei_2ei71 = ((u64)(u64)v_58);
  v_sub_2eptr_2erhs_2ecast_2ei_2ei72 = ((u64)(u64)v_59);
  v_sub_2eptr_2esub_2ei_2ei73 = __IR_PTRDIFF(v_58, v_59);
  v_tobool_2enot_2ei_2ei74 = ((u8)(v_sub_2eptr_2esub_2ei_2ei73 == ((u64)0ULL)));
  if (v_tobool_2enot_2ei_2ei74) {  goto L_cond_2efalse_2ei_2ei77; } else { p_cond_2ei_2ei78 = v_sub_2eptr_2esub_2ei_2ei73; goto L__ZNSt15basic_streambufIcSt11char_traitsIcEE8in_availEv_2eexit_2ei80; }
 L_cond_2efalse_2ei_2ei77: ;
  v_60 = v_57;
  v_vtable_2ei_2ei75 = *(u8**)v_60;
  v_vfn_2ei_2ei76 = (v_vtable_2ei_2ei75 + (56));
  v_61 = *(u8**)v_vfn_2ei_2ei76;
  { u8* fp_ = v_61;
    if (fp_ == (u8*)_ZNSt15basic_streambufIcSt11char_traitsIcEE9showmanycEv) { v_call3_2ei_2ei95 = _ZNSt15basic_streambufIcSt11char_traitsIcEE9showmanycEv(v_57); } else
    { v_call3_2ei_2ei95 = __ir_indirect_ru64_u8p(fp_, v_57); } }
  v_call3_2ei_2ei95 = v_call3_2ei_2ei95;
  if (__ir_exc_pending) {  goto L_lpad27_2eloopexit_2esplit_2dlp_2eloopexit_2esplit_2dlp_2eloopexit_2esplit_2dlp; } else { p_cond_2ei_2ei78 = v_call3_2ei_2ei95; goto L__ZNSt15basic_streambufIcSt11char_traitsIcEE8in_availEv_2eexit_2ei80; }
 L__ZNSt15basic_streambufIcSt11char_traitsIcEE8in_availEv_2eexit_2ei80: ;
  v_cond_2ei_2ei78 = p_cond_2ei_2ei78;
  v_cmp_2ei79 = ((u8)(((i64)v_cond_2ei_2ei78) < ((i64)((u64)1ULL))));
  if (v_cmp_2ei79) {  goto L__ZN8Pistache12StreamCursor7advanceEm_2eexit98; } else {  goto L_for_2ebody_2ei85; }
 L_for_2ebody_2ei85: ;
  v_62 = *(u8**)v_24;
  v__M_in_cur_2ei_2ei4_2ei82 = (v_62 + (16));
  v_63 = *(u8**)v__M_in_cur_2ei_2ei4_2ei82;
  v__M_in_end_2ei_2ei5_2ei83 = (v_62 + (24));
  v_64 = *(u8**)v__M_in_end_2ei_2ei5_2ei83;
  v_cmp_2ei_2ei84 = ((u8)((u64)v_63 < (u64)v_64));
  if (v_cmp_2ei_2ei84) {  goto L_if_2ethen_2ei_2ei87; } else {  goto L_if_2eelse_2ei_2ei90; }
 L_if_2eelse_2ei_2ei90: ;
  v_65 = v_62;
  v_vtable_2ei6_2ei88 = *(u8**)v_65;
  v_vfn_2ei7_2ei89 = (v_vtable_2ei6_2ei88 + (80));
  v_66 = *(u8**)v_vfn_2ei7_2ei89;
  { u8* fp_ = v_66;
    if (fp_ == (u8*)_ZNSt15basic_streambufIcSt11char_traitsIcEE5uflowEv) { v_call5_2ei_2ei97 = _ZNSt15basic_streambufIcSt11char_traitsIcEE5uflowEv(v_62); } else
    { v_call5_2ei_2ei97 = __ir_indirect_ru32_u8p(fp_, v_62); } }
  v_call5_2ei_2ei97 = v_call5_2ei_2ei97;
  if (__ir_exc_pending) {  goto L_lpad27_2eloopexit_2esplit_2dlp_2eloopexit_2esplit_2dlp_2eloopexit; } else {  goto L__ZN8Pistache12StreamCursor7advanceEm_2eexit98; }
 L_lpad27_2eloopexit_2esplit_2dlp_2eloopexit_2esplit_2dlp_2eloopexit: ;
  __ir_landingpad((u8*)&v_lpad_2eloopexit385);
  __ir_lp_select((u8*)&v_lpad_2eloopexit385, 0, (u8*[]){0});
  p__2epn4 = v_lpad_2eloopexit385; goto L_ehcleanup99;
 L_if_2ethen_2ei_2ei87: ;
  v_add_2eptr_2ei_2ei_2ei86 = (v_63 + (1));
  *(u8**)v__M_in_cur_2ei_2ei4_2ei82 = v_add_2eptr_2ei_2ei_2ei86;
   goto L__ZN8Pistache12StreamCursor7advanceEm_2eexit98;
 L__ZN8Pistache12StreamCursor7advanceEm_2eexit98: ;
  v_67 = (v_agg_2eresult + (168));
  v_68 = (v_agg_2eresult + (169));
  v_69 = v_token_2ei_2ei;
  v_70 = v_ref_2etmp_2ei_2ei;
  v_71 = v_ref_2etmp1_2ei_2ei;
  v_gptr_2ei_2ei_2ei = (v_token_2ei_2ei + (24));
  v_cursor_2ei_2ei_2ei_2ei = v_token_2ei_2ei;
  v_position_2ei_2ei_2ei_2ei = (v_token_2ei_2ei + (8));
  v_tmpcast_2ei_2ei = v_ref_2etmp_2ei_2ei;
  v_72 = v_maxAge_2ei;
  v_73 = v_token_2ei_2ei205;
  v_74 = v_ref_2etmp_2ei_2ei206;
  v_75 = v_ref_2etmp1_2ei_2ei207;
  v_gptr_2ei_2ei_2ei208 = (v_token_2ei_2ei205 + (24));
  v_cursor_2ei_2ei_2ei_2ei_2ei = v_token_2ei_2ei205;
  v_position_2ei_2ei_2ei_2ei_2ei = (v_token_2ei_2ei205 + (8));
  v_76 = v_ref_2etmp_2ei_2ei_2ei;
  v_coerce_2edive3_2ei_2ei = v_ref_2etmp_2ei_2ei206;
  v_77 = v_ref_2etmp_2ei254;
  v_78 = v_name;
  v_79 = v_ref_2etmp_2ei258;
  v_80 = v_value;
  v_81 = v_token;
  v_82 = v_ref_2etmp;
  v_gptr_2ei285 = (v_token + (24));
  v_cursor_2ei_2ei_2ei286 = v_token;
  v_position_2ei_2ei_2ei292 = (v_token + (8));
  v_83 = v_ref_2etmp_2ei284;
  v_84 = v_ref_2etmp74;
   goto L_do_2ebody;
 L_do_2ebody: ;
  v_85 = *(u8**)v_24;
  v__M_in_end_2ei_2ei_2ei_2ei_2ei = (v_85 + (24));
  v_86 = *(u8**)v__M_in_end_2ei_2ei_2ei_2ei_2ei;
  v__M_in_cur_2ei_2ei_2ei_2ei_2ei99 = (v_85 + (16));
  v_87 = *(u8**)v__M_in_cur_2ei_2ei_2ei_2ei_2ei99;
  v_sub_2eptr_2elhs_2ecast_2ei_2ei_2ei_2ei100 = ((u64)(u64)v_86);
  v_sub_2eptr_2erhs_2ecast_2ei_2ei_2ei_2ei101 = ((u64)(u64)v_87);
  v_sub_2eptr_2esub_2ei_2ei_2ei_2ei = __IR_PTRDIFF(v_86, v_87);
  v_tobool_2enot_2ei_2ei_2ei_2ei = ((u8)(v_sub_2eptr_2esub_2ei_2ei_2ei_2ei == ((u64)0ULL)));
  if (v_tobool_2enot_2ei_2ei_2ei_2ei) {  goto L_cond_2efalse_2ei_2ei_2ei_2ei; } else { p_cond_2ei_2ei_2ei_2ei = v_sub_2eptr_2esub_2ei_2ei_2ei_2ei; goto L__ZNK8Pistache12StreamCursor3eofEv_2eexit_2ei; }
 L_cond_2efalse_2ei_2ei_2ei_2ei: ;
  v_88 = v_85;
  v_vtable_2ei_2ei_2ei_2ei = *(u8**)v_88;
  v_vfn_2ei_2ei_2ei_2ei = (v_vtable_2ei_2ei_2ei_2ei + (56));
  v_89 = *(u8**)v_vfn_2ei_2ei_2ei_2ei;
  { u8* fp_ = v_89;
    if (fp_ == (u8*)_ZNSt15basic_streambufIcSt11char_traitsIcEE9showmanycEv) { v_call3_2ei_2ei_2ei_2ei113 = _ZNSt15basic_streambufIcSt11char_traitsIcEE9showmanycEv(v_85); } else
    { v_call3_2ei_2ei_2ei_2ei113 = __ir_indirect_ru64_u8p(fp_, v_85); } }
  v_call3_2ei_2ei_2ei_2ei113 = v_call3_2ei_2ei_2ei_2ei113;
  if (__ir_exc_pending) {  goto L_lpad27_2eloopexit_2esplit_2dlp_2eloopexit; } else { p_cond_2ei_2ei_2ei_2ei = v_call3_2ei_2ei_2ei_2ei113; goto L__ZNK8Pistache12StreamCursor3eofEv_2eexit_2ei; }
 L__ZNK8Pistache12StreamCursor3eofEv_2eexit_2ei: ;
  v_cond_2ei_2ei_2ei_2ei = p_cond_2ei_2ei_2ei_2ei;
  v_cmp_2ei_2ei102 = ((u8)(v_cond_2ei_2ei_2ei_2ei == ((u64)0ULL)));
  if (v_cmp_2ei_2ei102) {  goto L_invoke_2econt34; } else {  goto L_while_2econd_2ei; }
 L_while_2econd_2ei: ;
  v_90 = *(u8**)v_24;
  v__M_in_cur_2ei_2ei_2ei_2ei103 = (v_90 + (16));
  v_91 = *(u8**)v__M_in_cur_2ei_2ei_2ei_2ei103;
  v__M_in_end_2ei_2ei_2ei_2ei104 = (v_90 + (24));
  v_92 = *(u8**)v__M_in_end_2ei_2ei_2ei_2ei104;
  v_cmp_2ei_2ei_2ei = ((u8)((u64)v_91 < (u64)v_92));
  if (v_cmp_2ei_2ei_2ei) {  goto L_if_2ethen_2ei_2ei_2ei; } else {  goto L_if_2eelse_2ei_2ei_2ei; }
 L_if_2eelse_2ei_2ei_2ei: ;
  v_94 = v_90;
  v_vtable_2ei_2ei_2ei105 = *(u8**)v_94;
  v_vfn_2ei_2ei_2ei106 = (v_vtable_2ei_2ei_2ei105 + (72));
  v_95 = *(u8**)v_vfn_2ei_2ei_2ei106;
  { u8* fp_ = v_95;
    if (fp_ == (u8*)_ZNSt15basic_streambufIcSt11char_traitsIcEE9underflowEv) { v_call5_2ei_2ei_2ei114 = _ZNSt15basic_streambufIcSt11char_traitsIcEE9underflowEv(v_90); } else
    { v_call5_2ei_2ei_2ei114 = __ir_indirect_ru32_u8p(fp_, v_90); } }
  v_call5_2ei_2ei_2ei114 = v_call5_2ei_2ei_2ei114;
  if (__ir_exc_pending) {  goto L_lpad27_2eloopexit; } else { p___ret_2e0_2ei_2ei_2ei = v_call5_2ei_2ei_2ei114; goto L__ZNK8Pistache12StreamCursor7currentEv_2eexit_2ei; }
 L_if_2ethen_2ei_2ei_2ei: ;
  v_93 = *(u8*)v_91;
  v_conv_2ei_2ei_2ei_2ei = ((u32)v_93);
  p___ret_2e0_2ei_2ei_2ei = v_conv_2ei_2ei_2ei_2ei; goto L__ZNK8Pistache12StreamCursor7currentEv_2eexit_2ei;
 L__ZNK8Pistache12StreamCursor7currentEv_2eexit_2ei: ;
  v___ret_2e0_2ei_2ei_2ei = p___ret_2e0_2ei_2ei_2ei;
  v_conv_2ei_2ei = ((u8)v___ret_2e0_2ei_2ei_2ei);
  switch (v_conv_2ei_2ei) {
   case ((u8)9ULL): {  goto L_while_2ebody_2ei; }
   case ((u8)32ULL): {  goto L_while_2ebody_2ei; }
   default: {  goto L_invoke_2econt34; } }
 L_while_2ebody_2ei: ;
  v_96 = *(u8**)v_24;
  v__M_in_end_2ei_2ei_2ei5_2ei = (v_96 + (24));
  v_97 = *(u8**)v__M_in_end_2ei_2ei_2ei5_2ei;
  v__M_in_cur_2ei_2ei_2ei6_2ei = (v_96 + (16));
  v_98 = *(u8**)v__M_in_cur_2ei_2ei_2ei6_2ei;
  v_sub_2eptr_2elhs_2ecast_2ei_2ei_2ei107 = ((u64)(u64)v_97);
  v_sub_2eptr_2erhs_2ecast_2ei_2ei_2ei108 = ((u64)(u64)v_98);
  v_sub_2eptr_2esub_2ei_2ei_2ei109 = __IR_PTRDIFF(v_97, v_98);
  v_tobool_2enot_2ei_2ei_2ei110 = ((u8)(v_sub_2eptr_2esub_2ei_2ei_2ei109 == ((u64)0ULL)));
  if (v_tobool_2enot_2ei_2ei_2ei110) {  goto L_cond_2efalse_2ei_2ei_2ei111; } else { p_cond_2ei_2ei_2ei112 = v_sub_2eptr_2esub_2ei_2ei_2ei109; goto L__ZNSt15basic_streambufIcSt11char_traitsIcEE8in_availEv_2eexit_2ei_2ei; }
 L_cond_2efalse_2ei_2ei_2ei111: ;
  v_99 = v_96;
  v_vtable_2ei_2ei7_2ei = *(u8**)v_99;
  v_vfn_2ei_2ei8_2ei = (v_vtable_2ei_2ei7_2ei + (56));
  v_100 = *(u8**)v_vfn_2ei_2ei8_2ei;
  { u8* fp_ = v_100;
    if (fp_ == (u8*)_ZNSt15basic_streambufIcSt11char_traitsIcEE9showmanycEv) { v_call3_2ei_2ei_2ei116 = _ZNSt15basic_streambufIcSt11char_traitsIcEE9showmanycEv(v_96); } else
    { v_call3_2ei_2ei_2ei116 = __ir_indirect_ru64_u8p(fp_, v_96); } }
  v_call3_2ei_2ei_2ei116 = v_call3_2ei_2ei_2ei116;
  if (__ir_exc_pending) {  goto L_lpad27_2eloopexit; } else { p_cond_2ei_2ei_2ei112 = v_call3_2ei_2ei_2ei116; goto L__ZNSt15basic_streambufIcSt11char_traitsIcEE8in_availEv_2eexit_2ei_2ei; }
 L__ZNSt15basic_streambufIcSt11char_traitsIcEE8in_availEv_2eexit_2ei_2ei: ;
  v_cond_2ei_2ei_2ei112 = p_cond_2ei_2ei_2ei112;
  v_cmp_2ei9_2ei = ((u8)(((i64)v_cond_2ei_2ei_2ei112) < ((i64)((u64)1ULL))));
  if (v_cmp_2ei9_2ei) {  goto L_while_2econd_2ei_2ebackedge; } else {  goto L_for_2ebody_2ei_2ei; }
 L_for_2ebody_2ei_2ei: ;
  v_101 = *(u8**)v_24;
  v__M_in_cur_2ei_2ei4_2ei_2ei = (v_101 + (16));
  v_102 = *(u8**)v__M_in_cur_2ei_2ei4_2ei_2ei;
  v__M_in_end_2ei_2ei5_2ei_2ei = (v_101 + (24));
  v_103 = *(u8**)v__M_in_end_2ei_2ei5_2ei_2ei;
  v_cmp_2ei_2ei10_2ei = ((u8)((u64)v_102 < (u64)v_103));
  if (v_cmp_2ei_2ei10_2ei) {  goto L_if_2ethen_2ei_2ei11_2ei; } else {  goto L_if_2eelse_2ei_2ei13_2ei; }
 L_if_2eelse_2ei_2ei13_2ei: ;
  v_104 = v_101;
  v_vtable_2ei6_2ei_2ei = *(u8**)v_104;
  v_vfn_2ei7_2ei_2ei = (v_vtable_2ei6_2ei_2ei + (80));
  v_105 = *(u8**)v_vfn_2ei7_2ei_2ei;
  { u8* fp_ = v_105;
    if (fp_ == (u8*)_ZNSt15basic_streambufIcSt11char_traitsIcEE5uflowEv) { v_call5_2ei_2ei12_2ei117 = _ZNSt15basic_streambufIcSt11char_traitsIcEE5uflowEv(v_101); } else
    { v_call5_2ei_2ei12_2ei117 = __ir_indirect_ru32_u8p(fp_, v_101); } }
  v_call5_2ei_2ei12_2ei117 = v_call5_2ei_2ei12_2ei117;
  if (__ir_exc_pending) {  goto L_lpad27_2eloopexit; } else {  goto L_while_2econd_2ei_2ebackedge; }
 L_if_2ethen_2ei_2ei11_2ei: ;
  v_add_2eptr_2ei_2ei_2ei_2ei = (v_102 + (1));
  *(u8**)v__M_in_cur_2ei_2ei4_2ei_2ei = v_add_2eptr_2ei_2ei_2ei_2ei;
   goto L_while_2econd_2ei_2ebackedge;
 L_while_2econd_2ei_2ebackedge: ;
   goto L_while_2econd_2ei; /*LOOPBACK d=1 nest=0*/
 L_lpad27_2eloopexit: ;
  __ir_landingpad((u8*)&v_lpad_2eloopexit379);
  __ir_lp_select((u8*)&v_lpad_2eloopexit379, 0, (u8*[]){0});
  p__2epn4 = v_lpad_2eloopexit379; goto L_ehcleanup99;
 L_invoke_2econt34: ;
  v_call36 = _ZN8Pistache4Http12_GLOBAL__N_115match_attributeISt8optionalINSt7__cxx1112basic_stringIcSt11char_traitsIcESaIcEEEEEEbPKcmRNS_12StreamCursorEPNS0_6CookieEMSF_T_(((u8*)&_2estr_2e1), ((u64)4ULL), v_cursor, v_agg_2eresult, ((u64)64ULL));
  if (__ir_exc_pending) {  goto L_lpad27_2eloopexit_2esplit_2dlp_2eloopexit; } else {  goto L_invoke_2econt35; }
 L_invoke_2econt35: ;
  if (v_call36) {  goto L_do_2econd; } else {  goto L_if_2eelse; }
 L_if_2eelse: ;
  v_call39 = _ZN8Pistache4Http12_GLOBAL__N_115match_attributeISt8optionalINSt7__cxx1112basic_stringIcSt11char_traitsIcESaIcEEEEEEbPKcmRNS_12StreamCursorEPNS0_6CookieEMSF_T_(((u8*)&_2estr_2e2), ((u64)6ULL), v_cursor, v_agg_2eresult, ((u64)104ULL));
  if (__ir_exc_pending) {  goto L_lpad27_2eloopexit_2esplit_2dlp_2eloopexit; } else {  goto L_invoke_2econt38; }
 L_invoke_2econt38: ;
  if (v_call39) {  goto L_do_2econd; } else {  goto L_if_2eelse41; }
 L_if_2eelse41: ;
  v_call_2ei139 = _ZN8Pistache12match_stringEPKcmRNS_12StreamCursorENS_15CaseSensitivityE(((u8*)&_2estr_2e3), ((u64)6ULL), v_cursor, ((u32)1ULL));
  if (__ir_exc_pending) {  goto L_lpad27_2eloopexit_2esplit_2dlp_2eloopexit; } else {  goto L_call_2ei_2enoexc; }
 L_call_2ei_2enoexc: ;
  if (v_call_2ei139) {  goto L_if_2ethen_2ei; } else {  goto L_if_2eelse45; }
 L_if_2ethen_2ei: ;
  *(u8*)v_67 = ((u8)1ULL);
  v_106 = *(u8**)v_24;
  v__M_in_end_2ei_2ei_2ei_2ei118 = (v_106 + (24));
  v_107 = *(u8**)v__M_in_end_2ei_2ei_2ei_2ei118;
  v__M_in_cur_2ei_2ei_2ei_2ei119 = (v_106 + (16));
  v_108 = *(u8**)v__M_in_cur_2ei_2ei_2ei_2ei119;
  v_sub_2eptr_2elhs_2ecast_2ei_2ei_2ei120 = ((u64)(u64)v_107);
  v_sub_2eptr_2erhs_2ecast_2ei_2ei_2ei121 = ((u64)(u64)v_108);
  v_sub_2eptr_2esub_2ei_2ei_2ei122 = __IR_PTRDIFF(v_107, v_108);
  v_tobool_2enot_2ei_2ei_2ei123 = ((u8)(v_sub_2eptr_2esub_2ei_2ei_2ei122 == ((u64)0ULL)));
  if (v_tobool_2enot_2ei_2ei_2ei123) {  goto L_cond_2efalse_2ei_2ei_2ei126; } else { p_cond_2ei_2ei_2ei127 = v_sub_2eptr_2esub_2ei_2ei_2ei122; goto L__ZNSt15basic_streambufIcSt11char_traitsIcEE8in_availEv_2eexit_2ei_2ei129; }
 L_cond_2efalse_2ei_2ei_2ei126: ;
  v_109 = v_106;
  v_vtable_2ei_2ei_2ei124 = *(u8**)v_109;
  v_vfn_2ei_2ei_2ei125 = (v_vtable_2ei_2ei_2ei124 + (56));
  v_110 = *(u8**)v_vfn_2ei_2ei_2ei125;
  { u8* fp_ = v_110;
    if (fp_ == (u8*)_ZNSt15basic_streambufIcSt11char_traitsIcEE9showmanycEv) { v_call3_2ei_2ei_2ei141 = _ZNSt15basic_streambufIcSt11char_traitsIcEE9showmanycEv(v_106); } else
    { v_call3_2ei_2ei_2ei141 = __ir_indirect_ru64_u8p(fp_, v_106); } }
  v_call3_2ei_2ei_2ei141 = v_call3_2ei_2ei_2ei141;
  if (__ir_exc_pending) {  goto L_lpad27_2eloopexit_2esplit_2dlp_2eloopexit; } else { p_cond_2ei_2ei_2ei127 = v_call3_2ei_2ei_2ei141; goto L__ZNSt15basic_streambufIcSt11char_traitsIcEE8in_availEv_2eexit_2ei_2ei129; }
 L__ZNSt15basic_streambufIcSt11char_traitsIcEE8in_availEv_2eexit_2ei_2ei129: ;
  v_cond_2ei_2ei_2ei127 = p_cond_2ei_2ei_2ei127;
  v_cmp_2ei_2ei128 = ((u8)(((i64)v_cond_2ei_2ei_2ei127) < ((i64)((u64)1ULL))));
  if (v_cmp_2ei_2ei128) {  goto L_invoke_2econt42; } else {  goto L_for_2ebody_2ei_2ei133; }
 L_for_2ebody_2ei_2ei133: ;
  v_111 = *(u8**)v_24;
  v__M_in_cur_2ei_2ei4_2ei_2ei130 = (v_111 + (16));
  v_112 = *(u8**)v__M_in_cur_2ei_2ei4_2ei_2ei130;
  v__M_in_end_2ei_2ei5_2ei_2ei131 = (v_111 + (24));
  v_113 = *(u8**)v__M_in_end_2ei_2ei5_2ei_2ei131;
  v_cmp_2ei_2ei_2ei132 = ((u8)((u64)v_112 < (u64)v_113));
  if (v_cmp_2ei_2ei_2ei132) {  goto L_if_2ethen_2ei_2ei_2ei135; } else {  goto L_if_2eelse_2ei_2ei_2ei138; }
 L_if_2eelse_2ei_2ei_2ei138: ;
  v_114 = v_111;
  v_vtable_2ei6_2ei_2ei136 = *(u8**)v_114;
  v_vfn_2ei7_2ei_2ei137 = (v_vtable_2ei6_2ei_2ei136 + (80));
  v_115 = *(u8**)v_vfn_2ei7_2ei_2ei137;
  { u8* fp_ = v_115;
    if (fp_ == (u8*)_ZNSt15basic_streambufIcSt11char_traitsIcEE5uflowEv) { v_call5_2ei_2ei_2ei143 = _ZNSt15basic_streambufIcSt11char_traitsIcEE5uflowEv(v_111); } else
    { v_call5_2ei_2ei_2ei143 = __ir_indirect_ru32_u8p(fp_, v_111); } }
  v_call5_2ei_2ei_2ei143 = v_call5_2ei_2ei_2ei143;
  if (__ir_exc_pending) {  goto L_lpad27_2eloopexit_2esplit_2dlp_2eloopexit; } else {  goto L_invoke_2econt42; }
 L_if_2ethen_2ei_2ei_2ei135: ;
  v_add_2eptr_2ei_2ei_2ei_2ei134 = (v_112 + (1));
  *(u8**)v__M_in_cur_2ei_2ei4_2ei_2ei130 = v_add_2eptr_2ei_2ei_2ei_2ei134;
   goto L_invoke_2econt42;
 L_invoke_2econt42: ;
  if (v_call_2ei139) {  goto L_do_2econd; } else {  goto L_if_2eelse45; }
 L_if_2eelse45: ;
  v_call_2ei168 = _ZN8Pistache12match_stringEPKcmRNS_12StreamCursorENS_15CaseSensitivityE(((u8*)&_2estr_2e4), ((u64)8ULL), v_cursor, ((u32)1ULL));
  if (__ir_exc_pending) {  goto L_lpad27_2eloopexit_2esplit_2dlp_2eloopexit; } else {  goto L_call_2ei_2enoexc167; }
 L_call_2ei_2enoexc167: ;
  if (v_call_2ei168) {  goto L_if_2ethen_2ei151; } else {  goto L_if_2eelse49; }
 L_if_2ethen_2ei151: ;
  *(u8*)v_68 = ((u8)1ULL);
  v_116 = *(u8**)v_24;
  v__M_in_end_2ei_2ei_2ei_2ei145 = (v_116 + (24));
  v_117 = *(u8**)v__M_in_end_2ei_2ei_2ei_2ei145;
  v__M_in_cur_2ei_2ei_2ei_2ei146 = (v_116 + (16));
  v_118 = *(u8**)v__M_in_cur_2ei_2ei_2ei_2ei146;
  v_sub_2eptr_2elhs_2ecast_2ei_2ei_2ei147 = ((u64)(u64)v_117);
  v_sub_2eptr_2erhs_2ecast_2ei_2ei_2ei148 = ((u64)(u64)v_118);
  v_sub_2eptr_2esub_2ei_2ei_2ei149 = __IR_PTRDIFF(v_117, v_118);
  v_tobool_2enot_2ei_2ei_2ei150 = ((u8)(v_sub_2eptr_2esub_2ei_2ei_2ei149 == ((u64)0ULL)));
  if (v_tobool_2enot_2ei_2ei_2ei150) {  goto L_cond_2efalse_2ei_2ei_2ei154; } else { p_cond_2ei_2ei_2ei155 = v_sub_2eptr_2esub_2ei_2ei_2ei149; goto L__ZNSt15basic_streambufIcSt11char_traitsIcEE8in_availEv_2eexit_2ei_2ei157; }
 L_cond_2efalse_2ei_2ei_2ei154: ;
  v_119 = v_116;
  v_vtable_2ei_2ei_2ei152 = *(u8**)v_119;
  v_vfn_2ei_2ei_2ei153 = (v_vtable_2ei_2ei_2ei152 + (56));
  v_120 = *(u8**)v_vfn_2ei_2ei_2ei153;
  { u8* fp_ = v_120;
    if (fp_ == (u8*)_ZNSt15basic_streambufIcSt11char_traitsIcEE9showmanycEv) { v_call3_2ei_2ei_2ei170 = _ZNSt15basic_streambufIcSt11char_traitsIcEE9showmanycEv(v_116); } else
    { v_call3_2ei_2ei_2ei170 = __ir_indirect_ru64_u8p(fp_, v_116); } }
  v_call3_2ei_2ei_2ei170 = v_call3_2ei_2ei_2ei170;
  if (__ir_exc_pending) {  goto L_lpad27_2eloopexit_2esplit_2dlp_2eloopexit; } else { p_cond_2ei_2ei_2ei155 = v_call3_2ei_2ei_2ei170; goto L__ZNSt15basic_streambufIcSt11char_traitsIcEE8in_availEv_2eexit_2ei_2ei157; }
 L__ZNSt15basic_streambufIcSt11char_traitsIcEE8in_availEv_2eexit_2ei_2ei157: ;
  v_cond_2ei_2ei_2ei155 = p_cond_2ei_2ei_2ei155;
  v_cmp_2ei_2ei156 = ((u8)(((i64)v_cond_2ei_2ei_2ei155) < ((i64)((u64)1ULL))));
  if (v_cmp_2ei_2ei156) {  goto L_invoke_2econt46; } else {  goto L_for_2ebody_2ei_2ei161; }
 L_for_2ebody_2ei_2ei161: ;
  v_121 = *(u8**)v_24;
  v__M_in_cur_2ei_2ei4_2ei_2ei158 = (v_121 + (16));
  v_122 = *(u8**)v__M_in_cur_2ei_2ei4_2ei_2ei158;
  v__M_in_end_2ei_2ei5_2ei_2ei159 = (v_121 + (24));
  v_123 = *(u8**)v__M_in_end_2ei_2ei5_2ei_2ei159;
  v_cmp_2ei_2ei_2ei160 = ((u8)((u64)v_122 < (u64)v_123));
  if (v_cmp_2ei_2ei_2ei160) {  goto L_if_2ethen_2ei_2ei_2ei163; } else {  goto L_if_2eelse_2ei_2ei_2ei166; }
 L_if_2eelse_2ei_2ei_2ei166: ;
  v_124 = v_121;
  v_vtable_2ei6_2ei_2ei164 = *(u8**)v_124;
  v_vfn_2ei7_2ei_2ei165 = (v_vtable_2ei6_2ei_2ei164 + (80));
  v_125 = *(u8**)v_vfn_2ei7_2ei_2ei165;
  { u8* fp_ = v_125;
    if (fp_ == (u8*)_ZNSt15basic_streambufIcSt11char_traitsIcEE5uflowEv) { v_call5_2ei_2ei_2ei172 = _ZNSt15basic_streambufIcSt11char_traitsIcEE5uflowEv(v_121); } else
    { v_call5_2ei_2ei_2ei172 = __ir_indirect_ru32_u8p(fp_, v_121); } }
  v_call5_2ei_2ei_2ei172 = v_call5_2ei_2ei_2ei172;
  if (__ir_exc_pending) {  goto L_lpad27_2eloopexit_2esplit_2dlp_2eloopexit; } else {  goto L_invoke_2econt46; }
 L_if_2ethen_2ei_2ei_2ei163: ;
  v_add_2eptr_2ei_2ei_2ei_2ei162 = (v_122 + (1));
  *(u8**)v__M_in_cur_2ei_2ei4_2ei_2ei158 = v_add_2eptr_2ei_2ei_2ei_2ei162;
   goto L_invoke_2econt46;
 L_invoke_2econt46: ;
  if (v_call_2ei168) {  goto L_do_2econd; } else {  goto L_if_2eelse49; }
 L_if_2eelse49: ;
  v_call_2ei198 = _ZN8Pistache12match_stringEPKcmRNS_12StreamCursorENS_15CaseSensitivityE(((u8*)&_2estr_2e5), ((u64)7ULL), v_cursor, ((u32)1ULL));
  if (__ir_exc_pending) {  goto L_lpad27_2eloopexit_2esplit_2dlp_2eloopexit; } else {  goto L_call_2ei_2enoexc197; }
 L_call_2ei_2enoexc197: ;
  if (v_call_2ei198) {  goto L_if_2ethen_2ei174; } else {  goto L_if_2eelse53; }
 L_if_2ethen_2ei174: ;
  _ZN8Pistache4Http12_GLOBAL__N_110matchValueERNS_12StreamCursorE(v_token_2ei_2ei, v_cursor);
  if (__ir_exc_pending) {  goto L_lpad27_2eloopexit_2esplit_2dlp_2eloopexit; } else {  goto L__2enoexc; }
 L__2enoexc: ;
  v_126 = *(u8**)v_gptr_2ei_2ei_2ei;
  v_127 = *(u8**)v_cursor_2ei_2ei_2ei_2ei;
  v_buf_2ei_2ei_2ei_2ei = v_127;
  v_128 = *(u8**)v_buf_2ei_2ei_2ei_2ei;
  v__M_in_cur_2ei_2ei_2ei_2ei_2ei_2ei = (v_128 + (16));
  v_129 = *(u8**)v__M_in_cur_2ei_2ei_2ei_2ei_2ei_2ei;
  v__M_in_beg_2ei_2ei_2ei_2ei_2ei_2ei = (v_128 + (8));
  v_130 = *(u8**)v__M_in_beg_2ei_2ei_2ei_2ei_2ei_2ei;
  v_sub_2eptr_2elhs_2ecast_2ei_2ei_2ei_2ei_2ei = ((u64)(u64)v_129);
  v_sub_2eptr_2erhs_2ecast_2ei_2ei_2ei_2ei_2ei = ((u64)(u64)v_130);
  v_131 = *(u64*)v_position_2ei_2ei_2ei_2ei;
  v_132 = ((u64)((u64)v_131 + (u64)v_sub_2eptr_2erhs_2ecast_2ei_2ei_2ei_2ei_2ei));
  v_sub_2ei_2ei_2ei = ((u64)((u64)v_sub_2eptr_2elhs_2ecast_2ei_2ei_2ei_2ei_2ei - (u64)v_132));
  v_cmp4_2enot_2ei_2ei_2ei = ((u8)(v_sub_2ei_2ei_2ei == ((u64)0ULL)));
  if (v_cmp4_2enot_2ei_2ei_2ei) { p_ret_2e0_2elcssa_2ei_2ei_2ei = ((u32)0ULL); goto L__ZN8Pistache4Http12_GLOBAL__N_116AttributeMatcherISt8optionalIiEE5matchERNS_12StreamCursorEPNS0_6CookieEMS8_S4__2eexit_2ei; } else { p_ret_2e06_2ei_2ei_2ei = ((u32)0ULL); p_i_2e05_2ei_2ei_2ei = ((u64)0ULL); goto L_for_2ebody_2ei_2ei_2ei; }
 L_for_2ebody_2ei_2ei_2ei: ;
  v_ret_2e06_2ei_2ei_2ei = p_ret_2e06_2ei_2ei_2ei;
  v_i_2e05_2ei_2ei_2ei = p_i_2e05_2ei_2ei_2ei;
  v_arrayidx_2ei_2ei_2ei = (v_126 + (((i64)(i64)v_i_2e05_2ei_2ei_2ei)));
  v_133 = *(u8*)v_arrayidx_2ei_2ei_2ei;
  v_conv_2ei_2ei_2ei = ((u32)((i8)v_133));
  v_isdigittmp_2ei_2ei_2ei = ((u32)((u64)v_conv_2ei_2ei_2ei + (u64)((u32)4294967248ULL)));
  v_isdigit_2ei_2ei_2ei = ((u8)(v_isdigittmp_2ei_2ei_2ei < ((u32)10ULL)));
  if (v_isdigit_2ei_2ei_2ei) {  goto L_if_2eend_2ei_2ei_2ei; } else {  goto L_if_2ethen_2ei_2ei_2ei175; }
 L_if_2eend_2ei_2ei_2ei: ;
  v_sub5_2ei_2ei_2ei = ((u32)((u64)((u32)2147483695ULL) - (u64)v_conv_2ei_2ei_2ei));
  v_div_2ei_2ei_2ei = ((u32)((u64)(((i32)v_sub5_2ei_2ei_2ei) / ((i32)((u32)10ULL)))));
  v_cmp6_2ei_2ei_2ei = ((u8)(((i32)v_ret_2e06_2ei_2ei_2ei) > ((i32)v_div_2ei_2ei_2ei)));
  if (v_cmp6_2ei_2ei_2ei) {  goto L_if_2ethen7_2ei_2ei_2ei; } else {  goto L_if_2eend11_2ei_2ei_2ei; }
 L_if_2eend11_2ei_2ei_2ei: ;
  v_mul_2ei_2ei_2ei = ((u32)((u64)v_ret_2e06_2ei_2ei_2ei * (u64)((u32)10ULL)));
  v_add_2ei_2ei_2ei = ((u32)((u64)v_isdigittmp_2ei_2ei_2ei + (u64)v_mul_2ei_2ei_2ei));
  v_inc_2ei_2ei_2ei = ((u64)((u64)v_i_2e05_2ei_2ei_2ei + (u64)((u64)1ULL)));
  v_exitcond_2enot_2ei_2ei_2ei = ((u8)(v_inc_2ei_2ei_2ei == v_sub_2ei_2ei_2ei));
  if (v_exitcond_2enot_2ei_2ei_2ei) { p_ret_2e0_2elcssa_2ei_2ei_2ei = v_add_2ei_2ei_2ei; goto L__ZN8Pistache4Http12_GLOBAL__N_116AttributeMatcherISt8optionalIiEE5matchERNS_12StreamCursorEPNS0_6CookieEMS8_S4__2eexit_2ei; } else { p_ret_2e06_2ei_2ei_2ei = v_add_2ei_2ei_2ei; p_i_2e05_2ei_2ei_2ei = v_inc_2ei_2ei_2ei; goto L_for_2ebody_2ei_2ei_2ei; /*LOOPBACK d=1 nest=0*/ }
 L_if_2ethen7_2ei_2ei_2ei: ;
  v_exception8_2ei_2ei_2ei = __cxa_allocate_exception(((u64)16ULL));
  if (__ir_exc_pending) return;
  v_136 = v_exception8_2ei_2ei_2ei;
  _ZNSt16invalid_argumentC1EPKc(v_136, ((u8*)&_2estr_2e20));
  if (__ir_exc_pending) {  goto L_lpad9_2ei_2ei_2ei; } else {  goto L_invoke_2econt10_2ei_2ei_2ei; }
 L_lpad9_2ei_2ei_2ei: ;
  __ir_landingpad((u8*)&v_137);
  __ir_lp_select((u8*)&v_137, 0, (u8*[]){0});
  __cxa_free_exception(v_exception8_2ei_2ei_2ei);
  if (__ir_exc_pending) return;
  p__2epn4 = v_137; goto L_ehcleanup99;
 L_invoke_2econt10_2ei_2ei_2ei: ;
  __cxa_throw(v_exception8_2ei_2ei_2ei, ((u8*)&_ZTISt16invalid_argument), ((u8*)_ZNSt16invalid_argumentD1Ev));
  if (__ir_exc_pending) {  goto L_lpad27_2eloopexit_2esplit_2dlp_2eloopexit_2esplit_2dlp_2eloopexit_2esplit_2dlp; } else {  goto L__2enoexc200; }
 L__2enoexc200: ;
  __ir_unreachable();
 L_if_2ethen_2ei_2ei_2ei175: ;
  v_exception_2ei_2ei_2ei = __cxa_allocate_exception(((u64)16ULL));
  if (__ir_exc_pending) return;
  v_134 = v_exception_2ei_2ei_2ei;
  _ZNSt16invalid_argumentC1EPKc(v_134, ((u8*)&_2estr_2e19));
  if (__ir_exc_pending) {  goto L_lpad_2ei_2ei_2ei; } else {  goto L_invoke_2econt_2ei_2ei_2ei; }
 L_lpad_2ei_2ei_2ei: ;
  __ir_landingpad((u8*)&v_135);
  __ir_lp_select((u8*)&v_135, 0, (u8*[]){0});
  __cxa_free_exception(v_exception_2ei_2ei_2ei);
  if (__ir_exc_pending) return;
  p__2epn4 = v_135; goto L_ehcleanup99;
 L_invoke_2econt_2ei_2ei_2ei: ;
  __cxa_throw(v_exception_2ei_2ei_2ei, ((u8*)&_ZTISt16invalid_argument), ((u8*)_ZNSt16invalid_argumentD1Ev));
  if (__ir_exc_pending) {  goto L_lpad27_2eloopexit_2esplit_2dlp_2eloopexit_2esplit_2dlp_2eloopexit_2esplit_2dlp; } else {  goto L__2enoexc199; }
 L_lpad27_2eloopexit_2esplit_2dlp_2eloopexit_2esplit_2dlp_2eloopexit_2esplit_2dlp: ;
  __ir_landingpad((u8*)&v_lpad_2eloopexit_2esplit_2dlp386);
  __ir_lp_select((u8*)&v_lpad_2eloopexit_2esplit_2dlp386, 0, (u8*[]){0});
  p__2epn4 = v_lpad_2eloopexit_2esplit_2dlp386; goto L_ehcleanup99;
 L__2enoexc199: ;
  __ir_unreachable();
 L__ZN8Pistache4Http12_GLOBAL__N_116AttributeMatcherISt8optionalIiEE5matchERNS_12StreamCursorEPNS0_6CookieEMS8_S4__2eexit_2ei: ;
  v_ret_2e0_2elcssa_2ei_2ei_2ei = p_ret_2e0_2elcssa_2ei_2ei_2ei;
  *(u32*)v_ref_2etmp1_2ei_2ei = v_ret_2e0_2elcssa_2ei_2ei_2ei;
  _ZNSt8optionalIiEC2IiLb1EEEOT_(v_tmpcast_2ei_2ei, v_ref_2etmp1_2ei_2ei);
  if (__ir_exc_pending) return;
  v_138 = *(u64*)v_ref_2etmp_2ei_2ei;
  *(u64*)v_72 = v_138;
  v_139 = *(u8**)v_24;
  v__M_in_end_2ei_2ei_2ei_2ei177 = (v_139 + (24));
  v_140 = *(u8**)v__M_in_end_2ei_2ei_2ei_2ei177;
  v__M_in_cur_2ei_2ei_2ei_2ei178 = (v_139 + (16));
  v_141 = *(u8**)v__M_in_cur_2ei_2ei_2ei_2ei178;
  v_sub_2eptr_2elhs_2ecast_2ei_2ei_2ei179 = ((u64)(u64)v_140);
  v_sub_2eptr_2erhs_2ecast_2ei_2ei_2ei180 = ((u64)(u64)v_141);
  v_sub_2eptr_2esub_2ei_2ei_2ei181 = __IR_PTRDIFF(v_140, v_141);
  v_tobool_2enot_2ei_2ei_2ei182 = ((u8)(v_sub_2eptr_2esub_2ei_2ei_2ei181 == ((u64)0ULL)));
  if (v_tobool_2enot_2ei_2ei_2ei182) {  goto L_cond_2efalse_2ei_2ei_2ei185; } else { p_cond_2ei_2ei_2ei186 = v_sub_2eptr_2esub_2ei_2ei_2ei181; goto L__ZNSt15basic_streambufIcSt11char_traitsIcEE8in_availEv_2eexit_2ei_2ei188; }
 L_cond_2efalse_2ei_2ei_2ei185: ;
  v_142 = v_139;
  v_vtable_2ei_2ei_2ei183 = *(u8**)v_142;
  v_vfn_2ei_2ei_2ei184 = (v_vtable_2ei_2ei_2ei183 + (56));
  v_143 = *(u8**)v_vfn_2ei_2ei_2ei184;
  { u8* fp_ = v_143;
    if (fp_ == (u8*)_ZNSt15basic_streambufIcSt11char_traitsIcEE9showmanycEv) { v_call3_2ei_2ei_2ei202 = _ZNSt15basic_streambufIcSt11char_traitsIcEE9showmanycEv(v_139); } else
    { v_call3_2ei_2ei_2ei202 = __ir_indirect_ru64_u8p(fp_, v_139); } }
  v_call3_2ei_2ei_2ei202 = v_call3_2ei_2ei_2ei202;
  if (__ir_exc_pending) {  goto L_lpad27_2eloopexit_2esplit_2dlp_2eloopexit; } else { p_cond_2ei_2ei_2ei186 = v_call3_2ei_2ei_2ei202; goto L__ZNSt15basic_streambufIcSt11char_traitsIcEE8in_availEv_2eexit_2ei_2ei188; }
 L__ZNSt15basic_streambufIcSt11char_traitsIcEE8in_availEv_2eexit_2ei_2ei188: ;
  v_cond_2ei_2ei_2ei186 = p_cond_2ei_2ei_2ei186;
  v_cmp_2ei_2ei187 = ((u8)(((i64)v_cond_2ei_2ei_2ei186) < ((i64)((u64)1ULL))));
  if (v_cmp_2ei_2ei187) {  goto L_invoke_2econt50; } else {  goto L_for_2ebody_2ei_2ei192; }
 L_for_2ebody_2ei_2ei192: ;
  v_144 = *(u8**)v_24;
  v__M_in_cur_2ei_2ei4_2ei_2ei189 = (v_144 + (16));
  v_145 = *(u8**)v__M_in_cur_2ei_2ei4_2ei_2ei189;
  v__M_in_end_2ei_2ei5_2ei_2ei190 = (v_144 + (24));
  v_146 = *(u8**)v__M_in_end_2ei_2ei5_2ei_2ei190;
  v_cmp_2ei_2ei_2ei191 = ((u8)((u64)v_145 < (u64)v_146));
  if (v_cmp_2ei_2ei_2ei191) {  goto L_if_2ethen_2ei_2ei1_2ei; } else {  goto L_if_2eelse_2ei_2ei_2ei196; }
 L_if_2eelse_2ei_2ei_2ei196: ;
  v_147 = v_144;
  v_vtable_2ei6_2ei_2ei194 = *(u8**)v_147;
  v_vfn_2ei7_2ei_2ei195 = (v_vtable_2ei6_2ei_2ei194 + (80));
  v_148 = *(u8**)v_vfn_2ei7_2ei_2ei195;
  { u8* fp_ = v_148;
    if (fp_ == (u8*)_ZNSt15basic_streambufIcSt11char_traitsIcEE5uflowEv) { v_call5_2ei_2ei_2ei204 = _ZNSt15basic_streambufIcSt11char_traitsIcEE5uflowEv(v_144); } else
    { v_call5_2ei_2ei_2ei204 = __ir_indirect_ru32_u8p(fp_, v_144); } }
  v_call5_2ei_2ei_2ei204 = v_call5_2ei_2ei_2ei204;
  if (__ir_exc_pending) {  goto L_lpad27_2eloopexit_2esplit_2dlp_2eloopexit; } else {  goto L_invoke_2econt50; }
 L_if_2ethen_2ei_2ei1_2ei: ;
  v_add_2eptr_2ei_2ei_2ei_2ei193 = (v_145 + (1));
  *(u8**)v__M_in_cur_2ei_2ei4_2ei_2ei189 = v_add_2eptr_2ei_2ei_2ei_2ei193;
   goto L_invoke_2econt50;
 L_invoke_2econt50: ;
  if (v_call_2ei198) {  goto L_do_2econd; } else {  goto L_if_2eelse53; }
 L_if_2eelse53: ;
  v_call_2ei233 = _ZN8Pistache12match_stringEPKcmRNS_12StreamCursorENS_15CaseSensitivityE(((u8*)&_2estr_2e6), ((u64)7ULL), v_cursor, ((u32)1ULL));
  if (__ir_exc_pending) {  goto L_lpad27_2eloopexit_2esplit_2dlp_2eloopexit; } else {  goto L_call_2ei_2enoexc232; }
 L_call_2ei_2enoexc232: ;
  if (v_call_2ei233) {  goto L_if_2ethen_2ei209; } else {  goto L_if_2eelse57; }
 L_if_2ethen_2ei209: ;
  _ZN8Pistache4Http12_GLOBAL__N_110matchValueERNS_12StreamCursorE(v_token_2ei_2ei205, v_cursor);
  if (__ir_exc_pending) {  goto L_lpad27_2eloopexit_2esplit_2dlp_2eloopexit; } else {  goto L__2enoexc234; }
 L__2enoexc234: ;
  v_149 = *(u8**)v_gptr_2ei_2ei_2ei208;
  v_150 = *(u8**)v_cursor_2ei_2ei_2ei_2ei_2ei;
  v_buf_2ei_2ei_2ei_2ei_2ei = v_150;
  v_151 = *(u8**)v_buf_2ei_2ei_2ei_2ei_2ei;
  v__M_in_cur_2ei_2ei_2ei_2ei_2ei_2ei_2ei = (v_151 + (16));
  v_152 = *(u8**)v__M_in_cur_2ei_2ei_2ei_2ei_2ei_2ei_2ei;
  v__M_in_beg_2ei_2ei_2ei_2ei_2ei_2ei_2ei = (v_151 + (8));
  v_153 = *(u8**)v__M_in_beg_2ei_2ei_2ei_2ei_2ei_2ei_2ei;
  v_sub_2eptr_2elhs_2ecast_2ei_2ei_2ei_2ei_2ei_2ei = ((u64)(u64)v_152);
  v_sub_2eptr_2erhs_2ecast_2ei_2ei_2ei_2ei_2ei_2ei = ((u64)(u64)v_153);
  v_154 = *(u64*)v_position_2ei_2ei_2ei_2ei_2ei;
  v_155 = ((u64)((u64)v_154 + (u64)v_sub_2eptr_2erhs_2ecast_2ei_2ei_2ei_2ei_2ei_2ei));
  v_sub_2ei_2ei_2ei_2ei = ((u64)((u64)v_sub_2eptr_2elhs_2ecast_2ei_2ei_2ei_2ei_2ei_2ei - (u64)v_155));
  _ZNSt7__cxx1112basic_stringIcSt11char_traitsIcESaIcEEC2EPKcmRKS3_(v_ref_2etmp1_2ei_2ei207, v_149, v_sub_2ei_2ei_2ei_2ei, v_ref_2etmp_2ei_2ei_2ei);
  if (__ir_exc_pending) {  goto L_lpad27_2eloopexit_2esplit_2dlp_2eloopexit; } else {  goto L__2enoexc235; }
 L__2enoexc235: ;
  v_call_2ei_2ei = _ZN8Pistache4Http8FullDate10fromStringERKNSt7__cxx1112basic_stringIcSt11char_traitsIcESaIcEEE(v_ref_2etmp1_2ei_2ei207);
  if (__ir_exc_pending) {  goto L_lpad_2ei_2ei; } else {  goto L__ZN8Pistache4Http12_GLOBAL__N_116AttributeMatcherISt8optionalINS0_8FullDateEEE5matchERNS_12StreamCursorEPNS0_6CookieEMS9_S5__2eexit_2ei; }
 L__ZN8Pistache4Http12_GLOBAL__N_116AttributeMatcherISt8optionalINS0_8FullDateEEE5matchERNS_12StreamCursorEPNS0_6CookieEMS9_S5__2eexit_2ei: ;
  *(u64*)v_coerce_2edive3_2ei_2ei = v_call_2ei_2ei;
  v_call4_2ei_2ei = _ZNSt8optionalIN8Pistache4Http8FullDateEEaSIS2_EENSt9enable_ifIX7__and_vISt6__not_ISt7is_sameIS3_NSt9remove_cvINSt16remove_referenceIT_E4typeEE4typeEEES6_ISt6__and_IJSt9is_scalarIS2_ES7_IS2_NSt5decayISA_E4typeEEEEESt16is_constructibleIS2_JSA_EESt13is_assignableIRS2_SA_EEERS3_E4typeEOSA_(v_expires_2ei, v_ref_2etmp_2ei_2ei206);
  if (__ir_exc_pending) return;
  _ZNSt7__cxx1112basic_stringIcSt11char_traitsIcESaIcEED2Ev(v_ref_2etmp1_2ei_2ei207);
  if (__ir_exc_pending) return;
  v_160 = *(u8**)v_24;
  v__M_in_end_2ei_2ei_2ei_2ei211 = (v_160 + (24));
  v_161 = *(u8**)v__M_in_end_2ei_2ei_2ei_2ei211;
  v__M_in_cur_2ei_2ei_2ei_2ei212 = (v_160 + (16));
  v_162 = *(u8**)v__M_in_cur_2ei_2ei_2ei_2ei212;
  v_sub_2eptr_2elhs_2ecast_2ei_2ei_2ei213 = ((u64)(u64)v_161);
  v_sub_2eptr_2erhs_2ecast_2ei_2ei_2ei214 = ((u64)(u64)v_162);
  v_sub_2eptr_2esub_2ei_2ei_2ei215 = __IR_PTRDIFF(v_161, v_162);
  v_tobool_2enot_2ei_2ei_2ei216 = ((u8)(v_sub_2eptr_2esub_2ei_2ei_2ei215 == ((u64)0ULL)));
  if (v_tobool_2enot_2ei_2ei_2ei216) {  goto L_cond_2efalse_2ei_2ei_2ei219; } else { p_cond_2ei_2ei_2ei220 = v_sub_2eptr_2esub_2ei_2ei_2ei215; goto L__ZNSt15basic_streambufIcSt11char_traitsIcEE8in_availEv_2eexit_2ei_2ei222; }
 L_cond_2efalse_2ei_2ei_2ei219: ;
  v_163 = v_160;
  v_vtable_2ei_2ei_2ei217 = *(u8**)v_163;
  v_vfn_2ei_2ei_2ei218 = (v_vtable_2ei_2ei_2ei217 + (56));
  v_164 = *(u8**)v_vfn_2ei_2ei_2ei218;
  { u8* fp_ = v_164;
    if (fp_ == (u8*)_ZNSt15basic_streambufIcSt11char_traitsIcEE9showmanycEv) { v_call3_2ei_2ei_2ei239 = _ZNSt15basic_streambufIcSt11char_traitsIcEE9showmanycEv(v_160); } else
    { v_call3_2ei_2ei_2ei239 = __ir_indirect_ru64_u8p(fp_, v_160); } }
  v_call3_2ei_2ei_2ei239 = v_call3_2ei_2ei_2ei239;
  if (__ir_exc_pending) {  goto L_lpad27_2eloopexit_2esplit_2dlp_2eloopexit; } else { p_cond_2ei_2ei_2ei220 = v_call3_2ei_2ei_2ei239; goto L__ZNSt15basic_streambufIcSt11char_traitsIcEE8in_availEv_2eexit_2ei_2ei222; }
 L__ZNSt15basic_streambufIcSt11char_traitsIcEE8in_availEv_2eexit_2ei_2ei222: ;
  v_cond_2ei_2ei_2ei220 = p_cond_2ei_2ei_2ei220;
  v_cmp_2ei_2ei221 = ((u8)(((i64)v_cond_2ei_2ei_2ei220) < ((i64)((u64)1ULL))));
  if (v_cmp_2ei_2ei221) {  goto L_invoke_2econt54; } else {  goto L_for_2ebody_2ei_2ei226; }
 L_for_2ebody_2ei_2ei226: ;
  v_165 = *(u8**)v_24;
  v__M_in_cur_2ei_2ei4_2ei_2ei223 = (v_165 + (16));
  v_166 = *(u8**)v__M_in_cur_2ei_2ei4_2ei_2ei223;
  v__M_in_end_2ei_2ei5_2ei_2ei224 = (v_165 + (24));
  v_167 = *(u8**)v__M_in_end_2ei_2ei5_2ei_2ei224;
  v_cmp_2ei_2ei_2ei225 = ((u8)((u64)v_166 < (u64)v_167));
  if (v_cmp_2ei_2ei_2ei225) {  goto L_if_2ethen_2ei_2ei_2ei228; } else {  goto L_if_2eelse_2ei_2ei_2ei231; }
 L_if_2eelse_2ei_2ei_2ei231: ;
  v_168 = v_165;
  v_vtable_2ei6_2ei_2ei229 = *(u8**)v_168;
  v_vfn_2ei7_2ei_2ei230 = (v_vtable_2ei6_2ei_2ei229 + (80));
  v_169 = *(u8**)v_vfn_2ei7_2ei_2ei230;
  { u8* fp_ = v_169;
    if (fp_ == (u8*)_ZNSt15basic_streambufIcSt11char_traitsIcEE5uflowEv) { v_call5_2ei_2ei_2ei241 = _ZNSt15basic_streambufIcSt11char_traitsIcEE5uflowEv(v_165); } else
    { v_call5_2ei_2ei_2ei241 = __ir_indirect_ru32_u8p(fp_, v_165); } }
  v_call5_2ei_2ei_2ei241 = v_call5_2ei_2ei_2ei241;
  if (__ir_exc_pending) {  goto L_lpad27_2eloopexit_2esplit_2dlp_2eloopexit; } else {  goto L_invoke_2econt54; }
 L_if_2ethen_2ei_2ei_2ei228: ;
  v_add_2eptr_2ei_2ei_2ei_2ei227 = (v_166 + (1));
  *(u8**)v__M_in_cur_2ei_2ei4_2ei_2ei223 = v_add_2eptr_2ei_2ei_2ei_2ei227;
   goto L_invoke_2econt54;
 L_invoke_2econt54: ;
  if (v_call_2ei233) {  goto L_do_2econd; } else {  goto L_if_2eelse57; }
 L_if_2eelse57: ;
  v_170 = *(u8**)v_buf_2ei;
  v__M_in_cur_2ei_2ei_2ei245 = (v_170 + (16));
  v_171 = *(u8**)v__M_in_cur_2ei_2ei_2ei245;
  v__M_in_beg_2ei_2ei_2ei246 = (v_170 + (8));
  v_172 = *(u8**)v__M_in_beg_2ei_2ei_2ei246;
  *(u8*)v_77 = ((u8)61ULL);
  v_call_2ei256 = _ZN8Pistache11match_untilESt16initializer_listIcERNS_12StreamCursorENS_15CaseSensitivityE(v_77, ((u64)1ULL), v_cursor, ((u32)1ULL));
  if (__ir_exc_pending) {  goto L_lpad58; } else {  goto L__ZN8Pistache11match_untilEcRNS_12StreamCursorENS_15CaseSensitivityE_2eexit257; }
 L__ZN8Pistache11match_untilEcRNS_12StreamCursorENS_15CaseSensitivityE_2eexit257: ;
  v_sub_2eptr_2elhs_2ecast_2ei_2ei247 = ((u64)(u64)v_171);
  v_sub_2eptr_2erhs_2ecast_2ei_2ei248 = ((u64)(u64)v_172);
  v_173 = *(u8**)v_buf_2ei;
  v__M_in_cur_2ei_2ei_2ei_2ei_2ei262 = (v_173 + (16));
  v_174 = *(u8**)v__M_in_cur_2ei_2ei_2ei_2ei_2ei262;
  v__M_in_beg_2ei_2ei_2ei_2ei_2ei263 = (v_173 + (8));
  v_175 = *(u8**)v__M_in_beg_2ei_2ei_2ei_2ei_2ei263;
  v_sub_2eptr_2elhs_2ecast_2ei_2ei_2ei_2ei264 = ((u64)(u64)v_174);
  v_sub_2eptr_2erhs_2ecast_2ei_2ei_2ei_2ei265 = ((u64)(u64)v_175);
  v_176 = ((u64)((u64)v_sub_2eptr_2erhs_2ecast_2ei_2ei248 + (u64)v_sub_2eptr_2elhs_2ecast_2ei_2ei_2ei_2ei264));
  v_177 = ((u64)((u64)v_sub_2eptr_2elhs_2ecast_2ei_2ei247 + (u64)v_sub_2eptr_2erhs_2ecast_2ei_2ei_2ei_2ei265));
  v_sub_2ei_2ei267 = ((u64)((u64)v_176 - (u64)v_177));
  _ZNSt7__cxx1112basic_stringIcSt11char_traitsIcESaIcEEC2EPKcmRKS3_(v_name, v_171, v_sub_2ei_2ei267, v_ref_2etmp_2ei258);
  if (__ir_exc_pending) {  goto L_lpad62; } else {  goto L__ZNK8Pistache12StreamCursor5Token4textB5cxx11Ev_2eexit269; }
 L__ZNK8Pistache12StreamCursor5Token4textB5cxx11Ev_2eexit269: ;
  _ZNSt7__cxx1112basic_stringIcSt11char_traitsIcESaIcEEC2Ev(v_value);
  if (__ir_exc_pending) return;
  v_178 = *(u8**)v_24;
  v__M_in_end_2ei_2ei_2ei_2ei270 = (v_178 + (24));
  v_179 = *(u8**)v__M_in_end_2ei_2ei_2ei_2ei270;
  v__M_in_cur_2ei_2ei_2ei_2ei271 = (v_178 + (16));
  v_180 = *(u8**)v__M_in_cur_2ei_2ei_2ei_2ei271;
  v_sub_2eptr_2elhs_2ecast_2ei_2ei_2ei272 = ((u64)(u64)v_179);
  v_sub_2eptr_2erhs_2ecast_2ei_2ei_2ei273 = ((u64)(u64)v_180);
  v_sub_2eptr_2esub_2ei_2ei_2ei274 = __IR_PTRDIFF(v_179, v_180);
  v_tobool_2enot_2ei_2ei_2ei275 = ((u8)(v_sub_2eptr_2esub_2ei_2ei_2ei274 == ((u64)0ULL)));
  if (v_tobool_2enot_2ei_2ei_2ei275) {  goto L_cond_2efalse_2ei_2ei_2ei278; } else { p_cond_2ei_2ei_2ei279 = v_sub_2eptr_2esub_2ei_2ei_2ei274; goto L__ZNK8Pistache12StreamCursor3eofEv_2eexit283; }
 L_cond_2efalse_2ei_2ei_2ei278: ;
  v_181 = v_178;
  v_vtable_2ei_2ei_2ei276 = *(u8**)v_181;
  v_vfn_2ei_2ei_2ei277 = (v_vtable_2ei_2ei_2ei276 + (56));
  v_182 = *(u8**)v_vfn_2ei_2ei_2ei277;
  { u8* fp_ = v_182;
    if (fp_ == (u8*)_ZNSt15basic_streambufIcSt11char_traitsIcEE9showmanycEv) { v_call3_2ei_2ei_2ei282 = _ZNSt15basic_streambufIcSt11char_traitsIcEE9showmanycEv(v_178); } else
    { v_call3_2ei_2ei_2ei282 = __ir_indirect_ru64_u8p(fp_, v_178); } }
  v_call3_2ei_2ei_2ei282 = v_call3_2ei_2ei_2ei282;
  if (__ir_exc_pending) {  goto L_lpad64_2eloopexit_2esplit_2dlp; } else { p_cond_2ei_2ei_2ei279 = v_call3_2ei_2ei_2ei282; goto L__ZNK8Pistache12StreamCursor3eofEv_2eexit283; }
 L__ZNK8Pistache12StreamCursor3eofEv_2eexit283: ;
  v_cond_2ei_2ei_2ei279 = p_cond_2ei_2ei_2ei279;
  v_cmp_2ei280 = ((u8)(v_cond_2ei_2ei_2ei279 == ((u64)0ULL)));
  if (v_cmp_2ei280) {  goto L_if_2eend73; } else {  goto L_if_2ethen67; }
 L_if_2ethen67: ;
  _ZN8Pistache4Http12_GLOBAL__N_110matchValueERNS_12StreamCursorE(v_token, v_cursor);
  if (__ir_exc_pending) {  goto L_lpad68; } else {  goto L_invoke_2econt69; }
 L_invoke_2econt69: ;
  v_183 = *(u8**)v_gptr_2ei285;
  v_184 = *(u8**)v_cursor_2ei_2ei_2ei286;
  v_buf_2ei_2ei_2ei287 = v_184;
  v_185 = *(u8**)v_buf_2ei_2ei_2ei287;
  v__M_in_cur_2ei_2ei_2ei_2ei_2ei288 = (v_185 + (16));
  v_186 = *(u8**)v__M_in_cur_2ei_2ei_2ei_2ei_2ei288;
  v__M_in_beg_2ei_2ei_2ei_2ei_2ei289 = (v_185 + (8));
  v_187 = *(u8**)v__M_in_beg_2ei_2ei_2ei_2ei_2ei289;
  v_sub_2eptr_2elhs_2ecast_2ei_2ei_2ei_2ei290 = ((u64)(u64)v_186);
  v_sub_2eptr_2erhs_2ecast_2ei_2ei_2ei_2ei291 = ((u64)(u64)v_187);
  v_188 = *(u64*)v_position_2ei_2ei_2ei292;
  v_189 = ((u64)((u64)v_188 + (u64)v_sub_2eptr_2erhs_2ecast_2ei_2ei_2ei_2ei291));
  v_sub_2ei_2ei293 = ((u64)((u64)v_sub_2eptr_2elhs_2ecast_2ei_2ei_2ei_2ei290 - (u64)v_189));
  _ZNSt7__cxx1112basic_stringIcSt11char_traitsIcESaIcEEC2EPKcmRKS3_(v_ref_2etmp, v_183, v_sub_2ei_2ei293, v_ref_2etmp_2ei284);
  if (__ir_exc_pending) {  goto L_lpad70; } else {  goto L__ZNK8Pistache12StreamCursor5Token4textB5cxx11Ev_2eexit295; }
 L__ZNK8Pistache12StreamCursor5Token4textB5cxx11Ev_2eexit295: ;
  v_call72 = _ZNSt7__cxx1112basic_stringIcSt11char_traitsIcESaIcEEaSEOS4_(v_value, v_ref_2etmp);
  if (__ir_exc_pending) return;
  _ZNSt7__cxx1112basic_stringIcSt11char_traitsIcESaIcEED2Ev(v_ref_2etmp);
  if (__ir_exc_pending) return;
   goto L_if_2eend73;
 L_lpad70: ;
  __ir_landingpad((u8*)&v_193);
  __ir_lp_select((u8*)&v_193, 0, (u8*[]){0});
  v_194 = v_ref_2etmp;
  p__2epn = v_193; goto L_ehcleanup;
 L_lpad68: ;
  __ir_landingpad((u8*)&v_192);
  __ir_lp_select((u8*)&v_192, 0, (u8*[]){0});
  p__2epn = v_192; goto L_ehcleanup;
 L_ehcleanup: ;
  v__2epn = p__2epn;
  v_195 = v_token;
  p__2epn3 = v__2epn; goto L_ehcleanup86;
 L_if_2eend73: ;
  _ZSt9make_pairINSt7__cxx1112basic_stringIcSt11char_traitsIcESaIcEEES5_ESt4pairINSt25__strip_reference_wrapperINSt5decayIT_E4typeEE6__typeENS7_INS8_IT0_E4typeEE6__typeEEOS9_OSE_(v_ref_2etmp74, v_name, v_value);
  if (__ir_exc_pending) {  goto L_lpad77; } else {  goto L_invoke_2econt78; }
 L_invoke_2econt78: ;
  v_call81 = _ZNSt3mapINSt7__cxx1112basic_stringIcSt11char_traitsIcESaIcEEES5_St4lessIS5_ESaISt4pairIKS5_S5_EEE6insertIS8_IS5_S5_EEENSt9enable_ifIXsr16is_constructibleISA_T_EE5valueES8_ISt17_Rb_tree_iteratorISA_EbEE4typeEOSG_(v_ext_2ei, v_ref_2etmp74);
  if (__ir_exc_pending) {  goto L_lpad79; } else {  goto L_invoke_2econt80; }
 L_invoke_2econt80: ;
  _ZNSt4pairINSt7__cxx1112basic_stringIcSt11char_traitsIcESaIcEEES5_ED2Ev(v_ref_2etmp74);
  if (__ir_exc_pending) return;
  v_196 = *(u8**)v_24;
  v__M_in_end_2ei_2ei_2ei296 = (v_196 + (24));
  v_197 = *(u8**)v__M_in_end_2ei_2ei_2ei296;
  v__M_in_cur_2ei_2ei_2ei297 = (v_196 + (16));
  v_198 = *(u8**)v__M_in_cur_2ei_2ei_2ei297;
  v_sub_2eptr_2elhs_2ecast_2ei_2ei298 = ((u64)(u64)v_197);
  v_sub_2eptr_2erhs_2ecast_2ei_2ei299 = ((u64)(u64)v_198);
  v_sub_2eptr_2esub_2ei_2ei300 = __IR_PTRDIFF(v_197, v_198);
  v_tobool_2enot_2ei_2ei301 = ((u8)(v_sub_2eptr_2esub_2ei_2ei300 == ((u64)0ULL)));
  if (v_tobool_2enot_2ei_2ei301) {  goto L_cond_2efalse_2ei_2ei304; } else { p_cond_2ei_2ei305 = v_sub_2eptr_2esub_2ei_2ei300; goto L__ZNSt15basic_streambufIcSt11char_traitsIcEE8in_availEv_2eexit_2ei307; }
 L_cond_2efalse_2ei_2ei304: ;
  v_199 = v_196;
  v_vtable_2ei_2ei302 = *(u8**)v_199;
  v_vfn_2ei_2ei303 = (v_vtable_2ei_2ei302 + (56));
  v_200 = *(u8**)v_vfn_2ei_2ei303;
  { u8* fp_ = v_200;
    if (fp_ == (u8*)_ZNSt15basic_streambufIcSt11char_traitsIcEE9showmanycEv) { v_call3_2ei_2ei322 = _ZNSt15basic_streambufIcSt11char_traitsIcEE9showmanycEv(v_196); } else
    { v_call3_2ei_2ei322 = __ir_indirect_ru64_u8p(fp_, v_196); } }
  v_call3_2ei_2ei322 = v_call3_2ei_2ei322;
  if (__ir_exc_pending) {  goto L_lpad64_2eloopexit_2esplit_2dlp; } else { p_cond_2ei_2ei305 = v_call3_2ei_2ei322; goto L__ZNSt15basic_streambufIcSt11char_traitsIcEE8in_availEv_2eexit_2ei307; }
 L__ZNSt15basic_streambufIcSt11char_traitsIcEE8in_availEv_2eexit_2ei307: ;
  v_cond_2ei_2ei305 = p_cond_2ei_2ei305;
  v_cmp_2ei306 = ((u8)(((i64)v_cond_2ei_2ei305) < ((i64)((u64)1ULL))));
  if (v_cmp_2ei306) {  goto L_invoke_2econt84; } else {  goto L_for_2ebody_2ei312; }
 L_for_2ebody_2ei312: ;
  v_201 = *(u8**)v_24;
  v__M_in_cur_2ei_2ei4_2ei309 = (v_201 + (16));
  v_202 = *(u8**)v__M_in_cur_2ei_2ei4_2ei309;
  v__M_in_end_2ei_2ei5_2ei310 = (v_201 + (24));
  v_203 = *(u8**)v__M_in_end_2ei_2ei5_2ei310;
  v_cmp_2ei_2ei311 = ((u8)((u64)v_202 < (u64)v_203));
  if (v_cmp_2ei_2ei311) {  goto L_if_2ethen_2ei_2ei314; } else {  goto L_if_2eelse_2ei_2ei317; }
 L_if_2eelse_2ei_2ei317: ;
  v_204 = v_201;
  v_vtable_2ei6_2ei315 = *(u8**)v_204;
  v_vfn_2ei7_2ei316 = (v_vtable_2ei6_2ei315 + (80));
  v_205 = *(u8**)v_vfn_2ei7_2ei316;
  { u8* fp_ = v_205;
    if (fp_ == (u8*)_ZNSt15basic_streambufIcSt11char_traitsIcEE5uflowEv) { v_call5_2ei_2ei324 = _ZNSt15basic_streambufIcSt11char_traitsIcEE5uflowEv(v_201); } else
    { v_call5_2ei_2ei324 = __ir_indirect_ru32_u8p(fp_, v_201); } }
  v_call5_2ei_2ei324 = v_call5_2ei_2ei324;
  if (__ir_exc_pending) {  goto L_lpad64_2eloopexit; } else {  goto L_invoke_2econt84; }
 L_lpad64_2eloopexit: ;
  __ir_landingpad((u8*)&v_lpad_2eloopexit);
  __ir_lp_select((u8*)&v_lpad_2eloopexit, 0, (u8*[]){0});
  p__2epn3 = v_lpad_2eloopexit; goto L_ehcleanup86;
 L_if_2ethen_2ei_2ei314: ;
  v_add_2eptr_2ei_2ei_2ei313 = (v_202 + (1));
  *(u8**)v__M_in_cur_2ei_2ei4_2ei309 = v_add_2eptr_2ei_2ei_2ei313;
   goto L_invoke_2econt84;
 L_invoke_2econt84: ;
  _ZNSt7__cxx1112basic_stringIcSt11char_traitsIcESaIcEED2Ev(v_value);
  if (__ir_exc_pending) return;
  _ZNSt7__cxx1112basic_stringIcSt11char_traitsIcESaIcEED2Ev(v_name);
  if (__ir_exc_pending) return;
   goto L_do_2econd;
 L_lpad79: ;
  __ir_landingpad((u8*)&v_207);
  __ir_lp_select((u8*)&v_207, 0, (u8*[]){0});
  _ZNSt4pairINSt7__cxx1112basic_stringIcSt11char_traitsIcESaIcEEES5_ED2Ev(v_ref_2etmp74);
  if (__ir_exc_pending) return;
  p__2epn2 = v_207; goto L_ehcleanup83;
 L_lpad77: ;
  __ir_landingpad((u8*)&v_206);
  __ir_lp_select((u8*)&v_206, 0, (u8*[]){0});
  p__2epn2 = v_206; goto L_ehcleanup83;
 L_ehcleanup83: ;
  v__2epn2 = p__2epn2;
  v_208 = v_ref_2etmp74;
  p__2epn3 = v__2epn2; goto L_ehcleanup86;
 L_lpad64_2eloopexit_2esplit_2dlp: ;
  __ir_landingpad((u8*)&v_lpad_2eloopexit_2esplit_2dlp);
  __ir_lp_select((u8*)&v_lpad_2eloopexit_2esplit_2dlp, 0, (u8*[]){0});
  p__2epn3 = v_lpad_2eloopexit_2esplit_2dlp; goto L_ehcleanup86;
 L_ehcleanup86: ;
  v__2epn3 = p__2epn3;
  v_209 = v_value;
  _ZNSt7__cxx1112basic_stringIcSt11char_traitsIcESaIcEED2Ev(v_value);
  if (__ir_exc_pending) return;
  _ZNSt7__cxx1112basic_stringIcSt11char_traitsIcESaIcEED2Ev(v_name);
  if (__ir_exc_pending) return;
  p__2epn3_2epn = v__2epn3; goto L_ehcleanup89;
 L_lpad62: ;
  __ir_landingpad((u8*)&v_191);
  __ir_lp_select((u8*)&v_191, 0, (u8*[]){0});
  p__2epn3_2epn = v_191; goto L_ehcleanup89;
 L_ehcleanup89: ;
  v__2epn3_2epn = p__2epn3_2epn;
  v_210 = v_name;
  p__2epn4 = v__2epn3_2epn; goto L_ehcleanup99;
 L_lpad58: ;
  __ir_landingpad((u8*)&v_190);
  __ir_lp_select((u8*)&v_190, 0, (u8*[]){0});
  p__2epn4 = v_190; goto L_ehcleanup99;
 L_lpad_2ei_2ei: ;
  __ir_landingpad((u8*)&v_156);
  __ir_lp_select((u8*)&v_156, 0, (u8*[]){0});
  v_157 = v_token_2ei_2ei205;
  v_158 = v_ref_2etmp_2ei_2ei206;
  v_159 = v_ref_2etmp1_2ei_2ei207;
  _ZNSt7__cxx1112basic_stringIcSt11char_traitsIcESaIcEED2Ev(v_ref_2etmp1_2ei_2ei207);
  if (__ir_exc_pending) return;
  p__2epn4 = v_156; goto L_ehcleanup99;
 L_do_2econd: ;
  v_211 = *(u8**)v_24;
  v__M_in_end_2ei_2ei_2ei_2ei326 = (v_211 + (24));
  v_212 = *(u8**)v__M_in_end_2ei_2ei_2ei_2ei326;
  v__M_in_cur_2ei_2ei_2ei_2ei327 = (v_211 + (16));
  v_213 = *(u8**)v__M_in_cur_2ei_2ei_2ei_2ei327;
  v_sub_2eptr_2elhs_2ecast_2ei_2ei_2ei328 = ((u64)(u64)v_212);
  v_sub_2eptr_2erhs_2ecast_2ei_2ei_2ei329 = ((u64)(u64)v_213);
  v_sub_2eptr_2esub_2ei_2ei_2ei330 = __IR_PTRDIFF(v_212, v_213);
  v_tobool_2enot_2ei_2ei_2ei331 = ((u8)(v_sub_2eptr_2esub_2ei_2ei_2ei330 == ((u64)0ULL)));
  if (v_tobool_2enot_2ei_2ei_2ei331) {  goto L_cond_2efalse_2ei_2ei_2ei334; } else { p_cond_2ei_2ei_2ei335 = v_sub_2eptr_2esub_2ei_2ei_2ei330; goto L__ZNK8Pistache12StreamCursor3eofEv_2eexit339; }
 L_cond_2efalse_2ei_2ei_2ei334: ;
  v_214 = v_211;
  v_vtable_2ei_2ei_2ei332 = *(u8**)v_214;
  v_vfn_2ei_2ei_2ei333 = (v_vtable_2ei_2ei_2ei332 + (56));
  v_215 = *(u8**)v_vfn_2ei_2ei_2ei333;
  { u8* fp_ = v_215;
    if (fp_ == (u8*)_ZNSt15basic_streambufIcSt11char_traitsIcEE9showmanycEv) { v_call3_2ei_2ei_2ei338 = _ZNSt15basic_streambufIcSt11char_traitsIcEE9showmanycEv(v_211); } else
    { v_call3_2ei_2ei_2ei338 = __ir_indirect_ru64_u8p(fp_, v_211); } }
  v_call3_2ei_2ei_2ei338 = v_call3_2ei_2ei_2ei338;
  if (__ir_exc_pending) {  goto L_lpad27_2eloopexit_2esplit_2dlp_2eloopexit; } else { p_cond_2ei_2ei_2ei335 = v_call3_2ei_2ei_2ei338; goto L__ZNK8Pistache12StreamCursor3eofEv_2eexit339; }
 L__ZNK8Pistache12StreamCursor3eofEv_2eexit339: ;
  v_cond_2ei_2ei_2ei335 = p_cond_2ei_2ei_2ei335;
  v_cmp_2ei336 = ((u8)(v_cond_2ei_2ei_2ei335 == ((u64)0ULL)));
  if (v_cmp_2ei336) {  goto L_nrvo_2eskipdtor; } else {  goto L_do_2ebody; /*LOOPBACK d=0 nest=1*/ }
 L_lpad27_2eloopexit_2esplit_2dlp_2eloopexit: ;
  __ir_landingpad((u8*)&v_lpad_2eloopexit382);
  __ir_lp_select((u8*)&v_lpad_2eloopexit382, 0, (u8*[]){0});
  p__2epn4 = v_lpad_2eloopexit382; goto L_ehcleanup99;
 L_ehcleanup99: ;
  v__2epn4 = p__2epn4;
  _ZN8Pistache4Http6CookieD2Ev(v_agg_2eresult);
  if (__ir_exc_pending) return;
  _ZNSt7__cxx1112basic_stringIcSt11char_traitsIcESaIcEED2Ev(v_value_);
  if (__ir_exc_pending) return;
  p__2epn4_2epn = v__2epn4; goto L_ehcleanup103;
 L_ehcleanup103: ;
  v__2epn4_2epn = p__2epn4_2epn;
  p__2epn4_2epn_2epn_2epn = v__2epn4_2epn; goto L_ehcleanup107;
 L_nrvo_2eskipdtor: ;
  _ZNSt7__cxx1112basic_stringIcSt11char_traitsIcESaIcEED2Ev(v_value_);
  if (__ir_exc_pending) return;
  _ZNSt7__cxx1112basic_stringIcSt11char_traitsIcESaIcEED2Ev(v_name_);
  if (__ir_exc_pending) return;
  v_216 = v_buf;
  *(u8**)v_216 = (((u8*)&_ZTVSt15basic_streambufIcSt11char_traitsIcEE) + (16));
  v__M_buf_locale_2ei = (v_buf + (56));
  _ZNSt6localeD1Ev(v__M_buf_locale_2ei);
  if (__ir_exc_pending) return;
  return;
 L_if_2ethen11: ;
  v_exception12 = __cxa_allocate_exception(((u64)16ULL));
  if (__ir_exc_pending) return;
  v_35 = v_exception12;
  _ZNSt13runtime_errorC1EPKc(v_35, ((u8*)&_2estr));
  if (__ir_exc_pending) {  goto L_lpad13; } else {  goto L_invoke_2econt14; }
 L_lpad13: ;
  __ir_landingpad((u8*)&v_37);
  __ir_lp_select((u8*)&v_37, 0, (u8*[]){0});
  __cxa_free_exception(v_exception12);
  if (__ir_exc_pending) return;
  p__2epn4_2epn_2epn_2epn = v_37; goto L_ehcleanup107;
 L_invoke_2econt14: ;
  __cxa_throw(v_exception12, ((u8*)&_ZTISt13runtime_error), ((u8*)_ZNSt13runtime_errorD1Ev));
  if (__ir_exc_pending) {  goto L_lpad8_2eloopexit_2esplit_2dlp; } else {  goto L_unreachable; }
 L_lpad8_2eloopexit_2esplit_2dlp: ;
  __ir_landingpad((u8*)&v_lpad_2eloopexit_2esplit_2dlp389);
  __ir_lp_select((u8*)&v_lpad_2eloopexit_2esplit_2dlp389, 0, (u8*[]){0});
  p__2epn4_2epn_2epn_2epn = v_lpad_2eloopexit_2esplit_2dlp389; goto L_ehcleanup107;
 L_ehcleanup107: ;
  v__2epn4_2epn_2epn_2epn = p__2epn4_2epn_2epn_2epn;
  _ZNSt7__cxx1112basic_stringIcSt11char_traitsIcESaIcEED2Ev(v_name_);
  if (__ir_exc_pending) return;
  p__2epn4_2epn_2epn_2epn_2epn = v__2epn4_2epn_2epn_2epn; goto L_ehcleanup109;
 L_ehcleanup109: ;
  v__2epn4_2epn_2epn_2epn_2epn = p__2epn4_2epn_2epn_2epn_2epn;
  p__2epn4_2epn_2epn_2epn_2epn_2epn_2epn = v__2epn4_2epn_2epn_2epn_2epn; goto L_ehcleanup113;
 L_ehcleanup113: ;
  v__2epn4_2epn_2epn_2epn_2epn_2epn_2epn = p__2epn4_2epn_2epn_2epn_2epn_2epn_2epn;
  v_217 = v_buf;
  *(u8**)v_217 = (((u8*)&_ZTVSt15basic_streambufIcSt11char_traitsIcEE) + (16));
  v__M_buf_locale_2ei340 = (v_buf + (56));
  _ZNSt6localeD1Ev(v__M_buf_locale_2ei340);
  if (__ir_exc_pending) return;
  __ir_resume(*(u8**)&v__2epn4_2epn_2epn_2epn_2epn_2epn_2epn); return;
 L_unreachable: ;
  __ir_unreachable();
}

void _ZN8Pistache4Http9CookieJar10addFromRawEPKcm(u8* v_this, u8* v_str, u64 v_len) {
  u8* v_ref_2etmp_2ei49;
  u8* v_ref_2etmp_2ei46;
  u8* v_ref_2etmp_2ei23;
  u8* v_ref_2etmp_2ei;
  u8* v_buf;
  u8* v_cursor;
  u8* v_name;
  u8* v_value;
  u8* v_cookie;
  u8* v_agg_2etmp;
  u8* v_agg_2etmp26;
  u8* v_0;
  u8* v_1;
  u8* v__M_in_beg_2ei_2ei_2ei;
  u8* v__M_buf_locale_2ei_2ei_2ei;
  u8* v_2;
  u8* v_add_2eptr_2ei;
  u8* v__M_in_cur_2ei_2ei;
  u8* v__M_in_end_2ei_2ei;
  u8* v_3;
  u8* v_4;
  u8* v_buf_2ei;
  u8* v__M_in_end_2ei_2ei_2ei_2ei;
  u8* v_5;
  u8* v__M_in_cur_2ei_2ei_2ei_2ei;
  u8* v_6;
  u8 v_tobool_2enot_2ei_2ei_2ei;
  u8* v__2ecast_2ei;
  u8* v_7;
  u8* v_vtable_2ei_2ei_2ei;
  u8* v_vfn_2ei_2ei_2ei;
  u8* v_8;
  u64 v_call3_2ei_2ei_2ei7;
  u8* v_9;
  u8* v_10;
  u8* v__M_in_end_2ei_2ei_2ei_2ei8;
  u8* v__M_in_cur_2ei_2ei_2ei_2ei9;
  u8* v_11;
  u8* v__M_in_beg_2ei_2ei_2ei21;
  u8* v_12;
  u8* v_13;
  u8* v_14;
  u8* v_15;
  u8* v_16;
  u8* v_17;
  u8* v_18;
  u8* v_19;
  u8* v_20;
  u8* v_name2_2ei;
  u8* v_value3_2ei;
  u8* v_path_2ei;
  u8* v_domain_2ei;
  u8* v_expires_2ei;
  u8* v_maxAge_2ei;
  u8* v_secure_2ei;
  u8* v_httpOnly_2ei;
  u8* v_ext_2ei;
  u8* v_21;
  u8* v_22;
  u8* v_23;
  u8* v_24;
  u8* v_25;
  u8* v_26;
  u8* v_27;
  u8* v_28;
  u8* v_29;
  u8* v_30;
  u8* v_31;
  u64 v_sub_2eptr_2elhs_2ecast_2ei_2ei_2ei10;
  u64 v_sub_2eptr_2erhs_2ecast_2ei_2ei_2ei11;
  u64 v_sub_2eptr_2esub_2ei_2ei_2ei12;
  u8 v_tobool_2enot_2ei_2ei_2ei13;
  u8* v_vtable_2ei_2ei_2ei14;
  u8* v_vfn_2ei_2ei_2ei15;
  u8* v_32;
  u64 v_call3_2ei_2ei_2ei19;
  u64 v_cond_2ei_2ei_2ei17;
  u64 p_cond_2ei_2ei_2ei17;
  u8 v_cmp_2ei;
  u8* v_33;
  u8* v_34;
  u64 v_sub_2eptr_2elhs_2ecast_2ei_2ei;
  u64 v_sub_2eptr_2erhs_2ecast_2ei_2ei;
  u8 v_call_2ei22;
  u8* v_exception;
  u8* v_35;
  agg0 v_lpad_2eloopexit139;
  agg0 v_lpad_2eloopexit_2esplit_2dlp140;
  agg0 v_lpad_2eloopexit142;
  agg0 v_lpad_2eloopexit_2esplit_2dlp143;
  agg0 v_36;
  u8* v_37;
  u8* v_38;
  u64 v_sub_2eptr_2elhs_2ecast_2ei_2ei_2ei_2ei;
  u64 v_sub_2eptr_2erhs_2ecast_2ei_2ei_2ei_2ei;
  u64 v_39;
  u64 v_40;
  u64 v_sub_2ei_2ei;
  u8* v_41;
  u8* v_42;
  u64 v_sub_2eptr_2elhs_2ecast_2ei_2ei27;
  u64 v_sub_2eptr_2erhs_2ecast_2ei_2ei28;
  u64 v_sub_2eptr_2esub_2ei_2ei29;
  u8 v_tobool_2enot_2ei_2ei;
  u8* v_vtable_2ei_2ei;
  u8* v_vfn_2ei_2ei;
  u8* v_43;
  u64 v_call3_2ei_2ei32;
  u64 v_cond_2ei_2ei;
  u64 p_cond_2ei_2ei;
  u8 v_cmp_2ei30;
  u8* v_44;
  u8* v_45;
  u8 v_cmp_2ei_2ei31;
  u8* v_add_2eptr_2ei_2ei_2ei;
  u8* v_vtable_2ei6_2ei;
  u8* v_vfn_2ei7_2ei;
  u8* v_46;
  u32 v_call5_2ei_2ei33;
  u8* v_exception15;
  u8* v_47;
  agg0 v_48;
  agg0 v_lpad_2eloopexit135;
  agg0 v_lpad_2eloopexit145;
  agg0 v_lpad_2eloopexit_2esplit_2dlp146;
  agg0 v_49;
  u8* v_50;
  u8* v_51;
  u8 v_call_2ei47;
  u64 v_sub_2eptr_2elhs_2ecast_2ei_2ei39;
  u64 v_sub_2eptr_2erhs_2ecast_2ei_2ei40;
  u8* v_52;
  u8* v_53;
  u64 v_sub_2eptr_2elhs_2ecast_2ei_2ei_2ei_2ei55;
  u64 v_sub_2eptr_2erhs_2ecast_2ei_2ei_2ei_2ei56;
  u64 v_54;
  u64 v_55;
  u64 v_sub_2ei_2ei58;
  u8* v_56;
  u8* v_57;
  u64 v_sub_2eptr_2elhs_2ecast_2ei_2ei62;
  u64 v_sub_2eptr_2erhs_2ecast_2ei_2ei63;
  u64 v_sub_2eptr_2esub_2ei_2ei64;
  u8 v_tobool_2enot_2ei_2ei65;
  u8* v_vtable_2ei_2ei66;
  u8* v_vfn_2ei_2ei67;
  u8* v_58;
  u64 v_call3_2ei_2ei86;
  u64 v_cond_2ei_2ei69;
  u64 p_cond_2ei_2ei69;
  u8 v_cmp_2ei70;
  u8* v_59;
  u8* v_60;
  u8 v_cmp_2ei_2ei75;
  u8* v_add_2eptr_2ei_2ei_2ei77;
  u8* v_vtable_2ei6_2ei79;
  u8* v_vfn_2ei7_2ei80;
  u8* v_61;
  u32 v_call5_2ei_2ei88;
  u8* v_62;
  u8* v_63;
  u64 v_sub_2eptr_2elhs_2ecast_2ei_2ei_2ei_2ei91;
  u64 v_sub_2eptr_2erhs_2ecast_2ei_2ei_2ei_2ei92;
  u64 v_sub_2eptr_2esub_2ei_2ei_2ei_2ei;
  u8 v_tobool_2enot_2ei_2ei_2ei_2ei;
  u8* v_vtable_2ei_2ei_2ei_2ei;
  u8* v_vfn_2ei_2ei_2ei_2ei;
  u8* v_64;
  u64 v_call3_2ei_2ei_2ei_2ei104;
  u64 v_cond_2ei_2ei_2ei_2ei;
  u64 p_cond_2ei_2ei_2ei_2ei;
  u8 v_cmp_2ei_2ei93;
  u8* v_65;
  u8* v_66;
  u8 v_cmp_2ei_2ei_2ei;
  u8 v_67;
  u32 v_conv_2ei_2ei_2ei_2ei;
  u8* v_vtable_2ei_2ei_2ei96;
  u8* v_vfn_2ei_2ei_2ei97;
  u8* v_68;
  u32 v_call5_2ei_2ei_2ei105;
  u32 v___ret_2e0_2ei_2ei_2ei;
  u32 p___ret_2e0_2ei_2ei_2ei;
  u8 v_conv_2ei_2ei;
  u8* v_69;
  u8* v_70;
  u64 v_sub_2eptr_2elhs_2ecast_2ei_2ei_2ei98;
  u64 v_sub_2eptr_2erhs_2ecast_2ei_2ei_2ei99;
  u64 v_sub_2eptr_2esub_2ei_2ei_2ei100;
  u8 v_tobool_2enot_2ei_2ei_2ei101;
  u8* v_vtable_2ei_2ei7_2ei;
  u8* v_vfn_2ei_2ei8_2ei;
  u8* v_71;
  u64 v_call3_2ei_2ei_2ei107;
  u64 v_cond_2ei_2ei_2ei103;
  u64 p_cond_2ei_2ei_2ei103;
  u8 v_cmp_2ei9_2ei;
  u8* v_72;
  u8* v_73;
  u8 v_cmp_2ei_2ei10_2ei;
  u8* v_add_2eptr_2ei_2ei_2ei_2ei;
  u8* v_vtable_2ei6_2ei_2ei;
  u8* v_vfn_2ei7_2ei_2ei;
  u8* v_74;
  u32 v_call5_2ei_2ei12_2ei108;
  agg0 v_75;
  agg0 v_76;
  agg0 v_lpad_2eloopexit;
  agg0 v_lpad_2eloopexit132;
  agg0 v_lpad_2eloopexit_2esplit_2dlp133;
  agg0 v_lpad_2ephi;
  agg0 p_lpad_2ephi;
  u8* v_77;
  agg0 v__2epn;
  agg0 p__2epn;
  u8* v_78;
  agg0 v__2epn_2epn_2epn;
  agg0 p__2epn_2epn_2epn;
  agg0 v__2epn_2epn_2epn_2epn;
  agg0 p__2epn_2epn_2epn_2epn;
  u8* v_79;
  u8* v_80;
  u8* v__M_buf_locale_2ei;
  agg0 v__2epn_2epn_2epn_2epn_2epn_2epn;
  agg0 p__2epn_2epn_2epn_2epn_2epn_2epn;
  u8* v_81;
  u8* v__M_buf_locale_2ei110;
 L_entry: ;
  static u8 a_ref_2etmp_2ei49_dummy; u8 a_ref_2etmp_2ei49[1] __attribute__((aligned(1))); v_ref_2etmp_2ei49 = a_ref_2etmp_2ei49;
  static u8 a_ref_2etmp_2ei46_dummy; u8 a_ref_2etmp_2ei46[1] __attribute__((aligned(1))); v_ref_2etmp_2ei46 = a_ref_2etmp_2ei46;
  static u8 a_ref_2etmp_2ei23_dummy; u8 a_ref_2etmp_2ei23[1] __attribute__((aligned(1))); v_ref_2etmp_2ei23 = a_ref_2etmp_2ei23;
  static u8 a_ref_2etmp_2ei_dummy; u8 a_ref_2etmp_2ei[1] __attribute__((aligned(1))); v_ref_2etmp_2ei = a_ref_2etmp_2ei;
  static u8 a_buf_dummy; u8 a_buf[64] __attribute__((aligned(8))); v_buf = a_buf;
  static u8 a_cursor_dummy; u8 a_cursor[8] __attribute__((aligned(8))); v_cursor = a_cursor;
  static u8 a_name_dummy; u8 a_name[32] __attribute__((aligned(8))); v_name = a_name;
  static u8 a_value_dummy; u8 a_value[32] __attribute__((aligned(8))); v_value = a_value;
  static u8 a_cookie_dummy; u8 a_cookie[224] __attribute__((aligned(8))); v_cookie = a_cookie;
  static u8 a_agg_2etmp_dummy; u8 a_agg_2etmp[32] __attribute__((aligned(8))); v_agg_2etmp = a_agg_2etmp;
  static u8 a_agg_2etmp26_dummy; u8 a_agg_2etmp26[32] __attribute__((aligned(8))); v_agg_2etmp26 = a_agg_2etmp26;
  v_0 = v_buf;
  v_1 = v_buf;
  *(u8**)v_1 = (((u8*)&_ZTVSt15basic_streambufIcSt11char_traitsIcEE) + (16));
  v__M_in_beg_2ei_2ei_2ei = (v_buf + (8));
  v__M_buf_locale_2ei_2ei_2ei = (v_buf + (56));
  v_2 = v__M_in_beg_2ei_2ei_2ei;
  __ir_memset_c(v_2, ((u8)0ULL), (u64)((u64)48ULL));
  if (__ir_exc_pending) return;
  _ZNSt6localeC1Ev(v__M_buf_locale_2ei_2ei_2ei);
  if (__ir_exc_pending) return;
  *(u8**)v_1 = (((u8*)&_ZTVN8Pistache12RawStreamBufIcEE) + (16));
  v_add_2eptr_2ei = (v_str + (((i64)(i64)v_len)));
  *(u8**)v__M_in_beg_2ei_2ei_2ei = v_str;
  v__M_in_cur_2ei_2ei = (v_buf + (16));
  *(u8**)v__M_in_cur_2ei_2ei = v_str;
  v__M_in_end_2ei_2ei = (v_buf + (24));
  *(u8**)v__M_in_end_2ei_2ei = v_add_2eptr_2ei;
  v_3 = v_cursor;
  v_4 = v_buf;
  v_buf_2ei = v_cursor;
  *(u8**)v_buf_2ei = v_4;
  v__M_in_end_2ei_2ei_2ei_2ei = (v_buf + (24));
  v_5 = *(u8**)v__M_in_end_2ei_2ei_2ei_2ei;
  v__M_in_cur_2ei_2ei_2ei_2ei = (v_buf + (16));
  v_6 = *(u8**)v__M_in_cur_2ei_2ei_2ei_2ei;
  v_tobool_2enot_2ei_2ei_2ei = ((u8)(v_5 == v_6));
  if (v_tobool_2enot_2ei_2ei_2ei) {  goto L_cond_2efalse_2ei_2ei_2ei; } else {  goto L__ZN8Pistache12StreamCursorC2EPNS_9StreamBufIcEEm_2eexit; }
 L_cond_2efalse_2ei_2ei_2ei: ;
  v__2ecast_2ei = v_buf;
  v_7 = v_buf;
  v_vtable_2ei_2ei_2ei = *(u8**)v_7;
  v_vfn_2ei_2ei_2ei = (v_vtable_2ei_2ei_2ei + (56));
  v_8 = *(u8**)v_vfn_2ei_2ei_2ei;
  { u8* fp_ = v_8;
    if (fp_ == (u8*)_ZNSt15basic_streambufIcSt11char_traitsIcEE9showmanycEv) { v_call3_2ei_2ei_2ei7 = _ZNSt15basic_streambufIcSt11char_traitsIcEE9showmanycEv(v__2ecast_2ei); } else
    { v_call3_2ei_2ei_2ei7 = __ir_indirect_ru64_u8p(fp_, v__2ecast_2ei); } }
  v_call3_2ei_2ei_2ei7 = v_call3_2ei_2ei_2ei7;
  if (__ir_exc_pending) {  goto L_lpad_2eloopexit_2esplit_2dlp138; } else {  goto L__ZN8Pistache12StreamCursorC2EPNS_9StreamBufIcEEm_2eexit; }
 L_lpad_2eloopexit_2esplit_2dlp138: ;
  __ir_landingpad((u8*)&v_lpad_2eloopexit_2esplit_2dlp140);
  __ir_lp_select((u8*)&v_lpad_2eloopexit_2esplit_2dlp140, 0, (u8*[]){0});
  p__2epn_2epn_2epn_2epn_2epn_2epn = v_lpad_2eloopexit_2esplit_2dlp140; goto L_ehcleanup41;
 L__ZN8Pistache12StreamCursorC2EPNS_9StreamBufIcEEm_2eexit: ;
  v_9 = v_cursor;
  v_10 = *(u8**)v_9;
  v__M_in_end_2ei_2ei_2ei_2ei8 = (v_10 + (24));
  v__M_in_cur_2ei_2ei_2ei_2ei9 = (v_10 + (16));
  v_11 = v_10;
  v__M_in_beg_2ei_2ei_2ei21 = (v_buf + (8));
  v_12 = v_ref_2etmp_2ei;
  v_13 = v_name;
  v_14 = v_ref_2etmp_2ei23;
  v_15 = v_10;
  v_16 = v_10;
  v_17 = v_ref_2etmp_2ei46;
  v_18 = v_value;
  v_19 = v_ref_2etmp_2ei49;
  v_20 = v_cookie;
  v_name2_2ei = v_cookie;
  v_value3_2ei = (v_cookie + (32));
  v_path_2ei = (v_cookie + (64));
  v_domain_2ei = (v_cookie + (104));
  v_expires_2ei = (v_cookie + (144));
  v_maxAge_2ei = (v_cookie + (160));
  v_secure_2ei = (v_cookie + (168));
  v_httpOnly_2ei = (v_cookie + (169));
  v_ext_2ei = (v_cookie + (176));
  v_21 = v_ext_2ei;
  v_22 = v_10;
  v_23 = v_10;
  v_24 = v_10;
  v_25 = v_10;
  v_26 = v_10;
  v_27 = v_10;
  v_28 = (v_cookie + (104));
  v_29 = (v_cookie + (64));
   goto L_while_2econd;
 L_while_2econd: ;
  v_30 = *(u8**)v__M_in_end_2ei_2ei_2ei_2ei8;
  v_31 = *(u8**)v__M_in_cur_2ei_2ei_2ei_2ei9;
  v_sub_2eptr_2elhs_2ecast_2ei_2ei_2ei10 = ((u64)(u64)v_30);
  v_sub_2eptr_2erhs_2ecast_2ei_2ei_2ei11 = ((u64)(u64)v_31);
  v_sub_2eptr_2esub_2ei_2ei_2ei12 = __IR_PTRDIFF(v_30, v_31);
  v_tobool_2enot_2ei_2ei_2ei13 = ((u8)(v_sub_2eptr_2esub_2ei_2ei_2ei12 == ((u64)0ULL)));
  if (v_tobool_2enot_2ei_2ei_2ei13) {  goto L_cond_2efalse_2ei_2ei_2ei16; } else { p_cond_2ei_2ei_2ei17 = v_sub_2eptr_2esub_2ei_2ei_2ei12; goto L__ZNK8Pistache12StreamCursor3eofEv_2eexit; }
 L_cond_2efalse_2ei_2ei_2ei16: ;
  v_vtable_2ei_2ei_2ei14 = *(u8**)v_11;
  v_vfn_2ei_2ei_2ei15 = (v_vtable_2ei_2ei_2ei14 + (56));
  v_32 = *(u8**)v_vfn_2ei_2ei_2ei15;
  { u8* fp_ = v_32;
    if (fp_ == (u8*)_ZNSt15basic_streambufIcSt11char_traitsIcEE9showmanycEv) { v_call3_2ei_2ei_2ei19 = _ZNSt15basic_streambufIcSt11char_traitsIcEE9showmanycEv(v_10); } else
    { v_call3_2ei_2ei_2ei19 = __ir_indirect_ru64_u8p(fp_, v_10); } }
  v_call3_2ei_2ei_2ei19 = v_call3_2ei_2ei_2ei19;
  if (__ir_exc_pending) {  goto L_lpad_2eloopexit137; } else { p_cond_2ei_2ei_2ei17 = v_call3_2ei_2ei_2ei19; goto L__ZNK8Pistache12StreamCursor3eofEv_2eexit; }
 L__ZNK8Pistache12StreamCursor3eofEv_2eexit: ;
  v_cond_2ei_2ei_2ei17 = p_cond_2ei_2ei_2ei17;
  v_cmp_2ei = ((u8)(v_cond_2ei_2ei_2ei17 == ((u64)0ULL)));
  if (v_cmp_2ei) {  goto L_while_2eend; } else {  goto L_while_2ebody; }
 L_while_2ebody: ;
  v_33 = *(u8**)v__M_in_cur_2ei_2ei_2ei_2ei;
  v_34 = *(u8**)v__M_in_beg_2ei_2ei_2ei21;
  v_sub_2eptr_2elhs_2ecast_2ei_2ei = ((u64)(u64)v_33);
  v_sub_2eptr_2erhs_2ecast_2ei_2ei = ((u64)(u64)v_34);
  *(u8*)v_12 = ((u8)61ULL);
  v_call_2ei22 = _ZN8Pistache11match_untilESt16initializer_listIcERNS_12StreamCursorENS_15CaseSensitivityE(v_12, ((u64)1ULL), v_cursor, ((u32)1ULL));
  if (__ir_exc_pending) {  goto L_lpad3_2eloopexit; } else {  goto L__ZN8Pistache11match_untilEcRNS_12StreamCursorENS_15CaseSensitivityE_2eexit; }
 L__ZN8Pistache11match_untilEcRNS_12StreamCursorENS_15CaseSensitivityE_2eexit: ;
  if (v_call_2ei22) {  goto L_if_2eend; } else {  goto L_if_2ethen; }
 L_if_2eend: ;
  v_37 = *(u8**)v__M_in_cur_2ei_2ei_2ei_2ei;
  v_38 = *(u8**)v__M_in_beg_2ei_2ei_2ei21;
  v_sub_2eptr_2elhs_2ecast_2ei_2ei_2ei_2ei = ((u64)(u64)v_37);
  v_sub_2eptr_2erhs_2ecast_2ei_2ei_2ei_2ei = ((u64)(u64)v_38);
  v_39 = ((u64)((u64)v_sub_2eptr_2erhs_2ecast_2ei_2ei + (u64)v_sub_2eptr_2elhs_2ecast_2ei_2ei_2ei_2ei));
  v_40 = ((u64)((u64)v_sub_2eptr_2elhs_2ecast_2ei_2ei + (u64)v_sub_2eptr_2erhs_2ecast_2ei_2ei_2ei_2ei));
  v_sub_2ei_2ei = ((u64)((u64)v_39 - (u64)v_40));
  _ZNSt7__cxx1112basic_stringIcSt11char_traitsIcESaIcEEC2EPKcmRKS3_(v_name, v_33, v_sub_2ei_2ei, v_ref_2etmp_2ei23);
  if (__ir_exc_pending) {  goto L_lpad9; } else {  goto L__ZNK8Pistache12StreamCursor5Token4textB5cxx11Ev_2eexit; }
 L__ZNK8Pistache12StreamCursor5Token4textB5cxx11Ev_2eexit: ;
  v_41 = *(u8**)v__M_in_end_2ei_2ei_2ei_2ei8;
  v_42 = *(u8**)v__M_in_cur_2ei_2ei_2ei_2ei9;
  v_sub_2eptr_2elhs_2ecast_2ei_2ei27 = ((u64)(u64)v_41);
  v_sub_2eptr_2erhs_2ecast_2ei_2ei28 = ((u64)(u64)v_42);
  v_sub_2eptr_2esub_2ei_2ei29 = __IR_PTRDIFF(v_41, v_42);
  v_tobool_2enot_2ei_2ei = ((u8)(v_sub_2eptr_2esub_2ei_2ei29 == ((u64)0ULL)));
  if (v_tobool_2enot_2ei_2ei) {  goto L_cond_2efalse_2ei_2ei; } else { p_cond_2ei_2ei = v_sub_2eptr_2esub_2ei_2ei29; goto L__ZNSt15basic_streambufIcSt11char_traitsIcEE8in_availEv_2eexit_2ei; }
 L_cond_2efalse_2ei_2ei: ;
  v_vtable_2ei_2ei = *(u8**)v_15;
  v_vfn_2ei_2ei = (v_vtable_2ei_2ei + (56));
  v_43 = *(u8**)v_vfn_2ei_2ei;
  { u8* fp_ = v_43;
    if (fp_ == (u8*)_ZNSt15basic_streambufIcSt11char_traitsIcEE9showmanycEv) { v_call3_2ei_2ei32 = _ZNSt15basic_streambufIcSt11char_traitsIcEE9showmanycEv(v_10); } else
    { v_call3_2ei_2ei32 = __ir_indirect_ru64_u8p(fp_, v_10); } }
  v_call3_2ei_2ei32 = v_call3_2ei_2ei32;
  if (__ir_exc_pending) {  goto L_lpad11_2eloopexit_2esplit_2dlp_2eloopexit; } else { p_cond_2ei_2ei = v_call3_2ei_2ei32; goto L__ZNSt15basic_streambufIcSt11char_traitsIcEE8in_availEv_2eexit_2ei; }
 L__ZNSt15basic_streambufIcSt11char_traitsIcEE8in_availEv_2eexit_2ei: ;
  v_cond_2ei_2ei = p_cond_2ei_2ei;
  v_cmp_2ei30 = ((u8)(((i64)v_cond_2ei_2ei) < ((i64)((u64)1ULL))));
  if (v_cmp_2ei30) {  goto L_if_2ethen14; } else {  goto L_for_2ebody_2ei; }
 L_for_2ebody_2ei: ;
  v_44 = *(u8**)v__M_in_cur_2ei_2ei_2ei_2ei9;
  v_45 = *(u8**)v__M_in_end_2ei_2ei_2ei_2ei8;
  v_cmp_2ei_2ei31 = ((u8)((u64)v_44 < (u64)v_45));
  if (v_cmp_2ei_2ei31) {  goto L_if_2ethen_2ei_2ei; } else {  goto L_if_2eelse_2ei_2ei; }
 L_if_2eelse_2ei_2ei: ;
  v_vtable_2ei6_2ei = *(u8**)v_16;
  v_vfn_2ei7_2ei = (v_vtable_2ei6_2ei + (80));
  v_46 = *(u8**)v_vfn_2ei7_2ei;
  { u8* fp_ = v_46;
    if (fp_ == (u8*)_ZNSt15basic_streambufIcSt11char_traitsIcEE5uflowEv) { v_call5_2ei_2ei33 = _ZNSt15basic_streambufIcSt11char_traitsIcEE5uflowEv(v_10); } else
    { v_call5_2ei_2ei33 = __ir_indirect_ru32_u8p(fp_, v_10); } }
  v_call5_2ei_2ei33 = v_call5_2ei_2ei33;
  if (__ir_exc_pending) {  goto L_lpad11_2eloopexit; } else {  goto L__ZN8Pistache12StreamCursor7advanceEm_2eexit; }
 L_lpad11_2eloopexit: ;
  __ir_landingpad((u8*)&v_lpad_2eloopexit135);
  __ir_lp_select((u8*)&v_lpad_2eloopexit135, 0, (u8*[]){0});
  p__2epn_2epn_2epn = v_lpad_2eloopexit135; goto L_ehcleanup38;
 L_if_2ethen_2ei_2ei: ;
  v_add_2eptr_2ei_2ei_2ei = (v_44 + (1));
  *(u8**)v__M_in_cur_2ei_2ei_2ei_2ei9 = v_add_2eptr_2ei_2ei_2ei;
   goto L__ZN8Pistache12StreamCursor7advanceEm_2eexit;
 L__ZN8Pistache12StreamCursor7advanceEm_2eexit: ;
  if (v_cmp_2ei30) {  goto L_if_2ethen14; } else {  goto L_if_2eend18; }
 L_if_2eend18: ;
  v_50 = *(u8**)v__M_in_cur_2ei_2ei_2ei_2ei;
  v_51 = *(u8**)v__M_in_beg_2ei_2ei_2ei21;
  *(u8*)v_17 = ((u8)59ULL);
  v_call_2ei47 = _ZN8Pistache11match_untilESt16initializer_listIcERNS_12StreamCursorENS_15CaseSensitivityE(v_17, ((u64)1ULL), v_cursor, ((u32)1ULL));
  if (__ir_exc_pending) {  goto L_lpad19; } else {  goto L__ZN8Pistache11match_untilEcRNS_12StreamCursorENS_15CaseSensitivityE_2eexit48; }
 L__ZN8Pistache11match_untilEcRNS_12StreamCursorENS_15CaseSensitivityE_2eexit48: ;
  v_sub_2eptr_2elhs_2ecast_2ei_2ei39 = ((u64)(u64)v_50);
  v_sub_2eptr_2erhs_2ecast_2ei_2ei40 = ((u64)(u64)v_51);
  v_52 = *(u8**)v__M_in_cur_2ei_2ei_2ei_2ei;
  v_53 = *(u8**)v__M_in_beg_2ei_2ei_2ei21;
  v_sub_2eptr_2elhs_2ecast_2ei_2ei_2ei_2ei55 = ((u64)(u64)v_52);
  v_sub_2eptr_2erhs_2ecast_2ei_2ei_2ei_2ei56 = ((u64)(u64)v_53);
  v_54 = ((u64)((u64)v_sub_2eptr_2erhs_2ecast_2ei_2ei40 + (u64)v_sub_2eptr_2elhs_2ecast_2ei_2ei_2ei_2ei55));
  v_55 = ((u64)((u64)v_sub_2eptr_2elhs_2ecast_2ei_2ei39 + (u64)v_sub_2eptr_2erhs_2ecast_2ei_2ei_2ei_2ei56));
  v_sub_2ei_2ei58 = ((u64)((u64)v_54 - (u64)v_55));
  _ZNSt7__cxx1112basic_stringIcSt11char_traitsIcESaIcEEC2EPKcmRKS3_(v_value, v_50, v_sub_2ei_2ei58, v_ref_2etmp_2ei49);
  if (__ir_exc_pending) {  goto L_lpad23; } else {  goto L__ZNK8Pistache12StreamCursor5Token4textB5cxx11Ev_2eexit59; }
 L__ZNK8Pistache12StreamCursor5Token4textB5cxx11Ev_2eexit59: ;
  _ZNSt7__cxx1112basic_stringIcSt11char_traitsIcESaIcEEC2EOS4_(v_agg_2etmp, v_name);
  if (__ir_exc_pending) return;
  _ZNSt7__cxx1112basic_stringIcSt11char_traitsIcESaIcEEC2EOS4_(v_agg_2etmp26, v_value);
  if (__ir_exc_pending) return;
  _ZNSt7__cxx1112basic_stringIcSt11char_traitsIcESaIcEEC2EOS4_(v_name2_2ei, v_agg_2etmp);
  if (__ir_exc_pending) return;
  _ZNSt7__cxx1112basic_stringIcSt11char_traitsIcESaIcEEC2EOS4_(v_value3_2ei, v_agg_2etmp26);
  if (__ir_exc_pending) return;
  _ZNSt8optionalINSt7__cxx1112basic_stringIcSt11char_traitsIcESaIcEEEEC2Ev(v_path_2ei);
  if (__ir_exc_pending) return;
  _ZNSt8optionalINSt7__cxx1112basic_stringIcSt11char_traitsIcESaIcEEEEC2Ev(v_domain_2ei);
  if (__ir_exc_pending) return;
  _ZNSt8optionalIN8Pistache4Http8FullDateEEC2Ev(v_expires_2ei);
  if (__ir_exc_pending) return;
  _ZNSt8optionalIiEC2Ev(v_maxAge_2ei);
  if (__ir_exc_pending) return;
  *(u8*)v_secure_2ei = ((u8)0ULL);
  *(u8*)v_httpOnly_2ei = ((u8)0ULL);
  __ir_memset_c(v_21, ((u8)0ULL), (u64)((u64)48ULL));
  if (__ir_exc_pending) return;
  _ZNSt3mapINSt7__cxx1112basic_stringIcSt11char_traitsIcESaIcEEES5_St4lessIS5_ESaISt4pairIKS5_S5_EEEC2Ev(v_ext_2ei);
  if (__ir_exc_pending) return;
  _ZNSt7__cxx1112basic_stringIcSt11char_traitsIcESaIcEED2Ev(v_agg_2etmp26);
  if (__ir_exc_pending) return;
  _ZNSt7__cxx1112basic_stringIcSt11char_traitsIcESaIcEED2Ev(v_agg_2etmp);
  if (__ir_exc_pending) return;
  _ZN8Pistache4Http9CookieJar3addERKNS0_6CookieE(v_this, v_cookie);
  if (__ir_exc_pending) {  goto L_lpad30_2eloopexit_2esplit_2dlp_2eloopexit_2esplit_2dlp; } else {  goto L_invoke_2econt31; }
 L_invoke_2econt31: ;
  v_56 = *(u8**)v__M_in_end_2ei_2ei_2ei_2ei8;
  v_57 = *(u8**)v__M_in_cur_2ei_2ei_2ei_2ei9;
  v_sub_2eptr_2elhs_2ecast_2ei_2ei62 = ((u64)(u64)v_56);
  v_sub_2eptr_2erhs_2ecast_2ei_2ei63 = ((u64)(u64)v_57);
  v_sub_2eptr_2esub_2ei_2ei64 = __IR_PTRDIFF(v_56, v_57);
  v_tobool_2enot_2ei_2ei65 = ((u8)(v_sub_2eptr_2esub_2ei_2ei64 == ((u64)0ULL)));
  if (v_tobool_2enot_2ei_2ei65) {  goto L_cond_2efalse_2ei_2ei68; } else { p_cond_2ei_2ei69 = v_sub_2eptr_2esub_2ei_2ei64; goto L__ZNSt15basic_streambufIcSt11char_traitsIcEE8in_availEv_2eexit_2ei71; }
 L_cond_2efalse_2ei_2ei68: ;
  v_vtable_2ei_2ei66 = *(u8**)v_22;
  v_vfn_2ei_2ei67 = (v_vtable_2ei_2ei66 + (56));
  v_58 = *(u8**)v_vfn_2ei_2ei67;
  { u8* fp_ = v_58;
    if (fp_ == (u8*)_ZNSt15basic_streambufIcSt11char_traitsIcEE9showmanycEv) { v_call3_2ei_2ei86 = _ZNSt15basic_streambufIcSt11char_traitsIcEE9showmanycEv(v_10); } else
    { v_call3_2ei_2ei86 = __ir_indirect_ru64_u8p(fp_, v_10); } }
  v_call3_2ei_2ei86 = v_call3_2ei_2ei86;
  if (__ir_exc_pending) {  goto L_lpad30_2eloopexit_2esplit_2dlp_2eloopexit_2esplit_2dlp; } else { p_cond_2ei_2ei69 = v_call3_2ei_2ei86; goto L__ZNSt15basic_streambufIcSt11char_traitsIcEE8in_availEv_2eexit_2ei71; }
 L__ZNSt15basic_streambufIcSt11char_traitsIcEE8in_availEv_2eexit_2ei71: ;
  v_cond_2ei_2ei69 = p_cond_2ei_2ei69;
  v_cmp_2ei70 = ((u8)(((i64)v_cond_2ei_2ei69) < ((i64)((u64)1ULL))));
  if (v_cmp_2ei70) {  goto L_invoke_2econt32; } else {  goto L_for_2ebody_2ei76; }
 L_for_2ebody_2ei76: ;
  v_59 = *(u8**)v__M_in_cur_2ei_2ei_2ei_2ei9;
  v_60 = *(u8**)v__M_in_end_2ei_2ei_2ei_2ei8;
  v_cmp_2ei_2ei75 = ((u8)((u64)v_59 < (u64)v_60));
  if (v_cmp_2ei_2ei75) {  goto L_if_2ethen_2ei_2ei78; } else {  goto L_if_2eelse_2ei_2ei81; }
 L_if_2eelse_2ei_2ei81: ;
  v_vtable_2ei6_2ei79 = *(u8**)v_23;
  v_vfn_2ei7_2ei80 = (v_vtable_2ei6_2ei79 + (80));
  v_61 = *(u8**)v_vfn_2ei7_2ei80;
  { u8* fp_ = v_61;
    if (fp_ == (u8*)_ZNSt15basic_streambufIcSt11char_traitsIcEE5uflowEv) { v_call5_2ei_2ei88 = _ZNSt15basic_streambufIcSt11char_traitsIcEE5uflowEv(v_10); } else
    { v_call5_2ei_2ei88 = __ir_indirect_ru32_u8p(fp_, v_10); } }
  v_call5_2ei_2ei88 = v_call5_2ei_2ei88;
  if (__ir_exc_pending) {  goto L_lpad30_2eloopexit_2esplit_2dlp_2eloopexit; } else {  goto L_invoke_2econt32; }
 L_lpad30_2eloopexit_2esplit_2dlp_2eloopexit: ;
  __ir_landingpad((u8*)&v_lpad_2eloopexit132);
  __ir_lp_select((u8*)&v_lpad_2eloopexit132, 0, (u8*[]){0});
  p_lpad_2ephi = v_lpad_2eloopexit132; goto L_lpad30;
 L_if_2ethen_2ei_2ei78: ;
  v_add_2eptr_2ei_2ei_2ei77 = (v_59 + (1));
  *(u8**)v__M_in_cur_2ei_2ei_2ei_2ei9 = v_add_2eptr_2ei_2ei_2ei77;
   goto L_invoke_2econt32;
 L_invoke_2econt32: ;
  v_62 = *(u8**)v__M_in_end_2ei_2ei_2ei_2ei8;
  v_63 = *(u8**)v__M_in_cur_2ei_2ei_2ei_2ei9;
  v_sub_2eptr_2elhs_2ecast_2ei_2ei_2ei_2ei91 = ((u64)(u64)v_62);
  v_sub_2eptr_2erhs_2ecast_2ei_2ei_2ei_2ei92 = ((u64)(u64)v_63);
  v_sub_2eptr_2esub_2ei_2ei_2ei_2ei = __IR_PTRDIFF(v_62, v_63);
  v_tobool_2enot_2ei_2ei_2ei_2ei = ((u8)(v_sub_2eptr_2esub_2ei_2ei_2ei_2ei == ((u64)0ULL)));
  if (v_tobool_2enot_2ei_2ei_2ei_2ei) {  goto L_cond_2efalse_2ei_2ei_2ei_2ei; } else { p_cond_2ei_2ei_2ei_2ei = v_sub_2eptr_2esub_2ei_2ei_2ei_2ei; goto L__ZNK8Pistache12StreamCursor3eofEv_2eexit_2ei; }
 L_cond_2efalse_2ei_2ei_2ei_2ei: ;
  v_vtable_2ei_2ei_2ei_2ei = *(u8**)v_24;
  v_vfn_2ei_2ei_2ei_2ei = (v_vtable_2ei_2ei_2ei_2ei + (56));
  v_64 = *(u8**)v_vfn_2ei_2ei_2ei_2ei;
  { u8* fp_ = v_64;
    if (fp_ == (u8*)_ZNSt15basic_streambufIcSt11char_traitsIcEE9showmanycEv) { v_call3_2ei_2ei_2ei_2ei104 = _ZNSt15basic_streambufIcSt11char_traitsIcEE9showmanycEv(v_10); } else
    { v_call3_2ei_2ei_2ei_2ei104 = __ir_indirect_ru64_u8p(fp_, v_10); } }
  v_call3_2ei_2ei_2ei_2ei104 = v_call3_2ei_2ei_2ei_2ei104;
  if (__ir_exc_pending) {  goto L_lpad30_2eloopexit_2esplit_2dlp_2eloopexit_2esplit_2dlp; } else { p_cond_2ei_2ei_2ei_2ei = v_call3_2ei_2ei_2ei_2ei104; goto L__ZNK8Pistache12StreamCursor3eofEv_2eexit_2ei; }
 L__ZNK8Pistache12StreamCursor3eofEv_2eexit_2ei: ;
  v_cond_2ei_2ei_2ei_2ei = p_cond_2ei_2ei_2ei_2ei;
  v_cmp_2ei_2ei93 = ((u8)(v_cond_2ei_2ei_2ei_2ei == ((u64)0ULL)));
  if (v_cmp_2ei_2ei93) {  goto L_invoke_2econt34; } else {  goto L_while_2econd_2ei; }
 L_while_2econd_2ei: ;
  v_65 = *(u8**)v__M_in_cur_2ei_2ei_2ei_2ei9;
  v_66 = *(u8**)v__M_in_end_2ei_2ei_2ei_2ei8;
  v_cmp_2ei_2ei_2ei = ((u8)((u64)v_65 < (u64)v_66));
  if (v_cmp_2ei_2ei_2ei) {  goto L_if_2ethen_2ei_2ei_2ei; } else {  goto L_if_2eelse_2ei_2ei_2ei; }
 L_if_2eelse_2ei_2ei_2ei: ;
  v_vtable_2ei_2ei_2ei96 = *(u8**)v_25;
  v_vfn_2ei_2ei_2ei97 = (v_vtable_2ei_2ei_2ei96 + (72));
  v_68 = *(u8**)v_vfn_2ei_2ei_2ei97;
  { u8* fp_ = v_68;
    if (fp_ == (u8*)_ZNSt15basic_streambufIcSt11char_traitsIcEE9underflowEv) { v_call5_2ei_2ei_2ei105 = _ZNSt15basic_streambufIcSt11char_traitsIcEE9underflowEv(v_10); } else
    { v_call5_2ei_2ei_2ei105 = __ir_indirect_ru32_u8p(fp_, v_10); } }
  v_call5_2ei_2ei_2ei105 = v_call5_2ei_2ei_2ei105;
  if (__ir_exc_pending) {  goto L_lpad30_2eloopexit; } else { p___ret_2e0_2ei_2ei_2ei = v_call5_2ei_2ei_2ei105; goto L__ZNK8Pistache12StreamCursor7currentEv_2eexit_2ei; }
 L_if_2ethen_2ei_2ei_2ei: ;
  v_67 = *(u8*)v_65;
  v_conv_2ei_2ei_2ei_2ei = ((u32)v_67);
  p___ret_2e0_2ei_2ei_2ei = v_conv_2ei_2ei_2ei_2ei; goto L__ZNK8Pistache12StreamCursor7currentEv_2eexit_2ei;
 L__ZNK8Pistache12StreamCursor7currentEv_2eexit_2ei: ;
  v___ret_2e0_2ei_2ei_2ei = p___ret_2e0_2ei_2ei_2ei;
  v_conv_2ei_2ei = ((u8)v___ret_2e0_2ei_2ei_2ei);
  switch (v_conv_2ei_2ei) {
   case ((u8)9ULL): {  goto L_while_2ebody_2ei; }
   case ((u8)32ULL): {  goto L_while_2ebody_2ei; }
   default: {  goto L_invoke_2econt34; } }
 L_while_2ebody_2ei: ;
  v_69 = *(u8**)v__M_in_end_2ei_2ei_2ei_2ei8;
  v_70 = *(u8**)v__M_in_cur_2ei_2ei_2ei_2ei9;
  v_sub_2eptr_2elhs_2ecast_2ei_2ei_2ei98 = ((u64)(u64)v_69);
  v_sub_2eptr_2erhs_2ecast_2ei_2ei_2ei99 = ((u64)(u64)v_70);
  v_sub_2eptr_2esub_2ei_2ei_2ei100 = __IR_PTRDIFF(v_69, v_70);
  v_tobool_2enot_2ei_2ei_2ei101 = ((u8)(v_sub_2eptr_2esub_2ei_2ei_2ei100 == ((u64)0ULL)));
  if (v_tobool_2enot_2ei_2ei_2ei101) {  goto L_cond_2efalse_2ei_2ei_2ei102; } else { p_cond_2ei_2ei_2ei103 = v_sub_2eptr_2esub_2ei_2ei_2ei100; goto L__ZNSt15basic_streambufIcSt11char_traitsIcEE8in_availEv_2eexit_2ei_2ei; }
 L_cond_2efalse_2ei_2ei_2ei102: ;
  v_vtable_2ei_2ei7_2ei = *(u8**)v_26;
  v_vfn_2ei_2ei8_2ei = (v_vtable_2ei_2ei7_2ei + (56));
  v_71 = *(u8**)v_vfn_2ei_2ei8_2ei;
  { u8* fp_ = v_71;
    if (fp_ == (u8*)_ZNSt15basic_streambufIcSt11char_traitsIcEE9showmanycEv) { v_call3_2ei_2ei_2ei107 = _ZNSt15basic_streambufIcSt11char_traitsIcEE9showmanycEv(v_10); } else
    { v_call3_2ei_2ei_2ei107 = __ir_indirect_ru64_u8p(fp_, v_10); } }
  v_call3_2ei_2ei_2ei107 = v_call3_2ei_2ei_2ei107;
  if (__ir_exc_pending) {  goto L_lpad30_2eloopexit; } else { p_cond_2ei_2ei_2ei103 = v_call3_2ei_2ei_2ei107; goto L__ZNSt15basic_streambufIcSt11char_traitsIcEE8in_availEv_2eexit_2ei_2ei; }
 L__ZNSt15basic_streambufIcSt11char_traitsIcEE8in_availEv_2eexit_2ei_2ei: ;
  v_cond_2ei_2ei_2ei103 = p_cond_2ei_2ei_2ei103;
  v_cmp_2ei9_2ei = ((u8)(((i64)v_cond_2ei_2ei_2ei103) < ((i64)((u64)1ULL))));
  if (v_cmp_2ei9_2ei) {  goto L_while_2econd_2ei_2ebackedge; } else {  goto L_for_2ebody_2ei_2ei; }
 L_for_2ebody_2ei_2ei: ;
  v_72 = *(u8**)v__M_in_cur_2ei_2ei_2ei_2ei9;
  v_73 = *(u8**)v__M_in_end_2ei_2ei_2ei_2ei8;
  v_cmp_2ei_2ei10_2ei = ((u8)((u64)v_72 < (u64)v_73));
  if (v_cmp_2ei_2ei10_2ei) {  goto L_if_2ethen_2ei_2ei11_2ei; } else {  goto L_if_2eelse_2ei_2ei13_2ei; }
 L_if_2eelse_2ei_2ei13_2ei: ;
  v_vtable_2ei6_2ei_2ei = *(u8**)v_27;
  v_vfn_2ei7_2ei_2ei = (v_vtable_2ei6_2ei_2ei + (80));
  v_74 = *(u8**)v_vfn_2ei7_2ei_2ei;
  { u8* fp_ = v_74;
    if (fp_ == (u8*)_ZNSt15basic_streambufIcSt11char_traitsIcEE5uflowEv) { v_call5_2ei_2ei12_2ei108 = _ZNSt15basic_streambufIcSt11char_traitsIcEE5uflowEv(v_10); } else
    { v_call5_2ei_2ei12_2ei108 = __ir_indirect_ru32_u8p(fp_, v_10); } }
  v_call5_2ei_2ei12_2ei108 = v_call5_2ei_2ei12_2ei108;
  if (__ir_exc_pending) {  goto L_lpad30_2eloopexit; } else {  goto L_while_2econd_2ei_2ebackedge; }
 L_if_2ethen_2ei_2ei11_2ei: ;
  v_add_2eptr_2ei_2ei_2ei_2ei = (v_72 + (1));
  *(u8**)v__M_in_cur_2ei_2ei_2ei_2ei9 = v_add_2eptr_2ei_2ei_2ei_2ei;
   goto L_while_2econd_2ei_2ebackedge;
 L_while_2econd_2ei_2ebackedge: ;
   goto L_while_2econd_2ei; /*LOOPBACK d=1 nest=0*/
 L_lpad30_2eloopexit: ;
  __ir_landingpad((u8*)&v_lpad_2eloopexit);
  __ir_lp_select((u8*)&v_lpad_2eloopexit, 0, (u8*[]){0});
  p_lpad_2ephi = v_lpad_2eloopexit; goto L_lpad30;
 L_invoke_2econt34: ;
  _ZNSt3mapINSt7__cxx1112basic_stringIcSt11char_traitsIcESaIcEEES5_St4lessIS5_ESaISt4pairIKS5_S5_EEED2Ev(v_ext_2ei);
  if (__ir_exc_pending) return;
  _ZNSt14_Optional_baseINSt7__cxx1112basic_stringIcSt11char_traitsIcESaIcEEELb0ELb0EED2Ev(v_28);
  if (__ir_exc_pending) return;
  _ZNSt14_Optional_baseINSt7__cxx1112basic_stringIcSt11char_traitsIcESaIcEEELb0ELb0EED2Ev(v_29);
  if (__ir_exc_pending) return;
  _ZNSt7__cxx1112basic_stringIcSt11char_traitsIcESaIcEED2Ev(v_value3_2ei);
  if (__ir_exc_pending) return;
  _ZNSt7__cxx1112basic_stringIcSt11char_traitsIcESaIcEED2Ev(v_name2_2ei);
  if (__ir_exc_pending) return;
  _ZNSt7__cxx1112basic_stringIcSt11char_traitsIcESaIcEED2Ev(v_value);
  if (__ir_exc_pending) return;
  _ZNSt7__cxx1112basic_stringIcSt11char_traitsIcESaIcEED2Ev(v_name);
  if (__ir_exc_pending) return;
   goto L_while_2econd; /*LOOPBACK d=0 nest=1*/
 L_lpad30_2eloopexit_2esplit_2dlp_2eloopexit_2esplit_2dlp: ;
  __ir_landingpad((u8*)&v_lpad_2eloopexit_2esplit_2dlp133);
  __ir_lp_select((u8*)&v_lpad_2eloopexit_2esplit_2dlp133, 0, (u8*[]){0});
  p_lpad_2ephi = v_lpad_2eloopexit_2esplit_2dlp133; goto L_lpad30;
 L_lpad30: ;
  v_lpad_2ephi = p_lpad_2ephi;
  v_77 = v_cookie;
  _ZN8Pistache4Http6CookieD2Ev(v_cookie);
  if (__ir_exc_pending) return;
  _ZNSt7__cxx1112basic_stringIcSt11char_traitsIcESaIcEED2Ev(v_value);
  if (__ir_exc_pending) return;
  p__2epn = v_lpad_2ephi; goto L_ehcleanup36;
 L_lpad23: ;
  __ir_landingpad((u8*)&v_76);
  __ir_lp_select((u8*)&v_76, 0, (u8*[]){0});
  p__2epn = v_76; goto L_ehcleanup36;
 L_ehcleanup36: ;
  v__2epn = p__2epn;
  v_78 = v_value;
  p__2epn_2epn_2epn = v__2epn; goto L_ehcleanup38;
 L_lpad19: ;
  __ir_landingpad((u8*)&v_75);
  __ir_lp_select((u8*)&v_75, 0, (u8*[]){0});
  p__2epn_2epn_2epn = v_75; goto L_ehcleanup38;
 L_if_2ethen14: ;
  v_exception15 = __cxa_allocate_exception(((u64)16ULL));
  if (__ir_exc_pending) return;
  v_47 = v_exception15;
  _ZNSt13runtime_errorC1EPKc(v_47, ((u8*)&_2estr));
  if (__ir_exc_pending) {  goto L_lpad16; } else {  goto L_invoke_2econt17; }
 L_lpad16: ;
  __ir_landingpad((u8*)&v_49);
  __ir_lp_select((u8*)&v_49, 0, (u8*[]){0});
  __cxa_free_exception(v_exception15);
  if (__ir_exc_pending) return;
  p__2epn_2epn_2epn = v_49; goto L_ehcleanup38;
 L_invoke_2econt17: ;
  __cxa_throw(v_exception15, ((u8*)&_ZTISt13runtime_error), ((u8*)_ZNSt13runtime_errorD1Ev));
  if (__ir_exc_pending) {  goto L_lpad11_2eloopexit_2esplit_2dlp_2eloopexit_2esplit_2dlp; } else {  goto L_unreachable; }
 L_lpad11_2eloopexit_2esplit_2dlp_2eloopexit_2esplit_2dlp: ;
  __ir_landingpad((u8*)&v_lpad_2eloopexit_2esplit_2dlp146);
  __ir_lp_select((u8*)&v_lpad_2eloopexit_2esplit_2dlp146, 0, (u8*[]){0});
  p__2epn_2epn_2epn = v_lpad_2eloopexit_2esplit_2dlp146; goto L_ehcleanup38;
 L_lpad11_2eloopexit_2esplit_2dlp_2eloopexit: ;
  __ir_landingpad((u8*)&v_lpad_2eloopexit145);
  __ir_lp_select((u8*)&v_lpad_2eloopexit145, 0, (u8*[]){0});
  p__2epn_2epn_2epn = v_lpad_2eloopexit145; goto L_ehcleanup38;
 L_ehcleanup38: ;
  v__2epn_2epn_2epn = p__2epn_2epn_2epn;
  _ZNSt7__cxx1112basic_stringIcSt11char_traitsIcESaIcEED2Ev(v_name);
  if (__ir_exc_pending) return;
  p__2epn_2epn_2epn_2epn = v__2epn_2epn_2epn; goto L_ehcleanup39;
 L_lpad9: ;
  __ir_landingpad((u8*)&v_48);
  __ir_lp_select((u8*)&v_48, 0, (u8*[]){0});
  p__2epn_2epn_2epn_2epn = v_48; goto L_ehcleanup39;
 L_ehcleanup39: ;
  v__2epn_2epn_2epn_2epn = p__2epn_2epn_2epn_2epn;
  v_79 = v_name;
  p__2epn_2epn_2epn_2epn_2epn_2epn = v__2epn_2epn_2epn_2epn; goto L_ehcleanup41;
 L_if_2ethen: ;
  v_exception = __cxa_allocate_exception(((u64)16ULL));
  if (__ir_exc_pending) return;
  v_35 = v_exception;
  _ZNSt13runtime_errorC1EPKc(v_35, ((u8*)&_2estr));
  if (__ir_exc_pending) {  goto L_lpad7; } else {  goto L_invoke_2econt8; }
 L_lpad7: ;
  __ir_landingpad((u8*)&v_36);
  __ir_lp_select((u8*)&v_36, 0, (u8*[]){0});
  __cxa_free_exception(v_exception);
  if (__ir_exc_pending) return;
  p__2epn_2epn_2epn_2epn_2epn_2epn = v_36; goto L_ehcleanup41;
 L_invoke_2econt8: ;
  __cxa_throw(v_exception, ((u8*)&_ZTISt13runtime_error), ((u8*)_ZNSt13runtime_errorD1Ev));
  if (__ir_exc_pending) {  goto L_lpad3_2eloopexit_2esplit_2dlp; } else {  goto L_unreachable; }
 L_lpad3_2eloopexit_2esplit_2dlp: ;
  __ir_landingpad((u8*)&v_lpad_2eloopexit_2esplit_2dlp143);
  __ir_lp_select((u8*)&v_lpad_2eloopexit_2esplit_2dlp143, 0, (u8*[]){0});
  p__2epn_2epn_2epn_2epn_2epn_2epn = v_lpad_2eloopexit_2esplit_2dlp143; goto L_ehcleanup41;
 L_unreachable: ;
  __ir_unreachable();
 L_lpad3_2eloopexit: ;
  __ir_landingpad((u8*)&v_lpad_2eloopexit142);
  __ir_lp_select((u8*)&v_lpad_2eloopexit142, 0, (u8*[]){0});
  p__2epn_2epn_2epn_2epn_2epn_2epn = v_lpad_2eloopexit142; goto L_ehcleanup41;
 L_while_2eend: ;
  v_80 = v_buf;
  *(u8**)v_80 = (((u8*)&_ZTVSt15basic_streambufIcSt11char_traitsIcEE) + (16));
  v__M_buf_locale_2ei = (v_buf + (56));
  _ZNSt6localeD1Ev(v__M_buf_locale_2ei);
  if (__ir_exc_pending) return;
  return;
 L_lpad_2eloopexit137: ;
  __ir_landingpad((u8*)&v_lpad_2eloopexit139);
  __ir_lp_select((u8*)&v_lpad_2eloopexit139, 0, (u8*[]){0});
  p__2epn_2epn_2epn_2epn_2epn_2epn = v_lpad_2eloopexit139; goto L_ehcleanup41;
 L_ehcleanup41: ;
  v__2epn_2epn_2epn_2epn_2epn_2epn = p__2epn_2epn_2epn_2epn_2epn_2epn;
  v_81 = v_buf;
  *(u8**)v_81 = (((u8*)&_ZTVSt15basic_streambufIcSt11char_traitsIcEE) + (16));
  v__M_buf_locale_2ei110 = (v_buf + (56));
  _ZNSt6localeD1Ev(v__M_buf_locale_2ei110);
  if (__ir_exc_pending) return;
  __ir_resume(*(u8**)&v__2epn_2epn_2epn_2epn_2epn_2epn); return;
}

void _ZNK8Pistache4Http6Cookie5writeERSo(u8* v_this, u8* v_os) {
  u8* v___first_2ei_2ei;
  u8* v___last_2ei_2ei;
  u8* v_it;
  u8* v_end;
  u8* v_name;
  u8* v_call;
  u8* v_call2;
  u8* v_value;
  u8* v_call3;
  u8* v_path;
  u8 v_call4;
  u8* v_0;
  u8* v_call_2ei;
  u8* v_call8;
  u8* v_call9;
  u8* v_call10;
  u8* v_domain;
  u8 v_call11;
  u8* v_1;
  u8* v_call_2ei19;
  u8* v_call16;
  u8* v_call17;
  u8* v_call18;
  u8* v_maxAge;
  u8 v_call20;
  u8* v_2;
  u8* v_call_2ei20;
  u32 v_3;
  u8* v_call25;
  u8* v_call26;
  u8* v_call27;
  u8* v_expires;
  u8 v_call29;
  u8* v_4;
  u8* v_call_2ei21;
  u8* v_call34;
  u8* v_call35;
  u8* v_secure;
  u8 v_5;
  u8 v_tobool_2enot;
  u8* v_call38;
  u8* v_httpOnly;
  u8 v_6;
  u8 v_tobool40_2enot;
  u8* v_call42;
  u8* v_ext;
  u8 v_call44;
  u8* v_call46;
  u8* v_7;
  u8* v_call48;
  u8* v_coerce_2edive;
  u8* v_8;
  u8* v_call50;
  u8* v_coerce_2edive51;
  u8 v_call5222;
  u8* v_9;
  u8* v_10;
  u8* v_coerce_2edive_2ei_2ei;
  u8* v_coerce_2edive1_2ei_2ei;
  u8* v_call53;
  u8* v_first;
  u8* v_call54;
  u8* v_call55;
  u8* v_call56;
  u8* v_second;
  u8* v_call57;
  u8* v_agg_2etmp_2esroa_2e0_2e0_2ecopyload;
  u8* v_agg_2etmp58_2esroa_2e0_2e0_2ecopyload;
  u8 v_call3_2ei_2ei;
  u64 v___n_2e04_2ei_2ei;
  u64 p___n_2e04_2ei_2ei;
  u8* v_call2_2ei_2ei;
  u64 v_inc_2ei_2ei;
  u8 v_call_2ei_2ei;
  u64 v___n_2e0_2elcssa_2ei_2ei;
  u64 p___n_2e0_2elcssa_2ei_2ei;
  u8 v_cmp;
  u8* v_call63;
  u8* v_call65;
  u8 v_call52;
 L_entry: ;
  static u8 a___first_2ei_2ei_dummy; u8 a___first_2ei_2ei[8] __attribute__((aligned(8))); v___first_2ei_2ei = a___first_2ei_2ei;
  static u8 a___last_2ei_2ei_dummy; u8 a___last_2ei_2ei[8] __attribute__((aligned(8))); v___last_2ei_2ei = a___last_2ei_2ei;
  static u8 a_it_dummy; u8 a_it[8] __attribute__((aligned(8))); v_it = a_it;
  static u8 a_end_dummy; u8 a_end[8] __attribute__((aligned(8))); v_end = a_end;
  v_name = v_this;
  v_call = _ZStlsIcSt11char_traitsIcESaIcEERSt13basic_ostreamIT_T0_ES7_RKNSt7__cxx1112basic_stringIS4_S5_T1_EE(v_os, v_name);
  if (__ir_exc_pending) return;
  v_call2 = _ZStlsISt11char_traitsIcEERSt13basic_ostreamIcT_ES5_PKc(v_call, ((u8*)&_2estr_2e7));
  if (__ir_exc_pending) return;
  v_value = (v_this + (32));
  v_call3 = _ZStlsIcSt11char_traitsIcESaIcEERSt13basic_ostreamIT_T0_ES7_RKNSt7__cxx1112basic_stringIS4_S5_T1_EE(v_call2, v_value);
  if (__ir_exc_pending) return;
  v_path = (v_this + (64));
  v_call4 = _ZNKSt8optionalINSt7__cxx1112basic_stringIcSt11char_traitsIcESaIcEEEE9has_valueEv(v_path);
  if (__ir_exc_pending) return;
  if (v_call4) {  goto L_if_2ethen; } else {  goto L_if_2eend; }
 L_if_2ethen: ;
  v_0 = v_path;
  v_call_2ei = _ZNKSt19_Optional_base_implINSt7__cxx1112basic_stringIcSt11char_traitsIcESaIcEEESt14_Optional_baseIS5_Lb0ELb0EEE6_M_getEv(v_0);
  if (__ir_exc_pending) return;
  v_call8 = _ZStlsISt11char_traitsIcEERSt13basic_ostreamIcT_ES5_PKc(v_os, ((u8*)&_2estr_2e8));
  if (__ir_exc_pending) return;
  v_call9 = _ZStlsISt11char_traitsIcEERSt13basic_ostreamIcT_ES5_PKc(v_os, ((u8*)&_2estr_2e9));
  if (__ir_exc_pending) return;
  v_call10 = _ZStlsIcSt11char_traitsIcESaIcEERSt13basic_ostreamIT_T0_ES7_RKNSt7__cxx1112basic_stringIS4_S5_T1_EE(v_call9, v_call_2ei);
  if (__ir_exc_pending) return;
   goto L_if_2eend;
 L_if_2eend: ;
  v_domain = (v_this + (104));
  v_call11 = _ZNKSt8optionalINSt7__cxx1112basic_stringIcSt11char_traitsIcESaIcEEEE9has_valueEv(v_domain);
  if (__ir_exc_pending) return;
  if (v_call11) {  goto L_if_2ethen12; } else {  goto L_if_2eend19; }
 L_if_2ethen12: ;
  v_1 = v_domain;
  v_call_2ei19 = _ZNKSt19_Optional_base_implINSt7__cxx1112basic_stringIcSt11char_traitsIcESaIcEEESt14_Optional_baseIS5_Lb0ELb0EEE6_M_getEv(v_1);
  if (__ir_exc_pending) return;
  v_call16 = _ZStlsISt11char_traitsIcEERSt13basic_ostreamIcT_ES5_PKc(v_os, ((u8*)&_2estr_2e8));
  if (__ir_exc_pending) return;
  v_call17 = _ZStlsISt11char_traitsIcEERSt13basic_ostreamIcT_ES5_PKc(v_os, ((u8*)&_2estr_2e10));
  if (__ir_exc_pending) return;
  v_call18 = _ZStlsIcSt11char_traitsIcESaIcEERSt13basic_ostreamIT_T0_ES7_RKNSt7__cxx1112basic_stringIS4_S5_T1_EE(v_call17, v_call_2ei19);
  if (__ir_exc_pending) return;
   goto L_if_2eend19;
 L_if_2eend19: ;
  v_maxAge = (v_this + (160));
  v_call20 = _ZNKSt8optionalIiE9has_valueEv(v_maxAge);
  if (__ir_exc_pending) return;
  if (v_call20) {  goto L_if_2ethen21; } else {  goto L_if_2eend28; }
 L_if_2ethen21: ;
  v_2 = v_maxAge;
  v_call_2ei20 = _ZNKSt19_Optional_base_implIiSt14_Optional_baseIiLb1ELb1EEE6_M_getEv(v_2);
  if (__ir_exc_pending) return;
  v_3 = *(u32*)v_call_2ei20;
  v_call25 = _ZStlsISt11char_traitsIcEERSt13basic_ostreamIcT_ES5_PKc(v_os, ((u8*)&_2estr_2e8));
  if (__ir_exc_pending) return;
  v_call26 = _ZStlsISt11char_traitsIcEERSt13basic_ostreamIcT_ES5_PKc(v_os, ((u8*)&_2estr_2e11));
  if (__ir_exc_pending) return;
  v_call27 = _ZNSolsEi(v_call26, v_3);
  if (__ir_exc_pending) return;
   goto L_if_2eend28;
 L_if_2eend28: ;
  v_expires = (v_this + (144));
  v_call29 = _ZNKSt8optionalIN8Pistache4Http8FullDateEE9has_valueEv(v_expires);
  if (__ir_exc_pending) return;
  if (v_call29) {  goto L_if_2ethen30; } else {  goto L_if_2eend36; }
 L_if_2ethen30: ;
  v_4 = v_expires;
  v_call_2ei21 = _ZNKSt19_Optional_base_implIN8Pistache4Http8FullDateESt14_Optional_baseIS2_Lb1ELb1EEE6_M_getEv(v_4);
  if (__ir_exc_pending) return;
  v_call34 = _ZStlsISt11char_traitsIcEERSt13basic_ostreamIcT_ES5_PKc(v_os, ((u8*)&_2estr_2e8));
  if (__ir_exc_pending) return;
  v_call35 = _ZStlsISt11char_traitsIcEERSt13basic_ostreamIcT_ES5_PKc(v_os, ((u8*)&_2estr_2e12));
  if (__ir_exc_pending) return;
  _ZNK8Pistache4Http8FullDate5writeERSoNS1_4TypeE(v_call_2ei21, v_os, ((u32)0ULL));
  if (__ir_exc_pending) return;
   goto L_if_2eend36;
 L_if_2eend36: ;
  v_secure = (v_this + (168));
  v_5 = *(u8*)v_secure;
  v_tobool_2enot = ((u8)(v_5 == ((u8)0ULL)));
  if (v_tobool_2enot) {  goto L_if_2eend39; } else {  goto L_if_2ethen37; }
 L_if_2ethen37: ;
  v_call38 = _ZStlsISt11char_traitsIcEERSt13basic_ostreamIcT_ES5_PKc(v_os, ((u8*)&_2estr_2e13));
  if (__ir_exc_pending) return;
   goto L_if_2eend39;
 L_if_2eend39: ;
  v_httpOnly = (v_this + (169));
  v_6 = *(u8*)v_httpOnly;
  v_tobool40_2enot = ((u8)(v_6 == ((u8)0ULL)));
  if (v_tobool40_2enot) {  goto L_if_2eend43; } else {  goto L_if_2ethen41; }
 L_if_2ethen41: ;
  v_call42 = _ZStlsISt11char_traitsIcEERSt13basic_ostreamIcT_ES5_PKc(v_os, ((u8*)&_2estr_2e14));
  if (__ir_exc_pending) return;
   goto L_if_2eend43;
 L_if_2eend43: ;
  v_ext = (v_this + (176));
  v_call44 = _ZNKSt3mapINSt7__cxx1112basic_stringIcSt11char_traitsIcESaIcEEES5_St4lessIS5_ESaISt4pairIKS5_S5_EEE5emptyEv(v_ext);
  if (__ir_exc_pending) return;
  if (v_call44) {  goto L_if_2eend66; } else {  goto L_if_2ethen45; }
 L_if_2ethen45: ;
  v_call46 = _ZStlsISt11char_traitsIcEERSt13basic_ostreamIcT_ES5_PKc(v_os, ((u8*)&_2estr_2e8));
  if (__ir_exc_pending) return;
  v_7 = v_it;
  v_call48 = _ZSt5beginISt3mapINSt7__cxx1112basic_stringIcSt11char_traitsIcESaIcEEES6_St4lessIS6_ESaISt4pairIKS6_S6_EEEEDTcldtfp_5beginEERKT_(v_ext);
  if (__ir_exc_pending) return;
  v_coerce_2edive = v_it;
  *(u8**)v_coerce_2edive = v_call48;
  v_8 = v_end;
  v_call50 = _ZSt3endISt3mapINSt7__cxx1112basic_stringIcSt11char_traitsIcESaIcEEES6_St4lessIS6_ESaISt4pairIKS6_S6_EEEEDTcldtfp_3endEERKT_(v_ext);
  if (__ir_exc_pending) return;
  v_coerce_2edive51 = v_end;
  *(u8**)v_coerce_2edive51 = v_call50;
  v_call5222 = _ZStneRKSt23_Rb_tree_const_iteratorISt4pairIKNSt7__cxx1112basic_stringIcSt11char_traitsIcESaIcEEES6_EESB_(v_it, v_end);
  if (__ir_exc_pending) return;
  if (v_call5222) {  goto L_for_2ebody_2elr_2eph; } else {  goto L_for_2econd_2ecleanup; }
 L_for_2ebody_2elr_2eph: ;
  v_9 = v___first_2ei_2ei;
  v_10 = v___last_2ei_2ei;
  v_coerce_2edive_2ei_2ei = v___first_2ei_2ei;
  v_coerce_2edive1_2ei_2ei = v___last_2ei_2ei;
   goto L_for_2ebody;
 L_for_2ebody: ;
  v_call53 = _ZNKSt23_Rb_tree_const_iteratorISt4pairIKNSt7__cxx1112basic_stringIcSt11char_traitsIcESaIcEEES6_EEptEv(v_it);
  if (__ir_exc_pending) return;
  v_first = v_call53;
  v_call54 = _ZStlsIcSt11char_traitsIcESaIcEERSt13basic_ostreamIT_T0_ES7_RKNSt7__cxx1112basic_stringIS4_S5_T1_EE(v_os, v_first);
  if (__ir_exc_pending) return;
  v_call55 = _ZStlsISt11char_traitsIcEERSt13basic_ostreamIcT_ES5_PKc(v_call54, ((u8*)&_2estr_2e7));
  if (__ir_exc_pending) return;
  v_call56 = _ZNKSt23_Rb_tree_const_iteratorISt4pairIKNSt7__cxx1112basic_stringIcSt11char_traitsIcESaIcEEES6_EEptEv(v_it);
  if (__ir_exc_pending) return;
  v_second = (v_call56 + (32));
  v_call57 = _ZStlsIcSt11char_traitsIcESaIcEERSt13basic_ostreamIT_T0_ES7_RKNSt7__cxx1112basic_stringIS4_S5_T1_EE(v_call55, v_second);
  if (__ir_exc_pending) return;
  v_agg_2etmp_2esroa_2e0_2e0_2ecopyload = *(u8**)v_coerce_2edive;
  v_agg_2etmp58_2esroa_2e0_2e0_2ecopyload = *(u8**)v_coerce_2edive51;
  *(u8**)v_coerce_2edive_2ei_2ei = v_agg_2etmp_2esroa_2e0_2e0_2ecopyload;
  *(u8**)v_coerce_2edive1_2ei_2ei = v_agg_2etmp58_2esroa_2e0_2e0_2ecopyload;
  v_call3_2ei_2ei = _ZStneRKSt23_Rb_tree_const_iteratorISt4pairIKNSt7__cxx1112basic_stringIcSt11char_traitsIcESaIcEEES6_EESB_(v___first_2ei_2ei, v___last_2ei_2ei);
  if (__ir_exc_pending) return;
  if (v_call3_2ei_2ei) { p___n_2e04_2ei_2ei = ((u64)0ULL); goto L_while_2ebody_2ei_2ei; } else { p___n_2e0_2elcssa_2ei_2ei = ((u64)0ULL); goto L__ZSt8distanceISt23_Rb_tree_const_iteratorISt4pairIKNSt7__cxx1112basic_stringIcSt11char_traitsIcESaIcEEES7_EEENSt15iterator_traitsIT_E15difference_typeESC_SC__2eexit; }
 L_while_2ebody_2ei_2ei: ;
  v___n_2e04_2ei_2ei = p___n_2e04_2ei_2ei;
  v_call2_2ei_2ei = _ZNSt23_Rb_tree_const_iteratorISt4pairIKNSt7__cxx1112basic_stringIcSt11char_traitsIcESaIcEEES6_EEppEv(v___first_2ei_2ei);
  if (__ir_exc_pending) return;
  v_inc_2ei_2ei = ((u64)((u64)v___n_2e04_2ei_2ei + (u64)((u64)1ULL)));
  v_call_2ei_2ei = _ZStneRKSt23_Rb_tree_const_iteratorISt4pairIKNSt7__cxx1112basic_stringIcSt11char_traitsIcESaIcEEES6_EESB_(v___first_2ei_2ei, v___last_2ei_2ei);
  if (__ir_exc_pending) return;
  if (v_call_2ei_2ei) { p___n_2e04_2ei_2ei = v_inc_2ei_2ei; goto L_while_2ebody_2ei_2ei; /*LOOPBACK d=1 nest=0*/ } else { p___n_2e0_2elcssa_2ei_2ei = v_inc_2ei_2ei; goto L__ZSt8distanceISt23_Rb_tree_const_iteratorISt4pairIKNSt7__cxx1112basic_stringIcSt11char_traitsIcESaIcEEES7_EEENSt15iterator_traitsIT_E15difference_typeESC_SC__2eexit; }
 L__ZSt8distanceISt23_Rb_tree_const_iteratorISt4pairIKNSt7__cxx1112basic_stringIcSt11char_traitsIcESaIcEEES7_EEENSt15iterator_traitsIT_E15difference_typeESC_SC__2eexit: ;
  v___n_2e0_2elcssa_2ei_2ei = p___n_2e0_2elcssa_2ei_2ei;
  v_cmp = ((u8)(((i64)v___n_2e0_2elcssa_2ei_2ei) > ((i64)((u64)1ULL))));
  if (v_cmp) {  goto L_if_2ethen62; } else {  goto L_for_2einc; }
 L_if_2ethen62: ;
  v_call63 = _ZStlsISt11char_traitsIcEERSt13basic_ostreamIcT_ES5_PKc(v_os, ((u8*)&_2estr_2e8));
  if (__ir_exc_pending) return;
   goto L_for_2einc;
 L_for_2einc: ;
  v_call65 = _ZNSt23_Rb_tree_const_iteratorISt4pairIKNSt7__cxx1112basic_stringIcSt11char_traitsIcESaIcEEES6_EEppEv(v_it);
  if (__ir_exc_pending) return;
  v_call52 = _ZStneRKSt23_Rb_tree_const_iteratorISt4pairIKNSt7__cxx1112basic_stringIcSt11char_traitsIcESaIcEEES6_EESB_(v_it, v_end);
  if (__ir_exc_pending) return;
  if (v_call52) {  goto L_for_2ebody; /*LOOPBACK d=0 nest=1*/ } else {  goto L_for_2econd_2ecleanup; }
 L_for_2econd_2ecleanup: ;
   goto L_if_2eend66;
 L_if_2eend66: ;
  return;
}

u8 _ZN8Pistache11match_untilESt16initializer_listIcERNS_12StreamCursorENS_15CaseSensitivityE(u8* v_chars_2ecoerce0, u64 v_chars_2ecoerce1, u8* v_cursor, u32 v_cs) {
  u8* v_0;
  u8* v_1;
  u8* v__M_in_end_2ei_2ei_2ei_2ei;
  u8* v_2;
  u8* v__M_in_cur_2ei_2ei_2ei_2ei;
  u8* v_3;
  u64 v_sub_2eptr_2elhs_2ecast_2ei_2ei_2ei;
  u64 v_sub_2eptr_2erhs_2ecast_2ei_2ei_2ei;
  u64 v_sub_2eptr_2esub_2ei_2ei_2ei;
  u8 v_tobool_2enot_2ei_2ei_2ei;
  u8* v_4;
  u8* v_vtable_2ei_2ei_2ei;
  u8* v_vfn_2ei_2ei_2ei;
  u8* v_5;
  u64 v_call3_2ei_2ei_2ei;
  u64 v_cond_2ei_2ei_2ei;
  u64 p_cond_2ei_2ei_2ei;
  u8 v_cmp_2ei;
  u8* v_add_2eptr_2ei_2ei;
  u8 v_cmp_2enot13_2ei;
  u8 v_cmp3_2ei;
  u8 v_cmp6_2ei;
  u8* v_6;
  u8* v__M_in_end_2ei_2ei_2ei_2ei4;
  u8* v_7;
  u8* v__M_in_cur_2ei_2ei_2ei_2ei5;
  u8* v_8;
  u64 v_sub_2eptr_2elhs_2ecast_2ei_2ei_2ei6;
  u64 v_sub_2eptr_2erhs_2ecast_2ei_2ei_2ei7;
  u64 v_sub_2eptr_2esub_2ei_2ei_2ei8;
  u8 v_tobool_2enot_2ei_2ei_2ei9;
  u8* v_9;
  u8* v_vtable_2ei_2ei_2ei10;
  u8* v_vfn_2ei_2ei_2ei11;
  u8* v_10;
  u64 v_call3_2ei_2ei_2ei12;
  u64 v_cond_2ei_2ei_2ei14;
  u64 p_cond_2ei_2ei_2ei14;
  u8 v_cmp_2ei15;
  u8* v_11;
  u8* v__M_in_cur_2ei_2ei_2ei;
  u8* v_12;
  u8* v__M_in_end_2ei_2ei_2ei;
  u8* v_13;
  u8 v_cmp_2ei_2ei;
  u8 v_14;
  u32 v_conv_2ei_2ei_2ei;
  u8* v_15;
  u8* v_vtable_2ei_2ei;
  u8* v_vfn_2ei_2ei;
  u8* v_16;
  u32 v_call5_2ei_2ei;
  u32 v___ret_2e0_2ei_2ei;
  u32 p___ret_2e0_2ei_2ei;
  u32 v_sext;
  u32 v_conv9_2ei;
  u8 v_cmp_2enot_2ei;
  u8 v_cmp_2enot15_2ei;
  u8 p_cmp_2enot15_2ei;
  u8* v___begin2_2e014_2ei;
  u8* p___begin2_2e014_2ei;
  u8 v_17;
  u32 v_conv_2ei17;
  u32 v_call4_2ei;
  u8 v_conv5_2ei;
  u8 v_cond_2ei;
  u8 p_cond_2ei;
  u32 v_call10_2ei;
  u32 v_cond13_2ei_2ein;
  u32 p_cond13_2ei_2ein;
  u8 v_cond13_2ei;
  u8 v_cmp16_2ei;
  u8* v_incdec_2eptr_2ei;
  u8 v_cmp_2enot_2elcssa_2ei;
  u8 p_cmp_2enot_2elcssa_2ei;
  u8* v_18;
  u8* v__M_in_end_2ei_2ei_2ei18;
  u8* v_19;
  u8* v__M_in_cur_2ei_2ei_2ei19;
  u8* v_20;
  u64 v_sub_2eptr_2elhs_2ecast_2ei_2ei;
  u64 v_sub_2eptr_2erhs_2ecast_2ei_2ei;
  u64 v_sub_2eptr_2esub_2ei_2ei;
  u8 v_tobool_2enot_2ei_2ei;
  u8* v_21;
  u8* v_vtable_2ei_2ei20;
  u8* v_vfn_2ei_2ei21;
  u8* v_22;
  u64 v_call3_2ei_2ei;
  u64 v_cond_2ei_2ei;
  u64 p_cond_2ei_2ei;
  u8 v_cmp_2ei22;
  u8* v_23;
  u8* v__M_in_cur_2ei_2ei4_2ei;
  u8* v_24;
  u8* v__M_in_end_2ei_2ei5_2ei;
  u8* v_25;
  u8 v_cmp_2ei_2ei23;
  u8* v_add_2eptr_2ei_2ei_2ei;
  u8* v_26;
  u8* v_vtable_2ei6_2ei;
  u8* v_vfn_2ei7_2ei;
  u8* v_27;
  u32 v_call5_2ei_2ei26;
  u8 v_28;
  u8 v_retval_2e3;
  u8 p_retval_2e3;
 L_entry: ;
  v_0 = v_cursor;
  v_1 = *(u8**)v_0;
  v__M_in_end_2ei_2ei_2ei_2ei = (v_1 + (24));
  v_2 = *(u8**)v__M_in_end_2ei_2ei_2ei_2ei;
  v__M_in_cur_2ei_2ei_2ei_2ei = (v_1 + (16));
  v_3 = *(u8**)v__M_in_cur_2ei_2ei_2ei_2ei;
  v_sub_2eptr_2elhs_2ecast_2ei_2ei_2ei = ((u64)(u64)v_2);
  v_sub_2eptr_2erhs_2ecast_2ei_2ei_2ei = ((u64)(u64)v_3);
  v_sub_2eptr_2esub_2ei_2ei_2ei = __IR_PTRDIFF(v_2, v_3);
  v_tobool_2enot_2ei_2ei_2ei = ((u8)(v_sub_2eptr_2esub_2ei_2ei_2ei == ((u64)0ULL)));
  if (v_tobool_2enot_2ei_2ei_2ei) {  goto L_cond_2efalse_2ei_2ei_2ei; } else { p_cond_2ei_2ei_2ei = v_sub_2eptr_2esub_2ei_2ei_2ei; goto L__ZNK8Pistache12StreamCursor3eofEv_2eexit; }
 L_cond_2efalse_2ei_2ei_2ei: ;
  v_4 = v_1;
  v_vtable_2ei_2ei_2ei = *(u8**)v_4;
  v_vfn_2ei_2ei_2ei = (v_vtable_2ei_2ei_2ei + (56));
  v_5 = *(u8**)v_vfn_2ei_2ei_2ei;
  { u8* fp_ = v_5;
    if (fp_ == (u8*)_ZNSt15basic_streambufIcSt11char_traitsIcEE9showmanycEv) { v_call3_2ei_2ei_2ei = _ZNSt15basic_streambufIcSt11char_traitsIcEE9showmanycEv(v_1); } else
    { v_call3_2ei_2ei_2ei = __ir_indirect_ru64_u8p(fp_, v_1); } }
  v_call3_2ei_2ei_2ei = v_call3_2ei_2ei_2ei;
  if (__ir_exc_pending) return ((u8)0);
  p_cond_2ei_2ei_2ei = v_call3_2ei_2ei_2ei; goto L__ZNK8Pistache12StreamCursor3eofEv_2eexit;
 L__ZNK8Pistache12StreamCursor3eofEv_2eexit: ;
  v_cond_2ei_2ei_2ei = p_cond_2ei_2ei_2ei;
  v_cmp_2ei = ((u8)(v_cond_2ei_2ei_2ei == ((u64)0ULL)));
  if (v_cmp_2ei) { p_retval_2e3 = ((u8)0ULL); goto L_return; } else {  goto L_while_2econd_2epreheader; }
 L_while_2econd_2epreheader: ;
  v_add_2eptr_2ei_2ei = (v_chars_2ecoerce0 + (((i64)(i64)v_chars_2ecoerce1)));
  v_cmp_2enot13_2ei = ((u8)(v_chars_2ecoerce1 == ((u64)0ULL)));
  v_cmp3_2ei = ((u8)(v_cs == ((u32)0ULL)));
  v_cmp6_2ei = ((u8)(v_cs == ((u32)1ULL)));
   goto L_while_2econd;
 L_while_2econd: ;
  v_6 = *(u8**)v_0;
  v__M_in_end_2ei_2ei_2ei_2ei4 = (v_6 + (24));
  v_7 = *(u8**)v__M_in_end_2ei_2ei_2ei_2ei4;
  v__M_in_cur_2ei_2ei_2ei_2ei5 = (v_6 + (16));
  v_8 = *(u8**)v__M_in_cur_2ei_2ei_2ei_2ei5;
  v_sub_2eptr_2elhs_2ecast_2ei_2ei_2ei6 = ((u64)(u64)v_7);
  v_sub_2eptr_2erhs_2ecast_2ei_2ei_2ei7 = ((u64)(u64)v_8);
  v_sub_2eptr_2esub_2ei_2ei_2ei8 = __IR_PTRDIFF(v_7, v_8);
  v_tobool_2enot_2ei_2ei_2ei9 = ((u8)(v_sub_2eptr_2esub_2ei_2ei_2ei8 == ((u64)0ULL)));
  if (v_tobool_2enot_2ei_2ei_2ei9) {  goto L_cond_2efalse_2ei_2ei_2ei13; } else { p_cond_2ei_2ei_2ei14 = v_sub_2eptr_2esub_2ei_2ei_2ei8; goto L__ZNK8Pistache12StreamCursor3eofEv_2eexit16; }
 L_cond_2efalse_2ei_2ei_2ei13: ;
  v_9 = v_6;
  v_vtable_2ei_2ei_2ei10 = *(u8**)v_9;
  v_vfn_2ei_2ei_2ei11 = (v_vtable_2ei_2ei_2ei10 + (56));
  v_10 = *(u8**)v_vfn_2ei_2ei_2ei11;
  { u8* fp_ = v_10;
    if (fp_ == (u8*)_ZNSt15basic_streambufIcSt11char_traitsIcEE9showmanycEv) { v_call3_2ei_2ei_2ei12 = _ZNSt15basic_streambufIcSt11char_traitsIcEE9showmanycEv(v_6); } else
    { v_call3_2ei_2ei_2ei12 = __ir_indirect_ru64_u8p(fp_, v_6); } }
  v_call3_2ei_2ei_2ei12 = v_call3_2ei_2ei_2ei12;
  if (__ir_exc_pending) return ((u8)0);
  p_cond_2ei_2ei_2ei14 = v_call3_2ei_2ei_2ei12; goto L__ZNK8Pistache12StreamCursor3eofEv_2eexit16;
 L__ZNK8Pistache12StreamCursor3eofEv_2eexit16: ;
  v_cond_2ei_2ei_2ei14 = p_cond_2ei_2ei_2ei14;
  v_cmp_2ei15 = ((u8)(v_cond_2ei_2ei_2ei14 == ((u64)0ULL)));
  if (v_cmp_2ei15) {  goto L_cleanup7; } else {  goto L_while_2ebody; }
 L_while_2ebody: ;
  v_11 = *(u8**)v_0;
  v__M_in_cur_2ei_2ei_2ei = (v_11 + (16));
  v_12 = *(u8**)v__M_in_cur_2ei_2ei_2ei;
  v__M_in_end_2ei_2ei_2ei = (v_11 + (24));
  v_13 = *(u8**)v__M_in_end_2ei_2ei_2ei;
  v_cmp_2ei_2ei = ((u8)((u64)v_12 < (u64)v_13));
  if (v_cmp_2ei_2ei) {  goto L_if_2ethen_2ei_2ei; } else {  goto L_if_2eelse_2ei_2ei; }
 L_if_2eelse_2ei_2ei: ;
  v_15 = v_11;
  v_vtable_2ei_2ei = *(u8**)v_15;
  v_vfn_2ei_2ei = (v_vtable_2ei_2ei + (72));
  v_16 = *(u8**)v_vfn_2ei_2ei;
  { u8* fp_ = v_16;
    if (fp_ == (u8*)_ZNSt15basic_streambufIcSt11char_traitsIcEE9underflowEv) { v_call5_2ei_2ei = _ZNSt15basic_streambufIcSt11char_traitsIcEE9underflowEv(v_11); } else
    { v_call5_2ei_2ei = __ir_indirect_ru32_u8p(fp_, v_11); } }
  v_call5_2ei_2ei = v_call5_2ei_2ei;
  if (__ir_exc_pending) return ((u8)0);
  p___ret_2e0_2ei_2ei = v_call5_2ei_2ei; goto L__ZNK8Pistache12StreamCursor7currentEv_2eexit;
 L_if_2ethen_2ei_2ei: ;
  v_14 = *(u8*)v_12;
  v_conv_2ei_2ei_2ei = ((u32)v_14);
  p___ret_2e0_2ei_2ei = v_conv_2ei_2ei_2ei; goto L__ZNK8Pistache12StreamCursor7currentEv_2eexit;
 L__ZNK8Pistache12StreamCursor7currentEv_2eexit: ;
  v___ret_2e0_2ei_2ei = p___ret_2e0_2ei_2ei;
  if (v_cmp_2enot13_2ei) { p_cmp_2enot_2elcssa_2ei = v_cmp_2enot13_2ei; goto L__ZZN8Pistache11match_untilESt16initializer_listIcERNS_12StreamCursorENS_15CaseSensitivityEENK3_24_0clEc_2eexit; } else {  goto L_for_2ebody_2elr_2eph_2ei; }
 L_for_2ebody_2elr_2eph_2ei: ;
  v_sext = ((u32)((u64)v___ret_2e0_2ei_2ei << (u64)((u32)24ULL)));
  v_conv9_2ei = ((u32)((u64)(((i32)v_sext) >> (u64)((u32)24ULL))));
  p_cmp_2enot15_2ei = ((u8)0ULL); p___begin2_2e014_2ei = v_chars_2ecoerce0; goto L_for_2ebody_2ei;
 L_for_2ebody_2ei: ;
  v_cmp_2enot15_2ei = p_cmp_2enot15_2ei;
  v___begin2_2e014_2ei = p___begin2_2e014_2ei;
  v_17 = *(u8*)v___begin2_2e014_2ei;
  if (v_cmp3_2ei) { p_cond_2ei = v_17; goto L_cond_2eend_2ei; } else {  goto L_cond_2efalse_2ei; }
 L_cond_2efalse_2ei: ;
  v_conv_2ei17 = ((u32)((i8)v_17));
  v_call4_2ei = x_tolower(v_conv_2ei17);
  if (__ir_exc_pending) return ((u8)0);
  v_conv5_2ei = ((u8)v_call4_2ei);
  p_cond_2ei = v_conv5_2ei; goto L_cond_2eend_2ei;
 L_cond_2eend_2ei: ;
  v_cond_2ei = p_cond_2ei;
  if (v_cmp6_2ei) { p_cond13_2ei_2ein = v___ret_2e0_2ei_2ei; goto L_cond_2eend12_2ei; } else {  goto L_cond_2efalse8_2ei; }
 L_cond_2efalse8_2ei: ;
  v_call10_2ei = x_tolower(v_conv9_2ei);
  if (__ir_exc_pending) return ((u8)0);
  p_cond13_2ei_2ein = v_call10_2ei; goto L_cond_2eend12_2ei;
 L_cond_2eend12_2ei: ;
  v_cond13_2ei_2ein = p_cond13_2ei_2ein;
  v_cond13_2ei = ((u8)v_cond13_2ei_2ein);
  v_cmp16_2ei = ((u8)(v_cond_2ei == v_cond13_2ei));
  v_incdec_2eptr_2ei = (v___begin2_2e014_2ei + (1));
  if (v_cmp16_2ei) { p_cmp_2enot_2elcssa_2ei = v_cmp_2enot15_2ei; goto L__ZZN8Pistache11match_untilESt16initializer_listIcERNS_12StreamCursorENS_15CaseSensitivityEENK3_24_0clEc_2eexit; } else {  goto L_for_2econd_2ei; }
 L_for_2econd_2ei: ;
  v_cmp_2enot_2ei = ((u8)(v_incdec_2eptr_2ei == v_add_2eptr_2ei_2ei));
  if (v_cmp_2enot_2ei) { p_cmp_2enot_2elcssa_2ei = v_cmp_2enot_2ei; goto L__ZZN8Pistache11match_untilESt16initializer_listIcERNS_12StreamCursorENS_15CaseSensitivityEENK3_24_0clEc_2eexit; } else { p_cmp_2enot15_2ei = v_cmp_2enot_2ei; p___begin2_2e014_2ei = v_incdec_2eptr_2ei; goto L_for_2ebody_2ei; /*LOOPBACK d=1 nest=0*/ }
 L__ZZN8Pistache11match_untilESt16initializer_listIcERNS_12StreamCursorENS_15CaseSensitivityEENK3_24_0clEc_2eexit: ;
  v_cmp_2enot_2elcssa_2ei = p_cmp_2enot_2elcssa_2ei;
  if (v_cmp_2enot_2elcssa_2ei) {  goto L_if_2eend5; } else {  goto L_cleanup7; }
 L_if_2eend5: ;
  v_18 = *(u8**)v_0;
  v__M_in_end_2ei_2ei_2ei18 = (v_18 + (24));
  v_19 = *(u8**)v__M_in_end_2ei_2ei_2ei18;
  v__M_in_cur_2ei_2ei_2ei19 = (v_18 + (16));
  v_20 = *(u8**)v__M_in_cur_2ei_2ei_2ei19;
  v_sub_2eptr_2elhs_2ecast_2ei_2ei = ((u64)(u64)v_19);
  v_sub_2eptr_2erhs_2ecast_2ei_2ei = ((u64)(u64)v_20);
  v_sub_2eptr_2esub_2ei_2ei = __IR_PTRDIFF(v_19, v_20);
  v_tobool_2enot_2ei_2ei = ((u8)(v_sub_2eptr_2esub_2ei_2ei == ((u64)0ULL)));
  if (v_tobool_2enot_2ei_2ei) {  goto L_cond_2efalse_2ei_2ei; } else { p_cond_2ei_2ei = v_sub_2eptr_2esub_2ei_2ei; goto L__ZNSt15basic_streambufIcSt11char_traitsIcEE8in_availEv_2eexit_2ei; }
 L_cond_2efalse_2ei_2ei: ;
  v_21 = v_18;
  v_vtable_2ei_2ei20 = *(u8**)v_21;
  v_vfn_2ei_2ei21 = (v_vtable_2ei_2ei20 + (56));
  v_22 = *(u8**)v_vfn_2ei_2ei21;
  { u8* fp_ = v_22;
    if (fp_ == (u8*)_ZNSt15basic_streambufIcSt11char_traitsIcEE9showmanycEv) { v_call3_2ei_2ei = _ZNSt15basic_streambufIcSt11char_traitsIcEE9showmanycEv(v_18); } else
    { v_call3_2ei_2ei = __ir_indirect_ru64_u8p(fp_, v_18); } }
  v_call3_2ei_2ei = v_call3_2ei_2ei;
  if (__ir_exc_pending) return ((u8)0);
  p_cond_2ei_2ei = v_call3_2ei_2ei; goto L__ZNSt15basic_streambufIcSt11char_traitsIcEE8in_availEv_2eexit_2ei;
 L__ZNSt15basic_streambufIcSt11char_traitsIcEE8in_availEv_2eexit_2ei: ;
  v_cond_2ei_2ei = p_cond_2ei_2ei;
  v_cmp_2ei22 = ((u8)(((i64)v_cond_2ei_2ei) < ((i64)((u64)1ULL))));
  if (v_cmp_2ei22) {  goto L_while_2econd_2ebackedge; } else {  goto L_for_2ebody_2ei24; }
 L_for_2ebody_2ei24: ;
  v_23 = *(u8**)v_0;
  v__M_in_cur_2ei_2ei4_2ei = (v_23 + (16));
  v_24 = *(u8**)v__M_in_cur_2ei_2ei4_2ei;
  v__M_in_end_2ei_2ei5_2ei = (v_23 + (24));
  v_25 = *(u8**)v__M_in_end_2ei_2ei5_2ei;
  v_cmp_2ei_2ei23 = ((u8)((u64)v_24 < (u64)v_25));
  if (v_cmp_2ei_2ei23) {  goto L_if_2ethen_2ei_2ei25; } else {  goto L_if_2eelse_2ei_2ei27; }
 L_if_2eelse_2ei_2ei27: ;
  v_26 = v_23;
  v_vtable_2ei6_2ei = *(u8**)v_26;
  v_vfn_2ei7_2ei = (v_vtable_2ei6_2ei + (80));
  v_27 = *(u8**)v_vfn_2ei7_2ei;
  { u8* fp_ = v_27;
    if (fp_ == (u8*)_ZNSt15basic_streambufIcSt11char_traitsIcEE5uflowEv) { v_call5_2ei_2ei26 = _ZNSt15basic_streambufIcSt11char_traitsIcEE5uflowEv(v_23); } else
    { v_call5_2ei_2ei26 = __ir_indirect_ru32_u8p(fp_, v_23); } }
  v_call5_2ei_2ei26 = v_call5_2ei_2ei26;
  if (__ir_exc_pending) return ((u8)0);
   goto L_while_2econd_2ebackedge;
 L_if_2ethen_2ei_2ei25: ;
  v_add_2eptr_2ei_2ei_2ei = (v_24 + (1));
  *(u8**)v__M_in_cur_2ei_2ei4_2ei = v_add_2eptr_2ei_2ei_2ei;
   goto L_while_2econd_2ebackedge;
 L_while_2econd_2ebackedge: ;
   goto L_while_2econd; /*LOOPBACK d=0 nest=1*/
 L_cleanup7: ;
  v_28 = ((((u8)((u64)v_cmp_2ei15 ^ (u64)((u8)1ULL))))&1);
  p_retval_2e3 = v_28; goto L_return;
 L_return: ;
  v_retval_2e3 = p_retval_2e3;
  return v_retval_2e3;
}

u8 _ZN8Pistache4Http12_GLOBAL__N_115match_attributeISt8optionalINSt7__cxx1112basic_stringIcSt11char_traitsIcESaIcEEEEEEbPKcmRNS_12StreamCursorEPNS0_6CookieEMSF_T_(u8* v_name, u64 v_len, u8* v_cursor, u8* v_obj, u64 v_attr) {
  u8* v_ref_2etmp_2ei_2ei;
  u8* v_token_2ei;
  u8* v_ref_2etmp_2ei;
  u8 v_call;
  u8* v_0;
  u8* v_1;
  u8* v_gptr_2ei_2ei;
  u8* v_2;
  u8* v_cursor_2ei_2ei_2ei_2ei;
  u8* v_3;
  u8* v_buf_2ei_2ei_2ei_2ei;
  u8* v_4;
  u8* v__M_in_cur_2ei_2ei_2ei_2ei_2ei_2ei;
  u8* v_5;
  u8* v__M_in_beg_2ei_2ei_2ei_2ei_2ei_2ei;
  u8* v_6;
  u64 v_sub_2eptr_2elhs_2ecast_2ei_2ei_2ei_2ei_2ei;
  u64 v_sub_2eptr_2erhs_2ecast_2ei_2ei_2ei_2ei_2ei;
  u8* v_position_2ei_2ei_2ei_2ei;
  u64 v_7;
  u64 v_8;
  u64 v_sub_2ei_2ei_2ei;
  u8* v_9;
  u8* v_10;
  u8* v_memptr_2eoffset_2ei;
  u8* v_11;
  u8* v_call_2ei;
  u8* v_12;
  u8* v_13;
  u8* v__M_in_end_2ei_2ei_2ei;
  u8* v_14;
  u8* v__M_in_cur_2ei_2ei_2ei;
  u8* v_15;
  u64 v_sub_2eptr_2elhs_2ecast_2ei_2ei;
  u64 v_sub_2eptr_2erhs_2ecast_2ei_2ei;
  u64 v_sub_2eptr_2esub_2ei_2ei;
  u8 v_tobool_2enot_2ei_2ei;
  u8* v_16;
  u8* v_vtable_2ei_2ei;
  u8* v_vfn_2ei_2ei;
  u8* v_17;
  u64 v_call3_2ei_2ei;
  u64 v_cond_2ei_2ei;
  u64 p_cond_2ei_2ei;
  u8 v_cmp_2ei;
  u8* v_18;
  u8* v__M_in_cur_2ei_2ei4_2ei;
  u8* v_19;
  u8* v__M_in_end_2ei_2ei5_2ei;
  u8* v_20;
  u8 v_cmp_2ei_2ei;
  u8* v_add_2eptr_2ei_2ei_2ei;
  u8* v_21;
  u8* v_vtable_2ei6_2ei;
  u8* v_vfn_2ei7_2ei;
  u8* v_22;
  u32 v_call5_2ei_2ei;
 L_entry: ;
  static u8 a_ref_2etmp_2ei_2ei_dummy; u8 a_ref_2etmp_2ei_2ei[1] __attribute__((aligned(1))); v_ref_2etmp_2ei_2ei = a_ref_2etmp_2ei_2ei;
  static u8 a_token_2ei_dummy; u8 a_token_2ei[40] __attribute__((aligned(8))); v_token_2ei = a_token_2ei;
  static u8 a_ref_2etmp_2ei_dummy; u8 a_ref_2etmp_2ei[32] __attribute__((aligned(8))); v_ref_2etmp_2ei = a_ref_2etmp_2ei;
  v_call = _ZN8Pistache12match_stringEPKcmRNS_12StreamCursorENS_15CaseSensitivityE(v_name, v_len, v_cursor, ((u32)1ULL));
  if (__ir_exc_pending) return ((u8)0);
  if (v_call) {  goto L_if_2ethen; } else {  goto L_return; }
 L_if_2ethen: ;
  v_0 = v_token_2ei;
  _ZN8Pistache4Http12_GLOBAL__N_110matchValueERNS_12StreamCursorE(v_token_2ei, v_cursor);
  if (__ir_exc_pending) return ((u8)0);
  v_1 = v_ref_2etmp_2ei;
  v_gptr_2ei_2ei = (v_token_2ei + (24));
  v_2 = *(u8**)v_gptr_2ei_2ei;
  v_cursor_2ei_2ei_2ei_2ei = v_token_2ei;
  v_3 = *(u8**)v_cursor_2ei_2ei_2ei_2ei;
  v_buf_2ei_2ei_2ei_2ei = v_3;
  v_4 = *(u8**)v_buf_2ei_2ei_2ei_2ei;
  v__M_in_cur_2ei_2ei_2ei_2ei_2ei_2ei = (v_4 + (16));
  v_5 = *(u8**)v__M_in_cur_2ei_2ei_2ei_2ei_2ei_2ei;
  v__M_in_beg_2ei_2ei_2ei_2ei_2ei_2ei = (v_4 + (8));
  v_6 = *(u8**)v__M_in_beg_2ei_2ei_2ei_2ei_2ei_2ei;
  v_sub_2eptr_2elhs_2ecast_2ei_2ei_2ei_2ei_2ei = ((u64)(u64)v_5);
  v_sub_2eptr_2erhs_2ecast_2ei_2ei_2ei_2ei_2ei = ((u64)(u64)v_6);
  v_position_2ei_2ei_2ei_2ei = (v_token_2ei + (8));
  v_7 = *(u64*)v_position_2ei_2ei_2ei_2ei;
  v_8 = ((u64)((u64)v_7 + (u64)v_sub_2eptr_2erhs_2ecast_2ei_2ei_2ei_2ei_2ei));
  v_sub_2ei_2ei_2ei = ((u64)((u64)v_sub_2eptr_2elhs_2ecast_2ei_2ei_2ei_2ei_2ei - (u64)v_8));
  v_9 = v_ref_2etmp_2ei_2ei;
  _ZNSt7__cxx1112basic_stringIcSt11char_traitsIcESaIcEEC2EPKcmRKS3_(v_ref_2etmp_2ei, v_2, v_sub_2ei_2ei_2ei, v_ref_2etmp_2ei_2ei);
  if (__ir_exc_pending) return ((u8)0);
  v_10 = v_obj;
  v_memptr_2eoffset_2ei = (v_10 + (((i64)(i64)v_attr)));
  v_11 = v_memptr_2eoffset_2ei;
  v_call_2ei = _ZNSt8optionalINSt7__cxx1112basic_stringIcSt11char_traitsIcESaIcEEEEaSIS5_EENSt9enable_ifIX7__and_vISt6__not_ISt7is_sameIS6_NSt9remove_cvINSt16remove_referenceIT_E4typeEE4typeEEES9_ISt6__and_IJSt9is_scalarIS5_ESA_IS5_NSt5decayISD_E4typeEEEEESt16is_constructibleIS5_JSD_EESt13is_assignableIRS5_SD_EEERS6_E4typeEOSD_(v_11, v_ref_2etmp_2ei);
  if (__ir_exc_pending) return ((u8)0);
  _ZNSt7__cxx1112basic_stringIcSt11char_traitsIcESaIcEED2Ev(v_ref_2etmp_2ei);
  if (__ir_exc_pending) return ((u8)0);
  v_12 = v_cursor;
  v_13 = *(u8**)v_12;
  v__M_in_end_2ei_2ei_2ei = (v_13 + (24));
  v_14 = *(u8**)v__M_in_end_2ei_2ei_2ei;
  v__M_in_cur_2ei_2ei_2ei = (v_13 + (16));
  v_15 = *(u8**)v__M_in_cur_2ei_2ei_2ei;
  v_sub_2eptr_2elhs_2ecast_2ei_2ei = ((u64)(u64)v_14);
  v_sub_2eptr_2erhs_2ecast_2ei_2ei = ((u64)(u64)v_15);
  v_sub_2eptr_2esub_2ei_2ei = __IR_PTRDIFF(v_14, v_15);
  v_tobool_2enot_2ei_2ei = ((u8)(v_sub_2eptr_2esub_2ei_2ei == ((u64)0ULL)));
  if (v_tobool_2enot_2ei_2ei) {  goto L_cond_2efalse_2ei_2ei; } else { p_cond_2ei_2ei = v_sub_2eptr_2esub_2ei_2ei; goto L__ZNSt15basic_streambufIcSt11char_traitsIcEE8in_availEv_2eexit_2ei; }
 L_cond_2efalse_2ei_2ei: ;
  v_16 = v_13;
  v_vtable_2ei_2ei = *(u8**)v_16;
  v_vfn_2ei_2ei = (v_vtable_2ei_2ei + (56));
  v_17 = *(u8**)v_vfn_2ei_2ei;
  { u8* fp_ = v_17;
    if (fp_ == (u8*)_ZNSt15basic_streambufIcSt11char_traitsIcEE9showmanycEv) { v_call3_2ei_2ei = _ZNSt15basic_streambufIcSt11char_traitsIcEE9showmanycEv(v_13); } else
    { v_call3_2ei_2ei = __ir_indirect_ru64_u8p(fp_, v_13); } }
  v_call3_2ei_2ei = v_call3_2ei_2ei;
  if (__ir_exc_pending) return ((u8)0);
  p_cond_2ei_2ei = v_call3_2ei_2ei; goto L__ZNSt15basic_streambufIcSt11char_traitsIcEE8in_availEv_2eexit_2ei;
 L__ZNSt15basic_streambufIcSt11char_traitsIcEE8in_availEv_2eexit_2ei: ;
  v_cond_2ei_2ei = p_cond_2ei_2ei;
  v_cmp_2ei = ((u8)(((i64)v_cond_2ei_2ei) < ((i64)((u64)1ULL))));
  if (v_cmp_2ei) {  goto L_return; } else {  goto L_for_2ebody_2ei; }
 L_for_2ebody_2ei: ;
  v_18 = *(u8**)v_12;
  v__M_in_cur_2ei_2ei4_2ei = (v_18 + (16));
  v_19 = *(u8**)v__M_in_cur_2ei_2ei4_2ei;
  v__M_in_end_2ei_2ei5_2ei = (v_18 + (24));
  v_20 = *(u8**)v__M_in_end_2ei_2ei5_2ei;
  v_cmp_2ei_2ei = ((u8)((u64)v_19 < (u64)v_20));
  if (v_cmp_2ei_2ei) {  goto L_if_2ethen_2ei_2ei; } else {  goto L_if_2eelse_2ei_2ei; }
 L_if_2eelse_2ei_2ei: ;
  v_21 = v_18;
  v_vtable_2ei6_2ei = *(u8**)v_21;
  v_vfn_2ei7_2ei = (v_vtable_2ei6_2ei + (80));
  v_22 = *(u8**)v_vfn_2ei7_2ei;
  { u8* fp_ = v_22;
    if (fp_ == (u8*)_ZNSt15basic_streambufIcSt11char_traitsIcEE5uflowEv) { v_call5_2ei_2ei = _ZNSt15basic_streambufIcSt11char_traitsIcEE5uflowEv(v_18); } else
    { v_call5_2ei_2ei = __ir_indirect_ru32_u8p(fp_, v_18); } }
  v_call5_2ei_2ei = v_call5_2ei_2ei;
  if (__ir_exc_pending) return ((u8)0);
   goto L_return;
 L_if_2ethen_2ei_2ei: ;
  v_add_2eptr_2ei_2ei_2ei = (v_19 + (1));
  *(u8**)v__M_in_cur_2ei_2ei4_2ei = v_add_2eptr_2ei_2ei_2ei;
   goto L_return;
 L_return: ;
  return v_call;
}

u8 _ZN8Pistache12match_stringEPKcmRNS_12StreamCursorENS_15CaseSensitivityE(u8* v_str, u64 v_len, u8* v_cursor, u32 v_cs) {
  u8* v_0;
  u8* v_1;
  u8* v__M_in_end_2ei_2ei_2ei;
  u8* v_2;
  u8* v__M_in_cur_2ei_2ei_2ei;
  u8* v_3;
  u64 v_sub_2eptr_2elhs_2ecast_2ei_2ei;
  u64 v_sub_2eptr_2erhs_2ecast_2ei_2ei;
  u64 v_sub_2eptr_2esub_2ei_2ei;
  u8 v_tobool_2enot_2ei_2ei;
  u8* v_4;
  u8* v_vtable_2ei_2ei;
  u8* v_vfn_2ei_2ei;
  u8* v_5;
  u64 v_call3_2ei_2ei;
  u64 v_cond_2ei_2ei;
  u64 p_cond_2ei_2ei;
  u8 v_cmp;
  u8 v_cmp1;
  u8* v_buf_2ei;
  u8* v_6;
  u8* v__M_in_cur_2ei_2ei_2ei18;
  u8* v_7;
  u32 v_call4;
  u8 v_cmp5;
  u8* v_8;
  u8* v__M_in_end_2ei_2ei_2ei19;
  u8* v_9;
  u8* v__M_in_cur_2ei_2ei_2ei20;
  u8* v_10;
  u64 v_sub_2eptr_2elhs_2ecast_2ei_2ei21;
  u64 v_sub_2eptr_2erhs_2ecast_2ei_2ei22;
  u64 v_sub_2eptr_2esub_2ei_2ei23;
  u8 v_tobool_2enot_2ei_2ei24;
  u8* v_11;
  u8* v_vtable_2ei_2ei25;
  u8* v_vfn_2ei_2ei26;
  u8* v_12;
  u64 v_call3_2ei_2ei27;
  u64 v_cond_2ei_2ei29;
  u64 p_cond_2ei_2ei29;
  u8 v_cmp_2ei;
  u8 v_cmp28_2ei;
  u8 v_13;
  u64 v_i_2e09_2ei;
  u64 p_i_2e09_2ei;
  u8* v_14;
  u8* v__M_in_cur_2ei_2ei4_2ei;
  u8* v_15;
  u8* v__M_in_end_2ei_2ei5_2ei;
  u8* v_16;
  u8 v_cmp_2ei_2ei;
  u8* v_add_2eptr_2ei_2ei_2ei;
  u8* v_17;
  u8* v_vtable_2ei6_2ei;
  u8* v_vfn_2ei7_2ei;
  u8* v_18;
  u32 v_call5_2ei_2ei;
  u64 v_inc_2ei;
  u8 v_exitcond_2enot_2ei;
  u8 v_cmp1064;
  u8 v_19;
  u32 v_conv73;
  u32 v_call1174;
  u8 v_20;
  u32 v_conv1475;
  u32 v_call1576;
  u32 v_cmp19_2enot_2eunshifted77;
  u32 v_cmp19_2enot_2emask78;
  u8 v_cmp19_2enot79;
  u64 v_inc80;
  u64 p_inc80;
  u8 v_exitcond_2enot;
  u8* v_arrayidx;
  u8 v_21;
  u32 v_conv;
  u32 v_call11;
  u8* v_arrayidx13;
  u8 v_22;
  u32 v_conv14;
  u32 v_call15;
  u32 v_cmp19_2enot_2eunshifted;
  u32 v_cmp19_2enot_2emask;
  u8 v_cmp19_2enot;
  u64 v_inc;
  u8 v_cmp10_2ele86;
  u8 v_cmp10_2elcssa;
  u8 p_cmp10_2elcssa;
  u8* v_23;
  u8* v__M_in_end_2ei_2ei_2ei32;
  u8* v_24;
  u8* v__M_in_cur_2ei_2ei_2ei33;
  u8* v_25;
  u64 v_sub_2eptr_2elhs_2ecast_2ei_2ei34;
  u64 v_sub_2eptr_2erhs_2ecast_2ei_2ei35;
  u64 v_sub_2eptr_2esub_2ei_2ei36;
  u8 v_tobool_2enot_2ei_2ei37;
  u8* v_26;
  u8* v_vtable_2ei_2ei38;
  u8* v_vfn_2ei_2ei39;
  u8* v_27;
  u64 v_call3_2ei_2ei40;
  u64 v_cond_2ei_2ei42;
  u64 p_cond_2ei_2ei42;
  u8 v_cmp_2ei43;
  u8 v_cmp28_2ei44;
  u8 v_28;
  u64 v_i_2e09_2ei46;
  u64 p_i_2e09_2ei46;
  u8* v_29;
  u8* v__M_in_cur_2ei_2ei4_2ei47;
  u8* v_30;
  u8* v__M_in_end_2ei_2ei5_2ei48;
  u8* v_31;
  u8 v_cmp_2ei_2ei49;
  u8* v_add_2eptr_2ei_2ei_2ei51;
  u8* v_32;
  u8* v_vtable_2ei6_2ei53;
  u8* v_vfn_2ei7_2ei54;
  u8* v_33;
  u32 v_call5_2ei_2ei55;
  u64 v_inc_2ei57;
  u8 v_exitcond_2enot_2ei58;
  u8 v_cmp10_2ele;
  u8 v_cmp1063;
  u8 p_cmp1063;
  u8 v_34;
  u8 v_retval_2e4;
  u8 p_retval_2e4;
 L_entry: ;
  v_0 = v_cursor;
  v_1 = *(u8**)v_0;
  v__M_in_end_2ei_2ei_2ei = (v_1 + (24));
  v_2 = *(u8**)v__M_in_end_2ei_2ei_2ei;
  v__M_in_cur_2ei_2ei_2ei = (v_1 + (16));
  v_3 = *(u8**)v__M_in_cur_2ei_2ei_2ei;
  v_sub_2eptr_2elhs_2ecast_2ei_2ei = ((u64)(u64)v_2);
  v_sub_2eptr_2erhs_2ecast_2ei_2ei = ((u64)(u64)v_3);
  v_sub_2eptr_2esub_2ei_2ei = __IR_PTRDIFF(v_2, v_3);
  v_tobool_2enot_2ei_2ei = ((u8)(v_sub_2eptr_2esub_2ei_2ei == ((u64)0ULL)));
  if (v_tobool_2enot_2ei_2ei) {  goto L_cond_2efalse_2ei_2ei; } else { p_cond_2ei_2ei = v_sub_2eptr_2esub_2ei_2ei; goto L__ZNK8Pistache12StreamCursor9remainingEv_2eexit; }
 L_cond_2efalse_2ei_2ei: ;
  v_4 = v_1;
  v_vtable_2ei_2ei = *(u8**)v_4;
  v_vfn_2ei_2ei = (v_vtable_2ei_2ei + (56));
  v_5 = *(u8**)v_vfn_2ei_2ei;
  { u8* fp_ = v_5;
    if (fp_ == (u8*)_ZNSt15basic_streambufIcSt11char_traitsIcEE9showmanycEv) { v_call3_2ei_2ei = _ZNSt15basic_streambufIcSt11char_traitsIcEE9showmanycEv(v_1); } else
    { v_call3_2ei_2ei = __ir_indirect_ru64_u8p(fp_, v_1); } }
  v_call3_2ei_2ei = v_call3_2ei_2ei;
  if (__ir_exc_pending) return ((u8)0);
  p_cond_2ei_2ei = v_call3_2ei_2ei; goto L__ZNK8Pistache12StreamCursor9remainingEv_2eexit;
 L__ZNK8Pistache12StreamCursor9remainingEv_2eexit: ;
  v_cond_2ei_2ei = p_cond_2ei_2ei;
  v_cmp = ((u8)(v_cond_2ei_2ei < v_len));
  if (v_cmp) { p_retval_2e4 = ((u8)0ULL); goto L_return; } else {  goto L_if_2eend; }
 L_if_2eend: ;
  v_cmp1 = ((u8)(v_cs == ((u32)0ULL)));
  v_buf_2ei = v_cursor;
  v_6 = *(u8**)v_buf_2ei;
  v__M_in_cur_2ei_2ei_2ei18 = (v_6 + (16));
  v_7 = *(u8**)v__M_in_cur_2ei_2ei_2ei18;
  if (v_cmp1) {  goto L_if_2ethen2; } else {  goto L_if_2eelse; }
 L_if_2eelse: ;
  v_cmp1064 = ((u8)(v_len != ((u64)0ULL)));
  if (v_cmp1064) {  goto L_for_2ebody_2epreheader; } else { p_cmp10_2elcssa = v_cmp1064; goto L_for_2eend; }
 L_for_2ebody_2epreheader: ;
  v_19 = *(u8*)v_str;
  v_conv73 = ((u32)((i8)v_19));
  v_call1174 = x_tolower(v_conv73);
  if (__ir_exc_pending) return ((u8)0);
  v_20 = *(u8*)v_7;
  v_conv1475 = ((u32)((i8)v_20));
  v_call1576 = x_tolower(v_conv1475);
  if (__ir_exc_pending) return ((u8)0);
  v_cmp19_2enot_2eunshifted77 = ((u32)((u64)v_call1576 ^ (u64)v_call1174));
  v_cmp19_2enot_2emask78 = ((u32)((u64)v_cmp19_2enot_2eunshifted77 & (u64)((u32)255ULL)));
  v_cmp19_2enot79 = ((u8)(v_cmp19_2enot_2emask78 == ((u32)0ULL)));
  if (v_cmp19_2enot79) { p_inc80 = ((u64)1ULL); goto L_for_2econd; } else { p_cmp1063 = v_cmp1064; goto L_cleanup26; }
 L_for_2econd: ;
  v_inc80 = p_inc80;
  v_exitcond_2enot = ((u8)(v_inc80 == v_len));
  if (v_exitcond_2enot) {  goto L_for_2eend_2eloopexit; } else {  goto L_for_2ebody; }
 L_for_2ebody: ;
  v_arrayidx = (v_str + (((i64)(i64)v_inc80)));
  v_21 = *(u8*)v_arrayidx;
  v_conv = ((u32)((i8)v_21));
  v_call11 = x_tolower(v_conv);
  if (__ir_exc_pending) return ((u8)0);
  v_arrayidx13 = (v_7 + (((i64)(i64)v_inc80)));
  v_22 = *(u8*)v_arrayidx13;
  v_conv14 = ((u32)((i8)v_22));
  v_call15 = x_tolower(v_conv14);
  if (__ir_exc_pending) return ((u8)0);
  v_cmp19_2enot_2eunshifted = ((u32)((u64)v_call15 ^ (u64)v_call11));
  v_cmp19_2enot_2emask = ((u32)((u64)v_cmp19_2enot_2eunshifted & (u64)((u32)255ULL)));
  v_cmp19_2enot = ((u8)(v_cmp19_2enot_2emask == ((u32)0ULL)));
  v_inc = ((u64)((u64)v_inc80 + (u64)((u64)1ULL)));
  if (v_cmp19_2enot) { p_inc80 = v_inc; goto L_for_2econd; /*LOOPBACK d=0 nest=0*/ } else {  goto L_cleanup26_2eloopexit81; }
 L_cleanup26_2eloopexit81: ;
  v_cmp10_2ele = ((u8)(v_inc80 < v_len));
  p_cmp1063 = v_cmp10_2ele; goto L_cleanup26;
 L_for_2eend_2eloopexit: ;
  v_cmp10_2ele86 = ((u8)(v_inc80 < v_len));
  p_cmp10_2elcssa = v_cmp10_2ele86; goto L_for_2eend;
 L_for_2eend: ;
  v_cmp10_2elcssa = p_cmp10_2elcssa;
  v_23 = *(u8**)v_0;
  v__M_in_end_2ei_2ei_2ei32 = (v_23 + (24));
  v_24 = *(u8**)v__M_in_end_2ei_2ei_2ei32;
  v__M_in_cur_2ei_2ei_2ei33 = (v_23 + (16));
  v_25 = *(u8**)v__M_in_cur_2ei_2ei_2ei33;
  v_sub_2eptr_2elhs_2ecast_2ei_2ei34 = ((u64)(u64)v_24);
  v_sub_2eptr_2erhs_2ecast_2ei_2ei35 = ((u64)(u64)v_25);
  v_sub_2eptr_2esub_2ei_2ei36 = __IR_PTRDIFF(v_24, v_25);
  v_tobool_2enot_2ei_2ei37 = ((u8)(v_sub_2eptr_2esub_2ei_2ei36 == ((u64)0ULL)));
  if (v_tobool_2enot_2ei_2ei37) {  goto L_cond_2efalse_2ei_2ei41; } else { p_cond_2ei_2ei42 = v_sub_2eptr_2esub_2ei_2ei36; goto L__ZNSt15basic_streambufIcSt11char_traitsIcEE8in_availEv_2eexit_2ei45; }
 L_cond_2efalse_2ei_2ei41: ;
  v_26 = v_23;
  v_vtable_2ei_2ei38 = *(u8**)v_26;
  v_vfn_2ei_2ei39 = (v_vtable_2ei_2ei38 + (56));
  v_27 = *(u8**)v_vfn_2ei_2ei39;
  { u8* fp_ = v_27;
    if (fp_ == (u8*)_ZNSt15basic_streambufIcSt11char_traitsIcEE9showmanycEv) { v_call3_2ei_2ei40 = _ZNSt15basic_streambufIcSt11char_traitsIcEE9showmanycEv(v_23); } else
    { v_call3_2ei_2ei40 = __ir_indirect_ru64_u8p(fp_, v_23); } }
  v_call3_2ei_2ei40 = v_call3_2ei_2ei40;
  if (__ir_exc_pending) return ((u8)0);
  p_cond_2ei_2ei42 = v_call3_2ei_2ei40; goto L__ZNSt15basic_streambufIcSt11char_traitsIcEE8in_availEv_2eexit_2ei45;
 L__ZNSt15basic_streambufIcSt11char_traitsIcEE8in_availEv_2eexit_2ei45: ;
  v_cond_2ei_2ei42 = p_cond_2ei_2ei42;
  v_cmp_2ei43 = ((u8)(((i64)v_cond_2ei_2ei42) < ((i64)v_len)));
  v_cmp28_2ei44 = ((u8)(v_len == ((u64)0ULL)));
  v_28 = ((((u8)((u64)v_cmp28_2ei44 | (u64)v_cmp_2ei43)))&1);
  if (v_28) { p_cmp1063 = v_cmp10_2elcssa; goto L_cleanup26; } else { p_i_2e09_2ei46 = ((u64)0ULL); goto L_for_2ebody_2ei50; }
 L_for_2ebody_2ei50: ;
  v_i_2e09_2ei46 = p_i_2e09_2ei46;
  v_29 = *(u8**)v_0;
  v__M_in_cur_2ei_2ei4_2ei47 = (v_29 + (16));
  v_30 = *(u8**)v__M_in_cur_2ei_2ei4_2ei47;
  v__M_in_end_2ei_2ei5_2ei48 = (v_29 + (24));
  v_31 = *(u8**)v__M_in_end_2ei_2ei5_2ei48;
  v_cmp_2ei_2ei49 = ((u8)((u64)v_30 < (u64)v_31));
  if (v_cmp_2ei_2ei49) {  goto L_if_2ethen_2ei_2ei52; } else {  goto L_if_2eelse_2ei_2ei56; }
 L_if_2eelse_2ei_2ei56: ;
  v_32 = v_29;
  v_vtable_2ei6_2ei53 = *(u8**)v_32;
  v_vfn_2ei7_2ei54 = (v_vtable_2ei6_2ei53 + (80));
  v_33 = *(u8**)v_vfn_2ei7_2ei54;
  { u8* fp_ = v_33;
    if (fp_ == (u8*)_ZNSt15basic_streambufIcSt11char_traitsIcEE5uflowEv) { v_call5_2ei_2ei55 = _ZNSt15basic_streambufIcSt11char_traitsIcEE5uflowEv(v_29); } else
    { v_call5_2ei_2ei55 = __ir_indirect_ru32_u8p(fp_, v_29); } }
  v_call5_2ei_2ei55 = v_call5_2ei_2ei55;
  if (__ir_exc_pending) return ((u8)0);
   goto L__ZNSt15basic_streambufIcSt11char_traitsIcEE6sbumpcEv_2eexit_2ei59;
 L_if_2ethen_2ei_2ei52: ;
  v_add_2eptr_2ei_2ei_2ei51 = (v_30 + (1));
  *(u8**)v__M_in_cur_2ei_2ei4_2ei47 = v_add_2eptr_2ei_2ei_2ei51;
   goto L__ZNSt15basic_streambufIcSt11char_traitsIcEE6sbumpcEv_2eexit_2ei59;
 L__ZNSt15basic_streambufIcSt11char_traitsIcEE6sbumpcEv_2eexit_2ei59: ;
  v_inc_2ei57 = ((u64)((u64)v_i_2e09_2ei46 + (u64)((u64)1ULL)));
  v_exitcond_2enot_2ei58 = ((u8)(v_inc_2ei57 == v_len));
  if (v_exitcond_2enot_2ei58) { p_cmp1063 = v_cmp10_2elcssa; goto L_cleanup26; } else { p_i_2e09_2ei46 = v_inc_2ei57; goto L_for_2ebody_2ei50; /*LOOPBACK d=0 nest=0*/ }
 L_cleanup26: ;
  v_cmp1063 = p_cmp1063;
  v_34 = ((((u8)((u64)v_cmp1063 ^ (u64)((u8)1ULL))))&1);
  p_retval_2e4 = v_34; goto L_return;
 L_if_2ethen2: ;
  v_call4 = x_strncmp(v_7, v_str, v_len);
  if (__ir_exc_pending) return ((u8)0);
  v_cmp5 = ((u8)(v_call4 == ((u32)0ULL)));
  if (v_cmp5) {  goto L_if_2ethen6; } else { p_retval_2e4 = ((u8)0ULL); goto L_return; }
 L_if_2ethen6: ;
  v_8 = *(u8**)v_0;
  v__M_in_end_2ei_2ei_2ei19 = (v_8 + (24));
  v_9 = *(u8**)v__M_in_end_2ei_2ei_2ei19;
  v__M_in_cur_2ei_2ei_2ei20 = (v_8 + (16));
  v_10 = *(u8**)v__M_in_cur_2ei_2ei_2ei20;
  v_sub_2eptr_2elhs_2ecast_2ei_2ei21 = ((u64)(u64)v_9);
  v_sub_2eptr_2erhs_2ecast_2ei_2ei22 = ((u64)(u64)v_10);
  v_sub_2eptr_2esub_2ei_2ei23 = __IR_PTRDIFF(v_9, v_10);
  v_tobool_2enot_2ei_2ei24 = ((u8)(v_sub_2eptr_2esub_2ei_2ei23 == ((u64)0ULL)));
  if (v_tobool_2enot_2ei_2ei24) {  goto L_cond_2efalse_2ei_2ei28; } else { p_cond_2ei_2ei29 = v_sub_2eptr_2esub_2ei_2ei23; goto L__ZNSt15basic_streambufIcSt11char_traitsIcEE8in_availEv_2eexit_2ei; }
 L_cond_2efalse_2ei_2ei28: ;
  v_11 = v_8;
  v_vtable_2ei_2ei25 = *(u8**)v_11;
  v_vfn_2ei_2ei26 = (v_vtable_2ei_2ei25 + (56));
  v_12 = *(u8**)v_vfn_2ei_2ei26;
  { u8* fp_ = v_12;
    if (fp_ == (u8*)_ZNSt15basic_streambufIcSt11char_traitsIcEE9showmanycEv) { v_call3_2ei_2ei27 = _ZNSt15basic_streambufIcSt11char_traitsIcEE9showmanycEv(v_8); } else
    { v_call3_2ei_2ei27 = __ir_indirect_ru64_u8p(fp_, v_8); } }
  v_call3_2ei_2ei27 = v_call3_2ei_2ei27;
  if (__ir_exc_pending) return ((u8)0);
  p_cond_2ei_2ei29 = v_call3_2ei_2ei27; goto L__ZNSt15basic_streambufIcSt11char_traitsIcEE8in_availEv_2eexit_2ei;
 L__ZNSt15basic_streambufIcSt11char_traitsIcEE8in_availEv_2eexit_2ei: ;
  v_cond_2ei_2ei29 = p_cond_2ei_2ei29;
  v_cmp_2ei = ((u8)(((i64)v_cond_2ei_2ei29) < ((i64)v_len)));
  v_cmp28_2ei = ((u8)(v_len == ((u64)0ULL)));
  v_13 = ((((u8)((u64)v_cmp28_2ei | (u64)v_cmp_2ei)))&1);
  if (v_13) { p_retval_2e4 = ((u8)1ULL); goto L_return; } else { p_i_2e09_2ei = ((u64)0ULL); goto L_for_2ebody_2ei; }
 L_for_2ebody_2ei: ;
  v_i_2e09_2ei = p_i_2e09_2ei;
  v_14 = *(u8**)v_0;
  v__M_in_cur_2ei_2ei4_2ei = (v_14 + (16));
  v_15 = *(u8**)v__M_in_cur_2ei_2ei4_2ei;
  v__M_in_end_2ei_2ei5_2ei = (v_14 + (24));
  v_16 = *(u8**)v__M_in_end_2ei_2ei5_2ei;
  v_cmp_2ei_2ei = ((u8)((u64)v_15 < (u64)v_16));
  if (v_cmp_2ei_2ei) {  goto L_if_2ethen_2ei_2ei; } else {  goto L_if_2eelse_2ei_2ei; }
 L_if_2eelse_2ei_2ei: ;
  v_17 = v_14;
  v_vtable_2ei6_2ei = *(u8**)v_17;
  v_vfn_2ei7_2ei = (v_vtable_2ei6_2ei + (80));
  v_18 = *(u8**)v_vfn_2ei7_2ei;
  { u8* fp_ = v_18;
    if (fp_ == (u8*)_ZNSt15basic_streambufIcSt11char_traitsIcEE5uflowEv) { v_call5_2ei_2ei = _ZNSt15basic_streambufIcSt11char_traitsIcEE5uflowEv(v_14); } else
    { v_call5_2ei_2ei = __ir_indirect_ru32_u8p(fp_, v_14); } }
  v_call5_2ei_2ei = v_call5_2ei_2ei;
  if (__ir_exc_pending) return ((u8)0);
   goto L__ZNSt15basic_streambufIcSt11char_traitsIcEE6sbumpcEv_2eexit_2ei;
 L_if_2ethen_2ei_2ei: ;
  v_add_2eptr_2ei_2ei_2ei = (v_15 + (1));
  *(u8**)v__M_in_cur_2ei_2ei4_2ei = v_add_2eptr_2ei_2ei_2ei;
   goto L__ZNSt15basic_streambufIcSt11char_traitsIcEE6sbumpcEv_2eexit_2ei;
 L__ZNSt15basic_streambufIcSt11char_traitsIcEE6sbumpcEv_2eexit_2ei: ;
  v_inc_2ei = ((u64)((u64)v_i_2e09_2ei + (u64)((u64)1ULL)));
  v_exitcond_2enot_2ei = ((u8)(v_inc_2ei == v_len));
  if (v_exitcond_2enot_2ei) { p_retval_2e4 = ((u8)1ULL); goto L_return; } else { p_i_2e09_2ei = v_inc_2ei; goto L_for_2ebody_2ei; /*LOOPBACK d=0 nest=0*/ }
 L_return: ;
  v_retval_2e4 = p_retval_2e4;
  return v_retval_2e4;
}

void _ZN8Pistache4Http12_GLOBAL__N_110matchValueERNS_12StreamCursorE(u8* v_agg_2eresult, u8* v_cursor) {
  u8* v_ref_2etmp_2ei;
  u8* v_0;
  u8* v_1;
  u8* v__M_in_cur_2ei_2ei_2ei;
  u8* v_2;
  u8* v__M_in_end_2ei_2ei_2ei;
  u8* v_3;
  u8 v_cmp_2ei_2ei;
  u8 v_4;
  u32 v_conv_2ei_2ei_2ei;
  u8* v_5;
  u8* v_vtable_2ei_2ei;
  u8* v_vfn_2ei_2ei;
  u8* v_6;
  u32 v_call5_2ei_2ei;
  u32 v___ret_2e0_2ei_2ei;
  u32 p___ret_2e0_2ei_2ei;
  u8 v_conv_2ei;
  u8* v_exception;
  u8* v_7;
  agg0 v_8;
  u8* v_9;
  u8* v__M_in_end_2ei_2ei_2ei7;
  u8* v_10;
  u8* v__M_in_cur_2ei_2ei_2ei8;
  u8* v_11;
  u64 v_sub_2eptr_2elhs_2ecast_2ei_2ei;
  u64 v_sub_2eptr_2erhs_2ecast_2ei_2ei;
  u64 v_sub_2eptr_2esub_2ei_2ei;
  u8 v_tobool_2enot_2ei_2ei;
  u8* v_12;
  u8* v_vtable_2ei_2ei9;
  u8* v_vfn_2ei_2ei10;
  u8* v_13;
  u64 v_call3_2ei_2ei;
  u64 v_cond_2ei_2ei;
  u64 p_cond_2ei_2ei;
  u8 v_cmp_2ei;
  u8* v_14;
  u8* v__M_in_cur_2ei_2ei4_2ei;
  u8* v_15;
  u8* v__M_in_end_2ei_2ei5_2ei;
  u8* v_16;
  u8 v_cmp_2ei_2ei11;
  u8* v_add_2eptr_2ei_2ei_2ei;
  u8* v_17;
  u8* v_vtable_2ei6_2ei;
  u8* v_vfn_2ei7_2ei;
  u8* v_18;
  u32 v_call5_2ei_2ei13;
  u8* v_exception4;
  u8* v_19;
  agg0 v_20;
  u8* v_cursor_2ei;
  u8* v_position_2ei;
  u8* v_buf_2ei;
  u8* v_21;
  u8* v__M_in_cur_2ei_2ei_2ei15;
  u8* v_22;
  u8* v__M_in_beg_2ei_2ei_2ei;
  u8* v_23;
  u64 v_sub_2eptr_2elhs_2ecast_2ei_2ei16;
  u64 v_sub_2eptr_2erhs_2ecast_2ei_2ei17;
  u64 v_sub_2eptr_2esub_2ei_2ei18;
  u8* v_eback_2ei;
  u8* v_gptr_2ei;
  u8* v_egptr_2ei;
  u8* v__M_in_end_2ei_2ei_2ei19;
  u8* v_24;
  u8* v_25;
  u8 v_call_2ei;
  u8* v_exception4_2esink;
  u8* p_exception4_2esink;
  agg0 v__2epn;
  agg0 p__2epn;
 L_entry: ;
  static u8 a_ref_2etmp_2ei_dummy; u8 a_ref_2etmp_2ei[1] __attribute__((aligned(1))); v_ref_2etmp_2ei = a_ref_2etmp_2ei;
  v_0 = v_cursor;
  v_1 = *(u8**)v_0;
  v__M_in_cur_2ei_2ei_2ei = (v_1 + (16));
  v_2 = *(u8**)v__M_in_cur_2ei_2ei_2ei;
  v__M_in_end_2ei_2ei_2ei = (v_1 + (24));
  v_3 = *(u8**)v__M_in_end_2ei_2ei_2ei;
  v_cmp_2ei_2ei = ((u8)((u64)v_2 < (u64)v_3));
  if (v_cmp_2ei_2ei) {  goto L_if_2ethen_2ei_2ei; } else {  goto L_if_2eelse_2ei_2ei; }
 L_if_2eelse_2ei_2ei: ;
  v_5 = v_1;
  v_vtable_2ei_2ei = *(u8**)v_5;
  v_vfn_2ei_2ei = (v_vtable_2ei_2ei + (72));
  v_6 = *(u8**)v_vfn_2ei_2ei;
  { u8* fp_ = v_6;
    if (fp_ == (u8*)_ZNSt15basic_streambufIcSt11char_traitsIcEE9underflowEv) { v_call5_2ei_2ei = _ZNSt15basic_streambufIcSt11char_traitsIcEE9underflowEv(v_1); } else
    { v_call5_2ei_2ei = __ir_indirect_ru32_u8p(fp_, v_1); } }
  v_call5_2ei_2ei = v_call5_2ei_2ei;
  if (__ir_exc_pending) return;
  p___ret_2e0_2ei_2ei = v_call5_2ei_2ei; goto L__ZNK8Pistache12StreamCursor7currentEv_2eexit;
 L_if_2ethen_2ei_2ei: ;
  v_4 = *(u8*)v_2;
  v_conv_2ei_2ei_2ei = ((u32)v_4);
  p___ret_2e0_2ei_2ei = v_conv_2ei_2ei_2ei; goto L__ZNK8Pistache12StreamCursor7currentEv_2eexit;
 L__ZNK8Pistache12StreamCursor7currentEv_2eexit: ;
  v___ret_2e0_2ei_2ei = p___ret_2e0_2ei_2ei;
  v_conv_2ei = ((u8)v___ret_2e0_2ei_2ei);
  switch (v_conv_2ei) {
   case ((u8)255ULL): {  goto L_if_2eend; }
   case ((u8)61ULL): {  goto L_if_2eend; }
   default: {  goto L_if_2ethen; } }
 L_if_2eend: ;
  v_9 = *(u8**)v_0;
  v__M_in_end_2ei_2ei_2ei7 = (v_9 + (24));
  v_10 = *(u8**)v__M_in_end_2ei_2ei_2ei7;
  v__M_in_cur_2ei_2ei_2ei8 = (v_9 + (16));
  v_11 = *(u8**)v__M_in_cur_2ei_2ei_2ei8;
  v_sub_2eptr_2elhs_2ecast_2ei_2ei = ((u64)(u64)v_10);
  v_sub_2eptr_2erhs_2ecast_2ei_2ei = ((u64)(u64)v_11);
  v_sub_2eptr_2esub_2ei_2ei = __IR_PTRDIFF(v_10, v_11);
  v_tobool_2enot_2ei_2ei = ((u8)(v_sub_2eptr_2esub_2ei_2ei == ((u64)0ULL)));
  if (v_tobool_2enot_2ei_2ei) {  goto L_cond_2efalse_2ei_2ei; } else { p_cond_2ei_2ei = v_sub_2eptr_2esub_2ei_2ei; goto L__ZNSt15basic_streambufIcSt11char_traitsIcEE8in_availEv_2eexit_2ei; }
 L_cond_2efalse_2ei_2ei: ;
  v_12 = v_9;
  v_vtable_2ei_2ei9 = *(u8**)v_12;
  v_vfn_2ei_2ei10 = (v_vtable_2ei_2ei9 + (56));
  v_13 = *(u8**)v_vfn_2ei_2ei10;
  { u8* fp_ = v_13;
    if (fp_ == (u8*)_ZNSt15basic_streambufIcSt11char_traitsIcEE9showmanycEv) { v_call3_2ei_2ei = _ZNSt15basic_streambufIcSt11char_traitsIcEE9showmanycEv(v_9); } else
    { v_call3_2ei_2ei = __ir_indirect_ru64_u8p(fp_, v_9); } }
  v_call3_2ei_2ei = v_call3_2ei_2ei;
  if (__ir_exc_pending) return;
  p_cond_2ei_2ei = v_call3_2ei_2ei; goto L__ZNSt15basic_streambufIcSt11char_traitsIcEE8in_availEv_2eexit_2ei;
 L__ZNSt15basic_streambufIcSt11char_traitsIcEE8in_availEv_2eexit_2ei: ;
  v_cond_2ei_2ei = p_cond_2ei_2ei;
  v_cmp_2ei = ((u8)(((i64)v_cond_2ei_2ei) < ((i64)((u64)1ULL))));
  if (v_cmp_2ei) {  goto L_if_2ethen3; } else {  goto L_for_2ebody_2ei; }
 L_for_2ebody_2ei: ;
  v_14 = *(u8**)v_0;
  v__M_in_cur_2ei_2ei4_2ei = (v_14 + (16));
  v_15 = *(u8**)v__M_in_cur_2ei_2ei4_2ei;
  v__M_in_end_2ei_2ei5_2ei = (v_14 + (24));
  v_16 = *(u8**)v__M_in_end_2ei_2ei5_2ei;
  v_cmp_2ei_2ei11 = ((u8)((u64)v_15 < (u64)v_16));
  if (v_cmp_2ei_2ei11) {  goto L_if_2ethen_2ei_2ei12; } else {  goto L_if_2eelse_2ei_2ei14; }
 L_if_2eelse_2ei_2ei14: ;
  v_17 = v_14;
  v_vtable_2ei6_2ei = *(u8**)v_17;
  v_vfn_2ei7_2ei = (v_vtable_2ei6_2ei + (80));
  v_18 = *(u8**)v_vfn_2ei7_2ei;
  { u8* fp_ = v_18;
    if (fp_ == (u8*)_ZNSt15basic_streambufIcSt11char_traitsIcEE5uflowEv) { v_call5_2ei_2ei13 = _ZNSt15basic_streambufIcSt11char_traitsIcEE5uflowEv(v_14); } else
    { v_call5_2ei_2ei13 = __ir_indirect_ru32_u8p(fp_, v_14); } }
  v_call5_2ei_2ei13 = v_call5_2ei_2ei13;
  if (__ir_exc_pending) return;
   goto L__ZN8Pistache12StreamCursor7advanceEm_2eexit;
 L_if_2ethen_2ei_2ei12: ;
  v_add_2eptr_2ei_2ei_2ei = (v_15 + (1));
  *(u8**)v__M_in_cur_2ei_2ei4_2ei = v_add_2eptr_2ei_2ei_2ei;
   goto L__ZN8Pistache12StreamCursor7advanceEm_2eexit;
 L__ZN8Pistache12StreamCursor7advanceEm_2eexit: ;
  if (v_cmp_2ei) {  goto L_if_2ethen3; } else {  goto L_if_2eend7; }
 L_if_2eend7: ;
  v_cursor_2ei = v_agg_2eresult;
  *(u8**)v_cursor_2ei = v_cursor;
  v_position_2ei = (v_agg_2eresult + (8));
  v_buf_2ei = v_cursor;
  v_21 = *(u8**)v_buf_2ei;
  v__M_in_cur_2ei_2ei_2ei15 = (v_21 + (16));
  v_22 = *(u8**)v__M_in_cur_2ei_2ei_2ei15;
  v__M_in_beg_2ei_2ei_2ei = (v_21 + (8));
  v_23 = *(u8**)v__M_in_beg_2ei_2ei_2ei;
  v_sub_2eptr_2elhs_2ecast_2ei_2ei16 = ((u64)(u64)v_22);
  v_sub_2eptr_2erhs_2ecast_2ei_2ei17 = ((u64)(u64)v_23);
  v_sub_2eptr_2esub_2ei_2ei18 = __IR_PTRDIFF(v_22, v_23);
  *(u64*)v_position_2ei = v_sub_2eptr_2esub_2ei_2ei18;
  v_eback_2ei = (v_agg_2eresult + (16));
  *(u8**)v_eback_2ei = v_23;
  v_gptr_2ei = (v_agg_2eresult + (24));
  *(u8**)v_gptr_2ei = v_22;
  v_egptr_2ei = (v_agg_2eresult + (32));
  v__M_in_end_2ei_2ei_2ei19 = (v_21 + (24));
  v_24 = *(u8**)v__M_in_end_2ei_2ei_2ei19;
  *(u8**)v_egptr_2ei = v_24;
  v_25 = v_ref_2etmp_2ei;
  *(u8*)v_25 = ((u8)59ULL);
  v_call_2ei = _ZN8Pistache11match_untilESt16initializer_listIcERNS_12StreamCursorENS_15CaseSensitivityE(v_25, ((u64)1ULL), v_cursor, ((u32)1ULL));
  if (__ir_exc_pending) return;
  return;
 L_if_2ethen3: ;
  v_exception4 = __cxa_allocate_exception(((u64)16ULL));
  if (__ir_exc_pending) return;
  v_19 = v_exception4;
  _ZNSt13runtime_errorC1EPKc(v_19, ((u8*)&_2estr_2e18));
  if (__ir_exc_pending) {  goto L_lpad5; } else {  goto L_invoke_2econt6; }
 L_lpad5: ;
  __ir_landingpad((u8*)&v_20);
  __ir_lp_select((u8*)&v_20, 0, (u8*[]){0});
  p_exception4_2esink = v_exception4; p__2epn = v_20; goto L_ehcleanup;
 L_invoke_2econt6: ;
  __cxa_throw(v_exception4, ((u8*)&_ZTISt13runtime_error), ((u8*)_ZNSt13runtime_errorD1Ev));
  if (__ir_exc_pending) return;
  __ir_unreachable();
 L_if_2ethen: ;
  v_exception = __cxa_allocate_exception(((u64)16ULL));
  if (__ir_exc_pending) return;
  v_7 = v_exception;
  _ZNSt13runtime_errorC1EPKc(v_7, ((u8*)&_2estr_2e17));
  if (__ir_exc_pending) {  goto L_lpad; } else {  goto L_invoke_2econt; }
 L_lpad: ;
  __ir_landingpad((u8*)&v_8);
  __ir_lp_select((u8*)&v_8, 0, (u8*[]){0});
  p_exception4_2esink = v_exception; p__2epn = v_8; goto L_ehcleanup;
 L_ehcleanup: ;
  v_exception4_2esink = p_exception4_2esink;
  v__2epn = p__2epn;
  __cxa_free_exception(v_exception4_2esink);
  if (__ir_exc_pending) return;
  __ir_resume(*(u8**)&v__2epn); return;
 L_invoke_2econt: ;
  __cxa_throw(v_exception, ((u8*)&_ZTISt13runtime_error), ((u8*)_ZNSt13runtime_errorD1Ev));
  if (__ir_exc_pending) return;
  __ir_unreachable();
}

void _ZN8Pistache4Http6CookieD2Ev(u8* v_this) {
  u8* v_ext;
  u8* v_0;
  u8* v_1;
  u8* v_value;
  u8* v_name;
 L_entry: ;
  v_ext = (v_this + (176));
  _ZNSt3mapINSt7__cxx1112basic_stringIcSt11char_traitsIcESaIcEEES5_St4lessIS5_ESaISt4pairIKS5_S5_EEED2Ev(v_ext);
  if (__ir_exc_pending) return;
  v_0 = (v_this + (104));
  _ZNSt14_Optional_baseINSt7__cxx1112basic_stringIcSt11char_traitsIcESaIcEEELb0ELb0EED2Ev(v_0);
  if (__ir_exc_pending) return;
  v_1 = (v_this + (64));
  _ZNSt14_Optional_baseINSt7__cxx1112basic_stringIcSt11char_traitsIcESaIcEEELb0ELb0EED2Ev(v_1);
  if (__ir_exc_pending) return;
  v_value = (v_this + (32));
  _ZNSt7__cxx1112basic_stringIcSt11char_traitsIcESaIcEED2Ev(v_value);
  if (__ir_exc_pending) return;
  v_name = v_this;
  _ZNSt7__cxx1112basic_stringIcSt11char_traitsIcESaIcEED2Ev(v_name);
  if (__ir_exc_pending) return;
  return;
}

void _ZN8Pistache4Http9CookieJar3addERKNS0_6CookieE(u8* v_this, u8* v_cookie) {
  u8* v_cookieName;
  u8* v_cookieValue;
  u8* v_it;
  u8* v_ref_2etmp;
  u8* v_hashmapWithFirstCookie;
  u8* v_ref_2etmp10;
  u8* v_ref_2etmp17;
  u8* v_ref_2etmp29;
  u8* v_0;
  u8* v_name;
  u8* v_1;
  u8* v_value;
  u8* v_2;
  u8* v_cookies;
  u8* v_call;
  u8* v_coerce_2edive4;
  u8* v_3;
  u8* v_4;
  u8* v_call6;
  u8* v_coerce_2edive8;
  u8* v_5;
  u8 v_call9;
  u8* v_6;
  u8* v_7;
  agg0 v_call15;
  u8* v_8;
  agg0 v_call22;
  agg0 v_9;
  agg0 v_10;
  agg0 v_11;
  agg0 v_12;
  agg0 v__2epn5;
  agg0 p__2epn5;
  agg0 v_13;
  agg0 v_14;
  agg0 v__2epn7;
  agg0 p__2epn7;
  agg0 v__2epn7_2epn;
  agg0 p__2epn7_2epn;
  u8* v_call28;
  u8* v_15;
  u8* v_second;
  agg0 v_call34;
  agg0 v_16;
  agg0 v_17;
  agg0 v__2epn;
  agg0 p__2epn;
  agg0 v__2epn7_2epn_2epn;
  agg0 p__2epn7_2epn_2epn;
  agg0 v__2epn7_2epn_2epn_2epn;
  agg0 p__2epn7_2epn_2epn_2epn;
 L_entry: ;
  static u8 a_cookieName_dummy; u8 a_cookieName[32] __attribute__((aligned(8))); v_cookieName = a_cookieName;
  static u8 a_cookieValue_dummy; u8 a_cookieValue[32] __attribute__((aligned(8))); v_cookieValue = a_cookieValue;
  static u8 a_it_dummy; u8 a_it[8] __attribute__((aligned(8))); v_it = a_it;
  static u8 a_ref_2etmp_dummy; u8 a_ref_2etmp[8] __attribute__((aligned(8))); v_ref_2etmp = a_ref_2etmp;
  static u8 a_hashmapWithFirstCookie_dummy; u8 a_hashmapWithFirstCookie[56] __attribute__((aligned(8))); v_hashmapWithFirstCookie = a_hashmapWithFirstCookie;
  static u8 a_ref_2etmp10_dummy; u8 a_ref_2etmp10[256] __attribute__((aligned(8))); v_ref_2etmp10 = a_ref_2etmp10;
  static u8 a_ref_2etmp17_dummy; u8 a_ref_2etmp17[88] __attribute__((aligned(8))); v_ref_2etmp17 = a_ref_2etmp17;
  static u8 a_ref_2etmp29_dummy; u8 a_ref_2etmp29[256] __attribute__((aligned(8))); v_ref_2etmp29 = a_ref_2etmp29;
  v_0 = v_cookieName;
  v_name = v_cookie;
  _ZNSt7__cxx1112basic_stringIcSt11char_traitsIcESaIcEEC2ERKS4_(v_cookieName, v_name);
  if (__ir_exc_pending) return;
  v_1 = v_cookieValue;
  v_value = (v_cookie + (32));
  _ZNSt7__cxx1112basic_stringIcSt11char_traitsIcESaIcEEC2ERKS4_(v_cookieValue, v_value);
  if (__ir_exc_pending) {  goto L_lpad; } else {  goto L_invoke_2econt; }
 L_lpad: ;
  __ir_landingpad((u8*)&v_9);
  __ir_lp_select((u8*)&v_9, 0, (u8*[]){0});
  p__2epn7_2epn_2epn_2epn = v_9; goto L_ehcleanup40;
 L_invoke_2econt: ;
  v_2 = v_it;
  v_cookies = v_this;
  v_call = _ZNSt13unordered_mapINSt7__cxx1112basic_stringIcSt11char_traitsIcESaIcEEES_IS5_N8Pistache4Http6CookieESt4hashIS5_ESt8equal_toIS5_ESaISt4pairIKS5_S8_EEESA_SC_SaISD_ISE_SH_EEE4findERSE_(v_cookies, v_cookieName);
  if (__ir_exc_pending) {  goto L_lpad2; } else {  goto L_invoke_2econt3; }
 L_lpad2: ;
  __ir_landingpad((u8*)&v_10);
  __ir_lp_select((u8*)&v_10, 0, (u8*[]){0});
  p__2epn7_2epn_2epn = v_10; goto L_ehcleanup38;
 L_invoke_2econt3: ;
  v_coerce_2edive4 = v_it;
  *(u8**)v_coerce_2edive4 = v_call;
  v_3 = v_it;
  v_4 = v_ref_2etmp;
  v_call6 = _ZNSt13unordered_mapINSt7__cxx1112basic_stringIcSt11char_traitsIcESaIcEEES_IS5_N8Pistache4Http6CookieESt4hashIS5_ESt8equal_toIS5_ESaISt4pairIKS5_S8_EEESA_SC_SaISD_ISE_SH_EEE3endEv(v_cookies);
  if (__ir_exc_pending) return;
  v_coerce_2edive8 = v_ref_2etmp;
  *(u8**)v_coerce_2edive8 = v_call6;
  v_5 = v_ref_2etmp;
  v_call9 = _ZNSt8__detaileqERKNS_19_Node_iterator_baseISt4pairIKNSt7__cxx1112basic_stringIcSt11char_traitsIcESaIcEEESt13unordered_mapIS7_N8Pistache4Http6CookieESt4hashIS7_ESt8equal_toIS7_ESaIS1_IS8_SC_EEEELb1EEESN_(v_3, v_5);
  if (__ir_exc_pending) return;
  if (v_call9) {  goto L_if_2ethen; } else {  goto L_if_2eelse; }
 L_if_2eelse: ;
  v_call28 = _ZNKSt8__detail14_Node_iteratorISt4pairIKNSt7__cxx1112basic_stringIcSt11char_traitsIcESaIcEEESt13unordered_mapIS7_N8Pistache4Http6CookieESt4hashIS7_ESt8equal_toIS7_ESaIS1_IS8_SC_EEEELb0ELb1EEptEv(v_it);
  if (__ir_exc_pending) return;
  v_15 = v_ref_2etmp29;
  _ZSt9make_pairIRNSt7__cxx1112basic_stringIcSt11char_traitsIcESaIcEEERKN8Pistache4Http6CookieEESt4pairINSt25__strip_reference_wrapperINSt5decayIT_E4typeEE6__typeENSD_INSE_IT0_E4typeEE6__typeEEOSF_OSK_(v_ref_2etmp29, v_cookieValue, v_cookie);
  if (__ir_exc_pending) {  goto L_lpad30; } else {  goto L_invoke_2econt31; }
 L_lpad30: ;
  __ir_landingpad((u8*)&v_16);
  __ir_lp_select((u8*)&v_16, 0, (u8*[]){0});
  p__2epn = v_16; goto L_ehcleanup37;
 L_invoke_2econt31: ;
  v_second = (v_call28 + (32));
  v_call34 = _ZNSt13unordered_mapINSt7__cxx1112basic_stringIcSt11char_traitsIcESaIcEEEN8Pistache4Http6CookieESt4hashIS5_ESt8equal_toIS5_ESaISt4pairIKS5_S8_EEE6insertISD_IS5_S8_EEENSt9enable_ifIXsr16is_constructibleISF_OT_EE5valueESD_INSt8__detail14_Node_iteratorISF_Lb0ELb1EEEbEE4typeESM_(v_second, v_ref_2etmp29);
  if (__ir_exc_pending) {  goto L_lpad32; } else {  goto L_invoke_2econt33; }
 L_lpad32: ;
  __ir_landingpad((u8*)&v_17);
  __ir_lp_select((u8*)&v_17, 0, (u8*[]){0});
  _ZNSt4pairINSt7__cxx1112basic_stringIcSt11char_traitsIcESaIcEEEN8Pistache4Http6CookieEED2Ev(v_ref_2etmp29);
  if (__ir_exc_pending) return;
  p__2epn = v_17; goto L_ehcleanup37;
 L_ehcleanup37: ;
  v__2epn = p__2epn;
  p__2epn7_2epn_2epn = v__2epn; goto L_ehcleanup38;
 L_invoke_2econt33: ;
  _ZNSt4pairINSt7__cxx1112basic_stringIcSt11char_traitsIcESaIcEEEN8Pistache4Http6CookieEED2Ev(v_ref_2etmp29);
  if (__ir_exc_pending) return;
   goto L_if_2eend;
 L_if_2ethen: ;
  v_6 = v_hashmapWithFirstCookie;
  _ZNSt13unordered_mapINSt7__cxx1112basic_stringIcSt11char_traitsIcESaIcEEEN8Pistache4Http6CookieESt4hashIS5_ESt8equal_toIS5_ESaISt4pairIKS5_S8_EEEC2Ev(v_hashmapWithFirstCookie);
  if (__ir_exc_pending) return;
  v_7 = v_ref_2etmp10;
  _ZSt9make_pairIRNSt7__cxx1112basic_stringIcSt11char_traitsIcESaIcEEERKN8Pistache4Http6CookieEESt4pairINSt25__strip_reference_wrapperINSt5decayIT_E4typeEE6__typeENSD_INSE_IT0_E4typeEE6__typeEEOSF_OSK_(v_ref_2etmp10, v_cookieValue, v_cookie);
  if (__ir_exc_pending) {  goto L_lpad11; } else {  goto L_invoke_2econt12; }
 L_lpad11: ;
  __ir_landingpad((u8*)&v_11);
  __ir_lp_select((u8*)&v_11, 0, (u8*[]){0});
  p__2epn5 = v_11; goto L_ehcleanup;
 L_invoke_2econt12: ;
  v_call15 = _ZNSt13unordered_mapINSt7__cxx1112basic_stringIcSt11char_traitsIcESaIcEEEN8Pistache4Http6CookieESt4hashIS5_ESt8equal_toIS5_ESaISt4pairIKS5_S8_EEE6insertISD_IS5_S8_EEENSt9enable_ifIXsr16is_constructibleISF_OT_EE5valueESD_INSt8__detail14_Node_iteratorISF_Lb0ELb1EEEbEE4typeESM_(v_hashmapWithFirstCookie, v_ref_2etmp10);
  if (__ir_exc_pending) {  goto L_lpad13; } else {  goto L_invoke_2econt14; }
 L_lpad13: ;
  __ir_landingpad((u8*)&v_12);
  __ir_lp_select((u8*)&v_12, 0, (u8*[]){0});
  _ZNSt4pairINSt7__cxx1112basic_stringIcSt11char_traitsIcESaIcEEEN8Pistache4Http6CookieEED2Ev(v_ref_2etmp10);
  if (__ir_exc_pending) return;
  p__2epn5 = v_12; goto L_ehcleanup;
 L_ehcleanup: ;
  v__2epn5 = p__2epn5;
  p__2epn7_2epn = v__2epn5; goto L_ehcleanup26;
 L_invoke_2econt14: ;
  _ZNSt4pairINSt7__cxx1112basic_stringIcSt11char_traitsIcESaIcEEEN8Pistache4Http6CookieEED2Ev(v_ref_2etmp10);
  if (__ir_exc_pending) return;
  v_8 = v_ref_2etmp17;
  _ZSt9make_pairIRNSt7__cxx1112basic_stringIcSt11char_traitsIcESaIcEEERSt13unordered_mapIS5_N8Pistache4Http6CookieESt4hashIS5_ESt8equal_toIS5_ESaISt4pairIKS5_SA_EEEESF_INSt25__strip_reference_wrapperINSt5decayIT_E4typeEE6__typeENSL_INSM_IT0_E4typeEE6__typeEEOSN_OSS_(v_ref_2etmp17, v_cookieName, v_hashmapWithFirstCookie);
  if (__ir_exc_pending) {  goto L_lpad18; } else {  goto L_invoke_2econt19; }
 L_lpad18: ;
  __ir_landingpad((u8*)&v_13);
  __ir_lp_select((u8*)&v_13, 0, (u8*[]){0});
  p__2epn7 = v_13; goto L_ehcleanup25;
 L_invoke_2econt19: ;
  v_call22 = _ZNSt13unordered_mapINSt7__cxx1112basic_stringIcSt11char_traitsIcESaIcEEES_IS5_N8Pistache4Http6CookieESt4hashIS5_ESt8equal_toIS5_ESaISt4pairIKS5_S8_EEESA_SC_SaISD_ISE_SH_EEE6insertISD_IS5_SH_EEENSt9enable_ifIXsr16is_constructibleISI_OT_EE5valueESD_INSt8__detail14_Node_iteratorISI_Lb0ELb1EEEbEE4typeESP_(v_cookies, v_ref_2etmp17);
  if (__ir_exc_pending) {  goto L_lpad20; } else {  goto L_invoke_2econt21; }
 L_lpad20: ;
  __ir_landingpad((u8*)&v_14);
  __ir_lp_select((u8*)&v_14, 0, (u8*[]){0});
  _ZNSt4pairINSt7__cxx1112basic_stringIcSt11char_traitsIcESaIcEEESt13unordered_mapIS5_N8Pistache4Http6CookieESt4hashIS5_ESt8equal_toIS5_ESaIS_IKS5_S9_EEEED2Ev(v_ref_2etmp17);
  if (__ir_exc_pending) return;
  p__2epn7 = v_14; goto L_ehcleanup25;
 L_ehcleanup25: ;
  v__2epn7 = p__2epn7;
  p__2epn7_2epn = v__2epn7; goto L_ehcleanup26;
 L_ehcleanup26: ;
  v__2epn7_2epn = p__2epn7_2epn;
  _ZNSt13unordered_mapINSt7__cxx1112basic_stringIcSt11char_traitsIcESaIcEEEN8Pistache4Http6CookieESt4hashIS5_ESt8equal_toIS5_ESaISt4pairIKS5_S8_EEED2Ev(v_hashmapWithFirstCookie);
  if (__ir_exc_pending) return;
  p__2epn7_2epn_2epn = v__2epn7_2epn; goto L_ehcleanup38;
 L_ehcleanup38: ;
  v__2epn7_2epn_2epn = p__2epn7_2epn_2epn;
  _ZNSt7__cxx1112basic_stringIcSt11char_traitsIcESaIcEED2Ev(v_cookieValue);
  if (__ir_exc_pending) return;
  p__2epn7_2epn_2epn_2epn = v__2epn7_2epn_2epn; goto L_ehcleanup40;
 L_ehcleanup40: ;
  v__2epn7_2epn_2epn_2epn = p__2epn7_2epn_2epn_2epn;
  _ZNSt7__cxx1112basic_stringIcSt11char_traitsIcESaIcEED2Ev(v_cookieName);
  if (__ir_exc_pending) return;
  __ir_resume(*(u8**)&v__2epn7_2epn_2epn_2epn); return;
 L_invoke_2econt21: ;
  _ZNSt4pairINSt7__cxx1112basic_stringIcSt11char_traitsIcESaIcEEESt13unordered_mapIS5_N8Pistache4Http6CookieESt4hashIS5_ESt8equal_toIS5_ESaIS_IKS5_S9_EEEED2Ev(v_ref_2etmp17);
  if (__ir_exc_pending) return;
  _ZNSt13unordered_mapINSt7__cxx1112basic_stringIcSt11char_traitsIcESaIcEEEN8Pistache4Http6CookieESt4hashIS5_ESt8equal_toIS5_ESaISt4pairIKS5_S8_EEED2Ev(v_hashmapWithFirstCookie);
  if (__ir_exc_pending) return;
   goto L_if_2eend;
 L_if_2eend: ;
  _ZNSt7__cxx1112basic_stringIcSt11char_traitsIcESaIcEED2Ev(v_cookieValue);
  if (__ir_exc_pending) return;
  _ZNSt7__cxx1112basic_stringIcSt11char_traitsIcESaIcEED2Ev(v_cookieName);
  if (__ir_exc_pending) return;
  return;
}

void _ZN8Pistache12RawStreamBufIcED0Ev(u8* v_this) {
  u8* v_0;
  u8* v__M_buf_locale_2ei;
  u8* v_1;
 L_entry: ;
  v_0 = v_this;
  *(u8**)v_0 = (((u8*)&_ZTVSt15basic_streambufIcSt11char_traitsIcEE) + (16));
  v__M_buf_locale_2ei = (v_this + (56));
  _ZNSt6localeD1Ev(v__M_buf_locale_2ei);
  if (__ir_exc_pending) return;
  v_1 = v_this;
  _ZdlPv(v_1);
  if (__ir_exc_pending) return;
  return;
}
#ifndef VP_DISPATCH_ru64_u8p
u64 __ir_indirect_ru64_u8p(u8* fp, u8* a0) { __ir_bad_indirect(); return (u64)0; }
#endif
#ifndef VP_DISPATCH_ru32_u8p
u32 __ir_indirect_ru32_u8p(u8* fp, u8* a0) { __ir_bad_indirect(); return (u32)0; }
#endif
