
#include <stdint.h>
#include <stddef.h>
typedef uint8_t u8; typedef uint16_t u16; typedef uint32_t u32; typedef uint64_t u64; typedef unsigned __int128 u128;
typedef int8_t i8; typedef int16_t i16; typedef int32_t i32; typedef int64_t i64; typedef __int128 i128;
extern int __ir_exc_pending;
/* (ptrtoint a) - (ptrtoint b) with 64-bit wrap-around: inside one object the difference of the offsets (which CBMC can
 * constant-fold; C pointer subtraction itself is flagged as signed overflow by CBMC 6.11 when the result is negative) */
#ifdef NATIVE
#define __IR_PTRDIFF(a, b) ((u64)(a) - (u64)(b))
#else
#define __IR_PTRDIFF(a, b) (__CPROVER_same_object((a), (b)) ? (u64)__CPROVER_POINTER_OFFSET(a) - (u64)__CPROVER_POINTER_OFFSET(b) : (u64)(a) - (u64)(b))
#endif
void __ir_unreachable(void); void __ir_trap(void);
u8* __ir_memcpy(u8*, u8*, u64); u8* __ir_memmove(u8*, u8*, u64); u8* __ir_memset(u8*, u8, u64);
u8* __ir_memcpy_c(u8*, u8*, u64); u8* __ir_memmove_c(u8*, u8*, u64); u8* __ir_memset_c(u8*, u8, u64);
void __ir_atomic_begin(void); void __ir_atomic_end(void); void __ir_fence(void);
void __ir_resume(u8*); u32 __ir_typeid_for(u8*);
void __ir_lp_select(u8* lp, int n, u8** clauses); void __ir_bad_indirect(void); void __ir_landingpad(u8* lp);
typedef struct { u8 b[16]; } __attribute__((aligned(8))) agg16_8;
void _ZN8Pistache4Http4Mime9MediaType8parseRawEPKcm(u8*, u8*, u64);
void _ZNK8Pistache4Http4Mime9MediaType8toStringB5cxx11Ev(u8*, u8*);
void _ZNK8Pistache4Http4Mime1Q8toStringB5cxx11Ev(u8*, u8*);
void _ZNSt6localeC1Ev(u8*); /* extern */
u8 _ZN8Pistache12StreamCursor7advanceEm(u8*, u64); /* extern */
void _ZNSt7__cxx1112basic_stringIcSt11char_traitsIcESaIcEEC2EPKcmRKS3_(u8*, u8*, u64, u8*); /* stubbed */
u8* _ZNSt7__cxx1112basic_stringIcSt11char_traitsIcESaIcEEaSEOS4_(u8*, u8*); /* stubbed */
void _ZNSt7__cxx1112basic_stringIcSt11char_traitsIcESaIcEED2Ev(u8*); /* stubbed */
u8 _ZN8Pistache12match_stringEPKcmRNS_12StreamCursorENS_15CaseSensitivityE(u8*, u64, u8*, u32); /* extern */
void _ZZN8Pistache4Http4Mime9MediaType8parseRawEPKcmENK3_24_0clES4_(u8*);
u8 _ZN8Pistache13match_literalEcRNS_12StreamCursorENS_15CaseSensitivityE(u8, u8*, u32); /* extern */
u8* __cxa_allocate_exception(u64); /* extern */
void _ZNSt7__cxx1112basic_stringIcSt11char_traitsIcESaIcEEC2IS3_EEPKcRKS3_(u8*, u8*, u8*); /* stubbed */
void _ZN8Pistache4Http9HttpErrorC1ENS0_4CodeENSt7__cxx1112basic_stringIcSt11char_traitsIcESaIcEEE(u8*, u32, u8*); /* extern */
void _ZN8Pistache4Http9HttpErrorD2Ev(u8*);
void __cxa_throw(u8*, u8*, u8*); /* extern */
void __cxa_free_exception(u8*); /* extern */
u8 _ZNK8Pistache12StreamCursor3eofEv(u8*); /* extern */
u8 _ZN8Pistache9match_rawEPKvmRNS_12StreamCursorE(u8*, u64, u8*); /* extern */
u8 _ZN8Pistache11match_untilESt16initializer_listIcERNS_12StreamCursorENS_15CaseSensitivityE(u8*, u64, u8*, u32); /* extern */
u8 _ZNK8Pistache12StreamCursor7currentEv(u8*); /* extern */
u8 _ZN8Pistache11match_untilEcRNS_12StreamCursorENS_15CaseSensitivityE(u8, u8*, u32); /* extern */
u32 _ZNK8Pistache12StreamCursor4nextEv(u8*); /* extern */
void _ZSt9make_pairINSt7__cxx1112basic_stringIcSt11char_traitsIcESaIcEEES5_ESt4pairINSt25__strip_reference_wrapperINSt5decayIT_E4typeEE6__typeENS7_INS8_IT0_E4typeEE6__typeEEOS9_OSE_(u8*, u8*, u8*); /* stubbed */
agg16_8 _ZNSt13unordered_mapINSt7__cxx1112basic_stringIcSt11char_traitsIcESaIcEEES5_St4hashIS5_ESt8equal_toIS5_ESaISt4pairIKS5_S5_EEE6insertISA_IS5_S5_EEENSt9enable_ifIXsr16is_constructibleISC_OT_EE5valueESA_INSt8__detail14_Node_iteratorISC_Lb0ELb1EEEbEE4typeESJ_(u8*, u8*); /* stubbed */
void _ZNSt4pairINSt7__cxx1112basic_stringIcSt11char_traitsIcESaIcEEES5_ED2Ev(u8*); /* stubbed */
u8 _ZN8Pistache12match_doubleEPdRNS_12StreamCursorE(u8*, u8*); /* extern */
u8* _ZNSt8optionalIN8Pistache4Http4Mime1QEEaSIS3_EENSt9enable_ifIX7__and_vISt6__not_ISt7is_sameIS4_NSt9remove_cvINSt16remove_referenceIT_E4typeEE4typeEEES7_ISt6__and_IJSt9is_scalarIS3_ES8_IS3_NSt5decayISB_E4typeEEEEESt16is_constructibleIS3_JSB_EESt13is_assignableIRS3_SB_EEERS4_E4typeEOSB_(u8*, u8*); /* stubbed */
void _ZNSt13runtime_errorC1EPKc(u8*, u8*); /* extern */
void _ZNSt13runtime_errorD1Ev(u8*); /* extern */
void _ZNSt6localeD1Ev(u8*); /* extern */
u8 _ZNKSt7__cxx1112basic_stringIcSt11char_traitsIcESaIcEE5emptyEv(u8*); /* stubbed */
void _ZNSt7__cxx1112basic_stringIcSt11char_traitsIcESaIcEEC2ERKS4_(u8*, u8*); /* stubbed */
void _ZNSt7__cxx1112basic_stringIcSt11char_traitsIcESaIcEEC2Ev(u8*); /* stubbed */
void _ZNSt7__cxx1112basic_stringIcSt11char_traitsIcESaIcEE7reserveEm(u8*, u64); /* extern */
u8* _ZNSt7__cxx1112basic_stringIcSt11char_traitsIcESaIcEEpLEPKc(u8*, u8*); /* stubbed */
u8 _ZNKSt8optionalIN8Pistache4Http4Mime1QEE9has_valueEv(u8*); /* stubbed */
u8* _ZNKSt19_Optional_base_implIN8Pistache4Http4Mime1QESt14_Optional_baseIS3_Lb1ELb1EEE6_M_getEv(u8*); /* stubbed */
u8* _ZNSt7__cxx1112basic_stringIcSt11char_traitsIcESaIcEEpLERKS4_(u8*, u8*); /* stubbed */
u8* _ZNKSt13unordered_mapINSt7__cxx1112basic_stringIcSt11char_traitsIcESaIcEEES5_St4hashIS5_ESt8equal_toIS5_ESaISt4pairIKS5_S5_EEE5beginEv(u8*); /* stubbed */
u8* _ZNKSt13unordered_mapINSt7__cxx1112basic_stringIcSt11char_traitsIcESaIcEEES5_St4hashIS5_ESt8equal_toIS5_ESaISt4pairIKS5_S5_EEE3endEv(u8*); /* stubbed */
u8 _ZNSt8__detailneERKNS_19_Node_iterator_baseISt4pairIKNSt7__cxx1112basic_stringIcSt11char_traitsIcESaIcEEES7_ELb1EEESC_(u8*, u8*); /* stubbed */
u8* _ZNKSt8__detail20_Node_const_iteratorISt4pairIKNSt7__cxx1112basic_stringIcSt11char_traitsIcESaIcEEES7_ELb0ELb1EEdeEv(u8*); /* stubbed */
void _ZStplIcSt11char_traitsIcESaIcEENSt7__cxx1112basic_stringIT_T0_T1_EERKS8_PKS5_(u8*, u8*, u8*); /* stubbed */
void _ZStplIcSt11char_traitsIcESaIcEENSt7__cxx1112basic_stringIT_T0_T1_EEOS8_RKS8_(u8*, u8*, u8*); /* stubbed */
u8* _ZNSt8__detail20_Node_const_iteratorISt4pairIKNSt7__cxx1112basic_stringIcSt11char_traitsIcESaIcEEES7_ELb0ELb1EEppEv(u8*); /* stubbed */
void _ZNSt7__cxx1112basic_stringIcSt11char_traitsIcESaIcEEC2EOS4_(u8*, u8*); /* stubbed */
u32 x_snprintf(u8*, u64, u8*, ...); /* extern */
void _ZNSt15basic_streambufIcSt11char_traitsIcEED2Ev(u8*); /* extern */
void _ZN8Pistache12RawStreamBufIcED0Ev(u8*);
void _ZNSt15basic_streambufIcSt11char_traitsIcEE5imbueERKSt6locale(u8*, u8*); /* extern */
u8* _ZNSt15basic_streambufIcSt11char_traitsIcEE6setbufEPcl(u8*, u8*, u64); /* extern */
agg16_8 _ZNSt15basic_streambufIcSt11char_traitsIcEE7seekoffElSt12_Ios_SeekdirSt13_Ios_Openmode(u8*, u64, u32, u32); /* extern */
agg16_8 _ZNSt15basic_streambufIcSt11char_traitsIcEE7seekposESt4fposI11__mbstate_tESt13_Ios_Openmode(u8*, u64, u64, u32); /* extern */
u32 _ZNSt15basic_streambufIcSt11char_traitsIcEE4syncEv(u8*); /* extern */
u64 _ZNSt15basic_streambufIcSt11char_traitsIcEE9showmanycEv(u8*); /* extern */
u64 _ZNSt15basic_streambufIcSt11char_traitsIcEE6xsgetnEPcl(u8*, u8*, u64); /* extern */
u32 _ZNSt15basic_streambufIcSt11char_traitsIcEE9underflowEv(u8*); /* extern */
u32 _ZNSt15basic_streambufIcSt11char_traitsIcEE5uflowEv(u8*); /* extern */
u32 _ZNSt15basic_streambufIcSt11char_traitsIcEE9pbackfailEi(u8*, u32); /* extern */
u64 _ZNSt15basic_streambufIcSt11char_traitsIcEE6xsputnEPKcl(u8*, u8*, u64); /* extern */
u32 _ZNSt15basic_streambufIcSt11char_traitsIcEE8overflowEi(u8*, u32); /* extern */
void _ZNSt9exceptionD2Ev(u8*); /* extern */
void _ZdlPv(u8*); /* extern */
void _ZN8Pistache4Http9HttpErrorD0Ev(u8*);
u8* _ZNK8Pistache4Http9HttpError4whatEv(u8*);
u8* _ZNKSt7__cxx1112basic_stringIcSt11char_traitsIcESaIcEE5c_strEv(u8*); /* stubbed */
extern u8 _ZTVSt15basic_streambufIcSt11char_traitsIcEE[];
u8 _ZTVN8Pistache12RawStreamBufIcEE[128] __attribute__((aligned(8))) = {0,0,0,0,0,0,0,0,0,0,0,0,0,0,0,0,0,0,0,0,0,0,0,0,0,0,0,0,0,0,0,0,0,0,0,0,0,0,0,0,0,0,0,0,0,0,0,0,0,0,0,0,0,0,0,0,0,0,0,0,0,0,0,0,0,0,0,0,0,0,0,0,0,0,0,0,0,0,0,0,0,0,0,0,0,0,0,0,0,0,0,0,0,0,0,0,0,0,0,0,0,0,0,0,0,0,0,0,0,0,0,0,0,0,0,0,0,0,0,0,0,0,0,0,0,0,0,0};
u8 _2estr_2e11[2] __attribute__((aligned(8))) = {42,0};
u8 _2estr_2e12[5] __attribute__((aligned(8))) = {116,101,120,116,0};
u8 _2estr_2e13[6] __attribute__((aligned(8))) = {105,109,97,103,101,0};
u8 _2estr_2e14[6] __attribute__((aligned(8))) = {97,117,100,105,111,0};
u8 _2estr_2e15[6] __attribute__((aligned(8))) = {118,105,100,101,111,0};
u8 _2estr_2e16[12] __attribute__((aligned(8))) = {97,112,112,108,105,99,97,116,105,111,110,0};
u8 _2estr_2e17[8] __attribute__((aligned(8))) = {109,101,115,115,97,103,101,0};
u8 _2estr_2e18[10] __attribute__((aligned(8))) = {109,117,108,116,105,112,97,114,116,0};
u8 _2estr_2e19[19] __attribute__((aligned(8))) = {85,110,107,110,111,119,110,32,77,101,100,105,97,32,84,121,112,101,0};
u8 _2estr_2e20[56] __attribute__((aligned(8))) = {77,97,108,102,111,114,109,101,100,32,77,101,100,105,97,32,84,121,112,101,44,32,101,120,112,101,99,116,101,100,32,97,32,39,47,39,32,97,102,116,101,114,32,116,104,101,32,116,111,112,32,116,121,112,101,0};
u8 _ZTIN8Pistache4Http9HttpErrorE[24] __attribute__((aligned(8))) = {0,0,0,0,0,0,0,0,0,0,0,0,0,0,0,0,0,0,0,0,0,0,0,0};
u8 _2estr_2e22[5] __attribute__((aligned(8))) = {118,110,100,46,0};
u8 _2estr_2e23[6] __attribute__((aligned(8))) = {112,108,97,105,110,0};
u8 _2estr_2e24[5] __attribute__((aligned(8))) = {104,116,109,108,0};
u8 _2estr_2e25[6] __attribute__((aligned(8))) = {120,104,116,109,108,0};
u8 _2estr_2e26[4] __attribute__((aligned(8))) = {120,109,108,0};
u8 _2estr_2e27[11] __attribute__((aligned(8))) = {106,97,118,97,115,99,114,105,112,116,0};
u8 _2estr_2e28[4] __attribute__((aligned(8))) = {99,115,115,0};
u8 _2estr_2e29[13] __attribute__((aligned(8))) = {111,99,116,101,116,45,115,116,114,101,97,109,0};
u8 _2estr_2e30[5] __attribute__((aligned(8))) = {106,115,111,110,0};
u8 _2estr_2e31[12] __attribute__((aligned(8))) = {115,99,104,101,109,97,43,106,115,111,110,0};
u8 _2estr_2e32[21] __attribute__((aligned(8))) = {115,99,104,101,109,97,45,105,110,115,116,97,110,99,101,43,106,115,111,110,0};
u8 _2estr_2e33[22] __attribute__((aligned(8))) = {120,45,119,119,119,45,102,111,114,109,45,117,114,108,101,110,99,111,100,101,100,0};
u8 _2estr_2e34[10] __attribute__((aligned(8))) = {102,111,114,109,45,100,97,116,97,0};
u8 _2estr_2e6[4] __attribute__((aligned(8))) = {112,110,103,0};
u8 _2estr_2e35[4] __attribute__((aligned(8))) = {103,105,102,0};
u8 _2estr_2e7[4] __attribute__((aligned(8))) = {98,109,112,0};
u8 _2estr_2e5[5] __attribute__((aligned(8))) = {106,112,101,103,0};
u8 _2estr_2e37[4] __attribute__((aligned(8))) = {98,101,114,0};
u8 _2estr_2e38[4] __attribute__((aligned(8))) = {100,101,114,0};
u8 _2estr_2e39[12] __attribute__((aligned(8))) = {102,97,115,116,105,110,102,111,115,101,116,0};
u8 _2estr_2e40[6] __attribute__((aligned(8))) = {119,98,120,109,108,0};
u8 _2estr_2e41[4] __attribute__((aligned(8))) = {122,105,112,0};
u8 _2estr_2e45[32] __attribute__((aligned(8))) = {85,110,102,105,110,105,115,104,101,100,32,77,101,100,105,97,32,84,121,112,101,32,112,97,114,97,109,101,116,101,114,0};
u8 _2estr_2e49[53] __attribute__((aligned(8))) = {73,110,118,97,108,105,100,32,113,117,97,108,105,116,121,32,118,97,108,117,101,44,32,109,117,115,116,32,98,101,32,105,110,32,116,104,101,32,91,48,59,32,49,48,48,93,32,114,97,110,103,101,0};
extern u8 _ZTISt13runtime_error[];
u8 _2estr_2e43[23] __attribute__((aligned(8))) = {73,110,118,97,108,105,100,32,113,117,97,108,105,116,121,32,102,97,99,116,111,114,0};
u8 _2estr_2e44[23] __attribute__((aligned(8))) = {77,105,115,115,105,110,103,32,113,117,97,108,105,116,121,32,102,97,99,116,111,114,0};
u8 _2estr_2e42[49] __attribute__((aligned(8))) = {77,97,108,102,111,114,109,101,100,32,77,101,100,105,97,32,84,121,112,101,44,32,101,120,112,101,99,116,101,100,32,112,97,114,97,109,101,116,101,114,32,103,111,116,32,69,79,70,0};
u8 _2estr_2e36[47] __attribute__((aligned(8))) = {77,97,108,102,111,114,109,101,100,32,77,101,100,105,97,32,84,121,112,101,44,32,101,120,112,101,99,116,101,100,32,115,117,102,102,105,120,44,32,103,111,116,32,69,79,70,0};
u8 _2estr_2e21[38] __attribute__((aligned(8))) = {77,97,108,102,111,114,109,101,100,32,77,101,100,105,97,32,116,121,112,101,44,32,109,105,115,115,105,110,103,32,115,117,98,116,121,112,101,0};
u8 _2estr_2e50[1] __attribute__((aligned(8))) = {0};
u8 switch_2etable_2e_ZNK8Pistache4Http4Mime9MediaType8toStringB5cxx11Ev[64] __attribute__((aligned(8))) = {0,0,0,0,0,0,0,0,0,0,0,0,0,0,0,0,0,0,0,0,0,0,0,0,0,0,0,0,0,0,0,0,0,0,0,0,0,0,0,0,0,0,0,0,0,0,0,0,0,0,0,0,0,0,0,0,0,0,0,0,0,0,0,0};
u8 _2estr_2e46[2] __attribute__((aligned(8))) = {47,0};
u8 switch_2etable_2e_ZNK8Pistache4Http4Mime9MediaType8toStringB5cxx11Ev_2e1[136] __attribute__((aligned(8))) = {0,0,0,0,0,0,0,0,0,0,0,0,0,0,0,0,0,0,0,0,0,0,0,0,0,0,0,0,0,0,0,0,0,0,0,0,0,0,0,0,0,0,0,0,0,0,0,0,0,0,0,0,0,0,0,0,0,0,0,0,0,0,0,0,0,0,0,0,0,0,0,0,0,0,0,0,0,0,0,0,0,0,0,0,0,0,0,0,0,0,0,0,0,0,0,0,0,0,0,0,0,0,0,0,0,0,0,0,0,0,0,0,0,0,0,0,0,0,0,0,0,0,0,0,0,0,0,0,0,0,0,0,0,0,0,0};
u8 _2estr_2e51[6] __attribute__((aligned(8))) = {43,106,115,111,110,0};
u8 _2estr_2e57[5] __attribute__((aligned(8))) = {43,120,109,108,0};
u8 _2estr_2e56[5] __attribute__((aligned(8))) = {43,122,105,112,0};
u8 _2estr_2e55[7] __attribute__((aligned(8))) = {43,119,98,120,109,108,0};
u8 _2estr_2e54[13] __attribute__((aligned(8))) = {43,102,97,115,116,105,110,102,111,115,101,116,0};
u8 _2estr_2e53[5] __attribute__((aligned(8))) = {43,100,101,114,0};
u8 _2estr_2e52[5] __attribute__((aligned(8))) = {43,98,101,114,0};
u8 _2estr_2e47[3] __attribute__((aligned(8))) = {59,32,0};
u8 _2estr_2e48[2] __attribute__((aligned(8))) = {61,0};
u8 _2estr_2e1[4] __attribute__((aligned(8))) = {113,61,49,0};
u8 _2estr[4] __attribute__((aligned(8))) = {113,61,48,0};
u8 _2estr_2e2[7] __attribute__((aligned(8))) = {113,61,37,46,49,102,0};
u8 _2estr_2e3[7] __attribute__((aligned(8))) = {113,61,37,46,50,102,0};
u8 _ZTIN8Pistache12RawStreamBufIcEE[24] __attribute__((aligned(8))) = {0,0,0,0,0,0,0,0,0,0,0,0,0,0,0,0,0,0,0,0,0,0,0,0};
extern u8 _ZTVN10__cxxabiv120__si_class_type_infoE[];
u8 _ZTSN8Pistache4Http9HttpErrorE[27] __attribute__((aligned(8))) = {78,56,80,105,115,116,97,99,104,101,52,72,116,116,112,57,72,116,116,112,69,114,114,111,114,69,0};
extern u8 _ZTISt9exception[];
u8 _ZTVN8Pistache4Http9HttpErrorE[40] __attribute__((aligned(8))) = {0,0,0,0,0,0,0,0,0,0,0,0,0,0,0,0,0,0,0,0,0,0,0,0,0,0,0,0,0,0,0,0,0,0,0,0,0,0,0,0};
u8 _ZTSN8Pistache12RawStreamBufIcEE[29] __attribute__((aligned(8))) = {78,56,80,105,115,116,97,99,104,101,49,50,82,97,119,83,116,114,101,97,109,66,117,102,73,99,69,69,0};
u8 _ZTIN8Pistache9StreamBufIcEE[24] __attribute__((aligned(8))) = {0,0,0,0,0,0,0,0,0,0,0,0,0,0,0,0,0,0,0,0,0,0,0,0};
u8 _ZTSN8Pistache9StreamBufIcEE[25] __attribute__((aligned(8))) = {78,56,80,105,115,116,97,99,104,101,57,83,116,114,101,97,109,66,117,102,73,99,69,69,0};
extern u8 _ZTISt15basic_streambufIcSt11char_traitsIcEE[];
void __ir_rt_init(void);
void __ir_init_globals(void) {
  __ir_rt_init();
  *(u8**)((u8*)&_ZTVN8Pistache12RawStreamBufIcEE + 8) = ((u8*)&_ZTIN8Pistache12RawStreamBufIcEE);
  *(u8**)((u8*)&_ZTVN8Pistache12RawStreamBufIcEE + 16) = ((u8*)_ZNSt15basic_streambufIcSt11char_traitsIcEED2Ev);
  *(u8**)((u8*)&_ZTVN8Pistache12RawStreamBufIcEE + 24) = ((u8*)_ZN8Pistache12RawStreamBufIcED0Ev);
  *(u8**)((u8*)&_ZTVN8Pistache12RawStreamBufIcEE + 32) = ((u8*)_ZNSt15basic_streambufIcSt11char_traitsIcEE5imbueERKSt6locale);
  *(u8**)((u8*)&_ZTVN8Pistache12RawStreamBufIcEE + 40) = ((u8*)_ZNSt15basic_streambufIcSt11char_traitsIcEE6setbufEPcl);
  *(u8**)((u8*)&_ZTVN8Pistache12RawStreamBufIcEE + 48) = ((u8*)_ZNSt15basic_streambufIcSt11char_traitsIcEE7seekoffElSt12_Ios_SeekdirSt13_Ios_Openmode);
  *(u8**)((u8*)&_ZTVN8Pistache12RawStreamBufIcEE + 56) = ((u8*)_ZNSt15basic_streambufIcSt11char_traitsIcEE7seekposESt4fposI11__mbstate_tESt13_Ios_Openmode);
  *(u8**)((u8*)&_ZTVN8Pistache12RawStreamBufIcEE + 64) = ((u8*)_ZNSt15basic_streambufIcSt11char_traitsIcEE4syncEv);
  *(u8**)((u8*)&_ZTVN8Pistache12RawStreamBufIcEE + 72) = ((u8*)_ZNSt15basic_streambufIcSt11char_traitsIcEE9showmanycEv);
  *(u8**)((u8*)&_ZTVN8Pistache12RawStreamBufIcEE + 80) = ((u8*)_ZNSt15basic_streambufIcSt11char_traitsIcEE6xsgetnEPcl);
  *(u8**)((u8*)&_ZTVN8Pistache12RawStreamBufIcEE + 88) = ((u8*)_ZNSt15basic_streambufIcSt11char_traitsIcEE9underflowEv);
  *(u8**)((u8*)&_ZTVN8Pistache12RawStreamBufIcEE + 96) = ((u8*)_ZNSt15basic_streambufIcSt11char_traitsIcEE5uflowEv);
  *(u8**)((u8*)&_ZTVN8Pistache12RawStreamBufIcEE + 104) = ((u8*)_ZNSt15basic_streambufIcSt11char_traitsIcEE9pbackfailEi);
  *(u8**)((u8*)&_ZTVN8Pistache12RawStreamBufIcEE + 112) = ((u8*)_ZNSt15basic_streambufIcSt11char_traitsIcEE6xsputnEPKcl);
  *(u8**)((u8*)&_ZTVN8Pistache12RawStreamBufIcEE + 120) = ((u8*)_ZNSt15basic_streambufIcSt11char_traitsIcEE8overflowEi);
  *(u8**)((u8*)&_ZTIN8Pistache4Http9HttpErrorE + 0) = (((u8*)&_ZTVN10__cxxabiv120__si_class_type_infoE) + (16));
  *(u8**)((u8*)&_ZTIN8Pistache4Http9HttpErrorE + 8) = ((u8*)&_ZTSN8Pistache4Http9HttpErrorE);
  *(u8**)((u8*)&_ZTIN8Pistache4Http9HttpErrorE + 16) = ((u8*)&_ZTISt9exception);
  *(u8**)((u8*)&switch_2etable_2e_ZNK8Pistache4Http4Mime9MediaType8toStringB5cxx11Ev + 0) = ((u8*)&_2estr_2e11);
  *(u8**)((u8*)&switch_2etable_2e_ZNK8Pistache4Http4Mime9MediaType8toStringB5cxx11Ev + 8) = ((u8*)&_2estr_2e12);
  *(u8**)((u8*)&switch_2etable_2e_ZNK8Pistache4Http4Mime9MediaType8toStringB5cxx11Ev + 16) = ((u8*)&_2estr_2e13);
  *(u8**)((u8*)&switch_2etable_2e_ZNK8Pistache4Http4Mime9MediaType8toStringB5cxx11Ev + 24) = ((u8*)&_2estr_2e14);
  *(u8**)((u8*)&switch_2etable_2e_ZNK8Pistache4Http4Mime9MediaType8toStringB5cxx11Ev + 32) = ((u8*)&_2estr_2e15);
  *(u8**)((u8*)&switch_2etable_2e_ZNK8Pistache4Http4Mime9MediaType8toStringB5cxx11Ev + 40) = ((u8*)&_2estr_2e16);
  *(u8**)((u8*)&switch_2etable_2e_ZNK8Pistache4Http4Mime9MediaType8toStringB5cxx11Ev + 48) = ((u8*)&_2estr_2e17);
  *(u8**)((u8*)&switch_2etable_2e_ZNK8Pistache4Http4Mime9MediaType8toStringB5cxx11Ev + 56) = ((u8*)&_2estr_2e18);
  *(u8**)((u8*)&switch_2etable_2e_ZNK8Pistache4Http4Mime9MediaType8toStringB5cxx11Ev_2e1 + 0) = ((u8*)&_2estr_2e11);
  *(u8**)((u8*)&switch_2etable_2e_ZNK8Pistache4Http4Mime9MediaType8toStringB5cxx11Ev_2e1 + 8) = ((u8*)&_2estr_2e23);
  *(u8**)((u8*)&switch_2etable_2e_ZNK8Pistache4Http4Mime9MediaType8toStringB5cxx11Ev_2e1 + 16) = ((u8*)&_2estr_2e24);
  *(u8**)((u8*)&switch_2etable_2e_ZNK8Pistache4Http4Mime9MediaType8toStringB5cxx11Ev_2e1 + 24) = ((u8*)&_2estr_2e25);
  *(u8**)((u8*)&switch_2etable_2e_ZNK8Pistache4Http4Mime9MediaType8toStringB5cxx11Ev_2e1 + 32) = ((u8*)&_2estr_2e26);
  *(u8**)((u8*)&switch_2etable_2e_ZNK8Pistache4Http4Mime9MediaType8toStringB5cxx11Ev_2e1 + 40) = ((u8*)&_2estr_2e27);
  *(u8**)((u8*)&switch_2etable_2e_ZNK8Pistache4Http4Mime9MediaType8toStringB5cxx11Ev_2e1 + 48) = ((u8*)&_2estr_2e28);
  *(u8**)((u8*)&switch_2etable_2e_ZNK8Pistache4Http4Mime9MediaType8toStringB5cxx11Ev_2e1 + 56) = ((u8*)&_2estr_2e29);
  *(u8**)((u8*)&switch_2etable_2e_ZNK8Pistache4Http4Mime9MediaType8toStringB5cxx11Ev_2e1 + 64) = ((u8*)&_2estr_2e30);
  *(u8**)((u8*)&switch_2etable_2e_ZNK8Pistache4Http4Mime9MediaType8toStringB5cxx11Ev_2e1 + 72) = ((u8*)&_2estr_2e31);
  *(u8**)((u8*)&switch_2etable_2e_ZNK8Pistache4Http4Mime9MediaType8toStringB5cxx11Ev_2e1 + 80) = ((u8*)&_2estr_2e32);
  *(u8**)((u8*)&switch_2etable_2e_ZNK8Pistache4Http4Mime9MediaType8toStringB5cxx11Ev_2e1 + 88) = ((u8*)&_2estr_2e33);
  *(u8**)((u8*)&switch_2etable_2e_ZNK8Pistache4Http4Mime9MediaType8toStringB5cxx11Ev_2e1 + 96) = ((u8*)&_2estr_2e34);
  *(u8**)((u8*)&switch_2etable_2e_ZNK8Pistache4Http4Mime9MediaType8toStringB5cxx11Ev_2e1 + 104) = ((u8*)&_2estr_2e6);
  *(u8**)((u8*)&switch_2etable_2e_ZNK8Pistache4Http4Mime9MediaType8toStringB5cxx11Ev_2e1 + 112) = ((u8*)&_2estr_2e35);
  *(u8**)((u8*)&switch_2etable_2e_ZNK8Pistache4Http4Mime9MediaType8toStringB5cxx11Ev_2e1 + 120) = ((u8*)&_2estr_2e7);
  *(u8**)((u8*)&switch_2etable_2e_ZNK8Pistache4Http4Mime9MediaType8toStringB5cxx11Ev_2e1 + 128) = ((u8*)&_2estr_2e5);
  *(u8**)((u8*)&_ZTIN8Pistache12RawStreamBufIcEE + 0) = (((u8*)&_ZTVN10__cxxabiv120__si_class_type_infoE) + (16));
  *(u8**)((u8*)&_ZTIN8Pistache12RawStreamBufIcEE + 8) = ((u8*)&_ZTSN8Pistache12RawStreamBufIcEE);
  *(u8**)((u8*)&_ZTIN8Pistache12RawStreamBufIcEE + 16) = ((u8*)&_ZTIN8Pistache9StreamBufIcEE);
  *(u8**)((u8*)&_ZTVN8Pistache4Http9HttpErrorE + 8) = ((u8*)&_ZTIN8Pistache4Http9HttpErrorE);
  *(u8**)((u8*)&_ZTVN8Pistache4Http9HttpErrorE + 16) = ((u8*)_ZN8Pistache4Http9HttpErrorD2Ev);
  *(u8**)((u8*)&_ZTVN8Pistache4Http9HttpErrorE + 24) = ((u8*)_ZN8Pistache4Http9HttpErrorD0Ev);
  *(u8**)((u8*)&_ZTVN8Pistache4Http9HttpErrorE + 32) = ((u8*)_ZNK8Pistache4Http9HttpError4whatEv);
  *(u8**)((u8*)&_ZTIN8Pistache9StreamBufIcEE + 0) = (((u8*)&_ZTVN10__cxxabiv120__si_class_type_infoE) + (16));
  *(u8**)((u8*)&_ZTIN8Pistache9StreamBufIcEE + 8) = ((u8*)&_ZTSN8Pistache9StreamBufIcEE);
  *(u8**)((u8*)&_ZTIN8Pistache9StreamBufIcEE + 16) = ((u8*)&_ZTISt15basic_streambufIcSt11char_traitsIcEE);
}
void _ZN8Pistache4Http4Mime9MediaType8parseRawEPKcm(u8* v_this, u8* v_str, u64 v_len) {
  u8* v_ref_2etmp_2ei211;
  u8* v_ref_2etmp_2ei196;
  u8* v_agg_2etmp_2ei180;
  u8* v_ref_2etmp_2ei181;
  u8* v_agg_2etmp_2ei151;
  u8* v_ref_2etmp_2ei152;
  u8* v_agg_2etmp_2ei134;
  u8* v_ref_2etmp_2ei135;
  u8* v_agg_2etmp_2ei117;
  u8* v_ref_2etmp_2ei118;
  u8* v_agg_2etmp_2ei101;
  u8* v_ref_2etmp_2ei102;
  u8* v_agg_2etmp_2ei65;
  u8* v_ref_2etmp_2ei66;
  u8* v_agg_2etmp_2ei38;
  u8* v_ref_2etmp_2ei39;
  u8* v_agg_2etmp_2ei;
  u8* v_ref_2etmp_2ei;
  u8* v_buf;
  u8* v_cursor;
  u8* v_ref_2etmp;
  u8* v_ref_2etmp2;
  u8* v_ref_2etmp126;
  u8* v_ref_2etmp186;
  u8* v_val;
  u8* v_ref_2etmp246;
  u8* v_key;
  u8* v_ref_2etmp282;
  u8* v_ref_2etmp292;
  u8* v_ref_2etmp294;
  u8* v_0;
  u8* v_1;
  u8* v__M_in_beg_2ei_2ei_2ei;
  u8* v__M_buf_locale_2ei_2ei_2ei;
  u8* v_2;
  u8* v_add_2eptr_2ei;
  u8* v__M_in_cur_2ei_2ei;
  u8* v__M_in_end_2ei_2ei;
  u8* v_3;
  u8* v_4;
  u8* v_buf_2ei;
  u8 v_call_2ei37;
  u8* v_5;
  u8* v_6;
  u8* v_raw_;
  u8* v_call;
  u8 v_call7;
  agg16_8 v_7;
  agg16_8 v_8;
  agg16_8 v_9;
  u8 v_call9;
  u8 v_call13;
  u8 v_call17;
  u8 v_call21;
  u8 v_call25;
  u8 v_call29;
  u8 v_call33;
  u32 v_top_2e0;
  u32 p_top_2e0;
  u8* v_top_;
  u8 v_call38;
  u8* v_10;
  u8* v_exception_2ei;
  u8* v_11;
  u8* v_12;
  agg16_8 v_13;
  u8 v_cleanup_2eisactive_2e0_2ei;
  u8 p_cleanup_2eisactive_2e0_2ei;
  agg16_8 v_14;
  agg16_8 v__2epn_2ei;
  agg16_8 p__2epn_2ei;
  u8 v_cleanup_2eisactive_2e1_2ei;
  u8 p_cleanup_2eisactive_2e1_2ei;
  u8 v_call43;
  u8* v_15;
  u8* v_exception_2ei40;
  u8* v_16;
  u8* v_17;
  agg16_8 v_18;
  u8 v_cleanup_2eisactive_2e0_2ei44;
  u8 p_cleanup_2eisactive_2e0_2ei44;
  agg16_8 v_19;
  agg16_8 v__2epn_2ei46;
  agg16_8 p__2epn_2ei46;
  u8 v_cleanup_2eisactive_2e1_2ei47;
  u8 p_cleanup_2eisactive_2e1_2ei47;
  u8* v_20;
  u8* v__M_in_cur_2ei_2ei_2ei;
  u8* v_21;
  u8* v__M_in_beg_2ei_2ei_2ei56;
  u8* v_22;
  u64 v_sub_2eptr_2elhs_2ecast_2ei_2ei;
  u64 v_sub_2eptr_2erhs_2ecast_2ei_2ei;
  u64 v_sub_2eptr_2esub_2ei_2ei;
  u8 v_call50;
  agg16_8 v_23;
  u8 v_call54;
  u8 v_call58;
  u8 v_call62;
  u8 v_call66;
  u8 v_call70;
  u8 v_call74;
  u8 v_call78;
  u8 v_call82;
  u8 v_call86;
  u8 v_call90;
  u8 v_call94;
  u8 v_call98;
  u8 v_call102;
  u8 v_call106;
  u8 v_call110;
  u8 v_call114;
  u8 v_call118;
  u8 v_not_2ecall118;
  u32 v__2e34;
  u8 v_cmp;
  u8 p_cmp;
  u8 v_cmp124;
  u8 p_cmp124;
  u32 v_sub_2e0;
  u32 p_sub_2e0;
  u8 v_or_2econd;
  u8* v_24;
  u8* v_arrayinit_2eelement;
  u8 v_call129;
  u8* v_beg;
  u8* v_25;
  u8* v__M_in_cur_2ei_2ei_2ei60;
  u8* v_26;
  u8* v__M_in_beg_2ei_2ei_2ei61;
  u8* v_27;
  u64 v_sub_2eptr_2elhs_2ecast_2ei_2ei62;
  u64 v_sub_2eptr_2erhs_2ecast_2ei_2ei63;
  u64 v_28;
  u64 v_sub134;
  u8* v_end;
  agg16_8 v_29;
  u8* v_sub_;
  u8 v_call138;
  u8 v_call143;
  u8 v_call146;
  u8* v_30;
  u8* v_exception_2ei67;
  u8* v_31;
  u8* v_32;
  agg16_8 v_33;
  u8 v_cleanup_2eisactive_2e0_2ei71;
  u8 p_cleanup_2eisactive_2e0_2ei71;
  agg16_8 v_34;
  agg16_8 v__2epn_2ei73;
  agg16_8 p__2epn_2ei73;
  u8 v_cleanup_2eisactive_2e1_2ei74;
  u8 p_cleanup_2eisactive_2e1_2ei74;
  agg16_8 v_lpad_2eloopexit;
  agg16_8 v_lpad_2eloopexit_2esplit_2dlp;
  u8* v_35;
  u8* v__M_in_cur_2ei_2ei_2ei84;
  u8* v_36;
  u8* v__M_in_beg_2ei_2ei_2ei85;
  u8* v_37;
  u64 v_sub_2eptr_2elhs_2ecast_2ei_2ei86;
  u64 v_sub_2eptr_2erhs_2ecast_2ei_2ei87;
  u64 v_sub_2eptr_2esub_2ei_2ei88;
  u8 v_call154;
  agg16_8 v_38;
  u8 v_call158;
  u8 v_call162;
  u8 v_call166;
  u8 v_call170;
  u8 v_call174;
  u8 v_call178;
  u8 v_not_2ecall178;
  u32 v__2e36;
  u8 v_cmp183;
  u8 p_cmp183;
  u32 v_suffix_2e0;
  u32 p_suffix_2e0;
  u8* v_39;
  u8* v_arrayinit_2eelement188;
  u8 v_call194;
  u8* v_beg197;
  u8* v_40;
  u8* v__M_in_cur_2ei_2ei_2ei96;
  u8* v_41;
  u8* v__M_in_beg_2ei_2ei_2ei97;
  u8* v_42;
  u64 v_sub_2eptr_2elhs_2ecast_2ei_2ei98;
  u64 v_sub_2eptr_2erhs_2ecast_2ei_2ei99;
  u64 v_43;
  u64 v_sub200;
  u8* v_end202;
  agg16_8 v_44;
  u8* v_suffix_;
  u8* v_45;
  u8* v_46;
  u8* v_47;
  u8* v_arrayinit_2eelement284;
  u8* v_params;
  u8* v_48;
  u8* v_49;
  u8* v_50;
  u8* v_51;
  u8* v_52;
  u8* v_coerce_2edive;
  u8* v_q_;
  u8 v_call206;
  u8 v_call208;
  u8 v_cmp209;
  u8 v_call212;
  u8 v_cmp214;
  u32 v_call218;
  u32 v_53;
  u8 v_54;
  u8* v_55;
  u8* v_exception_2ei103;
  u8* v_56;
  u8* v_57;
  agg16_8 v_58;
  u8 v_cleanup_2eisactive_2e0_2ei107;
  u8 p_cleanup_2eisactive_2e0_2ei107;
  agg16_8 v_59;
  agg16_8 v__2epn_2ei109;
  agg16_8 p__2epn_2ei109;
  u8 v_cleanup_2eisactive_2e1_2ei110;
  u8 p_cleanup_2eisactive_2e1_2ei110;
  agg16_8 v_60;
  u8 v_call226;
  u8 v_call230;
  u8 v_call233;
  u8* v_61;
  u8* v_exception_2ei119;
  u8* v_62;
  u8* v_63;
  agg16_8 v_64;
  u8 v_cleanup_2eisactive_2e0_2ei123;
  u8 p_cleanup_2eisactive_2e0_2ei123;
  agg16_8 v_65;
  agg16_8 v__2epn_2ei125;
  agg16_8 p__2epn_2ei125;
  u8 v_cleanup_2eisactive_2e1_2ei126;
  u8 p_cleanup_2eisactive_2e1_2ei126;
  u8 v_call238;
  u8 v_call242;
  u8* v_66;
  u8* v_exception_2ei136;
  u8* v_67;
  u8* v_68;
  agg16_8 v_69;
  u8 v_cleanup_2eisactive_2e0_2ei140;
  u8 p_cleanup_2eisactive_2e0_2ei140;
  agg16_8 v_70;
  agg16_8 v__2epn_2ei142;
  agg16_8 p__2epn_2ei142;
  u8 v_cleanup_2eisactive_2e1_2ei143;
  u8 p_cleanup_2eisactive_2e1_2ei143;
  agg16_8 v_71;
  double v_72;
  double v_mul_2ei;
  double v_73;
  u16 v_conv_2ei;
  u8 v_cmp_2ei_2ei;
  u8* v_74;
  u8* v_exception_2ei_2ei;
  u8* v_75;
  agg16_8 v_76;
  u8* v_call250;
  agg16_8 v_77;
  agg16_8 v_eh_2elpad_2dbody150;
  agg16_8 p_eh_2elpad_2dbody150;
  agg16_8 v__2epn25;
  agg16_8 p__2epn25;
  u8* v_78;
  u8* v_79;
  u8* v_exception_2ei153;
  u8* v_80;
  u8* v_81;
  agg16_8 v_82;
  u8 v_cleanup_2eisactive_2e0_2ei157;
  u8 p_cleanup_2eisactive_2e0_2ei157;
  agg16_8 v_83;
  agg16_8 v__2epn_2ei159;
  agg16_8 p__2epn_2ei159;
  u8 v_cleanup_2eisactive_2e1_2ei160;
  u8 p_cleanup_2eisactive_2e1_2ei160;
  u8* v_84;
  u8* v__M_in_cur_2ei_2ei_2ei171;
  u8* v_85;
  u8* v__M_in_beg_2ei_2ei_2ei172;
  u8* v_86;
  u64 v_sub_2eptr_2elhs_2ecast_2ei_2ei173;
  u64 v_sub_2eptr_2erhs_2ecast_2ei_2ei174;
  u8 v_call260;
  u8 v_call264;
  u32 v_call267;
  u32 v_87;
  u8 v_88;
  u8* v_89;
  u8* v_exception_2ei182;
  u8* v_90;
  u8* v_91;
  agg16_8 v_92;
  u8 v_cleanup_2eisactive_2e0_2ei186;
  u8 p_cleanup_2eisactive_2e0_2ei186;
  agg16_8 v_93;
  agg16_8 v__2epn_2ei188;
  agg16_8 p__2epn_2ei188;
  u8 v_cleanup_2eisactive_2e1_2ei189;
  u8 p_cleanup_2eisactive_2e1_2ei189;
  agg16_8 v_94;
  agg16_8 v_95;
  u8* v_96;
  u8* v__M_in_cur_2ei_2ei_2ei_2ei_2ei;
  u8* v_97;
  u8* v__M_in_beg_2ei_2ei_2ei_2ei_2ei;
  u8* v_98;
  u64 v_sub_2eptr_2elhs_2ecast_2ei_2ei_2ei_2ei;
  u64 v_sub_2eptr_2erhs_2ecast_2ei_2ei_2ei_2ei;
  u64 v_99;
  u64 v_100;
  u64 v_sub_2ei_2ei;
  u8 v_call278;
  u8* v_101;
  u8* v__M_in_cur_2ei_2ei_2ei202;
  u8* v_102;
  u8* v__M_in_beg_2ei_2ei_2ei203;
  u8* v_103;
  u8 v_call290;
  u64 v_sub_2eptr_2elhs_2ecast_2ei_2ei204;
  u64 v_sub_2eptr_2erhs_2ecast_2ei_2ei205;
  u8* v_104;
  u8* v__M_in_cur_2ei_2ei_2ei_2ei_2ei215;
  u8* v_105;
  u8* v__M_in_beg_2ei_2ei_2ei_2ei_2ei216;
  u8* v_106;
  u64 v_sub_2eptr_2elhs_2ecast_2ei_2ei_2ei_2ei217;
  u64 v_sub_2eptr_2erhs_2ecast_2ei_2ei_2ei_2ei218;
  u64 v_107;
  u64 v_108;
  u64 v_sub_2ei_2ei220;
  agg16_8 v_call301;
  agg16_8 v_109;
  agg16_8 v_110;
  agg16_8 v_111;
  agg16_8 v_112;
  agg16_8 v_113;
  agg16_8 v_114;
  agg16_8 v__2epn;
  agg16_8 p__2epn;
  agg16_8 v__2epn_2epn;
  agg16_8 p__2epn_2epn;
  u8* v_115;
  u8* v_116;
  agg16_8 v__2epn_2epn_2epn_2epn;
  agg16_8 p__2epn_2epn_2epn_2epn;
  agg16_8 v__2epn_2epn_2epn_2epn_2epn;
  agg16_8 p__2epn_2epn_2epn_2epn_2epn;
  u8* v_117;
  u8* v_118;
  u8* v__M_buf_locale_2ei;
  agg16_8 v__2epn28_2epn_2epn_2epn;
  agg16_8 p__2epn28_2epn_2epn_2epn;
  u8* v_119;
  u8* v__M_buf_locale_2ei223;
 L_entry: ;
  static u8 a_ref_2etmp_2ei211_dummy; u8 a_ref_2etmp_2ei211[1] __attribute__((aligned(1))); v_ref_2etmp_2ei211 = a_ref_2etmp_2ei211;
  static u8 a_ref_2etmp_2ei196_dummy; u8 a_ref_2etmp_2ei196[1] __attribute__((aligned(1))); v_ref_2etmp_2ei196 = a_ref_2etmp_2ei196;
  static u8 a_agg_2etmp_2ei180_dummy; u8 a_agg_2etmp_2ei180[32] __attribute__((aligned(8))); v_agg_2etmp_2ei180 = a_agg_2etmp_2ei180;
  static u8 a_ref_2etmp_2ei181_dummy; u8 a_ref_2etmp_2ei181[1] __attribute__((aligned(1))); v_ref_2etmp_2ei181 = a_ref_2etmp_2ei181;
  static u8 a_agg_2etmp_2ei151_dummy; u8 a_agg_2etmp_2ei151[32] __attribute__((aligned(8))); v_agg_2etmp_2ei151 = a_agg_2etmp_2ei151;
  static u8 a_ref_2etmp_2ei152_dummy; u8 a_ref_2etmp_2ei152[1] __attribute__((aligned(1))); v_ref_2etmp_2ei152 = a_ref_2etmp_2ei152;
  static u8 a_agg_2etmp_2ei134_dummy; u8 a_agg_2etmp_2ei134[32] __attribute__((aligned(8))); v_agg_2etmp_2ei134 = a_agg_2etmp_2ei134;
  static u8 a_ref_2etmp_2ei135_dummy; u8 a_ref_2etmp_2ei135[1] __attribute__((aligned(1))); v_ref_2etmp_2ei135 = a_ref_2etmp_2ei135;
  static u8 a_agg_2etmp_2ei117_dummy; u8 a_agg_2etmp_2ei117[32] __attribute__((aligned(8))); v_agg_2etmp_2ei117 = a_agg_2etmp_2ei117;
  static u8 a_ref_2etmp_2ei118_dummy; u8 a_ref_2etmp_2ei118[1] __attribute__((aligned(1))); v_ref_2etmp_2ei118 = a_ref_2etmp_2ei118;
  static u8 a_agg_2etmp_2ei101_dummy; u8 a_agg_2etmp_2ei101[32] __attribute__((aligned(8))); v_agg_2etmp_2ei101 = a_agg_2etmp_2ei101;
  static u8 a_ref_2etmp_2ei102_dummy; u8 a_ref_2etmp_2ei102[1] __attribute__((aligned(1))); v_ref_2etmp_2ei102 = a_ref_2etmp_2ei102;
  static u8 a_agg_2etmp_2ei65_dummy; u8 a_agg_2etmp_2ei65[32] __attribute__((aligned(8))); v_agg_2etmp_2ei65 = a_agg_2etmp_2ei65;
  static u8 a_ref_2etmp_2ei66_dummy; u8 a_ref_2etmp_2ei66[1] __attribute__((aligned(1))); v_ref_2etmp_2ei66 = a_ref_2etmp_2ei66;
  static u8 a_agg_2etmp_2ei38_dummy; u8 a_agg_2etmp_2ei38[32] __attribute__((aligned(8))); v_agg_2etmp_2ei38 = a_agg_2etmp_2ei38;
  static u8 a_ref_2etmp_2ei39_dummy; u8 a_ref_2etmp_2ei39[1] __attribute__((aligned(1))); v_ref_2etmp_2ei39 = a_ref_2etmp_2ei39;
  static u8 a_agg_2etmp_2ei_dummy; u8 a_agg_2etmp_2ei[32] __attribute__((aligned(8))); v_agg_2etmp_2ei = a_agg_2etmp_2ei;
  static u8 a_ref_2etmp_2ei_dummy; u8 a_ref_2etmp_2ei[1] __attribute__((aligned(1))); v_ref_2etmp_2ei = a_ref_2etmp_2ei;
  static u8 a_buf_dummy; u8 a_buf[64] __attribute__((aligned(8))); v_buf = a_buf;
  static u8 a_cursor_dummy; u8 a_cursor[8] __attribute__((aligned(8))); v_cursor = a_cursor;
  static u8 a_ref_2etmp_dummy; u8 a_ref_2etmp[32] __attribute__((aligned(8))); v_ref_2etmp = a_ref_2etmp;
  static u8 a_ref_2etmp2_dummy; u8 a_ref_2etmp2[1] __attribute__((aligned(1))); v_ref_2etmp2 = a_ref_2etmp2;
  static u8 a_ref_2etmp126_dummy; u8 a_ref_2etmp126[2] __attribute__((aligned(1))); v_ref_2etmp126 = a_ref_2etmp126;
  static u8 a_ref_2etmp186_dummy; u8 a_ref_2etmp186[2] __attribute__((aligned(1))); v_ref_2etmp186 = a_ref_2etmp186;
  static u8 a_val_dummy; u8 a_val[8] __attribute__((aligned(8))); v_val = a_val;
  static u8 a_ref_2etmp246_dummy; u8 a_ref_2etmp246[2] __attribute__((aligned(2))); v_ref_2etmp246 = a_ref_2etmp246;
  static u8 a_key_dummy; u8 a_key[32] __attribute__((aligned(8))); v_key = a_key;
  static u8 a_ref_2etmp282_dummy; u8 a_ref_2etmp282[2] __attribute__((aligned(1))); v_ref_2etmp282 = a_ref_2etmp282;
  static u8 a_ref_2etmp292_dummy; u8 a_ref_2etmp292[64] __attribute__((aligned(8))); v_ref_2etmp292 = a_ref_2etmp292;
  static u8 a_ref_2etmp294_dummy; u8 a_ref_2etmp294[32] __attribute__((aligned(8))); v_ref_2etmp294 = a_ref_2etmp294;
  v_0 = v_buf;
  v_1 = v_buf;
  *(u8**)v_1 = (((u8*)&_ZTVSt15basic_streambufIcSt11char_traitsIcEE) + (16));
  v__M_in_beg_2ei_2ei_2ei = (v_buf + (8));
  v__M_buf_locale_2ei_2ei_2ei = (v_buf + (56));
  v_2 = v__M_in_beg_2ei_2ei_2ei;
  __ir_memset_c(v_2, ((u8)0ULL), (u64)((u64)48ULL));
  if (__ir_exc_pending) return;
  _ZNSt6localeC1Ev(v__M_buf_locale_2ei_2ei_2ei);
  if (__ir_exc_pending) return;
  *(u8**)v_1 = (((u8*)&_ZTVN8Pistache12RawStreamBufIcEE) + (16));
  v_add_2eptr_2ei = (v_str + (((i64)(i64)v_len)));
  *(u8**)v__M_in_beg_2ei_2ei_2ei = v_str;
  v__M_in_cur_2ei_2ei = (v_buf + (16));
  *(u8**)v__M_in_cur_2ei_2ei = v_str;
  v__M_in_end_2ei_2ei = (v_buf + (24));
  *(u8**)v__M_in_end_2ei_2ei = v_add_2eptr_2ei;
  v_3 = v_cursor;
  v_4 = v_buf;
  v_buf_2ei = v_cursor;
  *(u8**)v_buf_2ei = v_4;
  v_call_2ei37 = _ZN8Pistache12StreamCursor7advanceEm(v_cursor, ((u64)0ULL));
  if (__ir_exc_pending) {  goto L_lpad; } else {  goto L_invoke_2econt; }
 L_lpad: ;
  __ir_landingpad((u8*)&v_7);
  __ir_lp_select((u8*)&v_7, 0, (u8*[]){0});
  p__2epn28_2epn_2epn_2epn = v_7; goto L_ehcleanup320;
 L_invoke_2econt: ;
  v_5 = v_ref_2etmp;
  v_6 = v_ref_2etmp2;
  _ZNSt7__cxx1112basic_stringIcSt11char_traitsIcESaIcEEC2EPKcmRKS3_(v_ref_2etmp, v_str, v_len, v_ref_2etmp2);
  if (__ir_exc_pending) {  goto L_lpad3; } else {  goto L_invoke_2econt4; }
 L_lpad3: ;
  __ir_landingpad((u8*)&v_8);
  __ir_lp_select((u8*)&v_8, 0, (u8*[]){0});
  p__2epn28_2epn_2epn_2epn = v_8; goto L_ehcleanup320;
 L_invoke_2econt4: ;
  v_raw_ = (v_this + (16));
  v_call = _ZNSt7__cxx1112basic_stringIcSt11char_traitsIcESaIcEEaSEOS4_(v_raw_, v_ref_2etmp);
  if (__ir_exc_pending) return;
  _ZNSt7__cxx1112basic_stringIcSt11char_traitsIcESaIcEED2Ev(v_ref_2etmp);
  if (__ir_exc_pending) return;
  v_call7 = _ZN8Pistache12match_stringEPKcmRNS_12StreamCursorENS_15CaseSensitivityE(((u8*)&_2estr_2e11), ((u64)1ULL), v_cursor, ((u32)1ULL));
  if (__ir_exc_pending) {  goto L_lpad5; } else {  goto L_invoke_2econt6; }
 L_invoke_2econt6: ;
  if (v_call7) { p_top_2e0 = ((u32)0ULL); goto L_do_2eend; } else {  goto L_if_2eend; }
 L_if_2eend: ;
  v_call9 = _ZN8Pistache12match_stringEPKcmRNS_12StreamCursorENS_15CaseSensitivityE(((u8*)&_2estr_2e12), ((u64)4ULL), v_cursor, ((u32)1ULL));
  if (__ir_exc_pending) {  goto L_lpad5; } else {  goto L_invoke_2econt8; }
 L_invoke_2econt8: ;
  if (v_call9) { p_top_2e0 = ((u32)1ULL); goto L_do_2eend; } else {  goto L_if_2eend11; }
 L_if_2eend11: ;
  v_call13 = _ZN8Pistache12match_stringEPKcmRNS_12StreamCursorENS_15CaseSensitivityE(((u8*)&_2estr_2e13), ((u64)5ULL), v_cursor, ((u32)1ULL));
  if (__ir_exc_pending) {  goto L_lpad5; } else {  goto L_invoke_2econt12; }
 L_invoke_2econt12: ;
  if (v_call13) { p_top_2e0 = ((u32)2ULL); goto L_do_2eend; } else {  goto L_if_2eend15; }
 L_if_2eend15: ;
  v_call17 = _ZN8Pistache12match_stringEPKcmRNS_12StreamCursorENS_15CaseSensitivityE(((u8*)&_2estr_2e14), ((u64)5ULL), v_cursor, ((u32)1ULL));
  if (__ir_exc_pending) {  goto L_lpad5; } else {  goto L_invoke_2econt16; }
 L_invoke_2econt16: ;
  if (v_call17) { p_top_2e0 = ((u32)3ULL); goto L_do_2eend; } else {  goto L_if_2eend19; }
 L_if_2eend19: ;
  v_call21 = _ZN8Pistache12match_stringEPKcmRNS_12StreamCursorENS_15CaseSensitivityE(((u8*)&_2estr_2e15), ((u64)5ULL), v_cursor, ((u32)1ULL));
  if (__ir_exc_pending) {  goto L_lpad5; } else {  goto L_invoke_2econt20; }
 L_invoke_2econt20: ;
  if (v_call21) { p_top_2e0 = ((u32)4ULL); goto L_do_2eend; } else {  goto L_if_2eend23; }
 L_if_2eend23: ;
  v_call25 = _ZN8Pistache12match_stringEPKcmRNS_12StreamCursorENS_15CaseSensitivityE(((u8*)&_2estr_2e16), ((u64)11ULL), v_cursor, ((u32)1ULL));
  if (__ir_exc_pending) {  goto L_lpad5; } else {  goto L_invoke_2econt24; }
 L_invoke_2econt24: ;
  if (v_call25) { p_top_2e0 = ((u32)5ULL); goto L_do_2eend; } else {  goto L_if_2eend27; }
 L_if_2eend27: ;
  v_call29 = _ZN8Pistache12match_stringEPKcmRNS_12StreamCursorENS_15CaseSensitivityE(((u8*)&_2estr_2e17), ((u64)7ULL), v_cursor, ((u32)1ULL));
  if (__ir_exc_pending) {  goto L_lpad5; } else {  goto L_invoke_2econt28; }
 L_invoke_2econt28: ;
  if (v_call29) { p_top_2e0 = ((u32)6ULL); goto L_do_2eend; } else {  goto L_if_2eend31; }
 L_if_2eend31: ;
  v_call33 = _ZN8Pistache12match_stringEPKcmRNS_12StreamCursorENS_15CaseSensitivityE(((u8*)&_2estr_2e18), ((u64)9ULL), v_cursor, ((u32)1ULL));
  if (__ir_exc_pending) {  goto L_lpad5; } else {  goto L_invoke_2econt32; }
 L_invoke_2econt32: ;
  if (v_call33) { p_top_2e0 = ((u32)7ULL); goto L_do_2eend; } else {  goto L_if_2eend35; }
 L_if_2eend35: ;
  _ZZN8Pistache4Http4Mime9MediaType8parseRawEPKcmENK3_24_0clES4_(((u8*)&_2estr_2e19));
  if (__ir_exc_pending) {  goto L_lpad5; } else { p_top_2e0 = ((u32)8ULL); goto L_do_2eend; }
 L_do_2eend: ;
  v_top_2e0 = p_top_2e0;
  v_top_ = v_this;
  *(u32*)v_top_ = v_top_2e0;
  v_call38 = _ZN8Pistache13match_literalEcRNS_12StreamCursorENS_15CaseSensitivityE(((u8)47ULL), v_cursor, ((u32)1ULL));
  if (__ir_exc_pending) {  goto L_lpad5; } else {  goto L_invoke_2econt37; }
 L_invoke_2econt37: ;
  if (v_call38) {  goto L_if_2eend41; } else {  goto L_if_2ethen39; }
 L_if_2ethen39: ;
  v_10 = v_agg_2etmp_2ei;
  v_exception_2ei = __cxa_allocate_exception(((u64)48ULL));
  if (__ir_exc_pending) return;
  v_11 = v_ref_2etmp_2ei;
  _ZNSt7__cxx1112basic_stringIcSt11char_traitsIcESaIcEEC2IS3_EEPKcRKS3_(v_agg_2etmp_2ei, ((u8*)&_2estr_2e20), v_ref_2etmp_2ei);
  if (__ir_exc_pending) {  goto L_lpad_2ei; } else {  goto L_invoke_2econt_2ei; }
 L_lpad_2ei: ;
  __ir_landingpad((u8*)&v_13);
  __ir_lp_select((u8*)&v_13, 0, (u8*[]){0});
  p__2epn_2ei = v_13; p_cleanup_2eisactive_2e1_2ei = ((u8)1ULL); goto L_ehcleanup_2ei;
 L_invoke_2econt_2ei: ;
  v_12 = v_exception_2ei;
  _ZN8Pistache4Http9HttpErrorC1ENS0_4CodeENSt7__cxx1112basic_stringIcSt11char_traitsIcESaIcEEE(v_12, ((u32)415ULL), v_agg_2etmp_2ei);
  if (__ir_exc_pending) { p_cleanup_2eisactive_2e0_2ei = ((u8)1ULL); goto L_lpad2_2ei; } else {  goto L_invoke_2econt3_2ei; }
 L_invoke_2econt3_2ei: ;
  __cxa_throw(v_exception_2ei, ((u8*)&_ZTIN8Pistache4Http9HttpErrorE), ((u8*)_ZN8Pistache4Http9HttpErrorD2Ev));
  if (__ir_exc_pending) { p_cleanup_2eisactive_2e0_2ei = ((u8)0ULL); goto L_lpad2_2ei; } else {  goto L_unreachable_2ei; }
 L_lpad2_2ei: ;
  v_cleanup_2eisactive_2e0_2ei = p_cleanup_2eisactive_2e0_2ei;
  __ir_landingpad((u8*)&v_14);
  __ir_lp_select((u8*)&v_14, 0, (u8*[]){0});
  _ZNSt7__cxx1112basic_stringIcSt11char_traitsIcESaIcEED2Ev(v_agg_2etmp_2ei);
  if (__ir_exc_pending) return;
  p__2epn_2ei = v_14; p_cleanup_2eisactive_2e1_2ei = v_cleanup_2eisactive_2e0_2ei; goto L_ehcleanup_2ei;
 L_ehcleanup_2ei: ;
  v__2epn_2ei = p__2epn_2ei;
  v_cleanup_2eisactive_2e1_2ei = p_cleanup_2eisactive_2e1_2ei;
  if (v_cleanup_2eisactive_2e1_2ei) {  goto L_cleanup_2eaction_2ei; } else { p__2epn28_2epn_2epn_2epn = v__2epn_2ei; goto L_ehcleanup320; }
 L_cleanup_2eaction_2ei: ;
  __cxa_free_exception(v_exception_2ei);
  if (__ir_exc_pending) return;
  p__2epn28_2epn_2epn_2epn = v__2epn_2ei; goto L_ehcleanup320;
 L_unreachable_2ei: ;
  __ir_unreachable();
 L_if_2eend41: ;
  v_call43 = _ZNK8Pistache12StreamCursor3eofEv(v_cursor);
  if (__ir_exc_pending) {  goto L_lpad5; } else {  goto L_invoke_2econt42; }
 L_lpad5: ;
  __ir_landingpad((u8*)&v_9);
  __ir_lp_select((u8*)&v_9, 0, (u8*[]){0});
  p__2epn28_2epn_2epn_2epn = v_9; goto L_ehcleanup320;
 L_invoke_2econt42: ;
  if (v_call43) {  goto L_if_2ethen44; } else {  goto L_if_2eend46; }
 L_if_2eend46: ;
  v_20 = *(u8**)v_buf_2ei;
  v__M_in_cur_2ei_2ei_2ei = (v_20 + (16));
  v_21 = *(u8**)v__M_in_cur_2ei_2ei_2ei;
  v__M_in_beg_2ei_2ei_2ei56 = (v_20 + (8));
  v_22 = *(u8**)v__M_in_beg_2ei_2ei_2ei56;
  v_sub_2eptr_2elhs_2ecast_2ei_2ei = ((u64)(u64)v_21);
  v_sub_2eptr_2erhs_2ecast_2ei_2ei = ((u64)(u64)v_22);
  v_sub_2eptr_2esub_2ei_2ei = __IR_PTRDIFF(v_21, v_22);
  v_call50 = _ZN8Pistache9match_rawEPKvmRNS_12StreamCursorE(((u8*)&_2estr_2e22), ((u64)4ULL), v_cursor);
  if (__ir_exc_pending) {  goto L_lpad47; } else {  goto L_invoke_2econt49; }
 L_invoke_2econt49: ;
  if (v_call50) { p_cmp = ((u8)0ULL); p_cmp124 = ((u8)1ULL); p_sub_2e0 = ((u32)17ULL); goto L_if_2eend123; } else {  goto L_do_2ebody52; }
 L_do_2ebody52: ;
  v_call54 = _ZN8Pistache12match_stringEPKcmRNS_12StreamCursorENS_15CaseSensitivityE(((u8*)&_2estr_2e11), ((u64)1ULL), v_cursor, ((u32)1ULL));
  if (__ir_exc_pending) {  goto L_lpad47; } else {  goto L_invoke_2econt53; }
 L_invoke_2econt53: ;
  if (v_call54) { p_cmp = ((u8)0ULL); p_cmp124 = ((u8)0ULL); p_sub_2e0 = ((u32)0ULL); goto L_if_2eend123; } else {  goto L_if_2eend56; }
 L_if_2eend56: ;
  v_call58 = _ZN8Pistache12match_stringEPKcmRNS_12StreamCursorENS_15CaseSensitivityE(((u8*)&_2estr_2e23), ((u64)5ULL), v_cursor, ((u32)1ULL));
  if (__ir_exc_pending) {  goto L_lpad47; } else {  goto L_invoke_2econt57; }
 L_invoke_2econt57: ;
  if (v_call58) { p_cmp = ((u8)0ULL); p_cmp124 = ((u8)0ULL); p_sub_2e0 = ((u32)1ULL); goto L_if_2eend123; } else {  goto L_if_2eend60; }
 L_if_2eend60: ;
  v_call62 = _ZN8Pistache12match_stringEPKcmRNS_12StreamCursorENS_15CaseSensitivityE(((u8*)&_2estr_2e24), ((u64)4ULL), v_cursor, ((u32)1ULL));
  if (__ir_exc_pending) {  goto L_lpad47; } else {  goto L_invoke_2econt61; }
 L_invoke_2econt61: ;
  if (v_call62) { p_cmp = ((u8)0ULL); p_cmp124 = ((u8)0ULL); p_sub_2e0 = ((u32)2ULL); goto L_if_2eend123; } else {  goto L_if_2eend64; }
 L_if_2eend64: ;
  v_call66 = _ZN8Pistache12match_stringEPKcmRNS_12StreamCursorENS_15CaseSensitivityE(((u8*)&_2estr_2e25), ((u64)5ULL), v_cursor, ((u32)1ULL));
  if (__ir_exc_pending) {  goto L_lpad47; } else {  goto L_invoke_2econt65; }
 L_invoke_2econt65: ;
  if (v_call66) { p_cmp = ((u8)0ULL); p_cmp124 = ((u8)0ULL); p_sub_2e0 = ((u32)3ULL); goto L_if_2eend123; } else {  goto L_if_2eend68; }
 L_if_2eend68: ;
  v_call70 = _ZN8Pistache12match_stringEPKcmRNS_12StreamCursorENS_15CaseSensitivityE(((u8*)&_2estr_2e26), ((u64)3ULL), v_cursor, ((u32)1ULL));
  if (__ir_exc_pending) {  goto L_lpad47; } else {  goto L_invoke_2econt69; }
 L_invoke_2econt69: ;
  if (v_call70) { p_cmp = ((u8)0ULL); p_cmp124 = ((u8)0ULL); p_sub_2e0 = ((u32)4ULL); goto L_if_2eend123; } else {  goto L_if_2eend72; }
 L_if_2eend72: ;
  v_call74 = _ZN8Pistache12match_stringEPKcmRNS_12StreamCursorENS_15CaseSensitivityE(((u8*)&_2estr_2e27), ((u64)10ULL), v_cursor, ((u32)1ULL));
  if (__ir_exc_pending) {  goto L_lpad47; } else {  goto L_invoke_2econt73; }
 L_invoke_2econt73: ;
  if (v_call74) { p_cmp = ((u8)0ULL); p_cmp124 = ((u8)0ULL); p_sub_2e0 = ((u32)5ULL); goto L_if_2eend123; } else {  goto L_if_2eend76; }
 L_if_2eend76: ;
  v_call78 = _ZN8Pistache12match_stringEPKcmRNS_12StreamCursorENS_15CaseSensitivityE(((u8*)&_2estr_2e28), ((u64)3ULL), v_cursor, ((u32)1ULL));
  if (__ir_exc_pending) {  goto L_lpad47; } else {  goto L_invoke_2econt77; }
 L_invoke_2econt77: ;
  if (v_call78) { p_cmp = ((u8)0ULL); p_cmp124 = ((u8)0ULL); p_sub_2e0 = ((u32)6ULL); goto L_if_2eend123; } else {  goto L_if_2eend80; }
 L_if_2eend80: ;
  v_call82 = _ZN8Pistache12match_stringEPKcmRNS_12StreamCursorENS_15CaseSensitivityE(((u8*)&_2estr_2e29), ((u64)12ULL), v_cursor, ((u32)1ULL));
  if (__ir_exc_pending) {  goto L_lpad47; } else {  goto L_invoke_2econt81; }
 L_invoke_2econt81: ;
  if (v_call82) { p_cmp = ((u8)0ULL); p_cmp124 = ((u8)0ULL); p_sub_2e0 = ((u32)7ULL); goto L_if_2eend123; } else {  goto L_if_2eend84; }
 L_if_2eend84: ;
  v_call86 = _ZN8Pistache12match_stringEPKcmRNS_12StreamCursorENS_15CaseSensitivityE(((u8*)&_2estr_2e30), ((u64)4ULL), v_cursor, ((u32)1ULL));
  if (__ir_exc_pending) {  goto L_lpad47; } else {  goto L_invoke_2econt85; }
 L_invoke_2econt85: ;
  if (v_call86) { p_cmp = ((u8)0ULL); p_cmp124 = ((u8)0ULL); p_sub_2e0 = ((u32)8ULL); goto L_if_2eend123; } else {  goto L_if_2eend88; }
 L_if_2eend88: ;
  v_call90 = _ZN8Pistache12match_stringEPKcmRNS_12StreamCursorENS_15CaseSensitivityE(((u8*)&_2estr_2e31), ((u64)11ULL), v_cursor, ((u32)1ULL));
  if (__ir_exc_pending) {  goto L_lpad47; } else {  goto L_invoke_2econt89; }
 L_invoke_2econt89: ;
  if (v_call90) { p_cmp = ((u8)0ULL); p_cmp124 = ((u8)0ULL); p_sub_2e0 = ((u32)9ULL); goto L_if_2eend123; } else {  goto L_if_2eend92; }
 L_if_2eend92: ;
  v_call94 = _ZN8Pistache12match_stringEPKcmRNS_12StreamCursorENS_15CaseSensitivityE(((u8*)&_2estr_2e32), ((u64)20ULL), v_cursor, ((u32)1ULL));
  if (__ir_exc_pending) {  goto L_lpad47; } else {  goto L_invoke_2econt93; }
 L_invoke_2econt93: ;
  if (v_call94) { p_cmp = ((u8)0ULL); p_cmp124 = ((u8)0ULL); p_sub_2e0 = ((u32)10ULL); goto L_if_2eend123; } else {  goto L_if_2eend96; }
 L_if_2eend96: ;
  v_call98 = _ZN8Pistache12match_stringEPKcmRNS_12StreamCursorENS_15CaseSensitivityE(((u8*)&_2estr_2e33), ((u64)21ULL), v_cursor, ((u32)1ULL));
  if (__ir_exc_pending) {  goto L_lpad47; } else {  goto L_invoke_2econt97; }
 L_invoke_2econt97: ;
  if (v_call98) { p_cmp = ((u8)0ULL); p_cmp124 = ((u8)0ULL); p_sub_2e0 = ((u32)11ULL); goto L_if_2eend123; } else {  goto L_if_2eend100; }
 L_if_2eend100: ;
  v_call102 = _ZN8Pistache12match_stringEPKcmRNS_12StreamCursorENS_15CaseSensitivityE(((u8*)&_2estr_2e34), ((u64)9ULL), v_cursor, ((u32)1ULL));
  if (__ir_exc_pending) {  goto L_lpad47; } else {  goto L_invoke_2econt101; }
 L_invoke_2econt101: ;
  if (v_call102) { p_cmp = ((u8)0ULL); p_cmp124 = ((u8)0ULL); p_sub_2e0 = ((u32)12ULL); goto L_if_2eend123; } else {  goto L_if_2eend104; }
 L_if_2eend104: ;
  v_call106 = _ZN8Pistache12match_stringEPKcmRNS_12StreamCursorENS_15CaseSensitivityE(((u8*)&_2estr_2e6), ((u64)3ULL), v_cursor, ((u32)1ULL));
  if (__ir_exc_pending) {  goto L_lpad47; } else {  goto L_invoke_2econt105; }
 L_invoke_2econt105: ;
  if (v_call106) { p_cmp = ((u8)0ULL); p_cmp124 = ((u8)0ULL); p_sub_2e0 = ((u32)13ULL); goto L_if_2eend123; } else {  goto L_if_2eend108; }
 L_if_2eend108: ;
  v_call110 = _ZN8Pistache12match_stringEPKcmRNS_12StreamCursorENS_15CaseSensitivityE(((u8*)&_2estr_2e35), ((u64)3ULL), v_cursor, ((u32)1ULL));
  if (__ir_exc_pending) {  goto L_lpad47; } else {  goto L_invoke_2econt109; }
 L_invoke_2econt109: ;
  if (v_call110) { p_cmp = ((u8)0ULL); p_cmp124 = ((u8)0ULL); p_sub_2e0 = ((u32)14ULL); goto L_if_2eend123; } else {  goto L_if_2eend112; }
 L_if_2eend112: ;
  v_call114 = _ZN8Pistache12match_stringEPKcmRNS_12StreamCursorENS_15CaseSensitivityE(((u8*)&_2estr_2e7), ((u64)3ULL), v_cursor, ((u32)1ULL));
  if (__ir_exc_pending) {  goto L_lpad47; } else {  goto L_invoke_2econt113; }
 L_invoke_2econt113: ;
  if (v_call114) { p_cmp = ((u8)0ULL); p_cmp124 = ((u8)0ULL); p_sub_2e0 = ((u32)15ULL); goto L_if_2eend123; } else {  goto L_if_2eend116; }
 L_if_2eend116: ;
  v_call118 = _ZN8Pistache12match_stringEPKcmRNS_12StreamCursorENS_15CaseSensitivityE(((u8*)&_2estr_2e5), ((u64)4ULL), v_cursor, ((u32)1ULL));
  if (__ir_exc_pending) {  goto L_lpad47; } else {  goto L_invoke_2econt117; }
 L_invoke_2econt117: ;
  v_not_2ecall118 = ((((u8)((u64)v_call118 ^ (u64)((u8)1ULL))))&1);
  v__2e34 = v_call118 ? ((u32)16ULL) : ((u32)18ULL);
  p_cmp = v_not_2ecall118; p_cmp124 = ((u8)0ULL); p_sub_2e0 = v__2e34; goto L_if_2eend123;
 L_if_2eend123: ;
  v_cmp = p_cmp;
  v_cmp124 = p_cmp124;
  v_sub_2e0 = p_sub_2e0;
  v_or_2econd = ((((u8)((u64)v_cmp | (u64)v_cmp124)))&1);
  if (v_or_2econd) {  goto L_if_2ethen125; } else {  goto L_if_2eend136; }
 L_if_2ethen125: ;
  v_24 = v_ref_2etmp126;
  *(u8*)v_24 = ((u8)59ULL);
  v_arrayinit_2eelement = (v_ref_2etmp126 + (1));
  *(u8*)v_arrayinit_2eelement = ((u8)43ULL);
  v_call129 = _ZN8Pistache11match_untilESt16initializer_listIcERNS_12StreamCursorENS_15CaseSensitivityE(v_24, ((u64)2ULL), v_cursor, ((u32)1ULL));
  if (__ir_exc_pending) {  goto L_lpad127; } else {  goto L_invoke_2econt128; }
 L_lpad127: ;
  __ir_landingpad((u8*)&v_29);
  __ir_lp_select((u8*)&v_29, 0, (u8*[]){0});
  p__2epn28_2epn_2epn_2epn = v_29; goto L_ehcleanup320;
 L_invoke_2econt128: ;
  v_beg = (v_this + (48));
  *(u64*)v_beg = v_sub_2eptr_2esub_2ei_2ei;
  v_25 = *(u8**)v_buf_2ei;
  v__M_in_cur_2ei_2ei_2ei60 = (v_25 + (16));
  v_26 = *(u8**)v__M_in_cur_2ei_2ei_2ei60;
  v__M_in_beg_2ei_2ei_2ei61 = (v_25 + (8));
  v_27 = *(u8**)v__M_in_beg_2ei_2ei_2ei61;
  v_sub_2eptr_2elhs_2ecast_2ei_2ei62 = ((u64)(u64)v_26);
  v_sub_2eptr_2erhs_2ecast_2ei_2ei63 = ((u64)(u64)v_27);
  v_28 = ((u64)((u64)v_sub_2eptr_2erhs_2ecast_2ei_2ei63 ^ (u64)((u64)18446744073709551615ULL)));
  v_sub134 = ((u64)((u64)v_28 + (u64)v_sub_2eptr_2elhs_2ecast_2ei_2ei62));
  v_end = (v_this + (48 + 8));
  *(u64*)v_end = v_sub134;
   goto L_if_2eend136;
 L_if_2eend136: ;
  v_sub_ = (v_this + (4));
  *(u32*)v_sub_ = v_sub_2e0;
  v_call138 = _ZNK8Pistache12StreamCursor3eofEv(v_cursor);
  if (__ir_exc_pending) {  goto L_lpad47; } else {  goto L_invoke_2econt137; }
 L_lpad47: ;
  __ir_landingpad((u8*)&v_23);
  __ir_lp_select((u8*)&v_23, 0, (u8*[]){0});
  p__2epn28_2epn_2epn_2epn = v_23; goto L_ehcleanup320;
 L_invoke_2econt137: ;
  if (v_call138) {  goto L_cleanup; } else {  goto L_if_2eend140; }
 L_if_2eend140: ;
  v_call143 = _ZN8Pistache13match_literalEcRNS_12StreamCursorENS_15CaseSensitivityE(((u8)43ULL), v_cursor, ((u32)1ULL));
  if (__ir_exc_pending) {  goto L_lpad141_2eloopexit_2esplit_2dlp; } else {  goto L_invoke_2econt142; }
 L_invoke_2econt142: ;
  if (v_call143) {  goto L_if_2ethen144; } else {  goto L_if_2eend204; }
 L_if_2ethen144: ;
  v_call146 = _ZNK8Pistache12StreamCursor3eofEv(v_cursor);
  if (__ir_exc_pending) {  goto L_lpad141_2eloopexit_2esplit_2dlp; } else {  goto L_invoke_2econt145; }
 L_lpad141_2eloopexit_2esplit_2dlp: ;
  __ir_landingpad((u8*)&v_lpad_2eloopexit_2esplit_2dlp);
  __ir_lp_select((u8*)&v_lpad_2eloopexit_2esplit_2dlp, 0, (u8*[]){0});
  p__2epn28_2epn_2epn_2epn = v_lpad_2eloopexit_2esplit_2dlp; goto L_ehcleanup320;
 L_invoke_2econt145: ;
  if (v_call146) {  goto L_if_2ethen147; } else {  goto L_if_2eend149; }
 L_if_2eend149: ;
  v_35 = *(u8**)v_buf_2ei;
  v__M_in_cur_2ei_2ei_2ei84 = (v_35 + (16));
  v_36 = *(u8**)v__M_in_cur_2ei_2ei_2ei84;
  v__M_in_beg_2ei_2ei_2ei85 = (v_35 + (8));
  v_37 = *(u8**)v__M_in_beg_2ei_2ei_2ei85;
  v_sub_2eptr_2elhs_2ecast_2ei_2ei86 = ((u64)(u64)v_36);
  v_sub_2eptr_2erhs_2ecast_2ei_2ei87 = ((u64)(u64)v_37);
  v_sub_2eptr_2esub_2ei_2ei88 = __IR_PTRDIFF(v_36, v_37);
  v_call154 = _ZN8Pistache12match_stringEPKcmRNS_12StreamCursorENS_15CaseSensitivityE(((u8*)&_2estr_2e30), ((u64)4ULL), v_cursor, ((u32)1ULL));
  if (__ir_exc_pending) {  goto L_lpad150; } else {  goto L_invoke_2econt153; }
 L_invoke_2econt153: ;
  if (v_call154) { p_cmp183 = ((u8)0ULL); p_suffix_2e0 = ((u32)0ULL); goto L_do_2eend182; } else {  goto L_if_2eend156; }
 L_if_2eend156: ;
  v_call158 = _ZN8Pistache12match_stringEPKcmRNS_12StreamCursorENS_15CaseSensitivityE(((u8*)&_2estr_2e37), ((u64)3ULL), v_cursor, ((u32)1ULL));
  if (__ir_exc_pending) {  goto L_lpad150; } else {  goto L_invoke_2econt157; }
 L_invoke_2econt157: ;
  if (v_call158) { p_cmp183 = ((u8)0ULL); p_suffix_2e0 = ((u32)1ULL); goto L_do_2eend182; } else {  goto L_if_2eend160; }
 L_if_2eend160: ;
  v_call162 = _ZN8Pistache12match_stringEPKcmRNS_12StreamCursorENS_15CaseSensitivityE(((u8*)&_2estr_2e38), ((u64)3ULL), v_cursor, ((u32)1ULL));
  if (__ir_exc_pending) {  goto L_lpad150; } else {  goto L_invoke_2econt161; }
 L_invoke_2econt161: ;
  if (v_call162) { p_cmp183 = ((u8)0ULL); p_suffix_2e0 = ((u32)2ULL); goto L_do_2eend182; } else {  goto L_if_2eend164; }
 L_if_2eend164: ;
  v_call166 = _ZN8Pistache12match_stringEPKcmRNS_12StreamCursorENS_15CaseSensitivityE(((u8*)&_2estr_2e39), ((u64)11ULL), v_cursor, ((u32)1ULL));
  if (__ir_exc_pending) {  goto L_lpad150; } else {  goto L_invoke_2econt165; }
 L_invoke_2econt165: ;
  if (v_call166) { p_cmp183 = ((u8)0ULL); p_suffix_2e0 = ((u32)3ULL); goto L_do_2eend182; } else {  goto L_if_2eend168; }
 L_if_2eend168: ;
  v_call170 = _ZN8Pistache12match_stringEPKcmRNS_12StreamCursorENS_15CaseSensitivityE(((u8*)&_2estr_2e40), ((u64)5ULL), v_cursor, ((u32)1ULL));
  if (__ir_exc_pending) {  goto L_lpad150; } else {  goto L_invoke_2econt169; }
 L_invoke_2econt169: ;
  if (v_call170) { p_cmp183 = ((u8)0ULL); p_suffix_2e0 = ((u32)4ULL); goto L_do_2eend182; } else {  goto L_if_2eend172; }
 L_if_2eend172: ;
  v_call174 = _ZN8Pistache12match_stringEPKcmRNS_12StreamCursorENS_15CaseSensitivityE(((u8*)&_2estr_2e41), ((u64)3ULL), v_cursor, ((u32)1ULL));
  if (__ir_exc_pending) {  goto L_lpad150; } else {  goto L_invoke_2econt173; }
 L_invoke_2econt173: ;
  if (v_call174) { p_cmp183 = ((u8)0ULL); p_suffix_2e0 = ((u32)5ULL); goto L_do_2eend182; } else {  goto L_if_2eend176; }
 L_if_2eend176: ;
  v_call178 = _ZN8Pistache12match_stringEPKcmRNS_12StreamCursorENS_15CaseSensitivityE(((u8*)&_2estr_2e26), ((u64)3ULL), v_cursor, ((u32)1ULL));
  if (__ir_exc_pending) {  goto L_lpad150; } else {  goto L_invoke_2econt177; }
 L_lpad150: ;
  __ir_landingpad((u8*)&v_38);
  __ir_lp_select((u8*)&v_38, 0, (u8*[]){0});
  p__2epn28_2epn_2epn_2epn = v_38; goto L_ehcleanup320;
 L_invoke_2econt177: ;
  v_not_2ecall178 = ((((u8)((u64)v_call178 ^ (u64)((u8)1ULL))))&1);
  v__2e36 = v_call178 ? ((u32)6ULL) : ((u32)8ULL);
  p_cmp183 = v_not_2ecall178; p_suffix_2e0 = v__2e36; goto L_do_2eend182;
 L_do_2eend182: ;
  v_cmp183 = p_cmp183;
  v_suffix_2e0 = p_suffix_2e0;
  if (v_cmp183) {  goto L_if_2ethen184; } else {  goto L_if_2eend203; }
 L_if_2ethen184: ;
  v_39 = v_ref_2etmp186;
  *(u8*)v_39 = ((u8)59ULL);
  v_arrayinit_2eelement188 = (v_ref_2etmp186 + (1));
  *(u8*)v_arrayinit_2eelement188 = ((u8)43ULL);
  v_call194 = _ZN8Pistache11match_untilESt16initializer_listIcERNS_12StreamCursorENS_15CaseSensitivityE(v_39, ((u64)2ULL), v_cursor, ((u32)1ULL));
  if (__ir_exc_pending) {  goto L_lpad192; } else {  goto L_invoke_2econt193; }
 L_lpad192: ;
  __ir_landingpad((u8*)&v_44);
  __ir_lp_select((u8*)&v_44, 0, (u8*[]){0});
  p__2epn28_2epn_2epn_2epn = v_44; goto L_ehcleanup320;
 L_invoke_2econt193: ;
  v_beg197 = (v_this + (64));
  *(u64*)v_beg197 = v_sub_2eptr_2esub_2ei_2ei88;
  v_40 = *(u8**)v_buf_2ei;
  v__M_in_cur_2ei_2ei_2ei96 = (v_40 + (16));
  v_41 = *(u8**)v__M_in_cur_2ei_2ei_2ei96;
  v__M_in_beg_2ei_2ei_2ei97 = (v_40 + (8));
  v_42 = *(u8**)v__M_in_beg_2ei_2ei_2ei97;
  v_sub_2eptr_2elhs_2ecast_2ei_2ei98 = ((u64)(u64)v_41);
  v_sub_2eptr_2erhs_2ecast_2ei_2ei99 = ((u64)(u64)v_42);
  v_43 = ((u64)((u64)v_sub_2eptr_2erhs_2ecast_2ei_2ei99 ^ (u64)((u64)18446744073709551615ULL)));
  v_sub200 = ((u64)((u64)v_43 + (u64)v_sub_2eptr_2elhs_2ecast_2ei_2ei98));
  v_end202 = (v_this + (64 + 8));
  *(u64*)v_end202 = v_sub200;
   goto L_if_2eend203;
 L_if_2eend203: ;
  v_suffix_ = (v_this + (8));
  *(u32*)v_suffix_ = v_suffix_2e0;
   goto L_if_2eend204;
 L_if_2eend204: ;
  v_45 = v_key;
  v_46 = v_ref_2etmp_2ei196;
  v_47 = v_ref_2etmp282;
  v_arrayinit_2eelement284 = (v_ref_2etmp282 + (1));
  v_params = (v_this + (80));
  v_48 = v_ref_2etmp292;
  v_49 = v_ref_2etmp294;
  v_50 = v_ref_2etmp_2ei211;
  v_51 = v_val;
  v_52 = v_ref_2etmp246;
  v_coerce_2edive = v_ref_2etmp246;
  v_q_ = (v_this + (136));
   goto L_while_2econd;
 L_while_2econd: ;
  v_call206 = _ZNK8Pistache12StreamCursor3eofEv(v_cursor);
  if (__ir_exc_pending) {  goto L_lpad141_2eloopexit; } else {  goto L_invoke_2econt205; }
 L_invoke_2econt205: ;
  if (v_call206) {  goto L_cleanup; } else {  goto L_while_2ebody; }
 L_while_2ebody: ;
  v_call208 = _ZNK8Pistache12StreamCursor7currentEv(v_cursor);
  if (__ir_exc_pending) {  goto L_lpad141_2eloopexit; } else {  goto L_invoke_2econt207; }
 L_invoke_2econt207: ;
  v_cmp209 = ((u8)(v_call208 == ((u8)59ULL)));
  if (v_cmp209) {  goto L_if_2ethen215; } else {  goto L_lor_2elhs_2efalse210; }
 L_lor_2elhs_2efalse210: ;
  v_call212 = _ZNK8Pistache12StreamCursor7currentEv(v_cursor);
  if (__ir_exc_pending) {  goto L_lpad141_2eloopexit; } else {  goto L_invoke_2econt211; }
 L_invoke_2econt211: ;
  v_cmp214 = ((u8)(v_call212 == ((u8)32ULL)));
  if (v_cmp214) {  goto L_if_2ethen215; } else {  goto L_if_2eelse228; }
 L_if_2eelse228: ;
  v_call230 = _ZN8Pistache13match_literalEcRNS_12StreamCursorENS_15CaseSensitivityE(((u8)113ULL), v_cursor, ((u32)1ULL));
  if (__ir_exc_pending) {  goto L_lpad141_2eloopexit; } else {  goto L_invoke_2econt229; }
 L_invoke_2econt229: ;
  if (v_call230) {  goto L_if_2ethen231; } else {  goto L_if_2eelse256; }
 L_if_2eelse256: ;
  v_84 = *(u8**)v_buf_2ei;
  v__M_in_cur_2ei_2ei_2ei171 = (v_84 + (16));
  v_85 = *(u8**)v__M_in_cur_2ei_2ei_2ei171;
  v__M_in_beg_2ei_2ei_2ei172 = (v_84 + (8));
  v_86 = *(u8**)v__M_in_beg_2ei_2ei_2ei172;
  v_sub_2eptr_2elhs_2ecast_2ei_2ei173 = ((u64)(u64)v_85);
  v_sub_2eptr_2erhs_2ecast_2ei_2ei174 = ((u64)(u64)v_86);
  v_call260 = _ZN8Pistache11match_untilEcRNS_12StreamCursorENS_15CaseSensitivityE(((u8)61ULL), v_cursor, ((u32)1ULL));
  if (__ir_exc_pending) {  goto L_lpad257; } else {  goto L_invoke_2econt259; }
 L_invoke_2econt259: ;
  v_call264 = _ZNK8Pistache12StreamCursor3eofEv(v_cursor);
  if (__ir_exc_pending) {  goto L_lpad262; } else {  goto L_invoke_2econt263; }
 L_invoke_2econt263: ;
  if (v_call264) {  goto L_if_2ethen271; } else {  goto L_lor_2elhs_2efalse265; }
 L_lor_2elhs_2efalse265: ;
  v_call267 = _ZNK8Pistache12StreamCursor4nextEv(v_cursor);
  if (__ir_exc_pending) {  goto L_lpad262; } else {  goto L_invoke_2econt266; }
 L_invoke_2econt266: ;
  v_87 = ((u32)((u64)v_call267 + (u64)((u32)1ULL)));
  v_88 = ((u8)(v_87 < ((u32)2ULL)));
  if (v_88) {  goto L_if_2ethen271; } else {  goto L_if_2eend273; }
 L_if_2eend273: ;
  v_96 = *(u8**)v_buf_2ei;
  v__M_in_cur_2ei_2ei_2ei_2ei_2ei = (v_96 + (16));
  v_97 = *(u8**)v__M_in_cur_2ei_2ei_2ei_2ei_2ei;
  v__M_in_beg_2ei_2ei_2ei_2ei_2ei = (v_96 + (8));
  v_98 = *(u8**)v__M_in_beg_2ei_2ei_2ei_2ei_2ei;
  v_sub_2eptr_2elhs_2ecast_2ei_2ei_2ei_2ei = ((u64)(u64)v_97);
  v_sub_2eptr_2erhs_2ecast_2ei_2ei_2ei_2ei = ((u64)(u64)v_98);
  v_99 = ((u64)((u64)v_sub_2eptr_2erhs_2ecast_2ei_2ei174 + (u64)v_sub_2eptr_2elhs_2ecast_2ei_2ei_2ei_2ei));
  v_100 = ((u64)((u64)v_sub_2eptr_2elhs_2ecast_2ei_2ei173 + (u64)v_sub_2eptr_2erhs_2ecast_2ei_2ei_2ei_2ei));
  v_sub_2ei_2ei = ((u64)((u64)v_99 - (u64)v_100));
  _ZNSt7__cxx1112basic_stringIcSt11char_traitsIcESaIcEEC2EPKcmRKS3_(v_key, v_85, v_sub_2ei_2ei, v_ref_2etmp_2ei196);
  if (__ir_exc_pending) {  goto L_lpad274; } else {  goto L__ZNK8Pistache12StreamCursor5Token4textB5cxx11Ev_2eexit; }
 L__ZNK8Pistache12StreamCursor5Token4textB5cxx11Ev_2eexit: ;
  v_call278 = _ZN8Pistache12StreamCursor7advanceEm(v_cursor, ((u64)1ULL));
  if (__ir_exc_pending) {  goto L_lpad276; } else {  goto L_invoke_2econt277; }
 L_invoke_2econt277: ;
  v_101 = *(u8**)v_buf_2ei;
  v__M_in_cur_2ei_2ei_2ei202 = (v_101 + (16));
  v_102 = *(u8**)v__M_in_cur_2ei_2ei_2ei202;
  v__M_in_beg_2ei_2ei_2ei203 = (v_101 + (8));
  v_103 = *(u8**)v__M_in_beg_2ei_2ei_2ei203;
  *(u8*)v_47 = ((u8)32ULL);
  *(u8*)v_arrayinit_2eelement284 = ((u8)59ULL);
  v_call290 = _ZN8Pistache11match_untilESt16initializer_listIcERNS_12StreamCursorENS_15CaseSensitivityE(v_47, ((u64)2ULL), v_cursor, ((u32)1ULL));
  if (__ir_exc_pending) {  goto L_lpad288; } else {  goto L_invoke_2econt289; }
 L_invoke_2econt289: ;
  v_sub_2eptr_2elhs_2ecast_2ei_2ei204 = ((u64)(u64)v_102);
  v_sub_2eptr_2erhs_2ecast_2ei_2ei205 = ((u64)(u64)v_103);
  v_104 = *(u8**)v_buf_2ei;
  v__M_in_cur_2ei_2ei_2ei_2ei_2ei215 = (v_104 + (16));
  v_105 = *(u8**)v__M_in_cur_2ei_2ei_2ei_2ei_2ei215;
  v__M_in_beg_2ei_2ei_2ei_2ei_2ei216 = (v_104 + (8));
  v_106 = *(u8**)v__M_in_beg_2ei_2ei_2ei_2ei_2ei216;
  v_sub_2eptr_2elhs_2ecast_2ei_2ei_2ei_2ei217 = ((u64)(u64)v_105);
  v_sub_2eptr_2erhs_2ecast_2ei_2ei_2ei_2ei218 = ((u64)(u64)v_106);
  v_107 = ((u64)((u64)v_sub_2eptr_2erhs_2ecast_2ei_2ei205 + (u64)v_sub_2eptr_2elhs_2ecast_2ei_2ei_2ei_2ei217));
  v_108 = ((u64)((u64)v_sub_2eptr_2elhs_2ecast_2ei_2ei204 + (u64)v_sub_2eptr_2erhs_2ecast_2ei_2ei_2ei_2ei218));
  v_sub_2ei_2ei220 = ((u64)((u64)v_107 - (u64)v_108));
  _ZNSt7__cxx1112basic_stringIcSt11char_traitsIcESaIcEEC2EPKcmRKS3_(v_ref_2etmp294, v_102, v_sub_2ei_2ei220, v_ref_2etmp_2ei211);
  if (__ir_exc_pending) {  goto L_lpad295; } else {  goto L__ZNK8Pistache12StreamCursor5Token4textB5cxx11Ev_2eexit222; }
 L__ZNK8Pistache12StreamCursor5Token4textB5cxx11Ev_2eexit222: ;
  _ZSt9make_pairINSt7__cxx1112basic_stringIcSt11char_traitsIcESaIcEEES5_ESt4pairINSt25__strip_reference_wrapperINSt5decayIT_E4typeEE6__typeENS7_INS8_IT0_E4typeEE6__typeEEOS9_OSE_(v_ref_2etmp292, v_key, v_ref_2etmp294);
  if (__ir_exc_pending) {  goto L_lpad297; } else {  goto L_invoke_2econt298; }
 L_invoke_2econt298: ;
  v_call301 = _ZNSt13unordered_mapINSt7__cxx1112basic_stringIcSt11char_traitsIcESaIcEEES5_St4hashIS5_ESt8equal_toIS5_ESaISt4pairIKS5_S5_EEE6insertISA_IS5_S5_EEENSt9enable_ifIXsr16is_constructibleISC_OT_EE5valueESA_INSt8__detail14_Node_iteratorISC_Lb0ELb1EEEbEE4typeESJ_(v_params, v_ref_2etmp292);
  if (__ir_exc_pending) {  goto L_lpad299; } else {  goto L_invoke_2econt300; }
 L_invoke_2econt300: ;
  _ZNSt4pairINSt7__cxx1112basic_stringIcSt11char_traitsIcESaIcEEES5_ED2Ev(v_ref_2etmp292);
  if (__ir_exc_pending) return;
  _ZNSt7__cxx1112basic_stringIcSt11char_traitsIcESaIcEED2Ev(v_ref_2etmp294);
  if (__ir_exc_pending) return;
  _ZNSt7__cxx1112basic_stringIcSt11char_traitsIcESaIcEED2Ev(v_key);
  if (__ir_exc_pending) return;
   goto L_while_2econd_2ebackedge;
 L_lpad299: ;
  __ir_landingpad((u8*)&v_114);
  __ir_lp_select((u8*)&v_114, 0, (u8*[]){0});
  _ZNSt4pairINSt7__cxx1112basic_stringIcSt11char_traitsIcESaIcEEES5_ED2Ev(v_ref_2etmp292);
  if (__ir_exc_pending) return;
  p__2epn = v_114; goto L_ehcleanup303;
 L_lpad297: ;
  __ir_landingpad((u8*)&v_113);
  __ir_lp_select((u8*)&v_113, 0, (u8*[]){0});
  p__2epn = v_113; goto L_ehcleanup303;
 L_ehcleanup303: ;
  v__2epn = p__2epn;
  _ZNSt7__cxx1112basic_stringIcSt11char_traitsIcESaIcEED2Ev(v_ref_2etmp294);
  if (__ir_exc_pending) return;
  p__2epn_2epn = v__2epn; goto L_ehcleanup304;
 L_lpad295: ;
  __ir_landingpad((u8*)&v_112);
  __ir_lp_select((u8*)&v_112, 0, (u8*[]){0});
  p__2epn_2epn = v_112; goto L_ehcleanup304;
 L_ehcleanup304: ;
  v__2epn_2epn = p__2epn_2epn;
  v_115 = v_ref_2etmp294;
  v_116 = v_ref_2etmp292;
  p__2epn_2epn_2epn_2epn = v__2epn_2epn; goto L_ehcleanup307;
 L_lpad288: ;
  __ir_landingpad((u8*)&v_111);
  __ir_lp_select((u8*)&v_111, 0, (u8*[]){0});
  p__2epn_2epn_2epn_2epn = v_111; goto L_ehcleanup307;
 L_lpad276: ;
  __ir_landingpad((u8*)&v_110);
  __ir_lp_select((u8*)&v_110, 0, (u8*[]){0});
  p__2epn_2epn_2epn_2epn = v_110; goto L_ehcleanup307;
 L_ehcleanup307: ;
  v__2epn_2epn_2epn_2epn = p__2epn_2epn_2epn_2epn;
  _ZNSt7__cxx1112basic_stringIcSt11char_traitsIcESaIcEED2Ev(v_key);
  if (__ir_exc_pending) return;
  p__2epn_2epn_2epn_2epn_2epn = v__2epn_2epn_2epn_2epn; goto L_ehcleanup308;
 L_lpad274: ;
  __ir_landingpad((u8*)&v_109);
  __ir_lp_select((u8*)&v_109, 0, (u8*[]){0});
  p__2epn_2epn_2epn_2epn_2epn = v_109; goto L_ehcleanup308;
 L_ehcleanup308: ;
  v__2epn_2epn_2epn_2epn_2epn = p__2epn_2epn_2epn_2epn_2epn;
  v_117 = v_key;
  p__2epn28_2epn_2epn_2epn = v__2epn_2epn_2epn_2epn_2epn; goto L_ehcleanup320;
 L_if_2ethen271: ;
  v_89 = v_agg_2etmp_2ei180;
  v_exception_2ei182 = __cxa_allocate_exception(((u64)48ULL));
  if (__ir_exc_pending) return;
  v_90 = v_ref_2etmp_2ei181;
  _ZNSt7__cxx1112basic_stringIcSt11char_traitsIcESaIcEEC2IS3_EEPKcRKS3_(v_agg_2etmp_2ei180, ((u8*)&_2estr_2e45), v_ref_2etmp_2ei181);
  if (__ir_exc_pending) {  goto L_lpad_2ei185; } else {  goto L_invoke_2econt_2ei183; }
 L_lpad_2ei185: ;
  __ir_landingpad((u8*)&v_92);
  __ir_lp_select((u8*)&v_92, 0, (u8*[]){0});
  p__2epn_2ei188 = v_92; p_cleanup_2eisactive_2e1_2ei189 = ((u8)1ULL); goto L_ehcleanup_2ei190;
 L_invoke_2econt_2ei183: ;
  v_91 = v_exception_2ei182;
  _ZN8Pistache4Http9HttpErrorC1ENS0_4CodeENSt7__cxx1112basic_stringIcSt11char_traitsIcESaIcEEE(v_91, ((u32)415ULL), v_agg_2etmp_2ei180);
  if (__ir_exc_pending) { p_cleanup_2eisactive_2e0_2ei186 = ((u8)1ULL); goto L_lpad2_2ei187; } else {  goto L_invoke_2econt3_2ei184; }
 L_invoke_2econt3_2ei184: ;
  __cxa_throw(v_exception_2ei182, ((u8*)&_ZTIN8Pistache4Http9HttpErrorE), ((u8*)_ZN8Pistache4Http9HttpErrorD2Ev));
  if (__ir_exc_pending) { p_cleanup_2eisactive_2e0_2ei186 = ((u8)0ULL); goto L_lpad2_2ei187; } else {  goto L_unreachable_2ei193; }
 L_lpad2_2ei187: ;
  v_cleanup_2eisactive_2e0_2ei186 = p_cleanup_2eisactive_2e0_2ei186;
  __ir_landingpad((u8*)&v_93);
  __ir_lp_select((u8*)&v_93, 0, (u8*[]){0});
  _ZNSt7__cxx1112basic_stringIcSt11char_traitsIcESaIcEED2Ev(v_agg_2etmp_2ei180);
  if (__ir_exc_pending) return;
  p__2epn_2ei188 = v_93; p_cleanup_2eisactive_2e1_2ei189 = v_cleanup_2eisactive_2e0_2ei186; goto L_ehcleanup_2ei190;
 L_ehcleanup_2ei190: ;
  v__2epn_2ei188 = p__2epn_2ei188;
  v_cleanup_2eisactive_2e1_2ei189 = p_cleanup_2eisactive_2e1_2ei189;
  if (v_cleanup_2eisactive_2e1_2ei189) {  goto L_cleanup_2eaction_2ei191; } else { p__2epn28_2epn_2epn_2epn = v__2epn_2ei188; goto L_ehcleanup320; }
 L_cleanup_2eaction_2ei191: ;
  __cxa_free_exception(v_exception_2ei182);
  if (__ir_exc_pending) return;
  p__2epn28_2epn_2epn_2epn = v__2epn_2ei188; goto L_ehcleanup320;
 L_unreachable_2ei193: ;
  __ir_unreachable();
 L_lpad262: ;
  __ir_landingpad((u8*)&v_95);
  __ir_lp_select((u8*)&v_95, 0, (u8*[]){0});
  p__2epn28_2epn_2epn_2epn = v_95; goto L_ehcleanup320;
 L_lpad257: ;
  __ir_landingpad((u8*)&v_94);
  __ir_lp_select((u8*)&v_94, 0, (u8*[]){0});
  p__2epn28_2epn_2epn_2epn = v_94; goto L_ehcleanup320;
 L_if_2ethen231: ;
  v_call233 = _ZNK8Pistache12StreamCursor3eofEv(v_cursor);
  if (__ir_exc_pending) {  goto L_lpad141_2eloopexit; } else {  goto L_invoke_2econt232; }
 L_invoke_2econt232: ;
  if (v_call233) {  goto L_if_2ethen234; } else {  goto L_if_2eend236; }
 L_if_2eend236: ;
  v_call238 = _ZN8Pistache13match_literalEcRNS_12StreamCursorENS_15CaseSensitivityE(((u8)61ULL), v_cursor, ((u32)1ULL));
  if (__ir_exc_pending) {  goto L_lpad141_2eloopexit; } else {  goto L_invoke_2econt237; }
 L_invoke_2econt237: ;
  if (v_call238) {  goto L_if_2ethen239; } else {  goto L_if_2eelse253; }
 L_if_2ethen239: ;
  v_call242 = _ZN8Pistache12match_doubleEPdRNS_12StreamCursorE(v_val, v_cursor);
  if (__ir_exc_pending) {  goto L_lpad240; } else {  goto L_invoke_2econt241; }
 L_invoke_2econt241: ;
  if (v_call242) {  goto L_if_2eend245; } else {  goto L_if_2ethen243; }
 L_if_2eend245: ;
  v_72 = *(double*)v_val;
  v_mul_2ei = (v_72 * 1.000000e+02);
  v_73 = __ir_llvm_round_f64(v_mul_2ei);
  if (__ir_exc_pending) return;
  v_conv_2ei = ((u16)v_73);
  v_cmp_2ei_2ei = ((u8)(v_conv_2ei > ((u16)100ULL)));
  if (v_cmp_2ei_2ei) {  goto L_if_2ethen_2ei_2ei; } else {  goto L_invoke_2econt248; }
 L_invoke_2econt248: ;
  *(u16*)v_coerce_2edive = v_conv_2ei;
  v_call250 = _ZNSt8optionalIN8Pistache4Http4Mime1QEEaSIS3_EENSt9enable_ifIX7__and_vISt6__not_ISt7is_sameIS4_NSt9remove_cvINSt16remove_referenceIT_E4typeEE4typeEEES7_ISt6__and_IJSt9is_scalarIS3_ES8_IS3_NSt5decayISB_E4typeEEEEESt16is_constructibleIS3_JSB_EESt13is_assignableIRS3_SB_EEERS4_E4typeEOSB_(v_q_, v_ref_2etmp246);
  if (__ir_exc_pending) return;
   goto L_while_2econd_2ebackedge;
 L_if_2ethen_2ei_2ei: ;
  v_74 = v_ref_2etmp246;
  v_exception_2ei_2ei = __cxa_allocate_exception(((u64)16ULL));
  if (__ir_exc_pending) return;
  v_75 = v_exception_2ei_2ei;
  _ZNSt13runtime_errorC1EPKc(v_75, ((u8*)&_2estr_2e49));
  if (__ir_exc_pending) {  goto L_lpad_2ei_2ei; } else {  goto L_invoke_2econt_2ei_2ei; }
 L_lpad_2ei_2ei: ;
  __ir_landingpad((u8*)&v_76);
  __ir_lp_select((u8*)&v_76, 0, (u8*[]){0});
  __cxa_free_exception(v_exception_2ei_2ei);
  if (__ir_exc_pending) return;
  p_eh_2elpad_2dbody150 = v_76; goto L_lpad247_2ebody;
 L_invoke_2econt_2ei_2ei: ;
  __cxa_throw(v_exception_2ei_2ei, ((u8*)&_ZTISt13runtime_error), ((u8*)_ZNSt13runtime_errorD1Ev));
  if (__ir_exc_pending) {  goto L_lpad247; } else {  goto L__2enoexc; }
 L_lpad247: ;
  __ir_landingpad((u8*)&v_77);
  __ir_lp_select((u8*)&v_77, 0, (u8*[]){0});
  p_eh_2elpad_2dbody150 = v_77; goto L_lpad247_2ebody;
 L_lpad247_2ebody: ;
  v_eh_2elpad_2dbody150 = p_eh_2elpad_2dbody150;
  p__2epn25 = v_eh_2elpad_2dbody150; goto L_ehcleanup252;
 L__2enoexc: ;
  __ir_unreachable();
 L_if_2ethen243: ;
  v_66 = v_agg_2etmp_2ei134;
  v_exception_2ei136 = __cxa_allocate_exception(((u64)48ULL));
  if (__ir_exc_pending) return;
  v_67 = v_ref_2etmp_2ei135;
  _ZNSt7__cxx1112basic_stringIcSt11char_traitsIcESaIcEEC2IS3_EEPKcRKS3_(v_agg_2etmp_2ei134, ((u8*)&_2estr_2e43), v_ref_2etmp_2ei135);
  if (__ir_exc_pending) {  goto L_lpad_2ei139; } else {  goto L_invoke_2econt_2ei137; }
 L_lpad_2ei139: ;
  __ir_landingpad((u8*)&v_69);
  __ir_lp_select((u8*)&v_69, 0, (u8*[]){0});
  p__2epn_2ei142 = v_69; p_cleanup_2eisactive_2e1_2ei143 = ((u8)1ULL); goto L_ehcleanup_2ei144;
 L_invoke_2econt_2ei137: ;
  v_68 = v_exception_2ei136;
  _ZN8Pistache4Http9HttpErrorC1ENS0_4CodeENSt7__cxx1112basic_stringIcSt11char_traitsIcESaIcEEE(v_68, ((u32)415ULL), v_agg_2etmp_2ei134);
  if (__ir_exc_pending) { p_cleanup_2eisactive_2e0_2ei140 = ((u8)1ULL); goto L_lpad2_2ei141; } else {  goto L_invoke_2econt3_2ei138; }
 L_invoke_2econt3_2ei138: ;
  __cxa_throw(v_exception_2ei136, ((u8*)&_ZTIN8Pistache4Http9HttpErrorE), ((u8*)_ZN8Pistache4Http9HttpErrorD2Ev));
  if (__ir_exc_pending) { p_cleanup_2eisactive_2e0_2ei140 = ((u8)0ULL); goto L_lpad2_2ei141; } else {  goto L_unreachable_2ei147; }
 L_lpad2_2ei141: ;
  v_cleanup_2eisactive_2e0_2ei140 = p_cleanup_2eisactive_2e0_2ei140;
  __ir_landingpad((u8*)&v_70);
  __ir_lp_select((u8*)&v_70, 0, (u8*[]){0});
  _ZNSt7__cxx1112basic_stringIcSt11char_traitsIcESaIcEED2Ev(v_agg_2etmp_2ei134);
  if (__ir_exc_pending) return;
  p__2epn_2ei142 = v_70; p_cleanup_2eisactive_2e1_2ei143 = v_cleanup_2eisactive_2e0_2ei140; goto L_ehcleanup_2ei144;
 L_ehcleanup_2ei144: ;
  v__2epn_2ei142 = p__2epn_2ei142;
  v_cleanup_2eisactive_2e1_2ei143 = p_cleanup_2eisactive_2e1_2ei143;
  if (v_cleanup_2eisactive_2e1_2ei143) {  goto L_cleanup_2eaction_2ei145; } else { p__2epn25 = v__2epn_2ei142; goto L_ehcleanup252; }
 L_cleanup_2eaction_2ei145: ;
  __cxa_free_exception(v_exception_2ei136);
  if (__ir_exc_pending) return;
  p__2epn25 = v__2epn_2ei142; goto L_ehcleanup252;
 L_unreachable_2ei147: ;
  __ir_unreachable();
 L_lpad240: ;
  __ir_landingpad((u8*)&v_71);
  __ir_lp_select((u8*)&v_71, 0, (u8*[]){0});
  p__2epn25 = v_71; goto L_ehcleanup252;
 L_ehcleanup252: ;
  v__2epn25 = p__2epn25;
  v_78 = v_val;
  p__2epn28_2epn_2epn_2epn = v__2epn25; goto L_ehcleanup320;
 L_if_2eelse253: ;
  v_79 = v_agg_2etmp_2ei151;
  v_exception_2ei153 = __cxa_allocate_exception(((u64)48ULL));
  if (__ir_exc_pending) return;
  v_80 = v_ref_2etmp_2ei152;
  _ZNSt7__cxx1112basic_stringIcSt11char_traitsIcESaIcEEC2IS3_EEPKcRKS3_(v_agg_2etmp_2ei151, ((u8*)&_2estr_2e44), v_ref_2etmp_2ei152);
  if (__ir_exc_pending) {  goto L_lpad_2ei156; } else {  goto L_invoke_2econt_2ei154; }
 L_lpad_2ei156: ;
  __ir_landingpad((u8*)&v_82);
  __ir_lp_select((u8*)&v_82, 0, (u8*[]){0});
  p__2epn_2ei159 = v_82; p_cleanup_2eisactive_2e1_2ei160 = ((u8)1ULL); goto L_ehcleanup_2ei161;
 L_invoke_2econt_2ei154: ;
  v_81 = v_exception_2ei153;
  _ZN8Pistache4Http9HttpErrorC1ENS0_4CodeENSt7__cxx1112basic_stringIcSt11char_traitsIcESaIcEEE(v_81, ((u32)415ULL), v_agg_2etmp_2ei151);
  if (__ir_exc_pending) { p_cleanup_2eisactive_2e0_2ei157 = ((u8)1ULL); goto L_lpad2_2ei158; } else {  goto L_invoke_2econt3_2ei155; }
 L_invoke_2econt3_2ei155: ;
  __cxa_throw(v_exception_2ei153, ((u8*)&_ZTIN8Pistache4Http9HttpErrorE), ((u8*)_ZN8Pistache4Http9HttpErrorD2Ev));
  if (__ir_exc_pending) { p_cleanup_2eisactive_2e0_2ei157 = ((u8)0ULL); goto L_lpad2_2ei158; } else {  goto L_unreachable_2ei164; }
 L_lpad2_2ei158: ;
  v_cleanup_2eisactive_2e0_2ei157 = p_cleanup_2eisactive_2e0_2ei157;
  __ir_landingpad((u8*)&v_83);
  __ir_lp_select((u8*)&v_83, 0, (u8*[]){0});
  _ZNSt7__cxx1112basic_stringIcSt11char_traitsIcESaIcEED2Ev(v_agg_2etmp_2ei151);
  if (__ir_exc_pending) return;
  p__2epn_2ei159 = v_83; p_cleanup_2eisactive_2e1_2ei160 = v_cleanup_2eisactive_2e0_2ei157; goto L_ehcleanup_2ei161;
 L_ehcleanup_2ei161: ;
  v__2epn_2ei159 = p__2epn_2ei159;
  v_cleanup_2eisactive_2e1_2ei160 = p_cleanup_2eisactive_2e1_2ei160;
  if (v_cleanup_2eisactive_2e1_2ei160) {  goto L_cleanup_2eaction_2ei162; } else { p__2epn28_2epn_2epn_2epn = v__2epn_2ei159; goto L_ehcleanup320; }
 L_cleanup_2eaction_2ei162: ;
  __cxa_free_exception(v_exception_2ei153);
  if (__ir_exc_pending) return;
  p__2epn28_2epn_2epn_2epn = v__2epn_2ei159; goto L_ehcleanup320;
 L_unreachable_2ei164: ;
  __ir_unreachable();
 L_if_2ethen234: ;
  v_61 = v_agg_2etmp_2ei117;
  v_exception_2ei119 = __cxa_allocate_exception(((u64)48ULL));
  if (__ir_exc_pending) return;
  v_62 = v_ref_2etmp_2ei118;
  _ZNSt7__cxx1112basic_stringIcSt11char_traitsIcESaIcEEC2IS3_EEPKcRKS3_(v_agg_2etmp_2ei117, ((u8*)&_2estr_2e43), v_ref_2etmp_2ei118);
  if (__ir_exc_pending) {  goto L_lpad_2ei122; } else {  goto L_invoke_2econt_2ei120; }
 L_lpad_2ei122: ;
  __ir_landingpad((u8*)&v_64);
  __ir_lp_select((u8*)&v_64, 0, (u8*[]){0});
  p__2epn_2ei125 = v_64; p_cleanup_2eisactive_2e1_2ei126 = ((u8)1ULL); goto L_ehcleanup_2ei127;
 L_invoke_2econt_2ei120: ;
  v_63 = v_exception_2ei119;
  _ZN8Pistache4Http9HttpErrorC1ENS0_4CodeENSt7__cxx1112basic_stringIcSt11char_traitsIcESaIcEEE(v_63, ((u32)415ULL), v_agg_2etmp_2ei117);
  if (__ir_exc_pending) { p_cleanup_2eisactive_2e0_2ei123 = ((u8)1ULL); goto L_lpad2_2ei124; } else {  goto L_invoke_2econt3_2ei121; }
 L_invoke_2econt3_2ei121: ;
  __cxa_throw(v_exception_2ei119, ((u8*)&_ZTIN8Pistache4Http9HttpErrorE), ((u8*)_ZN8Pistache4Http9HttpErrorD2Ev));
  if (__ir_exc_pending) { p_cleanup_2eisactive_2e0_2ei123 = ((u8)0ULL); goto L_lpad2_2ei124; } else {  goto L_unreachable_2ei130; }
 L_lpad2_2ei124: ;
  v_cleanup_2eisactive_2e0_2ei123 = p_cleanup_2eisactive_2e0_2ei123;
  __ir_landingpad((u8*)&v_65);
  __ir_lp_select((u8*)&v_65, 0, (u8*[]){0});
  _ZNSt7__cxx1112basic_stringIcSt11char_traitsIcESaIcEED2Ev(v_agg_2etmp_2ei117);
  if (__ir_exc_pending) return;
  p__2epn_2ei125 = v_65; p_cleanup_2eisactive_2e1_2ei126 = v_cleanup_2eisactive_2e0_2ei123; goto L_ehcleanup_2ei127;
 L_ehcleanup_2ei127: ;
  v__2epn_2ei125 = p__2epn_2ei125;
  v_cleanup_2eisactive_2e1_2ei126 = p_cleanup_2eisactive_2e1_2ei126;
  if (v_cleanup_2eisactive_2e1_2ei126) {  goto L_cleanup_2eaction_2ei128; } else { p__2epn28_2epn_2epn_2epn = v__2epn_2ei125; goto L_ehcleanup320; }
 L_cleanup_2eaction_2ei128: ;
  __cxa_free_exception(v_exception_2ei119);
  if (__ir_exc_pending) return;
  p__2epn28_2epn_2epn_2epn = v__2epn_2ei125; goto L_ehcleanup320;
 L_unreachable_2ei130: ;
  __ir_unreachable();
 L_if_2ethen215: ;
  v_call218 = _ZNK8Pistache12StreamCursor4nextEv(v_cursor);
  if (__ir_exc_pending) {  goto L_lpad216; } else {  goto L_invoke_2econt217; }
 L_invoke_2econt217: ;
  v_53 = ((u32)((u64)v_call218 + (u64)((u32)1ULL)));
  v_54 = ((u8)(v_53 < ((u32)2ULL)));
  if (v_54) {  goto L_if_2ethen222; } else {  goto L_if_2eend224; }
 L_if_2eend224: ;
  v_call226 = _ZN8Pistache12StreamCursor7advanceEm(v_cursor, ((u64)1ULL));
  if (__ir_exc_pending) {  goto L_lpad216; } else {  goto L_while_2econd_2ebackedge; }
 L_while_2econd_2ebackedge: ;
   goto L_while_2econd; /*LOOPBACK d=0 nest=0*/
 L_if_2ethen222: ;
  v_55 = v_agg_2etmp_2ei101;
  v_exception_2ei103 = __cxa_allocate_exception(((u64)48ULL));
  if (__ir_exc_pending) return;
  v_56 = v_ref_2etmp_2ei102;
  _ZNSt7__cxx1112basic_stringIcSt11char_traitsIcESaIcEEC2IS3_EEPKcRKS3_(v_agg_2etmp_2ei101, ((u8*)&_2estr_2e42), v_ref_2etmp_2ei102);
  if (__ir_exc_pending) {  goto L_lpad_2ei106; } else {  goto L_invoke_2econt_2ei104; }
 L_lpad_2ei106: ;
  __ir_landingpad((u8*)&v_58);
  __ir_lp_select((u8*)&v_58, 0, (u8*[]){0});
  p__2epn_2ei109 = v_58; p_cleanup_2eisactive_2e1_2ei110 = ((u8)1ULL); goto L_ehcleanup_2ei111;
 L_invoke_2econt_2ei104: ;
  v_57 = v_exception_2ei103;
  _ZN8Pistache4Http9HttpErrorC1ENS0_4CodeENSt7__cxx1112basic_stringIcSt11char_traitsIcESaIcEEE(v_57, ((u32)415ULL), v_agg_2etmp_2ei101);
  if (__ir_exc_pending) { p_cleanup_2eisactive_2e0_2ei107 = ((u8)1ULL); goto L_lpad2_2ei108; } else {  goto L_invoke_2econt3_2ei105; }
 L_invoke_2econt3_2ei105: ;
  __cxa_throw(v_exception_2ei103, ((u8*)&_ZTIN8Pistache4Http9HttpErrorE), ((u8*)_ZN8Pistache4Http9HttpErrorD2Ev));
  if (__ir_exc_pending) { p_cleanup_2eisactive_2e0_2ei107 = ((u8)0ULL); goto L_lpad2_2ei108; } else {  goto L_unreachable_2ei114; }
 L_lpad2_2ei108: ;
  v_cleanup_2eisactive_2e0_2ei107 = p_cleanup_2eisactive_2e0_2ei107;
  __ir_landingpad((u8*)&v_59);
  __ir_lp_select((u8*)&v_59, 0, (u8*[]){0});
  _ZNSt7__cxx1112basic_stringIcSt11char_traitsIcESaIcEED2Ev(v_agg_2etmp_2ei101);
  if (__ir_exc_pending) return;
  p__2epn_2ei109 = v_59; p_cleanup_2eisactive_2e1_2ei110 = v_cleanup_2eisactive_2e0_2ei107; goto L_ehcleanup_2ei111;
 L_ehcleanup_2ei111: ;
  v__2epn_2ei109 = p__2epn_2ei109;
  v_cleanup_2eisactive_2e1_2ei110 = p_cleanup_2eisactive_2e1_2ei110;
  if (v_cleanup_2eisactive_2e1_2ei110) {  goto L_cleanup_2eaction_2ei112; } else { p__2epn28_2epn_2epn_2epn = v__2epn_2ei109; goto L_ehcleanup320; }
 L_cleanup_2eaction_2ei112: ;
  __cxa_free_exception(v_exception_2ei103);
  if (__ir_exc_pending) return;
  p__2epn28_2epn_2epn_2epn = v__2epn_2ei109; goto L_ehcleanup320;
 L_unreachable_2ei114: ;
  __ir_unreachable();
 L_lpad216: ;
  __ir_landingpad((u8*)&v_60);
  __ir_lp_select((u8*)&v_60, 0, (u8*[]){0});
  p__2epn28_2epn_2epn_2epn = v_60; goto L_ehcleanup320;
 L_lpad141_2eloopexit: ;
  __ir_landingpad((u8*)&v_lpad_2eloopexit);
  __ir_lp_select((u8*)&v_lpad_2eloopexit, 0, (u8*[]){0});
  p__2epn28_2epn_2epn_2epn = v_lpad_2eloopexit; goto L_ehcleanup320;
 L_if_2ethen147: ;
  v_30 = v_agg_2etmp_2ei65;
  v_exception_2ei67 = __cxa_allocate_exception(((u64)48ULL));
  if (__ir_exc_pending) return;
  v_31 = v_ref_2etmp_2ei66;
  _ZNSt7__cxx1112basic_stringIcSt11char_traitsIcESaIcEEC2IS3_EEPKcRKS3_(v_agg_2etmp_2ei65, ((u8*)&_2estr_2e36), v_ref_2etmp_2ei66);
  if (__ir_exc_pending) {  goto L_lpad_2ei70; } else {  goto L_invoke_2econt_2ei68; }
 L_lpad_2ei70: ;
  __ir_landingpad((u8*)&v_33);
  __ir_lp_select((u8*)&v_33, 0, (u8*[]){0});
  p__2epn_2ei73 = v_33; p_cleanup_2eisactive_2e1_2ei74 = ((u8)1ULL); goto L_ehcleanup_2ei75;
 L_invoke_2econt_2ei68: ;
  v_32 = v_exception_2ei67;
  _ZN8Pistache4Http9HttpErrorC1ENS0_4CodeENSt7__cxx1112basic_stringIcSt11char_traitsIcESaIcEEE(v_32, ((u32)415ULL), v_agg_2etmp_2ei65);
  if (__ir_exc_pending) { p_cleanup_2eisactive_2e0_2ei71 = ((u8)1ULL); goto L_lpad2_2ei72; } else {  goto L_invoke_2econt3_2ei69; }
 L_invoke_2econt3_2ei69: ;
  __cxa_throw(v_exception_2ei67, ((u8*)&_ZTIN8Pistache4Http9HttpErrorE), ((u8*)_ZN8Pistache4Http9HttpErrorD2Ev));
  if (__ir_exc_pending) { p_cleanup_2eisactive_2e0_2ei71 = ((u8)0ULL); goto L_lpad2_2ei72; } else {  goto L_unreachable_2ei78; }
 L_lpad2_2ei72: ;
  v_cleanup_2eisactive_2e0_2ei71 = p_cleanup_2eisactive_2e0_2ei71;
  __ir_landingpad((u8*)&v_34);
  __ir_lp_select((u8*)&v_34, 0, (u8*[]){0});
  _ZNSt7__cxx1112basic_stringIcSt11char_traitsIcESaIcEED2Ev(v_agg_2etmp_2ei65);
  if (__ir_exc_pending) return;
  p__2epn_2ei73 = v_34; p_cleanup_2eisactive_2e1_2ei74 = v_cleanup_2eisactive_2e0_2ei71; goto L_ehcleanup_2ei75;
 L_ehcleanup_2ei75: ;
  v__2epn_2ei73 = p__2epn_2ei73;
  v_cleanup_2eisactive_2e1_2ei74 = p_cleanup_2eisactive_2e1_2ei74;
  if (v_cleanup_2eisactive_2e1_2ei74) {  goto L_cleanup_2eaction_2ei76; } else { p__2epn28_2epn_2epn_2epn = v__2epn_2ei73; goto L_ehcleanup320; }
 L_cleanup_2eaction_2ei76: ;
  __cxa_free_exception(v_exception_2ei67);
  if (__ir_exc_pending) return;
  p__2epn28_2epn_2epn_2epn = v__2epn_2ei73; goto L_ehcleanup320;
 L_unreachable_2ei78: ;
  __ir_unreachable();
 L_cleanup: ;
  v_118 = v_buf;
  *(u8**)v_118 = (((u8*)&_ZTVSt15basic_streambufIcSt11char_traitsIcEE) + (16));
  v__M_buf_locale_2ei = (v_buf + (56));
  _ZNSt6localeD1Ev(v__M_buf_locale_2ei);
  if (__ir_exc_pending) return;
  return;
 L_if_2ethen44: ;
  v_15 = v_agg_2etmp_2ei38;
  v_exception_2ei40 = __cxa_allocate_exception(((u64)48ULL));
  if (__ir_exc_pending) return;
  v_16 = v_ref_2etmp_2ei39;
  _ZNSt7__cxx1112basic_stringIcSt11char_traitsIcESaIcEEC2IS3_EEPKcRKS3_(v_agg_2etmp_2ei38, ((u8*)&_2estr_2e21), v_ref_2etmp_2ei39);
  if (__ir_exc_pending) {  goto L_lpad_2ei43; } else {  goto L_invoke_2econt_2ei41; }
 L_lpad_2ei43: ;
  __ir_landingpad((u8*)&v_18);
  __ir_lp_select((u8*)&v_18, 0, (u8*[]){0});
  p__2epn_2ei46 = v_18; p_cleanup_2eisactive_2e1_2ei47 = ((u8)1ULL); goto L_ehcleanup_2ei48;
 L_invoke_2econt_2ei41: ;
  v_17 = v_exception_2ei40;
  _ZN8Pistache4Http9HttpErrorC1ENS0_4CodeENSt7__cxx1112basic_stringIcSt11char_traitsIcESaIcEEE(v_17, ((u32)415ULL), v_agg_2etmp_2ei38);
  if (__ir_exc_pending) { p_cleanup_2eisactive_2e0_2ei44 = ((u8)1ULL); goto L_lpad2_2ei45; } else {  goto L_invoke_2econt3_2ei42; }
 L_invoke_2econt3_2ei42: ;
  __cxa_throw(v_exception_2ei40, ((u8*)&_ZTIN8Pistache4Http9HttpErrorE), ((u8*)_ZN8Pistache4Http9HttpErrorD2Ev));
  if (__ir_exc_pending) { p_cleanup_2eisactive_2e0_2ei44 = ((u8)0ULL); goto L_lpad2_2ei45; } else {  goto L_unreachable_2ei51; }
 L_lpad2_2ei45: ;
  v_cleanup_2eisactive_2e0_2ei44 = p_cleanup_2eisactive_2e0_2ei44;
  __ir_landingpad((u8*)&v_19);
  __ir_lp_select((u8*)&v_19, 0, (u8*[]){0});
  _ZNSt7__cxx1112basic_stringIcSt11char_traitsIcESaIcEED2Ev(v_agg_2etmp_2ei38);
  if (__ir_exc_pending) return;
  p__2epn_2ei46 = v_19; p_cleanup_2eisactive_2e1_2ei47 = v_cleanup_2eisactive_2e0_2ei44; goto L_ehcleanup_2ei48;
 L_ehcleanup_2ei48: ;
  v__2epn_2ei46 = p__2epn_2ei46;
  v_cleanup_2eisactive_2e1_2ei47 = p_cleanup_2eisactive_2e1_2ei47;
  if (v_cleanup_2eisactive_2e1_2ei47) {  goto L_cleanup_2eaction_2ei49; } else { p__2epn28_2epn_2epn_2epn = v__2epn_2ei46; goto L_ehcleanup320; }
 L_cleanup_2eaction_2ei49: ;
  __cxa_free_exception(v_exception_2ei40);
  if (__ir_exc_pending) return;
  p__2epn28_2epn_2epn_2epn = v__2epn_2ei46; goto L_ehcleanup320;
 L_ehcleanup320: ;
  v__2epn28_2epn_2epn_2epn = p__2epn28_2epn_2epn_2epn;
  v_119 = v_buf;
  *(u8**)v_119 = (((u8*)&_ZTVSt15basic_streambufIcSt11char_traitsIcEE) + (16));
  v__M_buf_locale_2ei223 = (v_buf + (56));
  _ZNSt6localeD1Ev(v__M_buf_locale_2ei223);
  if (__ir_exc_pending) return;
  __ir_resume(*(u8**)&v__2epn28_2epn_2epn_2epn); return;
 L_unreachable_2ei51: ;
  __ir_unreachable();
}

void _ZNK8Pistache4Http4Mime9MediaType8toStringB5cxx11Ev(u8* v_agg_2eresult, u8* v_this) {
  u8* v_res;
  u8* v_quality;
  u8* v_ref_2etmp;
  u8* v___begin2;
  u8* v___end2;
  u8* v_ref_2etmp44;
  u8* v_ref_2etmp45;
  u8* v_raw_;
  u8 v_call;
  u8* v_0;
  u8* v_top_;
  u32 v_1;
  u8 v_2;
  u64 v_3;
  u8* v_switch_2egep;
  u8* v_switch_2eload;
  u8* v_retval_2e0_2ei;
  u8* p_retval_2e0_2ei;
  u8* v_call6;
  u8* v_call8;
  u8* v_sub_;
  u32 v_4;
  u8 v_5;
  u64 v_6;
  u8* v_switch_2egep38;
  u8* v_switch_2eload39;
  u8* v_retval_2e0_2ei22;
  u8* p_retval_2e0_2ei22;
  u8* v_call12;
  u8* v_suffix_;
  u32 v_7;
  u8* v_retval_2e0_2ei30;
  u8* p_retval_2e0_2ei30;
  u8* v_call18;
  agg16_8 v_8;
  u8* v_q_;
  u8 v_call20;
  u8* v_9;
  u8* v_10;
  u8* v_call_2ei;
  u8* v_11;
  u8* v_12;
  u16 v_13;
  u8* v_call26;
  u8* v_14;
  u8* v_call31;
  agg16_8 v_15;
  agg16_8 v_16;
  agg16_8 v_17;
  agg16_8 v__2epn10;
  agg16_8 p__2epn10;
  agg16_8 v__2epn10_2epn;
  agg16_8 p__2epn10_2epn;
  u8* v_params;
  u8* v_18;
  u8* v_call34;
  u8* v_coerce_2edive35;
  u8* v_19;
  u8* v_call36;
  u8* v_coerce_2edive38;
  u8* v_20;
  u8* v_21;
  u8 v_call3936;
  u8* v_22;
  u8* v_23;
  u8* v_call40;
  u8* v_call43;
  u8* v_first;
  u8* v_second;
  u8* v_call52;
  u8* v_call58;
  u8 v_call39;
  agg16_8 v_24;
  agg16_8 v_25;
  agg16_8 v_26;
  agg16_8 v_27;
  agg16_8 v__2epn;
  agg16_8 p__2epn;
  agg16_8 v__2epn_2epn;
  agg16_8 p__2epn_2epn;
  u8* v_28;
  u8* v_29;
  agg16_8 v__2epn_2epn_2epn;
  agg16_8 p__2epn_2epn_2epn;
  agg16_8 v__2epn_2epn_2epn_2epn;
  agg16_8 p__2epn_2epn_2epn_2epn;
 L_entry: ;
  static u8 a_res_dummy; u8 a_res[32] __attribute__((aligned(8))); v_res = a_res;
  static u8 a_quality_dummy; u8 a_quality[2] __attribute__((aligned(2))); v_quality = a_quality;
  static u8 a_ref_2etmp_dummy; u8 a_ref_2etmp[32] __attribute__((aligned(8))); v_ref_2etmp = a_ref_2etmp;
  static u8 a___begin2_dummy; u8 a___begin2[8] __attribute__((aligned(8))); v___begin2 = a___begin2;
  static u8 a___end2_dummy; u8 a___end2[8] __attribute__((aligned(8))); v___end2 = a___end2;
  static u8 a_ref_2etmp44_dummy; u8 a_ref_2etmp44[32] __attribute__((aligned(8))); v_ref_2etmp44 = a_ref_2etmp44;
  static u8 a_ref_2etmp45_dummy; u8 a_ref_2etmp45[32] __attribute__((aligned(8))); v_ref_2etmp45 = a_ref_2etmp45;
  v_raw_ = (v_this + (16));
  v_call = _ZNKSt7__cxx1112basic_stringIcSt11char_traitsIcESaIcEE5emptyEv(v_raw_);
  if (__ir_exc_pending) return;
  if (v_call) {  goto L_if_2eend; } else {  goto L_if_2ethen; }
 L_if_2ethen: ;
  _ZNSt7__cxx1112basic_stringIcSt11char_traitsIcESaIcEEC2ERKS4_(v_agg_2eresult, v_raw_);
  if (__ir_exc_pending) return;
   goto L_return;
 L_if_2eend: ;
  v_0 = v_res;
  _ZNSt7__cxx1112basic_stringIcSt11char_traitsIcESaIcEEC2Ev(v_res);
  if (__ir_exc_pending) return;
  _ZNSt7__cxx1112basic_stringIcSt11char_traitsIcESaIcEE7reserveEm(v_res, ((u64)128ULL));
  if (__ir_exc_pending) {  goto L_lpad; } else {  goto L_invoke_2econt; }
 L_invoke_2econt: ;
  v_top_ = v_this;
  v_1 = *(u32*)v_top_;
  v_2 = ((u8)(v_1 < ((u32)8ULL)));
  if (v_2) {  goto L_switch_2elookup; } else { p_retval_2e0_2ei = ((u8*)&_2estr_2e50); goto L__ZZNK8Pistache4Http4Mime9MediaType8toStringB5cxx11EvENK3_24_1clENS1_4TypeE_2eexit; }
 L_switch_2elookup: ;
  v_3 = ((u64)((i32)v_1));
  v_switch_2egep = (((u8*)&switch_2etable_2e_ZNK8Pistache4Http4Mime9MediaType8toStringB5cxx11Ev) + (((i64)(i64)v_3)*8));
  v_switch_2eload = *(u8**)v_switch_2egep;
  p_retval_2e0_2ei = v_switch_2eload; goto L__ZZNK8Pistache4Http4Mime9MediaType8toStringB5cxx11EvENK3_24_1clENS1_4TypeE_2eexit;
 L__ZZNK8Pistache4Http4Mime9MediaType8toStringB5cxx11EvENK3_24_1clENS1_4TypeE_2eexit: ;
  v_retval_2e0_2ei = p_retval_2e0_2ei;
  v_call6 = _ZNSt7__cxx1112basic_stringIcSt11char_traitsIcESaIcEEpLEPKc(v_res, v_retval_2e0_2ei);
  if (__ir_exc_pending) {  goto L_lpad; } else {  goto L_invoke_2econt5; }
 L_invoke_2econt5: ;
  v_call8 = _ZNSt7__cxx1112basic_stringIcSt11char_traitsIcESaIcEEpLEPKc(v_res, ((u8*)&_2estr_2e46));
  if (__ir_exc_pending) {  goto L_lpad; } else {  goto L_invoke_2econt7; }
 L_invoke_2econt7: ;
  v_sub_ = (v_this + (4));
  v_4 = *(u32*)v_sub_;
  v_5 = ((u8)(v_4 < ((u32)17ULL)));
  if (v_5) {  goto L_switch_2elookup37; } else { p_retval_2e0_2ei22 = ((u8*)&_2estr_2e50); goto L__ZZNK8Pistache4Http4Mime9MediaType8toStringB5cxx11EvENK3_24_2clENS1_7SubtypeE_2eexit; }
 L_switch_2elookup37: ;
  v_6 = ((u64)((i32)v_4));
  v_switch_2egep38 = (((u8*)&switch_2etable_2e_ZNK8Pistache4Http4Mime9MediaType8toStringB5cxx11Ev_2e1) + (((i64)(i64)v_6)*8));
  v_switch_2eload39 = *(u8**)v_switch_2egep38;
  p_retval_2e0_2ei22 = v_switch_2eload39; goto L__ZZNK8Pistache4Http4Mime9MediaType8toStringB5cxx11EvENK3_24_2clENS1_7SubtypeE_2eexit;
 L__ZZNK8Pistache4Http4Mime9MediaType8toStringB5cxx11EvENK3_24_2clENS1_7SubtypeE_2eexit: ;
  v_retval_2e0_2ei22 = p_retval_2e0_2ei22;
  v_call12 = _ZNSt7__cxx1112basic_stringIcSt11char_traitsIcESaIcEEpLEPKc(v_res, v_retval_2e0_2ei22);
  if (__ir_exc_pending) {  goto L_lpad; } else {  goto L_invoke_2econt11; }
 L_invoke_2econt11: ;
  v_suffix_ = (v_this + (8));
  v_7 = *(u32*)v_suffix_;
  switch (v_7) {
   case ((u32)7ULL): {  goto L_if_2eend19; }
   case ((u32)0ULL): { p_retval_2e0_2ei30 = ((u8*)&_2estr_2e51); goto L__ZZNK8Pistache4Http4Mime9MediaType8toStringB5cxx11EvENK3_24_3clENS1_6SuffixE_2eexit; }
   case ((u32)1ULL): {  goto L_sw_2ebb2_2ei23; }
   case ((u32)2ULL): {  goto L_sw_2ebb3_2ei24; }
   case ((u32)3ULL): {  goto L_sw_2ebb4_2ei25; }
   case ((u32)4ULL): {  goto L_sw_2ebb5_2ei26; }
   case ((u32)5ULL): {  goto L_sw_2ebb6_2ei27; }
   case ((u32)6ULL): {  goto L_sw_2ebb7_2ei28; }
   default: {  goto L_sw_2edefault_2ei29; } }
 L_sw_2ebb7_2ei28: ;
  p_retval_2e0_2ei30 = ((u8*)&_2estr_2e57); goto L__ZZNK8Pistache4Http4Mime9MediaType8toStringB5cxx11EvENK3_24_3clENS1_6SuffixE_2eexit;
 L_sw_2ebb6_2ei27: ;
  p_retval_2e0_2ei30 = ((u8*)&_2estr_2e56); goto L__ZZNK8Pistache4Http4Mime9MediaType8toStringB5cxx11EvENK3_24_3clENS1_6SuffixE_2eexit;
 L_sw_2ebb5_2ei26: ;
  p_retval_2e0_2ei30 = ((u8*)&_2estr_2e55); goto L__ZZNK8Pistache4Http4Mime9MediaType8toStringB5cxx11EvENK3_24_3clENS1_6SuffixE_2eexit;
 L_sw_2ebb4_2ei25: ;
  p_retval_2e0_2ei30 = ((u8*)&_2estr_2e54); goto L__ZZNK8Pistache4Http4Mime9MediaType8toStringB5cxx11EvENK3_24_3clENS1_6SuffixE_2eexit;
 L_sw_2ebb3_2ei24: ;
  p_retval_2e0_2ei30 = ((u8*)&_2estr_2e53); goto L__ZZNK8Pistache4Http4Mime9MediaType8toStringB5cxx11EvENK3_24_3clENS1_6SuffixE_2eexit;
 L_sw_2ebb2_2ei23: ;
  p_retval_2e0_2ei30 = ((u8*)&_2estr_2e52); goto L__ZZNK8Pistache4Http4Mime9MediaType8toStringB5cxx11EvENK3_24_3clENS1_6SuffixE_2eexit;
 L_sw_2edefault_2ei29: ;
  p_retval_2e0_2ei30 = ((u8*)&_2estr_2e50); goto L__ZZNK8Pistache4Http4Mime9MediaType8toStringB5cxx11EvENK3_24_3clENS1_6SuffixE_2eexit;
 L__ZZNK8Pistache4Http4Mime9MediaType8toStringB5cxx11EvENK3_24_3clENS1_6SuffixE_2eexit: ;
  v_retval_2e0_2ei30 = p_retval_2e0_2ei30;
  v_call18 = _ZNSt7__cxx1112basic_stringIcSt11char_traitsIcESaIcEEpLEPKc(v_res, v_retval_2e0_2ei30);
  if (__ir_exc_pending) {  goto L_lpad; } else {  goto L_if_2eend19; }
 L_lpad: ;
  __ir_landingpad((u8*)&v_8);
  __ir_lp_select((u8*)&v_8, 0, (u8*[]){0});
  p__2epn_2epn_2epn_2epn = v_8; goto L_ehcleanup62;
 L_if_2eend19: ;
  v_q_ = (v_this + (136));
  v_call20 = _ZNKSt8optionalIN8Pistache4Http4Mime1QEE9has_valueEv(v_q_);
  if (__ir_exc_pending) return;
  if (v_call20) {  goto L_if_2ethen21; } else {  goto L_if_2eend33; }
 L_if_2ethen21: ;
  v_9 = v_quality;
  v_10 = v_q_;
  v_call_2ei = _ZNKSt19_Optional_base_implIN8Pistache4Http4Mime1QESt14_Optional_baseIS3_Lb1ELb1EEE6_M_getEv(v_10);
  if (__ir_exc_pending) return;
  v_11 = v_call_2ei;
  v_12 = v_quality;
  v_13 = *(u16*)v_11;
  *(u16*)v_12 = v_13;
  v_call26 = _ZNSt7__cxx1112basic_stringIcSt11char_traitsIcESaIcEEpLEPKc(v_res, ((u8*)&_2estr_2e47));
  if (__ir_exc_pending) {  goto L_lpad24; } else {  goto L_invoke_2econt25; }
 L_lpad24: ;
  __ir_landingpad((u8*)&v_15);
  __ir_lp_select((u8*)&v_15, 0, (u8*[]){0});
  p__2epn10_2epn = v_15; goto L_ehcleanup32;
 L_invoke_2econt25: ;
  v_14 = v_ref_2etmp;
  _ZNK8Pistache4Http4Mime1Q8toStringB5cxx11Ev(v_ref_2etmp, v_quality);
  if (__ir_exc_pending) {  goto L_lpad27; } else {  goto L_invoke_2econt28; }
 L_lpad27: ;
  __ir_landingpad((u8*)&v_16);
  __ir_lp_select((u8*)&v_16, 0, (u8*[]){0});
  p__2epn10 = v_16; goto L_ehcleanup;
 L_invoke_2econt28: ;
  v_call31 = _ZNSt7__cxx1112basic_stringIcSt11char_traitsIcESaIcEEpLERKS4_(v_res, v_ref_2etmp);
  if (__ir_exc_pending) {  goto L_lpad29; } else {  goto L_invoke_2econt30; }
 L_lpad29: ;
  __ir_landingpad((u8*)&v_17);
  __ir_lp_select((u8*)&v_17, 0, (u8*[]){0});
  _ZNSt7__cxx1112basic_stringIcSt11char_traitsIcESaIcEED2Ev(v_ref_2etmp);
  if (__ir_exc_pending) return;
  p__2epn10 = v_17; goto L_ehcleanup;
 L_ehcleanup: ;
  v__2epn10 = p__2epn10;
  p__2epn10_2epn = v__2epn10; goto L_ehcleanup32;
 L_ehcleanup32: ;
  v__2epn10_2epn = p__2epn10_2epn;
  p__2epn_2epn_2epn_2epn = v__2epn10_2epn; goto L_ehcleanup62;
 L_invoke_2econt30: ;
  _ZNSt7__cxx1112basic_stringIcSt11char_traitsIcESaIcEED2Ev(v_ref_2etmp);
  if (__ir_exc_pending) return;
   goto L_if_2eend33;
 L_if_2eend33: ;
  v_params = (v_this + (80));
  v_18 = v___begin2;
  v_call34 = _ZNKSt13unordered_mapINSt7__cxx1112basic_stringIcSt11char_traitsIcESaIcEEES5_St4hashIS5_ESt8equal_toIS5_ESaISt4pairIKS5_S5_EEE5beginEv(v_params);
  if (__ir_exc_pending) return;
  v_coerce_2edive35 = v___begin2;
  *(u8**)v_coerce_2edive35 = v_call34;
  v_19 = v___end2;
  v_call36 = _ZNKSt13unordered_mapINSt7__cxx1112basic_stringIcSt11char_traitsIcESaIcEEES5_St4hashIS5_ESt8equal_toIS5_ESaISt4pairIKS5_S5_EEE3endEv(v_params);
  if (__ir_exc_pending) return;
  v_coerce_2edive38 = v___end2;
  *(u8**)v_coerce_2edive38 = v_call36;
  v_20 = v___begin2;
  v_21 = v___end2;
  v_call3936 = _ZNSt8__detailneERKNS_19_Node_iterator_baseISt4pairIKNSt7__cxx1112basic_stringIcSt11char_traitsIcESaIcEEES7_ELb1EEESC_(v_20, v_21);
  if (__ir_exc_pending) return;
  if (v_call3936) {  goto L_for_2ebody_2elr_2eph; } else {  goto L_for_2econd_2ecleanup; }
 L_for_2ebody_2elr_2eph: ;
  v_22 = v_ref_2etmp44;
  v_23 = v_ref_2etmp45;
   goto L_for_2ebody;
 L_for_2ebody: ;
  v_call40 = _ZNKSt8__detail20_Node_const_iteratorISt4pairIKNSt7__cxx1112basic_stringIcSt11char_traitsIcESaIcEEES7_ELb0ELb1EEdeEv(v___begin2);
  if (__ir_exc_pending) return;
  v_call43 = _ZNSt7__cxx1112basic_stringIcSt11char_traitsIcESaIcEEpLEPKc(v_res, ((u8*)&_2estr_2e47));
  if (__ir_exc_pending) {  goto L_lpad41; } else {  goto L_invoke_2econt42; }
 L_invoke_2econt42: ;
  v_first = v_call40;
  _ZStplIcSt11char_traitsIcESaIcEENSt7__cxx1112basic_stringIT_T0_T1_EERKS8_PKS5_(v_ref_2etmp45, v_first, ((u8*)&_2estr_2e48));
  if (__ir_exc_pending) {  goto L_lpad46; } else {  goto L_invoke_2econt47; }
 L_invoke_2econt47: ;
  v_second = (v_call40 + (32));
  _ZStplIcSt11char_traitsIcESaIcEENSt7__cxx1112basic_stringIT_T0_T1_EEOS8_RKS8_(v_ref_2etmp44, v_ref_2etmp45, v_second);
  if (__ir_exc_pending) {  goto L_lpad48; } else {  goto L_invoke_2econt49; }
 L_invoke_2econt49: ;
  v_call52 = _ZNSt7__cxx1112basic_stringIcSt11char_traitsIcESaIcEEpLERKS4_(v_res, v_ref_2etmp44);
  if (__ir_exc_pending) {  goto L_lpad50; } else {  goto L_invoke_2econt51; }
 L_invoke_2econt51: ;
  _ZNSt7__cxx1112basic_stringIcSt11char_traitsIcESaIcEED2Ev(v_ref_2etmp44);
  if (__ir_exc_pending) return;
  _ZNSt7__cxx1112basic_stringIcSt11char_traitsIcESaIcEED2Ev(v_ref_2etmp45);
  if (__ir_exc_pending) return;
  v_call58 = _ZNSt8__detail20_Node_const_iteratorISt4pairIKNSt7__cxx1112basic_stringIcSt11char_traitsIcESaIcEEES7_ELb0ELb1EEppEv(v___begin2);
  if (__ir_exc_pending) return;
  v_call39 = _ZNSt8__detailneERKNS_19_Node_iterator_baseISt4pairIKNSt7__cxx1112basic_stringIcSt11char_traitsIcESaIcEEES7_ELb1EEESC_(v_20, v_21);
  if (__ir_exc_pending) return;
  if (v_call39) {  goto L_for_2ebody; /*LOOPBACK d=0 nest=0*/ } else {  goto L_for_2econd_2ecleanup; }
 L_for_2econd_2ecleanup: ;
  _ZNSt7__cxx1112basic_stringIcSt11char_traitsIcESaIcEEC2EOS4_(v_agg_2eresult, v_res);
  if (__ir_exc_pending) return;
  _ZNSt7__cxx1112basic_stringIcSt11char_traitsIcESaIcEED2Ev(v_res);
  if (__ir_exc_pending) return;
   goto L_return;
 L_return: ;
  return;
 L_lpad50: ;
  __ir_landingpad((u8*)&v_27);
  __ir_lp_select((u8*)&v_27, 0, (u8*[]){0});
  _ZNSt7__cxx1112basic_stringIcSt11char_traitsIcESaIcEED2Ev(v_ref_2etmp44);
  if (__ir_exc_pending) return;
  p__2epn = v_27; goto L_ehcleanup54;
 L_lpad48: ;
  __ir_landingpad((u8*)&v_26);
  __ir_lp_select((u8*)&v_26, 0, (u8*[]){0});
  p__2epn = v_26; goto L_ehcleanup54;
 L_ehcleanup54: ;
  v__2epn = p__2epn;
  _ZNSt7__cxx1112basic_stringIcSt11char_traitsIcESaIcEED2Ev(v_ref_2etmp45);
  if (__ir_exc_pending) return;
  p__2epn_2epn = v__2epn; goto L_ehcleanup55;
 L_lpad46: ;
  __ir_landingpad((u8*)&v_25);
  __ir_lp_select((u8*)&v_25, 0, (u8*[]){0});
  p__2epn_2epn = v_25; goto L_ehcleanup55;
 L_ehcleanup55: ;
  v__2epn_2epn = p__2epn_2epn;
  v_28 = v_ref_2etmp45;
  v_29 = v_ref_2etmp44;
  p__2epn_2epn_2epn = v__2epn_2epn; goto L_ehcleanup57;
 L_lpad41: ;
  __ir_landingpad((u8*)&v_24);
  __ir_lp_select((u8*)&v_24, 0, (u8*[]){0});
  p__2epn_2epn_2epn = v_24; goto L_ehcleanup57;
 L_ehcleanup57: ;
  v__2epn_2epn_2epn = p__2epn_2epn_2epn;
  p__2epn_2epn_2epn_2epn = v__2epn_2epn_2epn; goto L_ehcleanup62;
 L_ehcleanup62: ;
  v__2epn_2epn_2epn_2epn = p__2epn_2epn_2epn_2epn;
  _ZNSt7__cxx1112basic_stringIcSt11char_traitsIcESaIcEED2Ev(v_res);
  if (__ir_exc_pending) return;
  __ir_resume(*(u8**)&v__2epn_2epn_2epn_2epn); return;
}

void _ZNK8Pistache4Http4Mime1Q8toStringB5cxx11Ev(u8* v_agg_2eresult, u8* v_this) {
  u8* v_ref_2etmp;
  u8* v_ref_2etmp6;
  u8* v_buff;
  u8* v_ref_2etmp27;
  u8* v_val_;
  u16 v_0;
  u8* v_1;
  u8* v_2;
  u8* v_3;
  u16 v_4;
  u8 v_cmp12;
  double v_conv17;
  double v_div;
  u8* v__2e;
  u32 v_call24;
  u8* v_5;
 L_entry: ;
  static u8 a_ref_2etmp_dummy; u8 a_ref_2etmp[1] __attribute__((aligned(1))); v_ref_2etmp = a_ref_2etmp;
  static u8 a_ref_2etmp6_dummy; u8 a_ref_2etmp6[1] __attribute__((aligned(1))); v_ref_2etmp6 = a_ref_2etmp6;
  static u8 a_buff_dummy; u8 a_buff[7] __attribute__((aligned(1))); v_buff = a_buff;
  static u8 a_ref_2etmp27_dummy; u8 a_ref_2etmp27[1] __attribute__((aligned(1))); v_ref_2etmp27 = a_ref_2etmp27;
  v_val_ = v_this;
  v_0 = *(u16*)v_val_;
  switch (v_0) {
   case ((u16)0ULL): {  goto L_if_2ethen; }
   case ((u16)100ULL): {  goto L_if_2ethen5; }
   default: {  goto L_if_2eend9; } }
 L_if_2ethen5: ;
  v_2 = v_ref_2etmp6;
  _ZNSt7__cxx1112basic_stringIcSt11char_traitsIcESaIcEEC2IS3_EEPKcRKS3_(v_agg_2eresult, ((u8*)&_2estr_2e1), v_ref_2etmp6);
  if (__ir_exc_pending) return;
   goto L_return;
 L_if_2ethen: ;
  v_1 = v_ref_2etmp;
  _ZNSt7__cxx1112basic_stringIcSt11char_traitsIcESaIcEEC2IS3_EEPKcRKS3_(v_agg_2eresult, ((u8*)&_2estr), v_ref_2etmp);
  if (__ir_exc_pending) return;
   goto L_return;
 L_if_2eend9: ;
  v_3 = v_buff;
  __ir_memset_c(v_3, ((u8)0ULL), (u64)((u64)7ULL));
  if (__ir_exc_pending) return;
  v_4 = ((u16)((u64)v_0 % (u64)((u16)10ULL)));
  v_cmp12 = ((u8)(v_4 == ((u16)0ULL)));
  v_conv17 = ((double)v_0);
  v_div = (v_conv17 / 1.000000e+02);
  v__2e = v_cmp12 ? ((u8*)&_2estr_2e2) : ((u8*)&_2estr_2e3);
  v_call24 = ((u32 (*)(u8*, u64, u8*, double))x_snprintf)(v_3, ((u64)7ULL), v__2e, v_div);
  if (__ir_exc_pending) return;
  v_5 = v_ref_2etmp27;
  _ZNSt7__cxx1112basic_stringIcSt11char_traitsIcESaIcEEC2IS3_EEPKcRKS3_(v_agg_2eresult, v_3, v_ref_2etmp27);
  if (__ir_exc_pending) return;
   goto L_return;
 L_return: ;
  return;
}

void _ZZN8Pistache4Http4Mime9MediaType8parseRawEPKcmENK3_24_0clES4_(u8* v_str) {
  u8* v_agg_2etmp;
  u8* v_ref_2etmp;
  u8* v_exception;
  u8* v_0;
  u8* v_1;
  agg16_8 v_2;
  u8 v_cleanup_2eisactive_2e0;
  u8 p_cleanup_2eisactive_2e0;
  agg16_8 v_3;
  agg16_8 v__2epn;
  agg16_8 p__2epn;
  u8 v_cleanup_2eisactive_2e1;
  u8 p_cleanup_2eisactive_2e1;
 L_entry: ;
  static u8 a_agg_2etmp_dummy; u8 a_agg_2etmp[32] __attribute__((aligned(8))); v_agg_2etmp = a_agg_2etmp;
  static u8 a_ref_2etmp_dummy; u8 a_ref_2etmp[1] __attribute__((aligned(1))); v_ref_2etmp = a_ref_2etmp;
  v_exception = __cxa_allocate_exception(((u64)48ULL));
  if (__ir_exc_pending) return;
  v_0 = v_ref_2etmp;
  _ZNSt7__cxx1112basic_stringIcSt11char_traitsIcESaIcEEC2IS3_EEPKcRKS3_(v_agg_2etmp, v_str, v_ref_2etmp);
  if (__ir_exc_pending) {  goto L_lpad; } else {  goto L_invoke_2econt; }
 L_lpad: ;
  __ir_landingpad((u8*)&v_2);
  __ir_lp_select((u8*)&v_2, 0, (u8*[]){0});
  p__2epn = v_2; p_cleanup_2eisactive_2e1 = ((u8)1ULL); goto L_ehcleanup;
 L_invoke_2econt: ;
  v_1 = v_exception;
  _ZN8Pistache4Http9HttpErrorC1ENS0_4CodeENSt7__cxx1112basic_stringIcSt11char_traitsIcESaIcEEE(v_1, ((u32)415ULL), v_agg_2etmp);
  if (__ir_exc_pending) { p_cleanup_2eisactive_2e0 = ((u8)1ULL); goto L_lpad2; } else {  goto L_invoke_2econt3; }
 L_invoke_2econt3: ;
  __cxa_throw(v_exception, ((u8*)&_ZTIN8Pistache4Http9HttpErrorE), ((u8*)_ZN8Pistache4Http9HttpErrorD2Ev));
  if (__ir_exc_pending) { p_cleanup_2eisactive_2e0 = ((u8)0ULL); goto L_lpad2; } else {  goto L_unreachable; }
 L_lpad2: ;
  v_cleanup_2eisactive_2e0 = p_cleanup_2eisactive_2e0;
  __ir_landingpad((u8*)&v_3);
  __ir_lp_select((u8*)&v_3, 0, (u8*[]){0});
  _ZNSt7__cxx1112basic_stringIcSt11char_traitsIcESaIcEED2Ev(v_agg_2etmp);
  if (__ir_exc_pending) return;
  p__2epn = v_3; p_cleanup_2eisactive_2e1 = v_cleanup_2eisactive_2e0; goto L_ehcleanup;
 L_ehcleanup: ;
  v__2epn = p__2epn;
  v_cleanup_2eisactive_2e1 = p_cleanup_2eisactive_2e1;
  if (v_cleanup_2eisactive_2e1) {  goto L_cleanup_2eaction; } else {  goto L_eh_2eresume; }
 L_cleanup_2eaction: ;
  __cxa_free_exception(v_exception);
  if (__ir_exc_pending) return;
   goto L_eh_2eresume;
 L_eh_2eresume: ;
  __ir_resume(*(u8**)&v__2epn); return;
 L_unreachable: ;
  __ir_unreachable();
}

void _ZN8Pistache4Http9HttpErrorD2Ev(u8* v_this) {
  u8* v_0;
  u8* v_reason_;
  u8* v_1;
 L_entry: ;
  v_0 = v_this;
  *(u8**)v_0 = (((u8*)&_ZTVN8Pistache4Http9HttpErrorE) + (16));
  v_reason_ = (v_this + (16));
  _ZNSt7__cxx1112basic_stringIcSt11char_traitsIcESaIcEED2Ev(v_reason_);
  if (__ir_exc_pending) return;
  v_1 = v_this;
  _ZNSt9exceptionD2Ev(v_1);
  if (__ir_exc_pending) return;
  return;
}

void _ZN8Pistache12RawStreamBufIcED0Ev(u8* v_this) {
  u8* v_0;
  u8* v__M_buf_locale_2ei;
  u8* v_1;
 L_entry: ;
  v_0 = v_this;
  *(u8**)v_0 = (((u8*)&_ZTVSt15basic_streambufIcSt11char_traitsIcEE) + (16));
  v__M_buf_locale_2ei = (v_this + (56));
  _ZNSt6localeD1Ev(v__M_buf_locale_2ei);
  if (__ir_exc_pending) return;
  v_1 = v_this;
  _ZdlPv(v_1);
  if (__ir_exc_pending) return;
  return;
}

void _ZN8Pistache4Http9HttpErrorD0Ev(u8* v_this) {
  u8* v_0;
  u8* v_reason__2ei;
  u8* v_1;
  u8* v_2;
 L_entry: ;
  v_0 = v_this;
  *(u8**)v_0 = (((u8*)&_ZTVN8Pistache4Http9HttpErrorE) + (16));
  v_reason__2ei = (v_this + (16));
  _ZNSt7__cxx1112basic_stringIcSt11char_traitsIcESaIcEED2Ev(v_reason__2ei);
  if (__ir_exc_pending) return;
  v_1 = v_this;
  _ZNSt9exceptionD2Ev(v_1);
  if (__ir_exc_pending) return;
  v_2 = v_this;
  _ZdlPv(v_2);
  if (__ir_exc_pending) return;
  return;
}

u8* _ZNK8Pistache4Http9HttpError4whatEv(u8* v_this) {
  u8* v_reason_;
  u8* v_call;
 L_entry: ;
  v_reason_ = (v_this + (16));
  v_call = _ZNKSt7__cxx1112basic_stringIcSt11char_traitsIcESaIcEE5c_strEv(v_reason_);
  if (__ir_exc_pending) return ((u8*)0);
  return v_call;
}

