; ModuleID = '/verif/.scratch/C18_mime/mime.marked.ll'
source_filename = "/repo/src/common/mime.cc"
target datalayout = "e-m:e-p270:32:32-p271:32:32-p272:64:64-i64:64-f80:128-n8:16:32:64-S128"
target triple = "x86_64-pc-linux-gnu"

%"class.std::ios_base::Init" = type { i8 }
%struct.Extension = type { i8*, i32, i32 }
%"struct.std::piecewise_construct_t" = type { i8 }
%"class.std::__cxx11::basic_string" = type { %"struct.std::__cxx11::basic_string<char>::_Alloc_hider", i64, %union.anon }
%"struct.std::__cxx11::basic_string<char>::_Alloc_hider" = type { i8* }
%union.anon = type { i64, [8 x i8] }
%"class.Pistache::Http::Mime::Q" = type { i16 }
%"class.std::allocator" = type { i8 }
%"class.Pistache::Http::Mime::MediaType" = type <{ i32, i32, i32, [4 x i8], %"class.std::__cxx11::basic_string", %"struct.Pistache::Http::Mime::MediaType::Index", %"struct.Pistache::Http::Mime::MediaType::Index", %"class.std::unordered_map", %"class.std::optional", [4 x i8] }>
%"struct.Pistache::Http::Mime::MediaType::Index" = type { i64, i64 }
%"class.std::unordered_map" = type { %"class.std::_Hashtable" }
%"class.std::_Hashtable" = type { %"struct.std::__detail::_Hash_node_base"**, i64, %"struct.std::__detail::_Hash_node_base", i64, %"struct.std::__detail::_Prime_rehash_policy", %"struct.std::__detail::_Hash_node_base"* }
%"struct.std::__detail::_Hash_node_base" = type { %"struct.std::__detail::_Hash_node_base"* }
%"struct.std::__detail::_Prime_rehash_policy" = type { float, i64 }
%"class.std::optional" = type { %"struct.std::_Optional_base" }
%"struct.std::_Optional_base" = type { %"struct.std::_Optional_payload" }
%"struct.std::_Optional_payload" = type { %"struct.std::_Optional_payload_base.base", i8 }
%"struct.std::_Optional_payload_base.base" = type <{ %"union.std::_Optional_payload_base<Pistache::Http::Mime::Q>::_Storage", i8 }>
%"union.std::_Optional_payload_base<Pistache::Http::Mime::Q>::_Storage" = type { %"class.Pistache::Http::Mime::Q" }
%"class.Pistache::RawStreamBuf" = type { %"class.Pistache::StreamBuf" }
%"class.Pistache::StreamBuf" = type { %"class.std::basic_streambuf" }
%"class.std::basic_streambuf" = type { i32 (...)**, i8*, i8*, i8*, i8*, i8*, i8*, %"class.std::locale" }
%"class.std::locale" = type { %"class.std::locale::_Impl"* }
%"class.std::locale::_Impl" = type { i32, %"class.std::locale::facet"**, i64, %"class.std::locale::facet"**, i8** }
%"class.std::locale::facet" = type <{ i32 (...)**, i32, [4 x i8] }>
%"class.Pistache::StreamCursor" = type { %"class.Pistache::StreamBuf"* }
%"struct.std::pair.5" = type { %"class.std::__cxx11::basic_string", %"class.std::__cxx11::basic_string" }
%"struct.Pistache::Http::HttpError" = type { %"class.std::exception", i32, %"class.std::__cxx11::basic_string" }
%"class.std::exception" = type { i32 (...)** }
%"class.std::runtime_error" = type { %"class.std::exception", %"struct.std::__cow_string" }
%"struct.std::__cow_string" = type { %union.anon.30 }
%union.anon.30 = type { i8* }
%"struct.std::__detail::_Hash_node" = type { %"struct.std::__detail::_Hash_node_base", %"struct.std::__detail::_Hash_node_value" }
%"struct.std::__detail::_Hash_node_value" = type { %"struct.std::__detail::_Hash_node_value_base", %"struct.std::__detail::_Hash_node_code_cache" }
%"struct.std::__detail::_Hash_node_value_base" = type { %"struct.__gnu_cxx::__aligned_buffer" }
%"struct.__gnu_cxx::__aligned_buffer" = type { %"union.std::aligned_storage<64, 8>::type" }
%"union.std::aligned_storage<64, 8>::type" = type { [64 x i8] }
%"struct.std::__detail::_Hash_node_code_cache" = type { i64 }
%"class.std::_Optional_base_impl" = type { i8 }
%"class.std::optional.8" = type { %"struct.std::_Optional_base.9" }
%"struct.std::_Optional_base.9" = type { %"struct.std::_Optional_payload.11" }
%"struct.std::_Optional_payload.11" = type { %"struct.std::_Optional_payload.base.15", [7 x i8] }
%"struct.std::_Optional_payload.base.15" = type { %"struct.std::_Optional_payload_base.base.14" }
%"struct.std::_Optional_payload_base.base.14" = type <{ %"union.std::_Optional_payload_base<std::__cxx11::basic_string<char>>::_Storage", i8 }>
%"union.std::_Optional_payload_base<std::__cxx11::basic_string<char>>::_Storage" = type { %"class.std::__cxx11::basic_string" }
%"struct.std::__detail::_Node_const_iterator" = type { %"struct.std::__detail::_Node_iterator_base" }
%"struct.std::__detail::_Node_iterator_base" = type { %"struct.std::__detail::_Hash_node"* }
%"struct.std::pair.18" = type { %"class.std::__cxx11::basic_string", %"class.std::__cxx11::basic_string" }
%"struct.std::__detail::_Map_base" = type { i8 }
%"struct.std::__detail::_Hashtable_base" = type { i8 }
%"struct.std::__detail::_Hashtable_alloc" = type { i8 }
%"struct.std::__detail::_Hash_code_base" = type { i8 }
%"struct.std::__detail::_Hashtable_ebo_helper.0" = type { i8 }
%"struct.std::__detail::_Hashtable_ebo_helper.1" = type { i8 }
%"struct.std::__detail::_Hashtable_ebo_helper" = type { i8 }
%"struct.std::_Optional_payload_base" = type <{ %"union.std::_Optional_payload_base<Pistache::Http::Mime::Q>::_Storage", i8, i8 }>
%"class.std::allocator.2" = type { i8 }
%"struct.std::_Optional_payload.12" = type { %"struct.std::_Optional_payload_base.base.14", [7 x i8] }
%"struct.std::_Optional_payload_base.13" = type <{ %"union.std::_Optional_payload_base<std::__cxx11::basic_string<char>>::_Storage", i8, [7 x i8] }>
%"class.std::__new_allocator" = type { i8 }
%"struct.std::pair" = type <{ %"struct.std::__detail::_Node_iterator", i8, [7 x i8] }>
%"struct.std::__detail::_Node_iterator" = type { %"struct.std::__detail::_Node_iterator_base" }
%"struct.std::_Hashtable<std::__cxx11::basic_string<char>, std::pair<const std::__cxx11::basic_string<char>, std::__cxx11::basic_string<char>>, std::allocator<std::pair<const std::__cxx11::basic_string<char>, std::__cxx11::basic_string<char>>>, std::__detail::_Select1st, std::equal_to<std::__cxx11::basic_string<char>>, std::hash<std::string>, std::__detail::_Mod_range_hashing, std::__detail::_Default_ranged_hash, std::__detail::_Prime_rehash_policy, std::__detail::_Hashtable_traits<true, false, true>>::_Scoped_node" = type { %"struct.std::__detail::_Hashtable_alloc"*, %"struct.std::__detail::_Hash_node"* }
%"struct.std::__detail::_Select1st" = type { i8 }
%"struct.std::equal_to" = type { i8 }
%"struct.std::hash" = type { i8 }
%"class.std::__new_allocator.3" = type { i8 }
%"struct.std::__detail::_Mod_range_hashing" = type { i8 }
%"class.std::allocator.27" = type { i8 }
%"class.std::__new_allocator.28" = type { i8 }
%"class.std::tuple" = type { %"struct.std::_Tuple_impl" }
%"struct.std::_Tuple_impl" = type { %"struct.std::_Head_base" }
%"struct.std::_Head_base" = type { %"class.std::__cxx11::basic_string"* }
%"class.std::tuple.36" = type { i8 }

$_ZNSt7__cxx1112basic_stringIcSt11char_traitsIcESaIcEEC2IS3_EEPKcRKS3_ = comdat any

$_ZNSt8optionalIN8Pistache4Http4Mime1QEEaSIS3_EENSt9enable_ifIX7__and_vISt6__not_ISt7is_sameIS4_NSt9remove_cvINSt16remove_referenceIT_E4typeEE4typeEEES7_ISt6__and_IJSt9is_scalarIS3_ES8_IS3_NSt5decayISB_E4typeEEEEESt16is_constructibleIS3_JSB_EESt13is_assignableIRS3_SB_EEERS4_E4typeEOSB_ = comdat any

$_ZNSt13unordered_mapINSt7__cxx1112basic_stringIcSt11char_traitsIcESaIcEEES5_St4hashIS5_ESt8equal_toIS5_ESaISt4pairIKS5_S5_EEE6insertISA_IS5_S5_EEENSt9enable_ifIXsr16is_constructibleISC_OT_EE5valueESA_INSt8__detail14_Node_iteratorISC_Lb0ELb1EEEbEE4typeESJ_ = comdat any

$_ZSt9make_pairINSt7__cxx1112basic_stringIcSt11char_traitsIcESaIcEEES5_ESt4pairINSt25__strip_reference_wrapperINSt5decayIT_E4typeEE6__typeENS7_INS8_IT0_E4typeEE6__typeEEOS9_OSE_ = comdat any

$_ZNSt4pairINSt7__cxx1112basic_stringIcSt11char_traitsIcESaIcEEES5_ED2Ev = comdat any

$_ZNSt8optionalIN8Pistache4Http4Mime1QEEaSIRS3_EENSt9enable_ifIX7__and_vISt6__not_ISt7is_sameIS4_NSt9remove_cvINSt16remove_referenceIT_E4typeEE4typeEEES8_ISt6__and_IJSt9is_scalarIS3_ES9_IS3_NSt5decayISC_E4typeEEEEESt16is_constructibleIS3_JSC_EESt13is_assignableIS6_SC_EEERS4_E4typeEOSC_ = comdat any

$_ZNKSt13unordered_mapINSt7__cxx1112basic_stringIcSt11char_traitsIcESaIcEEES5_St4hashIS5_ESt8equal_toIS5_ESaISt4pairIKS5_S5_EEE4findERSB_ = comdat any

$_ZNSt8__detaileqERKNS_19_Node_iterator_baseISt4pairIKNSt7__cxx1112basic_stringIcSt11char_traitsIcESaIcEEES7_ELb1EEESC_ = comdat any

$_ZSt3endISt13unordered_mapINSt7__cxx1112basic_stringIcSt11char_traitsIcESaIcEEES6_St4hashIS6_ESt8equal_toIS6_ESaISt4pairIKS6_S6_EEEEDTcldtfp_3endEERKT_ = comdat any

$_ZNSt8optionalINSt7__cxx1112basic_stringIcSt11char_traitsIcESaIcEEEEC2ESt9nullopt_t = comdat any

$_ZNKSt8__detail20_Node_const_iteratorISt4pairIKNSt7__cxx1112basic_stringIcSt11char_traitsIcESaIcEEES7_ELb0ELb1EEptEv = comdat any

$_ZNSt8optionalINSt7__cxx1112basic_stringIcSt11char_traitsIcESaIcEEEEC2IRKS5_Lb1EEEOT_ = comdat any

$_ZNSt13unordered_mapINSt7__cxx1112basic_stringIcSt11char_traitsIcESaIcEEES5_St4hashIS5_ESt8equal_toIS5_ESaISt4pairIKS5_S5_EEEixERSB_ = comdat any

$_ZNKSt8optionalIN8Pistache4Http4Mime1QEE9has_valueEv = comdat any

$_ZNKSt13unordered_mapINSt7__cxx1112basic_stringIcSt11char_traitsIcESaIcEEES5_St4hashIS5_ESt8equal_toIS5_ESaISt4pairIKS5_S5_EEE5beginEv = comdat any

$_ZNKSt13unordered_mapINSt7__cxx1112basic_stringIcSt11char_traitsIcESaIcEEES5_St4hashIS5_ESt8equal_toIS5_ESaISt4pairIKS5_S5_EEE3endEv = comdat any

$_ZNSt8__detailneERKNS_19_Node_iterator_baseISt4pairIKNSt7__cxx1112basic_stringIcSt11char_traitsIcESaIcEEES7_ELb1EEESC_ = comdat any

$_ZNKSt8__detail20_Node_const_iteratorISt4pairIKNSt7__cxx1112basic_stringIcSt11char_traitsIcESaIcEEES7_ELb0ELb1EEdeEv = comdat any

$_ZStplIcSt11char_traitsIcESaIcEENSt7__cxx1112basic_stringIT_T0_T1_EEOS8_RKS8_ = comdat any

$_ZStplIcSt11char_traitsIcESaIcEENSt7__cxx1112basic_stringIT_T0_T1_EERKS8_PKS5_ = comdat any

$_ZNSt8__detail20_Node_const_iteratorISt4pairIKNSt7__cxx1112basic_stringIcSt11char_traitsIcESaIcEEES7_ELb0ELb1EEppEv = comdat any

$_ZNSt13unordered_mapINSt7__cxx1112basic_stringIcSt11char_traitsIcESaIcEEES5_St4hashIS5_ESt8equal_toIS5_ESaISt4pairIKS5_S5_EEEC2Ev = comdat any

$_ZNSt8optionalIN8Pistache4Http4Mime1QEEC2Ev = comdat any

$_ZNSt10_HashtableINSt7__cxx1112basic_stringIcSt11char_traitsIcESaIcEEESt4pairIKS5_S5_ESaIS8_ENSt8__detail10_Select1stESt8equal_toIS5_ESt4hashIS5_ENSA_18_Mod_range_hashingENSA_20_Default_ranged_hashENSA_20_Prime_rehash_policyENSA_17_Hashtable_traitsILb1ELb0ELb1EEEEC2Ev = comdat any

$_ZNSt8__detail15_Hashtable_baseINSt7__cxx1112basic_stringIcSt11char_traitsIcESaIcEEESt4pairIKS6_S6_ENS_10_Select1stESt8equal_toIS6_ESt4hashIS6_ENS_18_Mod_range_hashingENS_20_Default_ranged_hashENS_17_Hashtable_traitsILb1ELb0ELb1EEEEC2Ev = comdat any

$_ZNSt8__detail16_Hashtable_allocISaINS_10_Hash_nodeISt4pairIKNSt7__cxx1112basic_stringIcSt11char_traitsIcESaIcEEES8_ELb1EEEEEC2Ev = comdat any

$_ZNSt8__detail15_Hash_node_baseC2Ev = comdat any

$_ZNSt8__detail20_Prime_rehash_policyC2Ef = comdat any

$_ZNSt8__detail15_Hash_code_baseINSt7__cxx1112basic_stringIcSt11char_traitsIcESaIcEEESt4pairIKS6_S6_ENS_10_Select1stESt4hashIS6_ENS_18_Mod_range_hashingENS_20_Default_ranged_hashELb1EEC2Ev = comdat any

$_ZNSt8__detail21_Hashtable_ebo_helperILi0ESt8equal_toINSt7__cxx1112basic_stringIcSt11char_traitsIcESaIcEEEELb1EEC2Ev = comdat any

$_ZNSt8__detail21_Hashtable_ebo_helperILi1ESt4hashINSt7__cxx1112basic_stringIcSt11char_traitsIcESaIcEEEELb1EEC2Ev = comdat any

$_ZNSt8__detail21_Hashtable_ebo_helperILi0ESaINS_10_Hash_nodeISt4pairIKNSt7__cxx1112basic_stringIcSt11char_traitsIcESaIcEEES8_ELb1EEEELb1EEC2Ev = comdat any

$_ZNSt14_Optional_baseIN8Pistache4Http4Mime1QELb1ELb1EEC2Ev = comdat any

$_ZNSt17_Optional_payloadIN8Pistache4Http4Mime1QELb1ELb1ELb1EEC2Ev = comdat any

$_ZNSt22_Optional_payload_baseIN8Pistache4Http4Mime1QEEC2Ev = comdat any

$_ZNSt22_Optional_payload_baseIN8Pistache4Http4Mime1QEE8_StorageIS3_Lb1EEC2Ev = comdat any

$_ZNSt13unordered_mapINSt7__cxx1112basic_stringIcSt11char_traitsIcESaIcEEES5_St4hashIS5_ESt8equal_toIS5_ESaISt4pairIKS5_S5_EEED2Ev = comdat any

$_ZNSt10_HashtableINSt7__cxx1112basic_stringIcSt11char_traitsIcESaIcEEESt4pairIKS5_S5_ESaIS8_ENSt8__detail10_Select1stESt8equal_toIS5_ESt4hashIS5_ENSA_18_Mod_range_hashingENSA_20_Default_ranged_hashENSA_20_Prime_rehash_policyENSA_17_Hashtable_traitsILb1ELb0ELb1EEEED2Ev = comdat any

$_ZNSt10_HashtableINSt7__cxx1112basic_stringIcSt11char_traitsIcESaIcEEESt4pairIKS5_S5_ESaIS8_ENSt8__detail10_Select1stESt8equal_toIS5_ESt4hashIS5_ENSA_18_Mod_range_hashingENSA_20_Default_ranged_hashENSA_20_Prime_rehash_policyENSA_17_Hashtable_traitsILb1ELb0ELb1EEEE5clearEv = comdat any

$_ZNSt10_HashtableINSt7__cxx1112basic_stringIcSt11char_traitsIcESaIcEEESt4pairIKS5_S5_ESaIS8_ENSt8__detail10_Select1stESt8equal_toIS5_ESt4hashIS5_ENSA_18_Mod_range_hashingENSA_20_Default_ranged_hashENSA_20_Prime_rehash_policyENSA_17_Hashtable_traitsILb1ELb0ELb1EEEE21_M_deallocate_bucketsEv = comdat any

$__clang_call_terminate = comdat any

$_ZNSt8__detail16_Hashtable_allocISaINS_10_Hash_nodeISt4pairIKNSt7__cxx1112basic_stringIcSt11char_traitsIcESaIcEEES8_ELb1EEEEE19_M_deallocate_nodesEPSB_ = comdat any

$_ZNKSt10_HashtableINSt7__cxx1112basic_stringIcSt11char_traitsIcESaIcEEESt4pairIKS5_S5_ESaIS8_ENSt8__detail10_Select1stESt8equal_toIS5_ESt4hashIS5_ENSA_18_Mod_range_hashingENSA_20_Default_ranged_hashENSA_20_Prime_rehash_policyENSA_17_Hashtable_traitsILb1ELb0ELb1EEEE8_M_beginEv = comdat any

$_ZNKSt8__detail10_Hash_nodeISt4pairIKNSt7__cxx1112basic_stringIcSt11char_traitsIcESaIcEEES7_ELb1EE7_M_nextEv = comdat any

$_ZNSt8__detail16_Hashtable_allocISaINS_10_Hash_nodeISt4pairIKNSt7__cxx1112basic_stringIcSt11char_traitsIcESaIcEEES8_ELb1EEEEE18_M_deallocate_nodeEPSB_ = comdat any

$_ZNSt8__detail16_Hashtable_allocISaINS_10_Hash_nodeISt4pairIKNSt7__cxx1112basic_stringIcSt11char_traitsIcESaIcEEES8_ELb1EEEEE17_M_node_allocatorEv = comdat any

$_ZNSt8__detail21_Hash_node_value_baseISt4pairIKNSt7__cxx1112basic_stringIcSt11char_traitsIcESaIcEEES7_EE9_M_valptrEv = comdat any

$_ZNSt8__detail16_Hashtable_allocISaINS_10_Hash_nodeISt4pairIKNSt7__cxx1112basic_stringIcSt11char_traitsIcESaIcEEES8_ELb1EEEEE22_M_deallocate_node_ptrEPSB_ = comdat any

$_ZNSt4pairIKNSt7__cxx1112basic_stringIcSt11char_traitsIcESaIcEEES5_ED2Ev = comdat any

$_ZNSt8__detail21_Hashtable_ebo_helperILi0ESaINS_10_Hash_nodeISt4pairIKNSt7__cxx1112basic_stringIcSt11char_traitsIcESaIcEEES8_ELb1EEEELb1EE6_M_getEv = comdat any

$_ZN9__gnu_cxx16__aligned_bufferISt4pairIKNSt7__cxx1112basic_stringIcSt11char_traitsIcESaIcEEES7_EE6_M_ptrEv = comdat any

$_ZN9__gnu_cxx16__aligned_bufferISt4pairIKNSt7__cxx1112basic_stringIcSt11char_traitsIcESaIcEEES7_EE7_M_addrEv = comdat any

$_ZNSt10_HashtableINSt7__cxx1112basic_stringIcSt11char_traitsIcESaIcEEESt4pairIKS5_S5_ESaIS8_ENSt8__detail10_Select1stESt8equal_toIS5_ESt4hashIS5_ENSA_18_Mod_range_hashingENSA_20_Default_ranged_hashENSA_20_Prime_rehash_policyENSA_17_Hashtable_traitsILb1ELb0ELb1EEEE21_M_deallocate_bucketsEPPNSA_15_Hash_node_baseEm = comdat any

$_ZNKSt10_HashtableINSt7__cxx1112basic_stringIcSt11char_traitsIcESaIcEEESt4pairIKS5_S5_ESaIS8_ENSt8__detail10_Select1stESt8equal_toIS5_ESt4hashIS5_ENSA_18_Mod_range_hashingENSA_20_Default_ranged_hashENSA_20_Prime_rehash_policyENSA_17_Hashtable_traitsILb1ELb0ELb1EEEE21_M_uses_single_bucketEPPNSA_15_Hash_node_baseE = comdat any

$_ZNSt8__detail16_Hashtable_allocISaINS_10_Hash_nodeISt4pairIKNSt7__cxx1112basic_stringIcSt11char_traitsIcESaIcEEES8_ELb1EEEEE21_M_deallocate_bucketsEPPNS_15_Hash_node_baseEm = comdat any

$_ZN8Pistache4Http9HttpErrorD2Ev = comdat any

$_ZN8Pistache4Http9HttpErrorD0Ev = comdat any

$_ZNK8Pistache4Http9HttpError4whatEv = comdat any

$_ZNSt4pairINSt7__cxx1112basic_stringIcSt11char_traitsIcESaIcEEES5_EC2IS5_S5_Lb1EEEOT_OT0_ = comdat any

$_ZNSt14_Optional_baseINSt7__cxx1112basic_stringIcSt11char_traitsIcESaIcEEELb0ELb0EEC2Ev = comdat any

$_ZNSt17_Optional_payloadINSt7__cxx1112basic_stringIcSt11char_traitsIcESaIcEEELb0ELb0ELb0EEC2Ev = comdat any

$_ZNSt17_Optional_payloadINSt7__cxx1112basic_stringIcSt11char_traitsIcESaIcEEELb1ELb0ELb0EEC2Ev = comdat any

$_ZNSt22_Optional_payload_baseINSt7__cxx1112basic_stringIcSt11char_traitsIcESaIcEEEEC2Ev = comdat any

$_ZNSt22_Optional_payload_baseINSt7__cxx1112basic_stringIcSt11char_traitsIcESaIcEEEE8_StorageIS5_Lb0EEC2Ev = comdat any

$_ZNSt14_Optional_baseINSt7__cxx1112basic_stringIcSt11char_traitsIcESaIcEEELb0ELb0EEC2IJRKS5_ELb0EEESt10in_place_tDpOT_ = comdat any

$_ZNSt17_Optional_payloadINSt7__cxx1112basic_stringIcSt11char_traitsIcESaIcEEELb0ELb0ELb0EECI2St22_Optional_payload_baseIS5_EIJRKS5_EEESt10in_place_tDpOT_ = comdat any

$_ZNSt17_Optional_payloadINSt7__cxx1112basic_stringIcSt11char_traitsIcESaIcEEELb1ELb0ELb0EECI2St22_Optional_payload_baseIS5_EIJRKS5_EEESt10in_place_tDpOT_ = comdat any

$_ZNSt22_Optional_payload_baseINSt7__cxx1112basic_stringIcSt11char_traitsIcESaIcEEEEC2IJRKS5_EEESt10in_place_tDpOT_ = comdat any

$_ZNSt22_Optional_payload_baseINSt7__cxx1112basic_stringIcSt11char_traitsIcESaIcEEEE8_StorageIS5_Lb0EEC2IJRKS5_EEESt10in_place_tDpOT_ = comdat any

$_ZNKSt19_Optional_base_implIN8Pistache4Http4Mime1QESt14_Optional_baseIS3_Lb1ELb1EEE13_M_is_engagedEv = comdat any

$_ZNKSt19_Optional_base_implIN8Pistache4Http4Mime1QESt14_Optional_baseIS3_Lb1ELb1EEE6_M_getEv = comdat any

$_ZNKSt22_Optional_payload_baseIN8Pistache4Http4Mime1QEE6_M_getEv = comdat any

$_ZNSt7__cxx1112basic_stringIcSt11char_traitsIcESaIcEE12_M_constructIPKcEEvT_S8_St20forward_iterator_tag = comdat any

$_ZNKSt15__new_allocatorIcE8max_sizeEv = comdat any

$_ZNKSt15__new_allocatorIcE11_M_max_sizeEv = comdat any

$_ZN9__gnu_cxx14__alloc_traitsISaIcEcE17_S_select_on_copyERKS1_ = comdat any

$_ZNSt7__cxx1112basic_stringIcSt11char_traitsIcESaIcEE12_M_constructIPcEEvT_S7_St20forward_iterator_tag = comdat any

$_ZN9__gnu_cxx14__alloc_traitsISaIcEcE15_S_always_equalEv = comdat any

$_ZStneRKSaIcES1_ = comdat any

$_ZSt15__alloc_on_moveISaIcEEvRT_S2_ = comdat any

$_ZNKSt10_HashtableINSt7__cxx1112basic_stringIcSt11char_traitsIcESaIcEEESt4pairIKS5_S5_ESaIS8_ENSt8__detail10_Select1stESt8equal_toIS5_ESt4hashIS5_ENSA_18_Mod_range_hashingENSA_20_Default_ranged_hashENSA_20_Prime_rehash_policyENSA_17_Hashtable_traitsILb1ELb0ELb1EEEE5beginEv = comdat any

$_ZNSt8__detail20_Node_const_iteratorISt4pairIKNSt7__cxx1112basic_stringIcSt11char_traitsIcESaIcEEES7_ELb0ELb1EEC2EPNS_10_Hash_nodeIS9_Lb1EEE = comdat any

$_ZNSt8__detail19_Node_iterator_baseISt4pairIKNSt7__cxx1112basic_stringIcSt11char_traitsIcESaIcEEES7_ELb1EEC2EPNS_10_Hash_nodeIS9_Lb1EEE = comdat any

$_ZNKSt10_HashtableINSt7__cxx1112basic_stringIcSt11char_traitsIcESaIcEEESt4pairIKS5_S5_ESaIS8_ENSt8__detail10_Select1stESt8equal_toIS5_ESt4hashIS5_ENSA_18_Mod_range_hashingENSA_20_Default_ranged_hashENSA_20_Prime_rehash_policyENSA_17_Hashtable_traitsILb1ELb0ELb1EEEE3endEv = comdat any

$_ZN8Pistache12RawStreamBufIcED0Ev = comdat any

$_ZNSt19_Optional_base_implIN8Pistache4Http4Mime1QESt14_Optional_baseIS3_Lb1ELb1EEE6_M_getEv = comdat any

$_ZNSt19_Optional_base_implIN8Pistache4Http4Mime1QESt14_Optional_baseIS3_Lb1ELb1EEE12_M_constructIJS3_EEEvDpOT_ = comdat any

$_ZNSt22_Optional_payload_baseIN8Pistache4Http4Mime1QEE6_M_getEv = comdat any

$_ZNSt22_Optional_payload_baseIN8Pistache4Http4Mime1QEE12_M_constructIJS3_EEEvDpOT_ = comdat any

$_ZSt10_ConstructIN8Pistache4Http4Mime1QEJS3_EEvPT_DpOT0_ = comdat any

$_ZNSt10_HashtableINSt7__cxx1112basic_stringIcSt11char_traitsIcESaIcEEESt4pairIKS5_S5_ESaIS8_ENSt8__detail10_Select1stESt8equal_toIS5_ESt4hashIS5_ENSA_18_Mod_range_hashingENSA_20_Default_ranged_hashENSA_20_Prime_rehash_policyENSA_17_Hashtable_traitsILb1ELb0ELb1EEEE7emplaceIJS6_IS5_S5_EEEES6_INSA_14_Node_iteratorIS8_Lb0ELb1EEEbEDpOT_ = comdat any

$_ZNSt10_HashtableINSt7__cxx1112basic_stringIcSt11char_traitsIcESaIcEEESt4pairIKS5_S5_ESaIS8_ENSt8__detail10_Select1stESt8equal_toIS5_ESt4hashIS5_ENSA_18_Mod_range_hashingENSA_20_Default_ranged_hashENSA_20_Prime_rehash_policyENSA_17_Hashtable_traitsILb1ELb0ELb1EEEE10_M_emplaceIJS6_IS5_S5_EEEES6_INSA_14_Node_iteratorIS8_Lb0ELb1EEEbESt17integral_constantIbLb1EEDpOT_ = comdat any

$_ZNSt10_HashtableINSt7__cxx1112basic_stringIcSt11char_traitsIcESaIcEEESt4pairIKS5_S5_ESaIS8_ENSt8__detail10_Select1stESt8equal_toIS5_ESt4hashIS5_ENSA_18_Mod_range_hashingENSA_20_Default_ranged_hashENSA_20_Prime_rehash_policyENSA_17_Hashtable_traitsILb1ELb0ELb1EEEE12_Scoped_nodeC2IJS6_IS5_S5_EEEEPNSA_16_Hashtable_allocISaINSA_10_Hash_nodeIS8_Lb1EEEEEEDpOT_ = comdat any

$_ZNKSt8__detail10_Select1stclIRSt4pairIKNSt7__cxx1112basic_stringIcSt11char_traitsIcESaIcEEES8_EEEONS0_10__1st_typeIT_E4typeEOSD_ = comdat any

$_ZNSt8__detail21_Hash_node_value_baseISt4pairIKNSt7__cxx1112basic_stringIcSt11char_traitsIcESaIcEEES7_EE4_M_vEv = comdat any

$_ZNKSt10_HashtableINSt7__cxx1112basic_stringIcSt11char_traitsIcESaIcEEESt4pairIKS5_S5_ESaIS8_ENSt8__detail10_Select1stESt8equal_toIS5_ESt4hashIS5_ENSA_18_Mod_range_hashingENSA_20_Default_ranged_hashENSA_20_Prime_rehash_policyENSA_17_Hashtable_traitsILb1ELb0ELb1EEEE4sizeEv = comdat any

$_ZNSt10_HashtableINSt7__cxx1112basic_stringIcSt11char_traitsIcESaIcEEESt4pairIKS5_S5_ESaIS8_ENSt8__detail10_Select1stESt8equal_toIS5_ESt4hashIS5_ENSA_18_Mod_range_hashingENSA_20_Default_ranged_hashENSA_20_Prime_rehash_policyENSA_17_Hashtable_traitsILb1ELb0ELb1EEEE22__small_size_thresholdEv = comdat any

$_ZNSt10_HashtableINSt7__cxx1112basic_stringIcSt11char_traitsIcESaIcEEESt4pairIKS5_S5_ESaIS8_ENSt8__detail10_Select1stESt8equal_toIS5_ESt4hashIS5_ENSA_18_Mod_range_hashingENSA_20_Default_ranged_hashENSA_20_Prime_rehash_policyENSA_17_Hashtable_traitsILb1ELb0ELb1EEEE5beginEv = comdat any

$_ZNSt10_HashtableINSt7__cxx1112basic_stringIcSt11char_traitsIcESaIcEEESt4pairIKS5_S5_ESaIS8_ENSt8__detail10_Select1stESt8equal_toIS5_ESt4hashIS5_ENSA_18_Mod_range_hashingENSA_20_Default_ranged_hashENSA_20_Prime_rehash_policyENSA_17_Hashtable_traitsILb1ELb0ELb1EEEE3endEv = comdat any

$_ZNKSt8__detail15_Hashtable_baseINSt7__cxx1112basic_stringIcSt11char_traitsIcESaIcEEESt4pairIKS6_S6_ENS_10_Select1stESt8equal_toIS6_ESt4hashIS6_ENS_18_Mod_range_hashingENS_20_Default_ranged_hashENS_17_Hashtable_traitsILb1ELb0ELb1EEEE13_M_key_equalsERS8_RKNS_16_Hash_node_valueIS9_Lb1EEE = comdat any

$_ZNSt4pairINSt8__detail14_Node_iteratorIS_IKNSt7__cxx1112basic_stringIcSt11char_traitsIcESaIcEEES7_ELb0ELb1EEEbEC2IRSA_bLb1EEEOT_OT0_ = comdat any

$_ZNSt8__detail14_Node_iteratorISt4pairIKNSt7__cxx1112basic_stringIcSt11char_traitsIcESaIcEEES7_ELb0ELb1EEppEv = comdat any

$_ZNKSt8__detail15_Hash_code_baseINSt7__cxx1112basic_stringIcSt11char_traitsIcESaIcEEESt4pairIKS6_S6_ENS_10_Select1stESt4hashIS6_ENS_18_Mod_range_hashingENS_20_Default_ranged_hashELb1EE12_M_hash_codeERS8_ = comdat any

$_ZNKSt10_HashtableINSt7__cxx1112basic_stringIcSt11char_traitsIcESaIcEEESt4pairIKS5_S5_ESaIS8_ENSt8__detail10_Select1stESt8equal_toIS5_ESt4hashIS5_ENSA_18_Mod_range_hashingENSA_20_Default_ranged_hashENSA_20_Prime_rehash_policyENSA_17_Hashtable_traitsILb1ELb0ELb1EEEE15_M_bucket_indexEm = comdat any

$_ZNKSt10_HashtableINSt7__cxx1112basic_stringIcSt11char_traitsIcESaIcEEESt4pairIKS5_S5_ESaIS8_ENSt8__detail10_Select1stESt8equal_toIS5_ESt4hashIS5_ENSA_18_Mod_range_hashingENSA_20_Default_ranged_hashENSA_20_Prime_rehash_policyENSA_17_Hashtable_traitsILb1ELb0ELb1EEEE12_M_find_nodeEmRS7_m = comdat any

$_ZNSt8__detail14_Node_iteratorISt4pairIKNSt7__cxx1112basic_stringIcSt11char_traitsIcESaIcEEES7_ELb0ELb1EEC2EPNS_10_Hash_nodeIS9_Lb1EEE = comdat any

$_ZNSt4pairINSt8__detail14_Node_iteratorIS_IKNSt7__cxx1112basic_stringIcSt11char_traitsIcESaIcEEES7_ELb0ELb1EEEbEC2ISA_bLb1EEEOT_OT0_ = comdat any

$_ZNSt10_HashtableINSt7__cxx1112basic_stringIcSt11char_traitsIcESaIcEEESt4pairIKS5_S5_ESaIS8_ENSt8__detail10_Select1stESt8equal_toIS5_ESt4hashIS5_ENSA_18_Mod_range_hashingENSA_20_Default_ranged_hashENSA_20_Prime_rehash_policyENSA_17_Hashtable_traitsILb1ELb0ELb1EEEE21_M_insert_unique_nodeEmmPNSA_10_Hash_nodeIS8_Lb1EEEm = comdat any

$_ZNSt10_HashtableINSt7__cxx1112basic_stringIcSt11char_traitsIcESaIcEEESt4pairIKS5_S5_ESaIS8_ENSt8__detail10_Select1stESt8equal_toIS5_ESt4hashIS5_ENSA_18_Mod_range_hashingENSA_20_Default_ranged_hashENSA_20_Prime_rehash_policyENSA_17_Hashtable_traitsILb1ELb0ELb1EEEE12_Scoped_nodeD2Ev = comdat any

$_ZNSt8__detail16_Hashtable_allocISaINS_10_Hash_nodeISt4pairIKNSt7__cxx1112basic_stringIcSt11char_traitsIcESaIcEEES8_ELb1EEEEE16_M_allocate_nodeIJS2_IS8_S8_EEEEPSB_DpOT_ = comdat any

$_ZNSt8__detail10_Hash_nodeISt4pairIKNSt7__cxx1112basic_stringIcSt11char_traitsIcESaIcEEES7_ELb1EEC2Ev = comdat any

$_ZNKSt15__new_allocatorINSt8__detail10_Hash_nodeISt4pairIKNSt7__cxx1112basic_stringIcSt11char_traitsIcESaIcEEES8_ELb1EEEE11_M_max_sizeEv = comdat any

$_ZNSt4pairIKNSt7__cxx1112basic_stringIcSt11char_traitsIcESaIcEEES5_EC2IS5_S5_Lb1EEEOS_IT_T0_E = comdat any

$_ZNSt8__detail22_Hashtable_hash_traitsISt4hashINSt7__cxx1112basic_stringIcSt11char_traitsIcESaIcEEEEE22__small_size_thresholdEv = comdat any

$_ZNKSt8__detail15_Hashtable_baseINSt7__cxx1112basic_stringIcSt11char_traitsIcESaIcEEESt4pairIKS6_S6_ENS_10_Select1stESt8equal_toIS6_ESt4hashIS6_ENS_18_Mod_range_hashingENS_20_Default_ranged_hashENS_17_Hashtable_traitsILb1ELb0ELb1EEEE5_M_eqEv = comdat any

$_ZNKSt8equal_toINSt7__cxx1112basic_stringIcSt11char_traitsIcESaIcEEEEclERKS5_S8_ = comdat any

$_ZNKSt8__detail10_Select1stclIRKSt4pairIKNSt7__cxx1112basic_stringIcSt11char_traitsIcESaIcEEES8_EEEONS0_10__1st_typeIT_E4typeEOSE_ = comdat any

$_ZNKSt8__detail21_Hash_node_value_baseISt4pairIKNSt7__cxx1112basic_stringIcSt11char_traitsIcESaIcEEES7_EE4_M_vEv = comdat any

$_ZNKSt8__detail21_Hashtable_ebo_helperILi0ESt8equal_toINSt7__cxx1112basic_stringIcSt11char_traitsIcESaIcEEEELb1EE7_M_cgetEv = comdat any

$_ZSteqIcEN9__gnu_cxx11__enable_ifIXsr9__is_charIT_EE7__valueEbE6__typeERKNSt7__cxx1112basic_stringIS2_St11char_traitsIS2_ESaIS2_EEESC_ = comdat any

$_ZNKSt8__detail21_Hash_node_value_baseISt4pairIKNSt7__cxx1112basic_stringIcSt11char_traitsIcESaIcEEES7_EE9_M_valptrEv = comdat any

$_ZNK9__gnu_cxx16__aligned_bufferISt4pairIKNSt7__cxx1112basic_stringIcSt11char_traitsIcESaIcEEES7_EE6_M_ptrEv = comdat any

$_ZNK9__gnu_cxx16__aligned_bufferISt4pairIKNSt7__cxx1112basic_stringIcSt11char_traitsIcESaIcEEES7_EE7_M_addrEv = comdat any

$_ZNSt8__detail19_Node_iterator_baseISt4pairIKNSt7__cxx1112basic_stringIcSt11char_traitsIcESaIcEEES7_ELb1EE7_M_incrEv = comdat any

$_ZNKSt8__detail15_Hash_code_baseINSt7__cxx1112basic_stringIcSt11char_traitsIcESaIcEEESt4pairIKS6_S6_ENS_10_Select1stESt4hashIS6_ENS_18_Mod_range_hashingENS_20_Default_ranged_hashELb1EE7_M_hashEv = comdat any

$_ZNKSt4hashINSt7__cxx1112basic_stringIcSt11char_traitsIcESaIcEEEEclERKS5_ = comdat any

$_ZNKSt8__detail21_Hashtable_ebo_helperILi1ESt4hashINSt7__cxx1112basic_stringIcSt11char_traitsIcESaIcEEEELb1EE7_M_cgetEv = comdat any

$_ZNSt10_Hash_impl4hashEPKvmm = comdat any

$_ZNKSt8__detail15_Hash_code_baseINSt7__cxx1112basic_stringIcSt11char_traitsIcESaIcEEESt4pairIKS6_S6_ENS_10_Select1stESt4hashIS6_ENS_18_Mod_range_hashingENS_20_Default_ranged_hashELb1EE15_M_bucket_indexEmm = comdat any

$_ZNKSt8__detail18_Mod_range_hashingclEmm = comdat any

$_ZNKSt10_HashtableINSt7__cxx1112basic_stringIcSt11char_traitsIcESaIcEEESt4pairIKS5_S5_ESaIS8_ENSt8__detail10_Select1stESt8equal_toIS5_ESt4hashIS5_ENSA_18_Mod_range_hashingENSA_20_Default_ranged_hashENSA_20_Prime_rehash_policyENSA_17_Hashtable_traitsILb1ELb0ELb1EEEE19_M_find_before_nodeEmRS7_m = comdat any

$_ZNKSt8__detail15_Hashtable_baseINSt7__cxx1112basic_stringIcSt11char_traitsIcESaIcEEESt4pairIKS6_S6_ENS_10_Select1stESt8equal_toIS6_ESt4hashIS6_ENS_18_Mod_range_hashingENS_20_Default_ranged_hashENS_17_Hashtable_traitsILb1ELb0ELb1EEEE9_M_equalsERS8_mRKNS_16_Hash_node_valueIS9_Lb1EEE = comdat any

$_ZNKSt10_HashtableINSt7__cxx1112basic_stringIcSt11char_traitsIcESaIcEEESt4pairIKS5_S5_ESaIS8_ENSt8__detail10_Select1stESt8equal_toIS5_ESt4hashIS5_ENSA_18_Mod_range_hashingENSA_20_Default_ranged_hashENSA_20_Prime_rehash_policyENSA_17_Hashtable_traitsILb1ELb0ELb1EEEE15_M_bucket_indexERKNSA_16_Hash_node_valueIS8_Lb1EEE = comdat any

$_ZNSt8__detail15_Hashtable_baseINSt7__cxx1112basic_stringIcSt11char_traitsIcESaIcEEESt4pairIKS6_S6_ENS_10_Select1stESt8equal_toIS6_ESt4hashIS6_ENS_18_Mod_range_hashingENS_20_Default_ranged_hashENS_17_Hashtable_traitsILb1ELb0ELb1EEEE9_S_equalsEmRKNS_21_Hash_node_code_cacheILb1EEE = comdat any

$_ZNKSt8__detail15_Hash_code_baseINSt7__cxx1112basic_stringIcSt11char_traitsIcESaIcEEESt4pairIKS6_S6_ENS_10_Select1stESt4hashIS6_ENS_18_Mod_range_hashingENS_20_Default_ranged_hashELb1EE15_M_bucket_indexERKNS_16_Hash_node_valueIS9_Lb1EEEm = comdat any

$_ZNKSt8__detail20_Prime_rehash_policy8_M_stateEv = comdat any

$_ZNSt10_HashtableINSt7__cxx1112basic_stringIcSt11char_traitsIcESaIcEEESt4pairIKS5_S5_ESaIS8_ENSt8__detail10_Select1stESt8equal_toIS5_ESt4hashIS5_ENSA_18_Mod_range_hashingENSA_20_Default_ranged_hashENSA_20_Prime_rehash_policyENSA_17_Hashtable_traitsILb1ELb0ELb1EEEE9_M_rehashEmRKm = comdat any

$_ZNKSt8__detail15_Hash_code_baseINSt7__cxx1112basic_stringIcSt11char_traitsIcESaIcEEESt4pairIKS6_S6_ENS_10_Select1stESt4hashIS6_ENS_18_Mod_range_hashingENS_20_Default_ranged_hashELb1EE13_M_store_codeERNS_21_Hash_node_code_cacheILb1EEEm = comdat any

$_ZNSt10_HashtableINSt7__cxx1112basic_stringIcSt11char_traitsIcESaIcEEESt4pairIKS5_S5_ESaIS8_ENSt8__detail10_Select1stESt8equal_toIS5_ESt4hashIS5_ENSA_18_Mod_range_hashingENSA_20_Default_ranged_hashENSA_20_Prime_rehash_policyENSA_17_Hashtable_traitsILb1ELb0ELb1EEEE22_M_insert_bucket_beginEmPNSA_10_Hash_nodeIS8_Lb1EEE = comdat any

$_ZNSt10_HashtableINSt7__cxx1112basic_stringIcSt11char_traitsIcESaIcEEESt4pairIKS5_S5_ESaIS8_ENSt8__detail10_Select1stESt8equal_toIS5_ESt4hashIS5_ENSA_18_Mod_range_hashingENSA_20_Default_ranged_hashENSA_20_Prime_rehash_policyENSA_17_Hashtable_traitsILb1ELb0ELb1EEEE13_M_rehash_auxEmSt17integral_constantIbLb1EE = comdat any

$_ZNSt8__detail20_Prime_rehash_policy8_M_resetEm = comdat any

$_ZNSt10_HashtableINSt7__cxx1112basic_stringIcSt11char_traitsIcESaIcEEESt4pairIKS5_S5_ESaIS8_ENSt8__detail10_Select1stESt8equal_toIS5_ESt4hashIS5_ENSA_18_Mod_range_hashingENSA_20_Default_ranged_hashENSA_20_Prime_rehash_policyENSA_17_Hashtable_traitsILb1ELb0ELb1EEEE19_M_allocate_bucketsEm = comdat any

$_ZNSt8__detail16_Hashtable_allocISaINS_10_Hash_nodeISt4pairIKNSt7__cxx1112basic_stringIcSt11char_traitsIcESaIcEEES8_ELb1EEEEE19_M_allocate_bucketsEm = comdat any

$_ZNKSt15__new_allocatorIPNSt8__detail15_Hash_node_baseEE11_M_max_sizeEv = comdat any

$_ZNSt19_Optional_base_implIN8Pistache4Http4Mime1QESt14_Optional_baseIS3_Lb1ELb1EEE12_M_constructIJRS3_EEEvDpOT_ = comdat any

$_ZNSt22_Optional_payload_baseIN8Pistache4Http4Mime1QEE12_M_constructIJRS3_EEEvDpOT_ = comdat any

$_ZSt10_ConstructIN8Pistache4Http4Mime1QEJRS3_EEvPT_DpOT0_ = comdat any

$_ZNKSt10_HashtableINSt7__cxx1112basic_stringIcSt11char_traitsIcESaIcEEESt4pairIKS5_S5_ESaIS8_ENSt8__detail10_Select1stESt8equal_toIS5_ESt4hashIS5_ENSA_18_Mod_range_hashingENSA_20_Default_ranged_hashENSA_20_Prime_rehash_policyENSA_17_Hashtable_traitsILb1ELb0ELb1EEEE4findERS7_ = comdat any

$_ZNSt8__detail9_Map_baseINSt7__cxx1112basic_stringIcSt11char_traitsIcESaIcEEESt4pairIKS6_S6_ESaIS9_ENS_10_Select1stESt8equal_toIS6_ESt4hashIS6_ENS_18_Mod_range_hashingENS_20_Default_ranged_hashENS_20_Prime_rehash_policyENS_17_Hashtable_traitsILb1ELb0ELb1EEELb1EEixERS8_ = comdat any

$_ZNSt10_HashtableINSt7__cxx1112basic_stringIcSt11char_traitsIcESaIcEEESt4pairIKS5_S5_ESaIS8_ENSt8__detail10_Select1stESt8equal_toIS5_ESt4hashIS5_ENSA_18_Mod_range_hashingENSA_20_Default_ranged_hashENSA_20_Prime_rehash_policyENSA_17_Hashtable_traitsILb1ELb0ELb1EEEE12_Scoped_nodeC2IJRKSt21piecewise_construct_tSt5tupleIJRS7_EESR_IJEEEEEPNSA_16_Hashtable_allocISaINSA_10_Hash_nodeIS8_Lb1EEEEEEDpOT_ = comdat any

$_ZNKSt8__detail14_Node_iteratorISt4pairIKNSt7__cxx1112basic_stringIcSt11char_traitsIcESaIcEEES7_ELb0ELb1EEptEv = comdat any

$_ZNSt8__detail16_Hashtable_allocISaINS_10_Hash_nodeISt4pairIKNSt7__cxx1112basic_stringIcSt11char_traitsIcESaIcEEES8_ELb1EEEEE16_M_allocate_nodeIJRKSt21piecewise_construct_tSt5tupleIJRS9_EESI_IJEEEEEPSB_DpOT_ = comdat any

$_ZNSt4pairIKNSt7__cxx1112basic_stringIcSt11char_traitsIcESaIcEEES5_EC2IJRS6_EJEEESt21piecewise_construct_tSt5tupleIJDpT_EESB_IJDpT0_EE = comdat any

$_ZNSt4pairIKNSt7__cxx1112basic_stringIcSt11char_traitsIcESaIcEEES5_EC2IJRS6_EJLm0EEJEJEEERSt5tupleIJDpT_EERSA_IJDpT1_EESt12_Index_tupleIJXspT0_EEESJ_IJXspT2_EEE = comdat any

$_ZTSN8Pistache4Http9HttpErrorE = comdat any

$_ZTIN8Pistache4Http9HttpErrorE = comdat any

$_ZTVN8Pistache4Http9HttpErrorE = comdat any

$_ZTVN8Pistache12RawStreamBufIcEE = comdat any

$_ZTSN8Pistache12RawStreamBufIcEE = comdat any

$_ZTSN8Pistache9StreamBufIcEE = comdat any

$_ZTIN8Pistache9StreamBufIcEE = comdat any

$_ZTIN8Pistache12RawStreamBufIcEE = comdat any

$_ZSt19piecewise_construct = comdat any

@_ZStL8__ioinit = internal global %"class.std::ios_base::Init" zeroinitializer, align 1
@__dso_handle = external hidden global i8
@.str = private unnamed_addr constant [4 x i8] c"q=0\00", align 1
@.str.1 = private unnamed_addr constant [4 x i8] c"q=1\00", align 1
@.str.2 = private unnamed_addr constant [7 x i8] c"q=%.1f\00", align 1
@.str.3 = private unnamed_addr constant [7 x i8] c"q=%.2f\00", align 1
@_ZZN8Pistache4Http4Mime9MediaType8fromFileEPKcE15KnownExtensions = internal constant [7 x %struct.Extension] [%struct.Extension { i8* getelementptr inbounds ([4 x i8], [4 x i8]* @.str.4, i32 0, i32 0), i32 2, i32 16 }, %struct.Extension { i8* getelementptr inbounds ([5 x i8], [5 x i8]* @.str.5, i32 0, i32 0), i32 2, i32 16 }, %struct.Extension { i8* getelementptr inbounds ([4 x i8], [4 x i8]* @.str.6, i32 0, i32 0), i32 2, i32 13 }, %struct.Extension { i8* getelementptr inbounds ([4 x i8], [4 x i8]* @.str.7, i32 0, i32 0), i32 2, i32 15 }, %struct.Extension { i8* getelementptr inbounds ([4 x i8], [4 x i8]* @.str.8, i32 0, i32 0), i32 1, i32 1 }, %struct.Extension { i8* getelementptr inbounds ([3 x i8], [3 x i8]* @.str.9, i32 0, i32 0), i32 1, i32 1 }, %struct.Extension { i8* getelementptr inbounds ([4 x i8], [4 x i8]* @.str.10, i32 0, i32 0), i32 5, i32 7 }], align 16
@.str.4 = private unnamed_addr constant [4 x i8] c"jpg\00", align 1
@.str.5 = private unnamed_addr constant [5 x i8] c"jpeg\00", align 1
@.str.6 = private unnamed_addr constant [4 x i8] c"png\00", align 1
@.str.7 = private unnamed_addr constant [4 x i8] c"bmp\00", align 1
@.str.8 = private unnamed_addr constant [4 x i8] c"txt\00", align 1
@.str.9 = private unnamed_addr constant [3 x i8] c"md\00", align 1
@.str.10 = private unnamed_addr constant [4 x i8] c"bin\00", align 1
@.str.11 = private unnamed_addr constant [2 x i8] c"*\00", align 1
@.str.12 = private unnamed_addr constant [5 x i8] c"text\00", align 1
@.str.13 = private unnamed_addr constant [6 x i8] c"image\00", align 1
@.str.14 = private unnamed_addr constant [6 x i8] c"audio\00", align 1
@.str.15 = private unnamed_addr constant [6 x i8] c"video\00", align 1
@.str.16 = private unnamed_addr constant [12 x i8] c"application\00", align 1
@.str.17 = private unnamed_addr constant [8 x i8] c"message\00", align 1
@.str.18 = private unnamed_addr constant [10 x i8] c"multipart\00", align 1
@.str.19 = private unnamed_addr constant [19 x i8] c"Unknown Media Type\00", align 1
@.str.20 = private unnamed_addr constant [56 x i8] c"Malformed Media Type, expected a '/' after the top type\00", align 1
@.str.21 = private unnamed_addr constant [38 x i8] c"Malformed Media type, missing subtype\00", align 1
@.str.22 = private unnamed_addr constant [5 x i8] c"vnd.\00", align 1
@.str.23 = private unnamed_addr constant [6 x i8] c"plain\00", align 1
@.str.24 = private unnamed_addr constant [5 x i8] c"html\00", align 1
@.str.25 = private unnamed_addr constant [6 x i8] c"xhtml\00", align 1
@.str.26 = private unnamed_addr constant [4 x i8] c"xml\00", align 1
@.str.27 = private unnamed_addr constant [11 x i8] c"javascript\00", align 1
@.str.28 = private unnamed_addr constant [4 x i8] c"css\00", align 1
@.str.29 = private unnamed_addr constant [13 x i8] c"octet-stream\00", align 1
@.str.30 = private unnamed_addr constant [5 x i8] c"json\00", align 1
@.str.31 = private unnamed_addr constant [12 x i8] c"schema+json\00", align 1
@.str.32 = private unnamed_addr constant [21 x i8] c"schema-instance+json\00", align 1
@.str.33 = private unnamed_addr constant [22 x i8] c"x-www-form-urlencoded\00", align 1
@.str.34 = private unnamed_addr constant [10 x i8] c"form-data\00", align 1
@.str.35 = private unnamed_addr constant [4 x i8] c"gif\00", align 1
@.str.36 = private unnamed_addr constant [47 x i8] c"Malformed Media Type, expected suffix, got EOF\00", align 1
@.str.37 = private unnamed_addr constant [4 x i8] c"ber\00", align 1
@.str.38 = private unnamed_addr constant [4 x i8] c"der\00", align 1
@.str.39 = private unnamed_addr constant [12 x i8] c"fastinfoset\00", align 1
@.str.40 = private unnamed_addr constant [6 x i8] c"wbxml\00", align 1
@.str.41 = private unnamed_addr constant [4 x i8] c"zip\00", align 1
@.str.42 = private unnamed_addr constant [49 x i8] c"Malformed Media Type, expected parameter got EOF\00", align 1
@.str.43 = private unnamed_addr constant [23 x i8] c"Invalid quality factor\00", align 1
@.str.44 = private unnamed_addr constant [23 x i8] c"Missing quality factor\00", align 1
@.str.45 = private unnamed_addr constant [32 x i8] c"Unfinished Media Type parameter\00", align 1
@.str.46 = private unnamed_addr constant [2 x i8] c"/\00", align 1
@.str.47 = private unnamed_addr constant [3 x i8] c"; \00", align 1
@.str.48 = private unnamed_addr constant [2 x i8] c"=\00", align 1
@_ZTVN10__cxxabiv120__si_class_type_infoE = external global i8*
@_ZTSN8Pistache4Http9HttpErrorE = linkonce_odr dso_local constant [27 x i8] c"N8Pistache4Http9HttpErrorE\00", comdat, align 1
@_ZTISt9exception = external constant i8*
@_ZTIN8Pistache4Http9HttpErrorE = linkonce_odr dso_local constant { i8*, i8*, i8* } { i8* bitcast (i8** getelementptr inbounds (i8*, i8** @_ZTVN10__cxxabiv120__si_class_type_infoE, i64 2) to i8*), i8* getelementptr inbounds ([27 x i8], [27 x i8]* @_ZTSN8Pistache4Http9HttpErrorE, i32 0, i32 0), i8* bitcast (i8** @_ZTISt9exception to i8*) }, comdat, align 8
@_ZTVN8Pistache4Http9HttpErrorE = linkonce_odr dso_local unnamed_addr constant { [5 x i8*] } { [5 x i8*] [i8* null, i8* bitcast ({ i8*, i8*, i8* }* @_ZTIN8Pistache4Http9HttpErrorE to i8*), i8* bitcast (void (%"struct.Pistache::Http::HttpError"*)* @_ZN8Pistache4Http9HttpErrorD2Ev to i8*), i8* bitcast (void (%"struct.Pistache::Http::HttpError"*)* @_ZN8Pistache4Http9HttpErrorD0Ev to i8*), i8* bitcast (i8* (%"struct.Pistache::Http::HttpError"*)* @_ZNK8Pistache4Http9HttpError4whatEv to i8*)] }, comdat, align 8
@.str.49 = private unnamed_addr constant [53 x i8] c"Invalid quality value, must be in the [0; 100] range\00", align 1
@_ZTISt13runtime_error = external constant i8*
@_ZTVSt15basic_streambufIcSt11char_traitsIcEE = external unnamed_addr constant { [16 x i8*] }, align 8
@.str.50 = private unnamed_addr constant [1 x i8] zeroinitializer, align 1
@.str.51 = private unnamed_addr constant [6 x i8] c"+json\00", align 1
@.str.52 = private unnamed_addr constant [5 x i8] c"+ber\00", align 1
@.str.53 = private unnamed_addr constant [5 x i8] c"+der\00", align 1
@.str.54 = private unnamed_addr constant [13 x i8] c"+fastinfoset\00", align 1
@.str.55 = private unnamed_addr constant [7 x i8] c"+wbxml\00", align 1
@.str.56 = private unnamed_addr constant [5 x i8] c"+zip\00", align 1
@.str.57 = private unnamed_addr constant [5 x i8] c"+xml\00", align 1
@.str.58 = private unnamed_addr constant [50 x i8] c"basic_string: construction from null is not valid\00", align 1
@.str.59 = private unnamed_addr constant [21 x i8] c"basic_string::append\00", align 1
@_ZTVN8Pistache12RawStreamBufIcEE = linkonce_odr dso_local unnamed_addr constant { [16 x i8*] } { [16 x i8*] [i8* null, i8* bitcast ({ i8*, i8*, i8* }* @_ZTIN8Pistache12RawStreamBufIcEE to i8*), i8* bitcast (void (%"class.std::basic_streambuf"*)* @_ZNSt15basic_streambufIcSt11char_traitsIcEED2Ev to i8*), i8* bitcast (void (%"class.Pistache::RawStreamBuf"*)* @_ZN8Pistache12RawStreamBufIcED0Ev to i8*), i8* bitcast (void (%"class.std::basic_streambuf"*, %"class.std::locale"*)* @_ZNSt15basic_streambufIcSt11char_traitsIcEE5imbueERKSt6locale to i8*), i8* bitcast (%"class.std::basic_streambuf"* (%"class.std::basic_streambuf"*, i8*, i64)* @_ZNSt15basic_streambufIcSt11char_traitsIcEE6setbufEPcl to i8*), i8* bitcast ({ i64, i64 } (%"class.std::basic_streambuf"*, i64, i32, i32)* @_ZNSt15basic_streambufIcSt11char_traitsIcEE7seekoffElSt12_Ios_SeekdirSt13_Ios_Openmode to i8*), i8* bitcast ({ i64, i64 } (%"class.std::basic_streambuf"*, i64, i64, i32)* @_ZNSt15basic_streambufIcSt11char_traitsIcEE7seekposESt4fposI11__mbstate_tESt13_Ios_Openmode to i8*), i8* bitcast (i32 (%"class.std::basic_streambuf"*)* @_ZNSt15basic_streambufIcSt11char_traitsIcEE4syncEv to i8*), i8* bitcast (i64 (%"class.std::basic_streambuf"*)* @_ZNSt15basic_streambufIcSt11char_traitsIcEE9showmanycEv to i8*), i8* bitcast (i64 (%"class.std::basic_streambuf"*, i8*, i64)* @_ZNSt15basic_streambufIcSt11char_traitsIcEE6xsgetnEPcl to i8*), i8* bitcast (i32 (%"class.std::basic_streambuf"*)* @_ZNSt15basic_streambufIcSt11char_traitsIcEE9underflowEv to i8*), i8* bitcast (i32 (%"class.std::basic_streambuf"*)* @_ZNSt15basic_streambufIcSt11char_traitsIcEE5uflowEv to i8*), i8* bitcast (i32 (%"class.std::basic_streambuf"*, i32)* @_ZNSt15basic_streambufIcSt11char_traitsIcEE9pbackfailEi to i8*), i8* bitcast (i64 (%"class.std::basic_streambuf"*, i8*, i64)* @_ZNSt15basic_streambufIcSt11char_traitsIcEE6xsputnEPKcl to i8*), i8* bitcast (i32 (%"class.std::basic_streambuf"*, i32)* @_ZNSt15basic_streambufIcSt11char_traitsIcEE8overflowEi to i8*)] }, comdat, align 8
@_ZTSN8Pistache12RawStreamBufIcEE = linkonce_odr dso_local constant [29 x i8] c"N8Pistache12RawStreamBufIcEE\00", comdat, align 1
@_ZTSN8Pistache9StreamBufIcEE = linkonce_odr dso_local constant [25 x i8] c"N8Pistache9StreamBufIcEE\00", comdat, align 1
@_ZTISt15basic_streambufIcSt11char_traitsIcEE = external constant i8*
@_ZTIN8Pistache9StreamBufIcEE = linkonce_odr dso_local constant { i8*, i8*, i8* } { i8* bitcast (i8** getelementptr inbounds (i8*, i8** @_ZTVN10__cxxabiv120__si_class_type_infoE, i64 2) to i8*), i8* getelementptr inbounds ([25 x i8], [25 x i8]* @_ZTSN8Pistache9StreamBufIcEE, i32 0, i32 0), i8* bitcast (i8** @_ZTISt15basic_streambufIcSt11char_traitsIcEE to i8*) }, comdat, align 8
@_ZTIN8Pistache12RawStreamBufIcEE = linkonce_odr dso_local constant { i8*, i8*, i8* } { i8* bitcast (i8** getelementptr inbounds (i8*, i8** @_ZTVN10__cxxabiv120__si_class_type_infoE, i64 2) to i8*), i8* getelementptr inbounds ([29 x i8], [29 x i8]* @_ZTSN8Pistache12RawStreamBufIcEE, i32 0, i32 0), i8* bitcast ({ i8*, i8*, i8* }* @_ZTIN8Pistache9StreamBufIcEE to i8*) }, comdat, align 8
@_ZSt19piecewise_construct = linkonce_odr dso_local constant %"struct.std::piecewise_construct_t" undef, comdat, align 1
@llvm.global_ctors = appending global [1 x { i32, void ()*, i8* }] [{ i32, void ()*, i8* } { i32 65535, void ()* @_GLOBAL__sub_I_mime.cc, i8* null }]
@switch.table._ZNK8Pistache4Http4Mime9MediaType8toStringB5cxx11Ev = private unnamed_addr constant [8 x i8*] [i8* getelementptr inbounds ([2 x i8], [2 x i8]* @.str.11, i64 0, i64 0), i8* getelementptr inbounds ([5 x i8], [5 x i8]* @.str.12, i64 0, i64 0), i8* getelementptr inbounds ([6 x i8], [6 x i8]* @.str.13, i64 0, i64 0), i8* getelementptr inbounds ([6 x i8], [6 x i8]* @.str.14, i64 0, i64 0), i8* getelementptr inbounds ([6 x i8], [6 x i8]* @.str.15, i64 0, i64 0), i8* getelementptr inbounds ([12 x i8], [12 x i8]* @.str.16, i64 0, i64 0), i8* getelementptr inbounds ([8 x i8], [8 x i8]* @.str.17, i64 0, i64 0), i8* getelementptr inbounds ([10 x i8], [10 x i8]* @.str.18, i64 0, i64 0)], align 8
@switch.table._ZNK8Pistache4Http4Mime9MediaType8toStringB5cxx11Ev.1 = private unnamed_addr constant [17 x i8*] [i8* getelementptr inbounds ([2 x i8], [2 x i8]* @.str.11, i64 0, i64 0), i8* getelementptr inbounds ([6 x i8], [6 x i8]* @.str.23, i64 0, i64 0), i8* getelementptr inbounds ([5 x i8], [5 x i8]* @.str.24, i64 0, i64 0), i8* getelementptr inbounds ([6 x i8], [6 x i8]* @.str.25, i64 0, i64 0), i8* getelementptr inbounds ([4 x i8], [4 x i8]* @.str.26, i64 0, i64 0), i8* getelementptr inbounds ([11 x i8], [11 x i8]* @.str.27, i64 0, i64 0), i8* getelementptr inbounds ([4 x i8], [4 x i8]* @.str.28, i64 0, i64 0), i8* getelementptr inbounds ([13 x i8], [13 x i8]* @.str.29, i64 0, i64 0), i8* getelementptr inbounds ([5 x i8], [5 x i8]* @.str.30, i64 0, i64 0), i8* getelementptr inbounds ([12 x i8], [12 x i8]* @.str.31, i64 0, i64 0), i8* getelementptr inbounds ([21 x i8], [21 x i8]* @.str.32, i64 0, i64 0), i8* getelementptr inbounds ([22 x i8], [22 x i8]* @.str.33, i64 0, i64 0), i8* getelementptr inbounds ([10 x i8], [10 x i8]* @.str.34, i64 0, i64 0), i8* getelementptr inbounds ([4 x i8], [4 x i8]* @.str.6, i64 0, i64 0), i8* getelementptr inbounds ([4 x i8], [4 x i8]* @.str.35, i64 0, i64 0), i8* getelementptr inbounds ([4 x i8], [4 x i8]* @.str.7, i64 0, i64 0), i8* getelementptr inbounds ([5 x i8], [5 x i8]* @.str.5, i64 0, i64 0)], align 8

declare void @_ZNSt8ios_base4InitC1Ev(%"class.std::ios_base::Init"* noundef nonnull align 1 dereferenceable(1)) unnamed_addr #0

; Function Attrs: nounwind
declare void @_ZNSt8ios_base4InitD1Ev(%"class.std::ios_base::Init"* noundef nonnull align 1 dereferenceable(1)) unnamed_addr #1

; Function Attrs: nofree nounwind
declare i32 @__cxa_atexit(void (i8*)*, i8*, i8*) local_unnamed_addr #2

; Function Attrs: uwtable
define dso_local void @_ZNK8Pistache4Http4Mime1Q8toStringB5cxx11Ev(%"class.std::__cxx11::basic_string"* noalias sret(%"class.std::__cxx11::basic_string") align 8 %agg.result, %"class.Pistache::Http::Mime::Q"* nocapture noundef nonnull readonly align 2 dereferenceable(2) %this) local_unnamed_addr #3 align 2 personality i8* bitcast (i32 (...)* @__gxx_personality_v0 to i8*) {
entry:
  %ref.tmp = alloca %"class.std::allocator", align 1
  %ref.tmp6 = alloca %"class.std::allocator", align 1
  %buff = alloca [7 x i8], align 1
  %ref.tmp27 = alloca %"class.std::allocator", align 1
  %val_ = getelementptr inbounds %"class.Pistache::Http::Mime::Q", %"class.Pistache::Http::Mime::Q"* %this, i64 0, i32 0
  %0 = load i16, i16* %val_, align 2, !tbaa !5
  switch i16 %0, label %if.end9 [
    i16 0, label %if.then
    i16 100, label %if.then5
  ]

if.then:                                          ; preds = %entry
  %1 = getelementptr inbounds %"class.std::allocator", %"class.std::allocator"* %ref.tmp, i64 0, i32 0
  call void @llvm.lifetime.start.p0i8(i64 1, i8* nonnull %1) #29
  call void @_ZNSt7__cxx1112basic_stringIcSt11char_traitsIcESaIcEEC2IS3_EEPKcRKS3_(%"class.std::__cxx11::basic_string"* noundef nonnull align 8 dereferenceable(32) %agg.result, i8* noundef getelementptr inbounds ([4 x i8], [4 x i8]* @.str, i64 0, i64 0), %"class.std::allocator"* noundef nonnull align 1 dereferenceable(1) %ref.tmp)
  call void @llvm.lifetime.end.p0i8(i64 1, i8* nonnull %1) #29
  br label %return

if.then5:                                         ; preds = %entry
  %2 = getelementptr inbounds %"class.std::allocator", %"class.std::allocator"* %ref.tmp6, i64 0, i32 0
  call void @llvm.lifetime.start.p0i8(i64 1, i8* nonnull %2) #29
  call void @_ZNSt7__cxx1112basic_stringIcSt11char_traitsIcESaIcEEC2IS3_EEPKcRKS3_(%"class.std::__cxx11::basic_string"* noundef nonnull align 8 dereferenceable(32) %agg.result, i8* noundef getelementptr inbounds ([4 x i8], [4 x i8]* @.str.1, i64 0, i64 0), %"class.std::allocator"* noundef nonnull align 1 dereferenceable(1) %ref.tmp6)
  call void @llvm.lifetime.end.p0i8(i64 1, i8* nonnull %2) #29
  br label %return

if.end9:                                          ; preds = %entry
  %3 = getelementptr inbounds [7 x i8], [7 x i8]* %buff, i64 0, i64 0
  call void @llvm.lifetime.start.p0i8(i64 7, i8* nonnull %3) #29
  call void @llvm.memset.p0i8.i64(i8* noundef nonnull align 1 dereferenceable(7) %3, i8 0, i64 7, i1 false)
  %4 = urem i16 %0, 10
  %cmp12 = icmp eq i16 %4, 0
  %conv17 = uitofp i16 %0 to double
  %div = fdiv double %conv17, 1.000000e+02
  %. = select i1 %cmp12, i8* getelementptr inbounds ([7 x i8], [7 x i8]* @.str.2, i64 0, i64 0), i8* getelementptr inbounds ([7 x i8], [7 x i8]* @.str.3, i64 0, i64 0)
  %call24 = call i32 (i8*, i64, i8*, ...) @snprintf(i8* noundef nonnull %3, i64 noundef 7, i8* noundef %., double noundef %div) #29
  %5 = getelementptr inbounds %"class.std::allocator", %"class.std::allocator"* %ref.tmp27, i64 0, i32 0
  call void @llvm.lifetime.start.p0i8(i64 1, i8* nonnull %5) #29
  call void @_ZNSt7__cxx1112basic_stringIcSt11char_traitsIcESaIcEEC2IS3_EEPKcRKS3_(%"class.std::__cxx11::basic_string"* noundef nonnull align 8 dereferenceable(32) %agg.result, i8* noundef nonnull %3, %"class.std::allocator"* noundef nonnull align 1 dereferenceable(1) %ref.tmp27)
  call void @llvm.lifetime.end.p0i8(i64 1, i8* nonnull %5) #29
  call void @llvm.lifetime.end.p0i8(i64 7, i8* nonnull %3) #29
  br label %return

return:                                           ; preds = %if.end9, %if.then5, %if.then
  ret void
}

; Function Attrs: argmemonly mustprogress nofree nosync nounwind willreturn
declare void @llvm.lifetime.start.p0i8(i64 immarg, i8* nocapture) #4

; Function Attrs: noinline uwtable
define linkonce_odr dso_local void @_ZNSt7__cxx1112basic_stringIcSt11char_traitsIcESaIcEEC2IS3_EEPKcRKS3_(%"class.std::__cxx11::basic_string"* noundef nonnull align 8 dereferenceable(32) %this, i8* noundef %__s, %"class.std::allocator"* noundef nonnull align 1 dereferenceable(1) %__a) unnamed_addr #5 comdat align 2 personality i8* bitcast (i32 (...)* @__gxx_personality_v0 to i8*) {
entry:
  %_M_dataplus = getelementptr inbounds %"class.std::__cxx11::basic_string", %"class.std::__cxx11::basic_string"* %this, i64 0, i32 0
  %call = call noundef i8* @_ZNSt7__cxx1112basic_stringIcSt11char_traitsIcESaIcEE13_M_local_dataEv(%"class.std::__cxx11::basic_string"* noundef nonnull align 8 dereferenceable(32) %this)
  call void @_ZNSt7__cxx1112basic_stringIcSt11char_traitsIcESaIcEE12_Alloc_hiderC2EPcRKS3_(%"struct.std::__cxx11::basic_string<char>::_Alloc_hider"* noundef nonnull align 8 dereferenceable(8) %_M_dataplus, i8* noundef %call, %"class.std::allocator"* noundef nonnull align 1 dereferenceable(1) %__a)
  %cmp = icmp eq i8* %__s, null
  br i1 %cmp, label %if.then, label %if.end

if.then:                                          ; preds = %entry
  call void @_ZSt19__throw_logic_errorPKc(i8* noundef getelementptr inbounds ([50 x i8], [50 x i8]* @.str.58, i64 0, i64 0)) #30
  unreachable

if.end:                                           ; preds = %entry
  %call.i = call i64 @strlen(i8* noundef nonnull dereferenceable(1) %__s) #29
  %add.ptr = getelementptr inbounds i8, i8* %__s, i64 %call.i
  call void @_ZNSt7__cxx1112basic_stringIcSt11char_traitsIcESaIcEE12_M_constructIPKcEEvT_S8_St20forward_iterator_tag(%"class.std::__cxx11::basic_string"* noundef nonnull align 8 dereferenceable(32) %this, i8* noundef nonnull %__s, i8* noundef nonnull %add.ptr)
  ret void
}

declare i32 @__gxx_personality_v0(...)

; Function Attrs: argmemonly mustprogress nofree nosync nounwind willreturn
declare void @llvm.lifetime.end.p0i8(i64 immarg, i8* nocapture) #4

; Function Attrs: argmemonly mustprogress nofree nounwind willreturn writeonly
declare void @llvm.memset.p0i8.i64(i8* nocapture writeonly, i8, i64, i1 immarg) #6

; Function Attrs: nofree nounwind
declare noundef i32 @snprintf(i8* noalias nocapture noundef writeonly, i64 noundef, i8* nocapture noundef readonly, ...) local_unnamed_addr #7

; Function Attrs: uwtable
define dso_local void @_ZN8Pistache4Http4Mime9MediaType10fromStringERKNSt7__cxx1112basic_stringIcSt11char_traitsIcESaIcEEE(%"class.Pistache::Http::Mime::MediaType"* noalias sret(%"class.Pistache::Http::Mime::MediaType") align 8 %agg.result, %"class.std::__cxx11::basic_string"* noundef nonnull align 8 dereferenceable(32) %str) local_unnamed_addr #3 align 2 personality i32 (...)* @__gxx_personality_v0 {
entry:
  %call = call noundef i8* @_ZNKSt7__cxx1112basic_stringIcSt11char_traitsIcESaIcEE5c_strEv(%"class.std::__cxx11::basic_string"* noundef nonnull align 8 dereferenceable(32) %str) #29
  %call1 = call noundef i64 @_ZNKSt7__cxx1112basic_stringIcSt11char_traitsIcESaIcEE4sizeEv(%"class.std::__cxx11::basic_string"* noundef nonnull align 8 dereferenceable(32) %str) #29
  %top_.i.i = getelementptr inbounds %"class.Pistache::Http::Mime::MediaType", %"class.Pistache::Http::Mime::MediaType"* %agg.result, i64 0, i32 0
  store i32 8, i32* %top_.i.i, align 8, !tbaa !10, !alias.scope !26
  %sub_.i.i = getelementptr inbounds %"class.Pistache::Http::Mime::MediaType", %"class.Pistache::Http::Mime::MediaType"* %agg.result, i64 0, i32 1
  store i32 19, i32* %sub_.i.i, align 4, !tbaa !29, !alias.scope !26
  %suffix_.i.i = getelementptr inbounds %"class.Pistache::Http::Mime::MediaType", %"class.Pistache::Http::Mime::MediaType"* %agg.result, i64 0, i32 2
  store i32 7, i32* %suffix_.i.i, align 8, !tbaa !30, !alias.scope !26
  %raw_.i.i = getelementptr inbounds %"class.Pistache::Http::Mime::MediaType", %"class.Pistache::Http::Mime::MediaType"* %agg.result, i64 0, i32 4
  call void @_ZNSt7__cxx1112basic_stringIcSt11char_traitsIcESaIcEEC2Ev(%"class.std::__cxx11::basic_string"* noundef nonnull align 8 dereferenceable(32) %raw_.i.i) #29
  %rawSubIndex.i.i = getelementptr inbounds %"class.Pistache::Http::Mime::MediaType", %"class.Pistache::Http::Mime::MediaType"* %agg.result, i64 0, i32 5
  %params.i.i = getelementptr inbounds %"class.Pistache::Http::Mime::MediaType", %"class.Pistache::Http::Mime::MediaType"* %agg.result, i64 0, i32 7
  %0 = bitcast %"struct.Pistache::Http::Mime::MediaType::Index"* %rawSubIndex.i.i to i8*
  call void @llvm.memset.p0i8.i64(i8* noundef nonnull align 8 dereferenceable(88) %0, i8 0, i64 88, i1 false) #29, !alias.scope !26
  call void @_ZNSt13unordered_mapINSt7__cxx1112basic_stringIcSt11char_traitsIcESaIcEEES5_St4hashIS5_ESt8equal_toIS5_ESaISt4pairIKS5_S5_EEEC2Ev(%"class.std::unordered_map"* noundef nonnull align 8 dereferenceable(56) %params.i.i) #29
  %q_.i.i = getelementptr inbounds %"class.Pistache::Http::Mime::MediaType", %"class.Pistache::Http::Mime::MediaType"* %agg.result, i64 0, i32 8
  call void @_ZNSt8optionalIN8Pistache4Http4Mime1QEEC2Ev(%"class.std::optional"* noundef nonnull align 2 dereferenceable(4) %q_.i.i) #29
  invoke void @_ZN8Pistache4Http4Mime9MediaType8parseRawEPKcm(%"class.Pistache::Http::Mime::MediaType"* noundef nonnull align 8 dereferenceable(140) %agg.result, i8* noundef %call, i64 noundef %call1)
          to label %_ZN8Pistache4Http4Mime9MediaType7fromRawEPKcm.exit unwind label %lpad.i

lpad.i:                                           ; preds = %entry
  %1 = landingpad { i8*, i32 }
          cleanup
  call void @_ZNSt13unordered_mapINSt7__cxx1112basic_stringIcSt11char_traitsIcESaIcEEES5_St4hashIS5_ESt8equal_toIS5_ESaISt4pairIKS5_S5_EEED2Ev(%"class.std::unordered_map"* noundef nonnull align 8 dereferenceable(56) %params.i.i) #29
  call void @_ZNSt7__cxx1112basic_stringIcSt11char_traitsIcESaIcEED2Ev(%"class.std::__cxx11::basic_string"* noundef nonnull align 8 dereferenceable(32) %raw_.i.i) #29
  resume { i8*, i32 } %1

_ZN8Pistache4Http4Mime9MediaType7fromRawEPKcm.exit: ; preds = %entry
  ret void
}

; Function Attrs: uwtable
define dso_local void @_ZN8Pistache4Http4Mime9MediaType7fromRawEPKcm(%"class.Pistache::Http::Mime::MediaType"* noalias sret(%"class.Pistache::Http::Mime::MediaType") align 8 %agg.result, i8* noundef %str, i64 noundef %len) local_unnamed_addr #3 align 2 personality i8* bitcast (i32 (...)* @__gxx_personality_v0 to i8*) {
entry:
  %top_.i = getelementptr inbounds %"class.Pistache::Http::Mime::MediaType", %"class.Pistache::Http::Mime::MediaType"* %agg.result, i64 0, i32 0
  store i32 8, i32* %top_.i, align 8, !tbaa !10
  %sub_.i = getelementptr inbounds %"class.Pistache::Http::Mime::MediaType", %"class.Pistache::Http::Mime::MediaType"* %agg.result, i64 0, i32 1
  store i32 19, i32* %sub_.i, align 4, !tbaa !29
  %suffix_.i = getelementptr inbounds %"class.Pistache::Http::Mime::MediaType", %"class.Pistache::Http::Mime::MediaType"* %agg.result, i64 0, i32 2
  store i32 7, i32* %suffix_.i, align 8, !tbaa !30
  %raw_.i = getelementptr inbounds %"class.Pistache::Http::Mime::MediaType", %"class.Pistache::Http::Mime::MediaType"* %agg.result, i64 0, i32 4
  call void @_ZNSt7__cxx1112basic_stringIcSt11char_traitsIcESaIcEEC2Ev(%"class.std::__cxx11::basic_string"* noundef nonnull align 8 dereferenceable(32) %raw_.i) #29
  %rawSubIndex.i = getelementptr inbounds %"class.Pistache::Http::Mime::MediaType", %"class.Pistache::Http::Mime::MediaType"* %agg.result, i64 0, i32 5
  %params.i = getelementptr inbounds %"class.Pistache::Http::Mime::MediaType", %"class.Pistache::Http::Mime::MediaType"* %agg.result, i64 0, i32 7
  %0 = bitcast %"struct.Pistache::Http::Mime::MediaType::Index"* %rawSubIndex.i to i8*
  call void @llvm.memset.p0i8.i64(i8* noundef nonnull align 8 dereferenceable(88) %0, i8 0, i64 88, i1 false) #29
  call void @_ZNSt13unordered_mapINSt7__cxx1112basic_stringIcSt11char_traitsIcESaIcEEES5_St4hashIS5_ESt8equal_toIS5_ESaISt4pairIKS5_S5_EEEC2Ev(%"class.std::unordered_map"* noundef nonnull align 8 dereferenceable(56) %params.i) #29
  %q_.i = getelementptr inbounds %"class.Pistache::Http::Mime::MediaType", %"class.Pistache::Http::Mime::MediaType"* %agg.result, i64 0, i32 8
  call void @_ZNSt8optionalIN8Pistache4Http4Mime1QEEC2Ev(%"class.std::optional"* noundef nonnull align 2 dereferenceable(4) %q_.i) #29
  invoke void @_ZN8Pistache4Http4Mime9MediaType8parseRawEPKcm(%"class.Pistache::Http::Mime::MediaType"* noundef nonnull align 8 dereferenceable(140) %agg.result, i8* noundef %str, i64 noundef %len)
          to label %nrvo.skipdtor unwind label %lpad

lpad:                                             ; preds = %entry
  %1 = landingpad { i8*, i32 }
          cleanup
  call void @_ZNSt13unordered_mapINSt7__cxx1112basic_stringIcSt11char_traitsIcESaIcEEES5_St4hashIS5_ESt8equal_toIS5_ESaISt4pairIKS5_S5_EEED2Ev(%"class.std::unordered_map"* noundef nonnull align 8 dereferenceable(56) %params.i) #29
  call void @_ZNSt7__cxx1112basic_stringIcSt11char_traitsIcESaIcEED2Ev(%"class.std::__cxx11::basic_string"* noundef nonnull align 8 dereferenceable(32) %raw_.i) #29
  resume { i8*, i32 } %1

nrvo.skipdtor:                                    ; preds = %entry
  ret void
}

; Function Attrs: mustprogress noinline nounwind uwtable
define linkonce_odr noundef i8* @_ZNKSt7__cxx1112basic_stringIcSt11char_traitsIcESaIcEE5c_strEv(%"class.std::__cxx11::basic_string"* noundef nonnull align 8 dereferenceable(32) %this) local_unnamed_addr #8 align 2 personality i8* bitcast (i32 (...)* @__gxx_personality_v0 to i8*) {
entry:
  %call = call noundef i8* @_ZNKSt7__cxx1112basic_stringIcSt11char_traitsIcESaIcEE7_M_dataEv(%"class.std::__cxx11::basic_string"* noundef nonnull align 8 dereferenceable(32) %this)
  ret i8* %call
}

; Function Attrs: mustprogress noinline nounwind uwtable
define linkonce_odr noundef i64 @_ZNKSt7__cxx1112basic_stringIcSt11char_traitsIcESaIcEE4sizeEv(%"class.std::__cxx11::basic_string"* noundef nonnull align 8 dereferenceable(32) %this) local_unnamed_addr #8 align 2 {
entry:
  %_M_string_length = getelementptr inbounds %"class.std::__cxx11::basic_string", %"class.std::__cxx11::basic_string"* %this, i64 0, i32 1
  %0 = load i64, i64* %_M_string_length, align 8, !tbaa !31
  ret i64 %0
}

; Function Attrs: uwtable
define dso_local void @_ZN8Pistache4Http4Mime9MediaType10fromStringEONSt7__cxx1112basic_stringIcSt11char_traitsIcESaIcEEE(%"class.Pistache::Http::Mime::MediaType"* noalias sret(%"class.Pistache::Http::Mime::MediaType") align 8 %agg.result, %"class.std::__cxx11::basic_string"* noundef nonnull align 8 dereferenceable(32) %str) local_unnamed_addr #3 align 2 personality i32 (...)* @__gxx_personality_v0 {
entry:
  %call = call noundef i8* @_ZNKSt7__cxx1112basic_stringIcSt11char_traitsIcESaIcEE5c_strEv(%"class.std::__cxx11::basic_string"* noundef nonnull align 8 dereferenceable(32) %str) #29
  %call1 = call noundef i64 @_ZNKSt7__cxx1112basic_stringIcSt11char_traitsIcESaIcEE4sizeEv(%"class.std::__cxx11::basic_string"* noundef nonnull align 8 dereferenceable(32) %str) #29
  %top_.i.i = getelementptr inbounds %"class.Pistache::Http::Mime::MediaType", %"class.Pistache::Http::Mime::MediaType"* %agg.result, i64 0, i32 0
  store i32 8, i32* %top_.i.i, align 8, !tbaa !10, !alias.scope !32
  %sub_.i.i = getelementptr inbounds %"class.Pistache::Http::Mime::MediaType", %"class.Pistache::Http::Mime::MediaType"* %agg.result, i64 0, i32 1
  store i32 19, i32* %sub_.i.i, align 4, !tbaa !29, !alias.scope !32
  %suffix_.i.i = getelementptr inbounds %"class.Pistache::Http::Mime::MediaType", %"class.Pistache::Http::Mime::MediaType"* %agg.result, i64 0, i32 2
  store i32 7, i32* %suffix_.i.i, align 8, !tbaa !30, !alias.scope !32
  %raw_.i.i = getelementptr inbounds %"class.Pistache::Http::Mime::MediaType", %"class.Pistache::Http::Mime::MediaType"* %agg.result, i64 0, i32 4
  call void @_ZNSt7__cxx1112basic_stringIcSt11char_traitsIcESaIcEEC2Ev(%"class.std::__cxx11::basic_string"* noundef nonnull align 8 dereferenceable(32) %raw_.i.i) #29
  %rawSubIndex.i.i = getelementptr inbounds %"class.Pistache::Http::Mime::MediaType", %"class.Pistache::Http::Mime::MediaType"* %agg.result, i64 0, i32 5
  %params.i.i = getelementptr inbounds %"class.Pistache::Http::Mime::MediaType", %"class.Pistache::Http::Mime::MediaType"* %agg.result, i64 0, i32 7
  %0 = bitcast %"struct.Pistache::Http::Mime::MediaType::Index"* %rawSubIndex.i.i to i8*
  call void @llvm.memset.p0i8.i64(i8* noundef nonnull align 8 dereferenceable(88) %0, i8 0, i64 88, i1 false) #29, !alias.scope !32
  call void @_ZNSt13unordered_mapINSt7__cxx1112basic_stringIcSt11char_traitsIcESaIcEEES5_St4hashIS5_ESt8equal_toIS5_ESaISt4pairIKS5_S5_EEEC2Ev(%"class.std::unordered_map"* noundef nonnull align 8 dereferenceable(56) %params.i.i) #29
  %q_.i.i = getelementptr inbounds %"class.Pistache::Http::Mime::MediaType", %"class.Pistache::Http::Mime::MediaType"* %agg.result, i64 0, i32 8
  call void @_ZNSt8optionalIN8Pistache4Http4Mime1QEEC2Ev(%"class.std::optional"* noundef nonnull align 2 dereferenceable(4) %q_.i.i) #29
  invoke void @_ZN8Pistache4Http4Mime9MediaType8parseRawEPKcm(%"class.Pistache::Http::Mime::MediaType"* noundef nonnull align 8 dereferenceable(140) %agg.result, i8* noundef %call, i64 noundef %call1)
          to label %_ZN8Pistache4Http4Mime9MediaType7fromRawEPKcm.exit unwind label %lpad.i

lpad.i:                                           ; preds = %entry
  %1 = landingpad { i8*, i32 }
          cleanup
  call void @_ZNSt13unordered_mapINSt7__cxx1112basic_stringIcSt11char_traitsIcESaIcEEES5_St4hashIS5_ESt8equal_toIS5_ESaISt4pairIKS5_S5_EEED2Ev(%"class.std::unordered_map"* noundef nonnull align 8 dereferenceable(56) %params.i.i) #29
  call void @_ZNSt7__cxx1112basic_stringIcSt11char_traitsIcESaIcEED2Ev(%"class.std::__cxx11::basic_string"* noundef nonnull align 8 dereferenceable(32) %raw_.i.i) #29
  resume { i8*, i32 } %1

_ZN8Pistache4Http4Mime9MediaType7fromRawEPKcm.exit: ; preds = %entry
  ret void
}

; Function Attrs: uwtable
define dso_local void @_ZN8Pistache4Http4Mime9MediaType8parseRawEPKcm(%"class.Pistache::Http::Mime::MediaType"* noundef nonnull align 8 dereferenceable(140) %this, i8* noundef %str, i64 noundef %len) local_unnamed_addr #3 align 2 personality i8* bitcast (i32 (...)* @__gxx_personality_v0 to i8*) {
entry:
  %ref.tmp.i211 = alloca %"class.std::allocator", align 1
  %ref.tmp.i196 = alloca %"class.std::allocator", align 1
  %agg.tmp.i180 = alloca %"class.std::__cxx11::basic_string", align 8
  %ref.tmp.i181 = alloca %"class.std::allocator", align 1
  %agg.tmp.i151 = alloca %"class.std::__cxx11::basic_string", align 8
  %ref.tmp.i152 = alloca %"class.std::allocator", align 1
  %agg.tmp.i134 = alloca %"class.std::__cxx11::basic_string", align 8
  %ref.tmp.i135 = alloca %"class.std::allocator", align 1
  %agg.tmp.i117 = alloca %"class.std::__cxx11::basic_string", align 8
  %ref.tmp.i118 = alloca %"class.std::allocator", align 1
  %agg.tmp.i101 = alloca %"class.std::__cxx11::basic_string", align 8
  %ref.tmp.i102 = alloca %"class.std::allocator", align 1
  %agg.tmp.i65 = alloca %"class.std::__cxx11::basic_string", align 8
  %ref.tmp.i66 = alloca %"class.std::allocator", align 1
  %agg.tmp.i38 = alloca %"class.std::__cxx11::basic_string", align 8
  %ref.tmp.i39 = alloca %"class.std::allocator", align 1
  %agg.tmp.i = alloca %"class.std::__cxx11::basic_string", align 8
  %ref.tmp.i = alloca %"class.std::allocator", align 1
  %buf = alloca %"class.Pistache::RawStreamBuf", align 8
  %cursor = alloca %"class.Pistache::StreamCursor", align 8
  %ref.tmp = alloca %"class.std::__cxx11::basic_string", align 8
  %ref.tmp2 = alloca %"class.std::allocator", align 1
  %ref.tmp126 = alloca [2 x i8], align 1
  %ref.tmp186 = alloca [2 x i8], align 1
  %val = alloca double, align 8
  %ref.tmp246 = alloca %"class.Pistache::Http::Mime::Q", align 2
  %key = alloca %"class.std::__cxx11::basic_string", align 8
  %ref.tmp282 = alloca [2 x i8], align 1
  %ref.tmp292 = alloca %"struct.std::pair.5", align 8
  %ref.tmp294 = alloca %"class.std::__cxx11::basic_string", align 8
  %0 = bitcast %"class.Pistache::RawStreamBuf"* %buf to i8*
  call void @llvm.lifetime.start.p0i8(i64 64, i8* nonnull %0) #29
  %1 = getelementptr inbounds %"class.Pistache::RawStreamBuf", %"class.Pistache::RawStreamBuf"* %buf, i64 0, i32 0, i32 0, i32 0
  store i32 (...)** bitcast (i8** getelementptr inbounds ({ [16 x i8*] }, { [16 x i8*] }* @_ZTVSt15basic_streambufIcSt11char_traitsIcEE, i64 0, inrange i32 0, i64 2) to i32 (...)**), i32 (...)*** %1, align 8, !tbaa !35
  %_M_in_beg.i.i.i = getelementptr inbounds %"class.Pistache::RawStreamBuf", %"class.Pistache::RawStreamBuf"* %buf, i64 0, i32 0, i32 0, i32 1
  %_M_buf_locale.i.i.i = getelementptr inbounds %"class.Pistache::RawStreamBuf", %"class.Pistache::RawStreamBuf"* %buf, i64 0, i32 0, i32 0, i32 7
  %2 = bitcast i8** %_M_in_beg.i.i.i to i8*
  call void @llvm.memset.p0i8.i64(i8* noundef nonnull align 8 dereferenceable(48) %2, i8 0, i64 48, i1 false) #29
  call void @_ZNSt6localeC1Ev(%"class.std::locale"* noundef nonnull align 8 dereferenceable(8) %_M_buf_locale.i.i.i) #29
  store i32 (...)** bitcast (i8** getelementptr inbounds ({ [16 x i8*] }, { [16 x i8*] }* @_ZTVN8Pistache12RawStreamBufIcEE, i64 0, inrange i32 0, i64 2) to i32 (...)**), i32 (...)*** %1, align 8, !tbaa !35
  %add.ptr.i = getelementptr inbounds i8, i8* %str, i64 %len
  store i8* %str, i8** %_M_in_beg.i.i.i, align 8, !tbaa !37
  %_M_in_cur.i.i = getelementptr inbounds %"class.Pistache::RawStreamBuf", %"class.Pistache::RawStreamBuf"* %buf, i64 0, i32 0, i32 0, i32 2
  store i8* %str, i8** %_M_in_cur.i.i, align 8, !tbaa !40
  %_M_in_end.i.i = getelementptr inbounds %"class.Pistache::RawStreamBuf", %"class.Pistache::RawStreamBuf"* %buf, i64 0, i32 0, i32 0, i32 3
  store i8* %add.ptr.i, i8** %_M_in_end.i.i, align 8, !tbaa !41
  %3 = bitcast %"class.Pistache::StreamCursor"* %cursor to i8*
  call void @llvm.lifetime.start.p0i8(i64 8, i8* nonnull %3) #29
  %4 = getelementptr inbounds %"class.Pistache::RawStreamBuf", %"class.Pistache::RawStreamBuf"* %buf, i64 0, i32 0
  %buf.i = getelementptr inbounds %"class.Pistache::StreamCursor", %"class.Pistache::StreamCursor"* %cursor, i64 0, i32 0
  store %"class.Pistache::StreamBuf"* %4, %"class.Pistache::StreamBuf"** %buf.i, align 8, !tbaa !42
  %call.i37 = invoke noundef zeroext i1 @_ZN8Pistache12StreamCursor7advanceEm(%"class.Pistache::StreamCursor"* noundef nonnull align 8 dereferenceable(8) %cursor, i64 noundef 0)
          to label %invoke.cont unwind label %lpad

invoke.cont:                                      ; preds = %entry
  %5 = bitcast %"class.std::__cxx11::basic_string"* %ref.tmp to i8*
  call void @llvm.lifetime.start.p0i8(i64 32, i8* nonnull %5) #29
  %6 = getelementptr inbounds %"class.std::allocator", %"class.std::allocator"* %ref.tmp2, i64 0, i32 0
  call void @llvm.lifetime.start.p0i8(i64 1, i8* nonnull %6) #29
  invoke void @_ZNSt7__cxx1112basic_stringIcSt11char_traitsIcESaIcEEC2EPKcmRKS3_(%"class.std::__cxx11::basic_string"* noundef nonnull align 8 dereferenceable(32) %ref.tmp, i8* noundef %str, i64 noundef %len, %"class.std::allocator"* noundef nonnull align 1 dereferenceable(1) %ref.tmp2)
          to label %invoke.cont4 unwind label %lpad3

invoke.cont4:                                     ; preds = %invoke.cont
  %raw_ = getelementptr inbounds %"class.Pistache::Http::Mime::MediaType", %"class.Pistache::Http::Mime::MediaType"* %this, i64 0, i32 4
  %call = call noundef nonnull align 8 dereferenceable(32) %"class.std::__cxx11::basic_string"* @_ZNSt7__cxx1112basic_stringIcSt11char_traitsIcESaIcEEaSEOS4_(%"class.std::__cxx11::basic_string"* noundef nonnull align 8 dereferenceable(32) %raw_, %"class.std::__cxx11::basic_string"* noundef nonnull align 8 dereferenceable(32) %ref.tmp) #29
  call void @_ZNSt7__cxx1112basic_stringIcSt11char_traitsIcESaIcEED2Ev(%"class.std::__cxx11::basic_string"* noundef nonnull align 8 dereferenceable(32) %ref.tmp) #29
  call void @llvm.lifetime.end.p0i8(i64 1, i8* nonnull %6) #29
  call void @llvm.lifetime.end.p0i8(i64 32, i8* nonnull %5) #29
  %call7 = invoke noundef zeroext i1 @_ZN8Pistache12match_stringEPKcmRNS_12StreamCursorENS_15CaseSensitivityE(i8* noundef getelementptr inbounds ([2 x i8], [2 x i8]* @.str.11, i64 0, i64 0), i64 noundef 1, %"class.Pistache::StreamCursor"* noundef nonnull align 8 dereferenceable(8) %cursor, i32 noundef 1)
          to label %invoke.cont6 unwind label %lpad5

invoke.cont6:                                     ; preds = %invoke.cont4
  br i1 %call7, label %do.end, label %if.end

lpad:                                             ; preds = %entry
  %7 = landingpad { i8*, i32 }
          cleanup
  br label %ehcleanup320

lpad3:                                            ; preds = %invoke.cont
  %8 = landingpad { i8*, i32 }
          cleanup
  call void @llvm.lifetime.end.p0i8(i64 1, i8* nonnull %6) #29
  call void @llvm.lifetime.end.p0i8(i64 32, i8* nonnull %5) #29
  br label %ehcleanup320

lpad5:                                            ; preds = %if.end35, %if.end41, %do.end, %if.end31, %if.end27, %if.end23, %if.end19, %if.end15, %if.end11, %if.end, %invoke.cont4
  %9 = landingpad { i8*, i32 }
          cleanup
  br label %ehcleanup320

if.end:                                           ; preds = %invoke.cont6
  %call9 = invoke noundef zeroext i1 @_ZN8Pistache12match_stringEPKcmRNS_12StreamCursorENS_15CaseSensitivityE(i8* noundef getelementptr inbounds ([5 x i8], [5 x i8]* @.str.12, i64 0, i64 0), i64 noundef 4, %"class.Pistache::StreamCursor"* noundef nonnull align 8 dereferenceable(8) %cursor, i32 noundef 1)
          to label %invoke.cont8 unwind label %lpad5

invoke.cont8:                                     ; preds = %if.end
  br i1 %call9, label %do.end, label %if.end11

if.end11:                                         ; preds = %invoke.cont8
  %call13 = invoke noundef zeroext i1 @_ZN8Pistache12match_stringEPKcmRNS_12StreamCursorENS_15CaseSensitivityE(i8* noundef getelementptr inbounds ([6 x i8], [6 x i8]* @.str.13, i64 0, i64 0), i64 noundef 5, %"class.Pistache::StreamCursor"* noundef nonnull align 8 dereferenceable(8) %cursor, i32 noundef 1)
          to label %invoke.cont12 unwind label %lpad5

invoke.cont12:                                    ; preds = %if.end11
  br i1 %call13, label %do.end, label %if.end15

if.end15:                                         ; preds = %invoke.cont12
  %call17 = invoke noundef zeroext i1 @_ZN8Pistache12match_stringEPKcmRNS_12StreamCursorENS_15CaseSensitivityE(i8* noundef getelementptr inbounds ([6 x i8], [6 x i8]* @.str.14, i64 0, i64 0), i64 noundef 5, %"class.Pistache::StreamCursor"* noundef nonnull align 8 dereferenceable(8) %cursor, i32 noundef 1)
          to label %invoke.cont16 unwind label %lpad5

invoke.cont16:                                    ; preds = %if.end15
  br i1 %call17, label %do.end, label %if.end19

if.end19:                                         ; preds = %invoke.cont16
  %call21 = invoke noundef zeroext i1 @_ZN8Pistache12match_stringEPKcmRNS_12StreamCursorENS_15CaseSensitivityE(i8* noundef getelementptr inbounds ([6 x i8], [6 x i8]* @.str.15, i64 0, i64 0), i64 noundef 5, %"class.Pistache::StreamCursor"* noundef nonnull align 8 dereferenceable(8) %cursor, i32 noundef 1)
          to label %invoke.cont20 unwind label %lpad5

invoke.cont20:                                    ; preds = %if.end19
  br i1 %call21, label %do.end, label %if.end23

if.end23:                                         ; preds = %invoke.cont20
  %call25 = invoke noundef zeroext i1 @_ZN8Pistache12match_stringEPKcmRNS_12StreamCursorENS_15CaseSensitivityE(i8* noundef getelementptr inbounds ([12 x i8], [12 x i8]* @.str.16, i64 0, i64 0), i64 noundef 11, %"class.Pistache::StreamCursor"* noundef nonnull align 8 dereferenceable(8) %cursor, i32 noundef 1)
          to label %invoke.cont24 unwind label %lpad5

invoke.cont24:                                    ; preds = %if.end23
  br i1 %call25, label %do.end, label %if.end27

if.end27:                                         ; preds = %invoke.cont24
  %call29 = invoke noundef zeroext i1 @_ZN8Pistache12match_stringEPKcmRNS_12StreamCursorENS_15CaseSensitivityE(i8* noundef getelementptr inbounds ([8 x i8], [8 x i8]* @.str.17, i64 0, i64 0), i64 noundef 7, %"class.Pistache::StreamCursor"* noundef nonnull align 8 dereferenceable(8) %cursor, i32 noundef 1)
          to label %invoke.cont28 unwind label %lpad5

invoke.cont28:                                    ; preds = %if.end27
  br i1 %call29, label %do.end, label %if.end31

if.end31:                                         ; preds = %invoke.cont28
  %call33 = invoke noundef zeroext i1 @_ZN8Pistache12match_stringEPKcmRNS_12StreamCursorENS_15CaseSensitivityE(i8* noundef getelementptr inbounds ([10 x i8], [10 x i8]* @.str.18, i64 0, i64 0), i64 noundef 9, %"class.Pistache::StreamCursor"* noundef nonnull align 8 dereferenceable(8) %cursor, i32 noundef 1)
          to label %invoke.cont32 unwind label %lpad5

invoke.cont32:                                    ; preds = %if.end31
  br i1 %call33, label %do.end, label %if.end35

if.end35:                                         ; preds = %invoke.cont32
  invoke fastcc void @"_ZZN8Pistache4Http4Mime9MediaType8parseRawEPKcmENK3$_0clES4_"(i8* noundef getelementptr inbounds ([19 x i8], [19 x i8]* @.str.19, i64 0, i64 0))
          to label %do.end unwind label %lpad5

do.end:                                           ; preds = %invoke.cont32, %invoke.cont28, %invoke.cont24, %invoke.cont20, %invoke.cont16, %invoke.cont12, %invoke.cont8, %invoke.cont6, %if.end35
  %top.0 = phi i32 [ 8, %if.end35 ], [ 0, %invoke.cont6 ], [ 1, %invoke.cont8 ], [ 2, %invoke.cont12 ], [ 3, %invoke.cont16 ], [ 4, %invoke.cont20 ], [ 5, %invoke.cont24 ], [ 6, %invoke.cont28 ], [ 7, %invoke.cont32 ]
  %top_ = getelementptr inbounds %"class.Pistache::Http::Mime::MediaType", %"class.Pistache::Http::Mime::MediaType"* %this, i64 0, i32 0
  store i32 %top.0, i32* %top_, align 8, !tbaa !10
  %call38 = invoke noundef zeroext i1 @_ZN8Pistache13match_literalEcRNS_12StreamCursorENS_15CaseSensitivityE(i8 noundef signext 47, %"class.Pistache::StreamCursor"* noundef nonnull align 8 dereferenceable(8) %cursor, i32 noundef 1)
          to label %invoke.cont37 unwind label %lpad5

invoke.cont37:                                    ; preds = %do.end
  br i1 %call38, label %if.end41, label %if.then39

if.then39:                                        ; preds = %invoke.cont37
  %10 = bitcast %"class.std::__cxx11::basic_string"* %agg.tmp.i to i8*
  call void @llvm.lifetime.start.p0i8(i64 32, i8* nonnull %10)
  %exception.i = call i8* @__cxa_allocate_exception(i64 48) #29
  %11 = getelementptr inbounds %"class.std::allocator", %"class.std::allocator"* %ref.tmp.i, i64 0, i32 0
  call void @llvm.lifetime.start.p0i8(i64 1, i8* nonnull %11) #29
  invoke void @_ZNSt7__cxx1112basic_stringIcSt11char_traitsIcESaIcEEC2IS3_EEPKcRKS3_(%"class.std::__cxx11::basic_string"* noundef nonnull align 8 dereferenceable(32) %agg.tmp.i, i8* noundef getelementptr inbounds ([56 x i8], [56 x i8]* @.str.20, i64 0, i64 0), %"class.std::allocator"* noundef nonnull align 1 dereferenceable(1) %ref.tmp.i)
          to label %invoke.cont.i unwind label %lpad.i

invoke.cont.i:                                    ; preds = %if.then39
  %12 = bitcast i8* %exception.i to %"struct.Pistache::Http::HttpError"*
  invoke void @_ZN8Pistache4Http9HttpErrorC1ENS0_4CodeENSt7__cxx1112basic_stringIcSt11char_traitsIcESaIcEEE(%"struct.Pistache::Http::HttpError"* noundef nonnull align 8 dereferenceable(48) %12, i32 noundef 415, %"class.std::__cxx11::basic_string"* noundef nonnull %agg.tmp.i)
          to label %invoke.cont3.i unwind label %lpad2.i

invoke.cont3.i:                                   ; preds = %invoke.cont.i
  invoke void @__cxa_throw(i8* %exception.i, i8* bitcast ({ i8*, i8*, i8* }* @_ZTIN8Pistache4Http9HttpErrorE to i8*), i8* bitcast (void (%"struct.Pistache::Http::HttpError"*)* @_ZN8Pistache4Http9HttpErrorD2Ev to i8*)) #30
          to label %unreachable.i unwind label %lpad2.i

lpad.i:                                           ; preds = %if.then39
  %13 = landingpad { i8*, i32 }
          cleanup
  br label %ehcleanup.i

lpad2.i:                                          ; preds = %invoke.cont3.i, %invoke.cont.i
  %cleanup.isactive.0.i = phi i1 [ false, %invoke.cont3.i ], [ true, %invoke.cont.i ]
  %14 = landingpad { i8*, i32 }
          cleanup
  call void @_ZNSt7__cxx1112basic_stringIcSt11char_traitsIcESaIcEED2Ev(%"class.std::__cxx11::basic_string"* noundef nonnull align 8 dereferenceable(32) %agg.tmp.i) #29
  br label %ehcleanup.i

ehcleanup.i:                                      ; preds = %lpad2.i, %lpad.i
  %.pn.i = phi { i8*, i32 } [ %14, %lpad2.i ], [ %13, %lpad.i ]
  %cleanup.isactive.1.i = phi i1 [ %cleanup.isactive.0.i, %lpad2.i ], [ true, %lpad.i ]
  call void @llvm.lifetime.end.p0i8(i64 1, i8* nonnull %11) #29
  br i1 %cleanup.isactive.1.i, label %cleanup.action.i, label %ehcleanup320

cleanup.action.i:                                 ; preds = %ehcleanup.i
  call void @__cxa_free_exception(i8* %exception.i) #29
  br label %ehcleanup320

unreachable.i:                                    ; preds = %invoke.cont3.i
  unreachable

if.end41:                                         ; preds = %invoke.cont37
  %call43 = invoke noundef zeroext i1 @_ZNK8Pistache12StreamCursor3eofEv(%"class.Pistache::StreamCursor"* noundef nonnull align 8 dereferenceable(8) %cursor)
          to label %invoke.cont42 unwind label %lpad5

invoke.cont42:                                    ; preds = %if.end41
  br i1 %call43, label %if.then44, label %if.end46

if.then44:                                        ; preds = %invoke.cont42
  %15 = bitcast %"class.std::__cxx11::basic_string"* %agg.tmp.i38 to i8*
  call void @llvm.lifetime.start.p0i8(i64 32, i8* nonnull %15)
  %exception.i40 = call i8* @__cxa_allocate_exception(i64 48) #29
  %16 = getelementptr inbounds %"class.std::allocator", %"class.std::allocator"* %ref.tmp.i39, i64 0, i32 0
  call void @llvm.lifetime.start.p0i8(i64 1, i8* nonnull %16) #29
  invoke void @_ZNSt7__cxx1112basic_stringIcSt11char_traitsIcESaIcEEC2IS3_EEPKcRKS3_(%"class.std::__cxx11::basic_string"* noundef nonnull align 8 dereferenceable(32) %agg.tmp.i38, i8* noundef getelementptr inbounds ([38 x i8], [38 x i8]* @.str.21, i64 0, i64 0), %"class.std::allocator"* noundef nonnull align 1 dereferenceable(1) %ref.tmp.i39)
          to label %invoke.cont.i41 unwind label %lpad.i43

invoke.cont.i41:                                  ; preds = %if.then44
  %17 = bitcast i8* %exception.i40 to %"struct.Pistache::Http::HttpError"*
  invoke void @_ZN8Pistache4Http9HttpErrorC1ENS0_4CodeENSt7__cxx1112basic_stringIcSt11char_traitsIcESaIcEEE(%"struct.Pistache::Http::HttpError"* noundef nonnull align 8 dereferenceable(48) %17, i32 noundef 415, %"class.std::__cxx11::basic_string"* noundef nonnull %agg.tmp.i38)
          to label %invoke.cont3.i42 unwind label %lpad2.i45

invoke.cont3.i42:                                 ; preds = %invoke.cont.i41
  invoke void @__cxa_throw(i8* %exception.i40, i8* bitcast ({ i8*, i8*, i8* }* @_ZTIN8Pistache4Http9HttpErrorE to i8*), i8* bitcast (void (%"struct.Pistache::Http::HttpError"*)* @_ZN8Pistache4Http9HttpErrorD2Ev to i8*)) #30
          to label %unreachable.i51 unwind label %lpad2.i45

lpad.i43:                                         ; preds = %if.then44
  %18 = landingpad { i8*, i32 }
          cleanup
  br label %ehcleanup.i48

lpad2.i45:                                        ; preds = %invoke.cont3.i42, %invoke.cont.i41
  %cleanup.isactive.0.i44 = phi i1 [ false, %invoke.cont3.i42 ], [ true, %invoke.cont.i41 ]
  %19 = landingpad { i8*, i32 }
          cleanup
  call void @_ZNSt7__cxx1112basic_stringIcSt11char_traitsIcESaIcEED2Ev(%"class.std::__cxx11::basic_string"* noundef nonnull align 8 dereferenceable(32) %agg.tmp.i38) #29
  br label %ehcleanup.i48

ehcleanup.i48:                                    ; preds = %lpad2.i45, %lpad.i43
  %.pn.i46 = phi { i8*, i32 } [ %19, %lpad2.i45 ], [ %18, %lpad.i43 ]
  %cleanup.isactive.1.i47 = phi i1 [ %cleanup.isactive.0.i44, %lpad2.i45 ], [ true, %lpad.i43 ]
  call void @llvm.lifetime.end.p0i8(i64 1, i8* nonnull %16) #29
  br i1 %cleanup.isactive.1.i47, label %cleanup.action.i49, label %ehcleanup320

cleanup.action.i49:                               ; preds = %ehcleanup.i48
  call void @__cxa_free_exception(i8* %exception.i40) #29
  br label %ehcleanup320

unreachable.i51:                                  ; preds = %invoke.cont3.i42
  unreachable

if.end46:                                         ; preds = %invoke.cont42
  %20 = load %"class.Pistache::StreamBuf"*, %"class.Pistache::StreamBuf"** %buf.i, align 8, !tbaa !42
  %_M_in_cur.i.i.i = getelementptr inbounds %"class.Pistache::StreamBuf", %"class.Pistache::StreamBuf"* %20, i64 0, i32 0, i32 2
  %21 = load i8*, i8** %_M_in_cur.i.i.i, align 8, !tbaa !40
  %_M_in_beg.i.i.i56 = getelementptr inbounds %"class.Pistache::StreamBuf", %"class.Pistache::StreamBuf"* %20, i64 0, i32 0, i32 1
  %22 = load i8*, i8** %_M_in_beg.i.i.i56, align 8, !tbaa !37
  %sub.ptr.lhs.cast.i.i = ptrtoint i8* %21 to i64
  %sub.ptr.rhs.cast.i.i = ptrtoint i8* %22 to i64
  %sub.ptr.sub.i.i = sub i64 %sub.ptr.lhs.cast.i.i, %sub.ptr.rhs.cast.i.i
  %call50 = invoke noundef zeroext i1 @_ZN8Pistache9match_rawEPKvmRNS_12StreamCursorE(i8* noundef getelementptr inbounds ([5 x i8], [5 x i8]* @.str.22, i64 0, i64 0), i64 noundef 4, %"class.Pistache::StreamCursor"* noundef nonnull align 8 dereferenceable(8) %cursor)
          to label %invoke.cont49 unwind label %lpad47

invoke.cont49:                                    ; preds = %if.end46
  br i1 %call50, label %if.end123, label %do.body52

lpad47:                                           ; preds = %if.end136, %if.end116, %if.end112, %if.end108, %if.end104, %if.end100, %if.end96, %if.end92, %if.end88, %if.end84, %if.end80, %if.end76, %if.end72, %if.end68, %if.end64, %if.end60, %if.end56, %do.body52, %if.end46
  %23 = landingpad { i8*, i32 }
          cleanup
  br label %ehcleanup320

do.body52:                                        ; preds = %invoke.cont49
  %call54 = invoke noundef zeroext i1 @_ZN8Pistache12match_stringEPKcmRNS_12StreamCursorENS_15CaseSensitivityE(i8* noundef getelementptr inbounds ([2 x i8], [2 x i8]* @.str.11, i64 0, i64 0), i64 noundef 1, %"class.Pistache::StreamCursor"* noundef nonnull align 8 dereferenceable(8) %cursor, i32 noundef 1)
          to label %invoke.cont53 unwind label %lpad47

invoke.cont53:                                    ; preds = %do.body52
  br i1 %call54, label %if.end123, label %if.end56

if.end56:                                         ; preds = %invoke.cont53
  %call58 = invoke noundef zeroext i1 @_ZN8Pistache12match_stringEPKcmRNS_12StreamCursorENS_15CaseSensitivityE(i8* noundef getelementptr inbounds ([6 x i8], [6 x i8]* @.str.23, i64 0, i64 0), i64 noundef 5, %"class.Pistache::StreamCursor"* noundef nonnull align 8 dereferenceable(8) %cursor, i32 noundef 1)
          to label %invoke.cont57 unwind label %lpad47

invoke.cont57:                                    ; preds = %if.end56
  br i1 %call58, label %if.end123, label %if.end60

if.end60:                                         ; preds = %invoke.cont57
  %call62 = invoke noundef zeroext i1 @_ZN8Pistache12match_stringEPKcmRNS_12StreamCursorENS_15CaseSensitivityE(i8* noundef getelementptr inbounds ([5 x i8], [5 x i8]* @.str.24, i64 0, i64 0), i64 noundef 4, %"class.Pistache::StreamCursor"* noundef nonnull align 8 dereferenceable(8) %cursor, i32 noundef 1)
          to label %invoke.cont61 unwind label %lpad47

invoke.cont61:                                    ; preds = %if.end60
  br i1 %call62, label %if.end123, label %if.end64

if.end64:                                         ; preds = %invoke.cont61
  %call66 = invoke noundef zeroext i1 @_ZN8Pistache12match_stringEPKcmRNS_12StreamCursorENS_15CaseSensitivityE(i8* noundef getelementptr inbounds ([6 x i8], [6 x i8]* @.str.25, i64 0, i64 0), i64 noundef 5, %"class.Pistache::StreamCursor"* noundef nonnull align 8 dereferenceable(8) %cursor, i32 noundef 1)
          to label %invoke.cont65 unwind label %lpad47

invoke.cont65:                                    ; preds = %if.end64
  br i1 %call66, label %if.end123, label %if.end68

if.end68:                                         ; preds = %invoke.cont65
  %call70 = invoke noundef zeroext i1 @_ZN8Pistache12match_stringEPKcmRNS_12StreamCursorENS_15CaseSensitivityE(i8* noundef getelementptr inbounds ([4 x i8], [4 x i8]* @.str.26, i64 0, i64 0), i64 noundef 3, %"class.Pistache::StreamCursor"* noundef nonnull align 8 dereferenceable(8) %cursor, i32 noundef 1)
          to label %invoke.cont69 unwind label %lpad47

invoke.cont69:                                    ; preds = %if.end68
  br i1 %call70, label %if.end123, label %if.end72

if.end72:                                         ; preds = %invoke.cont69
  %call74 = invoke noundef zeroext i1 @_ZN8Pistache12match_stringEPKcmRNS_12StreamCursorENS_15CaseSensitivityE(i8* noundef getelementptr inbounds ([11 x i8], [11 x i8]* @.str.27, i64 0, i64 0), i64 noundef 10, %"class.Pistache::StreamCursor"* noundef nonnull align 8 dereferenceable(8) %cursor, i32 noundef 1)
          to label %invoke.cont73 unwind label %lpad47

invoke.cont73:                                    ; preds = %if.end72
  br i1 %call74, label %if.end123, label %if.end76

if.end76:                                         ; preds = %invoke.cont73
  %call78 = invoke noundef zeroext i1 @_ZN8Pistache12match_stringEPKcmRNS_12StreamCursorENS_15CaseSensitivityE(i8* noundef getelementptr inbounds ([4 x i8], [4 x i8]* @.str.28, i64 0, i64 0), i64 noundef 3, %"class.Pistache::StreamCursor"* noundef nonnull align 8 dereferenceable(8) %cursor, i32 noundef 1)
          to label %invoke.cont77 unwind label %lpad47

invoke.cont77:                                    ; preds = %if.end76
  br i1 %call78, label %if.end123, label %if.end80

if.end80:                                         ; preds = %invoke.cont77
  %call82 = invoke noundef zeroext i1 @_ZN8Pistache12match_stringEPKcmRNS_12StreamCursorENS_15CaseSensitivityE(i8* noundef getelementptr inbounds ([13 x i8], [13 x i8]* @.str.29, i64 0, i64 0), i64 noundef 12, %"class.Pistache::StreamCursor"* noundef nonnull align 8 dereferenceable(8) %cursor, i32 noundef 1)
          to label %invoke.cont81 unwind label %lpad47

invoke.cont81:                                    ; preds = %if.end80
  br i1 %call82, label %if.end123, label %if.end84

if.end84:                                         ; preds = %invoke.cont81
  %call86 = invoke noundef zeroext i1 @_ZN8Pistache12match_stringEPKcmRNS_12StreamCursorENS_15CaseSensitivityE(i8* noundef getelementptr inbounds ([5 x i8], [5 x i8]* @.str.30, i64 0, i64 0), i64 noundef 4, %"class.Pistache::StreamCursor"* noundef nonnull align 8 dereferenceable(8) %cursor, i32 noundef 1)
          to label %invoke.cont85 unwind label %lpad47

invoke.cont85:                                    ; preds = %if.end84
  br i1 %call86, label %if.end123, label %if.end88

if.end88:                                         ; preds = %invoke.cont85
  %call90 = invoke noundef zeroext i1 @_ZN8Pistache12match_stringEPKcmRNS_12StreamCursorENS_15CaseSensitivityE(i8* noundef getelementptr inbounds ([12 x i8], [12 x i8]* @.str.31, i64 0, i64 0), i64 noundef 11, %"class.Pistache::StreamCursor"* noundef nonnull align 8 dereferenceable(8) %cursor, i32 noundef 1)
          to label %invoke.cont89 unwind label %lpad47

invoke.cont89:                                    ; preds = %if.end88
  br i1 %call90, label %if.end123, label %if.end92

if.end92:                                         ; preds = %invoke.cont89
  %call94 = invoke noundef zeroext i1 @_ZN8Pistache12match_stringEPKcmRNS_12StreamCursorENS_15CaseSensitivityE(i8* noundef getelementptr inbounds ([21 x i8], [21 x i8]* @.str.32, i64 0, i64 0), i64 noundef 20, %"class.Pistache::StreamCursor"* noundef nonnull align 8 dereferenceable(8) %cursor, i32 noundef 1)
          to label %invoke.cont93 unwind label %lpad47

invoke.cont93:                                    ; preds = %if.end92
  br i1 %call94, label %if.end123, label %if.end96

if.end96:                                         ; preds = %invoke.cont93
  %call98 = invoke noundef zeroext i1 @_ZN8Pistache12match_stringEPKcmRNS_12StreamCursorENS_15CaseSensitivityE(i8* noundef getelementptr inbounds ([22 x i8], [22 x i8]* @.str.33, i64 0, i64 0), i64 noundef 21, %"class.Pistache::StreamCursor"* noundef nonnull align 8 dereferenceable(8) %cursor, i32 noundef 1)
          to label %invoke.cont97 unwind label %lpad47

invoke.cont97:                                    ; preds = %if.end96
  br i1 %call98, label %if.end123, label %if.end100

if.end100:                                        ; preds = %invoke.cont97
  %call102 = invoke noundef zeroext i1 @_ZN8Pistache12match_stringEPKcmRNS_12StreamCursorENS_15CaseSensitivityE(i8* noundef getelementptr inbounds ([10 x i8], [10 x i8]* @.str.34, i64 0, i64 0), i64 noundef 9, %"class.Pistache::StreamCursor"* noundef nonnull align 8 dereferenceable(8) %cursor, i32 noundef 1)
          to label %invoke.cont101 unwind label %lpad47

invoke.cont101:                                   ; preds = %if.end100
  br i1 %call102, label %if.end123, label %if.end104

if.end104:                                        ; preds = %invoke.cont101
  %call106 = invoke noundef zeroext i1 @_ZN8Pistache12match_stringEPKcmRNS_12StreamCursorENS_15CaseSensitivityE(i8* noundef getelementptr inbounds ([4 x i8], [4 x i8]* @.str.6, i64 0, i64 0), i64 noundef 3, %"class.Pistache::StreamCursor"* noundef nonnull align 8 dereferenceable(8) %cursor, i32 noundef 1)
          to label %invoke.cont105 unwind label %lpad47

invoke.cont105:                                   ; preds = %if.end104
  br i1 %call106, label %if.end123, label %if.end108

if.end108:                                        ; preds = %invoke.cont105
  %call110 = invoke noundef zeroext i1 @_ZN8Pistache12match_stringEPKcmRNS_12StreamCursorENS_15CaseSensitivityE(i8* noundef getelementptr inbounds ([4 x i8], [4 x i8]* @.str.35, i64 0, i64 0), i64 noundef 3, %"class.Pistache::StreamCursor"* noundef nonnull align 8 dereferenceable(8) %cursor, i32 noundef 1)
          to label %invoke.cont109 unwind label %lpad47

invoke.cont109:                                   ; preds = %if.end108
  br i1 %call110, label %if.end123, label %if.end112

if.end112:                                        ; preds = %invoke.cont109
  %call114 = invoke noundef zeroext i1 @_ZN8Pistache12match_stringEPKcmRNS_12StreamCursorENS_15CaseSensitivityE(i8* noundef getelementptr inbounds ([4 x i8], [4 x i8]* @.str.7, i64 0, i64 0), i64 noundef 3, %"class.Pistache::StreamCursor"* noundef nonnull align 8 dereferenceable(8) %cursor, i32 noundef 1)
          to label %invoke.cont113 unwind label %lpad47

invoke.cont113:                                   ; preds = %if.end112
  br i1 %call114, label %if.end123, label %if.end116

if.end116:                                        ; preds = %invoke.cont113
  %call118 = invoke noundef zeroext i1 @_ZN8Pistache12match_stringEPKcmRNS_12StreamCursorENS_15CaseSensitivityE(i8* noundef getelementptr inbounds ([5 x i8], [5 x i8]* @.str.5, i64 0, i64 0), i64 noundef 4, %"class.Pistache::StreamCursor"* noundef nonnull align 8 dereferenceable(8) %cursor, i32 noundef 1)
          to label %invoke.cont117 unwind label %lpad47

invoke.cont117:                                   ; preds = %if.end116
  %not.call118 = xor i1 %call118, true
  %.34 = select i1 %call118, i32 16, i32 18
  br label %if.end123

if.end123:                                        ; preds = %invoke.cont117, %invoke.cont113, %invoke.cont109, %invoke.cont105, %invoke.cont101, %invoke.cont97, %invoke.cont93, %invoke.cont89, %invoke.cont85, %invoke.cont81, %invoke.cont77, %invoke.cont73, %invoke.cont69, %invoke.cont65, %invoke.cont61, %invoke.cont57, %invoke.cont53, %invoke.cont49
  %cmp = phi i1 [ false, %invoke.cont49 ], [ false, %invoke.cont53 ], [ false, %invoke.cont57 ], [ false, %invoke.cont61 ], [ false, %invoke.cont65 ], [ false, %invoke.cont69 ], [ false, %invoke.cont73 ], [ false, %invoke.cont77 ], [ false, %invoke.cont81 ], [ false, %invoke.cont85 ], [ false, %invoke.cont89 ], [ false, %invoke.cont93 ], [ false, %invoke.cont97 ], [ false, %invoke.cont101 ], [ false, %invoke.cont105 ], [ false, %invoke.cont109 ], [ false, %invoke.cont113 ], [ %not.call118, %invoke.cont117 ]
  %cmp124 = phi i1 [ true, %invoke.cont49 ], [ false, %invoke.cont53 ], [ false, %invoke.cont57 ], [ false, %invoke.cont61 ], [ false, %invoke.cont65 ], [ false, %invoke.cont69 ], [ false, %invoke.cont73 ], [ false, %invoke.cont77 ], [ false, %invoke.cont81 ], [ false, %invoke.cont85 ], [ false, %invoke.cont89 ], [ false, %invoke.cont93 ], [ false, %invoke.cont97 ], [ false, %invoke.cont101 ], [ false, %invoke.cont105 ], [ false, %invoke.cont109 ], [ false, %invoke.cont113 ], [ false, %invoke.cont117 ]
  %sub.0 = phi i32 [ 17, %invoke.cont49 ], [ 0, %invoke.cont53 ], [ 1, %invoke.cont57 ], [ 2, %invoke.cont61 ], [ 3, %invoke.cont65 ], [ 4, %invoke.cont69 ], [ 5, %invoke.cont73 ], [ 6, %invoke.cont77 ], [ 7, %invoke.cont81 ], [ 8, %invoke.cont85 ], [ 9, %invoke.cont89 ], [ 10, %invoke.cont93 ], [ 11, %invoke.cont97 ], [ 12, %invoke.cont101 ], [ 13, %invoke.cont105 ], [ 14, %invoke.cont109 ], [ 15, %invoke.cont113 ], [ %.34, %invoke.cont117 ]
  %or.cond = or i1 %cmp, %cmp124
  br i1 %or.cond, label %if.then125, label %if.end136

if.then125:                                       ; preds = %if.end123
  %24 = getelementptr inbounds [2 x i8], [2 x i8]* %ref.tmp126, i64 0, i64 0
  call void @llvm.lifetime.start.p0i8(i64 2, i8* nonnull %24) #29
  store i8 59, i8* %24, align 1, !tbaa !44
  %arrayinit.element = getelementptr inbounds [2 x i8], [2 x i8]* %ref.tmp126, i64 0, i64 1
  store i8 43, i8* %arrayinit.element, align 1, !tbaa !44
  %call129 = invoke noundef zeroext i1 @_ZN8Pistache11match_untilESt16initializer_listIcERNS_12StreamCursorENS_15CaseSensitivityE(i8* nonnull %24, i64 2, %"class.Pistache::StreamCursor"* noundef nonnull align 8 dereferenceable(8) %cursor, i32 noundef 1)
          to label %invoke.cont128 unwind label %lpad127

invoke.cont128:                                   ; preds = %if.then125
  call void @llvm.lifetime.end.p0i8(i64 2, i8* nonnull %24) #29
  %beg = getelementptr inbounds %"class.Pistache::Http::Mime::MediaType", %"class.Pistache::Http::Mime::MediaType"* %this, i64 0, i32 5, i32 0
  store i64 %sub.ptr.sub.i.i, i64* %beg, align 8, !tbaa !45
  %25 = load %"class.Pistache::StreamBuf"*, %"class.Pistache::StreamBuf"** %buf.i, align 8, !tbaa !42
  %_M_in_cur.i.i.i60 = getelementptr inbounds %"class.Pistache::StreamBuf", %"class.Pistache::StreamBuf"* %25, i64 0, i32 0, i32 2
  %26 = load i8*, i8** %_M_in_cur.i.i.i60, align 8, !tbaa !40
  %_M_in_beg.i.i.i61 = getelementptr inbounds %"class.Pistache::StreamBuf", %"class.Pistache::StreamBuf"* %25, i64 0, i32 0, i32 1
  %27 = load i8*, i8** %_M_in_beg.i.i.i61, align 8, !tbaa !37
  %sub.ptr.lhs.cast.i.i62 = ptrtoint i8* %26 to i64
  %sub.ptr.rhs.cast.i.i63 = ptrtoint i8* %27 to i64
  %28 = xor i64 %sub.ptr.rhs.cast.i.i63, -1
  %sub134 = add i64 %28, %sub.ptr.lhs.cast.i.i62
  %end = getelementptr inbounds %"class.Pistache::Http::Mime::MediaType", %"class.Pistache::Http::Mime::MediaType"* %this, i64 0, i32 5, i32 1
  store i64 %sub134, i64* %end, align 8, !tbaa !46
  br label %if.end136

lpad127:                                          ; preds = %if.then125
  %29 = landingpad { i8*, i32 }
          cleanup
  call void @llvm.lifetime.end.p0i8(i64 2, i8* nonnull %24) #29
  br label %ehcleanup320

if.end136:                                        ; preds = %if.end123, %invoke.cont128
  %sub_ = getelementptr inbounds %"class.Pistache::Http::Mime::MediaType", %"class.Pistache::Http::Mime::MediaType"* %this, i64 0, i32 1
  store i32 %sub.0, i32* %sub_, align 4, !tbaa !29
  %call138 = invoke noundef zeroext i1 @_ZNK8Pistache12StreamCursor3eofEv(%"class.Pistache::StreamCursor"* noundef nonnull align 8 dereferenceable(8) %cursor)
          to label %invoke.cont137 unwind label %lpad47

invoke.cont137:                                   ; preds = %if.end136
  br i1 %call138, label %cleanup, label %if.end140

if.end140:                                        ; preds = %invoke.cont137
  %call143 = invoke noundef zeroext i1 @_ZN8Pistache13match_literalEcRNS_12StreamCursorENS_15CaseSensitivityE(i8 noundef signext 43, %"class.Pistache::StreamCursor"* noundef nonnull align 8 dereferenceable(8) %cursor, i32 noundef 1)
          to label %invoke.cont142 unwind label %lpad141.loopexit.split-lp

invoke.cont142:                                   ; preds = %if.end140
  br i1 %call143, label %if.then144, label %if.end204

if.then144:                                       ; preds = %invoke.cont142
  %call146 = invoke noundef zeroext i1 @_ZNK8Pistache12StreamCursor3eofEv(%"class.Pistache::StreamCursor"* noundef nonnull align 8 dereferenceable(8) %cursor)
          to label %invoke.cont145 unwind label %lpad141.loopexit.split-lp

invoke.cont145:                                   ; preds = %if.then144
  br i1 %call146, label %if.then147, label %if.end149

if.then147:                                       ; preds = %invoke.cont145
  %30 = bitcast %"class.std::__cxx11::basic_string"* %agg.tmp.i65 to i8*
  call void @llvm.lifetime.start.p0i8(i64 32, i8* nonnull %30)
  %exception.i67 = call i8* @__cxa_allocate_exception(i64 48) #29
  %31 = getelementptr inbounds %"class.std::allocator", %"class.std::allocator"* %ref.tmp.i66, i64 0, i32 0
  call void @llvm.lifetime.start.p0i8(i64 1, i8* nonnull %31) #29
  invoke void @_ZNSt7__cxx1112basic_stringIcSt11char_traitsIcESaIcEEC2IS3_EEPKcRKS3_(%"class.std::__cxx11::basic_string"* noundef nonnull align 8 dereferenceable(32) %agg.tmp.i65, i8* noundef getelementptr inbounds ([47 x i8], [47 x i8]* @.str.36, i64 0, i64 0), %"class.std::allocator"* noundef nonnull align 1 dereferenceable(1) %ref.tmp.i66)
          to label %invoke.cont.i68 unwind label %lpad.i70

invoke.cont.i68:                                  ; preds = %if.then147
  %32 = bitcast i8* %exception.i67 to %"struct.Pistache::Http::HttpError"*
  invoke void @_ZN8Pistache4Http9HttpErrorC1ENS0_4CodeENSt7__cxx1112basic_stringIcSt11char_traitsIcESaIcEEE(%"struct.Pistache::Http::HttpError"* noundef nonnull align 8 dereferenceable(48) %32, i32 noundef 415, %"class.std::__cxx11::basic_string"* noundef nonnull %agg.tmp.i65)
          to label %invoke.cont3.i69 unwind label %lpad2.i72

invoke.cont3.i69:                                 ; preds = %invoke.cont.i68
  invoke void @__cxa_throw(i8* %exception.i67, i8* bitcast ({ i8*, i8*, i8* }* @_ZTIN8Pistache4Http9HttpErrorE to i8*), i8* bitcast (void (%"struct.Pistache::Http::HttpError"*)* @_ZN8Pistache4Http9HttpErrorD2Ev to i8*)) #30
          to label %unreachable.i78 unwind label %lpad2.i72

lpad.i70:                                         ; preds = %if.then147
  %33 = landingpad { i8*, i32 }
          cleanup
  br label %ehcleanup.i75

lpad2.i72:                                        ; preds = %invoke.cont3.i69, %invoke.cont.i68
  %cleanup.isactive.0.i71 = phi i1 [ false, %invoke.cont3.i69 ], [ true, %invoke.cont.i68 ]
  %34 = landingpad { i8*, i32 }
          cleanup
  call void @_ZNSt7__cxx1112basic_stringIcSt11char_traitsIcESaIcEED2Ev(%"class.std::__cxx11::basic_string"* noundef nonnull align 8 dereferenceable(32) %agg.tmp.i65) #29
  br label %ehcleanup.i75

ehcleanup.i75:                                    ; preds = %lpad2.i72, %lpad.i70
  %.pn.i73 = phi { i8*, i32 } [ %34, %lpad2.i72 ], [ %33, %lpad.i70 ]
  %cleanup.isactive.1.i74 = phi i1 [ %cleanup.isactive.0.i71, %lpad2.i72 ], [ true, %lpad.i70 ]
  call void @llvm.lifetime.end.p0i8(i64 1, i8* nonnull %31) #29
  br i1 %cleanup.isactive.1.i74, label %cleanup.action.i76, label %ehcleanup320

cleanup.action.i76:                               ; preds = %ehcleanup.i75
  call void @__cxa_free_exception(i8* %exception.i67) #29
  br label %ehcleanup320

unreachable.i78:                                  ; preds = %invoke.cont3.i69
  unreachable

lpad141.loopexit:                                 ; preds = %while.cond, %while.body, %lor.lhs.false210, %if.else228, %if.then231, %if.end236
  %lpad.loopexit = landingpad { i8*, i32 }
          cleanup
  br label %ehcleanup320

lpad141.loopexit.split-lp:                        ; preds = %if.end140, %if.then144
  %lpad.loopexit.split-lp = landingpad { i8*, i32 }
          cleanup
  br label %ehcleanup320

if.end149:                                        ; preds = %invoke.cont145
  %35 = load %"class.Pistache::StreamBuf"*, %"class.Pistache::StreamBuf"** %buf.i, align 8, !tbaa !42
  %_M_in_cur.i.i.i84 = getelementptr inbounds %"class.Pistache::StreamBuf", %"class.Pistache::StreamBuf"* %35, i64 0, i32 0, i32 2
  %36 = load i8*, i8** %_M_in_cur.i.i.i84, align 8, !tbaa !40
  %_M_in_beg.i.i.i85 = getelementptr inbounds %"class.Pistache::StreamBuf", %"class.Pistache::StreamBuf"* %35, i64 0, i32 0, i32 1
  %37 = load i8*, i8** %_M_in_beg.i.i.i85, align 8, !tbaa !37
  %sub.ptr.lhs.cast.i.i86 = ptrtoint i8* %36 to i64
  %sub.ptr.rhs.cast.i.i87 = ptrtoint i8* %37 to i64
  %sub.ptr.sub.i.i88 = sub i64 %sub.ptr.lhs.cast.i.i86, %sub.ptr.rhs.cast.i.i87
  %call154 = invoke noundef zeroext i1 @_ZN8Pistache12match_stringEPKcmRNS_12StreamCursorENS_15CaseSensitivityE(i8* noundef getelementptr inbounds ([5 x i8], [5 x i8]* @.str.30, i64 0, i64 0), i64 noundef 4, %"class.Pistache::StreamCursor"* noundef nonnull align 8 dereferenceable(8) %cursor, i32 noundef 1)
          to label %invoke.cont153 unwind label %lpad150

invoke.cont153:                                   ; preds = %if.end149
  br i1 %call154, label %do.end182, label %if.end156

lpad150:                                          ; preds = %if.end176, %if.end172, %if.end168, %if.end164, %if.end160, %if.end156, %if.end149
  %38 = landingpad { i8*, i32 }
          cleanup
  br label %ehcleanup320

if.end156:                                        ; preds = %invoke.cont153
  %call158 = invoke noundef zeroext i1 @_ZN8Pistache12match_stringEPKcmRNS_12StreamCursorENS_15CaseSensitivityE(i8* noundef getelementptr inbounds ([4 x i8], [4 x i8]* @.str.37, i64 0, i64 0), i64 noundef 3, %"class.Pistache::StreamCursor"* noundef nonnull align 8 dereferenceable(8) %cursor, i32 noundef 1)
          to label %invoke.cont157 unwind label %lpad150

invoke.cont157:                                   ; preds = %if.end156
  br i1 %call158, label %do.end182, label %if.end160

if.end160:                                        ; preds = %invoke.cont157
  %call162 = invoke noundef zeroext i1 @_ZN8Pistache12match_stringEPKcmRNS_12StreamCursorENS_15CaseSensitivityE(i8* noundef getelementptr inbounds ([4 x i8], [4 x i8]* @.str.38, i64 0, i64 0), i64 noundef 3, %"class.Pistache::StreamCursor"* noundef nonnull align 8 dereferenceable(8) %cursor, i32 noundef 1)
          to label %invoke.cont161 unwind label %lpad150

invoke.cont161:                                   ; preds = %if.end160
  br i1 %call162, label %do.end182, label %if.end164

if.end164:                                        ; preds = %invoke.cont161
  %call166 = invoke noundef zeroext i1 @_ZN8Pistache12match_stringEPKcmRNS_12StreamCursorENS_15CaseSensitivityE(i8* noundef getelementptr inbounds ([12 x i8], [12 x i8]* @.str.39, i64 0, i64 0), i64 noundef 11, %"class.Pistache::StreamCursor"* noundef nonnull align 8 dereferenceable(8) %cursor, i32 noundef 1)
          to label %invoke.cont165 unwind label %lpad150

invoke.cont165:                                   ; preds = %if.end164
  br i1 %call166, label %do.end182, label %if.end168

if.end168:                                        ; preds = %invoke.cont165
  %call170 = invoke noundef zeroext i1 @_ZN8Pistache12match_stringEPKcmRNS_12StreamCursorENS_15CaseSensitivityE(i8* noundef getelementptr inbounds ([6 x i8], [6 x i8]* @.str.40, i64 0, i64 0), i64 noundef 5, %"class.Pistache::StreamCursor"* noundef nonnull align 8 dereferenceable(8) %cursor, i32 noundef 1)
          to label %invoke.cont169 unwind label %lpad150

invoke.cont169:                                   ; preds = %if.end168
  br i1 %call170, label %do.end182, label %if.end172

if.end172:                                        ; preds = %invoke.cont169
  %call174 = invoke noundef zeroext i1 @_ZN8Pistache12match_stringEPKcmRNS_12StreamCursorENS_15CaseSensitivityE(i8* noundef getelementptr inbounds ([4 x i8], [4 x i8]* @.str.41, i64 0, i64 0), i64 noundef 3, %"class.Pistache::StreamCursor"* noundef nonnull align 8 dereferenceable(8) %cursor, i32 noundef 1)
          to label %invoke.cont173 unwind label %lpad150

invoke.cont173:                                   ; preds = %if.end172
  br i1 %call174, label %do.end182, label %if.end176

if.end176:                                        ; preds = %invoke.cont173
  %call178 = invoke noundef zeroext i1 @_ZN8Pistache12match_stringEPKcmRNS_12StreamCursorENS_15CaseSensitivityE(i8* noundef getelementptr inbounds ([4 x i8], [4 x i8]* @.str.26, i64 0, i64 0), i64 noundef 3, %"class.Pistache::StreamCursor"* noundef nonnull align 8 dereferenceable(8) %cursor, i32 noundef 1)
          to label %invoke.cont177 unwind label %lpad150

invoke.cont177:                                   ; preds = %if.end176
  %not.call178 = xor i1 %call178, true
  %.36 = select i1 %call178, i32 6, i32 8
  br label %do.end182

do.end182:                                        ; preds = %invoke.cont177, %invoke.cont173, %invoke.cont169, %invoke.cont165, %invoke.cont161, %invoke.cont157, %invoke.cont153
  %cmp183 = phi i1 [ false, %invoke.cont153 ], [ false, %invoke.cont157 ], [ false, %invoke.cont161 ], [ false, %invoke.cont165 ], [ false, %invoke.cont169 ], [ false, %invoke.cont173 ], [ %not.call178, %invoke.cont177 ]
  %suffix.0 = phi i32 [ 0, %invoke.cont153 ], [ 1, %invoke.cont157 ], [ 2, %invoke.cont161 ], [ 3, %invoke.cont165 ], [ 4, %invoke.cont169 ], [ 5, %invoke.cont173 ], [ %.36, %invoke.cont177 ]
  br i1 %cmp183, label %if.then184, label %if.end203

if.then184:                                       ; preds = %do.end182
  %39 = getelementptr inbounds [2 x i8], [2 x i8]* %ref.tmp186, i64 0, i64 0
  call void @llvm.lifetime.start.p0i8(i64 2, i8* nonnull %39) #29
  store i8 59, i8* %39, align 1, !tbaa !44
  %arrayinit.element188 = getelementptr inbounds [2 x i8], [2 x i8]* %ref.tmp186, i64 0, i64 1
  store i8 43, i8* %arrayinit.element188, align 1, !tbaa !44
  %call194 = invoke noundef zeroext i1 @_ZN8Pistache11match_untilESt16initializer_listIcERNS_12StreamCursorENS_15CaseSensitivityE(i8* nonnull %39, i64 2, %"class.Pistache::StreamCursor"* noundef nonnull align 8 dereferenceable(8) %cursor, i32 noundef 1)
          to label %invoke.cont193 unwind label %lpad192

invoke.cont193:                                   ; preds = %if.then184
  call void @llvm.lifetime.end.p0i8(i64 2, i8* nonnull %39) #29
  %beg197 = getelementptr inbounds %"class.Pistache::Http::Mime::MediaType", %"class.Pistache::Http::Mime::MediaType"* %this, i64 0, i32 6, i32 0
  store i64 %sub.ptr.sub.i.i88, i64* %beg197, align 8, !tbaa !47
  %40 = load %"class.Pistache::StreamBuf"*, %"class.Pistache::StreamBuf"** %buf.i, align 8, !tbaa !42
  %_M_in_cur.i.i.i96 = getelementptr inbounds %"class.Pistache::StreamBuf", %"class.Pistache::StreamBuf"* %40, i64 0, i32 0, i32 2
  %41 = load i8*, i8** %_M_in_cur.i.i.i96, align 8, !tbaa !40
  %_M_in_beg.i.i.i97 = getelementptr inbounds %"class.Pistache::StreamBuf", %"class.Pistache::StreamBuf"* %40, i64 0, i32 0, i32 1
  %42 = load i8*, i8** %_M_in_beg.i.i.i97, align 8, !tbaa !37
  %sub.ptr.lhs.cast.i.i98 = ptrtoint i8* %41 to i64
  %sub.ptr.rhs.cast.i.i99 = ptrtoint i8* %42 to i64
  %43 = xor i64 %sub.ptr.rhs.cast.i.i99, -1
  %sub200 = add i64 %43, %sub.ptr.lhs.cast.i.i98
  %end202 = getelementptr inbounds %"class.Pistache::Http::Mime::MediaType", %"class.Pistache::Http::Mime::MediaType"* %this, i64 0, i32 6, i32 1
  store i64 %sub200, i64* %end202, align 8, !tbaa !48
  br label %if.end203

lpad192:                                          ; preds = %if.then184
  %44 = landingpad { i8*, i32 }
          cleanup
  call void @llvm.lifetime.end.p0i8(i64 2, i8* nonnull %39) #29
  br label %ehcleanup320

if.end203:                                        ; preds = %invoke.cont193, %do.end182
  %suffix_ = getelementptr inbounds %"class.Pistache::Http::Mime::MediaType", %"class.Pistache::Http::Mime::MediaType"* %this, i64 0, i32 2
  store i32 %suffix.0, i32* %suffix_, align 8, !tbaa !30
  br label %if.end204

if.end204:                                        ; preds = %if.end203, %invoke.cont142
  %45 = bitcast %"class.std::__cxx11::basic_string"* %key to i8*
  %46 = getelementptr inbounds %"class.std::allocator", %"class.std::allocator"* %ref.tmp.i196, i64 0, i32 0
  %47 = getelementptr inbounds [2 x i8], [2 x i8]* %ref.tmp282, i64 0, i64 0
  %arrayinit.element284 = getelementptr inbounds [2 x i8], [2 x i8]* %ref.tmp282, i64 0, i64 1
  %params = getelementptr inbounds %"class.Pistache::Http::Mime::MediaType", %"class.Pistache::Http::Mime::MediaType"* %this, i64 0, i32 7
  %48 = bitcast %"struct.std::pair.5"* %ref.tmp292 to i8*
  %49 = bitcast %"class.std::__cxx11::basic_string"* %ref.tmp294 to i8*
  %50 = getelementptr inbounds %"class.std::allocator", %"class.std::allocator"* %ref.tmp.i211, i64 0, i32 0
  %51 = bitcast double* %val to i8*
  %52 = bitcast %"class.Pistache::Http::Mime::Q"* %ref.tmp246 to i8*
  %coerce.dive = getelementptr inbounds %"class.Pistache::Http::Mime::Q", %"class.Pistache::Http::Mime::Q"* %ref.tmp246, i64 0, i32 0
  %q_ = getelementptr inbounds %"class.Pistache::Http::Mime::MediaType", %"class.Pistache::Http::Mime::MediaType"* %this, i64 0, i32 8
  br label %while.cond

while.cond:                                       ; preds = %while.cond.backedge, %if.end204
  %call206 = invoke noundef zeroext i1 @_ZNK8Pistache12StreamCursor3eofEv(%"class.Pistache::StreamCursor"* noundef nonnull align 8 dereferenceable(8) %cursor)
          to label %invoke.cont205 unwind label %lpad141.loopexit

invoke.cont205:                                   ; preds = %while.cond
  br i1 %call206, label %cleanup, label %while.body

while.body:                                       ; preds = %invoke.cont205
  %call208 = invoke noundef signext i8 @_ZNK8Pistache12StreamCursor7currentEv(%"class.Pistache::StreamCursor"* noundef nonnull align 8 dereferenceable(8) %cursor)
          to label %invoke.cont207 unwind label %lpad141.loopexit

invoke.cont207:                                   ; preds = %while.body
  %cmp209 = icmp eq i8 %call208, 59
  br i1 %cmp209, label %if.then215, label %lor.lhs.false210

lor.lhs.false210:                                 ; preds = %invoke.cont207
  %call212 = invoke noundef signext i8 @_ZNK8Pistache12StreamCursor7currentEv(%"class.Pistache::StreamCursor"* noundef nonnull align 8 dereferenceable(8) %cursor)
          to label %invoke.cont211 unwind label %lpad141.loopexit

invoke.cont211:                                   ; preds = %lor.lhs.false210
  %cmp214 = icmp eq i8 %call212, 32
  br i1 %cmp214, label %if.then215, label %if.else228

if.then215:                                       ; preds = %invoke.cont211, %invoke.cont207
  %call218 = invoke noundef i32 @_ZNK8Pistache12StreamCursor4nextEv(%"class.Pistache::StreamCursor"* noundef nonnull align 8 dereferenceable(8) %cursor)
          to label %invoke.cont217 unwind label %lpad216

invoke.cont217:                                   ; preds = %if.then215
  %53 = add i32 %call218, 1
  %54 = icmp ult i32 %53, 2
  br i1 %54, label %if.then222, label %if.end224

if.then222:                                       ; preds = %invoke.cont217
  %55 = bitcast %"class.std::__cxx11::basic_string"* %agg.tmp.i101 to i8*
  call void @llvm.lifetime.start.p0i8(i64 32, i8* nonnull %55)
  %exception.i103 = call i8* @__cxa_allocate_exception(i64 48) #29
  %56 = getelementptr inbounds %"class.std::allocator", %"class.std::allocator"* %ref.tmp.i102, i64 0, i32 0
  call void @llvm.lifetime.start.p0i8(i64 1, i8* nonnull %56) #29
  invoke void @_ZNSt7__cxx1112basic_stringIcSt11char_traitsIcESaIcEEC2IS3_EEPKcRKS3_(%"class.std::__cxx11::basic_string"* noundef nonnull align 8 dereferenceable(32) %agg.tmp.i101, i8* noundef getelementptr inbounds ([49 x i8], [49 x i8]* @.str.42, i64 0, i64 0), %"class.std::allocator"* noundef nonnull align 1 dereferenceable(1) %ref.tmp.i102)
          to label %invoke.cont.i104 unwind label %lpad.i106

invoke.cont.i104:                                 ; preds = %if.then222
  %57 = bitcast i8* %exception.i103 to %"struct.Pistache::Http::HttpError"*
  invoke void @_ZN8Pistache4Http9HttpErrorC1ENS0_4CodeENSt7__cxx1112basic_stringIcSt11char_traitsIcESaIcEEE(%"struct.Pistache::Http::HttpError"* noundef nonnull align 8 dereferenceable(48) %57, i32 noundef 415, %"class.std::__cxx11::basic_string"* noundef nonnull %agg.tmp.i101)
          to label %invoke.cont3.i105 unwind label %lpad2.i108

invoke.cont3.i105:                                ; preds = %invoke.cont.i104
  invoke void @__cxa_throw(i8* %exception.i103, i8* bitcast ({ i8*, i8*, i8* }* @_ZTIN8Pistache4Http9HttpErrorE to i8*), i8* bitcast (void (%"struct.Pistache::Http::HttpError"*)* @_ZN8Pistache4Http9HttpErrorD2Ev to i8*)) #30
          to label %unreachable.i114 unwind label %lpad2.i108

lpad.i106:                                        ; preds = %if.then222
  %58 = landingpad { i8*, i32 }
          cleanup
  br label %ehcleanup.i111

lpad2.i108:                                       ; preds = %invoke.cont3.i105, %invoke.cont.i104
  %cleanup.isactive.0.i107 = phi i1 [ false, %invoke.cont3.i105 ], [ true, %invoke.cont.i104 ]
  %59 = landingpad { i8*, i32 }
          cleanup
  call void @_ZNSt7__cxx1112basic_stringIcSt11char_traitsIcESaIcEED2Ev(%"class.std::__cxx11::basic_string"* noundef nonnull align 8 dereferenceable(32) %agg.tmp.i101) #29
  br label %ehcleanup.i111

ehcleanup.i111:                                   ; preds = %lpad2.i108, %lpad.i106
  %.pn.i109 = phi { i8*, i32 } [ %59, %lpad2.i108 ], [ %58, %lpad.i106 ]
  %cleanup.isactive.1.i110 = phi i1 [ %cleanup.isactive.0.i107, %lpad2.i108 ], [ true, %lpad.i106 ]
  call void @llvm.lifetime.end.p0i8(i64 1, i8* nonnull %56) #29
  br i1 %cleanup.isactive.1.i110, label %cleanup.action.i112, label %ehcleanup320

cleanup.action.i112:                              ; preds = %ehcleanup.i111
  call void @__cxa_free_exception(i8* %exception.i103) #29
  br label %ehcleanup320

unreachable.i114:                                 ; preds = %invoke.cont3.i105
  unreachable

lpad216:                                          ; preds = %if.end224, %if.then215
  %60 = landingpad { i8*, i32 }
          cleanup
  br label %ehcleanup320

if.end224:                                        ; preds = %invoke.cont217
  %call226 = invoke noundef zeroext i1 @_ZN8Pistache12StreamCursor7advanceEm(%"class.Pistache::StreamCursor"* noundef nonnull align 8 dereferenceable(8) %cursor, i64 noundef 1)
          to label %while.cond.backedge unwind label %lpad216

while.cond.backedge:                              ; preds = %if.end224, %invoke.cont300, %invoke.cont248
  br label %while.cond, !llvm.loop !49

if.else228:                                       ; preds = %invoke.cont211
  %call230 = invoke noundef zeroext i1 @_ZN8Pistache13match_literalEcRNS_12StreamCursorENS_15CaseSensitivityE(i8 noundef signext 113, %"class.Pistache::StreamCursor"* noundef nonnull align 8 dereferenceable(8) %cursor, i32 noundef 1)
          to label %invoke.cont229 unwind label %lpad141.loopexit

invoke.cont229:                                   ; preds = %if.else228
  br i1 %call230, label %if.then231, label %if.else256

if.then231:                                       ; preds = %invoke.cont229
  %call233 = invoke noundef zeroext i1 @_ZNK8Pistache12StreamCursor3eofEv(%"class.Pistache::StreamCursor"* noundef nonnull align 8 dereferenceable(8) %cursor)
          to label %invoke.cont232 unwind label %lpad141.loopexit

invoke.cont232:                                   ; preds = %if.then231
  br i1 %call233, label %if.then234, label %if.end236

if.then234:                                       ; preds = %invoke.cont232
  %61 = bitcast %"class.std::__cxx11::basic_string"* %agg.tmp.i117 to i8*
  call void @llvm.lifetime.start.p0i8(i64 32, i8* nonnull %61)
  %exception.i119 = call i8* @__cxa_allocate_exception(i64 48) #29
  %62 = getelementptr inbounds %"class.std::allocator", %"class.std::allocator"* %ref.tmp.i118, i64 0, i32 0
  call void @llvm.lifetime.start.p0i8(i64 1, i8* nonnull %62) #29
  invoke void @_ZNSt7__cxx1112basic_stringIcSt11char_traitsIcESaIcEEC2IS3_EEPKcRKS3_(%"class.std::__cxx11::basic_string"* noundef nonnull align 8 dereferenceable(32) %agg.tmp.i117, i8* noundef getelementptr inbounds ([23 x i8], [23 x i8]* @.str.43, i64 0, i64 0), %"class.std::allocator"* noundef nonnull align 1 dereferenceable(1) %ref.tmp.i118)
          to label %invoke.cont.i120 unwind label %lpad.i122

invoke.cont.i120:                                 ; preds = %if.then234
  %63 = bitcast i8* %exception.i119 to %"struct.Pistache::Http::HttpError"*
  invoke void @_ZN8Pistache4Http9HttpErrorC1ENS0_4CodeENSt7__cxx1112basic_stringIcSt11char_traitsIcESaIcEEE(%"struct.Pistache::Http::HttpError"* noundef nonnull align 8 dereferenceable(48) %63, i32 noundef 415, %"class.std::__cxx11::basic_string"* noundef nonnull %agg.tmp.i117)
          to label %invoke.cont3.i121 unwind label %lpad2.i124

invoke.cont3.i121:                                ; preds = %invoke.cont.i120
  invoke void @__cxa_throw(i8* %exception.i119, i8* bitcast ({ i8*, i8*, i8* }* @_ZTIN8Pistache4Http9HttpErrorE to i8*), i8* bitcast (void (%"struct.Pistache::Http::HttpError"*)* @_ZN8Pistache4Http9HttpErrorD2Ev to i8*)) #30
          to label %unreachable.i130 unwind label %lpad2.i124

lpad.i122:                                        ; preds = %if.then234
  %64 = landingpad { i8*, i32 }
          cleanup
  br label %ehcleanup.i127

lpad2.i124:                                       ; preds = %invoke.cont3.i121, %invoke.cont.i120
  %cleanup.isactive.0.i123 = phi i1 [ false, %invoke.cont3.i121 ], [ true, %invoke.cont.i120 ]
  %65 = landingpad { i8*, i32 }
          cleanup
  call void @_ZNSt7__cxx1112basic_stringIcSt11char_traitsIcESaIcEED2Ev(%"class.std::__cxx11::basic_string"* noundef nonnull align 8 dereferenceable(32) %agg.tmp.i117) #29
  br label %ehcleanup.i127

ehcleanup.i127:                                   ; preds = %lpad2.i124, %lpad.i122
  %.pn.i125 = phi { i8*, i32 } [ %65, %lpad2.i124 ], [ %64, %lpad.i122 ]
  %cleanup.isactive.1.i126 = phi i1 [ %cleanup.isactive.0.i123, %lpad2.i124 ], [ true, %lpad.i122 ]
  call void @llvm.lifetime.end.p0i8(i64 1, i8* nonnull %62) #29
  br i1 %cleanup.isactive.1.i126, label %cleanup.action.i128, label %ehcleanup320

cleanup.action.i128:                              ; preds = %ehcleanup.i127
  call void @__cxa_free_exception(i8* %exception.i119) #29
  br label %ehcleanup320

unreachable.i130:                                 ; preds = %invoke.cont3.i121
  unreachable

if.end236:                                        ; preds = %invoke.cont232
  %call238 = invoke noundef zeroext i1 @_ZN8Pistache13match_literalEcRNS_12StreamCursorENS_15CaseSensitivityE(i8 noundef signext 61, %"class.Pistache::StreamCursor"* noundef nonnull align 8 dereferenceable(8) %cursor, i32 noundef 1)
          to label %invoke.cont237 unwind label %lpad141.loopexit

invoke.cont237:                                   ; preds = %if.end236
  br i1 %call238, label %if.then239, label %if.else253

if.then239:                                       ; preds = %invoke.cont237
  call void @llvm.lifetime.start.p0i8(i64 8, i8* nonnull %51) #29
  %call242 = invoke noundef zeroext i1 @_ZN8Pistache12match_doubleEPdRNS_12StreamCursorE(double* noundef nonnull %val, %"class.Pistache::StreamCursor"* noundef nonnull align 8 dereferenceable(8) %cursor)
          to label %invoke.cont241 unwind label %lpad240

invoke.cont241:                                   ; preds = %if.then239
  br i1 %call242, label %if.end245, label %if.then243

if.then243:                                       ; preds = %invoke.cont241
  %66 = bitcast %"class.std::__cxx11::basic_string"* %agg.tmp.i134 to i8*
  call void @llvm.lifetime.start.p0i8(i64 32, i8* nonnull %66)
  %exception.i136 = call i8* @__cxa_allocate_exception(i64 48) #29
  %67 = getelementptr inbounds %"class.std::allocator", %"class.std::allocator"* %ref.tmp.i135, i64 0, i32 0
  call void @llvm.lifetime.start.p0i8(i64 1, i8* nonnull %67) #29
  invoke void @_ZNSt7__cxx1112basic_stringIcSt11char_traitsIcESaIcEEC2IS3_EEPKcRKS3_(%"class.std::__cxx11::basic_string"* noundef nonnull align 8 dereferenceable(32) %agg.tmp.i134, i8* noundef getelementptr inbounds ([23 x i8], [23 x i8]* @.str.43, i64 0, i64 0), %"class.std::allocator"* noundef nonnull align 1 dereferenceable(1) %ref.tmp.i135)
          to label %invoke.cont.i137 unwind label %lpad.i139

invoke.cont.i137:                                 ; preds = %if.then243
  %68 = bitcast i8* %exception.i136 to %"struct.Pistache::Http::HttpError"*
  invoke void @_ZN8Pistache4Http9HttpErrorC1ENS0_4CodeENSt7__cxx1112basic_stringIcSt11char_traitsIcESaIcEEE(%"struct.Pistache::Http::HttpError"* noundef nonnull align 8 dereferenceable(48) %68, i32 noundef 415, %"class.std::__cxx11::basic_string"* noundef nonnull %agg.tmp.i134)
          to label %invoke.cont3.i138 unwind label %lpad2.i141

invoke.cont3.i138:                                ; preds = %invoke.cont.i137
  invoke void @__cxa_throw(i8* %exception.i136, i8* bitcast ({ i8*, i8*, i8* }* @_ZTIN8Pistache4Http9HttpErrorE to i8*), i8* bitcast (void (%"struct.Pistache::Http::HttpError"*)* @_ZN8Pistache4Http9HttpErrorD2Ev to i8*)) #30
          to label %unreachable.i147 unwind label %lpad2.i141

lpad.i139:                                        ; preds = %if.then243
  %69 = landingpad { i8*, i32 }
          cleanup
  br label %ehcleanup.i144

lpad2.i141:                                       ; preds = %invoke.cont3.i138, %invoke.cont.i137
  %cleanup.isactive.0.i140 = phi i1 [ false, %invoke.cont3.i138 ], [ true, %invoke.cont.i137 ]
  %70 = landingpad { i8*, i32 }
          cleanup
  call void @_ZNSt7__cxx1112basic_stringIcSt11char_traitsIcESaIcEED2Ev(%"class.std::__cxx11::basic_string"* noundef nonnull align 8 dereferenceable(32) %agg.tmp.i134) #29
  br label %ehcleanup.i144

ehcleanup.i144:                                   ; preds = %lpad2.i141, %lpad.i139
  %.pn.i142 = phi { i8*, i32 } [ %70, %lpad2.i141 ], [ %69, %lpad.i139 ]
  %cleanup.isactive.1.i143 = phi i1 [ %cleanup.isactive.0.i140, %lpad2.i141 ], [ true, %lpad.i139 ]
  call void @llvm.lifetime.end.p0i8(i64 1, i8* nonnull %67) #29
  br i1 %cleanup.isactive.1.i143, label %cleanup.action.i145, label %ehcleanup252

cleanup.action.i145:                              ; preds = %ehcleanup.i144
  call void @__cxa_free_exception(i8* %exception.i136) #29
  br label %ehcleanup252

unreachable.i147:                                 ; preds = %invoke.cont3.i138
  unreachable

lpad240:                                          ; preds = %if.then239
  %71 = landingpad { i8*, i32 }
          cleanup
  br label %ehcleanup252

if.end245:                                        ; preds = %invoke.cont241
  call void @llvm.lifetime.start.p0i8(i64 2, i8* nonnull %52) #29
  %72 = load double, double* %val, align 8, !tbaa !52
  %mul.i = fmul double %72, 1.000000e+02
  %73 = call double @llvm.round.f64(double %mul.i)
  %conv.i = fptoui double %73 to i16
  %cmp.i.i = icmp ugt i16 %conv.i, 100
  br i1 %cmp.i.i, label %if.then.i.i, label %invoke.cont248

if.then.i.i:                                      ; preds = %if.end245
  %74 = bitcast %"class.Pistache::Http::Mime::Q"* %ref.tmp246 to i8*
  %exception.i.i = call i8* @__cxa_allocate_exception(i64 16) #29
  %75 = bitcast i8* %exception.i.i to %"class.std::runtime_error"*
  invoke void @_ZNSt13runtime_errorC1EPKc(%"class.std::runtime_error"* noundef nonnull align 8 dereferenceable(16) %75, i8* noundef getelementptr inbounds ([53 x i8], [53 x i8]* @.str.49, i64 0, i64 0))
          to label %invoke.cont.i.i unwind label %lpad.i.i

invoke.cont.i.i:                                  ; preds = %if.then.i.i
  invoke void @__cxa_throw(i8* %exception.i.i, i8* bitcast (i8** @_ZTISt13runtime_error to i8*), i8* bitcast (void (%"class.std::runtime_error"*)* @_ZNSt13runtime_errorD1Ev to i8*)) #30
          to label %.noexc unwind label %lpad247

.noexc:                                           ; preds = %invoke.cont.i.i
  unreachable

lpad.i.i:                                         ; preds = %if.then.i.i
  %76 = landingpad { i8*, i32 }
          cleanup
  call void @__cxa_free_exception(i8* %exception.i.i) #29
  br label %lpad247.body

invoke.cont248:                                   ; preds = %if.end245
  store i16 %conv.i, i16* %coerce.dive, align 2
  %call250 = call noundef nonnull align 2 dereferenceable(4) %"class.std::optional"* @_ZNSt8optionalIN8Pistache4Http4Mime1QEEaSIS3_EENSt9enable_ifIX7__and_vISt6__not_ISt7is_sameIS4_NSt9remove_cvINSt16remove_referenceIT_E4typeEE4typeEEES7_ISt6__and_IJSt9is_scalarIS3_ES8_IS3_NSt5decayISB_E4typeEEEEESt16is_constructibleIS3_JSB_EESt13is_assignableIRS3_SB_EEERS4_E4typeEOSB_(%"class.std::optional"* noundef nonnull align 2 dereferenceable(4) %q_, %"class.Pistache::Http::Mime::Q"* noundef nonnull align 2 dereferenceable(2) %ref.tmp246) #29
  call void @llvm.lifetime.end.p0i8(i64 2, i8* nonnull %52) #29
  call void @llvm.lifetime.end.p0i8(i64 8, i8* nonnull %51) #29
  br label %while.cond.backedge

lpad247:                                          ; preds = %invoke.cont.i.i
  %77 = landingpad { i8*, i32 }
          cleanup
  br label %lpad247.body

lpad247.body:                                     ; preds = %lpad.i.i, %lpad247
  %eh.lpad-body150 = phi { i8*, i32 } [ %77, %lpad247 ], [ %76, %lpad.i.i ]
  call void @llvm.lifetime.end.p0i8(i64 2, i8* nonnull %74) #29
  br label %ehcleanup252

ehcleanup252:                                     ; preds = %lpad240, %cleanup.action.i145, %ehcleanup.i144, %lpad247.body
  %.pn25 = phi { i8*, i32 } [ %eh.lpad-body150, %lpad247.body ], [ %71, %lpad240 ], [ %.pn.i142, %cleanup.action.i145 ], [ %.pn.i142, %ehcleanup.i144 ]
  %78 = bitcast double* %val to i8*
  call void @llvm.lifetime.end.p0i8(i64 8, i8* nonnull %78) #29
  br label %ehcleanup320

if.else253:                                       ; preds = %invoke.cont237
  %79 = bitcast %"class.std::__cxx11::basic_string"* %agg.tmp.i151 to i8*
  call void @llvm.lifetime.start.p0i8(i64 32, i8* nonnull %79)
  %exception.i153 = call i8* @__cxa_allocate_exception(i64 48) #29
  %80 = getelementptr inbounds %"class.std::allocator", %"class.std::allocator"* %ref.tmp.i152, i64 0, i32 0
  call void @llvm.lifetime.start.p0i8(i64 1, i8* nonnull %80) #29
  invoke void @_ZNSt7__cxx1112basic_stringIcSt11char_traitsIcESaIcEEC2IS3_EEPKcRKS3_(%"class.std::__cxx11::basic_string"* noundef nonnull align 8 dereferenceable(32) %agg.tmp.i151, i8* noundef getelementptr inbounds ([23 x i8], [23 x i8]* @.str.44, i64 0, i64 0), %"class.std::allocator"* noundef nonnull align 1 dereferenceable(1) %ref.tmp.i152)
          to label %invoke.cont.i154 unwind label %lpad.i156

invoke.cont.i154:                                 ; preds = %if.else253
  %81 = bitcast i8* %exception.i153 to %"struct.Pistache::Http::HttpError"*
  invoke void @_ZN8Pistache4Http9HttpErrorC1ENS0_4CodeENSt7__cxx1112basic_stringIcSt11char_traitsIcESaIcEEE(%"struct.Pistache::Http::HttpError"* noundef nonnull align 8 dereferenceable(48) %81, i32 noundef 415, %"class.std::__cxx11::basic_string"* noundef nonnull %agg.tmp.i151)
          to label %invoke.cont3.i155 unwind label %lpad2.i158

invoke.cont3.i155:                                ; preds = %invoke.cont.i154
  invoke void @__cxa_throw(i8* %exception.i153, i8* bitcast ({ i8*, i8*, i8* }* @_ZTIN8Pistache4Http9HttpErrorE to i8*), i8* bitcast (void (%"struct.Pistache::Http::HttpError"*)* @_ZN8Pistache4Http9HttpErrorD2Ev to i8*)) #30
          to label %unreachable.i164 unwind label %lpad2.i158

lpad.i156:                                        ; preds = %if.else253
  %82 = landingpad { i8*, i32 }
          cleanup
  br label %ehcleanup.i161

lpad2.i158:                                       ; preds = %invoke.cont3.i155, %invoke.cont.i154
  %cleanup.isactive.0.i157 = phi i1 [ false, %invoke.cont3.i155 ], [ true, %invoke.cont.i154 ]
  %83 = landingpad { i8*, i32 }
          cleanup
  call void @_ZNSt7__cxx1112basic_stringIcSt11char_traitsIcESaIcEED2Ev(%"class.std::__cxx11::basic_string"* noundef nonnull align 8 dereferenceable(32) %agg.tmp.i151) #29
  br label %ehcleanup.i161

ehcleanup.i161:                                   ; preds = %lpad2.i158, %lpad.i156
  %.pn.i159 = phi { i8*, i32 } [ %83, %lpad2.i158 ], [ %82, %lpad.i156 ]
  %cleanup.isactive.1.i160 = phi i1 [ %cleanup.isactive.0.i157, %lpad2.i158 ], [ true, %lpad.i156 ]
  call void @llvm.lifetime.end.p0i8(i64 1, i8* nonnull %80) #29
  br i1 %cleanup.isactive.1.i160, label %cleanup.action.i162, label %ehcleanup320

cleanup.action.i162:                              ; preds = %ehcleanup.i161
  call void @__cxa_free_exception(i8* %exception.i153) #29
  br label %ehcleanup320

unreachable.i164:                                 ; preds = %invoke.cont3.i155
  unreachable

if.else256:                                       ; preds = %invoke.cont229
  %84 = load %"class.Pistache::StreamBuf"*, %"class.Pistache::StreamBuf"** %buf.i, align 8, !tbaa !42
  %_M_in_cur.i.i.i171 = getelementptr inbounds %"class.Pistache::StreamBuf", %"class.Pistache::StreamBuf"* %84, i64 0, i32 0, i32 2
  %85 = load i8*, i8** %_M_in_cur.i.i.i171, align 8, !tbaa !40
  %_M_in_beg.i.i.i172 = getelementptr inbounds %"class.Pistache::StreamBuf", %"class.Pistache::StreamBuf"* %84, i64 0, i32 0, i32 1
  %86 = load i8*, i8** %_M_in_beg.i.i.i172, align 8, !tbaa !37
  %sub.ptr.lhs.cast.i.i173 = ptrtoint i8* %85 to i64
  %sub.ptr.rhs.cast.i.i174 = ptrtoint i8* %86 to i64
  %call260 = invoke noundef zeroext i1 @_ZN8Pistache11match_untilEcRNS_12StreamCursorENS_15CaseSensitivityE(i8 noundef signext 61, %"class.Pistache::StreamCursor"* noundef nonnull align 8 dereferenceable(8) %cursor, i32 noundef 1)
          to label %invoke.cont259 unwind label %lpad257

invoke.cont259:                                   ; preds = %if.else256
  %call264 = invoke noundef zeroext i1 @_ZNK8Pistache12StreamCursor3eofEv(%"class.Pistache::StreamCursor"* noundef nonnull align 8 dereferenceable(8) %cursor)
          to label %invoke.cont263 unwind label %lpad262

invoke.cont263:                                   ; preds = %invoke.cont259
  br i1 %call264, label %if.then271, label %lor.lhs.false265

lor.lhs.false265:                                 ; preds = %invoke.cont263
  %call267 = invoke noundef i32 @_ZNK8Pistache12StreamCursor4nextEv(%"class.Pistache::StreamCursor"* noundef nonnull align 8 dereferenceable(8) %cursor)
          to label %invoke.cont266 unwind label %lpad262

invoke.cont266:                                   ; preds = %lor.lhs.false265
  %87 = add i32 %call267, 1
  %88 = icmp ult i32 %87, 2
  br i1 %88, label %if.then271, label %if.end273

if.then271:                                       ; preds = %invoke.cont266, %invoke.cont263
  %89 = bitcast %"class.std::__cxx11::basic_string"* %agg.tmp.i180 to i8*
  call void @llvm.lifetime.start.p0i8(i64 32, i8* nonnull %89)
  %exception.i182 = call i8* @__cxa_allocate_exception(i64 48) #29
  %90 = getelementptr inbounds %"class.std::allocator", %"class.std::allocator"* %ref.tmp.i181, i64 0, i32 0
  call void @llvm.lifetime.start.p0i8(i64 1, i8* nonnull %90) #29
  invoke void @_ZNSt7__cxx1112basic_stringIcSt11char_traitsIcESaIcEEC2IS3_EEPKcRKS3_(%"class.std::__cxx11::basic_string"* noundef nonnull align 8 dereferenceable(32) %agg.tmp.i180, i8* noundef getelementptr inbounds ([32 x i8], [32 x i8]* @.str.45, i64 0, i64 0), %"class.std::allocator"* noundef nonnull align 1 dereferenceable(1) %ref.tmp.i181)
          to label %invoke.cont.i183 unwind label %lpad.i185

invoke.cont.i183:                                 ; preds = %if.then271
  %91 = bitcast i8* %exception.i182 to %"struct.Pistache::Http::HttpError"*
  invoke void @_ZN8Pistache4Http9HttpErrorC1ENS0_4CodeENSt7__cxx1112basic_stringIcSt11char_traitsIcESaIcEEE(%"struct.Pistache::Http::HttpError"* noundef nonnull align 8 dereferenceable(48) %91, i32 noundef 415, %"class.std::__cxx11::basic_string"* noundef nonnull %agg.tmp.i180)
          to label %invoke.cont3.i184 unwind label %lpad2.i187

invoke.cont3.i184:                                ; preds = %invoke.cont.i183
  invoke void @__cxa_throw(i8* %exception.i182, i8* bitcast ({ i8*, i8*, i8* }* @_ZTIN8Pistache4Http9HttpErrorE to i8*), i8* bitcast (void (%"struct.Pistache::Http::HttpError"*)* @_ZN8Pistache4Http9HttpErrorD2Ev to i8*)) #30
          to label %unreachable.i193 unwind label %lpad2.i187

lpad.i185:                                        ; preds = %if.then271
  %92 = landingpad { i8*, i32 }
          cleanup
  br label %ehcleanup.i190

lpad2.i187:                                       ; preds = %invoke.cont3.i184, %invoke.cont.i183
  %cleanup.isactive.0.i186 = phi i1 [ false, %invoke.cont3.i184 ], [ true, %invoke.cont.i183 ]
  %93 = landingpad { i8*, i32 }
          cleanup
  call void @_ZNSt7__cxx1112basic_stringIcSt11char_traitsIcESaIcEED2Ev(%"class.std::__cxx11::basic_string"* noundef nonnull align 8 dereferenceable(32) %agg.tmp.i180) #29
  br label %ehcleanup.i190

ehcleanup.i190:                                   ; preds = %lpad2.i187, %lpad.i185
  %.pn.i188 = phi { i8*, i32 } [ %93, %lpad2.i187 ], [ %92, %lpad.i185 ]
  %cleanup.isactive.1.i189 = phi i1 [ %cleanup.isactive.0.i186, %lpad2.i187 ], [ true, %lpad.i185 ]
  call void @llvm.lifetime.end.p0i8(i64 1, i8* nonnull %90) #29
  br i1 %cleanup.isactive.1.i189, label %cleanup.action.i191, label %ehcleanup320

cleanup.action.i191:                              ; preds = %ehcleanup.i190
  call void @__cxa_free_exception(i8* %exception.i182) #29
  br label %ehcleanup320

unreachable.i193:                                 ; preds = %invoke.cont3.i184
  unreachable

lpad257:                                          ; preds = %if.else256
  %94 = landingpad { i8*, i32 }
          cleanup
  br label %ehcleanup320

lpad262:                                          ; preds = %lor.lhs.false265, %invoke.cont259
  %95 = landingpad { i8*, i32 }
          cleanup
  br label %ehcleanup320

if.end273:                                        ; preds = %invoke.cont266
  call void @llvm.lifetime.start.p0i8(i64 32, i8* nonnull %45) #29
  %96 = load %"class.Pistache::StreamBuf"*, %"class.Pistache::StreamBuf"** %buf.i, align 8, !tbaa !42, !noalias !54
  %_M_in_cur.i.i.i.i.i = getelementptr inbounds %"class.Pistache::StreamBuf", %"class.Pistache::StreamBuf"* %96, i64 0, i32 0, i32 2
  %97 = load i8*, i8** %_M_in_cur.i.i.i.i.i, align 8, !tbaa !40, !noalias !54
  %_M_in_beg.i.i.i.i.i = getelementptr inbounds %"class.Pistache::StreamBuf", %"class.Pistache::StreamBuf"* %96, i64 0, i32 0, i32 1
  %98 = load i8*, i8** %_M_in_beg.i.i.i.i.i, align 8, !tbaa !37, !noalias !54
  %sub.ptr.lhs.cast.i.i.i.i = ptrtoint i8* %97 to i64
  %sub.ptr.rhs.cast.i.i.i.i = ptrtoint i8* %98 to i64
  %99 = add i64 %sub.ptr.rhs.cast.i.i174, %sub.ptr.lhs.cast.i.i.i.i
  %100 = add i64 %sub.ptr.lhs.cast.i.i173, %sub.ptr.rhs.cast.i.i.i.i
  %sub.i.i = sub i64 %99, %100
  call void @llvm.lifetime.start.p0i8(i64 1, i8* nonnull %46) #29, !noalias !54
  invoke void @_ZNSt7__cxx1112basic_stringIcSt11char_traitsIcESaIcEEC2EPKcmRKS3_(%"class.std::__cxx11::basic_string"* noundef nonnull align 8 dereferenceable(32) %key, i8* noundef %85, i64 noundef %sub.i.i, %"class.std::allocator"* noundef nonnull align 1 dereferenceable(1) %ref.tmp.i196)
          to label %_ZNK8Pistache12StreamCursor5Token4textB5cxx11Ev.exit unwind label %lpad274

_ZNK8Pistache12StreamCursor5Token4textB5cxx11Ev.exit: ; preds = %if.end273
  call void @llvm.lifetime.end.p0i8(i64 1, i8* nonnull %46) #29, !noalias !54
  %call278 = invoke noundef zeroext i1 @_ZN8Pistache12StreamCursor7advanceEm(%"class.Pistache::StreamCursor"* noundef nonnull align 8 dereferenceable(8) %cursor, i64 noundef 1)
          to label %invoke.cont277 unwind label %lpad276

invoke.cont277:                                   ; preds = %_ZNK8Pistache12StreamCursor5Token4textB5cxx11Ev.exit
  %101 = load %"class.Pistache::StreamBuf"*, %"class.Pistache::StreamBuf"** %buf.i, align 8, !tbaa !42
  %_M_in_cur.i.i.i202 = getelementptr inbounds %"class.Pistache::StreamBuf", %"class.Pistache::StreamBuf"* %101, i64 0, i32 0, i32 2
  %102 = load i8*, i8** %_M_in_cur.i.i.i202, align 8, !tbaa !40
  %_M_in_beg.i.i.i203 = getelementptr inbounds %"class.Pistache::StreamBuf", %"class.Pistache::StreamBuf"* %101, i64 0, i32 0, i32 1
  %103 = load i8*, i8** %_M_in_beg.i.i.i203, align 8, !tbaa !37
  call void @llvm.lifetime.start.p0i8(i64 2, i8* nonnull %47) #29
  store i8 32, i8* %47, align 1, !tbaa !44
  store i8 59, i8* %arrayinit.element284, align 1, !tbaa !44
  %call290 = invoke noundef zeroext i1 @_ZN8Pistache11match_untilESt16initializer_listIcERNS_12StreamCursorENS_15CaseSensitivityE(i8* nonnull %47, i64 2, %"class.Pistache::StreamCursor"* noundef nonnull align 8 dereferenceable(8) %cursor, i32 noundef 1)
          to label %invoke.cont289 unwind label %lpad288

invoke.cont289:                                   ; preds = %invoke.cont277
  %sub.ptr.lhs.cast.i.i204 = ptrtoint i8* %102 to i64
  %sub.ptr.rhs.cast.i.i205 = ptrtoint i8* %103 to i64
  call void @llvm.lifetime.end.p0i8(i64 2, i8* nonnull %47) #29
  call void @llvm.lifetime.start.p0i8(i64 64, i8* nonnull %48) #29
  call void @llvm.lifetime.start.p0i8(i64 32, i8* nonnull %49) #29
  %104 = load %"class.Pistache::StreamBuf"*, %"class.Pistache::StreamBuf"** %buf.i, align 8, !tbaa !42, !noalias !57
  %_M_in_cur.i.i.i.i.i215 = getelementptr inbounds %"class.Pistache::StreamBuf", %"class.Pistache::StreamBuf"* %104, i64 0, i32 0, i32 2
  %105 = load i8*, i8** %_M_in_cur.i.i.i.i.i215, align 8, !tbaa !40, !noalias !57
  %_M_in_beg.i.i.i.i.i216 = getelementptr inbounds %"class.Pistache::StreamBuf", %"class.Pistache::StreamBuf"* %104, i64 0, i32 0, i32 1
  %106 = load i8*, i8** %_M_in_beg.i.i.i.i.i216, align 8, !tbaa !37, !noalias !57
  %sub.ptr.lhs.cast.i.i.i.i217 = ptrtoint i8* %105 to i64
  %sub.ptr.rhs.cast.i.i.i.i218 = ptrtoint i8* %106 to i64
  %107 = add i64 %sub.ptr.rhs.cast.i.i205, %sub.ptr.lhs.cast.i.i.i.i217
  %108 = add i64 %sub.ptr.lhs.cast.i.i204, %sub.ptr.rhs.cast.i.i.i.i218
  %sub.i.i220 = sub i64 %107, %108
  call void @llvm.lifetime.start.p0i8(i64 1, i8* nonnull %50) #29, !noalias !57
  invoke void @_ZNSt7__cxx1112basic_stringIcSt11char_traitsIcESaIcEEC2EPKcmRKS3_(%"class.std::__cxx11::basic_string"* noundef nonnull align 8 dereferenceable(32) %ref.tmp294, i8* noundef %102, i64 noundef %sub.i.i220, %"class.std::allocator"* noundef nonnull align 1 dereferenceable(1) %ref.tmp.i211)
          to label %_ZNK8Pistache12StreamCursor5Token4textB5cxx11Ev.exit222 unwind label %lpad295

_ZNK8Pistache12StreamCursor5Token4textB5cxx11Ev.exit222: ; preds = %invoke.cont289
  call void @llvm.lifetime.end.p0i8(i64 1, i8* nonnull %50) #29, !noalias !57
  invoke void @_ZSt9make_pairINSt7__cxx1112basic_stringIcSt11char_traitsIcESaIcEEES5_ESt4pairINSt25__strip_reference_wrapperINSt5decayIT_E4typeEE6__typeENS7_INS8_IT0_E4typeEE6__typeEEOS9_OSE_(%"struct.std::pair.5"* nonnull sret(%"struct.std::pair.5") align 8 %ref.tmp292, %"class.std::__cxx11::basic_string"* noundef nonnull align 8 dereferenceable(32) %key, %"class.std::__cxx11::basic_string"* noundef nonnull align 8 dereferenceable(32) %ref.tmp294)
          to label %invoke.cont298 unwind label %lpad297

invoke.cont298:                                   ; preds = %_ZNK8Pistache12StreamCursor5Token4textB5cxx11Ev.exit222
  %call301 = invoke { %"struct.std::__detail::_Hash_node"*, i8 } @_ZNSt13unordered_mapINSt7__cxx1112basic_stringIcSt11char_traitsIcESaIcEEES5_St4hashIS5_ESt8equal_toIS5_ESaISt4pairIKS5_S5_EEE6insertISA_IS5_S5_EEENSt9enable_ifIXsr16is_constructibleISC_OT_EE5valueESA_INSt8__detail14_Node_iteratorISC_Lb0ELb1EEEbEE4typeESJ_(%"class.std::unordered_map"* noundef nonnull align 8 dereferenceable(56) %params, %"struct.std::pair.5"* noundef nonnull align 8 dereferenceable(64) %ref.tmp292)
          to label %invoke.cont300 unwind label %lpad299

invoke.cont300:                                   ; preds = %invoke.cont298
  call void @_ZNSt4pairINSt7__cxx1112basic_stringIcSt11char_traitsIcESaIcEEES5_ED2Ev(%"struct.std::pair.5"* noundef nonnull align 8 dereferenceable(64) %ref.tmp292) #29
  call void @_ZNSt7__cxx1112basic_stringIcSt11char_traitsIcESaIcEED2Ev(%"class.std::__cxx11::basic_string"* noundef nonnull align 8 dereferenceable(32) %ref.tmp294) #29
  call void @llvm.lifetime.end.p0i8(i64 32, i8* nonnull %49) #29
  call void @llvm.lifetime.end.p0i8(i64 64, i8* nonnull %48) #29
  call void @_ZNSt7__cxx1112basic_stringIcSt11char_traitsIcESaIcEED2Ev(%"class.std::__cxx11::basic_string"* noundef nonnull align 8 dereferenceable(32) %key) #29
  call void @llvm.lifetime.end.p0i8(i64 32, i8* nonnull %45) #29
  br label %while.cond.backedge

lpad274:                                          ; preds = %if.end273
  %109 = landingpad { i8*, i32 }
          cleanup
  br label %ehcleanup308

lpad276:                                          ; preds = %_ZNK8Pistache12StreamCursor5Token4textB5cxx11Ev.exit
  %110 = landingpad { i8*, i32 }
          cleanup
  br label %ehcleanup307

lpad288:                                          ; preds = %invoke.cont277
  %111 = landingpad { i8*, i32 }
          cleanup
  call void @llvm.lifetime.end.p0i8(i64 2, i8* nonnull %47) #29
  br label %ehcleanup307

lpad295:                                          ; preds = %invoke.cont289
  %112 = landingpad { i8*, i32 }
          cleanup
  br label %ehcleanup304

lpad297:                                          ; preds = %_ZNK8Pistache12StreamCursor5Token4textB5cxx11Ev.exit222
  %113 = landingpad { i8*, i32 }
          cleanup
  br label %ehcleanup303

lpad299:                                          ; preds = %invoke.cont298
  %114 = landingpad { i8*, i32 }
          cleanup
  call void @_ZNSt4pairINSt7__cxx1112basic_stringIcSt11char_traitsIcESaIcEEES5_ED2Ev(%"struct.std::pair.5"* noundef nonnull align 8 dereferenceable(64) %ref.tmp292) #29
  br label %ehcleanup303

ehcleanup303:                                     ; preds = %lpad299, %lpad297
  %.pn = phi { i8*, i32 } [ %114, %lpad299 ], [ %113, %lpad297 ]
  call void @_ZNSt7__cxx1112basic_stringIcSt11char_traitsIcESaIcEED2Ev(%"class.std::__cxx11::basic_string"* noundef nonnull align 8 dereferenceable(32) %ref.tmp294) #29
  br label %ehcleanup304

ehcleanup304:                                     ; preds = %ehcleanup303, %lpad295
  %.pn.pn = phi { i8*, i32 } [ %.pn, %ehcleanup303 ], [ %112, %lpad295 ]
  %115 = bitcast %"class.std::__cxx11::basic_string"* %ref.tmp294 to i8*
  %116 = bitcast %"struct.std::pair.5"* %ref.tmp292 to i8*
  call void @llvm.lifetime.end.p0i8(i64 32, i8* nonnull %115) #29
  call void @llvm.lifetime.end.p0i8(i64 64, i8* nonnull %116) #29
  br label %ehcleanup307

ehcleanup307:                                     ; preds = %lpad288, %ehcleanup304, %lpad276
  %.pn.pn.pn.pn = phi { i8*, i32 } [ %110, %lpad276 ], [ %.pn.pn, %ehcleanup304 ], [ %111, %lpad288 ]
  call void @_ZNSt7__cxx1112basic_stringIcSt11char_traitsIcESaIcEED2Ev(%"class.std::__cxx11::basic_string"* noundef nonnull align 8 dereferenceable(32) %key) #29
  br label %ehcleanup308

ehcleanup308:                                     ; preds = %ehcleanup307, %lpad274
  %.pn.pn.pn.pn.pn = phi { i8*, i32 } [ %.pn.pn.pn.pn, %ehcleanup307 ], [ %109, %lpad274 ]
  %117 = bitcast %"class.std::__cxx11::basic_string"* %key to i8*
  call void @llvm.lifetime.end.p0i8(i64 32, i8* nonnull %117) #29
  br label %ehcleanup320

cleanup:                                          ; preds = %invoke.cont205, %invoke.cont137
  call void @llvm.lifetime.end.p0i8(i64 8, i8* nonnull %3) #29
  %118 = getelementptr inbounds %"class.Pistache::RawStreamBuf", %"class.Pistache::RawStreamBuf"* %buf, i64 0, i32 0, i32 0, i32 0
  store i32 (...)** bitcast (i8** getelementptr inbounds ({ [16 x i8*] }, { [16 x i8*] }* @_ZTVSt15basic_streambufIcSt11char_traitsIcEE, i64 0, inrange i32 0, i64 2) to i32 (...)**), i32 (...)*** %118, align 8, !tbaa !35
  %_M_buf_locale.i = getelementptr inbounds %"class.Pistache::RawStreamBuf", %"class.Pistache::RawStreamBuf"* %buf, i64 0, i32 0, i32 0, i32 7
  call void @_ZNSt6localeD1Ev(%"class.std::locale"* noundef nonnull align 8 dereferenceable(8) %_M_buf_locale.i) #29
  call void @llvm.lifetime.end.p0i8(i64 64, i8* nonnull %0) #29
  ret void

ehcleanup320:                                     ; preds = %lpad141.loopexit, %lpad141.loopexit.split-lp, %lpad47, %lpad127, %ehcleanup252, %ehcleanup.i75, %cleanup.action.i76, %lpad192, %lpad150, %ehcleanup.i111, %cleanup.action.i112, %lpad216, %cleanup.action.i128, %ehcleanup.i127, %cleanup.action.i162, %ehcleanup.i161, %lpad262, %cleanup.action.i191, %ehcleanup.i190, %ehcleanup308, %lpad257, %ehcleanup.i48, %cleanup.action.i49, %ehcleanup.i, %cleanup.action.i, %lpad5, %lpad3, %lpad
  %.pn28.pn.pn.pn = phi { i8*, i32 } [ %8, %lpad3 ], [ %7, %lpad ], [ %9, %lpad5 ], [ %.pn.i, %cleanup.action.i ], [ %.pn.i, %ehcleanup.i ], [ %.pn.i46, %cleanup.action.i49 ], [ %.pn.i46, %ehcleanup.i48 ], [ %23, %lpad47 ], [ %29, %lpad127 ], [ %.pn25, %ehcleanup252 ], [ %.pn.i73, %cleanup.action.i76 ], [ %.pn.i73, %ehcleanup.i75 ], [ %38, %lpad150 ], [ %44, %lpad192 ], [ %60, %lpad216 ], [ %.pn.i109, %cleanup.action.i112 ], [ %.pn.i109, %ehcleanup.i111 ], [ %.pn.i125, %cleanup.action.i128 ], [ %.pn.i125, %ehcleanup.i127 ], [ %.pn.i159, %cleanup.action.i162 ], [ %.pn.i159, %ehcleanup.i161 ], [ %94, %lpad257 ], [ %.pn.pn.pn.pn.pn, %ehcleanup308 ], [ %95, %lpad262 ], [ %.pn.i188, %cleanup.action.i191 ], [ %.pn.i188, %ehcleanup.i190 ], [ %lpad.loopexit, %lpad141.loopexit ], [ %lpad.loopexit.split-lp, %lpad141.loopexit.split-lp ]
  call void @llvm.lifetime.end.p0i8(i64 8, i8* nonnull %3) #29
  %119 = getelementptr inbounds %"class.Pistache::RawStreamBuf", %"class.Pistache::RawStreamBuf"* %buf, i64 0, i32 0, i32 0, i32 0
  store i32 (...)** bitcast (i8** getelementptr inbounds ({ [16 x i8*] }, { [16 x i8*] }* @_ZTVSt15basic_streambufIcSt11char_traitsIcEE, i64 0, inrange i32 0, i64 2) to i32 (...)**), i32 (...)*** %119, align 8, !tbaa !35
  %_M_buf_locale.i223 = getelementptr inbounds %"class.Pistache::RawStreamBuf", %"class.Pistache::RawStreamBuf"* %buf, i64 0, i32 0, i32 0, i32 7
  call void @_ZNSt6localeD1Ev(%"class.std::locale"* noundef nonnull align 8 dereferenceable(8) %_M_buf_locale.i223) #29
  call void @llvm.lifetime.end.p0i8(i64 64, i8* nonnull %0) #29
  resume { i8*, i32 } %.pn28.pn.pn.pn
}

; Function Attrs: nounwind uwtable
define dso_local void @_ZN8Pistache4Http4Mime9MediaType8fromFileEPKc(%"class.Pistache::Http::Mime::MediaType"* noalias sret(%"class.Pistache::Http::Mime::MediaType") align 8 %agg.result, i8* noundef readonly %fileName) local_unnamed_addr #9 align 2 {
entry:
  br label %while.cond

while.cond:                                       ; preds = %if.end, %entry
  %p.0 = phi i8* [ %fileName, %entry ], [ %incdec.ptr, %if.end ]
  %extensionOffset.0 = phi i8* [ null, %entry ], [ %extensionOffset.1, %if.end ]
  %0 = load i8, i8* %p.0, align 1, !tbaa !44
  switch i8 %0, label %if.end [
    i8 0, label %while.end
    i8 46, label %if.then
  ]

if.then:                                          ; preds = %while.cond
  br label %if.end

if.end:                                           ; preds = %while.cond, %if.then
  %extensionOffset.1 = phi i8* [ %p.0, %if.then ], [ %extensionOffset.0, %while.cond ]
  %incdec.ptr = getelementptr inbounds i8, i8* %p.0, i64 1
  br label %while.cond, !llvm.loop !60

while.end:                                        ; preds = %while.cond
  %tobool1.not = icmp eq i8* %extensionOffset.0, null
  br i1 %tobool1.not, label %cleanup14, label %if.end3

if.end3:                                          ; preds = %while.end
  %incdec.ptr4 = getelementptr inbounds i8, i8* %extensionOffset.0, i64 1
  br label %for.body

for.body:                                         ; preds = %if.end3, %for.inc
  %__begin2.033 = phi %struct.Extension* [ getelementptr inbounds ([7 x %struct.Extension], [7 x %struct.Extension]* @_ZZN8Pistache4Http4Mime9MediaType8fromFileEPKcE15KnownExtensions, i64 0, i64 0), %if.end3 ], [ %incdec.ptr9, %for.inc ]
  %raw = getelementptr inbounds %struct.Extension, %struct.Extension* %__begin2.033, i64 0, i32 0
  %1 = load i8*, i8** %raw, align 8, !tbaa !61
  %call = call i32 @strcmp(i8* noundef nonnull %incdec.ptr4, i8* noundef nonnull dereferenceable(1) %1) #31
  %tobool6.not = icmp eq i32 %call, 0
  br i1 %tobool6.not, label %if.then7, label %for.inc

if.then7:                                         ; preds = %for.body
  %top = getelementptr inbounds %struct.Extension, %struct.Extension* %__begin2.033, i64 0, i32 1
  %2 = load i32, i32* %top, align 8, !tbaa !63
  %sub = getelementptr inbounds %struct.Extension, %struct.Extension* %__begin2.033, i64 0, i32 2
  %3 = load i32, i32* %sub, align 4, !tbaa !64
  br label %cleanup14

for.inc:                                          ; preds = %for.body
  %incdec.ptr9 = getelementptr inbounds %struct.Extension, %struct.Extension* %__begin2.033, i64 1
  %cmp5.not = icmp eq %struct.Extension* %incdec.ptr9, getelementptr inbounds ([7 x %struct.Extension], [7 x %struct.Extension]* @_ZZN8Pistache4Http4Mime9MediaType8fromFileEPKcE15KnownExtensions, i64 1, i64 0)
  br i1 %cmp5.not, label %cleanup14, label %for.body, !llvm.loop !65

cleanup14:                                        ; preds = %for.inc, %while.end, %if.then7
  %.sink36 = phi i32 [ %2, %if.then7 ], [ 8, %while.end ], [ 8, %for.inc ]
  %.sink = phi i32 [ %3, %if.then7 ], [ 19, %while.end ], [ 19, %for.inc ]
  %top_.i18 = getelementptr inbounds %"class.Pistache::Http::Mime::MediaType", %"class.Pistache::Http::Mime::MediaType"* %agg.result, i64 0, i32 0
  store i32 %.sink36, i32* %top_.i18, align 8, !tbaa !10
  %sub_.i19 = getelementptr inbounds %"class.Pistache::Http::Mime::MediaType", %"class.Pistache::Http::Mime::MediaType"* %agg.result, i64 0, i32 1
  store i32 %.sink, i32* %sub_.i19, align 4, !tbaa !29
  %suffix_.i20 = getelementptr inbounds %"class.Pistache::Http::Mime::MediaType", %"class.Pistache::Http::Mime::MediaType"* %agg.result, i64 0, i32 2
  store i32 7, i32* %suffix_.i20, align 8, !tbaa !30
  %raw_.i21 = getelementptr inbounds %"class.Pistache::Http::Mime::MediaType", %"class.Pistache::Http::Mime::MediaType"* %agg.result, i64 0, i32 4
  call void @_ZNSt7__cxx1112basic_stringIcSt11char_traitsIcESaIcEEC2Ev(%"class.std::__cxx11::basic_string"* noundef nonnull align 8 dereferenceable(32) %raw_.i21) #29
  %rawSubIndex.i22 = getelementptr inbounds %"class.Pistache::Http::Mime::MediaType", %"class.Pistache::Http::Mime::MediaType"* %agg.result, i64 0, i32 5
  %params.i23 = getelementptr inbounds %"class.Pistache::Http::Mime::MediaType", %"class.Pistache::Http::Mime::MediaType"* %agg.result, i64 0, i32 7
  %4 = bitcast %"struct.Pistache::Http::Mime::MediaType::Index"* %rawSubIndex.i22 to i8*
  call void @llvm.memset.p0i8.i64(i8* noundef nonnull align 8 dereferenceable(88) %4, i8 0, i64 88, i1 false) #29
  call void @_ZNSt13unordered_mapINSt7__cxx1112basic_stringIcSt11char_traitsIcESaIcEEES5_St4hashIS5_ESt8equal_toIS5_ESaISt4pairIKS5_S5_EEEC2Ev(%"class.std::unordered_map"* noundef nonnull align 8 dereferenceable(56) %params.i23) #29
  %q_.i24 = getelementptr inbounds %"class.Pistache::Http::Mime::MediaType", %"class.Pistache::Http::Mime::MediaType"* %agg.result, i64 0, i32 8
  call void @_ZNSt8optionalIN8Pistache4Http4Mime1QEEC2Ev(%"class.std::optional"* noundef nonnull align 2 dereferenceable(4) %q_.i24) #29
  ret void
}

; Function Attrs: argmemonly mustprogress nofree nounwind readonly willreturn
declare i32 @strcmp(i8* nocapture noundef, i8* nocapture noundef) local_unnamed_addr #10

; Function Attrs: noinline uwtable
define linkonce_odr void @_ZNSt7__cxx1112basic_stringIcSt11char_traitsIcESaIcEEC2EPKcmRKS3_(%"class.std::__cxx11::basic_string"* noundef nonnull align 8 dereferenceable(32) %this, i8* noundef %__s, i64 noundef %__n, %"class.std::allocator"* noundef nonnull align 1 dereferenceable(1) %__a) unnamed_addr #5 align 2 personality i8* bitcast (i32 (...)* @__gxx_personality_v0 to i8*) {
entry:
  %_M_dataplus = getelementptr inbounds %"class.std::__cxx11::basic_string", %"class.std::__cxx11::basic_string"* %this, i64 0, i32 0
  %call = call noundef i8* @_ZNSt7__cxx1112basic_stringIcSt11char_traitsIcESaIcEE13_M_local_dataEv(%"class.std::__cxx11::basic_string"* noundef nonnull align 8 dereferenceable(32) %this)
  call void @_ZNSt7__cxx1112basic_stringIcSt11char_traitsIcESaIcEE12_Alloc_hiderC2EPcRKS3_(%"struct.std::__cxx11::basic_string<char>::_Alloc_hider"* noundef nonnull align 8 dereferenceable(8) %_M_dataplus, i8* noundef %call, %"class.std::allocator"* noundef nonnull align 1 dereferenceable(1) %__a)
  %cmp = icmp eq i8* %__s, null
  %cmp2 = icmp ne i64 %__n, 0
  %or.cond = and i1 %cmp, %cmp2
  br i1 %or.cond, label %if.then, label %if.end

if.then:                                          ; preds = %entry
  call void @_ZSt19__throw_logic_errorPKc(i8* noundef getelementptr inbounds ([50 x i8], [50 x i8]* @.str.58, i64 0, i64 0)) #30
  unreachable

if.end:                                           ; preds = %entry
  %add.ptr = getelementptr inbounds i8, i8* %__s, i64 %__n
  call void @_ZNSt7__cxx1112basic_stringIcSt11char_traitsIcESaIcEE12_M_constructIPKcEEvT_S8_St20forward_iterator_tag(%"class.std::__cxx11::basic_string"* noundef nonnull align 8 dereferenceable(32) %this, i8* noundef %__s, i8* noundef %add.ptr)
  ret void
}

; Function Attrs: mustprogress noinline nounwind uwtable
define linkonce_odr noundef nonnull align 8 dereferenceable(32) %"class.std::__cxx11::basic_string"* @_ZNSt7__cxx1112basic_stringIcSt11char_traitsIcESaIcEEaSEOS4_(%"class.std::__cxx11::basic_string"* noundef nonnull align 8 dereferenceable(32) %this, %"class.std::__cxx11::basic_string"* noundef nonnull align 8 dereferenceable(32) %__str) local_unnamed_addr #8 align 2 personality i8* bitcast (i32 (...)* @__gxx_personality_v0 to i8*) {
entry:
  %call = invoke noundef zeroext i1 @_ZNKSt7__cxx1112basic_stringIcSt11char_traitsIcESaIcEE11_M_is_localEv(%"class.std::__cxx11::basic_string"* noundef nonnull align 8 dereferenceable(32) %this)
          to label %invoke.cont unwind label %terminate.lpad

invoke.cont:                                      ; preds = %entry
  br i1 %call, label %if.end, label %land.lhs.true

land.lhs.true:                                    ; preds = %invoke.cont
  %call3 = call noundef zeroext i1 @_ZN9__gnu_cxx14__alloc_traitsISaIcEcE15_S_always_equalEv()
  br i1 %call3, label %if.end, label %land.lhs.true4

land.lhs.true4:                                   ; preds = %land.lhs.true
  %call5 = call noundef nonnull align 1 dereferenceable(1) %"class.std::allocator"* @_ZNSt7__cxx1112basic_stringIcSt11char_traitsIcESaIcEE16_M_get_allocatorEv(%"class.std::__cxx11::basic_string"* noundef nonnull align 8 dereferenceable(32) %this)
  %call6 = call noundef nonnull align 1 dereferenceable(1) %"class.std::allocator"* @_ZNSt7__cxx1112basic_stringIcSt11char_traitsIcESaIcEE16_M_get_allocatorEv(%"class.std::__cxx11::basic_string"* noundef nonnull align 8 dereferenceable(32) %__str)
  %call7 = call noundef zeroext i1 @_ZStneRKSaIcES1_(%"class.std::allocator"* noundef nonnull align 1 dereferenceable(1) %call5, %"class.std::allocator"* noundef nonnull align 1 dereferenceable(1) %call6) #29
  br i1 %call7, label %if.then, label %if.end

if.then:                                          ; preds = %land.lhs.true4
  %_M_allocated_capacity = getelementptr inbounds %"class.std::__cxx11::basic_string", %"class.std::__cxx11::basic_string"* %this, i64 0, i32 2, i32 0
  %0 = load i64, i64* %_M_allocated_capacity, align 8, !tbaa !44
  call void @_ZNSt7__cxx1112basic_stringIcSt11char_traitsIcESaIcEE10_M_destroyEm(%"class.std::__cxx11::basic_string"* noundef nonnull align 8 dereferenceable(32) %this, i64 noundef %0) #29
  %call8 = call noundef i8* @_ZNSt7__cxx1112basic_stringIcSt11char_traitsIcESaIcEE13_M_local_dataEv(%"class.std::__cxx11::basic_string"* noundef nonnull align 8 dereferenceable(32) %this)
  call void @_ZNSt7__cxx1112basic_stringIcSt11char_traitsIcESaIcEE7_M_dataEPc(%"class.std::__cxx11::basic_string"* noundef nonnull align 8 dereferenceable(32) %this, i8* noundef %call8)
  call void @_ZNSt7__cxx1112basic_stringIcSt11char_traitsIcESaIcEE13_M_set_lengthEm(%"class.std::__cxx11::basic_string"* noundef nonnull align 8 dereferenceable(32) %this, i64 noundef 0)
  br label %if.end

if.end:                                           ; preds = %if.then, %land.lhs.true4, %land.lhs.true, %invoke.cont
  %call9 = call noundef nonnull align 1 dereferenceable(1) %"class.std::allocator"* @_ZNSt7__cxx1112basic_stringIcSt11char_traitsIcESaIcEE16_M_get_allocatorEv(%"class.std::__cxx11::basic_string"* noundef nonnull align 8 dereferenceable(32) %this)
  %call10 = call noundef nonnull align 1 dereferenceable(1) %"class.std::allocator"* @_ZNSt7__cxx1112basic_stringIcSt11char_traitsIcESaIcEE16_M_get_allocatorEv(%"class.std::__cxx11::basic_string"* noundef nonnull align 8 dereferenceable(32) %__str)
  call void @_ZSt15__alloc_on_moveISaIcEEvRT_S2_(%"class.std::allocator"* noundef nonnull align 1 dereferenceable(1) %call9, %"class.std::allocator"* noundef nonnull align 1 dereferenceable(1) %call10)
  %call13 = invoke noundef zeroext i1 @_ZNKSt7__cxx1112basic_stringIcSt11char_traitsIcESaIcEE11_M_is_localEv(%"class.std::__cxx11::basic_string"* noundef nonnull align 8 dereferenceable(32) %__str)
          to label %invoke.cont12 unwind label %terminate.lpad

invoke.cont12:                                    ; preds = %if.end
  br i1 %call13, label %if.then14, label %if.else

if.then14:                                        ; preds = %invoke.cont12
  %cmp.not = icmp eq %"class.std::__cxx11::basic_string"* %__str, %this
  br i1 %cmp.not, label %if.end39, label %if.then16, !prof !66

if.then16:                                        ; preds = %if.then14
  %call17 = call noundef i64 @_ZNKSt7__cxx1112basic_stringIcSt11char_traitsIcESaIcEE4sizeEv(%"class.std::__cxx11::basic_string"* noundef nonnull align 8 dereferenceable(32) %__str) #29
  %tobool18.not = icmp eq i64 %call17, 0
  br i1 %tobool18.not, label %if.end23, label %if.then19

if.then19:                                        ; preds = %if.then16
  %call20 = call noundef i8* @_ZNKSt7__cxx1112basic_stringIcSt11char_traitsIcESaIcEE7_M_dataEv(%"class.std::__cxx11::basic_string"* noundef nonnull align 8 dereferenceable(32) %this)
  %call21 = call noundef i8* @_ZNKSt7__cxx1112basic_stringIcSt11char_traitsIcESaIcEE7_M_dataEv(%"class.std::__cxx11::basic_string"* noundef nonnull align 8 dereferenceable(32) %__str)
  %call22 = call noundef i64 @_ZNKSt7__cxx1112basic_stringIcSt11char_traitsIcESaIcEE4sizeEv(%"class.std::__cxx11::basic_string"* noundef nonnull align 8 dereferenceable(32) %__str) #29
  call void @_ZNSt7__cxx1112basic_stringIcSt11char_traitsIcESaIcEE7_S_copyEPcPKcm(i8* noundef %call20, i8* noundef %call21, i64 noundef %call22)
  br label %if.end23

if.end23:                                         ; preds = %if.then19, %if.then16
  %call24 = call noundef i64 @_ZNKSt7__cxx1112basic_stringIcSt11char_traitsIcESaIcEE4sizeEv(%"class.std::__cxx11::basic_string"* noundef nonnull align 8 dereferenceable(32) %__str) #29
  call void @_ZNSt7__cxx1112basic_stringIcSt11char_traitsIcESaIcEE13_M_set_lengthEm(%"class.std::__cxx11::basic_string"* noundef nonnull align 8 dereferenceable(32) %this, i64 noundef %call24)
  br label %if.end39

if.else:                                          ; preds = %invoke.cont12
  %call27 = invoke noundef zeroext i1 @_ZNKSt7__cxx1112basic_stringIcSt11char_traitsIcESaIcEE11_M_is_localEv(%"class.std::__cxx11::basic_string"* noundef nonnull align 8 dereferenceable(32) %this)
          to label %invoke.cont26 unwind label %lpad

invoke.cont26:                                    ; preds = %if.else
  br i1 %call27, label %if.end31, label %if.then28

if.then28:                                        ; preds = %invoke.cont26
  %call29 = call noundef i8* @_ZNKSt7__cxx1112basic_stringIcSt11char_traitsIcESaIcEE7_M_dataEv(%"class.std::__cxx11::basic_string"* noundef nonnull align 8 dereferenceable(32) %this)
  %_M_allocated_capacity30 = getelementptr inbounds %"class.std::__cxx11::basic_string", %"class.std::__cxx11::basic_string"* %this, i64 0, i32 2, i32 0
  %1 = load i64, i64* %_M_allocated_capacity30, align 8, !tbaa !44
  br label %if.end31

lpad:                                             ; preds = %if.else
  %2 = landingpad { i8*, i32 }
          catch i8* null
  %3 = extractvalue { i8*, i32 } %2, 0
  call void @__clang_call_terminate(i8* %3) #32
  unreachable

if.end31:                                         ; preds = %if.then28, %invoke.cont26
  %__capacity.0 = phi i64 [ undef, %invoke.cont26 ], [ %1, %if.then28 ]
  %__data.0 = phi i8* [ null, %invoke.cont26 ], [ %call29, %if.then28 ]
  %call32 = call noundef i8* @_ZNKSt7__cxx1112basic_stringIcSt11char_traitsIcESaIcEE7_M_dataEv(%"class.std::__cxx11::basic_string"* noundef nonnull align 8 dereferenceable(32) %__str)
  call void @_ZNSt7__cxx1112basic_stringIcSt11char_traitsIcESaIcEE7_M_dataEPc(%"class.std::__cxx11::basic_string"* noundef nonnull align 8 dereferenceable(32) %this, i8* noundef %call32)
  %call33 = call noundef i64 @_ZNKSt7__cxx1112basic_stringIcSt11char_traitsIcESaIcEE6lengthEv(%"class.std::__cxx11::basic_string"* noundef nonnull align 8 dereferenceable(32) %__str) #29
  call void @_ZNSt7__cxx1112basic_stringIcSt11char_traitsIcESaIcEE9_M_lengthEm(%"class.std::__cxx11::basic_string"* noundef nonnull align 8 dereferenceable(32) %this, i64 noundef %call33)
  %4 = getelementptr inbounds %"class.std::__cxx11::basic_string", %"class.std::__cxx11::basic_string"* %__str, i64 0, i32 2
  %_M_allocated_capacity34 = getelementptr %union.anon, %union.anon* %4, i64 0, i32 0
  %5 = load i64, i64* %_M_allocated_capacity34, align 8, !tbaa !44
  call void @_ZNSt7__cxx1112basic_stringIcSt11char_traitsIcESaIcEE11_M_capacityEm(%"class.std::__cxx11::basic_string"* noundef nonnull align 8 dereferenceable(32) %this, i64 noundef %5)
  %tobool35.not = icmp eq i8* %__data.0, null
  br i1 %tobool35.not, label %if.else37, label %if.then36

if.then36:                                        ; preds = %if.end31
  call void @_ZNSt7__cxx1112basic_stringIcSt11char_traitsIcESaIcEE7_M_dataEPc(%"class.std::__cxx11::basic_string"* noundef nonnull align 8 dereferenceable(32) %__str, i8* noundef nonnull %__data.0)
  call void @_ZNSt7__cxx1112basic_stringIcSt11char_traitsIcESaIcEE11_M_capacityEm(%"class.std::__cxx11::basic_string"* noundef nonnull align 8 dereferenceable(32) %__str, i64 noundef %__capacity.0)
  br label %if.end39

if.else37:                                        ; preds = %if.end31
  %arraydecay = bitcast %union.anon* %4 to i8*
  call void @_ZNSt7__cxx1112basic_stringIcSt11char_traitsIcESaIcEE7_M_dataEPc(%"class.std::__cxx11::basic_string"* noundef nonnull align 8 dereferenceable(32) %__str, i8* noundef nonnull %arraydecay)
  br label %if.end39

if.end39:                                         ; preds = %if.then36, %if.else37, %if.then14, %if.end23
  call void @_ZNSt7__cxx1112basic_stringIcSt11char_traitsIcESaIcEE5clearEv(%"class.std::__cxx11::basic_string"* noundef nonnull align 8 dereferenceable(32) %__str) #29
  ret %"class.std::__cxx11::basic_string"* %this

terminate.lpad:                                   ; preds = %if.end, %entry
  %6 = landingpad { i8*, i32 }
          catch i8* null
  %7 = extractvalue { i8*, i32 } %6, 0
  call void @__clang_call_terminate(i8* %7) #32
  unreachable
}

; Function Attrs: noinline nounwind uwtable
define linkonce_odr void @_ZNSt7__cxx1112basic_stringIcSt11char_traitsIcESaIcEED2Ev(%"class.std::__cxx11::basic_string"* noundef nonnull align 8 dereferenceable(32) %this) unnamed_addr #11 align 2 personality i8* bitcast (i32 (...)* @__gxx_personality_v0 to i8*) {
entry:
  invoke void @_ZNSt7__cxx1112basic_stringIcSt11char_traitsIcESaIcEE10_M_disposeEv(%"class.std::__cxx11::basic_string"* noundef nonnull align 8 dereferenceable(32) %this)
          to label %invoke.cont unwind label %lpad

invoke.cont:                                      ; preds = %entry
  ret void

lpad:                                             ; preds = %entry
  %0 = landingpad { i8*, i32 }
          catch i8* null
  %1 = extractvalue { i8*, i32 } %0, 0
  call void @__clang_call_terminate(i8* %1) #32
  unreachable
}

declare noundef zeroext i1 @_ZN8Pistache12match_stringEPKcmRNS_12StreamCursorENS_15CaseSensitivityE(i8* noundef, i64 noundef, %"class.Pistache::StreamCursor"* noundef nonnull align 8 dereferenceable(8), i32 noundef) local_unnamed_addr #0

; Function Attrs: inlinehint noreturn uwtable
define internal fastcc void @"_ZZN8Pistache4Http4Mime9MediaType8parseRawEPKcmENK3$_0clES4_"(i8* noundef %str) unnamed_addr #12 align 2 personality i8* bitcast (i32 (...)* @__gxx_personality_v0 to i8*) {
entry:
  %agg.tmp = alloca %"class.std::__cxx11::basic_string", align 8
  %ref.tmp = alloca %"class.std::allocator", align 1
  %exception = call i8* @__cxa_allocate_exception(i64 48) #29
  %0 = getelementptr inbounds %"class.std::allocator", %"class.std::allocator"* %ref.tmp, i64 0, i32 0
  call void @llvm.lifetime.start.p0i8(i64 1, i8* nonnull %0) #29
  invoke void @_ZNSt7__cxx1112basic_stringIcSt11char_traitsIcESaIcEEC2IS3_EEPKcRKS3_(%"class.std::__cxx11::basic_string"* noundef nonnull align 8 dereferenceable(32) %agg.tmp, i8* noundef %str, %"class.std::allocator"* noundef nonnull align 1 dereferenceable(1) %ref.tmp)
          to label %invoke.cont unwind label %lpad

invoke.cont:                                      ; preds = %entry
  %1 = bitcast i8* %exception to %"struct.Pistache::Http::HttpError"*
  invoke void @_ZN8Pistache4Http9HttpErrorC1ENS0_4CodeENSt7__cxx1112basic_stringIcSt11char_traitsIcESaIcEEE(%"struct.Pistache::Http::HttpError"* noundef nonnull align 8 dereferenceable(48) %1, i32 noundef 415, %"class.std::__cxx11::basic_string"* noundef nonnull %agg.tmp)
          to label %invoke.cont3 unwind label %lpad2

invoke.cont3:                                     ; preds = %invoke.cont
  invoke void @__cxa_throw(i8* %exception, i8* bitcast ({ i8*, i8*, i8* }* @_ZTIN8Pistache4Http9HttpErrorE to i8*), i8* bitcast (void (%"struct.Pistache::Http::HttpError"*)* @_ZN8Pistache4Http9HttpErrorD2Ev to i8*)) #30
          to label %unreachable unwind label %lpad2

lpad:                                             ; preds = %entry
  %2 = landingpad { i8*, i32 }
          cleanup
  br label %ehcleanup

lpad2:                                            ; preds = %invoke.cont3, %invoke.cont
  %cleanup.isactive.0 = phi i1 [ false, %invoke.cont3 ], [ true, %invoke.cont ]
  %3 = landingpad { i8*, i32 }
          cleanup
  call void @_ZNSt7__cxx1112basic_stringIcSt11char_traitsIcESaIcEED2Ev(%"class.std::__cxx11::basic_string"* noundef nonnull align 8 dereferenceable(32) %agg.tmp) #29
  br label %ehcleanup

ehcleanup:                                        ; preds = %lpad2, %lpad
  %.pn = phi { i8*, i32 } [ %3, %lpad2 ], [ %2, %lpad ]
  %cleanup.isactive.1 = phi i1 [ %cleanup.isactive.0, %lpad2 ], [ true, %lpad ]
  call void @llvm.lifetime.end.p0i8(i64 1, i8* nonnull %0) #29
  br i1 %cleanup.isactive.1, label %cleanup.action, label %eh.resume

cleanup.action:                                   ; preds = %ehcleanup
  call void @__cxa_free_exception(i8* %exception) #29
  br label %eh.resume

eh.resume:                                        ; preds = %ehcleanup, %cleanup.action
  resume { i8*, i32 } %.pn

unreachable:                                      ; preds = %invoke.cont3
  unreachable
}

declare noundef zeroext i1 @_ZN8Pistache13match_literalEcRNS_12StreamCursorENS_15CaseSensitivityE(i8 noundef signext, %"class.Pistache::StreamCursor"* noundef nonnull align 8 dereferenceable(8), i32 noundef) local_unnamed_addr #0

declare noundef zeroext i1 @_ZNK8Pistache12StreamCursor3eofEv(%"class.Pistache::StreamCursor"* noundef nonnull align 8 dereferenceable(8)) local_unnamed_addr #0

declare noundef zeroext i1 @_ZN8Pistache9match_rawEPKvmRNS_12StreamCursorE(i8* noundef, i64 noundef, %"class.Pistache::StreamCursor"* noundef nonnull align 8 dereferenceable(8)) local_unnamed_addr #0

declare noundef zeroext i1 @_ZN8Pistache11match_untilESt16initializer_listIcERNS_12StreamCursorENS_15CaseSensitivityE(i8*, i64, %"class.Pistache::StreamCursor"* noundef nonnull align 8 dereferenceable(8), i32 noundef) local_unnamed_addr #0

declare noundef signext i8 @_ZNK8Pistache12StreamCursor7currentEv(%"class.Pistache::StreamCursor"* noundef nonnull align 8 dereferenceable(8)) local_unnamed_addr #0

declare noundef i32 @_ZNK8Pistache12StreamCursor4nextEv(%"class.Pistache::StreamCursor"* noundef nonnull align 8 dereferenceable(8)) local_unnamed_addr #0

declare noundef zeroext i1 @_ZN8Pistache12StreamCursor7advanceEm(%"class.Pistache::StreamCursor"* noundef nonnull align 8 dereferenceable(8), i64 noundef) local_unnamed_addr #0

declare noundef zeroext i1 @_ZN8Pistache12match_doubleEPdRNS_12StreamCursorE(double* noundef, %"class.Pistache::StreamCursor"* noundef nonnull align 8 dereferenceable(8)) local_unnamed_addr #0

; Function Attrs: mustprogress noinline nounwind uwtable
define linkonce_odr dso_local noundef nonnull align 2 dereferenceable(4) %"class.std::optional"* @_ZNSt8optionalIN8Pistache4Http4Mime1QEEaSIS3_EENSt9enable_ifIX7__and_vISt6__not_ISt7is_sameIS4_NSt9remove_cvINSt16remove_referenceIT_E4typeEE4typeEEES7_ISt6__and_IJSt9is_scalarIS3_ES8_IS3_NSt5decayISB_E4typeEEEEESt16is_constructibleIS3_JSB_EESt13is_assignableIRS3_SB_EEERS4_E4typeEOSB_(%"class.std::optional"* noundef nonnull align 2 dereferenceable(4) %this, %"class.Pistache::Http::Mime::Q"* noundef nonnull align 2 dereferenceable(2) %__u) local_unnamed_addr #8 comdat align 2 {
entry:
  %0 = bitcast %"class.std::optional"* %this to %"class.std::_Optional_base_impl"*
  %call = call noundef zeroext i1 @_ZNKSt19_Optional_base_implIN8Pistache4Http4Mime1QESt14_Optional_baseIS3_Lb1ELb1EEE13_M_is_engagedEv(%"class.std::_Optional_base_impl"* noundef nonnull align 1 dereferenceable(1) %0) #29
  br i1 %call, label %if.then, label %if.else

if.then:                                          ; preds = %entry
  %call3 = call noundef nonnull align 2 dereferenceable(2) %"class.Pistache::Http::Mime::Q"* @_ZNSt19_Optional_base_implIN8Pistache4Http4Mime1QESt14_Optional_baseIS3_Lb1ELb1EEE6_M_getEv(%"class.std::_Optional_base_impl"* noundef nonnull align 1 dereferenceable(1) %0) #29
  %1 = getelementptr inbounds %"class.Pistache::Http::Mime::Q", %"class.Pistache::Http::Mime::Q"* %__u, i64 0, i32 0
  %2 = getelementptr inbounds %"class.Pistache::Http::Mime::Q", %"class.Pistache::Http::Mime::Q"* %call3, i64 0, i32 0
  %3 = load i16, i16* %1, align 2, !tbaa !67
  store i16 %3, i16* %2, align 2, !tbaa !67
  br label %if.end

if.else:                                          ; preds = %entry
  call void @_ZNSt19_Optional_base_implIN8Pistache4Http4Mime1QESt14_Optional_baseIS3_Lb1ELb1EEE12_M_constructIJS3_EEEvDpOT_(%"class.std::_Optional_base_impl"* noundef nonnull align 1 dereferenceable(1) %0, %"class.Pistache::Http::Mime::Q"* noundef nonnull align 2 dereferenceable(2) %__u) #29
  br label %if.end

if.end:                                           ; preds = %if.else, %if.then
  ret %"class.std::optional"* %this
}

declare noundef zeroext i1 @_ZN8Pistache11match_untilEcRNS_12StreamCursorENS_15CaseSensitivityE(i8 noundef signext, %"class.Pistache::StreamCursor"* noundef nonnull align 8 dereferenceable(8), i32 noundef) local_unnamed_addr #0

; Function Attrs: mustprogress noinline uwtable
define linkonce_odr dso_local { %"struct.std::__detail::_Hash_node"*, i8 } @_ZNSt13unordered_mapINSt7__cxx1112basic_stringIcSt11char_traitsIcESaIcEEES5_St4hashIS5_ESt8equal_toIS5_ESaISt4pairIKS5_S5_EEE6insertISA_IS5_S5_EEENSt9enable_ifIXsr16is_constructibleISC_OT_EE5valueESA_INSt8__detail14_Node_iteratorISC_Lb0ELb1EEEbEE4typeESJ_(%"class.std::unordered_map"* noundef nonnull align 8 dereferenceable(56) %this, %"struct.std::pair.5"* noundef nonnull align 8 dereferenceable(64) %__x) local_unnamed_addr #13 comdat align 2 {
entry:
  %_M_h = getelementptr inbounds %"class.std::unordered_map", %"class.std::unordered_map"* %this, i64 0, i32 0
  %call2 = call { %"struct.std::__detail::_Hash_node"*, i8 } @_ZNSt10_HashtableINSt7__cxx1112basic_stringIcSt11char_traitsIcESaIcEEESt4pairIKS5_S5_ESaIS8_ENSt8__detail10_Select1stESt8equal_toIS5_ESt4hashIS5_ENSA_18_Mod_range_hashingENSA_20_Default_ranged_hashENSA_20_Prime_rehash_policyENSA_17_Hashtable_traitsILb1ELb0ELb1EEEE7emplaceIJS6_IS5_S5_EEEES6_INSA_14_Node_iteratorIS8_Lb0ELb1EEEbEDpOT_(%"class.std::_Hashtable"* noundef nonnull align 8 dereferenceable(56) %_M_h, %"struct.std::pair.5"* noundef nonnull align 8 dereferenceable(64) %__x)
  ret { %"struct.std::__detail::_Hash_node"*, i8 } %call2
}

; Function Attrs: mustprogress noinline uwtable
define linkonce_odr dso_local void @_ZSt9make_pairINSt7__cxx1112basic_stringIcSt11char_traitsIcESaIcEEES5_ESt4pairINSt25__strip_reference_wrapperINSt5decayIT_E4typeEE6__typeENS7_INS8_IT0_E4typeEE6__typeEEOS9_OSE_(%"struct.std::pair.5"* noalias sret(%"struct.std::pair.5") align 8 %agg.result, %"class.std::__cxx11::basic_string"* noundef nonnull align 8 dereferenceable(32) %__x, %"class.std::__cxx11::basic_string"* noundef nonnull align 8 dereferenceable(32) %__y) local_unnamed_addr #13 comdat {
entry:
  call void @_ZNSt4pairINSt7__cxx1112basic_stringIcSt11char_traitsIcESaIcEEES5_EC2IS5_S5_Lb1EEEOT_OT0_(%"struct.std::pair.5"* noundef nonnull align 8 dereferenceable(64) %agg.result, %"class.std::__cxx11::basic_string"* noundef nonnull align 8 dereferenceable(32) %__x, %"class.std::__cxx11::basic_string"* noundef nonnull align 8 dereferenceable(32) %__y)
  ret void
}

; Function Attrs: inlinehint noinline nounwind uwtable
define linkonce_odr dso_local void @_ZNSt4pairINSt7__cxx1112basic_stringIcSt11char_traitsIcESaIcEEES5_ED2Ev(%"struct.std::pair.5"* noundef nonnull align 8 dereferenceable(64) %this) unnamed_addr #14 comdat align 2 {
entry:
  %second = getelementptr inbounds %"struct.std::pair.5", %"struct.std::pair.5"* %this, i64 0, i32 1
  call void @_ZNSt7__cxx1112basic_stringIcSt11char_traitsIcESaIcEED2Ev(%"class.std::__cxx11::basic_string"* noundef nonnull align 8 dereferenceable(32) %second) #29
  %first = getelementptr inbounds %"struct.std::pair.5", %"struct.std::pair.5"* %this, i64 0, i32 0
  call void @_ZNSt7__cxx1112basic_stringIcSt11char_traitsIcESaIcEED2Ev(%"class.std::__cxx11::basic_string"* noundef nonnull align 8 dereferenceable(32) %first) #29
  ret void
}

; Function Attrs: mustprogress nounwind uwtable
define dso_local void @_ZN8Pistache4Http4Mime9MediaType10setQualityENS1_1QE(%"class.Pistache::Http::Mime::MediaType"* noundef nonnull align 8 dereferenceable(140) %this, i16 %quality.coerce) local_unnamed_addr #15 align 2 {
entry:
  %quality = alloca %"class.Pistache::Http::Mime::Q", align 2
  %coerce.dive = getelementptr inbounds %"class.Pistache::Http::Mime::Q", %"class.Pistache::Http::Mime::Q"* %quality, i64 0, i32 0
  store i16 %quality.coerce, i16* %coerce.dive, align 2
  %q_ = getelementptr inbounds %"class.Pistache::Http::Mime::MediaType", %"class.Pistache::Http::Mime::MediaType"* %this, i64 0, i32 8
  %call = call noundef nonnull align 2 dereferenceable(4) %"class.std::optional"* @_ZNSt8optionalIN8Pistache4Http4Mime1QEEaSIRS3_EENSt9enable_ifIX7__and_vISt6__not_ISt7is_sameIS4_NSt9remove_cvINSt16remove_referenceIT_E4typeEE4typeEEES8_ISt6__and_IJSt9is_scalarIS3_ES9_IS3_NSt5decayISC_E4typeEEEEESt16is_constructibleIS3_JSC_EESt13is_assignableIS6_SC_EEERS4_E4typeEOSC_(%"class.std::optional"* noundef nonnull align 2 dereferenceable(4) %q_, %"class.Pistache::Http::Mime::Q"* noundef nonnull align 2 dereferenceable(2) %quality) #29
  ret void
}

; Function Attrs: mustprogress noinline nounwind uwtable
define linkonce_odr dso_local noundef nonnull align 2 dereferenceable(4) %"class.std::optional"* @_ZNSt8optionalIN8Pistache4Http4Mime1QEEaSIRS3_EENSt9enable_ifIX7__and_vISt6__not_ISt7is_sameIS4_NSt9remove_cvINSt16remove_referenceIT_E4typeEE4typeEEES8_ISt6__and_IJSt9is_scalarIS3_ES9_IS3_NSt5decayISC_E4typeEEEEESt16is_constructibleIS3_JSC_EESt13is_assignableIS6_SC_EEERS4_E4typeEOSC_(%"class.std::optional"* noundef nonnull align 2 dereferenceable(4) %this, %"class.Pistache::Http::Mime::Q"* noundef nonnull align 2 dereferenceable(2) %__u) local_unnamed_addr #8 comdat align 2 {
entry:
  %0 = bitcast %"class.std::optional"* %this to %"class.std::_Optional_base_impl"*
  %call = call noundef zeroext i1 @_ZNKSt19_Optional_base_implIN8Pistache4Http4Mime1QESt14_Optional_baseIS3_Lb1ELb1EEE13_M_is_engagedEv(%"class.std::_Optional_base_impl"* noundef nonnull align 1 dereferenceable(1) %0) #29
  br i1 %call, label %if.then, label %if.else

if.then:                                          ; preds = %entry
  %call3 = call noundef nonnull align 2 dereferenceable(2) %"class.Pistache::Http::Mime::Q"* @_ZNSt19_Optional_base_implIN8Pistache4Http4Mime1QESt14_Optional_baseIS3_Lb1ELb1EEE6_M_getEv(%"class.std::_Optional_base_impl"* noundef nonnull align 1 dereferenceable(1) %0) #29
  %1 = getelementptr inbounds %"class.Pistache::Http::Mime::Q", %"class.Pistache::Http::Mime::Q"* %__u, i64 0, i32 0
  %2 = getelementptr inbounds %"class.Pistache::Http::Mime::Q", %"class.Pistache::Http::Mime::Q"* %call3, i64 0, i32 0
  %3 = load i16, i16* %1, align 2, !tbaa !67
  store i16 %3, i16* %2, align 2, !tbaa !67
  br label %if.end

if.else:                                          ; preds = %entry
  call void @_ZNSt19_Optional_base_implIN8Pistache4Http4Mime1QESt14_Optional_baseIS3_Lb1ELb1EEE12_M_constructIJRS3_EEEvDpOT_(%"class.std::_Optional_base_impl"* noundef nonnull align 1 dereferenceable(1) %0, %"class.Pistache::Http::Mime::Q"* noundef nonnull align 2 dereferenceable(2) %__u) #29
  br label %if.end

if.end:                                           ; preds = %if.else, %if.then
  ret %"class.std::optional"* %this
}

; Function Attrs: mustprogress uwtable
define dso_local void @_ZNK8Pistache4Http4Mime9MediaType8getParamERKNSt7__cxx1112basic_stringIcSt11char_traitsIcESaIcEEE(%"class.std::optional.8"* noalias sret(%"class.std::optional.8") align 8 %agg.result, %"class.Pistache::Http::Mime::MediaType"* noundef nonnull align 8 dereferenceable(140) %this, %"class.std::__cxx11::basic_string"* noundef nonnull align 8 dereferenceable(32) %name) local_unnamed_addr #16 align 2 {
entry:
  %it = alloca %"struct.std::__detail::_Node_const_iterator", align 8
  %ref.tmp = alloca %"struct.std::__detail::_Node_const_iterator", align 8
  %0 = bitcast %"struct.std::__detail::_Node_const_iterator"* %it to i8*
  call void @llvm.lifetime.start.p0i8(i64 8, i8* nonnull %0) #29
  %params = getelementptr inbounds %"class.Pistache::Http::Mime::MediaType", %"class.Pistache::Http::Mime::MediaType"* %this, i64 0, i32 7
  %call = call %"struct.std::__detail::_Hash_node"* @_ZNKSt13unordered_mapINSt7__cxx1112basic_stringIcSt11char_traitsIcESaIcEEES5_St4hashIS5_ESt8equal_toIS5_ESaISt4pairIKS5_S5_EEE4findERSB_(%"class.std::unordered_map"* noundef nonnull align 8 dereferenceable(56) %params, %"class.std::__cxx11::basic_string"* noundef nonnull align 8 dereferenceable(32) %name)
  %coerce.dive2 = getelementptr inbounds %"struct.std::__detail::_Node_const_iterator", %"struct.std::__detail::_Node_const_iterator"* %it, i64 0, i32 0, i32 0
  store %"struct.std::__detail::_Hash_node"* %call, %"struct.std::__detail::_Hash_node"** %coerce.dive2, align 8
  %1 = getelementptr inbounds %"struct.std::__detail::_Node_const_iterator", %"struct.std::__detail::_Node_const_iterator"* %it, i64 0, i32 0
  %2 = bitcast %"struct.std::__detail::_Node_const_iterator"* %ref.tmp to i8*
  call void @llvm.lifetime.start.p0i8(i64 8, i8* nonnull %2) #29
  %call4 = call %"struct.std::__detail::_Hash_node"* @_ZSt3endISt13unordered_mapINSt7__cxx1112basic_stringIcSt11char_traitsIcESaIcEEES6_St4hashIS6_ESt8equal_toIS6_ESaISt4pairIKS6_S6_EEEEDTcldtfp_3endEERKT_(%"class.std::unordered_map"* noundef nonnull align 8 dereferenceable(56) %params)
  %coerce.dive6 = getelementptr inbounds %"struct.std::__detail::_Node_const_iterator", %"struct.std::__detail::_Node_const_iterator"* %ref.tmp, i64 0, i32 0, i32 0
  store %"struct.std::__detail::_Hash_node"* %call4, %"struct.std::__detail::_Hash_node"** %coerce.dive6, align 8
  %3 = getelementptr inbounds %"struct.std::__detail::_Node_const_iterator", %"struct.std::__detail::_Node_const_iterator"* %ref.tmp, i64 0, i32 0
  %call7 = call noundef zeroext i1 @_ZNSt8__detaileqERKNS_19_Node_iterator_baseISt4pairIKNSt7__cxx1112basic_stringIcSt11char_traitsIcESaIcEEES7_ELb1EEESC_(%"struct.std::__detail::_Node_iterator_base"* noundef nonnull align 8 dereferenceable(8) %1, %"struct.std::__detail::_Node_iterator_base"* noundef nonnull align 8 dereferenceable(8) %3) #29
  call void @llvm.lifetime.end.p0i8(i64 8, i8* nonnull %2) #29
  br i1 %call7, label %if.then, label %if.end

if.then:                                          ; preds = %entry
  call void @_ZNSt8optionalINSt7__cxx1112basic_stringIcSt11char_traitsIcESaIcEEEEC2ESt9nullopt_t(%"class.std::optional.8"* noundef nonnull align 8 dereferenceable(40) %agg.result) #29
  br label %cleanup

if.end:                                           ; preds = %entry
  %call8 = call noundef %"struct.std::pair.18"* @_ZNKSt8__detail20_Node_const_iteratorISt4pairIKNSt7__cxx1112basic_stringIcSt11char_traitsIcESaIcEEES7_ELb0ELb1EEptEv(%"struct.std::__detail::_Node_const_iterator"* noundef nonnull align 8 dereferenceable(8) %it) #29
  %second = getelementptr inbounds %"struct.std::pair.18", %"struct.std::pair.18"* %call8, i64 0, i32 1
  call void @_ZNSt8optionalINSt7__cxx1112basic_stringIcSt11char_traitsIcESaIcEEEEC2IRKS5_Lb1EEEOT_(%"class.std::optional.8"* noundef nonnull align 8 dereferenceable(40) %agg.result, %"class.std::__cxx11::basic_string"* noundef nonnull align 8 dereferenceable(32) %second)
  br label %cleanup

cleanup:                                          ; preds = %if.end, %if.then
  call void @llvm.lifetime.end.p0i8(i64 8, i8* nonnull %0) #29
  ret void
}

; Function Attrs: mustprogress noinline uwtable
define linkonce_odr dso_local %"struct.std::__detail::_Hash_node"* @_ZNKSt13unordered_mapINSt7__cxx1112basic_stringIcSt11char_traitsIcESaIcEEES5_St4hashIS5_ESt8equal_toIS5_ESaISt4pairIKS5_S5_EEE4findERSB_(%"class.std::unordered_map"* noundef nonnull align 8 dereferenceable(56) %this, %"class.std::__cxx11::basic_string"* noundef nonnull align 8 dereferenceable(32) %__x) local_unnamed_addr #13 comdat align 2 {
entry:
  %_M_h = getelementptr inbounds %"class.std::unordered_map", %"class.std::unordered_map"* %this, i64 0, i32 0
  %call = call %"struct.std::__detail::_Hash_node"* @_ZNKSt10_HashtableINSt7__cxx1112basic_stringIcSt11char_traitsIcESaIcEEESt4pairIKS5_S5_ESaIS8_ENSt8__detail10_Select1stESt8equal_toIS5_ESt4hashIS5_ENSA_18_Mod_range_hashingENSA_20_Default_ranged_hashENSA_20_Prime_rehash_policyENSA_17_Hashtable_traitsILb1ELb0ELb1EEEE4findERS7_(%"class.std::_Hashtable"* noundef nonnull align 8 dereferenceable(56) %_M_h, %"class.std::__cxx11::basic_string"* noundef nonnull align 8 dereferenceable(32) %__x)
  ret %"struct.std::__detail::_Hash_node"* %call
}

; Function Attrs: mustprogress noinline nounwind uwtable
define linkonce_odr dso_local noundef zeroext i1 @_ZNSt8__detaileqERKNS_19_Node_iterator_baseISt4pairIKNSt7__cxx1112basic_stringIcSt11char_traitsIcESaIcEEES7_ELb1EEESC_(%"struct.std::__detail::_Node_iterator_base"* noundef nonnull align 8 dereferenceable(8) %__x, %"struct.std::__detail::_Node_iterator_base"* noundef nonnull align 8 dereferenceable(8) %__y) local_unnamed_addr #8 comdat {
entry:
  %_M_cur = getelementptr inbounds %"struct.std::__detail::_Node_iterator_base", %"struct.std::__detail::_Node_iterator_base"* %__x, i64 0, i32 0
  %0 = load %"struct.std::__detail::_Hash_node"*, %"struct.std::__detail::_Hash_node"** %_M_cur, align 8, !tbaa !68
  %_M_cur1 = getelementptr inbounds %"struct.std::__detail::_Node_iterator_base", %"struct.std::__detail::_Node_iterator_base"* %__y, i64 0, i32 0
  %1 = load %"struct.std::__detail::_Hash_node"*, %"struct.std::__detail::_Hash_node"** %_M_cur1, align 8, !tbaa !68
  %cmp = icmp eq %"struct.std::__detail::_Hash_node"* %0, %1
  ret i1 %cmp
}

; Function Attrs: inlinehint mustprogress noinline nounwind uwtable
define linkonce_odr dso_local %"struct.std::__detail::_Hash_node"* @_ZSt3endISt13unordered_mapINSt7__cxx1112basic_stringIcSt11char_traitsIcESaIcEEES6_St4hashIS6_ESt8equal_toIS6_ESaISt4pairIKS6_S6_EEEEDTcldtfp_3endEERKT_(%"class.std::unordered_map"* noundef nonnull align 8 dereferenceable(56) %__cont) local_unnamed_addr #17 comdat {
entry:
  %call = call %"struct.std::__detail::_Hash_node"* @_ZNKSt13unordered_mapINSt7__cxx1112basic_stringIcSt11char_traitsIcESaIcEEES5_St4hashIS5_ESt8equal_toIS5_ESaISt4pairIKS5_S5_EEE3endEv(%"class.std::unordered_map"* noundef nonnull align 8 dereferenceable(56) %__cont) #29
  ret %"struct.std::__detail::_Hash_node"* %call
}

; Function Attrs: noinline nounwind uwtable
define linkonce_odr dso_local void @_ZNSt8optionalINSt7__cxx1112basic_stringIcSt11char_traitsIcESaIcEEEEC2ESt9nullopt_t(%"class.std::optional.8"* noundef nonnull align 8 dereferenceable(40) %this) unnamed_addr #11 comdat align 2 {
entry:
  %0 = getelementptr inbounds %"class.std::optional.8", %"class.std::optional.8"* %this, i64 0, i32 0
  call void @_ZNSt14_Optional_baseINSt7__cxx1112basic_stringIcSt11char_traitsIcESaIcEEELb0ELb0EEC2Ev(%"struct.std::_Optional_base.9"* noundef nonnull align 8 dereferenceable(40) %0) #29
  ret void
}

; Function Attrs: mustprogress noinline nounwind uwtable
define linkonce_odr dso_local noundef %"struct.std::pair.18"* @_ZNKSt8__detail20_Node_const_iteratorISt4pairIKNSt7__cxx1112basic_stringIcSt11char_traitsIcESaIcEEES7_ELb0ELb1EEptEv(%"struct.std::__detail::_Node_const_iterator"* noundef nonnull align 8 dereferenceable(8) %this) local_unnamed_addr #8 comdat align 2 {
entry:
  %0 = bitcast %"struct.std::__detail::_Node_const_iterator"* %this to i8**
  %1 = load i8*, i8** %0, align 8, !tbaa !68
  %add.ptr = getelementptr inbounds i8, i8* %1, i64 8
  %2 = bitcast i8* %add.ptr to %"struct.std::__detail::_Hash_node_value_base"*
  %call = call noundef %"struct.std::pair.18"* @_ZNSt8__detail21_Hash_node_value_baseISt4pairIKNSt7__cxx1112basic_stringIcSt11char_traitsIcESaIcEEES7_EE9_M_valptrEv(%"struct.std::__detail::_Hash_node_value_base"* noundef nonnull align 8 dereferenceable(64) %2) #29
  ret %"struct.std::pair.18"* %call
}

; Function Attrs: noinline uwtable
define linkonce_odr dso_local void @_ZNSt8optionalINSt7__cxx1112basic_stringIcSt11char_traitsIcESaIcEEEEC2IRKS5_Lb1EEEOT_(%"class.std::optional.8"* noundef nonnull align 8 dereferenceable(40) %this, %"class.std::__cxx11::basic_string"* noundef nonnull align 8 dereferenceable(32) %__t) unnamed_addr #5 comdat align 2 {
entry:
  %0 = getelementptr inbounds %"class.std::optional.8", %"class.std::optional.8"* %this, i64 0, i32 0
  call void @_ZNSt14_Optional_baseINSt7__cxx1112basic_stringIcSt11char_traitsIcESaIcEEELb0ELb0EEC2IJRKS5_ELb0EEESt10in_place_tDpOT_(%"struct.std::_Optional_base.9"* noundef nonnull align 8 dereferenceable(40) %0, %"class.std::__cxx11::basic_string"* noundef nonnull align 8 dereferenceable(32) %__t)
  ret void
}

; Function Attrs: mustprogress uwtable
define dso_local void @_ZN8Pistache4Http4Mime9MediaType8setParamERKNSt7__cxx1112basic_stringIcSt11char_traitsIcESaIcEEES8_(%"class.Pistache::Http::Mime::MediaType"* noundef nonnull align 8 dereferenceable(140) %this, %"class.std::__cxx11::basic_string"* noundef nonnull align 8 dereferenceable(32) %name, %"class.std::__cxx11::basic_string"* noundef %value) local_unnamed_addr #16 align 2 {
entry:
  %params = getelementptr inbounds %"class.Pistache::Http::Mime::MediaType", %"class.Pistache::Http::Mime::MediaType"* %this, i64 0, i32 7
  %call2 = call noundef nonnull align 8 dereferenceable(32) %"class.std::__cxx11::basic_string"* @_ZNSt13unordered_mapINSt7__cxx1112basic_stringIcSt11char_traitsIcESaIcEEES5_St4hashIS5_ESt8equal_toIS5_ESaISt4pairIKS5_S5_EEEixERSB_(%"class.std::unordered_map"* noundef nonnull align 8 dereferenceable(56) %params, %"class.std::__cxx11::basic_string"* noundef nonnull align 8 dereferenceable(32) %name)
  %call3 = call noundef nonnull align 8 dereferenceable(32) %"class.std::__cxx11::basic_string"* @_ZNSt7__cxx1112basic_stringIcSt11char_traitsIcESaIcEEaSEOS4_(%"class.std::__cxx11::basic_string"* noundef nonnull align 8 dereferenceable(32) %call2, %"class.std::__cxx11::basic_string"* noundef nonnull align 8 dereferenceable(32) %value) #29
  ret void
}

; Function Attrs: mustprogress noinline uwtable
define linkonce_odr dso_local noundef nonnull align 8 dereferenceable(32) %"class.std::__cxx11::basic_string"* @_ZNSt13unordered_mapINSt7__cxx1112basic_stringIcSt11char_traitsIcESaIcEEES5_St4hashIS5_ESt8equal_toIS5_ESaISt4pairIKS5_S5_EEEixERSB_(%"class.std::unordered_map"* noundef nonnull align 8 dereferenceable(56) %this, %"class.std::__cxx11::basic_string"* noundef nonnull align 8 dereferenceable(32) %__k) local_unnamed_addr #13 comdat align 2 {
entry:
  %0 = bitcast %"class.std::unordered_map"* %this to %"struct.std::__detail::_Map_base"*
  %call = call noundef nonnull align 8 dereferenceable(32) %"class.std::__cxx11::basic_string"* @_ZNSt8__detail9_Map_baseINSt7__cxx1112basic_stringIcSt11char_traitsIcESaIcEEESt4pairIKS6_S6_ESaIS9_ENS_10_Select1stESt8equal_toIS6_ESt4hashIS6_ENS_18_Mod_range_hashingENS_20_Default_ranged_hashENS_20_Prime_rehash_policyENS_17_Hashtable_traitsILb1ELb0ELb1EEELb1EEixERS8_(%"struct.std::__detail::_Map_base"* noundef nonnull align 1 dereferenceable(1) %0, %"class.std::__cxx11::basic_string"* noundef nonnull align 8 dereferenceable(32) %__k)
  ret %"class.std::__cxx11::basic_string"* %call
}

; Function Attrs: mustprogress uwtable
define dso_local void @_ZNK8Pistache4Http4Mime9MediaType8toStringB5cxx11Ev(%"class.std::__cxx11::basic_string"* noalias sret(%"class.std::__cxx11::basic_string") align 8 %agg.result, %"class.Pistache::Http::Mime::MediaType"* noundef nonnull align 8 dereferenceable(140) %this) local_unnamed_addr #16 align 2 personality i8* bitcast (i32 (...)* @__gxx_personality_v0 to i8*) {
entry:
  %res = alloca %"class.std::__cxx11::basic_string", align 8
  %quality = alloca %"class.Pistache::Http::Mime::Q", align 2
  %ref.tmp = alloca %"class.std::__cxx11::basic_string", align 8
  %__begin2 = alloca %"struct.std::__detail::_Node_const_iterator", align 8
  %__end2 = alloca %"struct.std::__detail::_Node_const_iterator", align 8
  %ref.tmp44 = alloca %"class.std::__cxx11::basic_string", align 8
  %ref.tmp45 = alloca %"class.std::__cxx11::basic_string", align 8
  %raw_ = getelementptr inbounds %"class.Pistache::Http::Mime::MediaType", %"class.Pistache::Http::Mime::MediaType"* %this, i64 0, i32 4
  %call = call noundef zeroext i1 @_ZNKSt7__cxx1112basic_stringIcSt11char_traitsIcESaIcEE5emptyEv(%"class.std::__cxx11::basic_string"* noundef nonnull align 8 dereferenceable(32) %raw_) #29
  br i1 %call, label %if.end, label %if.then

if.then:                                          ; preds = %entry
  call void @_ZNSt7__cxx1112basic_stringIcSt11char_traitsIcESaIcEEC2ERKS4_(%"class.std::__cxx11::basic_string"* noundef nonnull align 8 dereferenceable(32) %agg.result, %"class.std::__cxx11::basic_string"* noundef nonnull align 8 dereferenceable(32) %raw_)
  br label %return

if.end:                                           ; preds = %entry
  %0 = bitcast %"class.std::__cxx11::basic_string"* %res to i8*
  call void @llvm.lifetime.start.p0i8(i64 32, i8* nonnull %0) #29
  call void @_ZNSt7__cxx1112basic_stringIcSt11char_traitsIcESaIcEEC2Ev(%"class.std::__cxx11::basic_string"* noundef nonnull align 8 dereferenceable(32) %res) #29
  invoke void @_ZNSt7__cxx1112basic_stringIcSt11char_traitsIcESaIcEE7reserveEm(%"class.std::__cxx11::basic_string"* noundef nonnull align 8 dereferenceable(32) %res, i64 noundef 128)
          to label %invoke.cont unwind label %lpad

invoke.cont:                                      ; preds = %if.end
  %top_ = getelementptr inbounds %"class.Pistache::Http::Mime::MediaType", %"class.Pistache::Http::Mime::MediaType"* %this, i64 0, i32 0
  %1 = load i32, i32* %top_, align 8, !tbaa !10
  %2 = icmp ult i32 %1, 8
  br i1 %2, label %switch.lookup, label %"_ZZNK8Pistache4Http4Mime9MediaType8toStringB5cxx11EvENK3$_1clENS1_4TypeE.exit"

switch.lookup:                                    ; preds = %invoke.cont
  %3 = sext i32 %1 to i64
  %switch.gep = getelementptr inbounds [8 x i8*], [8 x i8*]* @switch.table._ZNK8Pistache4Http4Mime9MediaType8toStringB5cxx11Ev, i64 0, i64 %3
  %switch.load = load i8*, i8** %switch.gep, align 8
  br label %"_ZZNK8Pistache4Http4Mime9MediaType8toStringB5cxx11EvENK3$_1clENS1_4TypeE.exit"

"_ZZNK8Pistache4Http4Mime9MediaType8toStringB5cxx11EvENK3$_1clENS1_4TypeE.exit": ; preds = %invoke.cont, %switch.lookup
  %retval.0.i = phi i8* [ %switch.load, %switch.lookup ], [ getelementptr inbounds ([1 x i8], [1 x i8]* @.str.50, i64 0, i64 0), %invoke.cont ]
  %call6 = invoke noundef nonnull align 8 dereferenceable(32) %"class.std::__cxx11::basic_string"* @_ZNSt7__cxx1112basic_stringIcSt11char_traitsIcESaIcEEpLEPKc(%"class.std::__cxx11::basic_string"* noundef nonnull align 8 dereferenceable(32) %res, i8* noundef %retval.0.i)
          to label %invoke.cont5 unwind label %lpad

invoke.cont5:                                     ; preds = %"_ZZNK8Pistache4Http4Mime9MediaType8toStringB5cxx11EvENK3$_1clENS1_4TypeE.exit"
  %call8 = invoke noundef nonnull align 8 dereferenceable(32) %"class.std::__cxx11::basic_string"* @_ZNSt7__cxx1112basic_stringIcSt11char_traitsIcESaIcEEpLEPKc(%"class.std::__cxx11::basic_string"* noundef nonnull align 8 dereferenceable(32) %res, i8* noundef getelementptr inbounds ([2 x i8], [2 x i8]* @.str.46, i64 0, i64 0))
          to label %invoke.cont7 unwind label %lpad

invoke.cont7:                                     ; preds = %invoke.cont5
  %sub_ = getelementptr inbounds %"class.Pistache::Http::Mime::MediaType", %"class.Pistache::Http::Mime::MediaType"* %this, i64 0, i32 1
  %4 = load i32, i32* %sub_, align 4, !tbaa !29
  %5 = icmp ult i32 %4, 17
  br i1 %5, label %switch.lookup37, label %"_ZZNK8Pistache4Http4Mime9MediaType8toStringB5cxx11EvENK3$_2clENS1_7SubtypeE.exit"

switch.lookup37:                                  ; preds = %invoke.cont7
  %6 = sext i32 %4 to i64
  %switch.gep38 = getelementptr inbounds [17 x i8*], [17 x i8*]* @switch.table._ZNK8Pistache4Http4Mime9MediaType8toStringB5cxx11Ev.1, i64 0, i64 %6
  %switch.load39 = load i8*, i8** %switch.gep38, align 8
  br label %"_ZZNK8Pistache4Http4Mime9MediaType8toStringB5cxx11EvENK3$_2clENS1_7SubtypeE.exit"

"_ZZNK8Pistache4Http4Mime9MediaType8toStringB5cxx11EvENK3$_2clENS1_7SubtypeE.exit": ; preds = %invoke.cont7, %switch.lookup37
  %retval.0.i22 = phi i8* [ %switch.load39, %switch.lookup37 ], [ getelementptr inbounds ([1 x i8], [1 x i8]* @.str.50, i64 0, i64 0), %invoke.cont7 ]
  %call12 = invoke noundef nonnull align 8 dereferenceable(32) %"class.std::__cxx11::basic_string"* @_ZNSt7__cxx1112basic_stringIcSt11char_traitsIcESaIcEEpLEPKc(%"class.std::__cxx11::basic_string"* noundef nonnull align 8 dereferenceable(32) %res, i8* noundef %retval.0.i22)
          to label %invoke.cont11 unwind label %lpad

invoke.cont11:                                    ; preds = %"_ZZNK8Pistache4Http4Mime9MediaType8toStringB5cxx11EvENK3$_2clENS1_7SubtypeE.exit"
  %suffix_ = getelementptr inbounds %"class.Pistache::Http::Mime::MediaType", %"class.Pistache::Http::Mime::MediaType"* %this, i64 0, i32 2
  %7 = load i32, i32* %suffix_, align 8, !tbaa !30
  switch i32 %7, label %sw.default.i29 [
    i32 7, label %if.end19
    i32 0, label %"_ZZNK8Pistache4Http4Mime9MediaType8toStringB5cxx11EvENK3$_3clENS1_6SuffixE.exit"
    i32 1, label %sw.bb2.i23
    i32 2, label %sw.bb3.i24
    i32 3, label %sw.bb4.i25
    i32 4, label %sw.bb5.i26
    i32 5, label %sw.bb6.i27
    i32 6, label %sw.bb7.i28
  ]

sw.bb2.i23:                                       ; preds = %invoke.cont11
  br label %"_ZZNK8Pistache4Http4Mime9MediaType8toStringB5cxx11EvENK3$_3clENS1_6SuffixE.exit"

sw.bb3.i24:                                       ; preds = %invoke.cont11
  br label %"_ZZNK8Pistache4Http4Mime9MediaType8toStringB5cxx11EvENK3$_3clENS1_6SuffixE.exit"

sw.bb4.i25:                                       ; preds = %invoke.cont11
  br label %"_ZZNK8Pistache4Http4Mime9MediaType8toStringB5cxx11EvENK3$_3clENS1_6SuffixE.exit"

sw.bb5.i26:                                       ; preds = %invoke.cont11
  br label %"_ZZNK8Pistache4Http4Mime9MediaType8toStringB5cxx11EvENK3$_3clENS1_6SuffixE.exit"

sw.bb6.i27:                                       ; preds = %invoke.cont11
  br label %"_ZZNK8Pistache4Http4Mime9MediaType8toStringB5cxx11EvENK3$_3clENS1_6SuffixE.exit"

sw.bb7.i28:                                       ; preds = %invoke.cont11
  br label %"_ZZNK8Pistache4Http4Mime9MediaType8toStringB5cxx11EvENK3$_3clENS1_6SuffixE.exit"

sw.default.i29:                                   ; preds = %invoke.cont11
  br label %"_ZZNK8Pistache4Http4Mime9MediaType8toStringB5cxx11EvENK3$_3clENS1_6SuffixE.exit"

"_ZZNK8Pistache4Http4Mime9MediaType8toStringB5cxx11EvENK3$_3clENS1_6SuffixE.exit": ; preds = %invoke.cont11, %sw.bb2.i23, %sw.bb3.i24, %sw.bb4.i25, %sw.bb5.i26, %sw.bb6.i27, %sw.bb7.i28, %sw.default.i29
  %retval.0.i30 = phi i8* [ getelementptr inbounds ([1 x i8], [1 x i8]* @.str.50, i64 0, i64 0), %sw.default.i29 ], [ getelementptr inbounds ([5 x i8], [5 x i8]* @.str.57, i64 0, i64 0), %sw.bb7.i28 ], [ getelementptr inbounds ([5 x i8], [5 x i8]* @.str.56, i64 0, i64 0), %sw.bb6.i27 ], [ getelementptr inbounds ([7 x i8], [7 x i8]* @.str.55, i64 0, i64 0), %sw.bb5.i26 ], [ getelementptr inbounds ([13 x i8], [13 x i8]* @.str.54, i64 0, i64 0), %sw.bb4.i25 ], [ getelementptr inbounds ([5 x i8], [5 x i8]* @.str.53, i64 0, i64 0), %sw.bb3.i24 ], [ getelementptr inbounds ([5 x i8], [5 x i8]* @.str.52, i64 0, i64 0), %sw.bb2.i23 ], [ getelementptr inbounds ([6 x i8], [6 x i8]* @.str.51, i64 0, i64 0), %invoke.cont11 ]
  %call18 = invoke noundef nonnull align 8 dereferenceable(32) %"class.std::__cxx11::basic_string"* @_ZNSt7__cxx1112basic_stringIcSt11char_traitsIcESaIcEEpLEPKc(%"class.std::__cxx11::basic_string"* noundef nonnull align 8 dereferenceable(32) %res, i8* noundef %retval.0.i30)
          to label %if.end19 unwind label %lpad

lpad:                                             ; preds = %"_ZZNK8Pistache4Http4Mime9MediaType8toStringB5cxx11EvENK3$_3clENS1_6SuffixE.exit", %"_ZZNK8Pistache4Http4Mime9MediaType8toStringB5cxx11EvENK3$_2clENS1_7SubtypeE.exit", %invoke.cont5, %"_ZZNK8Pistache4Http4Mime9MediaType8toStringB5cxx11EvENK3$_1clENS1_4TypeE.exit", %if.end
  %8 = landingpad { i8*, i32 }
          cleanup
  br label %ehcleanup62

if.end19:                                         ; preds = %invoke.cont11, %"_ZZNK8Pistache4Http4Mime9MediaType8toStringB5cxx11EvENK3$_3clENS1_6SuffixE.exit"
  %q_ = getelementptr inbounds %"class.Pistache::Http::Mime::MediaType", %"class.Pistache::Http::Mime::MediaType"* %this, i64 0, i32 8
  %call20 = call noundef zeroext i1 @_ZNKSt8optionalIN8Pistache4Http4Mime1QEE9has_valueEv(%"class.std::optional"* noundef nonnull align 2 dereferenceable(4) %q_) #29
  br i1 %call20, label %if.then21, label %if.end33

if.then21:                                        ; preds = %if.end19
  %9 = bitcast %"class.Pistache::Http::Mime::Q"* %quality to i8*
  call void @llvm.lifetime.start.p0i8(i64 2, i8* nonnull %9) #29
  %10 = bitcast %"class.std::optional"* %q_ to %"class.std::_Optional_base_impl"*
  %call.i = call noundef nonnull align 2 dereferenceable(2) %"class.Pistache::Http::Mime::Q"* @_ZNKSt19_Optional_base_implIN8Pistache4Http4Mime1QESt14_Optional_baseIS3_Lb1ELb1EEE6_M_getEv(%"class.std::_Optional_base_impl"* noundef nonnull align 1 dereferenceable(1) %10) #29
  %11 = getelementptr inbounds %"class.Pistache::Http::Mime::Q", %"class.Pistache::Http::Mime::Q"* %call.i, i64 0, i32 0
  %12 = getelementptr inbounds %"class.Pistache::Http::Mime::Q", %"class.Pistache::Http::Mime::Q"* %quality, i64 0, i32 0
  %13 = load i16, i16* %11, align 2, !tbaa !67
  store i16 %13, i16* %12, align 2, !tbaa !67
  %call26 = invoke noundef nonnull align 8 dereferenceable(32) %"class.std::__cxx11::basic_string"* @_ZNSt7__cxx1112basic_stringIcSt11char_traitsIcESaIcEEpLEPKc(%"class.std::__cxx11::basic_string"* noundef nonnull align 8 dereferenceable(32) %res, i8* noundef getelementptr inbounds ([3 x i8], [3 x i8]* @.str.47, i64 0, i64 0))
          to label %invoke.cont25 unwind label %lpad24

invoke.cont25:                                    ; preds = %if.then21
  %14 = bitcast %"class.std::__cxx11::basic_string"* %ref.tmp to i8*
  call void @llvm.lifetime.start.p0i8(i64 32, i8* nonnull %14) #29
  invoke void @_ZNK8Pistache4Http4Mime1Q8toStringB5cxx11Ev(%"class.std::__cxx11::basic_string"* nonnull sret(%"class.std::__cxx11::basic_string") align 8 %ref.tmp, %"class.Pistache::Http::Mime::Q"* noundef nonnull align 2 dereferenceable(2) %quality)
          to label %invoke.cont28 unwind label %lpad27

invoke.cont28:                                    ; preds = %invoke.cont25
  %call31 = invoke noundef nonnull align 8 dereferenceable(32) %"class.std::__cxx11::basic_string"* @_ZNSt7__cxx1112basic_stringIcSt11char_traitsIcESaIcEEpLERKS4_(%"class.std::__cxx11::basic_string"* noundef nonnull align 8 dereferenceable(32) %res, %"class.std::__cxx11::basic_string"* noundef nonnull align 8 dereferenceable(32) %ref.tmp)
          to label %invoke.cont30 unwind label %lpad29

invoke.cont30:                                    ; preds = %invoke.cont28
  call void @_ZNSt7__cxx1112basic_stringIcSt11char_traitsIcESaIcEED2Ev(%"class.std::__cxx11::basic_string"* noundef nonnull align 8 dereferenceable(32) %ref.tmp) #29
  call void @llvm.lifetime.end.p0i8(i64 32, i8* nonnull %14) #29
  call void @llvm.lifetime.end.p0i8(i64 2, i8* nonnull %9) #29
  br label %if.end33

lpad24:                                           ; preds = %if.then21
  %15 = landingpad { i8*, i32 }
          cleanup
  br label %ehcleanup32

lpad27:                                           ; preds = %invoke.cont25
  %16 = landingpad { i8*, i32 }
          cleanup
  br label %ehcleanup

lpad29:                                           ; preds = %invoke.cont28
  %17 = landingpad { i8*, i32 }
          cleanup
  call void @_ZNSt7__cxx1112basic_stringIcSt11char_traitsIcESaIcEED2Ev(%"class.std::__cxx11::basic_string"* noundef nonnull align 8 dereferenceable(32) %ref.tmp) #29
  br label %ehcleanup

ehcleanup:                                        ; preds = %lpad29, %lpad27
  %.pn10 = phi { i8*, i32 } [ %17, %lpad29 ], [ %16, %lpad27 ]
  call void @llvm.lifetime.end.p0i8(i64 32, i8* nonnull %14) #29
  br label %ehcleanup32

ehcleanup32:                                      ; preds = %ehcleanup, %lpad24
  %.pn10.pn = phi { i8*, i32 } [ %.pn10, %ehcleanup ], [ %15, %lpad24 ]
  call void @llvm.lifetime.end.p0i8(i64 2, i8* nonnull %9) #29
  br label %ehcleanup62

if.end33:                                         ; preds = %invoke.cont30, %if.end19
  %params = getelementptr inbounds %"class.Pistache::Http::Mime::MediaType", %"class.Pistache::Http::Mime::MediaType"* %this, i64 0, i32 7
  %18 = bitcast %"struct.std::__detail::_Node_const_iterator"* %__begin2 to i8*
  call void @llvm.lifetime.start.p0i8(i64 8, i8* nonnull %18) #29
  %call34 = call %"struct.std::__detail::_Hash_node"* @_ZNKSt13unordered_mapINSt7__cxx1112basic_stringIcSt11char_traitsIcESaIcEEES5_St4hashIS5_ESt8equal_toIS5_ESaISt4pairIKS5_S5_EEE5beginEv(%"class.std::unordered_map"* noundef nonnull align 8 dereferenceable(56) %params) #29
  %coerce.dive35 = getelementptr inbounds %"struct.std::__detail::_Node_const_iterator", %"struct.std::__detail::_Node_const_iterator"* %__begin2, i64 0, i32 0, i32 0
  store %"struct.std::__detail::_Hash_node"* %call34, %"struct.std::__detail::_Hash_node"** %coerce.dive35, align 8
  %19 = bitcast %"struct.std::__detail::_Node_const_iterator"* %__end2 to i8*
  call void @llvm.lifetime.start.p0i8(i64 8, i8* nonnull %19) #29
  %call36 = call %"struct.std::__detail::_Hash_node"* @_ZNKSt13unordered_mapINSt7__cxx1112basic_stringIcSt11char_traitsIcESaIcEEES5_St4hashIS5_ESt8equal_toIS5_ESaISt4pairIKS5_S5_EEE3endEv(%"class.std::unordered_map"* noundef nonnull align 8 dereferenceable(56) %params) #29
  %coerce.dive38 = getelementptr inbounds %"struct.std::__detail::_Node_const_iterator", %"struct.std::__detail::_Node_const_iterator"* %__end2, i64 0, i32 0, i32 0
  store %"struct.std::__detail::_Hash_node"* %call36, %"struct.std::__detail::_Hash_node"** %coerce.dive38, align 8
  %20 = getelementptr inbounds %"struct.std::__detail::_Node_const_iterator", %"struct.std::__detail::_Node_const_iterator"* %__begin2, i64 0, i32 0
  %21 = getelementptr inbounds %"struct.std::__detail::_Node_const_iterator", %"struct.std::__detail::_Node_const_iterator"* %__end2, i64 0, i32 0
  %call3936 = call noundef zeroext i1 @_ZNSt8__detailneERKNS_19_Node_iterator_baseISt4pairIKNSt7__cxx1112basic_stringIcSt11char_traitsIcESaIcEEES7_ELb1EEESC_(%"struct.std::__detail::_Node_iterator_base"* noundef nonnull align 8 dereferenceable(8) %20, %"struct.std::__detail::_Node_iterator_base"* noundef nonnull align 8 dereferenceable(8) %21) #29
  br i1 %call3936, label %for.body.lr.ph, label %for.cond.cleanup

for.body.lr.ph:                                   ; preds = %if.end33
  %22 = bitcast %"class.std::__cxx11::basic_string"* %ref.tmp44 to i8*
  %23 = bitcast %"class.std::__cxx11::basic_string"* %ref.tmp45 to i8*
  br label %for.body

for.cond.cleanup:                                 ; preds = %invoke.cont51, %if.end33
  call void @llvm.lifetime.end.p0i8(i64 8, i8* nonnull %19) #29
  call void @llvm.lifetime.end.p0i8(i64 8, i8* nonnull %18) #29
  call void @_ZNSt7__cxx1112basic_stringIcSt11char_traitsIcESaIcEEC2EOS4_(%"class.std::__cxx11::basic_string"* noundef nonnull align 8 dereferenceable(32) %agg.result, %"class.std::__cxx11::basic_string"* noundef nonnull align 8 dereferenceable(32) %res) #29
  call void @_ZNSt7__cxx1112basic_stringIcSt11char_traitsIcESaIcEED2Ev(%"class.std::__cxx11::basic_string"* noundef nonnull align 8 dereferenceable(32) %res) #29
  call void @llvm.lifetime.end.p0i8(i64 32, i8* nonnull %0) #29
  br label %return

for.body:                                         ; preds = %for.body.lr.ph, %invoke.cont51
  %call40 = call noundef nonnull align 8 dereferenceable(64) %"struct.std::pair.18"* @_ZNKSt8__detail20_Node_const_iteratorISt4pairIKNSt7__cxx1112basic_stringIcSt11char_traitsIcESaIcEEES7_ELb0ELb1EEdeEv(%"struct.std::__detail::_Node_const_iterator"* noundef nonnull align 8 dereferenceable(8) %__begin2) #29
  %call43 = invoke noundef nonnull align 8 dereferenceable(32) %"class.std::__cxx11::basic_string"* @_ZNSt7__cxx1112basic_stringIcSt11char_traitsIcESaIcEEpLEPKc(%"class.std::__cxx11::basic_string"* noundef nonnull align 8 dereferenceable(32) %res, i8* noundef getelementptr inbounds ([3 x i8], [3 x i8]* @.str.47, i64 0, i64 0))
          to label %invoke.cont42 unwind label %lpad41

invoke.cont42:                                    ; preds = %for.body
  call void @llvm.lifetime.start.p0i8(i64 32, i8* nonnull %22) #29
  call void @llvm.lifetime.start.p0i8(i64 32, i8* nonnull %23) #29
  %first = getelementptr inbounds %"struct.std::pair.18", %"struct.std::pair.18"* %call40, i64 0, i32 0
  invoke void @_ZStplIcSt11char_traitsIcESaIcEENSt7__cxx1112basic_stringIT_T0_T1_EERKS8_PKS5_(%"class.std::__cxx11::basic_string"* nonnull sret(%"class.std::__cxx11::basic_string") align 8 %ref.tmp45, %"class.std::__cxx11::basic_string"* noundef nonnull align 8 dereferenceable(32) %first, i8* noundef getelementptr inbounds ([2 x i8], [2 x i8]* @.str.48, i64 0, i64 0))
          to label %invoke.cont47 unwind label %lpad46

invoke.cont47:                                    ; preds = %invoke.cont42
  %second = getelementptr inbounds %"struct.std::pair.18", %"struct.std::pair.18"* %call40, i64 0, i32 1
  invoke void @_ZStplIcSt11char_traitsIcESaIcEENSt7__cxx1112basic_stringIT_T0_T1_EEOS8_RKS8_(%"class.std::__cxx11::basic_string"* nonnull sret(%"class.std::__cxx11::basic_string") align 8 %ref.tmp44, %"class.std::__cxx11::basic_string"* noundef nonnull align 8 dereferenceable(32) %ref.tmp45, %"class.std::__cxx11::basic_string"* noundef nonnull align 8 dereferenceable(32) %second)
          to label %invoke.cont49 unwind label %lpad48

invoke.cont49:                                    ; preds = %invoke.cont47
  %call52 = invoke noundef nonnull align 8 dereferenceable(32) %"class.std::__cxx11::basic_string"* @_ZNSt7__cxx1112basic_stringIcSt11char_traitsIcESaIcEEpLERKS4_(%"class.std::__cxx11::basic_string"* noundef nonnull align 8 dereferenceable(32) %res, %"class.std::__cxx11::basic_string"* noundef nonnull align 8 dereferenceable(32) %ref.tmp44)
          to label %invoke.cont51 unwind label %lpad50

invoke.cont51:                                    ; preds = %invoke.cont49
  call void @_ZNSt7__cxx1112basic_stringIcSt11char_traitsIcESaIcEED2Ev(%"class.std::__cxx11::basic_string"* noundef nonnull align 8 dereferenceable(32) %ref.tmp44) #29
  call void @_ZNSt7__cxx1112basic_stringIcSt11char_traitsIcESaIcEED2Ev(%"class.std::__cxx11::basic_string"* noundef nonnull align 8 dereferenceable(32) %ref.tmp45) #29
  call void @llvm.lifetime.end.p0i8(i64 32, i8* nonnull %23) #29
  call void @llvm.lifetime.end.p0i8(i64 32, i8* nonnull %22) #29
  %call58 = call noundef nonnull align 8 dereferenceable(8) %"struct.std::__detail::_Node_const_iterator"* @_ZNSt8__detail20_Node_const_iteratorISt4pairIKNSt7__cxx1112basic_stringIcSt11char_traitsIcESaIcEEES7_ELb0ELb1EEppEv(%"struct.std::__detail::_Node_const_iterator"* noundef nonnull align 8 dereferenceable(8) %__begin2) #29
  %call39 = call noundef zeroext i1 @_ZNSt8__detailneERKNS_19_Node_iterator_baseISt4pairIKNSt7__cxx1112basic_stringIcSt11char_traitsIcESaIcEEES7_ELb1EEESC_(%"struct.std::__detail::_Node_iterator_base"* noundef nonnull align 8 dereferenceable(8) %20, %"struct.std::__detail::_Node_iterator_base"* noundef nonnull align 8 dereferenceable(8) %21) #29
  br i1 %call39, label %for.body, label %for.cond.cleanup, !llvm.loop !70

lpad41:                                           ; preds = %for.body
  %24 = landingpad { i8*, i32 }
          cleanup
  br label %ehcleanup57

lpad46:                                           ; preds = %invoke.cont42
  %25 = landingpad { i8*, i32 }
          cleanup
  br label %ehcleanup55

lpad48:                                           ; preds = %invoke.cont47
  %26 = landingpad { i8*, i32 }
          cleanup
  br label %ehcleanup54

lpad50:                                           ; preds = %invoke.cont49
  %27 = landingpad { i8*, i32 }
          cleanup
  call void @_ZNSt7__cxx1112basic_stringIcSt11char_traitsIcESaIcEED2Ev(%"class.std::__cxx11::basic_string"* noundef nonnull align 8 dereferenceable(32) %ref.tmp44) #29
  br label %ehcleanup54

ehcleanup54:                                      ; preds = %lpad50, %lpad48
  %.pn = phi { i8*, i32 } [ %27, %lpad50 ], [ %26, %lpad48 ]
  call void @_ZNSt7__cxx1112basic_stringIcSt11char_traitsIcESaIcEED2Ev(%"class.std::__cxx11::basic_string"* noundef nonnull align 8 dereferenceable(32) %ref.tmp45) #29
  br label %ehcleanup55

ehcleanup55:                                      ; preds = %ehcleanup54, %lpad46
  %.pn.pn = phi { i8*, i32 } [ %.pn, %ehcleanup54 ], [ %25, %lpad46 ]
  %28 = bitcast %"class.std::__cxx11::basic_string"* %ref.tmp45 to i8*
  %29 = bitcast %"class.std::__cxx11::basic_string"* %ref.tmp44 to i8*
  call void @llvm.lifetime.end.p0i8(i64 32, i8* nonnull %28) #29
  call void @llvm.lifetime.end.p0i8(i64 32, i8* nonnull %29) #29
  br label %ehcleanup57

ehcleanup57:                                      ; preds = %ehcleanup55, %lpad41
  %.pn.pn.pn = phi { i8*, i32 } [ %.pn.pn, %ehcleanup55 ], [ %24, %lpad41 ]
  call void @llvm.lifetime.end.p0i8(i64 8, i8* nonnull %19) #29
  call void @llvm.lifetime.end.p0i8(i64 8, i8* nonnull %18) #29
  br label %ehcleanup62

ehcleanup62:                                      ; preds = %ehcleanup57, %ehcleanup32, %lpad
  %.pn.pn.pn.pn = phi { i8*, i32 } [ %.pn.pn.pn, %ehcleanup57 ], [ %.pn10.pn, %ehcleanup32 ], [ %8, %lpad ]
  call void @_ZNSt7__cxx1112basic_stringIcSt11char_traitsIcESaIcEED2Ev(%"class.std::__cxx11::basic_string"* noundef nonnull align 8 dereferenceable(32) %res) #29
  call void @llvm.lifetime.end.p0i8(i64 32, i8* nonnull %0) #29
  resume { i8*, i32 } %.pn.pn.pn.pn

return:                                           ; preds = %for.cond.cleanup, %if.then
  ret void
}

; Function Attrs: mustprogress noinline nounwind uwtable
define linkonce_odr noundef zeroext i1 @_ZNKSt7__cxx1112basic_stringIcSt11char_traitsIcESaIcEE5emptyEv(%"class.std::__cxx11::basic_string"* noundef nonnull align 8 dereferenceable(32) %this) local_unnamed_addr #8 align 2 {
entry:
  %call = call noundef i64 @_ZNKSt7__cxx1112basic_stringIcSt11char_traitsIcESaIcEE4sizeEv(%"class.std::__cxx11::basic_string"* noundef nonnull align 8 dereferenceable(32) %this) #29
  %cmp = icmp eq i64 %call, 0
  ret i1 %cmp
}

; Function Attrs: noinline uwtable
define linkonce_odr void @_ZNSt7__cxx1112basic_stringIcSt11char_traitsIcESaIcEEC2ERKS4_(%"class.std::__cxx11::basic_string"* noundef nonnull align 8 dereferenceable(32) %this, %"class.std::__cxx11::basic_string"* noundef nonnull align 8 dereferenceable(32) %__str) unnamed_addr #5 align 2 personality i8* bitcast (i32 (...)* @__gxx_personality_v0 to i8*) {
entry:
  %ref.tmp = alloca %"class.std::allocator", align 1
  %_M_dataplus = getelementptr inbounds %"class.std::__cxx11::basic_string", %"class.std::__cxx11::basic_string"* %this, i64 0, i32 0
  %call = call noundef i8* @_ZNSt7__cxx1112basic_stringIcSt11char_traitsIcESaIcEE13_M_local_dataEv(%"class.std::__cxx11::basic_string"* noundef nonnull align 8 dereferenceable(32) %this)
  %0 = getelementptr inbounds %"class.std::allocator", %"class.std::allocator"* %ref.tmp, i64 0, i32 0
  call void @llvm.lifetime.start.p0i8(i64 1, i8* nonnull %0) #29
  %call2 = call noundef nonnull align 1 dereferenceable(1) %"class.std::allocator"* @_ZNKSt7__cxx1112basic_stringIcSt11char_traitsIcESaIcEE16_M_get_allocatorEv(%"class.std::__cxx11::basic_string"* noundef nonnull align 8 dereferenceable(32) %__str)
  call void @_ZN9__gnu_cxx14__alloc_traitsISaIcEcE17_S_select_on_copyERKS1_(%"class.std::allocator"* nonnull sret(%"class.std::allocator") align 1 %ref.tmp, %"class.std::allocator"* noundef nonnull align 1 dereferenceable(1) %call2)
  call void @_ZNSt7__cxx1112basic_stringIcSt11char_traitsIcESaIcEE12_Alloc_hiderC2EPcOS3_(%"struct.std::__cxx11::basic_string<char>::_Alloc_hider"* noundef nonnull align 8 dereferenceable(8) %_M_dataplus, i8* noundef %call, %"class.std::allocator"* noundef nonnull align 1 dereferenceable(1) %ref.tmp)
  call void @llvm.lifetime.end.p0i8(i64 1, i8* nonnull %0) #29
  %call3 = call noundef i8* @_ZNKSt7__cxx1112basic_stringIcSt11char_traitsIcESaIcEE7_M_dataEv(%"class.std::__cxx11::basic_string"* noundef nonnull align 8 dereferenceable(32) %__str)
  %call4 = call noundef i8* @_ZNKSt7__cxx1112basic_stringIcSt11char_traitsIcESaIcEE7_M_dataEv(%"class.std::__cxx11::basic_string"* noundef nonnull align 8 dereferenceable(32) %__str)
  %call5 = call noundef i64 @_ZNKSt7__cxx1112basic_stringIcSt11char_traitsIcESaIcEE6lengthEv(%"class.std::__cxx11::basic_string"* noundef nonnull align 8 dereferenceable(32) %__str) #29
  %add.ptr = getelementptr inbounds i8, i8* %call4, i64 %call5
  call void @_ZNSt7__cxx1112basic_stringIcSt11char_traitsIcESaIcEE12_M_constructIPcEEvT_S7_St20forward_iterator_tag(%"class.std::__cxx11::basic_string"* noundef nonnull align 8 dereferenceable(32) %this, i8* noundef %call3, i8* noundef %add.ptr)
  ret void
}

; Function Attrs: noinline nounwind uwtable
define linkonce_odr void @_ZNSt7__cxx1112basic_stringIcSt11char_traitsIcESaIcEEC2Ev(%"class.std::__cxx11::basic_string"* noundef nonnull align 8 dereferenceable(32) %this) unnamed_addr #11 align 2 personality i8* bitcast (i32 (...)* @__gxx_personality_v0 to i8*) {
entry:
  %ref.tmp = alloca %"class.std::allocator", align 1
  %_M_dataplus = getelementptr inbounds %"class.std::__cxx11::basic_string", %"class.std::__cxx11::basic_string"* %this, i64 0, i32 0
  %call = call noundef i8* @_ZNSt7__cxx1112basic_stringIcSt11char_traitsIcESaIcEE13_M_local_dataEv(%"class.std::__cxx11::basic_string"* noundef nonnull align 8 dereferenceable(32) %this)
  %0 = getelementptr inbounds %"class.std::allocator", %"class.std::allocator"* %ref.tmp, i64 0, i32 0
  call void @llvm.lifetime.start.p0i8(i64 1, i8* nonnull %0) #29
  call void @_ZNSt7__cxx1112basic_stringIcSt11char_traitsIcESaIcEE12_Alloc_hiderC2EPcOS3_(%"struct.std::__cxx11::basic_string<char>::_Alloc_hider"* noundef nonnull align 8 dereferenceable(8) %_M_dataplus, i8* noundef %call, %"class.std::allocator"* noundef nonnull align 1 dereferenceable(1) %ref.tmp)
  call void @llvm.lifetime.end.p0i8(i64 1, i8* nonnull %0) #29
  %call.i = call noundef i8* @_ZNSt7__cxx1112basic_stringIcSt11char_traitsIcESaIcEE13_M_local_dataEv(%"class.std::__cxx11::basic_string"* noundef nonnull align 8 dereferenceable(32) %this) #29
  call void @_ZNSt7__cxx1112basic_stringIcSt11char_traitsIcESaIcEE13_M_set_lengthEm(%"class.std::__cxx11::basic_string"* noundef nonnull align 8 dereferenceable(32) %this, i64 noundef 0)
  ret void
}

declare void @_ZNSt7__cxx1112basic_stringIcSt11char_traitsIcESaIcEE7reserveEm(%"class.std::__cxx11::basic_string"* noundef nonnull align 8 dereferenceable(32), i64 noundef) local_unnamed_addr #0

; Function Attrs: mustprogress noinline uwtable
define linkonce_odr noundef nonnull align 8 dereferenceable(32) %"class.std::__cxx11::basic_string"* @_ZNSt7__cxx1112basic_stringIcSt11char_traitsIcESaIcEEpLEPKc(%"class.std::__cxx11::basic_string"* noundef nonnull align 8 dereferenceable(32) %this, i8* noundef %__s) local_unnamed_addr #13 align 2 {
entry:
  %call = call noundef nonnull align 8 dereferenceable(32) %"class.std::__cxx11::basic_string"* @_ZNSt7__cxx1112basic_stringIcSt11char_traitsIcESaIcEE6appendEPKc(%"class.std::__cxx11::basic_string"* noundef nonnull align 8 dereferenceable(32) %this, i8* noundef %__s)
  ret %"class.std::__cxx11::basic_string"* %call
}

; Function Attrs: mustprogress noinline nounwind uwtable
define linkonce_odr dso_local noundef zeroext i1 @_ZNKSt8optionalIN8Pistache4Http4Mime1QEE9has_valueEv(%"class.std::optional"* noundef nonnull align 2 dereferenceable(4) %this) local_unnamed_addr #8 comdat align 2 {
entry:
  %0 = bitcast %"class.std::optional"* %this to %"class.std::_Optional_base_impl"*
  %call = call noundef zeroext i1 @_ZNKSt19_Optional_base_implIN8Pistache4Http4Mime1QESt14_Optional_baseIS3_Lb1ELb1EEE13_M_is_engagedEv(%"class.std::_Optional_base_impl"* noundef nonnull align 1 dereferenceable(1) %0) #29
  ret i1 %call
}

; Function Attrs: argmemonly mustprogress nofree nounwind willreturn
declare void @llvm.memcpy.p0i8.p0i8.i64(i8* noalias nocapture writeonly, i8* noalias nocapture readonly, i64, i1 immarg) #18

; Function Attrs: mustprogress noinline uwtable
define linkonce_odr noundef nonnull align 8 dereferenceable(32) %"class.std::__cxx11::basic_string"* @_ZNSt7__cxx1112basic_stringIcSt11char_traitsIcESaIcEEpLERKS4_(%"class.std::__cxx11::basic_string"* noundef nonnull align 8 dereferenceable(32) %this, %"class.std::__cxx11::basic_string"* noundef nonnull align 8 dereferenceable(32) %__str) local_unnamed_addr #13 align 2 {
entry:
  %call = call noundef nonnull align 8 dereferenceable(32) %"class.std::__cxx11::basic_string"* @_ZNSt7__cxx1112basic_stringIcSt11char_traitsIcESaIcEE6appendERKS4_(%"class.std::__cxx11::basic_string"* noundef nonnull align 8 dereferenceable(32) %this, %"class.std::__cxx11::basic_string"* noundef nonnull align 8 dereferenceable(32) %__str)
  ret %"class.std::__cxx11::basic_string"* %call
}

; Function Attrs: mustprogress noinline nounwind uwtable
define linkonce_odr dso_local %"struct.std::__detail::_Hash_node"* @_ZNKSt13unordered_mapINSt7__cxx1112basic_stringIcSt11char_traitsIcESaIcEEES5_St4hashIS5_ESt8equal_toIS5_ESaISt4pairIKS5_S5_EEE5beginEv(%"class.std::unordered_map"* noundef nonnull align 8 dereferenceable(56) %this) local_unnamed_addr #8 comdat align 2 {
entry:
  %_M_h = getelementptr inbounds %"class.std::unordered_map", %"class.std::unordered_map"* %this, i64 0, i32 0
  %call = call %"struct.std::__detail::_Hash_node"* @_ZNKSt10_HashtableINSt7__cxx1112basic_stringIcSt11char_traitsIcESaIcEEESt4pairIKS5_S5_ESaIS8_ENSt8__detail10_Select1stESt8equal_toIS5_ESt4hashIS5_ENSA_18_Mod_range_hashingENSA_20_Default_ranged_hashENSA_20_Prime_rehash_policyENSA_17_Hashtable_traitsILb1ELb0ELb1EEEE5beginEv(%"class.std::_Hashtable"* noundef nonnull align 8 dereferenceable(56) %_M_h) #29
  ret %"struct.std::__detail::_Hash_node"* %call
}

; Function Attrs: mustprogress noinline nounwind uwtable
define linkonce_odr dso_local %"struct.std::__detail::_Hash_node"* @_ZNKSt13unordered_mapINSt7__cxx1112basic_stringIcSt11char_traitsIcESaIcEEES5_St4hashIS5_ESt8equal_toIS5_ESaISt4pairIKS5_S5_EEE3endEv(%"class.std::unordered_map"* noundef nonnull align 8 dereferenceable(56) %this) local_unnamed_addr #8 comdat align 2 {
entry:
  %_M_h = getelementptr inbounds %"class.std::unordered_map", %"class.std::unordered_map"* %this, i64 0, i32 0
  %call = call %"struct.std::__detail::_Hash_node"* @_ZNKSt10_HashtableINSt7__cxx1112basic_stringIcSt11char_traitsIcESaIcEEESt4pairIKS5_S5_ESaIS8_ENSt8__detail10_Select1stESt8equal_toIS5_ESt4hashIS5_ENSA_18_Mod_range_hashingENSA_20_Default_ranged_hashENSA_20_Prime_rehash_policyENSA_17_Hashtable_traitsILb1ELb0ELb1EEEE3endEv(%"class.std::_Hashtable"* noundef nonnull align 8 dereferenceable(56) %_M_h) #29
  ret %"struct.std::__detail::_Hash_node"* %call
}

; Function Attrs: mustprogress noinline nounwind uwtable
define linkonce_odr dso_local noundef zeroext i1 @_ZNSt8__detailneERKNS_19_Node_iterator_baseISt4pairIKNSt7__cxx1112basic_stringIcSt11char_traitsIcESaIcEEES7_ELb1EEESC_(%"struct.std::__detail::_Node_iterator_base"* noundef nonnull align 8 dereferenceable(8) %__x, %"struct.std::__detail::_Node_iterator_base"* noundef nonnull align 8 dereferenceable(8) %__y) local_unnamed_addr #8 comdat {
entry:
  %_M_cur = getelementptr inbounds %"struct.std::__detail::_Node_iterator_base", %"struct.std::__detail::_Node_iterator_base"* %__x, i64 0, i32 0
  %0 = load %"struct.std::__detail::_Hash_node"*, %"struct.std::__detail::_Hash_node"** %_M_cur, align 8, !tbaa !68
  %_M_cur1 = getelementptr inbounds %"struct.std::__detail::_Node_iterator_base", %"struct.std::__detail::_Node_iterator_base"* %__y, i64 0, i32 0
  %1 = load %"struct.std::__detail::_Hash_node"*, %"struct.std::__detail::_Hash_node"** %_M_cur1, align 8, !tbaa !68
  %cmp = icmp ne %"struct.std::__detail::_Hash_node"* %0, %1
  ret i1 %cmp
}

; Function Attrs: mustprogress noinline nounwind uwtable
define linkonce_odr dso_local noundef nonnull align 8 dereferenceable(64) %"struct.std::pair.18"* @_ZNKSt8__detail20_Node_const_iteratorISt4pairIKNSt7__cxx1112basic_stringIcSt11char_traitsIcESaIcEEES7_ELb0ELb1EEdeEv(%"struct.std::__detail::_Node_const_iterator"* noundef nonnull align 8 dereferenceable(8) %this) local_unnamed_addr #8 comdat align 2 {
entry:
  %0 = bitcast %"struct.std::__detail::_Node_const_iterator"* %this to i8**
  %1 = load i8*, i8** %0, align 8, !tbaa !68
  %add.ptr = getelementptr inbounds i8, i8* %1, i64 8
  %2 = bitcast i8* %add.ptr to %"struct.std::__detail::_Hash_node_value_base"*
  %call = call noundef nonnull align 8 dereferenceable(64) %"struct.std::pair.18"* @_ZNSt8__detail21_Hash_node_value_baseISt4pairIKNSt7__cxx1112basic_stringIcSt11char_traitsIcESaIcEEES7_EE4_M_vEv(%"struct.std::__detail::_Hash_node_value_base"* noundef nonnull align 8 dereferenceable(64) %2) #29
  ret %"struct.std::pair.18"* %call
}

; Function Attrs: inlinehint mustprogress noinline uwtable
define linkonce_odr dso_local void @_ZStplIcSt11char_traitsIcESaIcEENSt7__cxx1112basic_stringIT_T0_T1_EEOS8_RKS8_(%"class.std::__cxx11::basic_string"* noalias sret(%"class.std::__cxx11::basic_string") align 8 %agg.result, %"class.std::__cxx11::basic_string"* noundef nonnull align 8 dereferenceable(32) %__lhs, %"class.std::__cxx11::basic_string"* noundef nonnull align 8 dereferenceable(32) %__rhs) local_unnamed_addr #19 comdat {
entry:
  %call = call noundef nonnull align 8 dereferenceable(32) %"class.std::__cxx11::basic_string"* @_ZNSt7__cxx1112basic_stringIcSt11char_traitsIcESaIcEE6appendERKS4_(%"class.std::__cxx11::basic_string"* noundef nonnull align 8 dereferenceable(32) %__lhs, %"class.std::__cxx11::basic_string"* noundef nonnull align 8 dereferenceable(32) %__rhs)
  call void @_ZNSt7__cxx1112basic_stringIcSt11char_traitsIcESaIcEEC2EOS4_(%"class.std::__cxx11::basic_string"* noundef nonnull align 8 dereferenceable(32) %agg.result, %"class.std::__cxx11::basic_string"* noundef nonnull align 8 dereferenceable(32) %call) #29
  ret void
}

; Function Attrs: inlinehint mustprogress noinline uwtable
define linkonce_odr dso_local void @_ZStplIcSt11char_traitsIcESaIcEENSt7__cxx1112basic_stringIT_T0_T1_EERKS8_PKS5_(%"class.std::__cxx11::basic_string"* noalias sret(%"class.std::__cxx11::basic_string") align 8 %agg.result, %"class.std::__cxx11::basic_string"* noundef nonnull align 8 dereferenceable(32) %__lhs, i8* noundef %__rhs) local_unnamed_addr #19 comdat personality i8* bitcast (i32 (...)* @__gxx_personality_v0 to i8*) {
entry:
  call void @_ZNSt7__cxx1112basic_stringIcSt11char_traitsIcESaIcEEC2ERKS4_(%"class.std::__cxx11::basic_string"* noundef nonnull align 8 dereferenceable(32) %agg.result, %"class.std::__cxx11::basic_string"* noundef nonnull align 8 dereferenceable(32) %__lhs)
  %call = invoke noundef nonnull align 8 dereferenceable(32) %"class.std::__cxx11::basic_string"* @_ZNSt7__cxx1112basic_stringIcSt11char_traitsIcESaIcEE6appendEPKc(%"class.std::__cxx11::basic_string"* noundef nonnull align 8 dereferenceable(32) %agg.result, i8* noundef %__rhs)
          to label %nrvo.skipdtor unwind label %lpad

lpad:                                             ; preds = %entry
  %0 = landingpad { i8*, i32 }
          cleanup
  call void @_ZNSt7__cxx1112basic_stringIcSt11char_traitsIcESaIcEED2Ev(%"class.std::__cxx11::basic_string"* noundef nonnull align 8 dereferenceable(32) %agg.result) #29
  resume { i8*, i32 } %0

nrvo.skipdtor:                                    ; preds = %entry
  ret void
}

; Function Attrs: mustprogress noinline nounwind uwtable
define linkonce_odr dso_local noundef nonnull align 8 dereferenceable(8) %"struct.std::__detail::_Node_const_iterator"* @_ZNSt8__detail20_Node_const_iteratorISt4pairIKNSt7__cxx1112basic_stringIcSt11char_traitsIcESaIcEEES7_ELb0ELb1EEppEv(%"struct.std::__detail::_Node_const_iterator"* noundef nonnull align 8 dereferenceable(8) %this) local_unnamed_addr #8 comdat align 2 {
entry:
  %0 = getelementptr inbounds %"struct.std::__detail::_Node_const_iterator", %"struct.std::__detail::_Node_const_iterator"* %this, i64 0, i32 0
  call void @_ZNSt8__detail19_Node_iterator_baseISt4pairIKNSt7__cxx1112basic_stringIcSt11char_traitsIcESaIcEEES7_ELb1EE7_M_incrEv(%"struct.std::__detail::_Node_iterator_base"* noundef nonnull align 8 dereferenceable(8) %0) #29
  ret %"struct.std::__detail::_Node_const_iterator"* %this
}

; Function Attrs: noinline nounwind uwtable
define linkonce_odr void @_ZNSt7__cxx1112basic_stringIcSt11char_traitsIcESaIcEEC2EOS4_(%"class.std::__cxx11::basic_string"* noundef nonnull align 8 dereferenceable(32) %this, %"class.std::__cxx11::basic_string"* noundef nonnull align 8 dereferenceable(32) %__str) unnamed_addr #11 align 2 personality i8* bitcast (i32 (...)* @__gxx_personality_v0 to i8*) {
entry:
  %_M_dataplus = getelementptr inbounds %"class.std::__cxx11::basic_string", %"class.std::__cxx11::basic_string"* %this, i64 0, i32 0
  %call = call noundef i8* @_ZNSt7__cxx1112basic_stringIcSt11char_traitsIcESaIcEE13_M_local_dataEv(%"class.std::__cxx11::basic_string"* noundef nonnull align 8 dereferenceable(32) %this)
  %call2 = call noundef nonnull align 1 dereferenceable(1) %"class.std::allocator"* @_ZNSt7__cxx1112basic_stringIcSt11char_traitsIcESaIcEE16_M_get_allocatorEv(%"class.std::__cxx11::basic_string"* noundef nonnull align 8 dereferenceable(32) %__str)
  call void @_ZNSt7__cxx1112basic_stringIcSt11char_traitsIcESaIcEE12_Alloc_hiderC2EPcOS3_(%"struct.std::__cxx11::basic_string<char>::_Alloc_hider"* noundef nonnull align 8 dereferenceable(8) %_M_dataplus, i8* noundef %call, %"class.std::allocator"* noundef nonnull align 1 dereferenceable(1) %call2)
  %call6 = invoke noundef zeroext i1 @_ZNKSt7__cxx1112basic_stringIcSt11char_traitsIcESaIcEE11_M_is_localEv(%"class.std::__cxx11::basic_string"* noundef nonnull align 8 dereferenceable(32) %__str)
          to label %invoke.cont5 unwind label %lpad

invoke.cont5:                                     ; preds = %entry
  br i1 %call6, label %if.then, label %if.else

if.then:                                          ; preds = %invoke.cont5
  %call9 = call noundef i64 @_ZNKSt7__cxx1112basic_stringIcSt11char_traitsIcESaIcEE6lengthEv(%"class.std::__cxx11::basic_string"* noundef nonnull align 8 dereferenceable(32) %__str) #29
  %add = add i64 %call9, 1
  %cmp.i = icmp eq i64 %add, 0
  br i1 %cmp.i, label %if.end, label %if.end.i

if.end.i:                                         ; preds = %if.then
  %0 = getelementptr inbounds %"class.std::__cxx11::basic_string", %"class.std::__cxx11::basic_string"* %__str, i64 0, i32 2
  %arraydecay8 = bitcast %union.anon* %0 to i8*
  %1 = getelementptr inbounds %"class.std::__cxx11::basic_string", %"class.std::__cxx11::basic_string"* %this, i64 0, i32 2
  %arraydecay = bitcast %union.anon* %1 to i8*
  call void @llvm.memcpy.p0i8.p0i8.i64(i8* nonnull align 8 %arraydecay, i8* nonnull align 8 %arraydecay8, i64 %add, i1 false) #29
  br label %if.end

lpad:                                             ; preds = %entry
  %2 = landingpad { i8*, i32 }
          catch i8* null
  %3 = extractvalue { i8*, i32 } %2, 0
  call void @__clang_call_terminate(i8* %3) #32
  unreachable

if.else:                                          ; preds = %invoke.cont5
  %call12 = call noundef i8* @_ZNKSt7__cxx1112basic_stringIcSt11char_traitsIcESaIcEE7_M_dataEv(%"class.std::__cxx11::basic_string"* noundef nonnull align 8 dereferenceable(32) %__str)
  call void @_ZNSt7__cxx1112basic_stringIcSt11char_traitsIcESaIcEE7_M_dataEPc(%"class.std::__cxx11::basic_string"* noundef nonnull align 8 dereferenceable(32) %this, i8* noundef %call12)
  %_M_allocated_capacity = getelementptr inbounds %"class.std::__cxx11::basic_string", %"class.std::__cxx11::basic_string"* %__str, i64 0, i32 2, i32 0
  %4 = load i64, i64* %_M_allocated_capacity, align 8, !tbaa !44
  call void @_ZNSt7__cxx1112basic_stringIcSt11char_traitsIcESaIcEE11_M_capacityEm(%"class.std::__cxx11::basic_string"* noundef nonnull align 8 dereferenceable(32) %this, i64 noundef %4)
  br label %if.end

if.end:                                           ; preds = %if.end.i, %if.then, %if.else
  %call15 = call noundef i64 @_ZNKSt7__cxx1112basic_stringIcSt11char_traitsIcESaIcEE6lengthEv(%"class.std::__cxx11::basic_string"* noundef nonnull align 8 dereferenceable(32) %__str) #29
  call void @_ZNSt7__cxx1112basic_stringIcSt11char_traitsIcESaIcEE9_M_lengthEm(%"class.std::__cxx11::basic_string"* noundef nonnull align 8 dereferenceable(32) %this, i64 noundef %call15)
  %call18 = call noundef i8* @_ZNSt7__cxx1112basic_stringIcSt11char_traitsIcESaIcEE13_M_local_dataEv(%"class.std::__cxx11::basic_string"* noundef nonnull align 8 dereferenceable(32) %__str)
  call void @_ZNSt7__cxx1112basic_stringIcSt11char_traitsIcESaIcEE7_M_dataEPc(%"class.std::__cxx11::basic_string"* noundef nonnull align 8 dereferenceable(32) %__str, i8* noundef %call18)
  call void @_ZNSt7__cxx1112basic_stringIcSt11char_traitsIcESaIcEE13_M_set_lengthEm(%"class.std::__cxx11::basic_string"* noundef nonnull align 8 dereferenceable(32) %__str, i64 noundef 0)
  ret void
}

; Function Attrs: mustprogress nofree norecurse nosync nounwind readonly uwtable willreturn
define dso_local noundef zeroext i1 @_ZNK8Pistache4Http4Mime9MediaType7isValidEv(%"class.Pistache::Http::Mime::MediaType"* nocapture noundef nonnull readonly align 8 dereferenceable(140) %this) local_unnamed_addr #20 align 2 {
entry:
  %top_ = getelementptr inbounds %"class.Pistache::Http::Mime::MediaType", %"class.Pistache::Http::Mime::MediaType"* %this, i64 0, i32 0
  %0 = load i32, i32* %top_, align 8, !tbaa !10
  %cmp.not = icmp ne i32 %0, 8
  %sub_ = getelementptr inbounds %"class.Pistache::Http::Mime::MediaType", %"class.Pistache::Http::Mime::MediaType"* %this, i64 0, i32 1
  %1 = load i32, i32* %sub_, align 4
  %cmp2 = icmp ne i32 %1, 19
  %2 = select i1 %cmp.not, i1 %cmp2, i1 false
  ret i1 %2
}

; Function Attrs: noinline nounwind uwtable
define linkonce_odr dso_local void @_ZNSt13unordered_mapINSt7__cxx1112basic_stringIcSt11char_traitsIcESaIcEEES5_St4hashIS5_ESt8equal_toIS5_ESaISt4pairIKS5_S5_EEEC2Ev(%"class.std::unordered_map"* noundef nonnull align 8 dereferenceable(56) %this) unnamed_addr #11 comdat align 2 {
entry:
  %_M_h = getelementptr inbounds %"class.std::unordered_map", %"class.std::unordered_map"* %this, i64 0, i32 0
  call void @_ZNSt10_HashtableINSt7__cxx1112basic_stringIcSt11char_traitsIcESaIcEEESt4pairIKS5_S5_ESaIS8_ENSt8__detail10_Select1stESt8equal_toIS5_ESt4hashIS5_ENSA_18_Mod_range_hashingENSA_20_Default_ranged_hashENSA_20_Prime_rehash_policyENSA_17_Hashtable_traitsILb1ELb0ELb1EEEEC2Ev(%"class.std::_Hashtable"* noundef nonnull align 8 dereferenceable(56) %_M_h) #29
  ret void
}

; Function Attrs: noinline nounwind uwtable
define linkonce_odr dso_local void @_ZNSt8optionalIN8Pistache4Http4Mime1QEEC2Ev(%"class.std::optional"* noundef nonnull align 2 dereferenceable(4) %this) unnamed_addr #11 comdat align 2 {
entry:
  %0 = getelementptr inbounds %"class.std::optional", %"class.std::optional"* %this, i64 0, i32 0
  call void @_ZNSt14_Optional_baseIN8Pistache4Http4Mime1QELb1ELb1EEC2Ev(%"struct.std::_Optional_base"* noundef nonnull align 2 dereferenceable(4) %0) #29
  ret void
}

; Function Attrs: noinline nounwind uwtable
define linkonce_odr dso_local void @_ZNSt10_HashtableINSt7__cxx1112basic_stringIcSt11char_traitsIcESaIcEEESt4pairIKS5_S5_ESaIS8_ENSt8__detail10_Select1stESt8equal_toIS5_ESt4hashIS5_ENSA_18_Mod_range_hashingENSA_20_Default_ranged_hashENSA_20_Prime_rehash_policyENSA_17_Hashtable_traitsILb1ELb0ELb1EEEEC2Ev(%"class.std::_Hashtable"* noundef nonnull align 8 dereferenceable(56) %this) unnamed_addr #11 comdat align 2 {
entry:
  %0 = bitcast %"class.std::_Hashtable"* %this to %"struct.std::__detail::_Hashtable_base"*
  call void @_ZNSt8__detail15_Hashtable_baseINSt7__cxx1112basic_stringIcSt11char_traitsIcESaIcEEESt4pairIKS6_S6_ENS_10_Select1stESt8equal_toIS6_ESt4hashIS6_ENS_18_Mod_range_hashingENS_20_Default_ranged_hashENS_17_Hashtable_traitsILb1ELb0ELb1EEEEC2Ev(%"struct.std::__detail::_Hashtable_base"* noundef nonnull align 1 dereferenceable(1) %0) #29
  %1 = bitcast %"class.std::_Hashtable"* %this to %"struct.std::__detail::_Hashtable_alloc"*
  call void @_ZNSt8__detail16_Hashtable_allocISaINS_10_Hash_nodeISt4pairIKNSt7__cxx1112basic_stringIcSt11char_traitsIcESaIcEEES8_ELb1EEEEEC2Ev(%"struct.std::__detail::_Hashtable_alloc"* noundef nonnull align 1 dereferenceable(1) %1) #29
  %_M_buckets = getelementptr inbounds %"class.std::_Hashtable", %"class.std::_Hashtable"* %this, i64 0, i32 0
  %_M_single_bucket = getelementptr inbounds %"class.std::_Hashtable", %"class.std::_Hashtable"* %this, i64 0, i32 5
  store %"struct.std::__detail::_Hash_node_base"** %_M_single_bucket, %"struct.std::__detail::_Hash_node_base"*** %_M_buckets, align 8, !tbaa !71
  %_M_bucket_count = getelementptr inbounds %"class.std::_Hashtable", %"class.std::_Hashtable"* %this, i64 0, i32 1
  store i64 1, i64* %_M_bucket_count, align 8, !tbaa !72
  %_M_before_begin = getelementptr inbounds %"class.std::_Hashtable", %"class.std::_Hashtable"* %this, i64 0, i32 2
  call void @_ZNSt8__detail15_Hash_node_baseC2Ev(%"struct.std::__detail::_Hash_node_base"* noundef nonnull align 8 dereferenceable(8) %_M_before_begin) #29
  %_M_element_count = getelementptr inbounds %"class.std::_Hashtable", %"class.std::_Hashtable"* %this, i64 0, i32 3
  store i64 0, i64* %_M_element_count, align 8, !tbaa !73
  %_M_rehash_policy = getelementptr inbounds %"class.std::_Hashtable", %"class.std::_Hashtable"* %this, i64 0, i32 4
  call void @_ZNSt8__detail20_Prime_rehash_policyC2Ef(%"struct.std::__detail::_Prime_rehash_policy"* noundef nonnull align 8 dereferenceable(16) %_M_rehash_policy, float noundef 1.000000e+00) #29
  store %"struct.std::__detail::_Hash_node_base"* null, %"struct.std::__detail::_Hash_node_base"** %_M_single_bucket, align 8, !tbaa !74
  ret void
}

; Function Attrs: noinline nounwind uwtable
define linkonce_odr dso_local void @_ZNSt8__detail15_Hashtable_baseINSt7__cxx1112basic_stringIcSt11char_traitsIcESaIcEEESt4pairIKS6_S6_ENS_10_Select1stESt8equal_toIS6_ESt4hashIS6_ENS_18_Mod_range_hashingENS_20_Default_ranged_hashENS_17_Hashtable_traitsILb1ELb0ELb1EEEEC2Ev(%"struct.std::__detail::_Hashtable_base"* noundef nonnull align 1 dereferenceable(1) %this) unnamed_addr #11 comdat align 2 {
entry:
  %0 = bitcast %"struct.std::__detail::_Hashtable_base"* %this to %"struct.std::__detail::_Hash_code_base"*
  call void @_ZNSt8__detail15_Hash_code_baseINSt7__cxx1112basic_stringIcSt11char_traitsIcESaIcEEESt4pairIKS6_S6_ENS_10_Select1stESt4hashIS6_ENS_18_Mod_range_hashingENS_20_Default_ranged_hashELb1EEC2Ev(%"struct.std::__detail::_Hash_code_base"* noundef nonnull align 1 dereferenceable(1) %0) #29
  %1 = bitcast %"struct.std::__detail::_Hashtable_base"* %this to %"struct.std::__detail::_Hashtable_ebo_helper.0"*
  call void @_ZNSt8__detail21_Hashtable_ebo_helperILi0ESt8equal_toINSt7__cxx1112basic_stringIcSt11char_traitsIcESaIcEEEELb1EEC2Ev(%"struct.std::__detail::_Hashtable_ebo_helper.0"* noundef nonnull align 1 dereferenceable(1) %1) #29
  ret void
}

; Function Attrs: noinline nounwind uwtable
define linkonce_odr dso_local void @_ZNSt8__detail16_Hashtable_allocISaINS_10_Hash_nodeISt4pairIKNSt7__cxx1112basic_stringIcSt11char_traitsIcESaIcEEES8_ELb1EEEEEC2Ev(%"struct.std::__detail::_Hashtable_alloc"* noundef nonnull align 1 dereferenceable(1) %this) unnamed_addr #11 comdat align 2 {
entry:
  %0 = bitcast %"struct.std::__detail::_Hashtable_alloc"* %this to %"struct.std::__detail::_Hashtable_ebo_helper.1"*
  call void @_ZNSt8__detail21_Hashtable_ebo_helperILi0ESaINS_10_Hash_nodeISt4pairIKNSt7__cxx1112basic_stringIcSt11char_traitsIcESaIcEEES8_ELb1EEEELb1EEC2Ev(%"struct.std::__detail::_Hashtable_ebo_helper.1"* noundef nonnull align 1 dereferenceable(1) %0) #29
  ret void
}

; Function Attrs: noinline nounwind uwtable
define linkonce_odr dso_local void @_ZNSt8__detail15_Hash_node_baseC2Ev(%"struct.std::__detail::_Hash_node_base"* noundef nonnull align 8 dereferenceable(8) %this) unnamed_addr #11 comdat align 2 {
entry:
  %_M_nxt = getelementptr inbounds %"struct.std::__detail::_Hash_node_base", %"struct.std::__detail::_Hash_node_base"* %this, i64 0, i32 0
  store %"struct.std::__detail::_Hash_node_base"* null, %"struct.std::__detail::_Hash_node_base"** %_M_nxt, align 8, !tbaa !75
  ret void
}

; Function Attrs: noinline nounwind uwtable
define linkonce_odr dso_local void @_ZNSt8__detail20_Prime_rehash_policyC2Ef(%"struct.std::__detail::_Prime_rehash_policy"* noundef nonnull align 8 dereferenceable(16) %this, float noundef %__z) unnamed_addr #11 comdat align 2 {
entry:
  %_M_max_load_factor = getelementptr inbounds %"struct.std::__detail::_Prime_rehash_policy", %"struct.std::__detail::_Prime_rehash_policy"* %this, i64 0, i32 0
  store float %__z, float* %_M_max_load_factor, align 8, !tbaa !76
  %_M_next_resize = getelementptr inbounds %"struct.std::__detail::_Prime_rehash_policy", %"struct.std::__detail::_Prime_rehash_policy"* %this, i64 0, i32 1
  store i64 0, i64* %_M_next_resize, align 8, !tbaa !77
  ret void
}

; Function Attrs: noinline nounwind uwtable
define linkonce_odr dso_local void @_ZNSt8__detail15_Hash_code_baseINSt7__cxx1112basic_stringIcSt11char_traitsIcESaIcEEESt4pairIKS6_S6_ENS_10_Select1stESt4hashIS6_ENS_18_Mod_range_hashingENS_20_Default_ranged_hashELb1EEC2Ev(%"struct.std::__detail::_Hash_code_base"* noundef nonnull align 1 dereferenceable(1) %this) unnamed_addr #11 comdat align 2 {
entry:
  %0 = bitcast %"struct.std::__detail::_Hash_code_base"* %this to %"struct.std::__detail::_Hashtable_ebo_helper"*
  call void @_ZNSt8__detail21_Hashtable_ebo_helperILi1ESt4hashINSt7__cxx1112basic_stringIcSt11char_traitsIcESaIcEEEELb1EEC2Ev(%"struct.std::__detail::_Hashtable_ebo_helper"* noundef nonnull align 1 dereferenceable(1) %0) #29
  ret void
}

; Function Attrs: noinline nounwind uwtable
define linkonce_odr dso_local void @_ZNSt8__detail21_Hashtable_ebo_helperILi0ESt8equal_toINSt7__cxx1112basic_stringIcSt11char_traitsIcESaIcEEEELb1EEC2Ev(%"struct.std::__detail::_Hashtable_ebo_helper.0"* noundef nonnull align 1 dereferenceable(1) %this) unnamed_addr #11 comdat align 2 {
entry:
  ret void
}

; Function Attrs: noinline nounwind uwtable
define linkonce_odr dso_local void @_ZNSt8__detail21_Hashtable_ebo_helperILi1ESt4hashINSt7__cxx1112basic_stringIcSt11char_traitsIcESaIcEEEELb1EEC2Ev(%"struct.std::__detail::_Hashtable_ebo_helper"* noundef nonnull align 1 dereferenceable(1) %this) unnamed_addr #11 comdat align 2 {
entry:
  ret void
}

; Function Attrs: noinline nounwind uwtable
define linkonce_odr dso_local void @_ZNSt8__detail21_Hashtable_ebo_helperILi0ESaINS_10_Hash_nodeISt4pairIKNSt7__cxx1112basic_stringIcSt11char_traitsIcESaIcEEES8_ELb1EEEELb1EEC2Ev(%"struct.std::__detail::_Hashtable_ebo_helper.1"* noundef nonnull align 1 dereferenceable(1) %this) unnamed_addr #11 comdat align 2 {
entry:
  ret void
}

; Function Attrs: noinline nounwind uwtable
define linkonce_odr dso_local void @_ZNSt14_Optional_baseIN8Pistache4Http4Mime1QELb1ELb1EEC2Ev(%"struct.std::_Optional_base"* noundef nonnull align 2 dereferenceable(4) %this) unnamed_addr #11 comdat align 2 {
entry:
  %_M_payload = getelementptr inbounds %"struct.std::_Optional_base", %"struct.std::_Optional_base"* %this, i64 0, i32 0
  call void @_ZNSt17_Optional_payloadIN8Pistache4Http4Mime1QELb1ELb1ELb1EEC2Ev(%"struct.std::_Optional_payload"* noundef nonnull align 2 dereferenceable(3) %_M_payload) #29
  ret void
}

; Function Attrs: noinline nounwind uwtable
define linkonce_odr dso_local void @_ZNSt17_Optional_payloadIN8Pistache4Http4Mime1QELb1ELb1ELb1EEC2Ev(%"struct.std::_Optional_payload"* noundef nonnull align 2 dereferenceable(3) %this) unnamed_addr #11 comdat align 2 {
entry:
  %0 = bitcast %"struct.std::_Optional_payload"* %this to %"struct.std::_Optional_payload_base"*
  call void @_ZNSt22_Optional_payload_baseIN8Pistache4Http4Mime1QEEC2Ev(%"struct.std::_Optional_payload_base"* noundef nonnull align 2 dereferenceable(3) %0) #29
  ret void
}

; Function Attrs: noinline nounwind uwtable
define linkonce_odr dso_local void @_ZNSt22_Optional_payload_baseIN8Pistache4Http4Mime1QEEC2Ev(%"struct.std::_Optional_payload_base"* noundef nonnull align 2 dereferenceable(3) %this) unnamed_addr #11 comdat align 2 {
entry:
  %_M_payload = getelementptr inbounds %"struct.std::_Optional_payload_base", %"struct.std::_Optional_payload_base"* %this, i64 0, i32 0
  call void @_ZNSt22_Optional_payload_baseIN8Pistache4Http4Mime1QEE8_StorageIS3_Lb1EEC2Ev(%"union.std::_Optional_payload_base<Pistache::Http::Mime::Q>::_Storage"* noundef nonnull align 2 dereferenceable(2) %_M_payload) #29
  %_M_engaged = getelementptr inbounds %"struct.std::_Optional_payload_base", %"struct.std::_Optional_payload_base"* %this, i64 0, i32 1
  store i8 0, i8* %_M_engaged, align 2, !tbaa !78
  ret void
}

; Function Attrs: noinline nounwind uwtable
define linkonce_odr dso_local void @_ZNSt22_Optional_payload_baseIN8Pistache4Http4Mime1QEE8_StorageIS3_Lb1EEC2Ev(%"union.std::_Optional_payload_base<Pistache::Http::Mime::Q>::_Storage"* noundef nonnull align 2 dereferenceable(2) %this) unnamed_addr #11 comdat align 2 {
entry:
  ret void
}

; Function Attrs: inlinehint noinline nounwind uwtable
define linkonce_odr dso_local void @_ZNSt13unordered_mapINSt7__cxx1112basic_stringIcSt11char_traitsIcESaIcEEES5_St4hashIS5_ESt8equal_toIS5_ESaISt4pairIKS5_S5_EEED2Ev(%"class.std::unordered_map"* noundef nonnull align 8 dereferenceable(56) %this) unnamed_addr #14 comdat align 2 {
entry:
  %_M_h = getelementptr inbounds %"class.std::unordered_map", %"class.std::unordered_map"* %this, i64 0, i32 0
  call void @_ZNSt10_HashtableINSt7__cxx1112basic_stringIcSt11char_traitsIcESaIcEEESt4pairIKS5_S5_ESaIS8_ENSt8__detail10_Select1stESt8equal_toIS5_ESt4hashIS5_ENSA_18_Mod_range_hashingENSA_20_Default_ranged_hashENSA_20_Prime_rehash_policyENSA_17_Hashtable_traitsILb1ELb0ELb1EEEED2Ev(%"class.std::_Hashtable"* noundef nonnull align 8 dereferenceable(56) %_M_h) #29
  ret void
}

; Function Attrs: noinline nounwind uwtable
define linkonce_odr dso_local void @_ZNSt10_HashtableINSt7__cxx1112basic_stringIcSt11char_traitsIcESaIcEEESt4pairIKS5_S5_ESaIS8_ENSt8__detail10_Select1stESt8equal_toIS5_ESt4hashIS5_ENSA_18_Mod_range_hashingENSA_20_Default_ranged_hashENSA_20_Prime_rehash_policyENSA_17_Hashtable_traitsILb1ELb0ELb1EEEED2Ev(%"class.std::_Hashtable"* noundef nonnull align 8 dereferenceable(56) %this) unnamed_addr #11 comdat align 2 personality i8* bitcast (i32 (...)* @__gxx_personality_v0 to i8*) {
entry:
  call void @_ZNSt10_HashtableINSt7__cxx1112basic_stringIcSt11char_traitsIcESaIcEEESt4pairIKS5_S5_ESaIS8_ENSt8__detail10_Select1stESt8equal_toIS5_ESt4hashIS5_ENSA_18_Mod_range_hashingENSA_20_Default_ranged_hashENSA_20_Prime_rehash_policyENSA_17_Hashtable_traitsILb1ELb0ELb1EEEE5clearEv(%"class.std::_Hashtable"* noundef nonnull align 8 dereferenceable(56) %this) #29
  invoke void @_ZNSt10_HashtableINSt7__cxx1112basic_stringIcSt11char_traitsIcESaIcEEESt4pairIKS5_S5_ESaIS8_ENSt8__detail10_Select1stESt8equal_toIS5_ESt4hashIS5_ENSA_18_Mod_range_hashingENSA_20_Default_ranged_hashENSA_20_Prime_rehash_policyENSA_17_Hashtable_traitsILb1ELb0ELb1EEEE21_M_deallocate_bucketsEv(%"class.std::_Hashtable"* noundef nonnull align 8 dereferenceable(56) %this)
          to label %invoke.cont unwind label %lpad

invoke.cont:                                      ; preds = %entry
  ret void

lpad:                                             ; preds = %entry
  %0 = landingpad { i8*, i32 }
          catch i8* null
  %1 = extractvalue { i8*, i32 } %0, 0
  call void @__clang_call_terminate(i8* %1) #32
  unreachable
}

; Function Attrs: mustprogress noinline nounwind uwtable
define linkonce_odr dso_local void @_ZNSt10_HashtableINSt7__cxx1112basic_stringIcSt11char_traitsIcESaIcEEESt4pairIKS5_S5_ESaIS8_ENSt8__detail10_Select1stESt8equal_toIS5_ESt4hashIS5_ENSA_18_Mod_range_hashingENSA_20_Default_ranged_hashENSA_20_Prime_rehash_policyENSA_17_Hashtable_traitsILb1ELb0ELb1EEEE5clearEv(%"class.std::_Hashtable"* noundef nonnull align 8 dereferenceable(56) %this) local_unnamed_addr #8 comdat align 2 personality i8* bitcast (i32 (...)* @__gxx_personality_v0 to i8*) {
entry:
  %0 = bitcast %"class.std::_Hashtable"* %this to %"struct.std::__detail::_Hashtable_alloc"*
  %call = call noundef %"struct.std::__detail::_Hash_node"* @_ZNKSt10_HashtableINSt7__cxx1112basic_stringIcSt11char_traitsIcESaIcEEESt4pairIKS5_S5_ESaIS8_ENSt8__detail10_Select1stESt8equal_toIS5_ESt4hashIS5_ENSA_18_Mod_range_hashingENSA_20_Default_ranged_hashENSA_20_Prime_rehash_policyENSA_17_Hashtable_traitsILb1ELb0ELb1EEEE8_M_beginEv(%"class.std::_Hashtable"* noundef nonnull align 8 dereferenceable(56) %this)
  invoke void @_ZNSt8__detail16_Hashtable_allocISaINS_10_Hash_nodeISt4pairIKNSt7__cxx1112basic_stringIcSt11char_traitsIcESaIcEEES8_ELb1EEEEE19_M_deallocate_nodesEPSB_(%"struct.std::__detail::_Hashtable_alloc"* noundef nonnull align 1 dereferenceable(1) %0, %"struct.std::__detail::_Hash_node"* noundef %call)
          to label %invoke.cont2 unwind label %terminate.lpad

invoke.cont2:                                     ; preds = %entry
  %1 = bitcast %"class.std::_Hashtable"* %this to i8**
  %2 = load i8*, i8** %1, align 8, !tbaa !71
  %_M_bucket_count = getelementptr inbounds %"class.std::_Hashtable", %"class.std::_Hashtable"* %this, i64 0, i32 1
  %3 = load i64, i64* %_M_bucket_count, align 8, !tbaa !72
  %mul = shl i64 %3, 3
  call void @llvm.memset.p0i8.i64(i8* align 8 %2, i8 0, i64 %mul, i1 false)
  %_M_nxt = getelementptr inbounds %"class.std::_Hashtable", %"class.std::_Hashtable"* %this, i64 0, i32 2, i32 0
  %4 = bitcast %"struct.std::__detail::_Hash_node_base"** %_M_nxt to i8*
  call void @llvm.memset.p0i8.i64(i8* noundef nonnull align 8 dereferenceable(16) %4, i8 0, i64 16, i1 false)
  ret void

terminate.lpad:                                   ; preds = %entry
  %5 = landingpad { i8*, i32 }
          catch i8* null
  %6 = extractvalue { i8*, i32 } %5, 0
  call void @__clang_call_terminate(i8* %6) #32
  unreachable
}

; Function Attrs: mustprogress noinline uwtable
define linkonce_odr dso_local void @_ZNSt10_HashtableINSt7__cxx1112basic_stringIcSt11char_traitsIcESaIcEEESt4pairIKS5_S5_ESaIS8_ENSt8__detail10_Select1stESt8equal_toIS5_ESt4hashIS5_ENSA_18_Mod_range_hashingENSA_20_Default_ranged_hashENSA_20_Prime_rehash_policyENSA_17_Hashtable_traitsILb1ELb0ELb1EEEE21_M_deallocate_bucketsEv(%"class.std::_Hashtable"* noundef nonnull align 8 dereferenceable(56) %this) local_unnamed_addr #13 comdat align 2 {
entry:
  %_M_buckets = getelementptr inbounds %"class.std::_Hashtable", %"class.std::_Hashtable"* %this, i64 0, i32 0
  %0 = load %"struct.std::__detail::_Hash_node_base"**, %"struct.std::__detail::_Hash_node_base"*** %_M_buckets, align 8, !tbaa !71
  %_M_bucket_count = getelementptr inbounds %"class.std::_Hashtable", %"class.std::_Hashtable"* %this, i64 0, i32 1
  %1 = load i64, i64* %_M_bucket_count, align 8, !tbaa !72
  call void @_ZNSt10_HashtableINSt7__cxx1112basic_stringIcSt11char_traitsIcESaIcEEESt4pairIKS5_S5_ESaIS8_ENSt8__detail10_Select1stESt8equal_toIS5_ESt4hashIS5_ENSA_18_Mod_range_hashingENSA_20_Default_ranged_hashENSA_20_Prime_rehash_policyENSA_17_Hashtable_traitsILb1ELb0ELb1EEEE21_M_deallocate_bucketsEPPNSA_15_Hash_node_baseEm(%"class.std::_Hashtable"* noundef nonnull align 8 dereferenceable(56) %this, %"struct.std::__detail::_Hash_node_base"** noundef %0, i64 noundef %1)
  ret void
}

; Function Attrs: noinline noreturn nounwind
define linkonce_odr hidden void @__clang_call_terminate(i8* %0) local_unnamed_addr #21 comdat {
  %2 = call i8* @__cxa_begin_catch(i8* %0) #29
  call void @_ZSt9terminatev() #32
  unreachable
}

declare i8* @__cxa_begin_catch(i8*) local_unnamed_addr

declare void @_ZSt9terminatev() local_unnamed_addr

; Function Attrs: mustprogress noinline uwtable
define linkonce_odr dso_local void @_ZNSt8__detail16_Hashtable_allocISaINS_10_Hash_nodeISt4pairIKNSt7__cxx1112basic_stringIcSt11char_traitsIcESaIcEEES8_ELb1EEEEE19_M_deallocate_nodesEPSB_(%"struct.std::__detail::_Hashtable_alloc"* noundef nonnull align 1 dereferenceable(1) %this, %"struct.std::__detail::_Hash_node"* noundef %__n) local_unnamed_addr #13 comdat align 2 {
entry:
  %tobool.not4 = icmp eq %"struct.std::__detail::_Hash_node"* %__n, null
  br i1 %tobool.not4, label %while.end, label %while.body

while.body:                                       ; preds = %entry, %while.body
  %__n.addr.05 = phi %"struct.std::__detail::_Hash_node"* [ %call, %while.body ], [ %__n, %entry ]
  %call = call noundef %"struct.std::__detail::_Hash_node"* @_ZNKSt8__detail10_Hash_nodeISt4pairIKNSt7__cxx1112basic_stringIcSt11char_traitsIcESaIcEEES7_ELb1EE7_M_nextEv(%"struct.std::__detail::_Hash_node"* noundef nonnull align 8 dereferenceable(80) %__n.addr.05) #29
  call void @_ZNSt8__detail16_Hashtable_allocISaINS_10_Hash_nodeISt4pairIKNSt7__cxx1112basic_stringIcSt11char_traitsIcESaIcEEES8_ELb1EEEEE18_M_deallocate_nodeEPSB_(%"struct.std::__detail::_Hashtable_alloc"* noundef nonnull align 1 dereferenceable(1) %this, %"struct.std::__detail::_Hash_node"* noundef nonnull %__n.addr.05)
  %tobool.not = icmp eq %"struct.std::__detail::_Hash_node"* %call, null
  br i1 %tobool.not, label %while.end, label %while.body, !llvm.loop !81

while.end:                                        ; preds = %while.body, %entry
  ret void
}

; Function Attrs: mustprogress noinline nounwind uwtable
define linkonce_odr dso_local noundef %"struct.std::__detail::_Hash_node"* @_ZNKSt10_HashtableINSt7__cxx1112basic_stringIcSt11char_traitsIcESaIcEEESt4pairIKS5_S5_ESaIS8_ENSt8__detail10_Select1stESt8equal_toIS5_ESt4hashIS5_ENSA_18_Mod_range_hashingENSA_20_Default_ranged_hashENSA_20_Prime_rehash_policyENSA_17_Hashtable_traitsILb1ELb0ELb1EEEE8_M_beginEv(%"class.std::_Hashtable"* noundef nonnull align 8 dereferenceable(56) %this) local_unnamed_addr #8 comdat align 2 {
entry:
  %_M_nxt = getelementptr inbounds %"class.std::_Hashtable", %"class.std::_Hashtable"* %this, i64 0, i32 2, i32 0
  %0 = bitcast %"struct.std::__detail::_Hash_node_base"** %_M_nxt to %"struct.std::__detail::_Hash_node"**
  %1 = load %"struct.std::__detail::_Hash_node"*, %"struct.std::__detail::_Hash_node"** %0, align 8, !tbaa !82
  ret %"struct.std::__detail::_Hash_node"* %1
}

; Function Attrs: mustprogress noinline nounwind uwtable
define linkonce_odr dso_local noundef %"struct.std::__detail::_Hash_node"* @_ZNKSt8__detail10_Hash_nodeISt4pairIKNSt7__cxx1112basic_stringIcSt11char_traitsIcESaIcEEES7_ELb1EE7_M_nextEv(%"struct.std::__detail::_Hash_node"* noundef nonnull align 8 dereferenceable(80) %this) local_unnamed_addr #8 comdat align 2 {
entry:
  %0 = bitcast %"struct.std::__detail::_Hash_node"* %this to %"struct.std::__detail::_Hash_node"**
  %1 = load %"struct.std::__detail::_Hash_node"*, %"struct.std::__detail::_Hash_node"** %0, align 8, !tbaa !75
  ret %"struct.std::__detail::_Hash_node"* %1
}

; Function Attrs: mustprogress noinline uwtable
define linkonce_odr dso_local void @_ZNSt8__detail16_Hashtable_allocISaINS_10_Hash_nodeISt4pairIKNSt7__cxx1112basic_stringIcSt11char_traitsIcESaIcEEES8_ELb1EEEEE18_M_deallocate_nodeEPSB_(%"struct.std::__detail::_Hashtable_alloc"* noundef nonnull align 1 dereferenceable(1) %this, %"struct.std::__detail::_Hash_node"* noundef %__n) local_unnamed_addr #13 comdat align 2 {
entry:
  %call = call noundef nonnull align 1 dereferenceable(1) %"class.std::allocator.2"* @_ZNSt8__detail16_Hashtable_allocISaINS_10_Hash_nodeISt4pairIKNSt7__cxx1112basic_stringIcSt11char_traitsIcESaIcEEES8_ELb1EEEEE17_M_node_allocatorEv(%"struct.std::__detail::_Hashtable_alloc"* noundef nonnull align 1 dereferenceable(1) %this)
  %0 = getelementptr inbounds %"struct.std::__detail::_Hash_node", %"struct.std::__detail::_Hash_node"* %__n, i64 0, i32 1, i32 0, i32 0, i32 0, i32 0, i64 0
  %1 = bitcast i8* %0 to %"struct.std::__detail::_Hash_node_value_base"*
  %call2 = call noundef %"struct.std::pair.18"* @_ZNSt8__detail21_Hash_node_value_baseISt4pairIKNSt7__cxx1112basic_stringIcSt11char_traitsIcESaIcEEES7_EE9_M_valptrEv(%"struct.std::__detail::_Hash_node_value_base"* noundef nonnull align 8 dereferenceable(64) %1) #29
  call void @_ZNSt4pairIKNSt7__cxx1112basic_stringIcSt11char_traitsIcESaIcEEES5_ED2Ev(%"struct.std::pair.18"* noundef nonnull align 8 dereferenceable(64) %call2) #29
  call void @_ZNSt8__detail16_Hashtable_allocISaINS_10_Hash_nodeISt4pairIKNSt7__cxx1112basic_stringIcSt11char_traitsIcESaIcEEES8_ELb1EEEEE22_M_deallocate_node_ptrEPSB_(%"struct.std::__detail::_Hashtable_alloc"* noundef nonnull align 1 dereferenceable(1) %this, %"struct.std::__detail::_Hash_node"* noundef %__n)
  ret void
}

; Function Attrs: mustprogress noinline uwtable
define linkonce_odr dso_local noundef nonnull align 1 dereferenceable(1) %"class.std::allocator.2"* @_ZNSt8__detail16_Hashtable_allocISaINS_10_Hash_nodeISt4pairIKNSt7__cxx1112basic_stringIcSt11char_traitsIcESaIcEEES8_ELb1EEEEE17_M_node_allocatorEv(%"struct.std::__detail::_Hashtable_alloc"* noundef nonnull align 1 dereferenceable(1) %this) local_unnamed_addr #13 comdat align 2 {
entry:
  %0 = bitcast %"struct.std::__detail::_Hashtable_alloc"* %this to %"struct.std::__detail::_Hashtable_ebo_helper.1"*
  %call = call noundef nonnull align 1 dereferenceable(1) %"class.std::allocator.2"* @_ZNSt8__detail21_Hashtable_ebo_helperILi0ESaINS_10_Hash_nodeISt4pairIKNSt7__cxx1112basic_stringIcSt11char_traitsIcESaIcEEES8_ELb1EEEELb1EE6_M_getEv(%"struct.std::__detail::_Hashtable_ebo_helper.1"* noundef nonnull align 1 dereferenceable(1) %0)
  ret %"class.std::allocator.2"* %call
}

; Function Attrs: mustprogress noinline nounwind uwtable
define linkonce_odr dso_local noundef %"struct.std::pair.18"* @_ZNSt8__detail21_Hash_node_value_baseISt4pairIKNSt7__cxx1112basic_stringIcSt11char_traitsIcESaIcEEES7_EE9_M_valptrEv(%"struct.std::__detail::_Hash_node_value_base"* noundef nonnull align 8 dereferenceable(64) %this) local_unnamed_addr #8 comdat align 2 {
entry:
  %_M_storage = getelementptr inbounds %"struct.std::__detail::_Hash_node_value_base", %"struct.std::__detail::_Hash_node_value_base"* %this, i64 0, i32 0
  %call = call noundef %"struct.std::pair.18"* @_ZN9__gnu_cxx16__aligned_bufferISt4pairIKNSt7__cxx1112basic_stringIcSt11char_traitsIcESaIcEEES7_EE6_M_ptrEv(%"struct.__gnu_cxx::__aligned_buffer"* noundef nonnull align 8 dereferenceable(64) %_M_storage) #29
  ret %"struct.std::pair.18"* %call
}

; Function Attrs: mustprogress noinline uwtable
define linkonce_odr dso_local void @_ZNSt8__detail16_Hashtable_allocISaINS_10_Hash_nodeISt4pairIKNSt7__cxx1112basic_stringIcSt11char_traitsIcESaIcEEES8_ELb1EEEEE22_M_deallocate_node_ptrEPSB_(%"struct.std::__detail::_Hashtable_alloc"* noundef nonnull align 1 dereferenceable(1) %this, %"struct.std::__detail::_Hash_node"* noundef %__n) local_unnamed_addr #13 comdat align 2 {
entry:
  %call2 = call noundef nonnull align 1 dereferenceable(1) %"class.std::allocator.2"* @_ZNSt8__detail16_Hashtable_allocISaINS_10_Hash_nodeISt4pairIKNSt7__cxx1112basic_stringIcSt11char_traitsIcESaIcEEES8_ELb1EEEEE17_M_node_allocatorEv(%"struct.std::__detail::_Hashtable_alloc"* noundef nonnull align 1 dereferenceable(1) %this)
  %0 = bitcast %"struct.std::__detail::_Hash_node"* %__n to i8*
  call void @_ZdlPv(i8* noundef %0) #33
  ret void
}

; Function Attrs: inlinehint noinline nounwind uwtable
define linkonce_odr dso_local void @_ZNSt4pairIKNSt7__cxx1112basic_stringIcSt11char_traitsIcESaIcEEES5_ED2Ev(%"struct.std::pair.18"* noundef nonnull align 8 dereferenceable(64) %this) unnamed_addr #14 comdat align 2 {
entry:
  %second = getelementptr inbounds %"struct.std::pair.18", %"struct.std::pair.18"* %this, i64 0, i32 1
  call void @_ZNSt7__cxx1112basic_stringIcSt11char_traitsIcESaIcEED2Ev(%"class.std::__cxx11::basic_string"* noundef nonnull align 8 dereferenceable(32) %second) #29
  %first = getelementptr inbounds %"struct.std::pair.18", %"struct.std::pair.18"* %this, i64 0, i32 0
  call void @_ZNSt7__cxx1112basic_stringIcSt11char_traitsIcESaIcEED2Ev(%"class.std::__cxx11::basic_string"* noundef nonnull align 8 dereferenceable(32) %first) #29
  ret void
}

; Function Attrs: mustprogress noinline nounwind uwtable
define linkonce_odr dso_local noundef nonnull align 1 dereferenceable(1) %"class.std::allocator.2"* @_ZNSt8__detail21_Hashtable_ebo_helperILi0ESaINS_10_Hash_nodeISt4pairIKNSt7__cxx1112basic_stringIcSt11char_traitsIcESaIcEEES8_ELb1EEEELb1EE6_M_getEv(%"struct.std::__detail::_Hashtable_ebo_helper.1"* noundef nonnull align 1 dereferenceable(1) %this) local_unnamed_addr #8 comdat align 2 {
entry:
  %0 = bitcast %"struct.std::__detail::_Hashtable_ebo_helper.1"* %this to %"class.std::allocator.2"*
  ret %"class.std::allocator.2"* %0
}

; Function Attrs: mustprogress noinline nounwind uwtable
define linkonce_odr dso_local noundef %"struct.std::pair.18"* @_ZN9__gnu_cxx16__aligned_bufferISt4pairIKNSt7__cxx1112basic_stringIcSt11char_traitsIcESaIcEEES7_EE6_M_ptrEv(%"struct.__gnu_cxx::__aligned_buffer"* noundef nonnull align 8 dereferenceable(64) %this) local_unnamed_addr #8 comdat align 2 {
entry:
  %call = call noundef i8* @_ZN9__gnu_cxx16__aligned_bufferISt4pairIKNSt7__cxx1112basic_stringIcSt11char_traitsIcESaIcEEES7_EE7_M_addrEv(%"struct.__gnu_cxx::__aligned_buffer"* noundef nonnull align 8 dereferenceable(64) %this) #29
  %0 = bitcast i8* %call to %"struct.std::pair.18"*
  ret %"struct.std::pair.18"* %0
}

; Function Attrs: mustprogress noinline nounwind uwtable
define linkonce_odr dso_local noundef i8* @_ZN9__gnu_cxx16__aligned_bufferISt4pairIKNSt7__cxx1112basic_stringIcSt11char_traitsIcESaIcEEES7_EE7_M_addrEv(%"struct.__gnu_cxx::__aligned_buffer"* noundef nonnull align 8 dereferenceable(64) %this) local_unnamed_addr #8 comdat align 2 {
entry:
  %0 = getelementptr inbounds %"struct.__gnu_cxx::__aligned_buffer", %"struct.__gnu_cxx::__aligned_buffer"* %this, i64 0, i32 0, i32 0, i64 0
  ret i8* %0
}

; Function Attrs: nobuiltin nounwind
declare void @_ZdlPv(i8* noundef) local_unnamed_addr #22

; Function Attrs: mustprogress noinline uwtable
define linkonce_odr dso_local void @_ZNSt10_HashtableINSt7__cxx1112basic_stringIcSt11char_traitsIcESaIcEEESt4pairIKS5_S5_ESaIS8_ENSt8__detail10_Select1stESt8equal_toIS5_ESt4hashIS5_ENSA_18_Mod_range_hashingENSA_20_Default_ranged_hashENSA_20_Prime_rehash_policyENSA_17_Hashtable_traitsILb1ELb0ELb1EEEE21_M_deallocate_bucketsEPPNSA_15_Hash_node_baseEm(%"class.std::_Hashtable"* noundef nonnull align 8 dereferenceable(56) %this, %"struct.std::__detail::_Hash_node_base"** noundef %__bkts, i64 noundef %__bkt_count) local_unnamed_addr #13 comdat align 2 {
entry:
  %call = call noundef zeroext i1 @_ZNKSt10_HashtableINSt7__cxx1112basic_stringIcSt11char_traitsIcESaIcEEESt4pairIKS5_S5_ESaIS8_ENSt8__detail10_Select1stESt8equal_toIS5_ESt4hashIS5_ENSA_18_Mod_range_hashingENSA_20_Default_ranged_hashENSA_20_Prime_rehash_policyENSA_17_Hashtable_traitsILb1ELb0ELb1EEEE21_M_uses_single_bucketEPPNSA_15_Hash_node_baseE(%"class.std::_Hashtable"* noundef nonnull align 8 dereferenceable(56) %this, %"struct.std::__detail::_Hash_node_base"** noundef %__bkts)
  br i1 %call, label %return, label %if.end

if.end:                                           ; preds = %entry
  %0 = bitcast %"class.std::_Hashtable"* %this to %"struct.std::__detail::_Hashtable_alloc"*
  call void @_ZNSt8__detail16_Hashtable_allocISaINS_10_Hash_nodeISt4pairIKNSt7__cxx1112basic_stringIcSt11char_traitsIcESaIcEEES8_ELb1EEEEE21_M_deallocate_bucketsEPPNS_15_Hash_node_baseEm(%"struct.std::__detail::_Hashtable_alloc"* noundef nonnull align 1 dereferenceable(1) %0, %"struct.std::__detail::_Hash_node_base"** noundef %__bkts, i64 noundef %__bkt_count)
  br label %return

return:                                           ; preds = %entry, %if.end
  ret void
}

; Function Attrs: mustprogress noinline nounwind uwtable
define linkonce_odr dso_local noundef zeroext i1 @_ZNKSt10_HashtableINSt7__cxx1112basic_stringIcSt11char_traitsIcESaIcEEESt4pairIKS5_S5_ESaIS8_ENSt8__detail10_Select1stESt8equal_toIS5_ESt4hashIS5_ENSA_18_Mod_range_hashingENSA_20_Default_ranged_hashENSA_20_Prime_rehash_policyENSA_17_Hashtable_traitsILb1ELb0ELb1EEEE21_M_uses_single_bucketEPPNSA_15_Hash_node_baseE(%"class.std::_Hashtable"* noundef nonnull align 8 dereferenceable(56) %this, %"struct.std::__detail::_Hash_node_base"** noundef %__bkts) local_unnamed_addr #8 comdat align 2 {
entry:
  %_M_single_bucket = getelementptr inbounds %"class.std::_Hashtable", %"class.std::_Hashtable"* %this, i64 0, i32 5
  %cmp = icmp eq %"struct.std::__detail::_Hash_node_base"** %_M_single_bucket, %__bkts
  ret i1 %cmp
}

; Function Attrs: noinline uwtable
define linkonce_odr dso_local void @_ZNSt8__detail16_Hashtable_allocISaINS_10_Hash_nodeISt4pairIKNSt7__cxx1112basic_stringIcSt11char_traitsIcESaIcEEES8_ELb1EEEEE21_M_deallocate_bucketsEPPNS_15_Hash_node_baseEm(%"struct.std::__detail::_Hashtable_alloc"* noundef nonnull align 1 dereferenceable(1) %this, %"struct.std::__detail::_Hash_node_base"** noundef %__bkts, i64 noundef %__bkt_count) local_unnamed_addr #5 comdat align 2 personality i8* bitcast (i32 (...)* @__gxx_personality_v0 to i8*) {
entry:
  %call2 = call noundef nonnull align 1 dereferenceable(1) %"class.std::allocator.2"* @_ZNSt8__detail16_Hashtable_allocISaINS_10_Hash_nodeISt4pairIKNSt7__cxx1112basic_stringIcSt11char_traitsIcESaIcEEES8_ELb1EEEEE17_M_node_allocatorEv(%"struct.std::__detail::_Hashtable_alloc"* noundef nonnull align 1 dereferenceable(1) %this)
  %0 = bitcast %"struct.std::__detail::_Hash_node_base"** %__bkts to i8*
  call void @_ZdlPv(i8* noundef %0) #33
  ret void
}

declare i8* @__cxa_allocate_exception(i64) local_unnamed_addr

declare void @_ZN8Pistache4Http9HttpErrorC1ENS0_4CodeENSt7__cxx1112basic_stringIcSt11char_traitsIcESaIcEEE(%"struct.Pistache::Http::HttpError"* noundef nonnull align 8 dereferenceable(48), i32 noundef, %"class.std::__cxx11::basic_string"* noundef) unnamed_addr #0

; Function Attrs: nounwind uwtable
define linkonce_odr dso_local void @_ZN8Pistache4Http9HttpErrorD2Ev(%"struct.Pistache::Http::HttpError"* noundef nonnull align 8 dereferenceable(48) %this) unnamed_addr #9 comdat align 2 {
entry:
  %0 = getelementptr inbounds %"struct.Pistache::Http::HttpError", %"struct.Pistache::Http::HttpError"* %this, i64 0, i32 0, i32 0
  store i32 (...)** bitcast (i8** getelementptr inbounds ({ [5 x i8*] }, { [5 x i8*] }* @_ZTVN8Pistache4Http9HttpErrorE, i64 0, inrange i32 0, i64 2) to i32 (...)**), i32 (...)*** %0, align 8, !tbaa !35
  %reason_ = getelementptr inbounds %"struct.Pistache::Http::HttpError", %"struct.Pistache::Http::HttpError"* %this, i64 0, i32 2
  call void @_ZNSt7__cxx1112basic_stringIcSt11char_traitsIcESaIcEED2Ev(%"class.std::__cxx11::basic_string"* noundef nonnull align 8 dereferenceable(32) %reason_) #29
  %1 = getelementptr inbounds %"struct.Pistache::Http::HttpError", %"struct.Pistache::Http::HttpError"* %this, i64 0, i32 0
  call void @_ZNSt9exceptionD2Ev(%"class.std::exception"* noundef nonnull align 8 dereferenceable(8) %1) #29
  ret void
}

declare void @__cxa_throw(i8*, i8*, i8*) local_unnamed_addr

declare void @__cxa_free_exception(i8*) local_unnamed_addr

; Function Attrs: nounwind
declare void @_ZNSt9exceptionD2Ev(%"class.std::exception"* noundef nonnull align 8 dereferenceable(8)) unnamed_addr #1

; Function Attrs: nounwind uwtable
define linkonce_odr dso_local void @_ZN8Pistache4Http9HttpErrorD0Ev(%"struct.Pistache::Http::HttpError"* noundef nonnull align 8 dereferenceable(48) %this) unnamed_addr #9 comdat align 2 {
entry:
  %0 = getelementptr inbounds %"struct.Pistache::Http::HttpError", %"struct.Pistache::Http::HttpError"* %this, i64 0, i32 0, i32 0
  store i32 (...)** bitcast (i8** getelementptr inbounds ({ [5 x i8*] }, { [5 x i8*] }* @_ZTVN8Pistache4Http9HttpErrorE, i64 0, inrange i32 0, i64 2) to i32 (...)**), i32 (...)*** %0, align 8, !tbaa !35
  %reason_.i = getelementptr inbounds %"struct.Pistache::Http::HttpError", %"struct.Pistache::Http::HttpError"* %this, i64 0, i32 2
  call void @_ZNSt7__cxx1112basic_stringIcSt11char_traitsIcESaIcEED2Ev(%"class.std::__cxx11::basic_string"* noundef nonnull align 8 dereferenceable(32) %reason_.i) #29
  %1 = getelementptr inbounds %"struct.Pistache::Http::HttpError", %"struct.Pistache::Http::HttpError"* %this, i64 0, i32 0
  call void @_ZNSt9exceptionD2Ev(%"class.std::exception"* noundef nonnull align 8 dereferenceable(8) %1) #29
  %2 = bitcast %"struct.Pistache::Http::HttpError"* %this to i8*
  call void @_ZdlPv(i8* noundef %2) #33
  ret void
}

; Function Attrs: mustprogress nounwind uwtable
define linkonce_odr dso_local noundef i8* @_ZNK8Pistache4Http9HttpError4whatEv(%"struct.Pistache::Http::HttpError"* noundef nonnull align 8 dereferenceable(48) %this) unnamed_addr #15 comdat align 2 {
entry:
  %reason_ = getelementptr inbounds %"struct.Pistache::Http::HttpError", %"struct.Pistache::Http::HttpError"* %this, i64 0, i32 2
  %call = call noundef i8* @_ZNKSt7__cxx1112basic_stringIcSt11char_traitsIcESaIcEE5c_strEv(%"class.std::__cxx11::basic_string"* noundef nonnull align 8 dereferenceable(32) %reason_) #29
  ret i8* %call
}

; Function Attrs: mustprogress nofree nosync nounwind readnone speculatable willreturn
declare double @llvm.round.f64(double) #23

declare void @_ZNSt13runtime_errorC1EPKc(%"class.std::runtime_error"* noundef nonnull align 8 dereferenceable(16), i8* noundef) unnamed_addr #0

; Function Attrs: nounwind
declare void @_ZNSt13runtime_errorD1Ev(%"class.std::runtime_error"* noundef nonnull align 8 dereferenceable(16)) unnamed_addr #1

; Function Attrs: noinline nounwind uwtable
define linkonce_odr dso_local void @_ZNSt4pairINSt7__cxx1112basic_stringIcSt11char_traitsIcESaIcEEES5_EC2IS5_S5_Lb1EEEOT_OT0_(%"struct.std::pair.5"* noundef nonnull align 8 dereferenceable(64) %this, %"class.std::__cxx11::basic_string"* noundef nonnull align 8 dereferenceable(32) %__x, %"class.std::__cxx11::basic_string"* noundef nonnull align 8 dereferenceable(32) %__y) unnamed_addr #11 comdat align 2 {
entry:
  %first = getelementptr inbounds %"struct.std::pair.5", %"struct.std::pair.5"* %this, i64 0, i32 0
  call void @_ZNSt7__cxx1112basic_stringIcSt11char_traitsIcESaIcEEC2EOS4_(%"class.std::__cxx11::basic_string"* noundef nonnull align 8 dereferenceable(32) %first, %"class.std::__cxx11::basic_string"* noundef nonnull align 8 dereferenceable(32) %__x) #29
  %second = getelementptr inbounds %"struct.std::pair.5", %"struct.std::pair.5"* %this, i64 0, i32 1
  call void @_ZNSt7__cxx1112basic_stringIcSt11char_traitsIcESaIcEEC2EOS4_(%"class.std::__cxx11::basic_string"* noundef nonnull align 8 dereferenceable(32) %second, %"class.std::__cxx11::basic_string"* noundef nonnull align 8 dereferenceable(32) %__y) #29
  ret void
}

; Function Attrs: nounwind
declare void @_ZNSt6localeD1Ev(%"class.std::locale"* noundef nonnull align 8 dereferenceable(8)) unnamed_addr #1

; Function Attrs: noinline nounwind uwtable
define linkonce_odr dso_local void @_ZNSt14_Optional_baseINSt7__cxx1112basic_stringIcSt11char_traitsIcESaIcEEELb0ELb0EEC2Ev(%"struct.std::_Optional_base.9"* noundef nonnull align 8 dereferenceable(40) %this) unnamed_addr #11 comdat align 2 {
entry:
  %_M_payload = getelementptr inbounds %"struct.std::_Optional_base.9", %"struct.std::_Optional_base.9"* %this, i64 0, i32 0
  call void @_ZNSt17_Optional_payloadINSt7__cxx1112basic_stringIcSt11char_traitsIcESaIcEEELb0ELb0ELb0EEC2Ev(%"struct.std::_Optional_payload.11"* noundef nonnull align 8 dereferenceable(33) %_M_payload) #29
  ret void
}

; Function Attrs: noinline nounwind uwtable
define linkonce_odr dso_local void @_ZNSt17_Optional_payloadINSt7__cxx1112basic_stringIcSt11char_traitsIcESaIcEEELb0ELb0ELb0EEC2Ev(%"struct.std::_Optional_payload.11"* noundef nonnull align 8 dereferenceable(33) %this) unnamed_addr #11 comdat align 2 {
entry:
  %0 = bitcast %"struct.std::_Optional_payload.11"* %this to %"struct.std::_Optional_payload.12"*
  call void @_ZNSt17_Optional_payloadINSt7__cxx1112basic_stringIcSt11char_traitsIcESaIcEEELb1ELb0ELb0EEC2Ev(%"struct.std::_Optional_payload.12"* noundef nonnull align 8 dereferenceable(33) %0) #29
  ret void
}

; Function Attrs: noinline nounwind uwtable
define linkonce_odr dso_local void @_ZNSt17_Optional_payloadINSt7__cxx1112basic_stringIcSt11char_traitsIcESaIcEEELb1ELb0ELb0EEC2Ev(%"struct.std::_Optional_payload.12"* noundef nonnull align 8 dereferenceable(33) %this) unnamed_addr #11 comdat align 2 {
entry:
  %0 = bitcast %"struct.std::_Optional_payload.12"* %this to %"struct.std::_Optional_payload_base.13"*
  call void @_ZNSt22_Optional_payload_baseINSt7__cxx1112basic_stringIcSt11char_traitsIcESaIcEEEEC2Ev(%"struct.std::_Optional_payload_base.13"* noundef nonnull align 8 dereferenceable(33) %0) #29
  ret void
}

; Function Attrs: noinline nounwind uwtable
define linkonce_odr dso_local void @_ZNSt22_Optional_payload_baseINSt7__cxx1112basic_stringIcSt11char_traitsIcESaIcEEEEC2Ev(%"struct.std::_Optional_payload_base.13"* noundef nonnull align 8 dereferenceable(33) %this) unnamed_addr #11 comdat align 2 {
entry:
  %_M_payload = getelementptr inbounds %"struct.std::_Optional_payload_base.13", %"struct.std::_Optional_payload_base.13"* %this, i64 0, i32 0
  call void @_ZNSt22_Optional_payload_baseINSt7__cxx1112basic_stringIcSt11char_traitsIcESaIcEEEE8_StorageIS5_Lb0EEC2Ev(%"union.std::_Optional_payload_base<std::__cxx11::basic_string<char>>::_Storage"* noundef nonnull align 8 dereferenceable(32) %_M_payload) #29
  %_M_engaged = getelementptr inbounds %"struct.std::_Optional_payload_base.13", %"struct.std::_Optional_payload_base.13"* %this, i64 0, i32 1
  store i8 0, i8* %_M_engaged, align 8, !tbaa !83
  ret void
}

; Function Attrs: noinline nounwind uwtable
define linkonce_odr dso_local void @_ZNSt22_Optional_payload_baseINSt7__cxx1112basic_stringIcSt11char_traitsIcESaIcEEEE8_StorageIS5_Lb0EEC2Ev(%"union.std::_Optional_payload_base<std::__cxx11::basic_string<char>>::_Storage"* noundef nonnull align 8 dereferenceable(32) %this) unnamed_addr #11 comdat align 2 {
entry:
  ret void
}

; Function Attrs: noinline uwtable
define linkonce_odr dso_local void @_ZNSt14_Optional_baseINSt7__cxx1112basic_stringIcSt11char_traitsIcESaIcEEELb0ELb0EEC2IJRKS5_ELb0EEESt10in_place_tDpOT_(%"struct.std::_Optional_base.9"* noundef nonnull align 8 dereferenceable(40) %this, %"class.std::__cxx11::basic_string"* noundef nonnull align 8 dereferenceable(32) %__args) unnamed_addr #5 comdat align 2 {
entry:
  %_M_payload = getelementptr inbounds %"struct.std::_Optional_base.9", %"struct.std::_Optional_base.9"* %this, i64 0, i32 0
  call void @_ZNSt17_Optional_payloadINSt7__cxx1112basic_stringIcSt11char_traitsIcESaIcEEELb0ELb0ELb0EECI2St22_Optional_payload_baseIS5_EIJRKS5_EEESt10in_place_tDpOT_(%"struct.std::_Optional_payload.11"* noundef nonnull align 8 dereferenceable(33) %_M_payload, %"class.std::__cxx11::basic_string"* noundef nonnull align 8 dereferenceable(32) %__args)
  ret void
}

; Function Attrs: inlinehint noinline uwtable
define linkonce_odr dso_local void @_ZNSt17_Optional_payloadINSt7__cxx1112basic_stringIcSt11char_traitsIcESaIcEEELb0ELb0ELb0EECI2St22_Optional_payload_baseIS5_EIJRKS5_EEESt10in_place_tDpOT_(%"struct.std::_Optional_payload.11"* noundef nonnull align 8 dereferenceable(33) %this, %"class.std::__cxx11::basic_string"* noundef nonnull align 8 dereferenceable(32) %0) unnamed_addr #24 comdat align 2 {
entry:
  %1 = bitcast %"struct.std::_Optional_payload.11"* %this to %"struct.std::_Optional_payload.12"*
  call void @_ZNSt17_Optional_payloadINSt7__cxx1112basic_stringIcSt11char_traitsIcESaIcEEELb1ELb0ELb0EECI2St22_Optional_payload_baseIS5_EIJRKS5_EEESt10in_place_tDpOT_(%"struct.std::_Optional_payload.12"* noundef nonnull align 8 dereferenceable(33) %1, %"class.std::__cxx11::basic_string"* noundef nonnull align 8 dereferenceable(32) %0)
  ret void
}

; Function Attrs: inlinehint noinline uwtable
define linkonce_odr dso_local void @_ZNSt17_Optional_payloadINSt7__cxx1112basic_stringIcSt11char_traitsIcESaIcEEELb1ELb0ELb0EECI2St22_Optional_payload_baseIS5_EIJRKS5_EEESt10in_place_tDpOT_(%"struct.std::_Optional_payload.12"* noundef nonnull align 8 dereferenceable(33) %this, %"class.std::__cxx11::basic_string"* noundef nonnull align 8 dereferenceable(32) %0) unnamed_addr #24 comdat align 2 {
entry:
  %1 = bitcast %"struct.std::_Optional_payload.12"* %this to %"struct.std::_Optional_payload_base.13"*
  call void @_ZNSt22_Optional_payload_baseINSt7__cxx1112basic_stringIcSt11char_traitsIcESaIcEEEEC2IJRKS5_EEESt10in_place_tDpOT_(%"struct.std::_Optional_payload_base.13"* noundef nonnull align 8 dereferenceable(33) %1, %"class.std::__cxx11::basic_string"* noundef nonnull align 8 dereferenceable(32) %0)
  ret void
}

; Function Attrs: noinline uwtable
define linkonce_odr dso_local void @_ZNSt22_Optional_payload_baseINSt7__cxx1112basic_stringIcSt11char_traitsIcESaIcEEEEC2IJRKS5_EEESt10in_place_tDpOT_(%"struct.std::_Optional_payload_base.13"* noundef nonnull align 8 dereferenceable(33) %this, %"class.std::__cxx11::basic_string"* noundef nonnull align 8 dereferenceable(32) %__args) unnamed_addr #5 comdat align 2 {
entry:
  %_M_payload = getelementptr inbounds %"struct.std::_Optional_payload_base.13", %"struct.std::_Optional_payload_base.13"* %this, i64 0, i32 0
  call void @_ZNSt22_Optional_payload_baseINSt7__cxx1112basic_stringIcSt11char_traitsIcESaIcEEEE8_StorageIS5_Lb0EEC2IJRKS5_EEESt10in_place_tDpOT_(%"union.std::_Optional_payload_base<std::__cxx11::basic_string<char>>::_Storage"* noundef nonnull align 8 dereferenceable(32) %_M_payload, %"class.std::__cxx11::basic_string"* noundef nonnull align 8 dereferenceable(32) %__args)
  %_M_engaged = getelementptr inbounds %"struct.std::_Optional_payload_base.13", %"struct.std::_Optional_payload_base.13"* %this, i64 0, i32 1
  store i8 1, i8* %_M_engaged, align 8, !tbaa !83
  ret void
}

; Function Attrs: noinline uwtable
define linkonce_odr dso_local void @_ZNSt22_Optional_payload_baseINSt7__cxx1112basic_stringIcSt11char_traitsIcESaIcEEEE8_StorageIS5_Lb0EEC2IJRKS5_EEESt10in_place_tDpOT_(%"union.std::_Optional_payload_base<std::__cxx11::basic_string<char>>::_Storage"* noundef nonnull align 8 dereferenceable(32) %this, %"class.std::__cxx11::basic_string"* noundef nonnull align 8 dereferenceable(32) %__args) unnamed_addr #5 comdat align 2 {
entry:
  %_M_value = getelementptr inbounds %"union.std::_Optional_payload_base<std::__cxx11::basic_string<char>>::_Storage", %"union.std::_Optional_payload_base<std::__cxx11::basic_string<char>>::_Storage"* %this, i64 0, i32 0
  call void @_ZNSt7__cxx1112basic_stringIcSt11char_traitsIcESaIcEEC2ERKS4_(%"class.std::__cxx11::basic_string"* noundef nonnull align 8 dereferenceable(32) %_M_value, %"class.std::__cxx11::basic_string"* noundef nonnull align 8 dereferenceable(32) %__args)
  ret void
}

; Function Attrs: mustprogress noinline nounwind uwtable
define linkonce_odr dso_local noundef zeroext i1 @_ZNKSt19_Optional_base_implIN8Pistache4Http4Mime1QESt14_Optional_baseIS3_Lb1ELb1EEE13_M_is_engagedEv(%"class.std::_Optional_base_impl"* noundef nonnull align 1 dereferenceable(1) %this) local_unnamed_addr #8 comdat align 2 {
entry:
  %0 = getelementptr inbounds %"class.std::_Optional_base_impl", %"class.std::_Optional_base_impl"* %this, i64 2, i32 0
  %1 = load i8, i8* %0, align 2, !tbaa !78, !range !85
  %tobool = icmp ne i8 %1, 0
  ret i1 %tobool
}

; Function Attrs: mustprogress noinline nounwind uwtable
define linkonce_odr dso_local noundef nonnull align 2 dereferenceable(2) %"class.Pistache::Http::Mime::Q"* @_ZNKSt19_Optional_base_implIN8Pistache4Http4Mime1QESt14_Optional_baseIS3_Lb1ELb1EEE6_M_getEv(%"class.std::_Optional_base_impl"* noundef nonnull align 1 dereferenceable(1) %this) local_unnamed_addr #8 comdat align 2 {
entry:
  %0 = bitcast %"class.std::_Optional_base_impl"* %this to %"struct.std::_Optional_payload_base"*
  %call = call noundef nonnull align 2 dereferenceable(2) %"class.Pistache::Http::Mime::Q"* @_ZNKSt22_Optional_payload_baseIN8Pistache4Http4Mime1QEE6_M_getEv(%"struct.std::_Optional_payload_base"* noundef nonnull align 2 dereferenceable(3) %0) #29
  ret %"class.Pistache::Http::Mime::Q"* %call
}

; Function Attrs: mustprogress noinline nounwind uwtable
define linkonce_odr dso_local noundef nonnull align 2 dereferenceable(2) %"class.Pistache::Http::Mime::Q"* @_ZNKSt22_Optional_payload_baseIN8Pistache4Http4Mime1QEE6_M_getEv(%"struct.std::_Optional_payload_base"* noundef nonnull align 2 dereferenceable(3) %this) local_unnamed_addr #8 comdat align 2 {
entry:
  %_M_value = getelementptr inbounds %"struct.std::_Optional_payload_base", %"struct.std::_Optional_payload_base"* %this, i64 0, i32 0, i32 0
  ret %"class.Pistache::Http::Mime::Q"* %_M_value
}

; Function Attrs: mustprogress noinline nounwind uwtable
define linkonce_odr noundef i8* @_ZNKSt7__cxx1112basic_stringIcSt11char_traitsIcESaIcEE7_M_dataEv(%"class.std::__cxx11::basic_string"* noundef nonnull align 8 dereferenceable(32) %this) local_unnamed_addr #8 align 2 {
entry:
  %_M_p = getelementptr inbounds %"class.std::__cxx11::basic_string", %"class.std::__cxx11::basic_string"* %this, i64 0, i32 0, i32 0
  %0 = load i8*, i8** %_M_p, align 8, !tbaa !86
  ret i8* %0
}

; Function Attrs: mustprogress noinline uwtable
define linkonce_odr void @_ZNSt7__cxx1112basic_stringIcSt11char_traitsIcESaIcEE10_M_disposeEv(%"class.std::__cxx11::basic_string"* noundef nonnull align 8 dereferenceable(32) %this) local_unnamed_addr #13 align 2 {
entry:
  %call = call noundef zeroext i1 @_ZNKSt7__cxx1112basic_stringIcSt11char_traitsIcESaIcEE11_M_is_localEv(%"class.std::__cxx11::basic_string"* noundef nonnull align 8 dereferenceable(32) %this)
  br i1 %call, label %if.end, label %if.then

if.then:                                          ; preds = %entry
  %_M_allocated_capacity = getelementptr inbounds %"class.std::__cxx11::basic_string", %"class.std::__cxx11::basic_string"* %this, i64 0, i32 2, i32 0
  %0 = load i64, i64* %_M_allocated_capacity, align 8, !tbaa !44
  call void @_ZNSt7__cxx1112basic_stringIcSt11char_traitsIcESaIcEE10_M_destroyEm(%"class.std::__cxx11::basic_string"* noundef nonnull align 8 dereferenceable(32) %this, i64 noundef %0) #29
  br label %if.end

if.end:                                           ; preds = %if.then, %entry
  ret void
}

; Function Attrs: mustprogress noinline uwtable
define linkonce_odr noundef zeroext i1 @_ZNKSt7__cxx1112basic_stringIcSt11char_traitsIcESaIcEE11_M_is_localEv(%"class.std::__cxx11::basic_string"* noundef nonnull align 8 dereferenceable(32) %this) local_unnamed_addr #13 align 2 {
entry:
  %call = call noundef i8* @_ZNKSt7__cxx1112basic_stringIcSt11char_traitsIcESaIcEE7_M_dataEv(%"class.std::__cxx11::basic_string"* noundef nonnull align 8 dereferenceable(32) %this)
  %call2 = call noundef i8* @_ZNKSt7__cxx1112basic_stringIcSt11char_traitsIcESaIcEE13_M_local_dataEv(%"class.std::__cxx11::basic_string"* noundef nonnull align 8 dereferenceable(32) %this)
  %cmp = icmp eq i8* %call, %call2
  ret i1 %cmp
}

; Function Attrs: mustprogress noinline nounwind uwtable
define linkonce_odr void @_ZNSt7__cxx1112basic_stringIcSt11char_traitsIcESaIcEE10_M_destroyEm(%"class.std::__cxx11::basic_string"* noundef nonnull align 8 dereferenceable(32) %this, i64 noundef %__size) local_unnamed_addr #8 align 2 personality i8* bitcast (i32 (...)* @__gxx_personality_v0 to i8*) {
entry:
  %call = call noundef nonnull align 1 dereferenceable(1) %"class.std::allocator"* @_ZNSt7__cxx1112basic_stringIcSt11char_traitsIcESaIcEE16_M_get_allocatorEv(%"class.std::__cxx11::basic_string"* noundef nonnull align 8 dereferenceable(32) %this)
  %call2 = call noundef i8* @_ZNKSt7__cxx1112basic_stringIcSt11char_traitsIcESaIcEE7_M_dataEv(%"class.std::__cxx11::basic_string"* noundef nonnull align 8 dereferenceable(32) %this)
  call void @_ZdlPv(i8* noundef %call2) #33
  ret void
}

; Function Attrs: mustprogress noinline nounwind uwtable
define linkonce_odr noundef i8* @_ZNKSt7__cxx1112basic_stringIcSt11char_traitsIcESaIcEE13_M_local_dataEv(%"class.std::__cxx11::basic_string"* noundef nonnull align 8 dereferenceable(32) %this) local_unnamed_addr #8 align 2 {
entry:
  %0 = getelementptr inbounds %"class.std::__cxx11::basic_string", %"class.std::__cxx11::basic_string"* %this, i64 0, i32 2
  %arraydecay = bitcast %union.anon* %0 to i8*
  ret i8* %arraydecay
}

; Function Attrs: mustprogress noinline nounwind uwtable
define linkonce_odr noundef nonnull align 1 dereferenceable(1) %"class.std::allocator"* @_ZNSt7__cxx1112basic_stringIcSt11char_traitsIcESaIcEE16_M_get_allocatorEv(%"class.std::__cxx11::basic_string"* noundef nonnull align 8 dereferenceable(32) %this) local_unnamed_addr #8 align 2 {
entry:
  %0 = bitcast %"class.std::__cxx11::basic_string"* %this to %"class.std::allocator"*
  ret %"class.std::allocator"* %0
}

; Function Attrs: mustprogress noinline nounwind uwtable
define linkonce_odr noundef i8* @_ZNSt7__cxx1112basic_stringIcSt11char_traitsIcESaIcEE13_M_local_dataEv(%"class.std::__cxx11::basic_string"* noundef nonnull align 8 dereferenceable(32) %this) local_unnamed_addr #8 align 2 {
entry:
  %0 = getelementptr inbounds %"class.std::__cxx11::basic_string", %"class.std::__cxx11::basic_string"* %this, i64 0, i32 2
  %arraydecay = bitcast %union.anon* %0 to i8*
  ret i8* %arraydecay
}

; Function Attrs: noinline nounwind uwtable
define linkonce_odr void @_ZNSt7__cxx1112basic_stringIcSt11char_traitsIcESaIcEE12_Alloc_hiderC2EPcOS3_(%"struct.std::__cxx11::basic_string<char>::_Alloc_hider"* noundef nonnull align 8 dereferenceable(8) %this, i8* noundef %__dat, %"class.std::allocator"* noundef nonnull align 1 dereferenceable(1) %__a) unnamed_addr #11 align 2 {
entry:
  %_M_p = getelementptr inbounds %"struct.std::__cxx11::basic_string<char>::_Alloc_hider", %"struct.std::__cxx11::basic_string<char>::_Alloc_hider"* %this, i64 0, i32 0
  store i8* %__dat, i8** %_M_p, align 8, !tbaa !87
  ret void
}

; Function Attrs: mustprogress noinline nounwind uwtable
define linkonce_odr noundef i64 @_ZNKSt7__cxx1112basic_stringIcSt11char_traitsIcESaIcEE6lengthEv(%"class.std::__cxx11::basic_string"* noundef nonnull align 8 dereferenceable(32) %this) local_unnamed_addr #8 align 2 {
entry:
  %_M_string_length = getelementptr inbounds %"class.std::__cxx11::basic_string", %"class.std::__cxx11::basic_string"* %this, i64 0, i32 1
  %0 = load i64, i64* %_M_string_length, align 8, !tbaa !31
  ret i64 %0
}

; Function Attrs: mustprogress noinline nounwind uwtable
define linkonce_odr void @_ZNSt7__cxx1112basic_stringIcSt11char_traitsIcESaIcEE7_M_dataEPc(%"class.std::__cxx11::basic_string"* noundef nonnull align 8 dereferenceable(32) %this, i8* noundef %__p) local_unnamed_addr #8 align 2 {
entry:
  %_M_p = getelementptr inbounds %"class.std::__cxx11::basic_string", %"class.std::__cxx11::basic_string"* %this, i64 0, i32 0, i32 0
  store i8* %__p, i8** %_M_p, align 8, !tbaa !86
  ret void
}

; Function Attrs: mustprogress noinline nounwind uwtable
define linkonce_odr void @_ZNSt7__cxx1112basic_stringIcSt11char_traitsIcESaIcEE11_M_capacityEm(%"class.std::__cxx11::basic_string"* noundef nonnull align 8 dereferenceable(32) %this, i64 noundef %__capacity) local_unnamed_addr #8 align 2 {
entry:
  %_M_allocated_capacity = getelementptr inbounds %"class.std::__cxx11::basic_string", %"class.std::__cxx11::basic_string"* %this, i64 0, i32 2, i32 0
  store i64 %__capacity, i64* %_M_allocated_capacity, align 8, !tbaa !44
  ret void
}

; Function Attrs: mustprogress noinline nounwind uwtable
define linkonce_odr void @_ZNSt7__cxx1112basic_stringIcSt11char_traitsIcESaIcEE9_M_lengthEm(%"class.std::__cxx11::basic_string"* noundef nonnull align 8 dereferenceable(32) %this, i64 noundef %__length) local_unnamed_addr #8 align 2 {
entry:
  %_M_string_length = getelementptr inbounds %"class.std::__cxx11::basic_string", %"class.std::__cxx11::basic_string"* %this, i64 0, i32 1
  store i64 %__length, i64* %_M_string_length, align 8, !tbaa !31
  ret void
}

; Function Attrs: mustprogress noinline nounwind uwtable
define linkonce_odr void @_ZNSt7__cxx1112basic_stringIcSt11char_traitsIcESaIcEE13_M_set_lengthEm(%"class.std::__cxx11::basic_string"* noundef nonnull align 8 dereferenceable(32) %this, i64 noundef %__n) local_unnamed_addr #8 align 2 {
entry:
  call void @_ZNSt7__cxx1112basic_stringIcSt11char_traitsIcESaIcEE9_M_lengthEm(%"class.std::__cxx11::basic_string"* noundef nonnull align 8 dereferenceable(32) %this, i64 noundef %__n)
  %call = call noundef i8* @_ZNKSt7__cxx1112basic_stringIcSt11char_traitsIcESaIcEE7_M_dataEv(%"class.std::__cxx11::basic_string"* noundef nonnull align 8 dereferenceable(32) %this)
  %arrayidx = getelementptr inbounds i8, i8* %call, i64 %__n
  store i8 0, i8* %arrayidx, align 1, !tbaa !44
  ret void
}

; Function Attrs: noinline nounwind uwtable
define linkonce_odr void @_ZNSt7__cxx1112basic_stringIcSt11char_traitsIcESaIcEE12_Alloc_hiderC2EPcRKS3_(%"struct.std::__cxx11::basic_string<char>::_Alloc_hider"* noundef nonnull align 8 dereferenceable(8) %this, i8* noundef %__dat, %"class.std::allocator"* noundef nonnull align 1 dereferenceable(1) %__a) unnamed_addr #11 align 2 {
entry:
  %_M_p = getelementptr inbounds %"struct.std::__cxx11::basic_string<char>::_Alloc_hider", %"struct.std::__cxx11::basic_string<char>::_Alloc_hider"* %this, i64 0, i32 0
  store i8* %__dat, i8** %_M_p, align 8, !tbaa !87
  ret void
}

; Function Attrs: noreturn
declare void @_ZSt19__throw_logic_errorPKc(i8* noundef) local_unnamed_addr #25

; Function Attrs: noinline uwtable
define linkonce_odr dso_local void @_ZNSt7__cxx1112basic_stringIcSt11char_traitsIcESaIcEE12_M_constructIPKcEEvT_S8_St20forward_iterator_tag(%"class.std::__cxx11::basic_string"* noundef nonnull align 8 dereferenceable(32) %this, i8* noundef %__beg, i8* noundef %__end) local_unnamed_addr #5 comdat align 2 personality i32 (...)* @__gxx_personality_v0 {
entry:
  %__dnew = alloca i64, align 8
  %0 = bitcast i64* %__dnew to i8*
  call void @llvm.lifetime.start.p0i8(i64 8, i8* nonnull %0) #29
  %sub.ptr.lhs.cast.i.i = ptrtoint i8* %__end to i64
  %sub.ptr.rhs.cast.i.i = ptrtoint i8* %__beg to i64
  %sub.ptr.sub.i.i = sub i64 %sub.ptr.lhs.cast.i.i, %sub.ptr.rhs.cast.i.i
  store i64 %sub.ptr.sub.i.i, i64* %__dnew, align 8, !tbaa !88
  %cmp = icmp ugt i64 %sub.ptr.sub.i.i, 15
  br i1 %cmp, label %if.then, label %if.else

if.then:                                          ; preds = %entry
  %call2 = call noundef i8* @_ZNSt7__cxx1112basic_stringIcSt11char_traitsIcESaIcEE9_M_createERmm(%"class.std::__cxx11::basic_string"* noundef nonnull align 8 dereferenceable(32) %this, i64* noundef nonnull align 8 dereferenceable(8) %__dnew, i64 noundef 0)
  call void @_ZNSt7__cxx1112basic_stringIcSt11char_traitsIcESaIcEE7_M_dataEPc(%"class.std::__cxx11::basic_string"* noundef nonnull align 8 dereferenceable(32) %this, i8* noundef %call2)
  %1 = load i64, i64* %__dnew, align 8, !tbaa !88
  call void @_ZNSt7__cxx1112basic_stringIcSt11char_traitsIcESaIcEE11_M_capacityEm(%"class.std::__cxx11::basic_string"* noundef nonnull align 8 dereferenceable(32) %this, i64 noundef %1)
  br label %if.end

if.else:                                          ; preds = %entry
  %call.i = call noundef i8* @_ZNSt7__cxx1112basic_stringIcSt11char_traitsIcESaIcEE13_M_local_dataEv(%"class.std::__cxx11::basic_string"* noundef nonnull align 8 dereferenceable(32) %this) #29
  br label %if.end

if.end:                                           ; preds = %if.else, %if.then
  %call4 = call noundef i8* @_ZNKSt7__cxx1112basic_stringIcSt11char_traitsIcESaIcEE7_M_dataEv(%"class.std::__cxx11::basic_string"* noundef nonnull align 8 dereferenceable(32) %this)
  call void @_ZNSt7__cxx1112basic_stringIcSt11char_traitsIcESaIcEE13_S_copy_charsEPcPKcS7_(i8* noundef %call4, i8* noundef %__beg, i8* noundef %__end) #29
  %2 = load i64, i64* %__dnew, align 8, !tbaa !88
  call void @_ZNSt7__cxx1112basic_stringIcSt11char_traitsIcESaIcEE13_M_set_lengthEm(%"class.std::__cxx11::basic_string"* noundef nonnull align 8 dereferenceable(32) %this, i64 noundef %2)
  call void @llvm.lifetime.end.p0i8(i64 8, i8* nonnull %0) #29
  ret void
}

declare noundef i8* @_ZNSt7__cxx1112basic_stringIcSt11char_traitsIcESaIcEE9_M_createERmm(%"class.std::__cxx11::basic_string"* noundef nonnull align 8 dereferenceable(32), i64* noundef nonnull align 8 dereferenceable(8), i64 noundef) local_unnamed_addr #0

; Function Attrs: mustprogress noinline nounwind uwtable
define linkonce_odr void @_ZNSt7__cxx1112basic_stringIcSt11char_traitsIcESaIcEE13_S_copy_charsEPcPKcS7_(i8* noundef %__p, i8* noundef %__k1, i8* noundef %__k2) local_unnamed_addr #8 align 2 personality i8* bitcast (i32 (...)* @__gxx_personality_v0 to i8*) {
entry:
  %sub.ptr.lhs.cast = ptrtoint i8* %__k2 to i64
  %sub.ptr.rhs.cast = ptrtoint i8* %__k1 to i64
  %sub.ptr.sub = sub i64 %sub.ptr.lhs.cast, %sub.ptr.rhs.cast
  call void @_ZNSt7__cxx1112basic_stringIcSt11char_traitsIcESaIcEE7_S_copyEPcPKcm(i8* noundef %__p, i8* noundef %__k1, i64 noundef %sub.ptr.sub)
  ret void
}

; Function Attrs: mustprogress noinline nounwind uwtable
define linkonce_odr void @_ZNSt7__cxx1112basic_stringIcSt11char_traitsIcESaIcEE7_S_copyEPcPKcm(i8* noundef %__d, i8* noundef %__s, i64 noundef %__n) local_unnamed_addr #8 align 2 {
entry:
  switch i64 %__n, label %if.end.i [
    i64 1, label %if.then
    i64 0, label %if.end
  ]

if.then:                                          ; preds = %entry
  %0 = load i8, i8* %__s, align 1, !tbaa !44
  store i8 %0, i8* %__d, align 1, !tbaa !44
  br label %if.end

if.end.i:                                         ; preds = %entry
  call void @llvm.memcpy.p0i8.p0i8.i64(i8* align 1 %__d, i8* align 1 %__s, i64 %__n, i1 false) #29
  br label %if.end

if.end:                                           ; preds = %if.end.i, %entry, %if.then
  ret void
}

; Function Attrs: mustprogress noinline uwtable
define linkonce_odr noundef nonnull align 8 dereferenceable(32) %"class.std::__cxx11::basic_string"* @_ZNSt7__cxx1112basic_stringIcSt11char_traitsIcESaIcEE6appendEPKc(%"class.std::__cxx11::basic_string"* noundef nonnull align 8 dereferenceable(32) %this, i8* noundef %__s) local_unnamed_addr #13 align 2 {
entry:
  %call.i = call i64 @strlen(i8* noundef nonnull dereferenceable(1) %__s) #29
  call void @_ZNKSt7__cxx1112basic_stringIcSt11char_traitsIcESaIcEE15_M_check_lengthEmmPKc(%"class.std::__cxx11::basic_string"* noundef nonnull align 8 dereferenceable(32) %this, i64 noundef 0, i64 noundef %call.i, i8* noundef getelementptr inbounds ([21 x i8], [21 x i8]* @.str.59, i64 0, i64 0))
  %call2 = call noundef nonnull align 8 dereferenceable(32) %"class.std::__cxx11::basic_string"* @_ZNSt7__cxx1112basic_stringIcSt11char_traitsIcESaIcEE9_M_appendEPKcm(%"class.std::__cxx11::basic_string"* noundef nonnull align 8 dereferenceable(32) %this, i8* noundef %__s, i64 noundef %call.i)
  ret %"class.std::__cxx11::basic_string"* %call2
}

; Function Attrs: mustprogress noinline uwtable
define linkonce_odr void @_ZNKSt7__cxx1112basic_stringIcSt11char_traitsIcESaIcEE15_M_check_lengthEmmPKc(%"class.std::__cxx11::basic_string"* noundef nonnull align 8 dereferenceable(32) %this, i64 noundef %__n1, i64 noundef %__n2, i8* noundef %__s) local_unnamed_addr #13 align 2 {
entry:
  %call = call noundef i64 @_ZNKSt7__cxx1112basic_stringIcSt11char_traitsIcESaIcEE8max_sizeEv(%"class.std::__cxx11::basic_string"* noundef nonnull align 8 dereferenceable(32) %this) #29
  %call2 = call noundef i64 @_ZNKSt7__cxx1112basic_stringIcSt11char_traitsIcESaIcEE4sizeEv(%"class.std::__cxx11::basic_string"* noundef nonnull align 8 dereferenceable(32) %this) #29
  %sub.neg = add i64 %call, %__n1
  %sub3 = sub i64 %sub.neg, %call2
  %cmp = icmp ult i64 %sub3, %__n2
  br i1 %cmp, label %if.then, label %if.end

if.then:                                          ; preds = %entry
  call void @_ZSt20__throw_length_errorPKc(i8* noundef %__s) #30
  unreachable

if.end:                                           ; preds = %entry
  ret void
}

declare noundef nonnull align 8 dereferenceable(32) %"class.std::__cxx11::basic_string"* @_ZNSt7__cxx1112basic_stringIcSt11char_traitsIcESaIcEE9_M_appendEPKcm(%"class.std::__cxx11::basic_string"* noundef nonnull align 8 dereferenceable(32), i8* noundef, i64 noundef) local_unnamed_addr #0

; Function Attrs: argmemonly mustprogress nofree nounwind readonly willreturn
declare i64 @strlen(i8* nocapture noundef) local_unnamed_addr #10

; Function Attrs: mustprogress noinline nounwind uwtable
define linkonce_odr noundef i64 @_ZNKSt7__cxx1112basic_stringIcSt11char_traitsIcESaIcEE8max_sizeEv(%"class.std::__cxx11::basic_string"* noundef nonnull align 8 dereferenceable(32) %this) local_unnamed_addr #8 align 2 personality i8* bitcast (i32 (...)* @__gxx_personality_v0 to i8*) {
entry:
  %call = call noundef nonnull align 1 dereferenceable(1) %"class.std::allocator"* @_ZNKSt7__cxx1112basic_stringIcSt11char_traitsIcESaIcEE16_M_get_allocatorEv(%"class.std::__cxx11::basic_string"* noundef nonnull align 8 dereferenceable(32) %this)
  %0 = bitcast %"class.std::allocator"* %call to %"class.std::__new_allocator"*
  %call.i = call noundef i64 @_ZNKSt15__new_allocatorIcE8max_sizeEv(%"class.std::__new_allocator"* noundef nonnull align 1 dereferenceable(1) %0) #29
  %sub = add i64 %call.i, -1
  %div = lshr i64 %sub, 1
  ret i64 %div
}

; Function Attrs: noreturn
declare void @_ZSt20__throw_length_errorPKc(i8* noundef) local_unnamed_addr #25

; Function Attrs: mustprogress noinline nounwind uwtable
define linkonce_odr noundef nonnull align 1 dereferenceable(1) %"class.std::allocator"* @_ZNKSt7__cxx1112basic_stringIcSt11char_traitsIcESaIcEE16_M_get_allocatorEv(%"class.std::__cxx11::basic_string"* noundef nonnull align 8 dereferenceable(32) %this) local_unnamed_addr #8 align 2 {
entry:
  %0 = bitcast %"class.std::__cxx11::basic_string"* %this to %"class.std::allocator"*
  ret %"class.std::allocator"* %0
}

; Function Attrs: mustprogress noinline nounwind uwtable
define linkonce_odr dso_local noundef i64 @_ZNKSt15__new_allocatorIcE8max_sizeEv(%"class.std::__new_allocator"* noundef nonnull align 1 dereferenceable(1) %this) local_unnamed_addr #8 comdat align 2 {
entry:
  %call = call noundef i64 @_ZNKSt15__new_allocatorIcE11_M_max_sizeEv(%"class.std::__new_allocator"* noundef nonnull align 1 dereferenceable(1) %this) #29
  ret i64 %call
}

; Function Attrs: mustprogress noinline nounwind uwtable
define linkonce_odr dso_local noundef i64 @_ZNKSt15__new_allocatorIcE11_M_max_sizeEv(%"class.std::__new_allocator"* noundef nonnull align 1 dereferenceable(1) %this) local_unnamed_addr #8 comdat align 2 {
entry:
  ret i64 9223372036854775807
}

; Function Attrs: noinline uwtable
define linkonce_odr dso_local void @_ZN9__gnu_cxx14__alloc_traitsISaIcEcE17_S_select_on_copyERKS1_(%"class.std::allocator"* noalias sret(%"class.std::allocator") align 1 %agg.result, %"class.std::allocator"* noundef nonnull align 1 dereferenceable(1) %__a) local_unnamed_addr #5 comdat align 2 {
entry:
  ret void
}

; Function Attrs: noinline uwtable
define linkonce_odr dso_local void @_ZNSt7__cxx1112basic_stringIcSt11char_traitsIcESaIcEE12_M_constructIPcEEvT_S7_St20forward_iterator_tag(%"class.std::__cxx11::basic_string"* noundef nonnull align 8 dereferenceable(32) %this, i8* noundef %__beg, i8* noundef %__end) local_unnamed_addr #5 comdat align 2 personality i32 (...)* @__gxx_personality_v0 {
entry:
  %__dnew = alloca i64, align 8
  %0 = bitcast i64* %__dnew to i8*
  call void @llvm.lifetime.start.p0i8(i64 8, i8* nonnull %0) #29
  %sub.ptr.lhs.cast.i.i = ptrtoint i8* %__end to i64
  %sub.ptr.rhs.cast.i.i = ptrtoint i8* %__beg to i64
  %sub.ptr.sub.i.i = sub i64 %sub.ptr.lhs.cast.i.i, %sub.ptr.rhs.cast.i.i
  store i64 %sub.ptr.sub.i.i, i64* %__dnew, align 8, !tbaa !88
  %cmp = icmp ugt i64 %sub.ptr.sub.i.i, 15
  br i1 %cmp, label %if.then, label %if.else

if.then:                                          ; preds = %entry
  %call2 = call noundef i8* @_ZNSt7__cxx1112basic_stringIcSt11char_traitsIcESaIcEE9_M_createERmm(%"class.std::__cxx11::basic_string"* noundef nonnull align 8 dereferenceable(32) %this, i64* noundef nonnull align 8 dereferenceable(8) %__dnew, i64 noundef 0)
  call void @_ZNSt7__cxx1112basic_stringIcSt11char_traitsIcESaIcEE7_M_dataEPc(%"class.std::__cxx11::basic_string"* noundef nonnull align 8 dereferenceable(32) %this, i8* noundef %call2)
  %1 = load i64, i64* %__dnew, align 8, !tbaa !88
  call void @_ZNSt7__cxx1112basic_stringIcSt11char_traitsIcESaIcEE11_M_capacityEm(%"class.std::__cxx11::basic_string"* noundef nonnull align 8 dereferenceable(32) %this, i64 noundef %1)
  br label %if.end

if.else:                                          ; preds = %entry
  %call.i = call noundef i8* @_ZNSt7__cxx1112basic_stringIcSt11char_traitsIcESaIcEE13_M_local_dataEv(%"class.std::__cxx11::basic_string"* noundef nonnull align 8 dereferenceable(32) %this) #29
  br label %if.end

if.end:                                           ; preds = %if.else, %if.then
  %call4 = call noundef i8* @_ZNKSt7__cxx1112basic_stringIcSt11char_traitsIcESaIcEE7_M_dataEv(%"class.std::__cxx11::basic_string"* noundef nonnull align 8 dereferenceable(32) %this)
  call void @_ZNSt7__cxx1112basic_stringIcSt11char_traitsIcESaIcEE13_S_copy_charsEPcS5_S5_(i8* noundef %call4, i8* noundef %__beg, i8* noundef %__end) #29
  %2 = load i64, i64* %__dnew, align 8, !tbaa !88
  call void @_ZNSt7__cxx1112basic_stringIcSt11char_traitsIcESaIcEE13_M_set_lengthEm(%"class.std::__cxx11::basic_string"* noundef nonnull align 8 dereferenceable(32) %this, i64 noundef %2)
  call void @llvm.lifetime.end.p0i8(i64 8, i8* nonnull %0) #29
  ret void
}

; Function Attrs: mustprogress noinline nounwind uwtable
define linkonce_odr void @_ZNSt7__cxx1112basic_stringIcSt11char_traitsIcESaIcEE13_S_copy_charsEPcS5_S5_(i8* noundef %__p, i8* noundef %__k1, i8* noundef %__k2) local_unnamed_addr #8 align 2 {
entry:
  %sub.ptr.lhs.cast = ptrtoint i8* %__k2 to i64
  %sub.ptr.rhs.cast = ptrtoint i8* %__k1 to i64
  %sub.ptr.sub = sub i64 %sub.ptr.lhs.cast, %sub.ptr.rhs.cast
  call void @_ZNSt7__cxx1112basic_stringIcSt11char_traitsIcESaIcEE7_S_copyEPcPKcm(i8* noundef %__p, i8* noundef %__k1, i64 noundef %sub.ptr.sub)
  ret void
}

; Function Attrs: mustprogress noinline nounwind uwtable
define linkonce_odr dso_local noundef zeroext i1 @_ZN9__gnu_cxx14__alloc_traitsISaIcEcE15_S_always_equalEv() local_unnamed_addr #8 comdat align 2 {
entry:
  ret i1 true
}

; Function Attrs: mustprogress noinline nounwind uwtable
define linkonce_odr dso_local noundef zeroext i1 @_ZStneRKSaIcES1_(%"class.std::allocator"* noundef nonnull align 1 dereferenceable(1) %0, %"class.std::allocator"* noundef nonnull align 1 dereferenceable(1) %1) local_unnamed_addr #8 comdat {
entry:
  ret i1 false
}

; Function Attrs: inlinehint mustprogress noinline nounwind uwtable
define linkonce_odr dso_local void @_ZSt15__alloc_on_moveISaIcEEvRT_S2_(%"class.std::allocator"* noundef nonnull align 1 dereferenceable(1) %__one, %"class.std::allocator"* noundef nonnull align 1 dereferenceable(1) %__two) local_unnamed_addr #17 comdat {
entry:
  ret void
}

; Function Attrs: mustprogress noinline nounwind uwtable
define linkonce_odr void @_ZNSt7__cxx1112basic_stringIcSt11char_traitsIcESaIcEE5clearEv(%"class.std::__cxx11::basic_string"* noundef nonnull align 8 dereferenceable(32) %this) local_unnamed_addr #8 align 2 {
entry:
  call void @_ZNSt7__cxx1112basic_stringIcSt11char_traitsIcESaIcEE13_M_set_lengthEm(%"class.std::__cxx11::basic_string"* noundef nonnull align 8 dereferenceable(32) %this, i64 noundef 0)
  ret void
}

; Function Attrs: mustprogress noinline nounwind uwtable
define linkonce_odr dso_local %"struct.std::__detail::_Hash_node"* @_ZNKSt10_HashtableINSt7__cxx1112basic_stringIcSt11char_traitsIcESaIcEEESt4pairIKS5_S5_ESaIS8_ENSt8__detail10_Select1stESt8equal_toIS5_ESt4hashIS5_ENSA_18_Mod_range_hashingENSA_20_Default_ranged_hashENSA_20_Prime_rehash_policyENSA_17_Hashtable_traitsILb1ELb0ELb1EEEE5beginEv(%"class.std::_Hashtable"* noundef nonnull align 8 dereferenceable(56) %this) local_unnamed_addr #8 comdat align 2 {
entry:
  %retval = alloca %"struct.std::__detail::_Node_const_iterator", align 8
  %call = call noundef %"struct.std::__detail::_Hash_node"* @_ZNKSt10_HashtableINSt7__cxx1112basic_stringIcSt11char_traitsIcESaIcEEESt4pairIKS5_S5_ESaIS8_ENSt8__detail10_Select1stESt8equal_toIS5_ESt4hashIS5_ENSA_18_Mod_range_hashingENSA_20_Default_ranged_hashENSA_20_Prime_rehash_policyENSA_17_Hashtable_traitsILb1ELb0ELb1EEEE8_M_beginEv(%"class.std::_Hashtable"* noundef nonnull align 8 dereferenceable(56) %this)
  call void @_ZNSt8__detail20_Node_const_iteratorISt4pairIKNSt7__cxx1112basic_stringIcSt11char_traitsIcESaIcEEES7_ELb0ELb1EEC2EPNS_10_Hash_nodeIS9_Lb1EEE(%"struct.std::__detail::_Node_const_iterator"* noundef nonnull align 8 dereferenceable(8) %retval, %"struct.std::__detail::_Hash_node"* noundef %call) #29
  %coerce.dive2 = getelementptr inbounds %"struct.std::__detail::_Node_const_iterator", %"struct.std::__detail::_Node_const_iterator"* %retval, i64 0, i32 0, i32 0
  %0 = load %"struct.std::__detail::_Hash_node"*, %"struct.std::__detail::_Hash_node"** %coerce.dive2, align 8
  ret %"struct.std::__detail::_Hash_node"* %0
}

; Function Attrs: noinline nounwind uwtable
define linkonce_odr dso_local void @_ZNSt8__detail20_Node_const_iteratorISt4pairIKNSt7__cxx1112basic_stringIcSt11char_traitsIcESaIcEEES7_ELb0ELb1EEC2EPNS_10_Hash_nodeIS9_Lb1EEE(%"struct.std::__detail::_Node_const_iterator"* noundef nonnull align 8 dereferenceable(8) %this, %"struct.std::__detail::_Hash_node"* noundef %__p) unnamed_addr #11 comdat align 2 {
entry:
  %0 = getelementptr inbounds %"struct.std::__detail::_Node_const_iterator", %"struct.std::__detail::_Node_const_iterator"* %this, i64 0, i32 0
  call void @_ZNSt8__detail19_Node_iterator_baseISt4pairIKNSt7__cxx1112basic_stringIcSt11char_traitsIcESaIcEEES7_ELb1EEC2EPNS_10_Hash_nodeIS9_Lb1EEE(%"struct.std::__detail::_Node_iterator_base"* noundef nonnull align 8 dereferenceable(8) %0, %"struct.std::__detail::_Hash_node"* noundef %__p) #29
  ret void
}

; Function Attrs: noinline nounwind uwtable
define linkonce_odr dso_local void @_ZNSt8__detail19_Node_iterator_baseISt4pairIKNSt7__cxx1112basic_stringIcSt11char_traitsIcESaIcEEES7_ELb1EEC2EPNS_10_Hash_nodeIS9_Lb1EEE(%"struct.std::__detail::_Node_iterator_base"* noundef nonnull align 8 dereferenceable(8) %this, %"struct.std::__detail::_Hash_node"* noundef %__p) unnamed_addr #11 comdat align 2 {
entry:
  %_M_cur = getelementptr inbounds %"struct.std::__detail::_Node_iterator_base", %"struct.std::__detail::_Node_iterator_base"* %this, i64 0, i32 0
  store %"struct.std::__detail::_Hash_node"* %__p, %"struct.std::__detail::_Hash_node"** %_M_cur, align 8, !tbaa !68
  ret void
}

; Function Attrs: mustprogress noinline nounwind uwtable
define linkonce_odr dso_local %"struct.std::__detail::_Hash_node"* @_ZNKSt10_HashtableINSt7__cxx1112basic_stringIcSt11char_traitsIcESaIcEEESt4pairIKS5_S5_ESaIS8_ENSt8__detail10_Select1stESt8equal_toIS5_ESt4hashIS5_ENSA_18_Mod_range_hashingENSA_20_Default_ranged_hashENSA_20_Prime_rehash_policyENSA_17_Hashtable_traitsILb1ELb0ELb1EEEE3endEv(%"class.std::_Hashtable"* noundef nonnull align 8 dereferenceable(56) %this) local_unnamed_addr #8 comdat align 2 {
entry:
  %retval = alloca %"struct.std::__detail::_Node_const_iterator", align 8
  call void @_ZNSt8__detail20_Node_const_iteratorISt4pairIKNSt7__cxx1112basic_stringIcSt11char_traitsIcESaIcEEES7_ELb0ELb1EEC2EPNS_10_Hash_nodeIS9_Lb1EEE(%"struct.std::__detail::_Node_const_iterator"* noundef nonnull align 8 dereferenceable(8) %retval, %"struct.std::__detail::_Hash_node"* noundef null) #29
  %coerce.dive2 = getelementptr inbounds %"struct.std::__detail::_Node_const_iterator", %"struct.std::__detail::_Node_const_iterator"* %retval, i64 0, i32 0, i32 0
  %0 = load %"struct.std::__detail::_Hash_node"*, %"struct.std::__detail::_Hash_node"** %coerce.dive2, align 8
  ret %"struct.std::__detail::_Hash_node"* %0
}

; Function Attrs: inlinehint nounwind uwtable
define linkonce_odr dso_local void @_ZN8Pistache12RawStreamBufIcED0Ev(%"class.Pistache::RawStreamBuf"* noundef nonnull align 8 dereferenceable(64) %this) unnamed_addr #26 comdat align 2 {
entry:
  %0 = getelementptr inbounds %"class.Pistache::RawStreamBuf", %"class.Pistache::RawStreamBuf"* %this, i64 0, i32 0, i32 0, i32 0
  store i32 (...)** bitcast (i8** getelementptr inbounds ({ [16 x i8*] }, { [16 x i8*] }* @_ZTVSt15basic_streambufIcSt11char_traitsIcEE, i64 0, inrange i32 0, i64 2) to i32 (...)**), i32 (...)*** %0, align 8, !tbaa !35
  %_M_buf_locale.i = getelementptr inbounds %"class.Pistache::RawStreamBuf", %"class.Pistache::RawStreamBuf"* %this, i64 0, i32 0, i32 0, i32 7
  call void @_ZNSt6localeD1Ev(%"class.std::locale"* noundef nonnull align 8 dereferenceable(8) %_M_buf_locale.i) #29
  %1 = bitcast %"class.Pistache::RawStreamBuf"* %this to i8*
  call void @_ZdlPv(i8* noundef %1) #33
  ret void
}

; Function Attrs: mustprogress nounwind uwtable
declare void @_ZNSt15basic_streambufIcSt11char_traitsIcEE5imbueERKSt6locale(%"class.std::basic_streambuf"* noundef nonnull align 8 dereferenceable(64), %"class.std::locale"* noundef nonnull align 8 dereferenceable(8)) unnamed_addr #15 align 2

; Function Attrs: mustprogress nounwind uwtable
declare noundef %"class.std::basic_streambuf"* @_ZNSt15basic_streambufIcSt11char_traitsIcEE6setbufEPcl(%"class.std::basic_streambuf"* noundef nonnull align 8 dereferenceable(64), i8* noundef, i64 noundef) unnamed_addr #15 align 2

; Function Attrs: mustprogress uwtable
declare { i64, i64 } @_ZNSt15basic_streambufIcSt11char_traitsIcEE7seekoffElSt12_Ios_SeekdirSt13_Ios_Openmode(%"class.std::basic_streambuf"* noundef nonnull align 8 dereferenceable(64), i64 noundef, i32 noundef, i32 noundef) unnamed_addr #16 align 2

; Function Attrs: mustprogress uwtable
declare { i64, i64 } @_ZNSt15basic_streambufIcSt11char_traitsIcEE7seekposESt4fposI11__mbstate_tESt13_Ios_Openmode(%"class.std::basic_streambuf"* noundef nonnull align 8 dereferenceable(64), i64, i64, i32 noundef) unnamed_addr #16 align 2

; Function Attrs: mustprogress nounwind uwtable
declare noundef i32 @_ZNSt15basic_streambufIcSt11char_traitsIcEE4syncEv(%"class.std::basic_streambuf"* noundef nonnull align 8 dereferenceable(64)) unnamed_addr #15 align 2

; Function Attrs: mustprogress nounwind uwtable
declare noundef i64 @_ZNSt15basic_streambufIcSt11char_traitsIcEE9showmanycEv(%"class.std::basic_streambuf"* noundef nonnull align 8 dereferenceable(64)) unnamed_addr #15 align 2

declare noundef i64 @_ZNSt15basic_streambufIcSt11char_traitsIcEE6xsgetnEPcl(%"class.std::basic_streambuf"* noundef nonnull align 8 dereferenceable(64), i8* noundef, i64 noundef) unnamed_addr #0

; Function Attrs: mustprogress nounwind uwtable
declare noundef i32 @_ZNSt15basic_streambufIcSt11char_traitsIcEE9underflowEv(%"class.std::basic_streambuf"* noundef nonnull align 8 dereferenceable(64)) unnamed_addr #15 align 2

; Function Attrs: mustprogress uwtable
declare noundef i32 @_ZNSt15basic_streambufIcSt11char_traitsIcEE5uflowEv(%"class.std::basic_streambuf"* noundef nonnull align 8 dereferenceable(64)) unnamed_addr #16 align 2

; Function Attrs: mustprogress nounwind uwtable
declare noundef i32 @_ZNSt15basic_streambufIcSt11char_traitsIcEE9pbackfailEi(%"class.std::basic_streambuf"* noundef nonnull align 8 dereferenceable(64), i32 noundef) unnamed_addr #15 align 2

declare noundef i64 @_ZNSt15basic_streambufIcSt11char_traitsIcEE6xsputnEPKcl(%"class.std::basic_streambuf"* noundef nonnull align 8 dereferenceable(64), i8* noundef, i64 noundef) unnamed_addr #0

; Function Attrs: mustprogress nounwind uwtable
declare noundef i32 @_ZNSt15basic_streambufIcSt11char_traitsIcEE8overflowEi(%"class.std::basic_streambuf"* noundef nonnull align 8 dereferenceable(64), i32 noundef) unnamed_addr #15 align 2

; Function Attrs: nounwind uwtable
declare void @_ZNSt15basic_streambufIcSt11char_traitsIcEED2Ev(%"class.std::basic_streambuf"* noundef nonnull align 8 dereferenceable(64)) unnamed_addr #9 align 2

; Function Attrs: nounwind
declare void @_ZNSt6localeC1Ev(%"class.std::locale"* noundef nonnull align 8 dereferenceable(8)) unnamed_addr #1

; Function Attrs: mustprogress noinline nounwind uwtable
define linkonce_odr dso_local noundef nonnull align 2 dereferenceable(2) %"class.Pistache::Http::Mime::Q"* @_ZNSt19_Optional_base_implIN8Pistache4Http4Mime1QESt14_Optional_baseIS3_Lb1ELb1EEE6_M_getEv(%"class.std::_Optional_base_impl"* noundef nonnull align 1 dereferenceable(1) %this) local_unnamed_addr #8 comdat align 2 {
entry:
  %0 = bitcast %"class.std::_Optional_base_impl"* %this to %"struct.std::_Optional_payload_base"*
  %call = call noundef nonnull align 2 dereferenceable(2) %"class.Pistache::Http::Mime::Q"* @_ZNSt22_Optional_payload_baseIN8Pistache4Http4Mime1QEE6_M_getEv(%"struct.std::_Optional_payload_base"* noundef nonnull align 2 dereferenceable(3) %0) #29
  ret %"class.Pistache::Http::Mime::Q"* %call
}

; Function Attrs: mustprogress noinline nounwind uwtable
define linkonce_odr dso_local void @_ZNSt19_Optional_base_implIN8Pistache4Http4Mime1QESt14_Optional_baseIS3_Lb1ELb1EEE12_M_constructIJS3_EEEvDpOT_(%"class.std::_Optional_base_impl"* noundef nonnull align 1 dereferenceable(1) %this, %"class.Pistache::Http::Mime::Q"* noundef nonnull align 2 dereferenceable(2) %__args) local_unnamed_addr #8 comdat align 2 {
entry:
  %0 = bitcast %"class.std::_Optional_base_impl"* %this to %"struct.std::_Optional_payload_base"*
  call void @_ZNSt22_Optional_payload_baseIN8Pistache4Http4Mime1QEE12_M_constructIJS3_EEEvDpOT_(%"struct.std::_Optional_payload_base"* noundef nonnull align 2 dereferenceable(3) %0, %"class.Pistache::Http::Mime::Q"* noundef nonnull align 2 dereferenceable(2) %__args) #29
  ret void
}

; Function Attrs: mustprogress noinline nounwind uwtable
define linkonce_odr dso_local noundef nonnull align 2 dereferenceable(2) %"class.Pistache::Http::Mime::Q"* @_ZNSt22_Optional_payload_baseIN8Pistache4Http4Mime1QEE6_M_getEv(%"struct.std::_Optional_payload_base"* noundef nonnull align 2 dereferenceable(3) %this) local_unnamed_addr #8 comdat align 2 {
entry:
  %_M_value = getelementptr inbounds %"struct.std::_Optional_payload_base", %"struct.std::_Optional_payload_base"* %this, i64 0, i32 0, i32 0
  ret %"class.Pistache::Http::Mime::Q"* %_M_value
}

; Function Attrs: mustprogress noinline nounwind uwtable
define linkonce_odr dso_local void @_ZNSt22_Optional_payload_baseIN8Pistache4Http4Mime1QEE12_M_constructIJS3_EEEvDpOT_(%"struct.std::_Optional_payload_base"* noundef nonnull align 2 dereferenceable(3) %this, %"class.Pistache::Http::Mime::Q"* noundef nonnull align 2 dereferenceable(2) %__args) local_unnamed_addr #8 comdat align 2 personality i8* bitcast (i32 (...)* @__gxx_personality_v0 to i8*) {
entry:
  %_M_value = getelementptr inbounds %"struct.std::_Optional_payload_base", %"struct.std::_Optional_payload_base"* %this, i64 0, i32 0, i32 0
  call void @_ZSt10_ConstructIN8Pistache4Http4Mime1QEJS3_EEvPT_DpOT0_(%"class.Pistache::Http::Mime::Q"* noundef nonnull %_M_value, %"class.Pistache::Http::Mime::Q"* noundef nonnull align 2 dereferenceable(2) %__args)
  %_M_engaged = getelementptr inbounds %"struct.std::_Optional_payload_base", %"struct.std::_Optional_payload_base"* %this, i64 0, i32 1
  store i8 1, i8* %_M_engaged, align 2, !tbaa !78
  ret void
}

; Function Attrs: inlinehint mustprogress noinline nounwind uwtable
define linkonce_odr dso_local void @_ZSt10_ConstructIN8Pistache4Http4Mime1QEJS3_EEvPT_DpOT0_(%"class.Pistache::Http::Mime::Q"* noundef %__p, %"class.Pistache::Http::Mime::Q"* noundef nonnull align 2 dereferenceable(2) %__args) local_unnamed_addr #17 comdat {
entry:
  %0 = getelementptr inbounds %"class.Pistache::Http::Mime::Q", %"class.Pistache::Http::Mime::Q"* %__args, i64 0, i32 0
  %1 = getelementptr %"class.Pistache::Http::Mime::Q", %"class.Pistache::Http::Mime::Q"* %__p, i64 0, i32 0
  %2 = load i16, i16* %0, align 2, !tbaa !67
  store i16 %2, i16* %1, align 2, !tbaa !67
  ret void
}

; Function Attrs: mustprogress noinline uwtable
define linkonce_odr dso_local { %"struct.std::__detail::_Hash_node"*, i8 } @_ZNSt10_HashtableINSt7__cxx1112basic_stringIcSt11char_traitsIcESaIcEEESt4pairIKS5_S5_ESaIS8_ENSt8__detail10_Select1stESt8equal_toIS5_ESt4hashIS5_ENSA_18_Mod_range_hashingENSA_20_Default_ranged_hashENSA_20_Prime_rehash_policyENSA_17_Hashtable_traitsILb1ELb0ELb1EEEE7emplaceIJS6_IS5_S5_EEEES6_INSA_14_Node_iteratorIS8_Lb0ELb1EEEbEDpOT_(%"class.std::_Hashtable"* noundef nonnull align 8 dereferenceable(56) %this, %"struct.std::pair.5"* noundef nonnull align 8 dereferenceable(64) %__args) local_unnamed_addr #13 comdat align 2 {
entry:
  %call2 = call { %"struct.std::__detail::_Hash_node"*, i8 } @_ZNSt10_HashtableINSt7__cxx1112basic_stringIcSt11char_traitsIcESaIcEEESt4pairIKS5_S5_ESaIS8_ENSt8__detail10_Select1stESt8equal_toIS5_ESt4hashIS5_ENSA_18_Mod_range_hashingENSA_20_Default_ranged_hashENSA_20_Prime_rehash_policyENSA_17_Hashtable_traitsILb1ELb0ELb1EEEE10_M_emplaceIJS6_IS5_S5_EEEES6_INSA_14_Node_iteratorIS8_Lb0ELb1EEEbESt17integral_constantIbLb1EEDpOT_(%"class.std::_Hashtable"* noundef nonnull align 8 dereferenceable(56) %this, %"struct.std::pair.5"* noundef nonnull align 8 dereferenceable(64) %__args)
  ret { %"struct.std::__detail::_Hash_node"*, i8 } %call2
}

; Function Attrs: mustprogress noinline uwtable
define linkonce_odr dso_local { %"struct.std::__detail::_Hash_node"*, i8 } @_ZNSt10_HashtableINSt7__cxx1112basic_stringIcSt11char_traitsIcESaIcEEESt4pairIKS5_S5_ESaIS8_ENSt8__detail10_Select1stESt8equal_toIS5_ESt4hashIS5_ENSA_18_Mod_range_hashingENSA_20_Default_ranged_hashENSA_20_Prime_rehash_policyENSA_17_Hashtable_traitsILb1ELb0ELb1EEEE10_M_emplaceIJS6_IS5_S5_EEEES6_INSA_14_Node_iteratorIS8_Lb0ELb1EEEbESt17integral_constantIbLb1EEDpOT_(%"class.std::_Hashtable"* noundef nonnull align 8 dereferenceable(56) %this, %"struct.std::pair.5"* noundef nonnull align 8 dereferenceable(64) %__args) local_unnamed_addr #13 comdat align 2 personality i8* bitcast (i32 (...)* @__gxx_personality_v0 to i8*) {
entry:
  %retval = alloca { %"struct.std::__detail::_Hash_node"*, i8 }, align 8
  %tmpcast = bitcast { %"struct.std::__detail::_Hash_node"*, i8 }* %retval to %"struct.std::pair"*
  %__node = alloca %"struct.std::_Hashtable<std::__cxx11::basic_string<char>, std::pair<const std::__cxx11::basic_string<char>, std::__cxx11::basic_string<char>>, std::allocator<std::pair<const std::__cxx11::basic_string<char>, std::__cxx11::basic_string<char>>>, std::__detail::_Select1st, std::equal_to<std::__cxx11::basic_string<char>>, std::hash<std::string>, std::__detail::_Mod_range_hashing, std::__detail::_Default_ranged_hash, std::__detail::_Prime_rehash_policy, std::__detail::_Hashtable_traits<true, false, true>>::_Scoped_node", align 8
  %ref.tmp = alloca %"struct.std::__detail::_Select1st", align 1
  %__it = alloca %"struct.std::__detail::_Node_iterator", align 8
  %ref.tmp8 = alloca %"struct.std::__detail::_Node_iterator", align 8
  %ref.tmp16 = alloca i8, align 1
  %ref.tmp35 = alloca %"struct.std::__detail::_Node_iterator", align 8
  %ref.tmp36 = alloca i8, align 1
  %__pos = alloca %"struct.std::__detail::_Node_iterator", align 8
  %ref.tmp53 = alloca i8, align 1
  %0 = bitcast %"struct.std::_Hashtable<std::__cxx11::basic_string<char>, std::pair<const std::__cxx11::basic_string<char>, std::__cxx11::basic_string<char>>, std::allocator<std::pair<const std::__cxx11::basic_string<char>, std::__cxx11::basic_string<char>>>, std::__detail::_Select1st, std::equal_to<std::__cxx11::basic_string<char>>, std::hash<std::string>, std::__detail::_Mod_range_hashing, std::__detail::_Default_ranged_hash, std::__detail::_Prime_rehash_policy, std::__detail::_Hashtable_traits<true, false, true>>::_Scoped_node"* %__node to i8*
  call void @llvm.lifetime.start.p0i8(i64 16, i8* nonnull %0) #29
  %1 = bitcast %"class.std::_Hashtable"* %this to %"struct.std::__detail::_Hashtable_alloc"*
  call void @_ZNSt10_HashtableINSt7__cxx1112basic_stringIcSt11char_traitsIcESaIcEEESt4pairIKS5_S5_ESaIS8_ENSt8__detail10_Select1stESt8equal_toIS5_ESt4hashIS5_ENSA_18_Mod_range_hashingENSA_20_Default_ranged_hashENSA_20_Prime_rehash_policyENSA_17_Hashtable_traitsILb1ELb0ELb1EEEE12_Scoped_nodeC2IJS6_IS5_S5_EEEEPNSA_16_Hashtable_allocISaINSA_10_Hash_nodeIS8_Lb1EEEEEEDpOT_(%"struct.std::_Hashtable<std::__cxx11::basic_string<char>, std::pair<const std::__cxx11::basic_string<char>, std::__cxx11::basic_string<char>>, std::allocator<std::pair<const std::__cxx11::basic_string<char>, std::__cxx11::basic_string<char>>>, std::__detail::_Select1st, std::equal_to<std::__cxx11::basic_string<char>>, std::hash<std::string>, std::__detail::_Mod_range_hashing, std::__detail::_Default_ranged_hash, std::__detail::_Prime_rehash_policy, std::__detail::_Hashtable_traits<true, false, true>>::_Scoped_node"* noundef nonnull align 8 dereferenceable(16) %__node, %"struct.std::__detail::_Hashtable_alloc"* noundef nonnull %1, %"struct.std::pair.5"* noundef nonnull align 8 dereferenceable(64) %__args)
  %2 = getelementptr inbounds %"struct.std::__detail::_Select1st", %"struct.std::__detail::_Select1st"* %ref.tmp, i64 0, i32 0
  call void @llvm.lifetime.start.p0i8(i64 1, i8* nonnull %2) #29
  %_M_node = getelementptr inbounds %"struct.std::_Hashtable<std::__cxx11::basic_string<char>, std::pair<const std::__cxx11::basic_string<char>, std::__cxx11::basic_string<char>>, std::allocator<std::pair<const std::__cxx11::basic_string<char>, std::__cxx11::basic_string<char>>>, std::__detail::_Select1st, std::equal_to<std::__cxx11::basic_string<char>>, std::hash<std::string>, std::__detail::_Mod_range_hashing, std::__detail::_Default_ranged_hash, std::__detail::_Prime_rehash_policy, std::__detail::_Hashtable_traits<true, false, true>>::_Scoped_node", %"struct.std::_Hashtable<std::__cxx11::basic_string<char>, std::pair<const std::__cxx11::basic_string<char>, std::__cxx11::basic_string<char>>, std::allocator<std::pair<const std::__cxx11::basic_string<char>, std::__cxx11::basic_string<char>>>, std::__detail::_Select1st, std::equal_to<std::__cxx11::basic_string<char>>, std::hash<std::string>, std::__detail::_Mod_range_hashing, std::__detail::_Default_ranged_hash, std::__detail::_Prime_rehash_policy, std::__detail::_Hashtable_traits<true, false, true>>::_Scoped_node"* %__node, i64 0, i32 1
  %3 = bitcast %"struct.std::__detail::_Hash_node"** %_M_node to i8**
  %4 = load i8*, i8** %3, align 8, !tbaa !89
  %add.ptr = getelementptr inbounds i8, i8* %4, i64 8
  %5 = bitcast i8* %add.ptr to %"struct.std::__detail::_Hash_node_value_base"*
  %call2 = call noundef nonnull align 8 dereferenceable(64) %"struct.std::pair.18"* @_ZNSt8__detail21_Hash_node_value_baseISt4pairIKNSt7__cxx1112basic_stringIcSt11char_traitsIcESaIcEEES7_EE4_M_vEv(%"struct.std::__detail::_Hash_node_value_base"* noundef nonnull align 8 dereferenceable(64) %5) #29
  %call3 = call noundef nonnull align 8 dereferenceable(32) %"class.std::__cxx11::basic_string"* @_ZNKSt8__detail10_Select1stclIRSt4pairIKNSt7__cxx1112basic_stringIcSt11char_traitsIcESaIcEEES8_EEEONS0_10__1st_typeIT_E4typeEOSD_(%"struct.std::__detail::_Select1st"* noundef nonnull align 1 dereferenceable(1) %ref.tmp, %"struct.std::pair.18"* noundef nonnull align 8 dereferenceable(64) %call2) #29
  call void @llvm.lifetime.end.p0i8(i64 1, i8* nonnull %2) #29
  %call4 = call noundef i64 @_ZNKSt10_HashtableINSt7__cxx1112basic_stringIcSt11char_traitsIcESaIcEEESt4pairIKS5_S5_ESaIS8_ENSt8__detail10_Select1stESt8equal_toIS5_ESt4hashIS5_ENSA_18_Mod_range_hashingENSA_20_Default_ranged_hashENSA_20_Prime_rehash_policyENSA_17_Hashtable_traitsILb1ELb0ELb1EEEE4sizeEv(%"class.std::_Hashtable"* noundef nonnull align 8 dereferenceable(56) %this) #29
  %call5 = call noundef i64 @_ZNSt10_HashtableINSt7__cxx1112basic_stringIcSt11char_traitsIcESaIcEEESt4pairIKS5_S5_ESaIS8_ENSt8__detail10_Select1stESt8equal_toIS5_ESt4hashIS5_ENSA_18_Mod_range_hashingENSA_20_Default_ranged_hashENSA_20_Prime_rehash_policyENSA_17_Hashtable_traitsILb1ELb0ELb1EEEE22__small_size_thresholdEv() #29
  %cmp.not = icmp ugt i64 %call4, %call5
  br i1 %cmp.not, label %if.end20, label %if.then

if.then:                                          ; preds = %entry
  %6 = bitcast %"struct.std::__detail::_Node_iterator"* %__it to i8*
  call void @llvm.lifetime.start.p0i8(i64 8, i8* nonnull %6) #29
  %call6 = call %"struct.std::__detail::_Hash_node"* @_ZNSt10_HashtableINSt7__cxx1112basic_stringIcSt11char_traitsIcESaIcEEESt4pairIKS5_S5_ESaIS8_ENSt8__detail10_Select1stESt8equal_toIS5_ESt4hashIS5_ENSA_18_Mod_range_hashingENSA_20_Default_ranged_hashENSA_20_Prime_rehash_policyENSA_17_Hashtable_traitsILb1ELb0ELb1EEEE5beginEv(%"class.std::_Hashtable"* noundef nonnull align 8 dereferenceable(56) %this) #29
  %coerce.dive7 = getelementptr inbounds %"struct.std::__detail::_Node_iterator", %"struct.std::__detail::_Node_iterator"* %__it, i64 0, i32 0, i32 0
  store %"struct.std::__detail::_Hash_node"* %call6, %"struct.std::__detail::_Hash_node"** %coerce.dive7, align 8
  %7 = getelementptr inbounds %"struct.std::__detail::_Node_iterator", %"struct.std::__detail::_Node_iterator"* %__it, i64 0, i32 0
  %8 = bitcast %"struct.std::__detail::_Node_iterator"* %ref.tmp8 to i8*
  call void @llvm.lifetime.start.p0i8(i64 8, i8* nonnull %8) #29
  %call922 = call %"struct.std::__detail::_Hash_node"* @_ZNSt10_HashtableINSt7__cxx1112basic_stringIcSt11char_traitsIcESaIcEEESt4pairIKS5_S5_ESaIS8_ENSt8__detail10_Select1stESt8equal_toIS5_ESt4hashIS5_ENSA_18_Mod_range_hashingENSA_20_Default_ranged_hashENSA_20_Prime_rehash_policyENSA_17_Hashtable_traitsILb1ELb0ELb1EEEE3endEv(%"class.std::_Hashtable"* noundef nonnull align 8 dereferenceable(56) %this) #29
  %coerce.dive11 = getelementptr inbounds %"struct.std::__detail::_Node_iterator", %"struct.std::__detail::_Node_iterator"* %ref.tmp8, i64 0, i32 0, i32 0
  store %"struct.std::__detail::_Hash_node"* %call922, %"struct.std::__detail::_Hash_node"** %coerce.dive11, align 8
  %9 = getelementptr inbounds %"struct.std::__detail::_Node_iterator", %"struct.std::__detail::_Node_iterator"* %ref.tmp8, i64 0, i32 0
  %call1223 = call noundef zeroext i1 @_ZNSt8__detailneERKNS_19_Node_iterator_baseISt4pairIKNSt7__cxx1112basic_stringIcSt11char_traitsIcESaIcEEES7_ELb1EEESC_(%"struct.std::__detail::_Node_iterator_base"* noundef nonnull align 8 dereferenceable(8) %7, %"struct.std::__detail::_Node_iterator_base"* noundef nonnull align 8 dereferenceable(8) %9) #29
  call void @llvm.lifetime.end.p0i8(i64 8, i8* nonnull %8) #29
  br i1 %call1223, label %for.body.lr.ph, label %if.end20.critedge

for.body.lr.ph:                                   ; preds = %if.then
  %10 = bitcast %"class.std::_Hashtable"* %this to %"struct.std::__detail::_Hashtable_base"*
  %11 = bitcast %"struct.std::__detail::_Node_iterator"* %__it to i8**
  br label %for.body

for.body:                                         ; preds = %for.body.lr.ph, %for.inc
  %call1224 = phi i1 [ %call1223, %for.body.lr.ph ], [ %call12, %for.inc ]
  %12 = load i8*, i8** %11, align 8, !tbaa !68
  %add.ptr13 = getelementptr inbounds i8, i8* %12, i64 8
  %13 = bitcast i8* %add.ptr13 to %"struct.std::__detail::_Hash_node_value"*
  %call14 = invoke noundef zeroext i1 @_ZNKSt8__detail15_Hashtable_baseINSt7__cxx1112basic_stringIcSt11char_traitsIcESaIcEEESt4pairIKS6_S6_ENS_10_Select1stESt8equal_toIS6_ESt4hashIS6_ENS_18_Mod_range_hashingENS_20_Default_ranged_hashENS_17_Hashtable_traitsILb1ELb0ELb1EEEE13_M_key_equalsERS8_RKNS_16_Hash_node_valueIS9_Lb1EEE(%"struct.std::__detail::_Hashtable_base"* noundef nonnull align 1 dereferenceable(1) %10, %"class.std::__cxx11::basic_string"* noundef nonnull align 8 dereferenceable(32) %call3, %"struct.std::__detail::_Hash_node_value"* noundef nonnull align 8 dereferenceable(72) %13)
          to label %invoke.cont unwind label %lpad

invoke.cont:                                      ; preds = %for.body
  br i1 %call14, label %if.then15, label %for.inc

if.then15:                                        ; preds = %invoke.cont
  call void @llvm.lifetime.start.p0i8(i64 1, i8* nonnull %ref.tmp16) #29
  store i8 0, i8* %ref.tmp16, align 1, !tbaa !91
  call void @_ZNSt4pairINSt8__detail14_Node_iteratorIS_IKNSt7__cxx1112basic_stringIcSt11char_traitsIcESaIcEEES7_ELb0ELb1EEEbEC2IRSA_bLb1EEEOT_OT0_(%"struct.std::pair"* noundef nonnull align 8 dereferenceable(9) %tmpcast, %"struct.std::__detail::_Node_iterator"* noundef nonnull align 8 dereferenceable(8) %__it, i8* noundef nonnull align 1 dereferenceable(1) %ref.tmp16)
  call void @llvm.lifetime.end.p0i8(i64 1, i8* nonnull %ref.tmp16) #29
  call void @llvm.lifetime.end.p0i8(i64 8, i8* nonnull %6) #29
  br i1 %call1224, label %cleanup63, label %if.end20

lpad:                                             ; preds = %for.body
  %14 = landingpad { i8*, i32 }
          cleanup
  call void @llvm.lifetime.end.p0i8(i64 8, i8* nonnull %6) #29
  br label %ehcleanup64

for.inc:                                          ; preds = %invoke.cont
  %call19 = call noundef nonnull align 8 dereferenceable(8) %"struct.std::__detail::_Node_iterator"* @_ZNSt8__detail14_Node_iteratorISt4pairIKNSt7__cxx1112basic_stringIcSt11char_traitsIcESaIcEEES7_ELb0ELb1EEppEv(%"struct.std::__detail::_Node_iterator"* noundef nonnull align 8 dereferenceable(8) %__it) #29
  call void @llvm.lifetime.start.p0i8(i64 8, i8* nonnull %8) #29
  %call9 = call %"struct.std::__detail::_Hash_node"* @_ZNSt10_HashtableINSt7__cxx1112basic_stringIcSt11char_traitsIcESaIcEEESt4pairIKS5_S5_ESaIS8_ENSt8__detail10_Select1stESt8equal_toIS5_ESt4hashIS5_ENSA_18_Mod_range_hashingENSA_20_Default_ranged_hashENSA_20_Prime_rehash_policyENSA_17_Hashtable_traitsILb1ELb0ELb1EEEE3endEv(%"class.std::_Hashtable"* noundef nonnull align 8 dereferenceable(56) %this) #29
  store %"struct.std::__detail::_Hash_node"* %call9, %"struct.std::__detail::_Hash_node"** %coerce.dive11, align 8
  %call12 = call noundef zeroext i1 @_ZNSt8__detailneERKNS_19_Node_iterator_baseISt4pairIKNSt7__cxx1112basic_stringIcSt11char_traitsIcESaIcEEES7_ELb1EEESC_(%"struct.std::__detail::_Node_iterator_base"* noundef nonnull align 8 dereferenceable(8) %7, %"struct.std::__detail::_Node_iterator_base"* noundef nonnull align 8 dereferenceable(8) %9) #29
  call void @llvm.lifetime.end.p0i8(i64 8, i8* nonnull %8) #29
  br i1 %call12, label %for.body, label %if.end20.critedge, !llvm.loop !92

if.end20.critedge:                                ; preds = %for.inc, %if.then
  call void @llvm.lifetime.end.p0i8(i64 8, i8* nonnull %6) #29
  br label %if.end20

if.end20:                                         ; preds = %if.end20.critedge, %if.then15, %entry
  %15 = bitcast %"class.std::_Hashtable"* %this to %"struct.std::__detail::_Hash_code_base"*
  %call23 = invoke noundef i64 @_ZNKSt8__detail15_Hash_code_baseINSt7__cxx1112basic_stringIcSt11char_traitsIcESaIcEEESt4pairIKS6_S6_ENS_10_Select1stESt4hashIS6_ENS_18_Mod_range_hashingENS_20_Default_ranged_hashELb1EE12_M_hash_codeERS8_(%"struct.std::__detail::_Hash_code_base"* noundef nonnull align 1 dereferenceable(1) %15, %"class.std::__cxx11::basic_string"* noundef nonnull align 8 dereferenceable(32) %call3)
          to label %invoke.cont22 unwind label %lpad21

invoke.cont22:                                    ; preds = %if.end20
  %call26 = invoke noundef i64 @_ZNKSt10_HashtableINSt7__cxx1112basic_stringIcSt11char_traitsIcESaIcEEESt4pairIKS5_S5_ESaIS8_ENSt8__detail10_Select1stESt8equal_toIS5_ESt4hashIS5_ENSA_18_Mod_range_hashingENSA_20_Default_ranged_hashENSA_20_Prime_rehash_policyENSA_17_Hashtable_traitsILb1ELb0ELb1EEEE15_M_bucket_indexEm(%"class.std::_Hashtable"* noundef nonnull align 8 dereferenceable(56) %this, i64 noundef %call23)
          to label %invoke.cont25 unwind label %lpad24

invoke.cont25:                                    ; preds = %invoke.cont22
  %call27 = call noundef i64 @_ZNKSt10_HashtableINSt7__cxx1112basic_stringIcSt11char_traitsIcESaIcEEESt4pairIKS5_S5_ESaIS8_ENSt8__detail10_Select1stESt8equal_toIS5_ESt4hashIS5_ENSA_18_Mod_range_hashingENSA_20_Default_ranged_hashENSA_20_Prime_rehash_policyENSA_17_Hashtable_traitsILb1ELb0ELb1EEEE4sizeEv(%"class.std::_Hashtable"* noundef nonnull align 8 dereferenceable(56) %this) #29
  %call28 = call noundef i64 @_ZNSt10_HashtableINSt7__cxx1112basic_stringIcSt11char_traitsIcESaIcEEESt4pairIKS5_S5_ESaIS8_ENSt8__detail10_Select1stESt8equal_toIS5_ESt4hashIS5_ENSA_18_Mod_range_hashingENSA_20_Default_ranged_hashENSA_20_Prime_rehash_policyENSA_17_Hashtable_traitsILb1ELb0ELb1EEEE22__small_size_thresholdEv() #29
  %cmp29 = icmp ugt i64 %call27, %call28
  br i1 %cmp29, label %if.then30, label %if.end45

if.then30:                                        ; preds = %invoke.cont25
  %call33 = invoke noundef %"struct.std::__detail::_Hash_node"* @_ZNKSt10_HashtableINSt7__cxx1112basic_stringIcSt11char_traitsIcESaIcEEESt4pairIKS5_S5_ESaIS8_ENSt8__detail10_Select1stESt8equal_toIS5_ESt4hashIS5_ENSA_18_Mod_range_hashingENSA_20_Default_ranged_hashENSA_20_Prime_rehash_policyENSA_17_Hashtable_traitsILb1ELb0ELb1EEEE12_M_find_nodeEmRS7_m(%"class.std::_Hashtable"* noundef nonnull align 8 dereferenceable(56) %this, i64 noundef %call26, %"class.std::__cxx11::basic_string"* noundef nonnull align 8 dereferenceable(32) %call3, i64 noundef %call23)
          to label %invoke.cont32 unwind label %lpad31

invoke.cont32:                                    ; preds = %if.then30
  %tobool.not = icmp eq %"struct.std::__detail::_Hash_node"* %call33, null
  br i1 %tobool.not, label %if.end45, label %if.then34

if.then34:                                        ; preds = %invoke.cont32
  %16 = bitcast %"struct.std::__detail::_Node_iterator"* %ref.tmp35 to i8*
  call void @llvm.lifetime.start.p0i8(i64 8, i8* nonnull %16) #29
  call void @_ZNSt8__detail14_Node_iteratorISt4pairIKNSt7__cxx1112basic_stringIcSt11char_traitsIcESaIcEEES7_ELb0ELb1EEC2EPNS_10_Hash_nodeIS9_Lb1EEE(%"struct.std::__detail::_Node_iterator"* noundef nonnull align 8 dereferenceable(8) %ref.tmp35, %"struct.std::__detail::_Hash_node"* noundef nonnull %call33) #29
  call void @llvm.lifetime.start.p0i8(i64 1, i8* nonnull %ref.tmp36) #29
  store i8 0, i8* %ref.tmp36, align 1, !tbaa !91
  call void @_ZNSt4pairINSt8__detail14_Node_iteratorIS_IKNSt7__cxx1112basic_stringIcSt11char_traitsIcESaIcEEES7_ELb0ELb1EEEbEC2ISA_bLb1EEEOT_OT0_(%"struct.std::pair"* noundef nonnull align 8 dereferenceable(9) %tmpcast, %"struct.std::__detail::_Node_iterator"* noundef nonnull align 8 dereferenceable(8) %ref.tmp35, i8* noundef nonnull align 1 dereferenceable(1) %ref.tmp36)
  call void @llvm.lifetime.end.p0i8(i64 1, i8* nonnull %ref.tmp36) #29
  call void @llvm.lifetime.end.p0i8(i64 8, i8* nonnull %16) #29
  br label %cleanup63

lpad21:                                           ; preds = %if.end20
  %17 = landingpad { i8*, i32 }
          cleanup
  br label %ehcleanup64

lpad24:                                           ; preds = %invoke.cont22
  %18 = landingpad { i8*, i32 }
          cleanup
  br label %ehcleanup64

lpad31:                                           ; preds = %if.then30
  %19 = landingpad { i8*, i32 }
          cleanup
  br label %ehcleanup64

if.end45:                                         ; preds = %invoke.cont32, %invoke.cont25
  %20 = bitcast %"struct.std::__detail::_Node_iterator"* %__pos to i8*
  call void @llvm.lifetime.start.p0i8(i64 8, i8* nonnull %20) #29
  %21 = load %"struct.std::__detail::_Hash_node"*, %"struct.std::__detail::_Hash_node"** %_M_node, align 8, !tbaa !89
  %call49 = invoke %"struct.std::__detail::_Hash_node"* @_ZNSt10_HashtableINSt7__cxx1112basic_stringIcSt11char_traitsIcESaIcEEESt4pairIKS5_S5_ESaIS8_ENSt8__detail10_Select1stESt8equal_toIS5_ESt4hashIS5_ENSA_18_Mod_range_hashingENSA_20_Default_ranged_hashENSA_20_Prime_rehash_policyENSA_17_Hashtable_traitsILb1ELb0ELb1EEEE21_M_insert_unique_nodeEmmPNSA_10_Hash_nodeIS8_Lb1EEEm(%"class.std::_Hashtable"* noundef nonnull align 8 dereferenceable(56) %this, i64 noundef %call26, i64 noundef %call23, %"struct.std::__detail::_Hash_node"* noundef %21, i64 noundef 1)
          to label %invoke.cont48 unwind label %lpad47

invoke.cont48:                                    ; preds = %if.end45
  %coerce.dive51 = getelementptr inbounds %"struct.std::__detail::_Node_iterator", %"struct.std::__detail::_Node_iterator"* %__pos, i64 0, i32 0, i32 0
  store %"struct.std::__detail::_Hash_node"* %call49, %"struct.std::__detail::_Hash_node"** %coerce.dive51, align 8
  store %"struct.std::__detail::_Hash_node"* null, %"struct.std::__detail::_Hash_node"** %_M_node, align 8, !tbaa !89
  call void @llvm.lifetime.start.p0i8(i64 1, i8* nonnull %ref.tmp53) #29
  store i8 1, i8* %ref.tmp53, align 1, !tbaa !91
  call void @_ZNSt4pairINSt8__detail14_Node_iteratorIS_IKNSt7__cxx1112basic_stringIcSt11char_traitsIcESaIcEEES7_ELb0ELb1EEEbEC2IRSA_bLb1EEEOT_OT0_(%"struct.std::pair"* noundef nonnull align 8 dereferenceable(9) %tmpcast, %"struct.std::__detail::_Node_iterator"* noundef nonnull align 8 dereferenceable(8) %__pos, i8* noundef nonnull align 1 dereferenceable(1) %ref.tmp53)
  call void @llvm.lifetime.end.p0i8(i64 1, i8* nonnull %ref.tmp53) #29
  call void @llvm.lifetime.end.p0i8(i64 8, i8* nonnull %20) #29
  br label %cleanup63

lpad47:                                           ; preds = %if.end45
  %22 = landingpad { i8*, i32 }
          cleanup
  call void @llvm.lifetime.end.p0i8(i64 8, i8* nonnull %20) #29
  br label %ehcleanup64

cleanup63:                                        ; preds = %if.then34, %invoke.cont48, %if.then15
  call void @_ZNSt10_HashtableINSt7__cxx1112basic_stringIcSt11char_traitsIcESaIcEEESt4pairIKS5_S5_ESaIS8_ENSt8__detail10_Select1stESt8equal_toIS5_ESt4hashIS5_ENSA_18_Mod_range_hashingENSA_20_Default_ranged_hashENSA_20_Prime_rehash_policyENSA_17_Hashtable_traitsILb1ELb0ELb1EEEE12_Scoped_nodeD2Ev(%"struct.std::_Hashtable<std::__cxx11::basic_string<char>, std::pair<const std::__cxx11::basic_string<char>, std::__cxx11::basic_string<char>>, std::allocator<std::pair<const std::__cxx11::basic_string<char>, std::__cxx11::basic_string<char>>>, std::__detail::_Select1st, std::equal_to<std::__cxx11::basic_string<char>>, std::hash<std::string>, std::__detail::_Mod_range_hashing, std::__detail::_Default_ranged_hash, std::__detail::_Prime_rehash_policy, std::__detail::_Hashtable_traits<true, false, true>>::_Scoped_node"* noundef nonnull align 8 dereferenceable(16) %__node) #29
  call void @llvm.lifetime.end.p0i8(i64 16, i8* nonnull %0) #29
  %.fca.0.gep = getelementptr inbounds { %"struct.std::__detail::_Hash_node"*, i8 }, { %"struct.std::__detail::_Hash_node"*, i8 }* %retval, i64 0, i32 0
  %.fca.0.load = load %"struct.std::__detail::_Hash_node"*, %"struct.std::__detail::_Hash_node"** %.fca.0.gep, align 8
  %.fca.0.insert = insertvalue { %"struct.std::__detail::_Hash_node"*, i8 } poison, %"struct.std::__detail::_Hash_node"* %.fca.0.load, 0
  %.fca.1.gep = getelementptr inbounds { %"struct.std::__detail::_Hash_node"*, i8 }, { %"struct.std::__detail::_Hash_node"*, i8 }* %retval, i64 0, i32 1
  %.fca.1.load = load i8, i8* %.fca.1.gep, align 8
  %.fca.1.insert = insertvalue { %"struct.std::__detail::_Hash_node"*, i8 } %.fca.0.insert, i8 %.fca.1.load, 1
  ret { %"struct.std::__detail::_Hash_node"*, i8 } %.fca.1.insert

ehcleanup64:                                      ; preds = %lpad21, %lpad47, %lpad31, %lpad24, %lpad
  %.pn.pn.pn = phi { i8*, i32 } [ %14, %lpad ], [ %17, %lpad21 ], [ %22, %lpad47 ], [ %19, %lpad31 ], [ %18, %lpad24 ]
  call void @_ZNSt10_HashtableINSt7__cxx1112basic_stringIcSt11char_traitsIcESaIcEEESt4pairIKS5_S5_ESaIS8_ENSt8__detail10_Select1stESt8equal_toIS5_ESt4hashIS5_ENSA_18_Mod_range_hashingENSA_20_Default_ranged_hashENSA_20_Prime_rehash_policyENSA_17_Hashtable_traitsILb1ELb0ELb1EEEE12_Scoped_nodeD2Ev(%"struct.std::_Hashtable<std::__cxx11::basic_string<char>, std::pair<const std::__cxx11::basic_string<char>, std::__cxx11::basic_string<char>>, std::allocator<std::pair<const std::__cxx11::basic_string<char>, std::__cxx11::basic_string<char>>>, std::__detail::_Select1st, std::equal_to<std::__cxx11::basic_string<char>>, std::hash<std::string>, std::__detail::_Mod_range_hashing, std::__detail::_Default_ranged_hash, std::__detail::_Prime_rehash_policy, std::__detail::_Hashtable_traits<true, false, true>>::_Scoped_node"* noundef nonnull align 8 dereferenceable(16) %__node) #29
  call void @llvm.lifetime.end.p0i8(i64 16, i8* nonnull %0) #29
  resume { i8*, i32 } %.pn.pn.pn
}

; Function Attrs: noinline uwtable
define linkonce_odr dso_local void @_ZNSt10_HashtableINSt7__cxx1112basic_stringIcSt11char_traitsIcESaIcEEESt4pairIKS5_S5_ESaIS8_ENSt8__detail10_Select1stESt8equal_toIS5_ESt4hashIS5_ENSA_18_Mod_range_hashingENSA_20_Default_ranged_hashENSA_20_Prime_rehash_policyENSA_17_Hashtable_traitsILb1ELb0ELb1EEEE12_Scoped_nodeC2IJS6_IS5_S5_EEEEPNSA_16_Hashtable_allocISaINSA_10_Hash_nodeIS8_Lb1EEEEEEDpOT_(%"struct.std::_Hashtable<std::__cxx11::basic_string<char>, std::pair<const std::__cxx11::basic_string<char>, std::__cxx11::basic_string<char>>, std::allocator<std::pair<const std::__cxx11::basic_string<char>, std::__cxx11::basic_string<char>>>, std::__detail::_Select1st, std::equal_to<std::__cxx11::basic_string<char>>, std::hash<std::string>, std::__detail::_Mod_range_hashing, std::__detail::_Default_ranged_hash, std::__detail::_Prime_rehash_policy, std::__detail::_Hashtable_traits<true, false, true>>::_Scoped_node"* noundef nonnull align 8 dereferenceable(16) %this, %"struct.std::__detail::_Hashtable_alloc"* noundef %__h, %"struct.std::pair.5"* noundef nonnull align 8 dereferenceable(64) %__args) unnamed_addr #5 comdat align 2 {
entry:
  %_M_h = getelementptr inbounds %"struct.std::_Hashtable<std::__cxx11::basic_string<char>, std::pair<const std::__cxx11::basic_string<char>, std::__cxx11::basic_string<char>>, std::allocator<std::pair<const std::__cxx11::basic_string<char>, std::__cxx11::basic_string<char>>>, std::__detail::_Select1st, std::equal_to<std::__cxx11::basic_string<char>>, std::hash<std::string>, std::__detail::_Mod_range_hashing, std::__detail::_Default_ranged_hash, std::__detail::_Prime_rehash_policy, std::__detail::_Hashtable_traits<true, false, true>>::_Scoped_node", %"struct.std::_Hashtable<std::__cxx11::basic_string<char>, std::pair<const std::__cxx11::basic_string<char>, std::__cxx11::basic_string<char>>, std::allocator<std::pair<const std::__cxx11::basic_string<char>, std::__cxx11::basic_string<char>>>, std::__detail::_Select1st, std::equal_to<std::__cxx11::basic_string<char>>, std::hash<std::string>, std::__detail::_Mod_range_hashing, std::__detail::_Default_ranged_hash, std::__detail::_Prime_rehash_policy, std::__detail::_Hashtable_traits<true, false, true>>::_Scoped_node"* %this, i64 0, i32 0
  store %"struct.std::__detail::_Hashtable_alloc"* %__h, %"struct.std::__detail::_Hashtable_alloc"** %_M_h, align 8, !tbaa !93
  %_M_node = getelementptr inbounds %"struct.std::_Hashtable<std::__cxx11::basic_string<char>, std::pair<const std::__cxx11::basic_string<char>, std::__cxx11::basic_string<char>>, std::allocator<std::pair<const std::__cxx11::basic_string<char>, std::__cxx11::basic_string<char>>>, std::__detail::_Select1st, std::equal_to<std::__cxx11::basic_string<char>>, std::hash<std::string>, std::__detail::_Mod_range_hashing, std::__detail::_Default_ranged_hash, std::__detail::_Prime_rehash_policy, std::__detail::_Hashtable_traits<true, false, true>>::_Scoped_node", %"struct.std::_Hashtable<std::__cxx11::basic_string<char>, std::pair<const std::__cxx11::basic_string<char>, std::__cxx11::basic_string<char>>, std::allocator<std::pair<const std::__cxx11::basic_string<char>, std::__cxx11::basic_string<char>>>, std::__detail::_Select1st, std::equal_to<std::__cxx11::basic_string<char>>, std::hash<std::string>, std::__detail::_Mod_range_hashing, std::__detail::_Default_ranged_hash, std::__detail::_Prime_rehash_policy, std::__detail::_Hashtable_traits<true, false, true>>::_Scoped_node"* %this, i64 0, i32 1
  %call2 = call noundef %"struct.std::__detail::_Hash_node"* @_ZNSt8__detail16_Hashtable_allocISaINS_10_Hash_nodeISt4pairIKNSt7__cxx1112basic_stringIcSt11char_traitsIcESaIcEEES8_ELb1EEEEE16_M_allocate_nodeIJS2_IS8_S8_EEEEPSB_DpOT_(%"struct.std::__detail::_Hashtable_alloc"* noundef nonnull align 1 dereferenceable(1) %__h, %"struct.std::pair.5"* noundef nonnull align 8 dereferenceable(64) %__args)
  store %"struct.std::__detail::_Hash_node"* %call2, %"struct.std::__detail::_Hash_node"** %_M_node, align 8, !tbaa !89
  ret void
}

; Function Attrs: mustprogress noinline nounwind uwtable
define linkonce_odr dso_local noundef nonnull align 8 dereferenceable(32) %"class.std::__cxx11::basic_string"* @_ZNKSt8__detail10_Select1stclIRSt4pairIKNSt7__cxx1112basic_stringIcSt11char_traitsIcESaIcEEES8_EEEONS0_10__1st_typeIT_E4typeEOSD_(%"struct.std::__detail::_Select1st"* noundef nonnull align 1 dereferenceable(1) %this, %"struct.std::pair.18"* noundef nonnull align 8 dereferenceable(64) %__x) local_unnamed_addr #8 comdat align 2 {
entry:
  %first = getelementptr inbounds %"struct.std::pair.18", %"struct.std::pair.18"* %__x, i64 0, i32 0
  ret %"class.std::__cxx11::basic_string"* %first
}

; Function Attrs: mustprogress noinline nounwind uwtable
define linkonce_odr dso_local noundef nonnull align 8 dereferenceable(64) %"struct.std::pair.18"* @_ZNSt8__detail21_Hash_node_value_baseISt4pairIKNSt7__cxx1112basic_stringIcSt11char_traitsIcESaIcEEES7_EE4_M_vEv(%"struct.std::__detail::_Hash_node_value_base"* noundef nonnull align 8 dereferenceable(64) %this) local_unnamed_addr #8 comdat align 2 {
entry:
  %call = call noundef %"struct.std::pair.18"* @_ZNSt8__detail21_Hash_node_value_baseISt4pairIKNSt7__cxx1112basic_stringIcSt11char_traitsIcESaIcEEES7_EE9_M_valptrEv(%"struct.std::__detail::_Hash_node_value_base"* noundef nonnull align 8 dereferenceable(64) %this) #29
  ret %"struct.std::pair.18"* %call
}

; Function Attrs: mustprogress noinline nounwind uwtable
define linkonce_odr dso_local noundef i64 @_ZNKSt10_HashtableINSt7__cxx1112basic_stringIcSt11char_traitsIcESaIcEEESt4pairIKS5_S5_ESaIS8_ENSt8__detail10_Select1stESt8equal_toIS5_ESt4hashIS5_ENSA_18_Mod_range_hashingENSA_20_Default_ranged_hashENSA_20_Prime_rehash_policyENSA_17_Hashtable_traitsILb1ELb0ELb1EEEE4sizeEv(%"class.std::_Hashtable"* noundef nonnull align 8 dereferenceable(56) %this) local_unnamed_addr #8 comdat align 2 {
entry:
  %_M_element_count = getelementptr inbounds %"class.std::_Hashtable", %"class.std::_Hashtable"* %this, i64 0, i32 3
  %0 = load i64, i64* %_M_element_count, align 8, !tbaa !73
  ret i64 %0
}

; Function Attrs: mustprogress noinline nounwind uwtable
define linkonce_odr dso_local noundef i64 @_ZNSt10_HashtableINSt7__cxx1112basic_stringIcSt11char_traitsIcESaIcEEESt4pairIKS5_S5_ESaIS8_ENSt8__detail10_Select1stESt8equal_toIS5_ESt4hashIS5_ENSA_18_Mod_range_hashingENSA_20_Default_ranged_hashENSA_20_Prime_rehash_policyENSA_17_Hashtable_traitsILb1ELb0ELb1EEEE22__small_size_thresholdEv() local_unnamed_addr #8 comdat align 2 {
entry:
  %call = call noundef i64 @_ZNSt8__detail22_Hashtable_hash_traitsISt4hashINSt7__cxx1112basic_stringIcSt11char_traitsIcESaIcEEEEE22__small_size_thresholdEv() #29
  ret i64 %call
}

; Function Attrs: mustprogress noinline nounwind uwtable
define linkonce_odr dso_local %"struct.std::__detail::_Hash_node"* @_ZNSt10_HashtableINSt7__cxx1112basic_stringIcSt11char_traitsIcESaIcEEESt4pairIKS5_S5_ESaIS8_ENSt8__detail10_Select1stESt8equal_toIS5_ESt4hashIS5_ENSA_18_Mod_range_hashingENSA_20_Default_ranged_hashENSA_20_Prime_rehash_policyENSA_17_Hashtable_traitsILb1ELb0ELb1EEEE5beginEv(%"class.std::_Hashtable"* noundef nonnull align 8 dereferenceable(56) %this) local_unnamed_addr #8 comdat align 2 {
entry:
  %retval = alloca %"struct.std::__detail::_Node_iterator", align 8
  %call = call noundef %"struct.std::__detail::_Hash_node"* @_ZNKSt10_HashtableINSt7__cxx1112basic_stringIcSt11char_traitsIcESaIcEEESt4pairIKS5_S5_ESaIS8_ENSt8__detail10_Select1stESt8equal_toIS5_ESt4hashIS5_ENSA_18_Mod_range_hashingENSA_20_Default_ranged_hashENSA_20_Prime_rehash_policyENSA_17_Hashtable_traitsILb1ELb0ELb1EEEE8_M_beginEv(%"class.std::_Hashtable"* noundef nonnull align 8 dereferenceable(56) %this)
  call void @_ZNSt8__detail14_Node_iteratorISt4pairIKNSt7__cxx1112basic_stringIcSt11char_traitsIcESaIcEEES7_ELb0ELb1EEC2EPNS_10_Hash_nodeIS9_Lb1EEE(%"struct.std::__detail::_Node_iterator"* noundef nonnull align 8 dereferenceable(8) %retval, %"struct.std::__detail::_Hash_node"* noundef %call) #29
  %coerce.dive2 = getelementptr inbounds %"struct.std::__detail::_Node_iterator", %"struct.std::__detail::_Node_iterator"* %retval, i64 0, i32 0, i32 0
  %0 = load %"struct.std::__detail::_Hash_node"*, %"struct.std::__detail::_Hash_node"** %coerce.dive2, align 8
  ret %"struct.std::__detail::_Hash_node"* %0
}

; Function Attrs: mustprogress noinline nounwind uwtable
define linkonce_odr dso_local %"struct.std::__detail::_Hash_node"* @_ZNSt10_HashtableINSt7__cxx1112basic_stringIcSt11char_traitsIcESaIcEEESt4pairIKS5_S5_ESaIS8_ENSt8__detail10_Select1stESt8equal_toIS5_ESt4hashIS5_ENSA_18_Mod_range_hashingENSA_20_Default_ranged_hashENSA_20_Prime_rehash_policyENSA_17_Hashtable_traitsILb1ELb0ELb1EEEE3endEv(%"class.std::_Hashtable"* noundef nonnull align 8 dereferenceable(56) %this) local_unnamed_addr #8 comdat align 2 {
entry:
  %retval = alloca %"struct.std::__detail::_Node_iterator", align 8
  call void @_ZNSt8__detail14_Node_iteratorISt4pairIKNSt7__cxx1112basic_stringIcSt11char_traitsIcESaIcEEES7_ELb0ELb1EEC2EPNS_10_Hash_nodeIS9_Lb1EEE(%"struct.std::__detail::_Node_iterator"* noundef nonnull align 8 dereferenceable(8) %retval, %"struct.std::__detail::_Hash_node"* noundef null) #29
  %coerce.dive2 = getelementptr inbounds %"struct.std::__detail::_Node_iterator", %"struct.std::__detail::_Node_iterator"* %retval, i64 0, i32 0, i32 0
  %0 = load %"struct.std::__detail::_Hash_node"*, %"struct.std::__detail::_Hash_node"** %coerce.dive2, align 8
  ret %"struct.std::__detail::_Hash_node"* %0
}

; Function Attrs: mustprogress noinline uwtable
define linkonce_odr dso_local noundef zeroext i1 @_ZNKSt8__detail15_Hashtable_baseINSt7__cxx1112basic_stringIcSt11char_traitsIcESaIcEEESt4pairIKS6_S6_ENS_10_Select1stESt8equal_toIS6_ESt4hashIS6_ENS_18_Mod_range_hashingENS_20_Default_ranged_hashENS_17_Hashtable_traitsILb1ELb0ELb1EEEE13_M_key_equalsERS8_RKNS_16_Hash_node_valueIS9_Lb1EEE(%"struct.std::__detail::_Hashtable_base"* noundef nonnull align 1 dereferenceable(1) %this, %"class.std::__cxx11::basic_string"* noundef nonnull align 8 dereferenceable(32) %__k, %"struct.std::__detail::_Hash_node_value"* noundef nonnull align 8 dereferenceable(72) %__n) local_unnamed_addr #13 comdat align 2 {
entry:
  %ref.tmp = alloca %"struct.std::__detail::_Select1st", align 1
  %call = call noundef nonnull align 1 dereferenceable(1) %"struct.std::equal_to"* @_ZNKSt8__detail15_Hashtable_baseINSt7__cxx1112basic_stringIcSt11char_traitsIcESaIcEEESt4pairIKS6_S6_ENS_10_Select1stESt8equal_toIS6_ESt4hashIS6_ENS_18_Mod_range_hashingENS_20_Default_ranged_hashENS_17_Hashtable_traitsILb1ELb0ELb1EEEE5_M_eqEv(%"struct.std::__detail::_Hashtable_base"* noundef nonnull align 1 dereferenceable(1) %this)
  %0 = getelementptr inbounds %"struct.std::__detail::_Select1st", %"struct.std::__detail::_Select1st"* %ref.tmp, i64 0, i32 0
  call void @llvm.lifetime.start.p0i8(i64 1, i8* nonnull %0) #29
  %1 = getelementptr inbounds %"struct.std::__detail::_Hash_node_value", %"struct.std::__detail::_Hash_node_value"* %__n, i64 0, i32 0
  %call2 = call noundef nonnull align 8 dereferenceable(64) %"struct.std::pair.18"* @_ZNKSt8__detail21_Hash_node_value_baseISt4pairIKNSt7__cxx1112basic_stringIcSt11char_traitsIcESaIcEEES7_EE4_M_vEv(%"struct.std::__detail::_Hash_node_value_base"* noundef nonnull align 8 dereferenceable(64) %1) #29
  %call3 = call noundef nonnull align 8 dereferenceable(32) %"class.std::__cxx11::basic_string"* @_ZNKSt8__detail10_Select1stclIRKSt4pairIKNSt7__cxx1112basic_stringIcSt11char_traitsIcESaIcEEES8_EEEONS0_10__1st_typeIT_E4typeEOSE_(%"struct.std::__detail::_Select1st"* noundef nonnull align 1 dereferenceable(1) %ref.tmp, %"struct.std::pair.18"* noundef nonnull align 8 dereferenceable(64) %call2) #29
  %call4 = call noundef zeroext i1 @_ZNKSt8equal_toINSt7__cxx1112basic_stringIcSt11char_traitsIcESaIcEEEEclERKS5_S8_(%"struct.std::equal_to"* noundef nonnull align 1 dereferenceable(1) %call, %"class.std::__cxx11::basic_string"* noundef nonnull align 8 dereferenceable(32) %__k, %"class.std::__cxx11::basic_string"* noundef nonnull align 8 dereferenceable(32) %call3)
  call void @llvm.lifetime.end.p0i8(i64 1, i8* nonnull %0) #29
  ret i1 %call4
}

; Function Attrs: noinline nounwind uwtable
define linkonce_odr dso_local void @_ZNSt4pairINSt8__detail14_Node_iteratorIS_IKNSt7__cxx1112basic_stringIcSt11char_traitsIcESaIcEEES7_ELb0ELb1EEEbEC2IRSA_bLb1EEEOT_OT0_(%"struct.std::pair"* noundef nonnull align 8 dereferenceable(9) %this, %"struct.std::__detail::_Node_iterator"* noundef nonnull align 8 dereferenceable(8) %__x, i8* noundef nonnull align 1 dereferenceable(1) %__y) unnamed_addr #11 comdat align 2 {
entry:
  %0 = bitcast %"struct.std::__detail::_Node_iterator"* %__x to i64*
  %1 = bitcast %"struct.std::pair"* %this to i64*
  %2 = load i64, i64* %0, align 8
  store i64 %2, i64* %1, align 8
  %second = getelementptr inbounds %"struct.std::pair", %"struct.std::pair"* %this, i64 0, i32 1
  %3 = load i8, i8* %__y, align 1, !tbaa !91, !range !85
  store i8 %3, i8* %second, align 8, !tbaa !94
  ret void
}

; Function Attrs: mustprogress noinline nounwind uwtable
define linkonce_odr dso_local noundef nonnull align 8 dereferenceable(8) %"struct.std::__detail::_Node_iterator"* @_ZNSt8__detail14_Node_iteratorISt4pairIKNSt7__cxx1112basic_stringIcSt11char_traitsIcESaIcEEES7_ELb0ELb1EEppEv(%"struct.std::__detail::_Node_iterator"* noundef nonnull align 8 dereferenceable(8) %this) local_unnamed_addr #8 comdat align 2 {
entry:
  %0 = getelementptr inbounds %"struct.std::__detail::_Node_iterator", %"struct.std::__detail::_Node_iterator"* %this, i64 0, i32 0
  call void @_ZNSt8__detail19_Node_iterator_baseISt4pairIKNSt7__cxx1112basic_stringIcSt11char_traitsIcESaIcEEES7_ELb1EE7_M_incrEv(%"struct.std::__detail::_Node_iterator_base"* noundef nonnull align 8 dereferenceable(8) %0) #29
  ret %"struct.std::__detail::_Node_iterator"* %this
}

; Function Attrs: mustprogress noinline uwtable
define linkonce_odr dso_local noundef i64 @_ZNKSt8__detail15_Hash_code_baseINSt7__cxx1112basic_stringIcSt11char_traitsIcESaIcEEESt4pairIKS6_S6_ENS_10_Select1stESt4hashIS6_ENS_18_Mod_range_hashingENS_20_Default_ranged_hashELb1EE12_M_hash_codeERS8_(%"struct.std::__detail::_Hash_code_base"* noundef nonnull align 1 dereferenceable(1) %this, %"class.std::__cxx11::basic_string"* noundef nonnull align 8 dereferenceable(32) %__k) local_unnamed_addr #13 comdat align 2 {
entry:
  %call = call noundef nonnull align 1 dereferenceable(1) %"struct.std::hash"* @_ZNKSt8__detail15_Hash_code_baseINSt7__cxx1112basic_stringIcSt11char_traitsIcESaIcEEESt4pairIKS6_S6_ENS_10_Select1stESt4hashIS6_ENS_18_Mod_range_hashingENS_20_Default_ranged_hashELb1EE7_M_hashEv(%"struct.std::__detail::_Hash_code_base"* noundef nonnull align 1 dereferenceable(1) %this)
  %call2 = call noundef i64 @_ZNKSt4hashINSt7__cxx1112basic_stringIcSt11char_traitsIcESaIcEEEEclERKS5_(%"struct.std::hash"* noundef nonnull align 1 dereferenceable(1) %call, %"class.std::__cxx11::basic_string"* noundef nonnull align 8 dereferenceable(32) %__k) #29
  ret i64 %call2
}

; Function Attrs: mustprogress noinline uwtable
define linkonce_odr dso_local noundef i64 @_ZNKSt10_HashtableINSt7__cxx1112basic_stringIcSt11char_traitsIcESaIcEEESt4pairIKS5_S5_ESaIS8_ENSt8__detail10_Select1stESt8equal_toIS5_ESt4hashIS5_ENSA_18_Mod_range_hashingENSA_20_Default_ranged_hashENSA_20_Prime_rehash_policyENSA_17_Hashtable_traitsILb1ELb0ELb1EEEE15_M_bucket_indexEm(%"class.std::_Hashtable"* noundef nonnull align 8 dereferenceable(56) %this, i64 noundef %__c) local_unnamed_addr #13 comdat align 2 {
entry:
  %0 = bitcast %"class.std::_Hashtable"* %this to %"struct.std::__detail::_Hash_code_base"*
  %_M_bucket_count = getelementptr inbounds %"class.std::_Hashtable", %"class.std::_Hashtable"* %this, i64 0, i32 1
  %1 = load i64, i64* %_M_bucket_count, align 8, !tbaa !72
  %call = call noundef i64 @_ZNKSt8__detail15_Hash_code_baseINSt7__cxx1112basic_stringIcSt11char_traitsIcESaIcEEESt4pairIKS6_S6_ENS_10_Select1stESt4hashIS6_ENS_18_Mod_range_hashingENS_20_Default_ranged_hashELb1EE15_M_bucket_indexEmm(%"struct.std::__detail::_Hash_code_base"* noundef nonnull align 1 dereferenceable(1) %0, i64 noundef %__c, i64 noundef %1)
  ret i64 %call
}

; Function Attrs: mustprogress noinline uwtable
define linkonce_odr dso_local noundef %"struct.std::__detail::_Hash_node"* @_ZNKSt10_HashtableINSt7__cxx1112basic_stringIcSt11char_traitsIcESaIcEEESt4pairIKS5_S5_ESaIS8_ENSt8__detail10_Select1stESt8equal_toIS5_ESt4hashIS5_ENSA_18_Mod_range_hashingENSA_20_Default_ranged_hashENSA_20_Prime_rehash_policyENSA_17_Hashtable_traitsILb1ELb0ELb1EEEE12_M_find_nodeEmRS7_m(%"class.std::_Hashtable"* noundef nonnull align 8 dereferenceable(56) %this, i64 noundef %__bkt, %"class.std::__cxx11::basic_string"* noundef nonnull align 8 dereferenceable(32) %__key, i64 noundef %__c) local_unnamed_addr #13 comdat align 2 {
entry:
  %call = call noundef %"struct.std::__detail::_Hash_node_base"* @_ZNKSt10_HashtableINSt7__cxx1112basic_stringIcSt11char_traitsIcESaIcEEESt4pairIKS5_S5_ESaIS8_ENSt8__detail10_Select1stESt8equal_toIS5_ESt4hashIS5_ENSA_18_Mod_range_hashingENSA_20_Default_ranged_hashENSA_20_Prime_rehash_policyENSA_17_Hashtable_traitsILb1ELb0ELb1EEEE19_M_find_before_nodeEmRS7_m(%"class.std::_Hashtable"* noundef nonnull align 8 dereferenceable(56) %this, i64 noundef %__bkt, %"class.std::__cxx11::basic_string"* noundef nonnull align 8 dereferenceable(32) %__key, i64 noundef %__c)
  %tobool.not = icmp eq %"struct.std::__detail::_Hash_node_base"* %call, null
  br i1 %tobool.not, label %cleanup, label %if.then

if.then:                                          ; preds = %entry
  %0 = bitcast %"struct.std::__detail::_Hash_node_base"* %call to %"struct.std::__detail::_Hash_node"**
  %1 = load %"struct.std::__detail::_Hash_node"*, %"struct.std::__detail::_Hash_node"** %0, align 8, !tbaa !75
  br label %cleanup

cleanup:                                          ; preds = %entry, %if.then
  %retval.0 = phi %"struct.std::__detail::_Hash_node"* [ %1, %if.then ], [ null, %entry ]
  ret %"struct.std::__detail::_Hash_node"* %retval.0
}

; Function Attrs: noinline nounwind uwtable
define linkonce_odr dso_local void @_ZNSt8__detail14_Node_iteratorISt4pairIKNSt7__cxx1112basic_stringIcSt11char_traitsIcESaIcEEES7_ELb0ELb1EEC2EPNS_10_Hash_nodeIS9_Lb1EEE(%"struct.std::__detail::_Node_iterator"* noundef nonnull align 8 dereferenceable(8) %this, %"struct.std::__detail::_Hash_node"* noundef %__p) unnamed_addr #11 comdat align 2 {
entry:
  %0 = getelementptr inbounds %"struct.std::__detail::_Node_iterator", %"struct.std::__detail::_Node_iterator"* %this, i64 0, i32 0
  call void @_ZNSt8__detail19_Node_iterator_baseISt4pairIKNSt7__cxx1112basic_stringIcSt11char_traitsIcESaIcEEES7_ELb1EEC2EPNS_10_Hash_nodeIS9_Lb1EEE(%"struct.std::__detail::_Node_iterator_base"* noundef nonnull align 8 dereferenceable(8) %0, %"struct.std::__detail::_Hash_node"* noundef %__p) #29
  ret void
}

; Function Attrs: noinline nounwind uwtable
define linkonce_odr dso_local void @_ZNSt4pairINSt8__detail14_Node_iteratorIS_IKNSt7__cxx1112basic_stringIcSt11char_traitsIcESaIcEEES7_ELb0ELb1EEEbEC2ISA_bLb1EEEOT_OT0_(%"struct.std::pair"* noundef nonnull align 8 dereferenceable(9) %this, %"struct.std::__detail::_Node_iterator"* noundef nonnull align 8 dereferenceable(8) %__x, i8* noundef nonnull align 1 dereferenceable(1) %__y) unnamed_addr #11 comdat align 2 {
entry:
  %0 = bitcast %"struct.std::__detail::_Node_iterator"* %__x to i64*
  %1 = bitcast %"struct.std::pair"* %this to i64*
  %2 = load i64, i64* %0, align 8
  store i64 %2, i64* %1, align 8
  %second = getelementptr inbounds %"struct.std::pair", %"struct.std::pair"* %this, i64 0, i32 1
  %3 = load i8, i8* %__y, align 1, !tbaa !91, !range !85
  store i8 %3, i8* %second, align 8, !tbaa !94
  ret void
}

; Function Attrs: mustprogress noinline uwtable
define linkonce_odr dso_local %"struct.std::__detail::_Hash_node"* @_ZNSt10_HashtableINSt7__cxx1112basic_stringIcSt11char_traitsIcESaIcEEESt4pairIKS5_S5_ESaIS8_ENSt8__detail10_Select1stESt8equal_toIS5_ESt4hashIS5_ENSA_18_Mod_range_hashingENSA_20_Default_ranged_hashENSA_20_Prime_rehash_policyENSA_17_Hashtable_traitsILb1ELb0ELb1EEEE21_M_insert_unique_nodeEmmPNSA_10_Hash_nodeIS8_Lb1EEEm(%"class.std::_Hashtable"* noundef nonnull align 8 dereferenceable(56) %this, i64 noundef %__bkt, i64 noundef %__code, %"struct.std::__detail::_Hash_node"* noundef %__node, i64 noundef %__n_elt) local_unnamed_addr #13 comdat align 2 {
entry:
  %retval = alloca %"struct.std::__detail::_Node_iterator", align 8
  %ref.tmp = alloca i64, align 8
  %0 = bitcast i64* %ref.tmp to i8*
  call void @llvm.lifetime.start.p0i8(i64 8, i8* nonnull %0) #29
  %_M_rehash_policy = getelementptr inbounds %"class.std::_Hashtable", %"class.std::_Hashtable"* %this, i64 0, i32 4
  %call = call noundef i64 @_ZNKSt8__detail20_Prime_rehash_policy8_M_stateEv(%"struct.std::__detail::_Prime_rehash_policy"* noundef nonnull align 8 dereferenceable(16) %_M_rehash_policy)
  store i64 %call, i64* %ref.tmp, align 8, !tbaa !88
  %_M_bucket_count = getelementptr inbounds %"class.std::_Hashtable", %"class.std::_Hashtable"* %this, i64 0, i32 1
  %1 = load i64, i64* %_M_bucket_count, align 8, !tbaa !72
  %_M_element_count = getelementptr inbounds %"class.std::_Hashtable", %"class.std::_Hashtable"* %this, i64 0, i32 3
  %2 = load i64, i64* %_M_element_count, align 8, !tbaa !73
  %call3 = call { i8, i64 } @_ZNKSt8__detail20_Prime_rehash_policy14_M_need_rehashEmmm(%"struct.std::__detail::_Prime_rehash_policy"* noundef nonnull align 8 dereferenceable(16) %_M_rehash_policy, i64 noundef %1, i64 noundef %2, i64 noundef %__n_elt)
  %3 = extractvalue { i8, i64 } %call3, 0
  %4 = and i8 %3, 1
  %tobool.not = icmp eq i8 %4, 0
  br i1 %tobool.not, label %if.end, label %if.then

if.then:                                          ; preds = %entry
  %5 = extractvalue { i8, i64 } %call3, 1
  call void @_ZNSt10_HashtableINSt7__cxx1112basic_stringIcSt11char_traitsIcESaIcEEESt4pairIKS5_S5_ESaIS8_ENSt8__detail10_Select1stESt8equal_toIS5_ESt4hashIS5_ENSA_18_Mod_range_hashingENSA_20_Default_ranged_hashENSA_20_Prime_rehash_policyENSA_17_Hashtable_traitsILb1ELb0ELb1EEEE9_M_rehashEmRKm(%"class.std::_Hashtable"* noundef nonnull align 8 dereferenceable(56) %this, i64 noundef %5, i64* noundef nonnull align 8 dereferenceable(8) %ref.tmp)
  %call4 = call noundef i64 @_ZNKSt10_HashtableINSt7__cxx1112basic_stringIcSt11char_traitsIcESaIcEEESt4pairIKS5_S5_ESaIS8_ENSt8__detail10_Select1stESt8equal_toIS5_ESt4hashIS5_ENSA_18_Mod_range_hashingENSA_20_Default_ranged_hashENSA_20_Prime_rehash_policyENSA_17_Hashtable_traitsILb1ELb0ELb1EEEE15_M_bucket_indexEm(%"class.std::_Hashtable"* noundef nonnull align 8 dereferenceable(56) %this, i64 noundef %__code)
  br label %if.end

if.end:                                           ; preds = %if.then, %entry
  %__bkt.addr.0 = phi i64 [ %call4, %if.then ], [ %__bkt, %entry ]
  %6 = bitcast %"class.std::_Hashtable"* %this to %"struct.std::__detail::_Hash_code_base"*
  %add.ptr = getelementptr inbounds %"struct.std::__detail::_Hash_node", %"struct.std::__detail::_Hash_node"* %__node, i64 0, i32 1, i32 1
  call void @_ZNKSt8__detail15_Hash_code_baseINSt7__cxx1112basic_stringIcSt11char_traitsIcESaIcEEESt4pairIKS6_S6_ENS_10_Select1stESt4hashIS6_ENS_18_Mod_range_hashingENS_20_Default_ranged_hashELb1EE13_M_store_codeERNS_21_Hash_node_code_cacheILb1EEEm(%"struct.std::__detail::_Hash_code_base"* noundef nonnull align 1 dereferenceable(1) %6, %"struct.std::__detail::_Hash_node_code_cache"* noundef nonnull align 8 dereferenceable(8) %add.ptr, i64 noundef %__code)
  call void @_ZNSt10_HashtableINSt7__cxx1112basic_stringIcSt11char_traitsIcESaIcEEESt4pairIKS5_S5_ESaIS8_ENSt8__detail10_Select1stESt8equal_toIS5_ESt4hashIS5_ENSA_18_Mod_range_hashingENSA_20_Default_ranged_hashENSA_20_Prime_rehash_policyENSA_17_Hashtable_traitsILb1ELb0ELb1EEEE22_M_insert_bucket_beginEmPNSA_10_Hash_nodeIS8_Lb1EEE(%"class.std::_Hashtable"* noundef nonnull align 8 dereferenceable(56) %this, i64 noundef %__bkt.addr.0, %"struct.std::__detail::_Hash_node"* noundef %__node)
  %7 = load i64, i64* %_M_element_count, align 8, !tbaa !73
  %inc = add i64 %7, 1
  store i64 %inc, i64* %_M_element_count, align 8, !tbaa !73
  call void @_ZNSt8__detail14_Node_iteratorISt4pairIKNSt7__cxx1112basic_stringIcSt11char_traitsIcESaIcEEES7_ELb0ELb1EEC2EPNS_10_Hash_nodeIS9_Lb1EEE(%"struct.std::__detail::_Node_iterator"* noundef nonnull align 8 dereferenceable(8) %retval, %"struct.std::__detail::_Hash_node"* noundef %__node) #29
  call void @llvm.lifetime.end.p0i8(i64 8, i8* nonnull %0) #29
  %coerce.dive6 = getelementptr inbounds %"struct.std::__detail::_Node_iterator", %"struct.std::__detail::_Node_iterator"* %retval, i64 0, i32 0, i32 0
  %8 = load %"struct.std::__detail::_Hash_node"*, %"struct.std::__detail::_Hash_node"** %coerce.dive6, align 8
  ret %"struct.std::__detail::_Hash_node"* %8
}

; Function Attrs: noinline nounwind uwtable
define linkonce_odr dso_local void @_ZNSt10_HashtableINSt7__cxx1112basic_stringIcSt11char_traitsIcESaIcEEESt4pairIKS5_S5_ESaIS8_ENSt8__detail10_Select1stESt8equal_toIS5_ESt4hashIS5_ENSA_18_Mod_range_hashingENSA_20_Default_ranged_hashENSA_20_Prime_rehash_policyENSA_17_Hashtable_traitsILb1ELb0ELb1EEEE12_Scoped_nodeD2Ev(%"struct.std::_Hashtable<std::__cxx11::basic_string<char>, std::pair<const std::__cxx11::basic_string<char>, std::__cxx11::basic_string<char>>, std::allocator<std::pair<const std::__cxx11::basic_string<char>, std::__cxx11::basic_string<char>>>, std::__detail::_Select1st, std::equal_to<std::__cxx11::basic_string<char>>, std::hash<std::string>, std::__detail::_Mod_range_hashing, std::__detail::_Default_ranged_hash, std::__detail::_Prime_rehash_policy, std::__detail::_Hashtable_traits<true, false, true>>::_Scoped_node"* noundef nonnull align 8 dereferenceable(16) %this) unnamed_addr #11 comdat align 2 personality i8* bitcast (i32 (...)* @__gxx_personality_v0 to i8*) {
entry:
  %_M_node = getelementptr inbounds %"struct.std::_Hashtable<std::__cxx11::basic_string<char>, std::pair<const std::__cxx11::basic_string<char>, std::__cxx11::basic_string<char>>, std::allocator<std::pair<const std::__cxx11::basic_string<char>, std::__cxx11::basic_string<char>>>, std::__detail::_Select1st, std::equal_to<std::__cxx11::basic_string<char>>, std::hash<std::string>, std::__detail::_Mod_range_hashing, std::__detail::_Default_ranged_hash, std::__detail::_Prime_rehash_policy, std::__detail::_Hashtable_traits<true, false, true>>::_Scoped_node", %"struct.std::_Hashtable<std::__cxx11::basic_string<char>, std::pair<const std::__cxx11::basic_string<char>, std::__cxx11::basic_string<char>>, std::allocator<std::pair<const std::__cxx11::basic_string<char>, std::__cxx11::basic_string<char>>>, std::__detail::_Select1st, std::equal_to<std::__cxx11::basic_string<char>>, std::hash<std::string>, std::__detail::_Mod_range_hashing, std::__detail::_Default_ranged_hash, std::__detail::_Prime_rehash_policy, std::__detail::_Hashtable_traits<true, false, true>>::_Scoped_node"* %this, i64 0, i32 1
  %0 = load %"struct.std::__detail::_Hash_node"*, %"struct.std::__detail::_Hash_node"** %_M_node, align 8, !tbaa !89
  %tobool.not = icmp eq %"struct.std::__detail::_Hash_node"* %0, null
  br i1 %tobool.not, label %if.end, label %if.then

if.then:                                          ; preds = %entry
  %_M_h = getelementptr inbounds %"struct.std::_Hashtable<std::__cxx11::basic_string<char>, std::pair<const std::__cxx11::basic_string<char>, std::__cxx11::basic_string<char>>, std::allocator<std::pair<const std::__cxx11::basic_string<char>, std::__cxx11::basic_string<char>>>, std::__detail::_Select1st, std::equal_to<std::__cxx11::basic_string<char>>, std::hash<std::string>, std::__detail::_Mod_range_hashing, std::__detail::_Default_ranged_hash, std::__detail::_Prime_rehash_policy, std::__detail::_Hashtable_traits<true, false, true>>::_Scoped_node", %"struct.std::_Hashtable<std::__cxx11::basic_string<char>, std::pair<const std::__cxx11::basic_string<char>, std::__cxx11::basic_string<char>>, std::allocator<std::pair<const std::__cxx11::basic_string<char>, std::__cxx11::basic_string<char>>>, std::__detail::_Select1st, std::equal_to<std::__cxx11::basic_string<char>>, std::hash<std::string>, std::__detail::_Mod_range_hashing, std::__detail::_Default_ranged_hash, std::__detail::_Prime_rehash_policy, std::__detail::_Hashtable_traits<true, false, true>>::_Scoped_node"* %this, i64 0, i32 0
  %1 = load %"struct.std::__detail::_Hashtable_alloc"*, %"struct.std::__detail::_Hashtable_alloc"** %_M_h, align 8, !tbaa !93
  invoke void @_ZNSt8__detail16_Hashtable_allocISaINS_10_Hash_nodeISt4pairIKNSt7__cxx1112basic_stringIcSt11char_traitsIcESaIcEEES8_ELb1EEEEE18_M_deallocate_nodeEPSB_(%"struct.std::__detail::_Hashtable_alloc"* noundef nonnull align 1 dereferenceable(1) %1, %"struct.std::__detail::_Hash_node"* noundef nonnull %0)
          to label %if.end unwind label %terminate.lpad

if.end:                                           ; preds = %if.then, %entry
  ret void

terminate.lpad:                                   ; preds = %if.then
  %2 = landingpad { i8*, i32 }
          catch i8* null
  %3 = extractvalue { i8*, i32 } %2, 0
  call void @__clang_call_terminate(i8* %3) #32
  unreachable
}

; Function Attrs: mustprogress noinline uwtable
define linkonce_odr dso_local noundef %"struct.std::__detail::_Hash_node"* @_ZNSt8__detail16_Hashtable_allocISaINS_10_Hash_nodeISt4pairIKNSt7__cxx1112basic_stringIcSt11char_traitsIcESaIcEEES8_ELb1EEEEE16_M_allocate_nodeIJS2_IS8_S8_EEEEPSB_DpOT_(%"struct.std::__detail::_Hashtable_alloc"* noundef nonnull align 1 dereferenceable(1) %this, %"struct.std::pair.5"* noundef nonnull align 8 dereferenceable(64) %__args) local_unnamed_addr #13 comdat align 2 personality i8* bitcast (i32 (...)* @__gxx_personality_v0 to i8*) {
entry:
  %call = call noundef nonnull align 1 dereferenceable(1) %"class.std::allocator.2"* @_ZNSt8__detail16_Hashtable_allocISaINS_10_Hash_nodeISt4pairIKNSt7__cxx1112basic_stringIcSt11char_traitsIcESaIcEEES8_ELb1EEEEE17_M_node_allocatorEv(%"struct.std::__detail::_Hashtable_alloc"* noundef nonnull align 1 dereferenceable(1) %this)
  %0 = bitcast %"class.std::allocator.2"* %call to %"class.std::__new_allocator.3"*
  %call.i.i = call noundef i64 @_ZNKSt15__new_allocatorINSt8__detail10_Hash_nodeISt4pairIKNSt7__cxx1112basic_stringIcSt11char_traitsIcESaIcEEES8_ELb1EEEE11_M_max_sizeEv(%"class.std::__new_allocator.3"* noundef nonnull align 1 dereferenceable(1) %0) #29
  %cmp.i.i = icmp eq i64 %call.i.i, 0
  br i1 %cmp.i.i, label %if.then.i.i, label %_ZNSt16allocator_traitsISaINSt8__detail10_Hash_nodeISt4pairIKNSt7__cxx1112basic_stringIcSt11char_traitsIcESaIcEEES8_ELb1EEEEE8allocateERSC_m.exit, !prof !66

if.then.i.i:                                      ; preds = %entry
  call void @_ZSt17__throw_bad_allocv() #30
  unreachable

_ZNSt16allocator_traitsISaINSt8__detail10_Hash_nodeISt4pairIKNSt7__cxx1112basic_stringIcSt11char_traitsIcESaIcEEES8_ELb1EEEEE8allocateERSC_m.exit: ; preds = %entry
  %call5.i.i = call noalias noundef nonnull dereferenceable(80) i8* @_Znwm(i64 noundef 80) #34
  %1 = bitcast i8* %call5.i.i to %"struct.std::__detail::_Hash_node"*
  call void @_ZNSt8__detail10_Hash_nodeISt4pairIKNSt7__cxx1112basic_stringIcSt11char_traitsIcESaIcEEES7_ELb1EEC2Ev(%"struct.std::__detail::_Hash_node"* noundef nonnull align 8 dereferenceable(80) %1) #29
  %call4 = invoke noundef nonnull align 1 dereferenceable(1) %"class.std::allocator.2"* @_ZNSt8__detail16_Hashtable_allocISaINS_10_Hash_nodeISt4pairIKNSt7__cxx1112basic_stringIcSt11char_traitsIcESaIcEEES8_ELb1EEEEE17_M_node_allocatorEv(%"struct.std::__detail::_Hashtable_alloc"* noundef nonnull align 1 dereferenceable(1) %this)
          to label %invoke.cont unwind label %lpad

invoke.cont:                                      ; preds = %_ZNSt16allocator_traitsISaINSt8__detail10_Hash_nodeISt4pairIKNSt7__cxx1112basic_stringIcSt11char_traitsIcESaIcEEES8_ELb1EEEEE8allocateERSC_m.exit
  %2 = getelementptr inbounds %"struct.std::__detail::_Hash_node", %"struct.std::__detail::_Hash_node"* %1, i64 0, i32 1, i32 0, i32 0, i32 0, i32 0, i64 0
  %3 = bitcast i8* %2 to %"struct.std::__detail::_Hash_node_value_base"*
  %call5 = call noundef %"struct.std::pair.18"* @_ZNSt8__detail21_Hash_node_value_baseISt4pairIKNSt7__cxx1112basic_stringIcSt11char_traitsIcESaIcEEES7_EE9_M_valptrEv(%"struct.std::__detail::_Hash_node_value_base"* noundef nonnull align 8 dereferenceable(64) %3) #29
  call void @_ZNSt4pairIKNSt7__cxx1112basic_stringIcSt11char_traitsIcESaIcEEES5_EC2IS5_S5_Lb1EEEOS_IT_T0_E(%"struct.std::pair.18"* noundef nonnull align 8 dereferenceable(64) %call5, %"struct.std::pair.5"* noundef nonnull align 8 dereferenceable(64) %__args)
  ret %"struct.std::__detail::_Hash_node"* %1

lpad:                                             ; preds = %_ZNSt16allocator_traitsISaINSt8__detail10_Hash_nodeISt4pairIKNSt7__cxx1112basic_stringIcSt11char_traitsIcESaIcEEES8_ELb1EEEEE8allocateERSC_m.exit
  %4 = landingpad { i8*, i32 }
          catch i8* null
  %5 = extractvalue { i8*, i32 } %4, 0
  %6 = call i8* @__cxa_begin_catch(i8* %5) #29
  %call10 = invoke noundef nonnull align 1 dereferenceable(1) %"class.std::allocator.2"* @_ZNSt8__detail16_Hashtable_allocISaINS_10_Hash_nodeISt4pairIKNSt7__cxx1112basic_stringIcSt11char_traitsIcESaIcEEES8_ELb1EEEEE17_M_node_allocatorEv(%"struct.std::__detail::_Hashtable_alloc"* noundef nonnull align 1 dereferenceable(1) %this)
          to label %invoke.cont9 unwind label %lpad8

invoke.cont9:                                     ; preds = %lpad
  call void @_ZdlPv(i8* noundef %call5.i.i) #33
  invoke void @__cxa_rethrow() #30
          to label %unreachable unwind label %lpad8

lpad8:                                            ; preds = %invoke.cont9, %lpad
  %7 = landingpad { i8*, i32 }
          cleanup
  invoke void @__cxa_end_catch()
          to label %invoke.cont12 unwind label %terminate.lpad

invoke.cont12:                                    ; preds = %lpad8
  resume { i8*, i32 } %7

terminate.lpad:                                   ; preds = %lpad8
  %8 = landingpad { i8*, i32 }
          catch i8* null
  %9 = extractvalue { i8*, i32 } %8, 0
  call void @__clang_call_terminate(i8* %9) #32
  unreachable

unreachable:                                      ; preds = %invoke.cont9
  unreachable
}

; Function Attrs: inlinehint noinline nounwind uwtable
define linkonce_odr dso_local void @_ZNSt8__detail10_Hash_nodeISt4pairIKNSt7__cxx1112basic_stringIcSt11char_traitsIcESaIcEEES7_ELb1EEC2Ev(%"struct.std::__detail::_Hash_node"* noundef nonnull align 8 dereferenceable(80) %this) unnamed_addr #14 comdat align 2 {
entry:
  %0 = getelementptr inbounds %"struct.std::__detail::_Hash_node", %"struct.std::__detail::_Hash_node"* %this, i64 0, i32 0
  call void @_ZNSt8__detail15_Hash_node_baseC2Ev(%"struct.std::__detail::_Hash_node_base"* noundef nonnull align 8 dereferenceable(8) %0) #29
  ret void
}

declare void @__cxa_rethrow() local_unnamed_addr

declare void @__cxa_end_catch() local_unnamed_addr

; Function Attrs: mustprogress noinline nounwind uwtable
define linkonce_odr dso_local noundef i64 @_ZNKSt15__new_allocatorINSt8__detail10_Hash_nodeISt4pairIKNSt7__cxx1112basic_stringIcSt11char_traitsIcESaIcEEES8_ELb1EEEE11_M_max_sizeEv(%"class.std::__new_allocator.3"* noundef nonnull align 1 dereferenceable(1) %this) local_unnamed_addr #8 comdat align 2 {
entry:
  ret i64 115292150460684697
}

; Function Attrs: noreturn
declare void @_ZSt28__throw_bad_array_new_lengthv() local_unnamed_addr #25

; Function Attrs: noreturn
declare void @_ZSt17__throw_bad_allocv() local_unnamed_addr #25

; Function Attrs: nobuiltin allocsize(0)
declare noundef nonnull i8* @_Znwm(i64 noundef) local_unnamed_addr #27

; Function Attrs: noinline nounwind uwtable
define linkonce_odr dso_local void @_ZNSt4pairIKNSt7__cxx1112basic_stringIcSt11char_traitsIcESaIcEEES5_EC2IS5_S5_Lb1EEEOS_IT_T0_E(%"struct.std::pair.18"* noundef nonnull align 8 dereferenceable(64) %this, %"struct.std::pair.5"* noundef nonnull align 8 dereferenceable(64) %__p) unnamed_addr #11 comdat align 2 {
entry:
  %first = getelementptr inbounds %"struct.std::pair.18", %"struct.std::pair.18"* %this, i64 0, i32 0
  %first2 = getelementptr inbounds %"struct.std::pair.5", %"struct.std::pair.5"* %__p, i64 0, i32 0
  call void @_ZNSt7__cxx1112basic_stringIcSt11char_traitsIcESaIcEEC2EOS4_(%"class.std::__cxx11::basic_string"* noundef nonnull align 8 dereferenceable(32) %first, %"class.std::__cxx11::basic_string"* noundef nonnull align 8 dereferenceable(32) %first2) #29
  %second = getelementptr inbounds %"struct.std::pair.18", %"struct.std::pair.18"* %this, i64 0, i32 1
  %second3 = getelementptr inbounds %"struct.std::pair.5", %"struct.std::pair.5"* %__p, i64 0, i32 1
  call void @_ZNSt7__cxx1112basic_stringIcSt11char_traitsIcESaIcEEC2EOS4_(%"class.std::__cxx11::basic_string"* noundef nonnull align 8 dereferenceable(32) %second, %"class.std::__cxx11::basic_string"* noundef nonnull align 8 dereferenceable(32) %second3) #29
  ret void
}

; Function Attrs: mustprogress noinline nounwind uwtable
define linkonce_odr dso_local noundef i64 @_ZNSt8__detail22_Hashtable_hash_traitsISt4hashINSt7__cxx1112basic_stringIcSt11char_traitsIcESaIcEEEEE22__small_size_thresholdEv() local_unnamed_addr #8 comdat align 2 {
entry:
  ret i64 20
}

; Function Attrs: mustprogress noinline uwtable
define linkonce_odr dso_local noundef nonnull align 1 dereferenceable(1) %"struct.std::equal_to"* @_ZNKSt8__detail15_Hashtable_baseINSt7__cxx1112basic_stringIcSt11char_traitsIcESaIcEEESt4pairIKS6_S6_ENS_10_Select1stESt8equal_toIS6_ESt4hashIS6_ENS_18_Mod_range_hashingENS_20_Default_ranged_hashENS_17_Hashtable_traitsILb1ELb0ELb1EEEE5_M_eqEv(%"struct.std::__detail::_Hashtable_base"* noundef nonnull align 1 dereferenceable(1) %this) local_unnamed_addr #13 comdat align 2 {
entry:
  %0 = bitcast %"struct.std::__detail::_Hashtable_base"* %this to %"struct.std::__detail::_Hashtable_ebo_helper.0"*
  %call = call noundef nonnull align 1 dereferenceable(1) %"struct.std::equal_to"* @_ZNKSt8__detail21_Hashtable_ebo_helperILi0ESt8equal_toINSt7__cxx1112basic_stringIcSt11char_traitsIcESaIcEEEELb1EE7_M_cgetEv(%"struct.std::__detail::_Hashtable_ebo_helper.0"* noundef nonnull align 1 dereferenceable(1) %0)
  ret %"struct.std::equal_to"* %call
}

; Function Attrs: mustprogress noinline nounwind uwtable
define linkonce_odr dso_local noundef zeroext i1 @_ZNKSt8equal_toINSt7__cxx1112basic_stringIcSt11char_traitsIcESaIcEEEEclERKS5_S8_(%"struct.std::equal_to"* noundef nonnull align 1 dereferenceable(1) %this, %"class.std::__cxx11::basic_string"* noundef nonnull align 8 dereferenceable(32) %__x, %"class.std::__cxx11::basic_string"* noundef nonnull align 8 dereferenceable(32) %__y) local_unnamed_addr #8 comdat align 2 {
entry:
  %call = call noundef zeroext i1 @_ZSteqIcEN9__gnu_cxx11__enable_ifIXsr9__is_charIT_EE7__valueEbE6__typeERKNSt7__cxx1112basic_stringIS2_St11char_traitsIS2_ESaIS2_EEESC_(%"class.std::__cxx11::basic_string"* noundef nonnull align 8 dereferenceable(32) %__x, %"class.std::__cxx11::basic_string"* noundef nonnull align 8 dereferenceable(32) %__y) #29
  ret i1 %call
}

; Function Attrs: mustprogress noinline nounwind uwtable
define linkonce_odr dso_local noundef nonnull align 8 dereferenceable(32) %"class.std::__cxx11::basic_string"* @_ZNKSt8__detail10_Select1stclIRKSt4pairIKNSt7__cxx1112basic_stringIcSt11char_traitsIcESaIcEEES8_EEEONS0_10__1st_typeIT_E4typeEOSE_(%"struct.std::__detail::_Select1st"* noundef nonnull align 1 dereferenceable(1) %this, %"struct.std::pair.18"* noundef nonnull align 8 dereferenceable(64) %__x) local_unnamed_addr #8 comdat align 2 {
entry:
  %first = getelementptr inbounds %"struct.std::pair.18", %"struct.std::pair.18"* %__x, i64 0, i32 0
  ret %"class.std::__cxx11::basic_string"* %first
}

; Function Attrs: mustprogress noinline nounwind uwtable
define linkonce_odr dso_local noundef nonnull align 8 dereferenceable(64) %"struct.std::pair.18"* @_ZNKSt8__detail21_Hash_node_value_baseISt4pairIKNSt7__cxx1112basic_stringIcSt11char_traitsIcESaIcEEES7_EE4_M_vEv(%"struct.std::__detail::_Hash_node_value_base"* noundef nonnull align 8 dereferenceable(64) %this) local_unnamed_addr #8 comdat align 2 {
entry:
  %call = call noundef %"struct.std::pair.18"* @_ZNKSt8__detail21_Hash_node_value_baseISt4pairIKNSt7__cxx1112basic_stringIcSt11char_traitsIcESaIcEEES7_EE9_M_valptrEv(%"struct.std::__detail::_Hash_node_value_base"* noundef nonnull align 8 dereferenceable(64) %this) #29
  ret %"struct.std::pair.18"* %call
}

; Function Attrs: mustprogress noinline nounwind uwtable
define linkonce_odr dso_local noundef nonnull align 1 dereferenceable(1) %"struct.std::equal_to"* @_ZNKSt8__detail21_Hashtable_ebo_helperILi0ESt8equal_toINSt7__cxx1112basic_stringIcSt11char_traitsIcESaIcEEEELb1EE7_M_cgetEv(%"struct.std::__detail::_Hashtable_ebo_helper.0"* noundef nonnull align 1 dereferenceable(1) %this) local_unnamed_addr #8 comdat align 2 {
entry:
  %0 = bitcast %"struct.std::__detail::_Hashtable_ebo_helper.0"* %this to %"struct.std::equal_to"*
  ret %"struct.std::equal_to"* %0
}

; Function Attrs: inlinehint mustprogress noinline nounwind uwtable
define linkonce_odr dso_local noundef zeroext i1 @_ZSteqIcEN9__gnu_cxx11__enable_ifIXsr9__is_charIT_EE7__valueEbE6__typeERKNSt7__cxx1112basic_stringIS2_St11char_traitsIS2_ESaIS2_EEESC_(%"class.std::__cxx11::basic_string"* noundef nonnull align 8 dereferenceable(32) %__lhs, %"class.std::__cxx11::basic_string"* noundef nonnull align 8 dereferenceable(32) %__rhs) local_unnamed_addr #17 comdat personality i8* bitcast (i32 (...)* @__gxx_personality_v0 to i8*) {
entry:
  %call = call noundef i64 @_ZNKSt7__cxx1112basic_stringIcSt11char_traitsIcESaIcEE4sizeEv(%"class.std::__cxx11::basic_string"* noundef nonnull align 8 dereferenceable(32) %__lhs) #29
  %call1 = call noundef i64 @_ZNKSt7__cxx1112basic_stringIcSt11char_traitsIcESaIcEE4sizeEv(%"class.std::__cxx11::basic_string"* noundef nonnull align 8 dereferenceable(32) %__rhs) #29
  %cmp = icmp eq i64 %call, %call1
  br i1 %cmp, label %land.rhs, label %land.end

land.rhs:                                         ; preds = %entry
  %call2 = call noundef i8* @_ZNKSt7__cxx1112basic_stringIcSt11char_traitsIcESaIcEE4dataEv(%"class.std::__cxx11::basic_string"* noundef nonnull align 8 dereferenceable(32) %__lhs) #29
  %call3 = call noundef i8* @_ZNKSt7__cxx1112basic_stringIcSt11char_traitsIcESaIcEE4dataEv(%"class.std::__cxx11::basic_string"* noundef nonnull align 8 dereferenceable(32) %__rhs) #29
  %call4 = call noundef i64 @_ZNKSt7__cxx1112basic_stringIcSt11char_traitsIcESaIcEE4sizeEv(%"class.std::__cxx11::basic_string"* noundef nonnull align 8 dereferenceable(32) %__lhs) #29
  %cmp.i = icmp eq i64 %call4, 0
  br i1 %cmp.i, label %land.end, label %if.end.i

if.end.i:                                         ; preds = %land.rhs
  %bcmp = call i32 @bcmp(i8* %call2, i8* %call3, i64 %call4)
  %phi.cmp = icmp eq i32 %bcmp, 0
  br label %land.end

land.end:                                         ; preds = %if.end.i, %land.rhs, %entry
  %0 = phi i1 [ false, %entry ], [ %phi.cmp, %if.end.i ], [ true, %land.rhs ]
  ret i1 %0
}

; Function Attrs: mustprogress noinline nounwind uwtable
define linkonce_odr noundef i8* @_ZNKSt7__cxx1112basic_stringIcSt11char_traitsIcESaIcEE4dataEv(%"class.std::__cxx11::basic_string"* noundef nonnull align 8 dereferenceable(32) %this) local_unnamed_addr #8 align 2 {
entry:
  %call = call noundef i8* @_ZNKSt7__cxx1112basic_stringIcSt11char_traitsIcESaIcEE7_M_dataEv(%"class.std::__cxx11::basic_string"* noundef nonnull align 8 dereferenceable(32) %this)
  ret i8* %call
}

; Function Attrs: mustprogress noinline nounwind uwtable
define linkonce_odr dso_local noundef %"struct.std::pair.18"* @_ZNKSt8__detail21_Hash_node_value_baseISt4pairIKNSt7__cxx1112basic_stringIcSt11char_traitsIcESaIcEEES7_EE9_M_valptrEv(%"struct.std::__detail::_Hash_node_value_base"* noundef nonnull align 8 dereferenceable(64) %this) local_unnamed_addr #8 comdat align 2 {
entry:
  %_M_storage = getelementptr inbounds %"struct.std::__detail::_Hash_node_value_base", %"struct.std::__detail::_Hash_node_value_base"* %this, i64 0, i32 0
  %call = call noundef %"struct.std::pair.18"* @_ZNK9__gnu_cxx16__aligned_bufferISt4pairIKNSt7__cxx1112basic_stringIcSt11char_traitsIcESaIcEEES7_EE6_M_ptrEv(%"struct.__gnu_cxx::__aligned_buffer"* noundef nonnull align 8 dereferenceable(64) %_M_storage) #29
  ret %"struct.std::pair.18"* %call
}

; Function Attrs: mustprogress noinline nounwind uwtable
define linkonce_odr dso_local noundef %"struct.std::pair.18"* @_ZNK9__gnu_cxx16__aligned_bufferISt4pairIKNSt7__cxx1112basic_stringIcSt11char_traitsIcESaIcEEES7_EE6_M_ptrEv(%"struct.__gnu_cxx::__aligned_buffer"* noundef nonnull align 8 dereferenceable(64) %this) local_unnamed_addr #8 comdat align 2 {
entry:
  %call = call noundef i8* @_ZNK9__gnu_cxx16__aligned_bufferISt4pairIKNSt7__cxx1112basic_stringIcSt11char_traitsIcESaIcEEES7_EE7_M_addrEv(%"struct.__gnu_cxx::__aligned_buffer"* noundef nonnull align 8 dereferenceable(64) %this) #29
  %0 = bitcast i8* %call to %"struct.std::pair.18"*
  ret %"struct.std::pair.18"* %0
}

; Function Attrs: mustprogress noinline nounwind uwtable
define linkonce_odr dso_local noundef i8* @_ZNK9__gnu_cxx16__aligned_bufferISt4pairIKNSt7__cxx1112basic_stringIcSt11char_traitsIcESaIcEEES7_EE7_M_addrEv(%"struct.__gnu_cxx::__aligned_buffer"* noundef nonnull align 8 dereferenceable(64) %this) local_unnamed_addr #8 comdat align 2 {
entry:
  %0 = getelementptr inbounds %"struct.__gnu_cxx::__aligned_buffer", %"struct.__gnu_cxx::__aligned_buffer"* %this, i64 0, i32 0, i32 0, i64 0
  ret i8* %0
}

; Function Attrs: mustprogress noinline nounwind uwtable
define linkonce_odr dso_local void @_ZNSt8__detail19_Node_iterator_baseISt4pairIKNSt7__cxx1112basic_stringIcSt11char_traitsIcESaIcEEES7_ELb1EE7_M_incrEv(%"struct.std::__detail::_Node_iterator_base"* noundef nonnull align 8 dereferenceable(8) %this) local_unnamed_addr #8 comdat align 2 {
entry:
  %_M_cur = getelementptr inbounds %"struct.std::__detail::_Node_iterator_base", %"struct.std::__detail::_Node_iterator_base"* %this, i64 0, i32 0
  %0 = load %"struct.std::__detail::_Hash_node"*, %"struct.std::__detail::_Hash_node"** %_M_cur, align 8, !tbaa !68
  %call = call noundef %"struct.std::__detail::_Hash_node"* @_ZNKSt8__detail10_Hash_nodeISt4pairIKNSt7__cxx1112basic_stringIcSt11char_traitsIcESaIcEEES7_ELb1EE7_M_nextEv(%"struct.std::__detail::_Hash_node"* noundef nonnull align 8 dereferenceable(80) %0) #29
  store %"struct.std::__detail::_Hash_node"* %call, %"struct.std::__detail::_Hash_node"** %_M_cur, align 8, !tbaa !68
  ret void
}

; Function Attrs: mustprogress noinline uwtable
define linkonce_odr dso_local noundef nonnull align 1 dereferenceable(1) %"struct.std::hash"* @_ZNKSt8__detail15_Hash_code_baseINSt7__cxx1112basic_stringIcSt11char_traitsIcESaIcEEESt4pairIKS6_S6_ENS_10_Select1stESt4hashIS6_ENS_18_Mod_range_hashingENS_20_Default_ranged_hashELb1EE7_M_hashEv(%"struct.std::__detail::_Hash_code_base"* noundef nonnull align 1 dereferenceable(1) %this) local_unnamed_addr #13 comdat align 2 {
entry:
  %0 = bitcast %"struct.std::__detail::_Hash_code_base"* %this to %"struct.std::__detail::_Hashtable_ebo_helper"*
  %call = call noundef nonnull align 1 dereferenceable(1) %"struct.std::hash"* @_ZNKSt8__detail21_Hashtable_ebo_helperILi1ESt4hashINSt7__cxx1112basic_stringIcSt11char_traitsIcESaIcEEEELb1EE7_M_cgetEv(%"struct.std::__detail::_Hashtable_ebo_helper"* noundef nonnull align 1 dereferenceable(1) %0)
  ret %"struct.std::hash"* %call
}

; Function Attrs: mustprogress noinline nounwind uwtable
define linkonce_odr dso_local noundef i64 @_ZNKSt4hashINSt7__cxx1112basic_stringIcSt11char_traitsIcESaIcEEEEclERKS5_(%"struct.std::hash"* noundef nonnull align 1 dereferenceable(1) %this, %"class.std::__cxx11::basic_string"* noundef nonnull align 8 dereferenceable(32) %__s) local_unnamed_addr #8 comdat align 2 personality i8* bitcast (i32 (...)* @__gxx_personality_v0 to i8*) {
entry:
  %call = call noundef i8* @_ZNKSt7__cxx1112basic_stringIcSt11char_traitsIcESaIcEE4dataEv(%"class.std::__cxx11::basic_string"* noundef nonnull align 8 dereferenceable(32) %__s) #29
  %call2 = call noundef i64 @_ZNKSt7__cxx1112basic_stringIcSt11char_traitsIcESaIcEE6lengthEv(%"class.std::__cxx11::basic_string"* noundef nonnull align 8 dereferenceable(32) %__s) #29
  %call3 = invoke noundef i64 @_ZNSt10_Hash_impl4hashEPKvmm(i8* noundef %call, i64 noundef %call2, i64 noundef 3339675911)
          to label %invoke.cont unwind label %terminate.lpad

invoke.cont:                                      ; preds = %entry
  ret i64 %call3

terminate.lpad:                                   ; preds = %entry
  %0 = landingpad { i8*, i32 }
          catch i8* null
  %1 = extractvalue { i8*, i32 } %0, 0
  call void @__clang_call_terminate(i8* %1) #32
  unreachable
}

; Function Attrs: mustprogress noinline nounwind uwtable
define linkonce_odr dso_local noundef nonnull align 1 dereferenceable(1) %"struct.std::hash"* @_ZNKSt8__detail21_Hashtable_ebo_helperILi1ESt4hashINSt7__cxx1112basic_stringIcSt11char_traitsIcESaIcEEEELb1EE7_M_cgetEv(%"struct.std::__detail::_Hashtable_ebo_helper"* noundef nonnull align 1 dereferenceable(1) %this) local_unnamed_addr #8 comdat align 2 {
entry:
  %0 = bitcast %"struct.std::__detail::_Hashtable_ebo_helper"* %this to %"struct.std::hash"*
  ret %"struct.std::hash"* %0
}

; Function Attrs: mustprogress noinline uwtable
define linkonce_odr dso_local noundef i64 @_ZNSt10_Hash_impl4hashEPKvmm(i8* noundef %__ptr, i64 noundef %__clength, i64 noundef %__seed) local_unnamed_addr #13 comdat align 2 {
entry:
  %call = call noundef i64 @_ZSt11_Hash_bytesPKvmm(i8* noundef %__ptr, i64 noundef %__clength, i64 noundef %__seed)
  ret i64 %call
}

declare noundef i64 @_ZSt11_Hash_bytesPKvmm(i8* noundef, i64 noundef, i64 noundef) local_unnamed_addr #0

; Function Attrs: mustprogress noinline nounwind uwtable
define linkonce_odr dso_local noundef i64 @_ZNKSt8__detail15_Hash_code_baseINSt7__cxx1112basic_stringIcSt11char_traitsIcESaIcEEESt4pairIKS6_S6_ENS_10_Select1stESt4hashIS6_ENS_18_Mod_range_hashingENS_20_Default_ranged_hashELb1EE15_M_bucket_indexEmm(%"struct.std::__detail::_Hash_code_base"* noundef nonnull align 1 dereferenceable(1) %this, i64 noundef %__c, i64 noundef %__bkt_count) local_unnamed_addr #8 comdat align 2 {
entry:
  %ref.tmp = alloca %"struct.std::__detail::_Mod_range_hashing", align 1
  %0 = getelementptr inbounds %"struct.std::__detail::_Mod_range_hashing", %"struct.std::__detail::_Mod_range_hashing"* %ref.tmp, i64 0, i32 0
  call void @llvm.lifetime.start.p0i8(i64 1, i8* nonnull %0) #29
  %call = call noundef i64 @_ZNKSt8__detail18_Mod_range_hashingclEmm(%"struct.std::__detail::_Mod_range_hashing"* noundef nonnull align 1 dereferenceable(1) %ref.tmp, i64 noundef %__c, i64 noundef %__bkt_count) #29
  call void @llvm.lifetime.end.p0i8(i64 1, i8* nonnull %0) #29
  ret i64 %call
}

; Function Attrs: mustprogress noinline nounwind uwtable
define linkonce_odr dso_local noundef i64 @_ZNKSt8__detail18_Mod_range_hashingclEmm(%"struct.std::__detail::_Mod_range_hashing"* noundef nonnull align 1 dereferenceable(1) %this, i64 noundef %__num, i64 noundef %__den) local_unnamed_addr #8 comdat align 2 {
entry:
  %rem = urem i64 %__num, %__den
  ret i64 %rem
}

; Function Attrs: mustprogress noinline uwtable
define linkonce_odr dso_local noundef %"struct.std::__detail::_Hash_node_base"* @_ZNKSt10_HashtableINSt7__cxx1112basic_stringIcSt11char_traitsIcESaIcEEESt4pairIKS5_S5_ESaIS8_ENSt8__detail10_Select1stESt8equal_toIS5_ESt4hashIS5_ENSA_18_Mod_range_hashingENSA_20_Default_ranged_hashENSA_20_Prime_rehash_policyENSA_17_Hashtable_traitsILb1ELb0ELb1EEEE19_M_find_before_nodeEmRS7_m(%"class.std::_Hashtable"* noundef nonnull align 8 dereferenceable(56) %this, i64 noundef %__bkt, %"class.std::__cxx11::basic_string"* noundef nonnull align 8 dereferenceable(32) %__k, i64 noundef %__code) local_unnamed_addr #13 comdat align 2 {
entry:
  %_M_buckets = getelementptr inbounds %"class.std::_Hashtable", %"class.std::_Hashtable"* %this, i64 0, i32 0
  %0 = load %"struct.std::__detail::_Hash_node_base"**, %"struct.std::__detail::_Hash_node_base"*** %_M_buckets, align 8, !tbaa !71
  %arrayidx = getelementptr inbounds %"struct.std::__detail::_Hash_node_base"*, %"struct.std::__detail::_Hash_node_base"** %0, i64 %__bkt
  %1 = load %"struct.std::__detail::_Hash_node_base"*, %"struct.std::__detail::_Hash_node_base"** %arrayidx, align 8, !tbaa !97
  %tobool.not = icmp eq %"struct.std::__detail::_Hash_node_base"* %1, null
  br i1 %tobool.not, label %cleanup12, label %if.end

if.end:                                           ; preds = %entry
  %2 = bitcast %"struct.std::__detail::_Hash_node_base"* %1 to %"struct.std::__detail::_Hash_node"**
  %3 = load %"struct.std::__detail::_Hash_node"*, %"struct.std::__detail::_Hash_node"** %2, align 8, !tbaa !75
  %4 = bitcast %"class.std::_Hashtable"* %this to %"struct.std::__detail::_Hashtable_base"*
  %5 = getelementptr inbounds %"struct.std::__detail::_Hash_node", %"struct.std::__detail::_Hash_node"* %3, i64 0, i32 1, i32 0, i32 0, i32 0, i32 0, i64 0
  %6 = bitcast i8* %5 to %"struct.std::__detail::_Hash_node_value"*
  %call10 = call noundef zeroext i1 @_ZNKSt8__detail15_Hashtable_baseINSt7__cxx1112basic_stringIcSt11char_traitsIcESaIcEEESt4pairIKS6_S6_ENS_10_Select1stESt8equal_toIS6_ESt4hashIS6_ENS_18_Mod_range_hashingENS_20_Default_ranged_hashENS_17_Hashtable_traitsILb1ELb0ELb1EEEE9_M_equalsERS8_mRKNS_16_Hash_node_valueIS9_Lb1EEE(%"struct.std::__detail::_Hashtable_base"* noundef nonnull align 1 dereferenceable(1) %4, %"class.std::__cxx11::basic_string"* noundef nonnull align 8 dereferenceable(32) %__k, i64 noundef %__code, %"struct.std::__detail::_Hash_node_value"* noundef nonnull align 8 dereferenceable(72) %6)
  br i1 %call10, label %cleanup12, label %if.end3

if.end3:                                          ; preds = %if.end, %if.end10
  %__p.011 = phi %"struct.std::__detail::_Hash_node"* [ %call11, %if.end10 ], [ %3, %if.end ]
  %_M_nxt4 = getelementptr inbounds %"struct.std::__detail::_Hash_node", %"struct.std::__detail::_Hash_node"* %__p.011, i64 0, i32 0, i32 0
  %7 = load %"struct.std::__detail::_Hash_node_base"*, %"struct.std::__detail::_Hash_node_base"** %_M_nxt4, align 8, !tbaa !75
  %tobool5.not = icmp eq %"struct.std::__detail::_Hash_node_base"* %7, null
  br i1 %tobool5.not, label %cleanup12, label %lor.lhs.false

lor.lhs.false:                                    ; preds = %if.end3
  %call6 = call noundef %"struct.std::__detail::_Hash_node"* @_ZNKSt8__detail10_Hash_nodeISt4pairIKNSt7__cxx1112basic_stringIcSt11char_traitsIcESaIcEEES7_ELb1EE7_M_nextEv(%"struct.std::__detail::_Hash_node"* noundef nonnull align 8 dereferenceable(80) %__p.011) #29
  %8 = getelementptr inbounds %"struct.std::__detail::_Hash_node", %"struct.std::__detail::_Hash_node"* %call6, i64 0, i32 1, i32 0, i32 0, i32 0, i32 0, i64 0
  %9 = bitcast i8* %8 to %"struct.std::__detail::_Hash_node_value"*
  %call8 = call noundef i64 @_ZNKSt10_HashtableINSt7__cxx1112basic_stringIcSt11char_traitsIcESaIcEEESt4pairIKS5_S5_ESaIS8_ENSt8__detail10_Select1stESt8equal_toIS5_ESt4hashIS5_ENSA_18_Mod_range_hashingENSA_20_Default_ranged_hashENSA_20_Prime_rehash_policyENSA_17_Hashtable_traitsILb1ELb0ELb1EEEE15_M_bucket_indexERKNSA_16_Hash_node_valueIS8_Lb1EEE(%"class.std::_Hashtable"* noundef nonnull align 8 dereferenceable(56) %this, %"struct.std::__detail::_Hash_node_value"* noundef nonnull align 8 dereferenceable(72) %9) #29
  %cmp.not = icmp eq i64 %call8, %__bkt
  br i1 %cmp.not, label %if.end10, label %cleanup12

if.end10:                                         ; preds = %lor.lhs.false
  %call11 = call noundef %"struct.std::__detail::_Hash_node"* @_ZNKSt8__detail10_Hash_nodeISt4pairIKNSt7__cxx1112basic_stringIcSt11char_traitsIcESaIcEEES7_ELb1EE7_M_nextEv(%"struct.std::__detail::_Hash_node"* noundef nonnull align 8 dereferenceable(80) %__p.011) #29
  %10 = getelementptr inbounds %"struct.std::__detail::_Hash_node", %"struct.std::__detail::_Hash_node"* %call11, i64 0, i32 1, i32 0, i32 0, i32 0, i32 0, i64 0
  %11 = bitcast i8* %10 to %"struct.std::__detail::_Hash_node_value"*
  %call = call noundef zeroext i1 @_ZNKSt8__detail15_Hashtable_baseINSt7__cxx1112basic_stringIcSt11char_traitsIcESaIcEEESt4pairIKS6_S6_ENS_10_Select1stESt8equal_toIS6_ESt4hashIS6_ENS_18_Mod_range_hashingENS_20_Default_ranged_hashENS_17_Hashtable_traitsILb1ELb0ELb1EEEE9_M_equalsERS8_mRKNS_16_Hash_node_valueIS9_Lb1EEE(%"struct.std::__detail::_Hashtable_base"* noundef nonnull align 1 dereferenceable(1) %4, %"class.std::__cxx11::basic_string"* noundef nonnull align 8 dereferenceable(32) %__k, i64 noundef %__code, %"struct.std::__detail::_Hash_node_value"* noundef nonnull align 8 dereferenceable(72) %11)
  br i1 %call, label %for.cond.cleanup12.loopexit_crit_edge, label %if.end3, !llvm.loop !98

for.cond.cleanup12.loopexit_crit_edge:            ; preds = %if.end10
  %12 = getelementptr %"struct.std::__detail::_Hash_node", %"struct.std::__detail::_Hash_node"* %__p.011, i64 0, i32 0
  br label %cleanup12

cleanup12:                                        ; preds = %if.end3, %lor.lhs.false, %if.end, %for.cond.cleanup12.loopexit_crit_edge, %entry
  %retval.1 = phi %"struct.std::__detail::_Hash_node_base"* [ null, %entry ], [ %12, %for.cond.cleanup12.loopexit_crit_edge ], [ %1, %if.end ], [ null, %lor.lhs.false ], [ null, %if.end3 ]
  ret %"struct.std::__detail::_Hash_node_base"* %retval.1
}

; Function Attrs: mustprogress noinline uwtable
define linkonce_odr dso_local noundef zeroext i1 @_ZNKSt8__detail15_Hashtable_baseINSt7__cxx1112basic_stringIcSt11char_traitsIcESaIcEEESt4pairIKS6_S6_ENS_10_Select1stESt8equal_toIS6_ESt4hashIS6_ENS_18_Mod_range_hashingENS_20_Default_ranged_hashENS_17_Hashtable_traitsILb1ELb0ELb1EEEE9_M_equalsERS8_mRKNS_16_Hash_node_valueIS9_Lb1EEE(%"struct.std::__detail::_Hashtable_base"* noundef nonnull align 1 dereferenceable(1) %this, %"class.std::__cxx11::basic_string"* noundef nonnull align 8 dereferenceable(32) %__k, i64 noundef %__c, %"struct.std::__detail::_Hash_node_value"* noundef nonnull align 8 dereferenceable(72) %__n) local_unnamed_addr #13 comdat align 2 {
entry:
  %add.ptr = getelementptr inbounds %"struct.std::__detail::_Hash_node_value", %"struct.std::__detail::_Hash_node_value"* %__n, i64 0, i32 0, i32 0, i32 0, i32 0, i64 64
  %0 = bitcast i8* %add.ptr to %"struct.std::__detail::_Hash_node_code_cache"*
  %call = call noundef zeroext i1 @_ZNSt8__detail15_Hashtable_baseINSt7__cxx1112basic_stringIcSt11char_traitsIcESaIcEEESt4pairIKS6_S6_ENS_10_Select1stESt8equal_toIS6_ESt4hashIS6_ENS_18_Mod_range_hashingENS_20_Default_ranged_hashENS_17_Hashtable_traitsILb1ELb0ELb1EEEE9_S_equalsEmRKNS_21_Hash_node_code_cacheILb1EEE(i64 noundef %__c, %"struct.std::__detail::_Hash_node_code_cache"* noundef nonnull align 8 dereferenceable(8) %0)
  br i1 %call, label %land.rhs, label %land.end

land.rhs:                                         ; preds = %entry
  %call2 = call noundef zeroext i1 @_ZNKSt8__detail15_Hashtable_baseINSt7__cxx1112basic_stringIcSt11char_traitsIcESaIcEEESt4pairIKS6_S6_ENS_10_Select1stESt8equal_toIS6_ESt4hashIS6_ENS_18_Mod_range_hashingENS_20_Default_ranged_hashENS_17_Hashtable_traitsILb1ELb0ELb1EEEE13_M_key_equalsERS8_RKNS_16_Hash_node_valueIS9_Lb1EEE(%"struct.std::__detail::_Hashtable_base"* noundef nonnull align 1 dereferenceable(1) %this, %"class.std::__cxx11::basic_string"* noundef nonnull align 8 dereferenceable(32) %__k, %"struct.std::__detail::_Hash_node_value"* noundef nonnull align 8 dereferenceable(72) %__n)
  br label %land.end

land.end:                                         ; preds = %land.rhs, %entry
  %1 = phi i1 [ false, %entry ], [ %call2, %land.rhs ]
  ret i1 %1
}

; Function Attrs: mustprogress noinline nounwind uwtable
define linkonce_odr dso_local noundef i64 @_ZNKSt10_HashtableINSt7__cxx1112basic_stringIcSt11char_traitsIcESaIcEEESt4pairIKS5_S5_ESaIS8_ENSt8__detail10_Select1stESt8equal_toIS5_ESt4hashIS5_ENSA_18_Mod_range_hashingENSA_20_Default_ranged_hashENSA_20_Prime_rehash_policyENSA_17_Hashtable_traitsILb1ELb0ELb1EEEE15_M_bucket_indexERKNSA_16_Hash_node_valueIS8_Lb1EEE(%"class.std::_Hashtable"* noundef nonnull align 8 dereferenceable(56) %this, %"struct.std::__detail::_Hash_node_value"* noundef nonnull align 8 dereferenceable(72) %__n) local_unnamed_addr #8 comdat align 2 {
entry:
  %0 = bitcast %"class.std::_Hashtable"* %this to %"struct.std::__detail::_Hash_code_base"*
  %_M_bucket_count = getelementptr inbounds %"class.std::_Hashtable", %"class.std::_Hashtable"* %this, i64 0, i32 1
  %1 = load i64, i64* %_M_bucket_count, align 8, !tbaa !72
  %call = call noundef i64 @_ZNKSt8__detail15_Hash_code_baseINSt7__cxx1112basic_stringIcSt11char_traitsIcESaIcEEESt4pairIKS6_S6_ENS_10_Select1stESt4hashIS6_ENS_18_Mod_range_hashingENS_20_Default_ranged_hashELb1EE15_M_bucket_indexERKNS_16_Hash_node_valueIS9_Lb1EEEm(%"struct.std::__detail::_Hash_code_base"* noundef nonnull align 1 dereferenceable(1) %0, %"struct.std::__detail::_Hash_node_value"* noundef nonnull align 8 dereferenceable(72) %__n, i64 noundef %1) #29
  ret i64 %call
}

; Function Attrs: mustprogress noinline nounwind uwtable
define linkonce_odr dso_local noundef zeroext i1 @_ZNSt8__detail15_Hashtable_baseINSt7__cxx1112basic_stringIcSt11char_traitsIcESaIcEEESt4pairIKS6_S6_ENS_10_Select1stESt8equal_toIS6_ESt4hashIS6_ENS_18_Mod_range_hashingENS_20_Default_ranged_hashENS_17_Hashtable_traitsILb1ELb0ELb1EEEE9_S_equalsEmRKNS_21_Hash_node_code_cacheILb1EEE(i64 noundef %__c, %"struct.std::__detail::_Hash_node_code_cache"* noundef nonnull align 8 dereferenceable(8) %__n) local_unnamed_addr #8 comdat align 2 {
entry:
  %_M_hash_code = getelementptr inbounds %"struct.std::__detail::_Hash_node_code_cache", %"struct.std::__detail::_Hash_node_code_cache"* %__n, i64 0, i32 0
  %0 = load i64, i64* %_M_hash_code, align 8, !tbaa !99
  %cmp = icmp eq i64 %0, %__c
  ret i1 %cmp
}

; Function Attrs: mustprogress noinline nounwind uwtable
define linkonce_odr dso_local noundef i64 @_ZNKSt8__detail15_Hash_code_baseINSt7__cxx1112basic_stringIcSt11char_traitsIcESaIcEEESt4pairIKS6_S6_ENS_10_Select1stESt4hashIS6_ENS_18_Mod_range_hashingENS_20_Default_ranged_hashELb1EE15_M_bucket_indexERKNS_16_Hash_node_valueIS9_Lb1EEEm(%"struct.std::__detail::_Hash_code_base"* noundef nonnull align 1 dereferenceable(1) %this, %"struct.std::__detail::_Hash_node_value"* noundef nonnull align 8 dereferenceable(72) %__n, i64 noundef %__bkt_count) local_unnamed_addr #8 comdat align 2 {
entry:
  %ref.tmp = alloca %"struct.std::__detail::_Mod_range_hashing", align 1
  %0 = getelementptr inbounds %"struct.std::__detail::_Mod_range_hashing", %"struct.std::__detail::_Mod_range_hashing"* %ref.tmp, i64 0, i32 0
  call void @llvm.lifetime.start.p0i8(i64 1, i8* nonnull %0) #29
  %add.ptr = getelementptr inbounds %"struct.std::__detail::_Hash_node_value", %"struct.std::__detail::_Hash_node_value"* %__n, i64 0, i32 0, i32 0, i32 0, i32 0, i64 64
  %_M_hash_code = bitcast i8* %add.ptr to i64*
  %1 = load i64, i64* %_M_hash_code, align 8, !tbaa !99
  %call = call noundef i64 @_ZNKSt8__detail18_Mod_range_hashingclEmm(%"struct.std::__detail::_Mod_range_hashing"* noundef nonnull align 1 dereferenceable(1) %ref.tmp, i64 noundef %1, i64 noundef %__bkt_count) #29
  call void @llvm.lifetime.end.p0i8(i64 1, i8* nonnull %0) #29
  ret i64 %call
}

; Function Attrs: mustprogress noinline nounwind uwtable
define linkonce_odr dso_local noundef i64 @_ZNKSt8__detail20_Prime_rehash_policy8_M_stateEv(%"struct.std::__detail::_Prime_rehash_policy"* noundef nonnull align 8 dereferenceable(16) %this) local_unnamed_addr #8 comdat align 2 {
entry:
  %_M_next_resize = getelementptr inbounds %"struct.std::__detail::_Prime_rehash_policy", %"struct.std::__detail::_Prime_rehash_policy"* %this, i64 0, i32 1
  %0 = load i64, i64* %_M_next_resize, align 8, !tbaa !77
  ret i64 %0
}

declare { i8, i64 } @_ZNKSt8__detail20_Prime_rehash_policy14_M_need_rehashEmmm(%"struct.std::__detail::_Prime_rehash_policy"* noundef nonnull align 8 dereferenceable(16), i64 noundef, i64 noundef, i64 noundef) local_unnamed_addr #0

; Function Attrs: mustprogress noinline uwtable
define linkonce_odr dso_local void @_ZNSt10_HashtableINSt7__cxx1112basic_stringIcSt11char_traitsIcESaIcEEESt4pairIKS5_S5_ESaIS8_ENSt8__detail10_Select1stESt8equal_toIS5_ESt4hashIS5_ENSA_18_Mod_range_hashingENSA_20_Default_ranged_hashENSA_20_Prime_rehash_policyENSA_17_Hashtable_traitsILb1ELb0ELb1EEEE9_M_rehashEmRKm(%"class.std::_Hashtable"* noundef nonnull align 8 dereferenceable(56) %this, i64 noundef %__bkt_count, i64* noundef nonnull align 8 dereferenceable(8) %__state) local_unnamed_addr #13 comdat align 2 personality i8* bitcast (i32 (...)* @__gxx_personality_v0 to i8*) {
entry:
  invoke void @_ZNSt10_HashtableINSt7__cxx1112basic_stringIcSt11char_traitsIcESaIcEEESt4pairIKS5_S5_ESaIS8_ENSt8__detail10_Select1stESt8equal_toIS5_ESt4hashIS5_ENSA_18_Mod_range_hashingENSA_20_Default_ranged_hashENSA_20_Prime_rehash_policyENSA_17_Hashtable_traitsILb1ELb0ELb1EEEE13_M_rehash_auxEmSt17integral_constantIbLb1EE(%"class.std::_Hashtable"* noundef nonnull align 8 dereferenceable(56) %this, i64 noundef %__bkt_count)
          to label %try.cont unwind label %lpad

lpad:                                             ; preds = %entry
  %0 = landingpad { i8*, i32 }
          catch i8* null
  %1 = extractvalue { i8*, i32 } %0, 0
  %2 = call i8* @__cxa_begin_catch(i8* %1) #29
  %_M_rehash_policy = getelementptr inbounds %"class.std::_Hashtable", %"class.std::_Hashtable"* %this, i64 0, i32 4
  %3 = load i64, i64* %__state, align 8, !tbaa !88
  call void @_ZNSt8__detail20_Prime_rehash_policy8_M_resetEm(%"struct.std::__detail::_Prime_rehash_policy"* noundef nonnull align 8 dereferenceable(16) %_M_rehash_policy, i64 noundef %3)
  invoke void @__cxa_rethrow() #30
          to label %unreachable unwind label %lpad2

lpad2:                                            ; preds = %lpad
  %4 = landingpad { i8*, i32 }
          cleanup
  invoke void @__cxa_end_catch()
          to label %eh.resume unwind label %terminate.lpad

try.cont:                                         ; preds = %entry
  ret void

eh.resume:                                        ; preds = %lpad2
  resume { i8*, i32 } %4

terminate.lpad:                                   ; preds = %lpad2
  %5 = landingpad { i8*, i32 }
          catch i8* null
  %6 = extractvalue { i8*, i32 } %5, 0
  call void @__clang_call_terminate(i8* %6) #32
  unreachable

unreachable:                                      ; preds = %lpad
  unreachable
}

; Function Attrs: mustprogress noinline nounwind uwtable
define linkonce_odr dso_local void @_ZNKSt8__detail15_Hash_code_baseINSt7__cxx1112basic_stringIcSt11char_traitsIcESaIcEEESt4pairIKS6_S6_ENS_10_Select1stESt4hashIS6_ENS_18_Mod_range_hashingENS_20_Default_ranged_hashELb1EE13_M_store_codeERNS_21_Hash_node_code_cacheILb1EEEm(%"struct.std::__detail::_Hash_code_base"* noundef nonnull align 1 dereferenceable(1) %this, %"struct.std::__detail::_Hash_node_code_cache"* noundef nonnull align 8 dereferenceable(8) %__n, i64 noundef %__c) local_unnamed_addr #8 comdat align 2 {
entry:
  %_M_hash_code = getelementptr inbounds %"struct.std::__detail::_Hash_node_code_cache", %"struct.std::__detail::_Hash_node_code_cache"* %__n, i64 0, i32 0
  store i64 %__c, i64* %_M_hash_code, align 8, !tbaa !99
  ret void
}

; Function Attrs: mustprogress noinline nounwind uwtable
define linkonce_odr dso_local void @_ZNSt10_HashtableINSt7__cxx1112basic_stringIcSt11char_traitsIcESaIcEEESt4pairIKS5_S5_ESaIS8_ENSt8__detail10_Select1stESt8equal_toIS5_ESt4hashIS5_ENSA_18_Mod_range_hashingENSA_20_Default_ranged_hashENSA_20_Prime_rehash_policyENSA_17_Hashtable_traitsILb1ELb0ELb1EEEE22_M_insert_bucket_beginEmPNSA_10_Hash_nodeIS8_Lb1EEE(%"class.std::_Hashtable"* noundef nonnull align 8 dereferenceable(56) %this, i64 noundef %__bkt, %"struct.std::__detail::_Hash_node"* noundef %__node) local_unnamed_addr #8 comdat align 2 {
entry:
  %_M_buckets = getelementptr inbounds %"class.std::_Hashtable", %"class.std::_Hashtable"* %this, i64 0, i32 0
  %0 = load %"struct.std::__detail::_Hash_node_base"**, %"struct.std::__detail::_Hash_node_base"*** %_M_buckets, align 8, !tbaa !71
  %arrayidx = getelementptr inbounds %"struct.std::__detail::_Hash_node_base"*, %"struct.std::__detail::_Hash_node_base"** %0, i64 %__bkt
  %1 = load %"struct.std::__detail::_Hash_node_base"*, %"struct.std::__detail::_Hash_node_base"** %arrayidx, align 8, !tbaa !97
  %tobool.not = icmp eq %"struct.std::__detail::_Hash_node_base"* %1, null
  br i1 %tobool.not, label %if.else, label %if.then

if.then:                                          ; preds = %entry
  %_M_nxt = getelementptr inbounds %"struct.std::__detail::_Hash_node_base", %"struct.std::__detail::_Hash_node_base"* %1, i64 0, i32 0
  %2 = load %"struct.std::__detail::_Hash_node_base"*, %"struct.std::__detail::_Hash_node_base"** %_M_nxt, align 8, !tbaa !75
  %3 = getelementptr %"struct.std::__detail::_Hash_node", %"struct.std::__detail::_Hash_node"* %__node, i64 0, i32 0
  %_M_nxt4 = getelementptr inbounds %"struct.std::__detail::_Hash_node", %"struct.std::__detail::_Hash_node"* %__node, i64 0, i32 0, i32 0
  store %"struct.std::__detail::_Hash_node_base"* %2, %"struct.std::__detail::_Hash_node_base"** %_M_nxt4, align 8, !tbaa !75
  %4 = load %"struct.std::__detail::_Hash_node_base"*, %"struct.std::__detail::_Hash_node_base"** %arrayidx, align 8, !tbaa !97
  %_M_nxt7 = getelementptr inbounds %"struct.std::__detail::_Hash_node_base", %"struct.std::__detail::_Hash_node_base"* %4, i64 0, i32 0
  store %"struct.std::__detail::_Hash_node_base"* %3, %"struct.std::__detail::_Hash_node_base"** %_M_nxt7, align 8, !tbaa !75
  br label %if.end21

if.else:                                          ; preds = %entry
  %_M_before_begin = getelementptr inbounds %"class.std::_Hashtable", %"class.std::_Hashtable"* %this, i64 0, i32 2
  %_M_nxt8 = getelementptr inbounds %"struct.std::__detail::_Hash_node_base", %"struct.std::__detail::_Hash_node_base"* %_M_before_begin, i64 0, i32 0
  %5 = load %"struct.std::__detail::_Hash_node_base"*, %"struct.std::__detail::_Hash_node_base"** %_M_nxt8, align 8, !tbaa !82
  %6 = getelementptr %"struct.std::__detail::_Hash_node", %"struct.std::__detail::_Hash_node"* %__node, i64 0, i32 0
  %_M_nxt9 = getelementptr inbounds %"struct.std::__detail::_Hash_node", %"struct.std::__detail::_Hash_node"* %__node, i64 0, i32 0, i32 0
  store %"struct.std::__detail::_Hash_node_base"* %5, %"struct.std::__detail::_Hash_node_base"** %_M_nxt9, align 8, !tbaa !75
  store %"struct.std::__detail::_Hash_node_base"* %6, %"struct.std::__detail::_Hash_node_base"** %_M_nxt8, align 8, !tbaa !82
  %7 = load %"struct.std::__detail::_Hash_node_base"*, %"struct.std::__detail::_Hash_node_base"** %_M_nxt9, align 8, !tbaa !75
  %tobool13.not = icmp eq %"struct.std::__detail::_Hash_node_base"* %7, null
  br i1 %tobool13.not, label %if.end, label %if.then14

if.then14:                                        ; preds = %if.else
  %call = call noundef %"struct.std::__detail::_Hash_node"* @_ZNKSt8__detail10_Hash_nodeISt4pairIKNSt7__cxx1112basic_stringIcSt11char_traitsIcESaIcEEES7_ELb1EE7_M_nextEv(%"struct.std::__detail::_Hash_node"* noundef nonnull align 8 dereferenceable(80) %__node) #29
  %8 = getelementptr inbounds %"struct.std::__detail::_Hash_node", %"struct.std::__detail::_Hash_node"* %call, i64 0, i32 1, i32 0, i32 0, i32 0, i32 0, i64 0
  %9 = bitcast i8* %8 to %"struct.std::__detail::_Hash_node_value"*
  %call16 = call noundef i64 @_ZNKSt10_HashtableINSt7__cxx1112basic_stringIcSt11char_traitsIcESaIcEEESt4pairIKS5_S5_ESaIS8_ENSt8__detail10_Select1stESt8equal_toIS5_ESt4hashIS5_ENSA_18_Mod_range_hashingENSA_20_Default_ranged_hashENSA_20_Prime_rehash_policyENSA_17_Hashtable_traitsILb1ELb0ELb1EEEE15_M_bucket_indexERKNSA_16_Hash_node_valueIS8_Lb1EEE(%"class.std::_Hashtable"* noundef nonnull align 8 dereferenceable(56) %this, %"struct.std::__detail::_Hash_node_value"* noundef nonnull align 8 dereferenceable(72) %9) #29
  %arrayidx17 = getelementptr inbounds %"struct.std::__detail::_Hash_node_base"*, %"struct.std::__detail::_Hash_node_base"** %0, i64 %call16
  store %"struct.std::__detail::_Hash_node_base"* %6, %"struct.std::__detail::_Hash_node_base"** %arrayidx17, align 8, !tbaa !97
  br label %if.end

if.end:                                           ; preds = %if.then14, %if.else
  %10 = load %"struct.std::__detail::_Hash_node_base"**, %"struct.std::__detail::_Hash_node_base"*** %_M_buckets, align 8, !tbaa !71
  %arrayidx20 = getelementptr inbounds %"struct.std::__detail::_Hash_node_base"*, %"struct.std::__detail::_Hash_node_base"** %10, i64 %__bkt
  store %"struct.std::__detail::_Hash_node_base"* %_M_before_begin, %"struct.std::__detail::_Hash_node_base"** %arrayidx20, align 8, !tbaa !97
  br label %if.end21

if.end21:                                         ; preds = %if.end, %if.then
  ret void
}

; Function Attrs: mustprogress noinline uwtable
define linkonce_odr dso_local void @_ZNSt10_HashtableINSt7__cxx1112basic_stringIcSt11char_traitsIcESaIcEEESt4pairIKS5_S5_ESaIS8_ENSt8__detail10_Select1stESt8equal_toIS5_ESt4hashIS5_ENSA_18_Mod_range_hashingENSA_20_Default_ranged_hashENSA_20_Prime_rehash_policyENSA_17_Hashtable_traitsILb1ELb0ELb1EEEE13_M_rehash_auxEmSt17integral_constantIbLb1EE(%"class.std::_Hashtable"* noundef nonnull align 8 dereferenceable(56) %this, i64 noundef %__bkt_count) local_unnamed_addr #13 comdat align 2 {
entry:
  %call = call noundef %"struct.std::__detail::_Hash_node_base"** @_ZNSt10_HashtableINSt7__cxx1112basic_stringIcSt11char_traitsIcESaIcEEESt4pairIKS5_S5_ESaIS8_ENSt8__detail10_Select1stESt8equal_toIS5_ESt4hashIS5_ENSA_18_Mod_range_hashingENSA_20_Default_ranged_hashENSA_20_Prime_rehash_policyENSA_17_Hashtable_traitsILb1ELb0ELb1EEEE19_M_allocate_bucketsEm(%"class.std::_Hashtable"* noundef nonnull align 8 dereferenceable(56) %this, i64 noundef %__bkt_count)
  %call2 = call noundef %"struct.std::__detail::_Hash_node"* @_ZNKSt10_HashtableINSt7__cxx1112basic_stringIcSt11char_traitsIcESaIcEEESt4pairIKS5_S5_ESaIS8_ENSt8__detail10_Select1stESt8equal_toIS5_ESt4hashIS5_ENSA_18_Mod_range_hashingENSA_20_Default_ranged_hashENSA_20_Prime_rehash_policyENSA_17_Hashtable_traitsILb1ELb0ELb1EEEE8_M_beginEv(%"class.std::_Hashtable"* noundef nonnull align 8 dereferenceable(56) %this)
  %_M_before_begin = getelementptr inbounds %"class.std::_Hashtable", %"class.std::_Hashtable"* %this, i64 0, i32 2
  %_M_nxt = getelementptr inbounds %"struct.std::__detail::_Hash_node_base", %"struct.std::__detail::_Hash_node_base"* %_M_before_begin, i64 0, i32 0
  store %"struct.std::__detail::_Hash_node_base"* null, %"struct.std::__detail::_Hash_node_base"** %_M_nxt, align 8, !tbaa !82
  %tobool.not25 = icmp eq %"struct.std::__detail::_Hash_node"* %call2, null
  br i1 %tobool.not25, label %while.end, label %while.body.lr.ph

while.body.lr.ph:                                 ; preds = %entry
  %0 = bitcast %"class.std::_Hashtable"* %this to %"struct.std::__detail::_Hash_code_base"*
  br label %while.body

while.body:                                       ; preds = %while.body.lr.ph, %if.end22
  %__p.027 = phi %"struct.std::__detail::_Hash_node"* [ %call2, %while.body.lr.ph ], [ %call3, %if.end22 ]
  %__bbegin_bkt.026 = phi i64 [ 0, %while.body.lr.ph ], [ %__bbegin_bkt.1, %if.end22 ]
  %call3 = call noundef %"struct.std::__detail::_Hash_node"* @_ZNKSt8__detail10_Hash_nodeISt4pairIKNSt7__cxx1112basic_stringIcSt11char_traitsIcESaIcEEES7_ELb1EE7_M_nextEv(%"struct.std::__detail::_Hash_node"* noundef nonnull align 8 dereferenceable(80) %__p.027) #29
  %1 = getelementptr inbounds %"struct.std::__detail::_Hash_node", %"struct.std::__detail::_Hash_node"* %__p.027, i64 0, i32 1, i32 0, i32 0, i32 0, i32 0, i64 0
  %2 = bitcast i8* %1 to %"struct.std::__detail::_Hash_node_value"*
  %call4 = call noundef i64 @_ZNKSt8__detail15_Hash_code_baseINSt7__cxx1112basic_stringIcSt11char_traitsIcESaIcEEESt4pairIKS6_S6_ENS_10_Select1stESt4hashIS6_ENS_18_Mod_range_hashingENS_20_Default_ranged_hashELb1EE15_M_bucket_indexERKNS_16_Hash_node_valueIS9_Lb1EEEm(%"struct.std::__detail::_Hash_code_base"* noundef nonnull align 1 dereferenceable(1) %0, %"struct.std::__detail::_Hash_node_value"* noundef nonnull align 8 dereferenceable(72) %2, i64 noundef %__bkt_count) #29
  %arrayidx = getelementptr inbounds %"struct.std::__detail::_Hash_node_base"*, %"struct.std::__detail::_Hash_node_base"** %call, i64 %call4
  %3 = load %"struct.std::__detail::_Hash_node_base"*, %"struct.std::__detail::_Hash_node_base"** %arrayidx, align 8, !tbaa !97
  %tobool5.not = icmp eq %"struct.std::__detail::_Hash_node_base"* %3, null
  br i1 %tobool5.not, label %if.then, label %if.else

if.then:                                          ; preds = %while.body
  %4 = load %"struct.std::__detail::_Hash_node_base"*, %"struct.std::__detail::_Hash_node_base"** %_M_nxt, align 8, !tbaa !82
  %5 = getelementptr %"struct.std::__detail::_Hash_node", %"struct.std::__detail::_Hash_node"* %__p.027, i64 0, i32 0
  %_M_nxt8 = getelementptr inbounds %"struct.std::__detail::_Hash_node", %"struct.std::__detail::_Hash_node"* %__p.027, i64 0, i32 0, i32 0
  store %"struct.std::__detail::_Hash_node_base"* %4, %"struct.std::__detail::_Hash_node_base"** %_M_nxt8, align 8, !tbaa !75
  store %"struct.std::__detail::_Hash_node_base"* %5, %"struct.std::__detail::_Hash_node_base"** %_M_nxt, align 8, !tbaa !82
  store %"struct.std::__detail::_Hash_node_base"* %_M_before_begin, %"struct.std::__detail::_Hash_node_base"** %arrayidx, align 8, !tbaa !97
  %6 = load %"struct.std::__detail::_Hash_node_base"*, %"struct.std::__detail::_Hash_node_base"** %_M_nxt8, align 8, !tbaa !75
  %tobool14.not = icmp eq %"struct.std::__detail::_Hash_node_base"* %6, null
  br i1 %tobool14.not, label %if.end22, label %if.then15

if.then15:                                        ; preds = %if.then
  %arrayidx16 = getelementptr inbounds %"struct.std::__detail::_Hash_node_base"*, %"struct.std::__detail::_Hash_node_base"** %call, i64 %__bbegin_bkt.026
  store %"struct.std::__detail::_Hash_node_base"* %5, %"struct.std::__detail::_Hash_node_base"** %arrayidx16, align 8, !tbaa !97
  br label %if.end22

if.else:                                          ; preds = %while.body
  %_M_nxt18 = getelementptr inbounds %"struct.std::__detail::_Hash_node_base", %"struct.std::__detail::_Hash_node_base"* %3, i64 0, i32 0
  %7 = load %"struct.std::__detail::_Hash_node_base"*, %"struct.std::__detail::_Hash_node_base"** %_M_nxt18, align 8, !tbaa !75
  %8 = getelementptr %"struct.std::__detail::_Hash_node", %"struct.std::__detail::_Hash_node"* %__p.027, i64 0, i32 0
  %_M_nxt19 = getelementptr inbounds %"struct.std::__detail::_Hash_node", %"struct.std::__detail::_Hash_node"* %__p.027, i64 0, i32 0, i32 0
  store %"struct.std::__detail::_Hash_node_base"* %7, %"struct.std::__detail::_Hash_node_base"** %_M_nxt19, align 8, !tbaa !75
  %9 = load %"struct.std::__detail::_Hash_node_base"*, %"struct.std::__detail::_Hash_node_base"** %arrayidx, align 8, !tbaa !97
  %_M_nxt21 = getelementptr inbounds %"struct.std::__detail::_Hash_node_base", %"struct.std::__detail::_Hash_node_base"* %9, i64 0, i32 0
  store %"struct.std::__detail::_Hash_node_base"* %8, %"struct.std::__detail::_Hash_node_base"** %_M_nxt21, align 8, !tbaa !75
  br label %if.end22

if.end22:                                         ; preds = %if.then, %if.then15, %if.else
  %__bbegin_bkt.1 = phi i64 [ %__bbegin_bkt.026, %if.else ], [ %call4, %if.then15 ], [ %call4, %if.then ]
  %tobool.not = icmp eq %"struct.std::__detail::_Hash_node"* %call3, null
  br i1 %tobool.not, label %while.end, label %while.body, !llvm.loop !101

while.end:                                        ; preds = %if.end22, %entry
  call void @_ZNSt10_HashtableINSt7__cxx1112basic_stringIcSt11char_traitsIcESaIcEEESt4pairIKS5_S5_ESaIS8_ENSt8__detail10_Select1stESt8equal_toIS5_ESt4hashIS5_ENSA_18_Mod_range_hashingENSA_20_Default_ranged_hashENSA_20_Prime_rehash_policyENSA_17_Hashtable_traitsILb1ELb0ELb1EEEE21_M_deallocate_bucketsEv(%"class.std::_Hashtable"* noundef nonnull align 8 dereferenceable(56) %this)
  %_M_bucket_count = getelementptr inbounds %"class.std::_Hashtable", %"class.std::_Hashtable"* %this, i64 0, i32 1
  store i64 %__bkt_count, i64* %_M_bucket_count, align 8, !tbaa !72
  %_M_buckets = getelementptr inbounds %"class.std::_Hashtable", %"class.std::_Hashtable"* %this, i64 0, i32 0
  store %"struct.std::__detail::_Hash_node_base"** %call, %"struct.std::__detail::_Hash_node_base"*** %_M_buckets, align 8, !tbaa !71
  ret void
}

; Function Attrs: mustprogress noinline nounwind uwtable
define linkonce_odr dso_local void @_ZNSt8__detail20_Prime_rehash_policy8_M_resetEm(%"struct.std::__detail::_Prime_rehash_policy"* noundef nonnull align 8 dereferenceable(16) %this, i64 noundef %__state) local_unnamed_addr #8 comdat align 2 {
entry:
  %_M_next_resize = getelementptr inbounds %"struct.std::__detail::_Prime_rehash_policy", %"struct.std::__detail::_Prime_rehash_policy"* %this, i64 0, i32 1
  store i64 %__state, i64* %_M_next_resize, align 8, !tbaa !77
  ret void
}

; Function Attrs: mustprogress noinline uwtable
define linkonce_odr dso_local noundef %"struct.std::__detail::_Hash_node_base"** @_ZNSt10_HashtableINSt7__cxx1112basic_stringIcSt11char_traitsIcESaIcEEESt4pairIKS5_S5_ESaIS8_ENSt8__detail10_Select1stESt8equal_toIS5_ESt4hashIS5_ENSA_18_Mod_range_hashingENSA_20_Default_ranged_hashENSA_20_Prime_rehash_policyENSA_17_Hashtable_traitsILb1ELb0ELb1EEEE19_M_allocate_bucketsEm(%"class.std::_Hashtable"* noundef nonnull align 8 dereferenceable(56) %this, i64 noundef %__bkt_count) local_unnamed_addr #13 comdat align 2 {
entry:
  %cmp = icmp eq i64 %__bkt_count, 1
  br i1 %cmp, label %if.then, label %if.end, !prof !66

if.then:                                          ; preds = %entry
  %_M_single_bucket = getelementptr inbounds %"class.std::_Hashtable", %"class.std::_Hashtable"* %this, i64 0, i32 5
  store %"struct.std::__detail::_Hash_node_base"* null, %"struct.std::__detail::_Hash_node_base"** %_M_single_bucket, align 8, !tbaa !74
  br label %return

if.end:                                           ; preds = %entry
  %0 = bitcast %"class.std::_Hashtable"* %this to %"struct.std::__detail::_Hashtable_alloc"*
  %call = call noundef %"struct.std::__detail::_Hash_node_base"** @_ZNSt8__detail16_Hashtable_allocISaINS_10_Hash_nodeISt4pairIKNSt7__cxx1112basic_stringIcSt11char_traitsIcESaIcEEES8_ELb1EEEEE19_M_allocate_bucketsEm(%"struct.std::__detail::_Hashtable_alloc"* noundef nonnull align 1 dereferenceable(1) %0, i64 noundef %__bkt_count)
  br label %return

return:                                           ; preds = %if.end, %if.then
  %retval.0 = phi %"struct.std::__detail::_Hash_node_base"** [ %_M_single_bucket, %if.then ], [ %call, %if.end ]
  ret %"struct.std::__detail::_Hash_node_base"** %retval.0
}

; Function Attrs: noinline uwtable
define linkonce_odr dso_local noundef %"struct.std::__detail::_Hash_node_base"** @_ZNSt8__detail16_Hashtable_allocISaINS_10_Hash_nodeISt4pairIKNSt7__cxx1112basic_stringIcSt11char_traitsIcESaIcEEES8_ELb1EEEEE19_M_allocate_bucketsEm(%"struct.std::__detail::_Hashtable_alloc"* noundef nonnull align 1 dereferenceable(1) %this, i64 noundef %__bkt_count) local_unnamed_addr #5 comdat align 2 personality i8* bitcast (i32 (...)* @__gxx_personality_v0 to i8*) {
entry:
  %__alloc = alloca %"class.std::allocator.27", align 1
  %0 = getelementptr inbounds %"class.std::allocator.27", %"class.std::allocator.27"* %__alloc, i64 0, i32 0
  call void @llvm.lifetime.start.p0i8(i64 1, i8* nonnull %0) #29
  %call = call noundef nonnull align 1 dereferenceable(1) %"class.std::allocator.2"* @_ZNSt8__detail16_Hashtable_allocISaINS_10_Hash_nodeISt4pairIKNSt7__cxx1112basic_stringIcSt11char_traitsIcESaIcEEES8_ELb1EEEEE17_M_node_allocatorEv(%"struct.std::__detail::_Hashtable_alloc"* noundef nonnull align 1 dereferenceable(1) %this)
  %1 = bitcast %"class.std::allocator.27"* %__alloc to %"class.std::__new_allocator.28"*
  %call.i.i = call noundef i64 @_ZNKSt15__new_allocatorIPNSt8__detail15_Hash_node_baseEE11_M_max_sizeEv(%"class.std::__new_allocator.28"* noundef nonnull align 1 dereferenceable(1) %1) #29
  %cmp.i.i = icmp ult i64 %call.i.i, %__bkt_count
  br i1 %cmp.i.i, label %if.then.i.i, label %_ZNSt15__new_allocatorIPNSt8__detail15_Hash_node_baseEE8allocateEmPKv.exit.i, !prof !66

if.then.i.i:                                      ; preds = %entry
  %cmp2.i.i = icmp ugt i64 %__bkt_count, 2305843009213693951
  br i1 %cmp2.i.i, label %if.then3.i.i, label %if.end.i.i

if.then3.i.i:                                     ; preds = %if.then.i.i
  call void @_ZSt28__throw_bad_array_new_lengthv() #30
  unreachable

if.end.i.i:                                       ; preds = %if.then.i.i
  call void @_ZSt17__throw_bad_allocv() #30
  unreachable

_ZNSt15__new_allocatorIPNSt8__detail15_Hash_node_baseEE8allocateEmPKv.exit.i: ; preds = %entry
  %mul.i.i = shl i64 %__bkt_count, 3
  %call5.i.i7 = call noalias noundef nonnull i8* @_Znwm(i64 noundef %mul.i.i) #34
  %2 = bitcast i8* %call5.i.i7 to %"struct.std::__detail::_Hash_node_base"**
  call void @llvm.memset.p0i8.i64(i8* nonnull align 8 %call5.i.i7, i8 0, i64 %mul.i.i, i1 false)
  call void @llvm.lifetime.end.p0i8(i64 1, i8* nonnull %0) #29
  ret %"struct.std::__detail::_Hash_node_base"** %2
}

; Function Attrs: mustprogress noinline nounwind uwtable
define linkonce_odr dso_local noundef i64 @_ZNKSt15__new_allocatorIPNSt8__detail15_Hash_node_baseEE11_M_max_sizeEv(%"class.std::__new_allocator.28"* noundef nonnull align 1 dereferenceable(1) %this) local_unnamed_addr #8 comdat align 2 {
entry:
  ret i64 1152921504606846975
}

; Function Attrs: mustprogress noinline nounwind uwtable
define linkonce_odr dso_local void @_ZNSt19_Optional_base_implIN8Pistache4Http4Mime1QESt14_Optional_baseIS3_Lb1ELb1EEE12_M_constructIJRS3_EEEvDpOT_(%"class.std::_Optional_base_impl"* noundef nonnull align 1 dereferenceable(1) %this, %"class.Pistache::Http::Mime::Q"* noundef nonnull align 2 dereferenceable(2) %__args) local_unnamed_addr #8 comdat align 2 {
entry:
  %0 = bitcast %"class.std::_Optional_base_impl"* %this to %"struct.std::_Optional_payload_base"*
  call void @_ZNSt22_Optional_payload_baseIN8Pistache4Http4Mime1QEE12_M_constructIJRS3_EEEvDpOT_(%"struct.std::_Optional_payload_base"* noundef nonnull align 2 dereferenceable(3) %0, %"class.Pistache::Http::Mime::Q"* noundef nonnull align 2 dereferenceable(2) %__args) #29
  ret void
}

; Function Attrs: mustprogress noinline nounwind uwtable
define linkonce_odr dso_local void @_ZNSt22_Optional_payload_baseIN8Pistache4Http4Mime1QEE12_M_constructIJRS3_EEEvDpOT_(%"struct.std::_Optional_payload_base"* noundef nonnull align 2 dereferenceable(3) %this, %"class.Pistache::Http::Mime::Q"* noundef nonnull align 2 dereferenceable(2) %__args) local_unnamed_addr #8 comdat align 2 personality i8* bitcast (i32 (...)* @__gxx_personality_v0 to i8*) {
entry:
  %_M_value = getelementptr inbounds %"struct.std::_Optional_payload_base", %"struct.std::_Optional_payload_base"* %this, i64 0, i32 0, i32 0
  call void @_ZSt10_ConstructIN8Pistache4Http4Mime1QEJRS3_EEvPT_DpOT0_(%"class.Pistache::Http::Mime::Q"* noundef nonnull %_M_value, %"class.Pistache::Http::Mime::Q"* noundef nonnull align 2 dereferenceable(2) %__args)
  %_M_engaged = getelementptr inbounds %"struct.std::_Optional_payload_base", %"struct.std::_Optional_payload_base"* %this, i64 0, i32 1
  store i8 1, i8* %_M_engaged, align 2, !tbaa !78
  ret void
}

; Function Attrs: inlinehint mustprogress noinline nounwind uwtable
define linkonce_odr dso_local void @_ZSt10_ConstructIN8Pistache4Http4Mime1QEJRS3_EEvPT_DpOT0_(%"class.Pistache::Http::Mime::Q"* noundef %__p, %"class.Pistache::Http::Mime::Q"* noundef nonnull align 2 dereferenceable(2) %__args) local_unnamed_addr #17 comdat {
entry:
  %0 = getelementptr inbounds %"class.Pistache::Http::Mime::Q", %"class.Pistache::Http::Mime::Q"* %__args, i64 0, i32 0
  %1 = getelementptr %"class.Pistache::Http::Mime::Q", %"class.Pistache::Http::Mime::Q"* %__p, i64 0, i32 0
  %2 = load i16, i16* %0, align 2, !tbaa !67
  store i16 %2, i16* %1, align 2, !tbaa !67
  ret void
}

; Function Attrs: mustprogress noinline uwtable
define linkonce_odr dso_local %"struct.std::__detail::_Hash_node"* @_ZNKSt10_HashtableINSt7__cxx1112basic_stringIcSt11char_traitsIcESaIcEEESt4pairIKS5_S5_ESaIS8_ENSt8__detail10_Select1stESt8equal_toIS5_ESt4hashIS5_ENSA_18_Mod_range_hashingENSA_20_Default_ranged_hashENSA_20_Prime_rehash_policyENSA_17_Hashtable_traitsILb1ELb0ELb1EEEE4findERS7_(%"class.std::_Hashtable"* noundef nonnull align 8 dereferenceable(56) %this, %"class.std::__cxx11::basic_string"* noundef nonnull align 8 dereferenceable(32) %__k) local_unnamed_addr #13 comdat align 2 {
entry:
  %retval = alloca %"struct.std::__detail::_Node_const_iterator", align 8
  %ref.tmp = alloca %"struct.std::__detail::_Node_const_iterator", align 8
  %call = call noundef i64 @_ZNKSt10_HashtableINSt7__cxx1112basic_stringIcSt11char_traitsIcESaIcEEESt4pairIKS5_S5_ESaIS8_ENSt8__detail10_Select1stESt8equal_toIS5_ESt4hashIS5_ENSA_18_Mod_range_hashingENSA_20_Default_ranged_hashENSA_20_Prime_rehash_policyENSA_17_Hashtable_traitsILb1ELb0ELb1EEEE4sizeEv(%"class.std::_Hashtable"* noundef nonnull align 8 dereferenceable(56) %this) #29
  %call2 = call noundef i64 @_ZNSt10_HashtableINSt7__cxx1112basic_stringIcSt11char_traitsIcESaIcEEESt4pairIKS5_S5_ESaIS8_ENSt8__detail10_Select1stESt8equal_toIS5_ESt4hashIS5_ENSA_18_Mod_range_hashingENSA_20_Default_ranged_hashENSA_20_Prime_rehash_policyENSA_17_Hashtable_traitsILb1ELb0ELb1EEEE22__small_size_thresholdEv() #29
  %cmp.not = icmp ugt i64 %call, %call2
  br i1 %cmp.not, label %if.end15, label %if.then

if.then:                                          ; preds = %entry
  %call3 = call %"struct.std::__detail::_Hash_node"* @_ZNKSt10_HashtableINSt7__cxx1112basic_stringIcSt11char_traitsIcESaIcEEESt4pairIKS5_S5_ESaIS8_ENSt8__detail10_Select1stESt8equal_toIS5_ESt4hashIS5_ENSA_18_Mod_range_hashingENSA_20_Default_ranged_hashENSA_20_Prime_rehash_policyENSA_17_Hashtable_traitsILb1ELb0ELb1EEEE5beginEv(%"class.std::_Hashtable"* noundef nonnull align 8 dereferenceable(56) %this) #29
  %coerce.dive4 = getelementptr inbounds %"struct.std::__detail::_Node_const_iterator", %"struct.std::__detail::_Node_const_iterator"* %retval, i64 0, i32 0, i32 0
  store %"struct.std::__detail::_Hash_node"* %call3, %"struct.std::__detail::_Hash_node"** %coerce.dive4, align 8
  %0 = getelementptr inbounds %"struct.std::__detail::_Node_const_iterator", %"struct.std::__detail::_Node_const_iterator"* %retval, i64 0, i32 0
  %1 = bitcast %"struct.std::__detail::_Node_const_iterator"* %ref.tmp to i8*
  call void @llvm.lifetime.start.p0i8(i64 8, i8* nonnull %1) #29
  %call56 = call %"struct.std::__detail::_Hash_node"* @_ZNKSt10_HashtableINSt7__cxx1112basic_stringIcSt11char_traitsIcESaIcEEESt4pairIKS5_S5_ESaIS8_ENSt8__detail10_Select1stESt8equal_toIS5_ESt4hashIS5_ENSA_18_Mod_range_hashingENSA_20_Default_ranged_hashENSA_20_Prime_rehash_policyENSA_17_Hashtable_traitsILb1ELb0ELb1EEEE3endEv(%"class.std::_Hashtable"* noundef nonnull align 8 dereferenceable(56) %this) #29
  %coerce.dive7 = getelementptr inbounds %"struct.std::__detail::_Node_const_iterator", %"struct.std::__detail::_Node_const_iterator"* %ref.tmp, i64 0, i32 0, i32 0
  store %"struct.std::__detail::_Hash_node"* %call56, %"struct.std::__detail::_Hash_node"** %coerce.dive7, align 8
  %2 = getelementptr inbounds %"struct.std::__detail::_Node_const_iterator", %"struct.std::__detail::_Node_const_iterator"* %ref.tmp, i64 0, i32 0
  %call87 = call noundef zeroext i1 @_ZNSt8__detailneERKNS_19_Node_iterator_baseISt4pairIKNSt7__cxx1112basic_stringIcSt11char_traitsIcESaIcEEES7_ELb1EEESC_(%"struct.std::__detail::_Node_iterator_base"* noundef nonnull align 8 dereferenceable(8) %0, %"struct.std::__detail::_Node_iterator_base"* noundef nonnull align 8 dereferenceable(8) %2) #29
  call void @llvm.lifetime.end.p0i8(i64 8, i8* nonnull %1) #29
  br i1 %call87, label %for.body.lr.ph, label %for.end

for.body.lr.ph:                                   ; preds = %if.then
  %3 = bitcast %"class.std::_Hashtable"* %this to %"struct.std::__detail::_Hashtable_base"*
  %4 = bitcast %"struct.std::__detail::_Node_const_iterator"* %retval to i8**
  br label %for.body

for.body:                                         ; preds = %for.body.lr.ph, %for.inc
  %5 = load i8*, i8** %4, align 8, !tbaa !68
  %add.ptr = getelementptr inbounds i8, i8* %5, i64 8
  %6 = bitcast i8* %add.ptr to %"struct.std::__detail::_Hash_node_value"*
  %call9 = call noundef zeroext i1 @_ZNKSt8__detail15_Hashtable_baseINSt7__cxx1112basic_stringIcSt11char_traitsIcESaIcEEESt4pairIKS6_S6_ENS_10_Select1stESt8equal_toIS6_ESt4hashIS6_ENS_18_Mod_range_hashingENS_20_Default_ranged_hashENS_17_Hashtable_traitsILb1ELb0ELb1EEEE13_M_key_equalsERS8_RKNS_16_Hash_node_valueIS9_Lb1EEE(%"struct.std::__detail::_Hashtable_base"* noundef nonnull align 1 dereferenceable(1) %3, %"class.std::__cxx11::basic_string"* noundef nonnull align 8 dereferenceable(32) %__k, %"struct.std::__detail::_Hash_node_value"* noundef nonnull align 8 dereferenceable(72) %6)
  br i1 %call9, label %return, label %for.inc

for.inc:                                          ; preds = %for.body
  %call11 = call noundef nonnull align 8 dereferenceable(8) %"struct.std::__detail::_Node_const_iterator"* @_ZNSt8__detail20_Node_const_iteratorISt4pairIKNSt7__cxx1112basic_stringIcSt11char_traitsIcESaIcEEES7_ELb0ELb1EEppEv(%"struct.std::__detail::_Node_const_iterator"* noundef nonnull align 8 dereferenceable(8) %retval) #29
  call void @llvm.lifetime.start.p0i8(i64 8, i8* nonnull %1) #29
  %call5 = call %"struct.std::__detail::_Hash_node"* @_ZNKSt10_HashtableINSt7__cxx1112basic_stringIcSt11char_traitsIcESaIcEEESt4pairIKS5_S5_ESaIS8_ENSt8__detail10_Select1stESt8equal_toIS5_ESt4hashIS5_ENSA_18_Mod_range_hashingENSA_20_Default_ranged_hashENSA_20_Prime_rehash_policyENSA_17_Hashtable_traitsILb1ELb0ELb1EEEE3endEv(%"class.std::_Hashtable"* noundef nonnull align 8 dereferenceable(56) %this) #29
  store %"struct.std::__detail::_Hash_node"* %call5, %"struct.std::__detail::_Hash_node"** %coerce.dive7, align 8
  %call8 = call noundef zeroext i1 @_ZNSt8__detailneERKNS_19_Node_iterator_baseISt4pairIKNSt7__cxx1112basic_stringIcSt11char_traitsIcESaIcEEES7_ELb1EEESC_(%"struct.std::__detail::_Node_iterator_base"* noundef nonnull align 8 dereferenceable(8) %0, %"struct.std::__detail::_Node_iterator_base"* noundef nonnull align 8 dereferenceable(8) %2) #29
  call void @llvm.lifetime.end.p0i8(i64 8, i8* nonnull %1) #29
  br i1 %call8, label %for.body, label %for.end, !llvm.loop !102

for.end:                                          ; preds = %for.inc, %if.then
  %call12 = call %"struct.std::__detail::_Hash_node"* @_ZNKSt10_HashtableINSt7__cxx1112basic_stringIcSt11char_traitsIcESaIcEEESt4pairIKS5_S5_ESaIS8_ENSt8__detail10_Select1stESt8equal_toIS5_ESt4hashIS5_ENSA_18_Mod_range_hashingENSA_20_Default_ranged_hashENSA_20_Prime_rehash_policyENSA_17_Hashtable_traitsILb1ELb0ELb1EEEE3endEv(%"class.std::_Hashtable"* noundef nonnull align 8 dereferenceable(56) %this) #29
  store %"struct.std::__detail::_Hash_node"* %call12, %"struct.std::__detail::_Hash_node"** %coerce.dive4, align 8
  br label %return

if.end15:                                         ; preds = %entry
  %7 = bitcast %"class.std::_Hashtable"* %this to %"struct.std::__detail::_Hash_code_base"*
  %call16 = call noundef i64 @_ZNKSt8__detail15_Hash_code_baseINSt7__cxx1112basic_stringIcSt11char_traitsIcESaIcEEESt4pairIKS6_S6_ENS_10_Select1stESt4hashIS6_ENS_18_Mod_range_hashingENS_20_Default_ranged_hashELb1EE12_M_hash_codeERS8_(%"struct.std::__detail::_Hash_code_base"* noundef nonnull align 1 dereferenceable(1) %7, %"class.std::__cxx11::basic_string"* noundef nonnull align 8 dereferenceable(32) %__k)
  %call17 = call noundef i64 @_ZNKSt10_HashtableINSt7__cxx1112basic_stringIcSt11char_traitsIcESaIcEEESt4pairIKS5_S5_ESaIS8_ENSt8__detail10_Select1stESt8equal_toIS5_ESt4hashIS5_ENSA_18_Mod_range_hashingENSA_20_Default_ranged_hashENSA_20_Prime_rehash_policyENSA_17_Hashtable_traitsILb1ELb0ELb1EEEE15_M_bucket_indexEm(%"class.std::_Hashtable"* noundef nonnull align 8 dereferenceable(56) %this, i64 noundef %call16)
  %call18 = call noundef %"struct.std::__detail::_Hash_node"* @_ZNKSt10_HashtableINSt7__cxx1112basic_stringIcSt11char_traitsIcESaIcEEESt4pairIKS5_S5_ESaIS8_ENSt8__detail10_Select1stESt8equal_toIS5_ESt4hashIS5_ENSA_18_Mod_range_hashingENSA_20_Default_ranged_hashENSA_20_Prime_rehash_policyENSA_17_Hashtable_traitsILb1ELb0ELb1EEEE12_M_find_nodeEmRS7_m(%"class.std::_Hashtable"* noundef nonnull align 8 dereferenceable(56) %this, i64 noundef %call17, %"class.std::__cxx11::basic_string"* noundef nonnull align 8 dereferenceable(32) %__k, i64 noundef %call16)
  call void @_ZNSt8__detail20_Node_const_iteratorISt4pairIKNSt7__cxx1112basic_stringIcSt11char_traitsIcESaIcEEES7_ELb0ELb1EEC2EPNS_10_Hash_nodeIS9_Lb1EEE(%"struct.std::__detail::_Node_const_iterator"* noundef nonnull align 8 dereferenceable(8) %retval, %"struct.std::__detail::_Hash_node"* noundef %call18) #29
  br label %return

return:                                           ; preds = %for.body, %if.end15, %for.end
  %coerce.dive20 = getelementptr inbounds %"struct.std::__detail::_Node_const_iterator", %"struct.std::__detail::_Node_const_iterator"* %retval, i64 0, i32 0, i32 0
  %8 = load %"struct.std::__detail::_Hash_node"*, %"struct.std::__detail::_Hash_node"** %coerce.dive20, align 8
  ret %"struct.std::__detail::_Hash_node"* %8
}

; Function Attrs: noinline uwtable
define linkonce_odr dso_local noundef nonnull align 8 dereferenceable(32) %"class.std::__cxx11::basic_string"* @_ZNSt8__detail9_Map_baseINSt7__cxx1112basic_stringIcSt11char_traitsIcESaIcEEESt4pairIKS6_S6_ESaIS9_ENS_10_Select1stESt8equal_toIS6_ESt4hashIS6_ENS_18_Mod_range_hashingENS_20_Default_ranged_hashENS_20_Prime_rehash_policyENS_17_Hashtable_traitsILb1ELb0ELb1EEELb1EEixERS8_(%"struct.std::__detail::_Map_base"* noundef nonnull align 1 dereferenceable(1) %this, %"class.std::__cxx11::basic_string"* noundef nonnull align 8 dereferenceable(32) %__k) local_unnamed_addr #5 comdat align 2 personality i8* bitcast (i32 (...)* @__gxx_personality_v0 to i8*) {
entry:
  %__node5 = alloca %"struct.std::_Hashtable<std::__cxx11::basic_string<char>, std::pair<const std::__cxx11::basic_string<char>, std::__cxx11::basic_string<char>>, std::allocator<std::pair<const std::__cxx11::basic_string<char>, std::__cxx11::basic_string<char>>>, std::__detail::_Select1st, std::equal_to<std::__cxx11::basic_string<char>>, std::hash<std::string>, std::__detail::_Mod_range_hashing, std::__detail::_Default_ranged_hash, std::__detail::_Prime_rehash_policy, std::__detail::_Hashtable_traits<true, false, true>>::_Scoped_node", align 8
  %ref.tmp = alloca %"class.std::tuple", align 8
  %ref.tmp6 = alloca %"class.std::tuple.36", align 1
  %__pos = alloca %"struct.std::__detail::_Node_iterator", align 8
  %0 = bitcast %"struct.std::__detail::_Map_base"* %this to %"class.std::_Hashtable"*
  %1 = bitcast %"struct.std::__detail::_Map_base"* %this to %"struct.std::__detail::_Hash_code_base"*
  %call = call noundef i64 @_ZNKSt8__detail15_Hash_code_baseINSt7__cxx1112basic_stringIcSt11char_traitsIcESaIcEEESt4pairIKS6_S6_ENS_10_Select1stESt4hashIS6_ENS_18_Mod_range_hashingENS_20_Default_ranged_hashELb1EE12_M_hash_codeERS8_(%"struct.std::__detail::_Hash_code_base"* noundef nonnull align 1 dereferenceable(1) %1, %"class.std::__cxx11::basic_string"* noundef nonnull align 8 dereferenceable(32) %__k)
  %call2 = call noundef i64 @_ZNKSt10_HashtableINSt7__cxx1112basic_stringIcSt11char_traitsIcESaIcEEESt4pairIKS5_S5_ESaIS8_ENSt8__detail10_Select1stESt8equal_toIS5_ESt4hashIS5_ENSA_18_Mod_range_hashingENSA_20_Default_ranged_hashENSA_20_Prime_rehash_policyENSA_17_Hashtable_traitsILb1ELb0ELb1EEEE15_M_bucket_indexEm(%"class.std::_Hashtable"* noundef nonnull align 8 dereferenceable(56) %0, i64 noundef %call)
  %call3 = call noundef %"struct.std::__detail::_Hash_node"* @_ZNKSt10_HashtableINSt7__cxx1112basic_stringIcSt11char_traitsIcESaIcEEESt4pairIKS5_S5_ESaIS8_ENSt8__detail10_Select1stESt8equal_toIS5_ESt4hashIS5_ENSA_18_Mod_range_hashingENSA_20_Default_ranged_hashENSA_20_Prime_rehash_policyENSA_17_Hashtable_traitsILb1ELb0ELb1EEEE12_M_find_nodeEmRS7_m(%"class.std::_Hashtable"* noundef nonnull align 8 dereferenceable(56) %0, i64 noundef %call2, %"class.std::__cxx11::basic_string"* noundef nonnull align 8 dereferenceable(32) %__k, i64 noundef %call)
  %tobool.not = icmp eq %"struct.std::__detail::_Hash_node"* %call3, null
  br i1 %tobool.not, label %cleanup, label %if.then

if.then:                                          ; preds = %entry
  %2 = getelementptr inbounds %"struct.std::__detail::_Hash_node", %"struct.std::__detail::_Hash_node"* %call3, i64 0, i32 1, i32 0, i32 0, i32 0, i32 0, i64 0
  %3 = bitcast i8* %2 to %"struct.std::__detail::_Hash_node_value_base"*
  %call4 = call noundef nonnull align 8 dereferenceable(64) %"struct.std::pair.18"* @_ZNSt8__detail21_Hash_node_value_baseISt4pairIKNSt7__cxx1112basic_stringIcSt11char_traitsIcESaIcEEES7_EE4_M_vEv(%"struct.std::__detail::_Hash_node_value_base"* noundef nonnull align 8 dereferenceable(64) %3) #29
  %second = getelementptr inbounds %"struct.std::pair.18", %"struct.std::pair.18"* %call4, i64 0, i32 1
  br label %cleanup

cleanup:                                          ; preds = %entry, %if.then
  %retval.0 = phi %"class.std::__cxx11::basic_string"* [ %second, %if.then ], [ undef, %entry ]
  br i1 %tobool.not, label %cleanup.cont, label %cleanup15

cleanup.cont:                                     ; preds = %cleanup
  %4 = bitcast %"struct.std::_Hashtable<std::__cxx11::basic_string<char>, std::pair<const std::__cxx11::basic_string<char>, std::__cxx11::basic_string<char>>, std::allocator<std::pair<const std::__cxx11::basic_string<char>, std::__cxx11::basic_string<char>>>, std::__detail::_Select1st, std::equal_to<std::__cxx11::basic_string<char>>, std::hash<std::string>, std::__detail::_Mod_range_hashing, std::__detail::_Default_ranged_hash, std::__detail::_Prime_rehash_policy, std::__detail::_Hashtable_traits<true, false, true>>::_Scoped_node"* %__node5 to i8*
  call void @llvm.lifetime.start.p0i8(i64 16, i8* nonnull %4) #29
  %5 = bitcast %"struct.std::__detail::_Map_base"* %this to %"struct.std::__detail::_Hashtable_alloc"*
  %6 = bitcast %"class.std::tuple"* %ref.tmp to i8*
  call void @llvm.lifetime.start.p0i8(i64 8, i8* nonnull %6) #29
  %_M_head_impl.i.i.i = getelementptr inbounds %"class.std::tuple", %"class.std::tuple"* %ref.tmp, i64 0, i32 0, i32 0, i32 0
  store %"class.std::__cxx11::basic_string"* %__k, %"class.std::__cxx11::basic_string"** %_M_head_impl.i.i.i, align 8, !tbaa !97
  %7 = getelementptr inbounds %"class.std::tuple.36", %"class.std::tuple.36"* %ref.tmp6, i64 0, i32 0
  call void @llvm.lifetime.start.p0i8(i64 1, i8* nonnull %7) #29
  call void @_ZNSt10_HashtableINSt7__cxx1112basic_stringIcSt11char_traitsIcESaIcEEESt4pairIKS5_S5_ESaIS8_ENSt8__detail10_Select1stESt8equal_toIS5_ESt4hashIS5_ENSA_18_Mod_range_hashingENSA_20_Default_ranged_hashENSA_20_Prime_rehash_policyENSA_17_Hashtable_traitsILb1ELb0ELb1EEEE12_Scoped_nodeC2IJRKSt21piecewise_construct_tSt5tupleIJRS7_EESR_IJEEEEEPNSA_16_Hashtable_allocISaINSA_10_Hash_nodeIS8_Lb1EEEEEEDpOT_(%"struct.std::_Hashtable<std::__cxx11::basic_string<char>, std::pair<const std::__cxx11::basic_string<char>, std::__cxx11::basic_string<char>>, std::allocator<std::pair<const std::__cxx11::basic_string<char>, std::__cxx11::basic_string<char>>>, std::__detail::_Select1st, std::equal_to<std::__cxx11::basic_string<char>>, std::hash<std::string>, std::__detail::_Mod_range_hashing, std::__detail::_Default_ranged_hash, std::__detail::_Prime_rehash_policy, std::__detail::_Hashtable_traits<true, false, true>>::_Scoped_node"* noundef nonnull align 8 dereferenceable(16) %__node5, %"struct.std::__detail::_Hashtable_alloc"* noundef nonnull %5, %"struct.std::piecewise_construct_t"* noundef nonnull align 1 dereferenceable(1) @_ZSt19piecewise_construct, %"class.std::tuple"* noundef nonnull align 8 dereferenceable(8) %ref.tmp, %"class.std::tuple.36"* noundef nonnull align 1 dereferenceable(1) %ref.tmp6)
  call void @llvm.lifetime.end.p0i8(i64 1, i8* nonnull %7) #29
  call void @llvm.lifetime.end.p0i8(i64 8, i8* nonnull %6) #29
  %8 = bitcast %"struct.std::__detail::_Node_iterator"* %__pos to i8*
  call void @llvm.lifetime.start.p0i8(i64 8, i8* nonnull %8) #29
  %_M_node = getelementptr inbounds %"struct.std::_Hashtable<std::__cxx11::basic_string<char>, std::pair<const std::__cxx11::basic_string<char>, std::__cxx11::basic_string<char>>, std::allocator<std::pair<const std::__cxx11::basic_string<char>, std::__cxx11::basic_string<char>>>, std::__detail::_Select1st, std::equal_to<std::__cxx11::basic_string<char>>, std::hash<std::string>, std::__detail::_Mod_range_hashing, std::__detail::_Default_ranged_hash, std::__detail::_Prime_rehash_policy, std::__detail::_Hashtable_traits<true, false, true>>::_Scoped_node", %"struct.std::_Hashtable<std::__cxx11::basic_string<char>, std::pair<const std::__cxx11::basic_string<char>, std::__cxx11::basic_string<char>>, std::allocator<std::pair<const std::__cxx11::basic_string<char>, std::__cxx11::basic_string<char>>>, std::__detail::_Select1st, std::equal_to<std::__cxx11::basic_string<char>>, std::hash<std::string>, std::__detail::_Mod_range_hashing, std::__detail::_Default_ranged_hash, std::__detail::_Prime_rehash_policy, std::__detail::_Hashtable_traits<true, false, true>>::_Scoped_node"* %__node5, i64 0, i32 1
  %9 = load %"struct.std::__detail::_Hash_node"*, %"struct.std::__detail::_Hash_node"** %_M_node, align 8, !tbaa !89
  %call7 = invoke %"struct.std::__detail::_Hash_node"* @_ZNSt10_HashtableINSt7__cxx1112basic_stringIcSt11char_traitsIcESaIcEEESt4pairIKS5_S5_ESaIS8_ENSt8__detail10_Select1stESt8equal_toIS5_ESt4hashIS5_ENSA_18_Mod_range_hashingENSA_20_Default_ranged_hashENSA_20_Prime_rehash_policyENSA_17_Hashtable_traitsILb1ELb0ELb1EEEE21_M_insert_unique_nodeEmmPNSA_10_Hash_nodeIS8_Lb1EEEm(%"class.std::_Hashtable"* noundef nonnull align 8 dereferenceable(56) %0, i64 noundef %call2, i64 noundef %call, %"struct.std::__detail::_Hash_node"* noundef %9, i64 noundef 1)
          to label %invoke.cont unwind label %lpad

invoke.cont:                                      ; preds = %cleanup.cont
  %coerce.dive8 = getelementptr inbounds %"struct.std::__detail::_Node_iterator", %"struct.std::__detail::_Node_iterator"* %__pos, i64 0, i32 0, i32 0
  store %"struct.std::__detail::_Hash_node"* %call7, %"struct.std::__detail::_Hash_node"** %coerce.dive8, align 8
  store %"struct.std::__detail::_Hash_node"* null, %"struct.std::__detail::_Hash_node"** %_M_node, align 8, !tbaa !89
  %call10 = call noundef %"struct.std::pair.18"* @_ZNKSt8__detail14_Node_iteratorISt4pairIKNSt7__cxx1112basic_stringIcSt11char_traitsIcESaIcEEES7_ELb0ELb1EEptEv(%"struct.std::__detail::_Node_iterator"* noundef nonnull align 8 dereferenceable(8) %__pos) #29
  %second11 = getelementptr inbounds %"struct.std::pair.18", %"struct.std::pair.18"* %call10, i64 0, i32 1
  call void @llvm.lifetime.end.p0i8(i64 8, i8* nonnull %8) #29
  call void @_ZNSt10_HashtableINSt7__cxx1112basic_stringIcSt11char_traitsIcESaIcEEESt4pairIKS5_S5_ESaIS8_ENSt8__detail10_Select1stESt8equal_toIS5_ESt4hashIS5_ENSA_18_Mod_range_hashingENSA_20_Default_ranged_hashENSA_20_Prime_rehash_policyENSA_17_Hashtable_traitsILb1ELb0ELb1EEEE12_Scoped_nodeD2Ev(%"struct.std::_Hashtable<std::__cxx11::basic_string<char>, std::pair<const std::__cxx11::basic_string<char>, std::__cxx11::basic_string<char>>, std::allocator<std::pair<const std::__cxx11::basic_string<char>, std::__cxx11::basic_string<char>>>, std::__detail::_Select1st, std::equal_to<std::__cxx11::basic_string<char>>, std::hash<std::string>, std::__detail::_Mod_range_hashing, std::__detail::_Default_ranged_hash, std::__detail::_Prime_rehash_policy, std::__detail::_Hashtable_traits<true, false, true>>::_Scoped_node"* noundef nonnull align 8 dereferenceable(16) %__node5) #29
  call void @llvm.lifetime.end.p0i8(i64 16, i8* nonnull %4) #29
  br label %cleanup15

lpad:                                             ; preds = %cleanup.cont
  %10 = landingpad { i8*, i32 }
          cleanup
  call void @llvm.lifetime.end.p0i8(i64 8, i8* nonnull %8) #29
  call void @_ZNSt10_HashtableINSt7__cxx1112basic_stringIcSt11char_traitsIcESaIcEEESt4pairIKS5_S5_ESaIS8_ENSt8__detail10_Select1stESt8equal_toIS5_ESt4hashIS5_ENSA_18_Mod_range_hashingENSA_20_Default_ranged_hashENSA_20_Prime_rehash_policyENSA_17_Hashtable_traitsILb1ELb0ELb1EEEE12_Scoped_nodeD2Ev(%"struct.std::_Hashtable<std::__cxx11::basic_string<char>, std::pair<const std::__cxx11::basic_string<char>, std::__cxx11::basic_string<char>>, std::allocator<std::pair<const std::__cxx11::basic_string<char>, std::__cxx11::basic_string<char>>>, std::__detail::_Select1st, std::equal_to<std::__cxx11::basic_string<char>>, std::hash<std::string>, std::__detail::_Mod_range_hashing, std::__detail::_Default_ranged_hash, std::__detail::_Prime_rehash_policy, std::__detail::_Hashtable_traits<true, false, true>>::_Scoped_node"* noundef nonnull align 8 dereferenceable(16) %__node5) #29
  call void @llvm.lifetime.end.p0i8(i64 16, i8* nonnull %4) #29
  resume { i8*, i32 } %10

cleanup15:                                        ; preds = %cleanup, %invoke.cont
  %retval.1 = phi %"class.std::__cxx11::basic_string"* [ %second11, %invoke.cont ], [ %retval.0, %cleanup ]
  ret %"class.std::__cxx11::basic_string"* %retval.1
}

; Function Attrs: noinline uwtable
define linkonce_odr dso_local void @_ZNSt10_HashtableINSt7__cxx1112basic_stringIcSt11char_traitsIcESaIcEEESt4pairIKS5_S5_ESaIS8_ENSt8__detail10_Select1stESt8equal_toIS5_ESt4hashIS5_ENSA_18_Mod_range_hashingENSA_20_Default_ranged_hashENSA_20_Prime_rehash_policyENSA_17_Hashtable_traitsILb1ELb0ELb1EEEE12_Scoped_nodeC2IJRKSt21piecewise_construct_tSt5tupleIJRS7_EESR_IJEEEEEPNSA_16_Hashtable_allocISaINSA_10_Hash_nodeIS8_Lb1EEEEEEDpOT_(%"struct.std::_Hashtable<std::__cxx11::basic_string<char>, std::pair<const std::__cxx11::basic_string<char>, std::__cxx11::basic_string<char>>, std::allocator<std::pair<const std::__cxx11::basic_string<char>, std::__cxx11::basic_string<char>>>, std::__detail::_Select1st, std::equal_to<std::__cxx11::basic_string<char>>, std::hash<std::string>, std::__detail::_Mod_range_hashing, std::__detail::_Default_ranged_hash, std::__detail::_Prime_rehash_policy, std::__detail::_Hashtable_traits<true, false, true>>::_Scoped_node"* noundef nonnull align 8 dereferenceable(16) %this, %"struct.std::__detail::_Hashtable_alloc"* noundef %__h, %"struct.std::piecewise_construct_t"* noundef nonnull align 1 dereferenceable(1) %__args, %"class.std::tuple"* noundef nonnull align 8 dereferenceable(8) %__args1, %"class.std::tuple.36"* noundef nonnull align 1 dereferenceable(1) %__args3) unnamed_addr #5 comdat align 2 {
entry:
  %_M_h = getelementptr inbounds %"struct.std::_Hashtable<std::__cxx11::basic_string<char>, std::pair<const std::__cxx11::basic_string<char>, std::__cxx11::basic_string<char>>, std::allocator<std::pair<const std::__cxx11::basic_string<char>, std::__cxx11::basic_string<char>>>, std::__detail::_Select1st, std::equal_to<std::__cxx11::basic_string<char>>, std::hash<std::string>, std::__detail::_Mod_range_hashing, std::__detail::_Default_ranged_hash, std::__detail::_Prime_rehash_policy, std::__detail::_Hashtable_traits<true, false, true>>::_Scoped_node", %"struct.std::_Hashtable<std::__cxx11::basic_string<char>, std::pair<const std::__cxx11::basic_string<char>, std::__cxx11::basic_string<char>>, std::allocator<std::pair<const std::__cxx11::basic_string<char>, std::__cxx11::basic_string<char>>>, std::__detail::_Select1st, std::equal_to<std::__cxx11::basic_string<char>>, std::hash<std::string>, std::__detail::_Mod_range_hashing, std::__detail::_Default_ranged_hash, std::__detail::_Prime_rehash_policy, std::__detail::_Hashtable_traits<true, false, true>>::_Scoped_node"* %this, i64 0, i32 0
  store %"struct.std::__detail::_Hashtable_alloc"* %__h, %"struct.std::__detail::_Hashtable_alloc"** %_M_h, align 8, !tbaa !93
  %_M_node = getelementptr inbounds %"struct.std::_Hashtable<std::__cxx11::basic_string<char>, std::pair<const std::__cxx11::basic_string<char>, std::__cxx11::basic_string<char>>, std::allocator<std::pair<const std::__cxx11::basic_string<char>, std::__cxx11::basic_string<char>>>, std::__detail::_Select1st, std::equal_to<std::__cxx11::basic_string<char>>, std::hash<std::string>, std::__detail::_Mod_range_hashing, std::__detail::_Default_ranged_hash, std::__detail::_Prime_rehash_policy, std::__detail::_Hashtable_traits<true, false, true>>::_Scoped_node", %"struct.std::_Hashtable<std::__cxx11::basic_string<char>, std::pair<const std::__cxx11::basic_string<char>, std::__cxx11::basic_string<char>>, std::allocator<std::pair<const std::__cxx11::basic_string<char>, std::__cxx11::basic_string<char>>>, std::__detail::_Select1st, std::equal_to<std::__cxx11::basic_string<char>>, std::hash<std::string>, std::__detail::_Mod_range_hashing, std::__detail::_Default_ranged_hash, std::__detail::_Prime_rehash_policy, std::__detail::_Hashtable_traits<true, false, true>>::_Scoped_node"* %this, i64 0, i32 1
  %call8 = call noundef %"struct.std::__detail::_Hash_node"* @_ZNSt8__detail16_Hashtable_allocISaINS_10_Hash_nodeISt4pairIKNSt7__cxx1112basic_stringIcSt11char_traitsIcESaIcEEES8_ELb1EEEEE16_M_allocate_nodeIJRKSt21piecewise_construct_tSt5tupleIJRS9_EESI_IJEEEEEPSB_DpOT_(%"struct.std::__detail::_Hashtable_alloc"* noundef nonnull align 1 dereferenceable(1) %__h, %"struct.std::piecewise_construct_t"* noundef nonnull align 1 dereferenceable(1) %__args, %"class.std::tuple"* noundef nonnull align 8 dereferenceable(8) %__args1, %"class.std::tuple.36"* noundef nonnull align 1 dereferenceable(1) %__args3)
  store %"struct.std::__detail::_Hash_node"* %call8, %"struct.std::__detail::_Hash_node"** %_M_node, align 8, !tbaa !89
  ret void
}

; Function Attrs: mustprogress noinline nounwind uwtable
define linkonce_odr dso_local noundef %"struct.std::pair.18"* @_ZNKSt8__detail14_Node_iteratorISt4pairIKNSt7__cxx1112basic_stringIcSt11char_traitsIcESaIcEEES7_ELb0ELb1EEptEv(%"struct.std::__detail::_Node_iterator"* noundef nonnull align 8 dereferenceable(8) %this) local_unnamed_addr #8 comdat align 2 {
entry:
  %0 = bitcast %"struct.std::__detail::_Node_iterator"* %this to i8**
  %1 = load i8*, i8** %0, align 8, !tbaa !68
  %add.ptr = getelementptr inbounds i8, i8* %1, i64 8
  %2 = bitcast i8* %add.ptr to %"struct.std::__detail::_Hash_node_value_base"*
  %call = call noundef %"struct.std::pair.18"* @_ZNSt8__detail21_Hash_node_value_baseISt4pairIKNSt7__cxx1112basic_stringIcSt11char_traitsIcESaIcEEES7_EE9_M_valptrEv(%"struct.std::__detail::_Hash_node_value_base"* noundef nonnull align 8 dereferenceable(64) %2) #29
  ret %"struct.std::pair.18"* %call
}

; Function Attrs: noinline uwtable
define linkonce_odr dso_local noundef %"struct.std::__detail::_Hash_node"* @_ZNSt8__detail16_Hashtable_allocISaINS_10_Hash_nodeISt4pairIKNSt7__cxx1112basic_stringIcSt11char_traitsIcESaIcEEES8_ELb1EEEEE16_M_allocate_nodeIJRKSt21piecewise_construct_tSt5tupleIJRS9_EESI_IJEEEEEPSB_DpOT_(%"struct.std::__detail::_Hashtable_alloc"* noundef nonnull align 1 dereferenceable(1) %this, %"struct.std::piecewise_construct_t"* noundef nonnull align 1 dereferenceable(1) %__args, %"class.std::tuple"* noundef nonnull align 8 dereferenceable(8) %__args1, %"class.std::tuple.36"* noundef nonnull align 1 dereferenceable(1) %__args3) local_unnamed_addr #5 comdat align 2 personality i8* bitcast (i32 (...)* @__gxx_personality_v0 to i8*) {
entry:
  %agg.tmp6.i.i = alloca %"class.std::tuple", align 8
  %call = call noundef nonnull align 1 dereferenceable(1) %"class.std::allocator.2"* @_ZNSt8__detail16_Hashtable_allocISaINS_10_Hash_nodeISt4pairIKNSt7__cxx1112basic_stringIcSt11char_traitsIcESaIcEEES8_ELb1EEEEE17_M_node_allocatorEv(%"struct.std::__detail::_Hashtable_alloc"* noundef nonnull align 1 dereferenceable(1) %this)
  %0 = bitcast %"class.std::allocator.2"* %call to %"class.std::__new_allocator.3"*
  %call.i.i = call noundef i64 @_ZNKSt15__new_allocatorINSt8__detail10_Hash_nodeISt4pairIKNSt7__cxx1112basic_stringIcSt11char_traitsIcESaIcEEES8_ELb1EEEE11_M_max_sizeEv(%"class.std::__new_allocator.3"* noundef nonnull align 1 dereferenceable(1) %0) #29
  %cmp.i.i = icmp eq i64 %call.i.i, 0
  br i1 %cmp.i.i, label %if.then.i.i, label %_ZNSt16allocator_traitsISaINSt8__detail10_Hash_nodeISt4pairIKNSt7__cxx1112basic_stringIcSt11char_traitsIcESaIcEEES8_ELb1EEEEE8allocateERSC_m.exit, !prof !66

if.then.i.i:                                      ; preds = %entry
  call void @_ZSt17__throw_bad_allocv() #30
  unreachable

_ZNSt16allocator_traitsISaINSt8__detail10_Hash_nodeISt4pairIKNSt7__cxx1112basic_stringIcSt11char_traitsIcESaIcEEES8_ELb1EEEEE8allocateERSC_m.exit: ; preds = %entry
  %call5.i.i = call noalias noundef nonnull dereferenceable(80) i8* @_Znwm(i64 noundef 80) #34
  %1 = bitcast i8* %call5.i.i to %"struct.std::__detail::_Hash_node"*
  call void @_ZNSt8__detail10_Hash_nodeISt4pairIKNSt7__cxx1112basic_stringIcSt11char_traitsIcESaIcEEES7_ELb1EEC2Ev(%"struct.std::__detail::_Hash_node"* noundef nonnull align 8 dereferenceable(80) %1) #29
  %call8 = invoke noundef nonnull align 1 dereferenceable(1) %"class.std::allocator.2"* @_ZNSt8__detail16_Hashtable_allocISaINS_10_Hash_nodeISt4pairIKNSt7__cxx1112basic_stringIcSt11char_traitsIcESaIcEEES8_ELb1EEEEE17_M_node_allocatorEv(%"struct.std::__detail::_Hashtable_alloc"* noundef nonnull align 1 dereferenceable(1) %this)
          to label %invoke.cont unwind label %lpad

invoke.cont:                                      ; preds = %_ZNSt16allocator_traitsISaINSt8__detail10_Hash_nodeISt4pairIKNSt7__cxx1112basic_stringIcSt11char_traitsIcESaIcEEES8_ELb1EEEEE8allocateERSC_m.exit
  %2 = getelementptr inbounds %"struct.std::__detail::_Hash_node", %"struct.std::__detail::_Hash_node"* %1, i64 0, i32 1, i32 0, i32 0, i32 0, i32 0, i64 0
  %3 = bitcast i8* %2 to %"struct.std::__detail::_Hash_node_value_base"*
  %call9 = call noundef %"struct.std::pair.18"* @_ZNSt8__detail21_Hash_node_value_baseISt4pairIKNSt7__cxx1112basic_stringIcSt11char_traitsIcESaIcEEES7_EE9_M_valptrEv(%"struct.std::__detail::_Hash_node_value_base"* noundef nonnull align 8 dereferenceable(64) %3) #29
  %4 = bitcast %"class.std::tuple"* %agg.tmp6.i.i to i8*
  call void @llvm.lifetime.start.p0i8(i64 8, i8* nonnull %4)
  %5 = bitcast %"class.std::tuple"* %__args1 to i64*
  %6 = bitcast %"class.std::tuple"* %agg.tmp6.i.i to i64*
  %7 = load i64, i64* %5, align 8, !tbaa !97
  store i64 %7, i64* %6, align 8, !tbaa !97
  invoke void @_ZNSt4pairIKNSt7__cxx1112basic_stringIcSt11char_traitsIcESaIcEEES5_EC2IJRS6_EJEEESt21piecewise_construct_tSt5tupleIJDpT_EESB_IJDpT0_EE(%"struct.std::pair.18"* noundef nonnull align 8 dereferenceable(64) %call9, %"class.std::tuple"* noundef nonnull %agg.tmp6.i.i)
          to label %_ZNSt16allocator_traitsISaINSt8__detail10_Hash_nodeISt4pairIKNSt7__cxx1112basic_stringIcSt11char_traitsIcESaIcEEES8_ELb1EEEEE9constructISA_JRKSt21piecewise_construct_tSt5tupleIJRS9_EESI_IJEEEEEvRSC_PT_DpOT0_.exit unwind label %lpad

_ZNSt16allocator_traitsISaINSt8__detail10_Hash_nodeISt4pairIKNSt7__cxx1112basic_stringIcSt11char_traitsIcESaIcEEES8_ELb1EEEEE9constructISA_JRKSt21piecewise_construct_tSt5tupleIJRS9_EESI_IJEEEEEvRSC_PT_DpOT0_.exit: ; preds = %invoke.cont
  call void @llvm.lifetime.end.p0i8(i64 8, i8* nonnull %4)
  ret %"struct.std::__detail::_Hash_node"* %1

lpad:                                             ; preds = %invoke.cont, %_ZNSt16allocator_traitsISaINSt8__detail10_Hash_nodeISt4pairIKNSt7__cxx1112basic_stringIcSt11char_traitsIcESaIcEEES8_ELb1EEEEE8allocateERSC_m.exit
  %8 = landingpad { i8*, i32 }
          catch i8* null
  %9 = extractvalue { i8*, i32 } %8, 0
  %10 = call i8* @__cxa_begin_catch(i8* %9) #29
  %call16 = invoke noundef nonnull align 1 dereferenceable(1) %"class.std::allocator.2"* @_ZNSt8__detail16_Hashtable_allocISaINS_10_Hash_nodeISt4pairIKNSt7__cxx1112basic_stringIcSt11char_traitsIcESaIcEEES8_ELb1EEEEE17_M_node_allocatorEv(%"struct.std::__detail::_Hashtable_alloc"* noundef nonnull align 1 dereferenceable(1) %this)
          to label %invoke.cont15 unwind label %lpad14

invoke.cont15:                                    ; preds = %lpad
  call void @_ZdlPv(i8* noundef %call5.i.i) #33
  invoke void @__cxa_rethrow() #30
          to label %unreachable unwind label %lpad14

lpad14:                                           ; preds = %invoke.cont15, %lpad
  %11 = landingpad { i8*, i32 }
          cleanup
  invoke void @__cxa_end_catch()
          to label %invoke.cont18 unwind label %terminate.lpad

invoke.cont18:                                    ; preds = %lpad14
  resume { i8*, i32 } %11

terminate.lpad:                                   ; preds = %lpad14
  %12 = landingpad { i8*, i32 }
          catch i8* null
  %13 = extractvalue { i8*, i32 } %12, 0
  call void @__clang_call_terminate(i8* %13) #32
  unreachable

unreachable:                                      ; preds = %invoke.cont15
  unreachable
}

; Function Attrs: inlinehint noinline uwtable
define linkonce_odr dso_local void @_ZNSt4pairIKNSt7__cxx1112basic_stringIcSt11char_traitsIcESaIcEEES5_EC2IJRS6_EJEEESt21piecewise_construct_tSt5tupleIJDpT_EESB_IJDpT0_EE(%"struct.std::pair.18"* noundef nonnull align 8 dereferenceable(64) %this, %"class.std::tuple"* noundef %__first) unnamed_addr #24 comdat align 2 {
entry:
  %__second = alloca %"class.std::tuple.36", align 1
  call void @_ZNSt4pairIKNSt7__cxx1112basic_stringIcSt11char_traitsIcESaIcEEES5_EC2IJRS6_EJLm0EEJEJEEERSt5tupleIJDpT_EERSA_IJDpT1_EESt12_Index_tupleIJXspT0_EEESJ_IJXspT2_EEE(%"struct.std::pair.18"* noundef nonnull align 8 dereferenceable(64) %this, %"class.std::tuple"* noundef nonnull align 8 dereferenceable(8) %__first, %"class.std::tuple.36"* noundef nonnull align 1 dereferenceable(1) %__second)
  ret void
}

; Function Attrs: inlinehint noinline uwtable
define linkonce_odr dso_local void @_ZNSt4pairIKNSt7__cxx1112basic_stringIcSt11char_traitsIcESaIcEEES5_EC2IJRS6_EJLm0EEJEJEEERSt5tupleIJDpT_EERSA_IJDpT1_EESt12_Index_tupleIJXspT0_EEESJ_IJXspT2_EEE(%"struct.std::pair.18"* noundef nonnull align 8 dereferenceable(64) %this, %"class.std::tuple"* noundef nonnull align 8 dereferenceable(8) %__tuple1, %"class.std::tuple.36"* noundef nonnull align 1 dereferenceable(1) %__tuple2) unnamed_addr #24 comdat align 2 {
entry:
  %first = getelementptr inbounds %"struct.std::pair.18", %"struct.std::pair.18"* %this, i64 0, i32 0
  %_M_head_impl.i.i.i.i = getelementptr inbounds %"class.std::tuple", %"class.std::tuple"* %__tuple1, i64 0, i32 0, i32 0, i32 0
  %0 = load %"class.std::__cxx11::basic_string"*, %"class.std::__cxx11::basic_string"** %_M_head_impl.i.i.i.i, align 8, !tbaa !103
  call void @_ZNSt7__cxx1112basic_stringIcSt11char_traitsIcESaIcEEC2ERKS4_(%"class.std::__cxx11::basic_string"* noundef nonnull align 8 dereferenceable(32) %first, %"class.std::__cxx11::basic_string"* noundef nonnull align 8 dereferenceable(32) %0)
  %second = getelementptr inbounds %"struct.std::pair.18", %"struct.std::pair.18"* %this, i64 0, i32 1
  call void @_ZNSt7__cxx1112basic_stringIcSt11char_traitsIcESaIcEEC2Ev(%"class.std::__cxx11::basic_string"* noundef nonnull align 8 dereferenceable(32) %second) #29
  ret void
}

; Function Attrs: mustprogress noinline uwtable
define linkonce_odr noundef nonnull align 8 dereferenceable(32) %"class.std::__cxx11::basic_string"* @_ZNSt7__cxx1112basic_stringIcSt11char_traitsIcESaIcEE6appendERKS4_(%"class.std::__cxx11::basic_string"* noundef nonnull align 8 dereferenceable(32) %this, %"class.std::__cxx11::basic_string"* noundef nonnull align 8 dereferenceable(32) %__str) local_unnamed_addr #13 align 2 {
entry:
  %call = call noundef i8* @_ZNKSt7__cxx1112basic_stringIcSt11char_traitsIcESaIcEE7_M_dataEv(%"class.std::__cxx11::basic_string"* noundef nonnull align 8 dereferenceable(32) %__str)
  %call2 = call noundef i64 @_ZNKSt7__cxx1112basic_stringIcSt11char_traitsIcESaIcEE4sizeEv(%"class.std::__cxx11::basic_string"* noundef nonnull align 8 dereferenceable(32) %__str) #29
  %call3 = call noundef nonnull align 8 dereferenceable(32) %"class.std::__cxx11::basic_string"* @_ZNSt7__cxx1112basic_stringIcSt11char_traitsIcESaIcEE6appendEPKcm(%"class.std::__cxx11::basic_string"* noundef nonnull align 8 dereferenceable(32) %this, i8* noundef %call, i64 noundef %call2)
  ret %"class.std::__cxx11::basic_string"* %call3
}

; Function Attrs: mustprogress noinline uwtable
define linkonce_odr noundef nonnull align 8 dereferenceable(32) %"class.std::__cxx11::basic_string"* @_ZNSt7__cxx1112basic_stringIcSt11char_traitsIcESaIcEE6appendEPKcm(%"class.std::__cxx11::basic_string"* noundef nonnull align 8 dereferenceable(32) %this, i8* noundef %__s, i64 noundef %__n) local_unnamed_addr #13 align 2 {
entry:
  call void @_ZNKSt7__cxx1112basic_stringIcSt11char_traitsIcESaIcEE15_M_check_lengthEmmPKc(%"class.std::__cxx11::basic_string"* noundef nonnull align 8 dereferenceable(32) %this, i64 noundef 0, i64 noundef %__n, i8* noundef getelementptr inbounds ([21 x i8], [21 x i8]* @.str.59, i64 0, i64 0))
  %call = call noundef nonnull align 8 dereferenceable(32) %"class.std::__cxx11::basic_string"* @_ZNSt7__cxx1112basic_stringIcSt11char_traitsIcESaIcEE9_M_appendEPKcm(%"class.std::__cxx11::basic_string"* noundef nonnull align 8 dereferenceable(32) %this, i8* noundef %__s, i64 noundef %__n)
  ret %"class.std::__cxx11::basic_string"* %call
}

; Function Attrs: uwtable
define internal void @_GLOBAL__sub_I_mime.cc() #3 section ".text.startup" {
entry:
  call void @_ZNSt8ios_base4InitC1Ev(%"class.std::ios_base::Init"* noundef nonnull align 1 dereferenceable(1) @_ZStL8__ioinit)
  %0 = call i32 @__cxa_atexit(void (i8*)* bitcast (void (%"class.std::ios_base::Init"*)* @_ZNSt8ios_base4InitD1Ev to void (i8*)*), i8* getelementptr inbounds (%"class.std::ios_base::Init", %"class.std::ios_base::Init"* @_ZStL8__ioinit, i64 0, i32 0), i8* nonnull @__dso_handle) #29
  ret void
}

; Function Attrs: argmemonly nofree nounwind readonly willreturn
declare i32 @bcmp(i8* nocapture, i8* nocapture, i64) local_unnamed_addr #28

attributes #0 = { "frame-pointer"="none" "no-trapping-math"="true" "stack-protector-buffer-size"="8" "target-cpu"="x86-64" "target-features"="+cx8,+fxsr,+mmx,+sse,+sse2,+x87" "tune-cpu"="generic" }
attributes #1 = { nounwind "frame-pointer"="none" "no-trapping-math"="true" "stack-protector-buffer-size"="8" "target-cpu"="x86-64" "target-features"="+cx8,+fxsr,+mmx,+sse,+sse2,+x87" "tune-cpu"="generic" }
attributes #2 = { nofree nounwind }
attributes #3 = { uwtable "frame-pointer"="none" "min-legal-vector-width"="0" "no-trapping-math"="true" "stack-protector-buffer-size"="8" "target-cpu"="x86-64" "target-features"="+cx8,+fxsr,+mmx,+sse,+sse2,+x87" "tune-cpu"="generic" }
attributes #4 = { argmemonly mustprogress nofree nosync nounwind willreturn }
attributes #5 = { noinline uwtable "frame-pointer"="none" "min-legal-vector-width"="0" "no-trapping-math"="true" "stack-protector-buffer-size"="8" "target-cpu"="x86-64" "target-features"="+cx8,+fxsr,+mmx,+sse,+sse2,+x87" "tune-cpu"="generic" }
attributes #6 = { argmemonly mustprogress nofree nounwind willreturn writeonly }
attributes #7 = { nofree nounwind "frame-pointer"="none" "no-trapping-math"="true" "stack-protector-buffer-size"="8" "target-cpu"="x86-64" "target-features"="+cx8,+fxsr,+mmx,+sse,+sse2,+x87" "tune-cpu"="generic" }
attributes #8 = { mustprogress noinline nounwind uwtable "frame-pointer"="none" "min-legal-vector-width"="0" "no-trapping-math"="true" "stack-protector-buffer-size"="8" "target-cpu"="x86-64" "target-features"="+cx8,+fxsr,+mmx,+sse,+sse2,+x87" "tune-cpu"="generic" }
attributes #9 = { nounwind uwtable "frame-pointer"="none" "min-legal-vector-width"="0" "no-trapping-math"="true" "stack-protector-buffer-size"="8" "target-cpu"="x86-64" "target-features"="+cx8,+fxsr,+mmx,+sse,+sse2,+x87" "tune-cpu"="generic" }
attributes #10 = { argmemonly mustprogress nofree nounwind readonly willreturn "frame-pointer"="none" "no-trapping-math"="true" "stack-protector-buffer-size"="8" "target-cpu"="x86-64" "target-features"="+cx8,+fxsr,+mmx,+sse,+sse2,+x87" "tune-cpu"="generic" }
attributes #11 = { noinline nounwind uwtable "frame-pointer"="none" "min-legal-vector-width"="0" "no-trapping-math"="true" "stack-protector-buffer-size"="8" "target-cpu"="x86-64" "target-features"="+cx8,+fxsr,+mmx,+sse,+sse2,+x87" "tune-cpu"="generic" }
attributes #12 = { inlinehint noreturn uwtable "frame-pointer"="none" "min-legal-vector-width"="0" "no-trapping-math"="true" "stack-protector-buffer-size"="8" "target-cpu"="x86-64" "target-features"="+cx8,+fxsr,+mmx,+sse,+sse2,+x87" "tune-cpu"="generic" }
attributes #13 = { mustprogress noinline uwtable "frame-pointer"="none" "min-legal-vector-width"="0" "no-trapping-math"="true" "stack-protector-buffer-size"="8" "target-cpu"="x86-64" "target-features"="+cx8,+fxsr,+mmx,+sse,+sse2,+x87" "tune-cpu"="generic" }
attributes #14 = { inlinehint noinline nounwind uwtable "frame-pointer"="none" "min-legal-vector-width"="0" "no-trapping-math"="true" "stack-protector-buffer-size"="8" "target-cpu"="x86-64" "target-features"="+cx8,+fxsr,+mmx,+sse,+sse2,+x87" "tune-cpu"="generic" }
attributes #15 = { mustprogress nounwind uwtable "frame-pointer"="none" "min-legal-vector-width"="0" "no-trapping-math"="true" "stack-protector-buffer-size"="8" "target-cpu"="x86-64" "target-features"="+cx8,+fxsr,+mmx,+sse,+sse2,+x87" "tune-cpu"="generic" }
attributes #16 = { mustprogress uwtable "frame-pointer"="none" "min-legal-vector-width"="0" "no-trapping-math"="true" "stack-protector-buffer-size"="8" "target-cpu"="x86-64" "target-features"="+cx8,+fxsr,+mmx,+sse,+sse2,+x87" "tune-cpu"="generic" }
attributes #17 = { inlinehint mustprogress noinline nounwind uwtable "frame-pointer"="none" "min-legal-vector-width"="0" "no-trapping-math"="true" "stack-protector-buffer-size"="8" "target-cpu"="x86-64" "target-features"="+cx8,+fxsr,+mmx,+sse,+sse2,+x87" "tune-cpu"="generic" }
attributes #18 = { argmemonly mustprogress nofree nounwind willreturn }
attributes #19 = { inlinehint mustprogress noinline uwtable "frame-pointer"="none" "min-legal-vector-width"="0" "no-trapping-math"="true" "stack-protector-buffer-size"="8" "target-cpu"="x86-64" "target-features"="+cx8,+fxsr,+mmx,+sse,+sse2,+x87" "tune-cpu"="generic" }
attributes #20 = { mustprogress nofree norecurse nosync nounwind readonly uwtable willreturn "frame-pointer"="none" "min-legal-vector-width"="0" "no-trapping-math"="true" "stack-protector-buffer-size"="8" "target-cpu"="x86-64" "target-features"="+cx8,+fxsr,+mmx,+sse,+sse2,+x87" "tune-cpu"="generic" }
attributes #21 = { noinline noreturn nounwind }
attributes #22 = { nobuiltin nounwind "frame-pointer"="none" "no-trapping-math"="true" "stack-protector-buffer-size"="8" "target-cpu"="x86-64" "target-features"="+cx8,+fxsr,+mmx,+sse,+sse2,+x87" "tune-cpu"="generic" }
attributes #23 = { mustprogress nofree nosync nounwind readnone speculatable willreturn }
attributes #24 = { inlinehint noinline uwtable "frame-pointer"="none" "min-legal-vector-width"="0" "no-trapping-math"="true" "stack-protector-buffer-size"="8" "target-cpu"="x86-64" "target-features"="+cx8,+fxsr,+mmx,+sse,+sse2,+x87" "tune-cpu"="generic" }
attributes #25 = { noreturn "frame-pointer"="none" "no-trapping-math"="true" "stack-protector-buffer-size"="8" "target-cpu"="x86-64" "target-features"="+cx8,+fxsr,+mmx,+sse,+sse2,+x87" "tune-cpu"="generic" }
attributes #26 = { inlinehint nounwind uwtable "frame-pointer"="none" "min-legal-vector-width"="0" "no-trapping-math"="true" "stack-protector-buffer-size"="8" "target-cpu"="x86-64" "target-features"="+cx8,+fxsr,+mmx,+sse,+sse2,+x87" "tune-cpu"="generic" }
attributes #27 = { nobuiltin allocsize(0) "frame-pointer"="none" "no-trapping-math"="true" "stack-protector-buffer-size"="8" "target-cpu"="x86-64" "target-features"="+cx8,+fxsr,+mmx,+sse,+sse2,+x87" "tune-cpu"="generic" }
attributes #28 = { argmemonly nofree nounwind readonly willreturn }
attributes #29 = { nounwind }
attributes #30 = { noreturn }
attributes #31 = { nounwind readonly willreturn }
attributes #32 = { noreturn nounwind }
attributes #33 = { builtin nounwind }
attributes #34 = { builtin allocsize(0) }

!llvm.module.flags = !{!0, !1, !2, !3}
!llvm.ident = !{!4}

!0 = !{i32 1, !"wchar_size", i32 4}
!1 = !{i32 7, !"PIC Level", i32 2}
!2 = !{i32 7, !"PIE Level", i32 2}
!3 = !{i32 7, !"uwtable", i32 1}
!4 = !{!"Debian clang version 14.0.6"}
!5 = !{!6, !7, i64 0}
!6 = !{!"_ZTSN8Pistache4Http4Mime1QE", !7, i64 0}
!7 = !{!"short", !8, i64 0}
!8 = !{!"omnipotent char", !9, i64 0}
!9 = !{!"Simple C++ TBAA"}
!10 = !{!11, !12, i64 0}
!11 = !{!"_ZTSN8Pistache4Http4Mime9MediaTypeE", !12, i64 0, !13, i64 4, !14, i64 8, !15, i64 16, !19, i64 48, !19, i64 64, !20, i64 80, !25, i64 136}
!12 = !{!"_ZTSN8Pistache4Http4Mime4TypeE", !8, i64 0}
!13 = !{!"_ZTSN8Pistache4Http4Mime7SubtypeE", !8, i64 0}
!14 = !{!"_ZTSN8Pistache4Http4Mime6SuffixE", !8, i64 0}
!15 = !{!"_ZTSNSt7__cxx1112basic_stringIcSt11char_traitsIcESaIcEEE", !16, i64 0, !18, i64 8, !8, i64 16}
!16 = !{!"_ZTSNSt7__cxx1112basic_stringIcSt11char_traitsIcESaIcEE12_Alloc_hiderE", !17, i64 0}
!17 = !{!"any pointer", !8, i64 0}
!18 = !{!"long", !8, i64 0}
!19 = !{!"_ZTSN8Pistache4Http4Mime9MediaType5IndexE", !18, i64 0, !18, i64 8}
!20 = !{!"_ZTSSt13unordered_mapINSt7__cxx1112basic_stringIcSt11char_traitsIcESaIcEEES5_St4hashIS5_ESt8equal_toIS5_ESaISt4pairIKS5_S5_EEE", !21, i64 0}
!21 = !{!"_ZTSSt10_HashtableINSt7__cxx1112basic_stringIcSt11char_traitsIcESaIcEEESt4pairIKS5_S5_ESaIS8_ENSt8__detail10_Select1stESt8equal_toIS5_ESt4hashIS5_ENSA_18_Mod_range_hashingENSA_20_Default_ranged_hashENSA_20_Prime_rehash_policyENSA_17_Hashtable_traitsILb1ELb0ELb1EEEE", !17, i64 0, !18, i64 8, !22, i64 16, !18, i64 24, !23, i64 32, !17, i64 48}
!22 = !{!"_ZTSNSt8__detail15_Hash_node_baseE", !17, i64 0}
!23 = !{!"_ZTSNSt8__detail20_Prime_rehash_policyE", !24, i64 0, !18, i64 8}
!24 = !{!"float", !8, i64 0}
!25 = !{!"_ZTSSt8optionalIN8Pistache4Http4Mime1QEE"}
!26 = !{!27}
!27 = distinct !{!27, !28, !"_ZN8Pistache4Http4Mime9MediaType7fromRawEPKcm: %agg.result"}
!28 = distinct !{!28, !"_ZN8Pistache4Http4Mime9MediaType7fromRawEPKcm"}
!29 = !{!11, !13, i64 4}
!30 = !{!11, !14, i64 8}
!31 = !{!15, !18, i64 8}
!32 = !{!33}
!33 = distinct !{!33, !34, !"_ZN8Pistache4Http4Mime9MediaType7fromRawEPKcm: %agg.result"}
!34 = distinct !{!34, !"_ZN8Pistache4Http4Mime9MediaType7fromRawEPKcm"}
!35 = !{!36, !36, i64 0}
!36 = !{!"vtable pointer", !9, i64 0}
!37 = !{!38, !17, i64 8}
!38 = !{!"_ZTSSt15basic_streambufIcSt11char_traitsIcEE", !17, i64 8, !17, i64 16, !17, i64 24, !17, i64 32, !17, i64 40, !17, i64 48, !39, i64 56}
!39 = !{!"_ZTSSt6locale", !17, i64 0}
!40 = !{!38, !17, i64 16}
!41 = !{!38, !17, i64 24}
!42 = !{!43, !17, i64 0}
!43 = !{!"_ZTSN8Pistache12StreamCursorE", !17, i64 0}
!44 = !{!8, !8, i64 0}
!45 = !{!11, !18, i64 48}
!46 = !{!11, !18, i64 56}
!47 = !{!11, !18, i64 64}
!48 = !{!11, !18, i64 72}
!49 = distinct !{!49, !50, !51}
!50 = !{!"llvm.loop.mustprogress"}
!51 = !{!"llvm.loop.unroll.disable"}
!52 = !{!53, !53, i64 0}
!53 = !{!"double", !8, i64 0}
!54 = !{!55}
!55 = distinct !{!55, !56, !"_ZNK8Pistache12StreamCursor5Token4textB5cxx11Ev: %agg.result"}
!56 = distinct !{!56, !"_ZNK8Pistache12StreamCursor5Token4textB5cxx11Ev"}
!57 = !{!58}
!58 = distinct !{!58, !59, !"_ZNK8Pistache12StreamCursor5Token4textB5cxx11Ev: %agg.result"}
!59 = distinct !{!59, !"_ZNK8Pistache12StreamCursor5Token4textB5cxx11Ev"}
!60 = distinct !{!60, !50, !51}
!61 = !{!62, !17, i64 0}
!62 = !{!"_ZTSZN8Pistache4Http4Mime9MediaType8fromFileEPKcE9Extension", !17, i64 0, !12, i64 8, !13, i64 12}
!63 = !{!62, !12, i64 8}
!64 = !{!62, !13, i64 12}
!65 = distinct !{!65, !51}
!66 = !{!"branch_weights", i32 1, i32 2000}
!67 = !{!7, !7, i64 0}
!68 = !{!69, !17, i64 0}
!69 = !{!"_ZTSNSt8__detail19_Node_iterator_baseISt4pairIKNSt7__cxx1112basic_stringIcSt11char_traitsIcESaIcEEES7_ELb1EEE", !17, i64 0}
!70 = distinct !{!70, !51}
!71 = !{!21, !17, i64 0}
!72 = !{!21, !18, i64 8}
!73 = !{!21, !18, i64 24}
!74 = !{!21, !17, i64 48}
!75 = !{!22, !17, i64 0}
!76 = !{!23, !24, i64 0}
!77 = !{!23, !18, i64 8}
!78 = !{!79, !80, i64 2}
!79 = !{!"_ZTSSt22_Optional_payload_baseIN8Pistache4Http4Mime1QEE", !8, i64 0, !80, i64 2}
!80 = !{!"bool", !8, i64 0}
!81 = distinct !{!81, !50, !51}
!82 = !{!21, !17, i64 16}
!83 = !{!84, !80, i64 32}
!84 = !{!"_ZTSSt22_Optional_payload_baseINSt7__cxx1112basic_stringIcSt11char_traitsIcESaIcEEEE", !8, i64 0, !80, i64 32}
!85 = !{i8 0, i8 2}
!86 = !{!15, !17, i64 0}
!87 = !{!16, !17, i64 0}
!88 = !{!18, !18, i64 0}
!89 = !{!90, !17, i64 8}
!90 = !{!"_ZTSNSt10_HashtableINSt7__cxx1112basic_stringIcSt11char_traitsIcESaIcEEESt4pairIKS5_S5_ESaIS8_ENSt8__detail10_Select1stESt8equal_toIS5_ESt4hashIS5_ENSA_18_Mod_range_hashingENSA_20_Default_ranged_hashENSA_20_Prime_rehash_policyENSA_17_Hashtable_traitsILb1ELb0ELb1EEEE12_Scoped_nodeE", !17, i64 0, !17, i64 8}
!91 = !{!80, !80, i64 0}
!92 = distinct !{!92, !50, !51}
!93 = !{!90, !17, i64 0}
!94 = !{!95, !80, i64 8}
!95 = !{!"_ZTSSt4pairINSt8__detail14_Node_iteratorIS_IKNSt7__cxx1112basic_stringIcSt11char_traitsIcESaIcEEES7_ELb0ELb1EEEbE", !96, i64 0, !80, i64 8}
!96 = !{!"_ZTSNSt8__detail14_Node_iteratorISt4pairIKNSt7__cxx1112basic_stringIcSt11char_traitsIcESaIcEEES7_ELb0ELb1EEE"}
!97 = !{!17, !17, i64 0}
!98 = distinct !{!98, !50, !51}
!99 = !{!100, !18, i64 0}
!100 = !{!"_ZTSNSt8__detail21_Hash_node_code_cacheILb1EEE", !18, i64 0}
!101 = distinct !{!101, !50, !51}
!102 = distinct !{!102, !50, !51}
!103 = !{!104, !17, i64 0}
!104 = !{!"_ZTSSt10_Head_baseILm0ERKNSt7__cxx1112basic_stringIcSt11char_traitsIcESaIcEEELb0EE", !17, i64 0}
