/* Runtime support for ir2c-generated C.  Used in two builds:
 *   - under CBMC (default): nondeterministic inputs, assertions are proof obligations;
 *   - natively with -DNATIVE: inputs come from a replay file, assertions abort (see vp.h).
 * In NATIVE+REAL builds (replay against the real g++ objects) none of the library models are
 * compiled in: the real libstdc++/libc are used.  In NATIVE+!REAL builds (translation
 * validation: generated C run natively) the models are compiled in.
 */
#ifndef VP_RT_H
#define VP_RT_H
#include <stdint.h>
#include <stddef.h>
#include <stdlib.h>
#include <string.h>
typedef uint8_t u8; typedef uint16_t u16; typedef uint32_t u32; typedef uint64_t u64; typedef unsigned __int128 u128;
typedef int8_t i8; typedef int16_t i16; typedef int32_t i32; typedef int64_t i64; typedef __int128 i128;
/* by-value aggregates returned by modelled callees: same names as ir2c generates (agg<size>_<align>) */
typedef struct { u8 b[16]; } __attribute__((aligned(8))) agg16_8;

#ifdef NATIVE
#include <stdio.h>
#include <unistd.h>
#define __CPROVER_assert(c, m) do { if (!(c)) { printf("ASSERT-FAIL: %s\n", m); fflush(stdout); _exit(3); } } while (0)
#define __CPROVER_assume(c) do { if (!(c)) { printf("ASSUME-VIOLATED: %s\n", #c); fflush(stdout); _exit(4); } } while (0)
#endif

#ifndef REAL
/* ------------------------------------------------------------------ IR runtime */
int __ir_exc_pending;
u8* __ir_exc_obj; u8* __ir_exc_type;
void __ir_unreachable(void) { __CPROVER_assert(0, "IR unreachable executed"); __CPROVER_assume(0); }
void __ir_trap(void) { __CPROVER_assert(0, "llvm.trap executed"); __CPROVER_assume(0); }
void __ir_bad_indirect(void) { __CPROVER_assert(0, "unresolved indirect call target"); __CPROVER_assume(0); }
/* constant length (translator knows it): CBMC's built-in array operations */
u8* __ir_memcpy_c(u8* d, u8* s, u64 n) { if (n) memcpy(d, s, n); return d; }
u8* __ir_memmove_c(u8* d, u8* s, u64 n) { if (n) memmove(d, s, n); return d; }
u8* __ir_memset_c(u8* d, u8 c, u64 n) { if (n) memset(d, c, n); return d; }
#ifdef NATIVE
u8* __ir_memcpy(u8* d, u8* s, u64 n) { if (n) memcpy(d, s, n); return d; }
u8* __ir_memmove(u8* d, u8* s, u64 n) { if (n) memmove(d, s, n); return d; }
u8* __ir_memset(u8* d, u8 c, u64 n) { if (n) memset(d, c, n); return d; }
#else
/* dynamic length: bounded byte loops (array operations with a symbolic length stall CBMC's post-processing) */
#ifndef VP_MEMMAX
#define VP_MEMMAX 20
#endif
u8* __ir_memcpy(u8* d, u8* s, u64 n) { __CPROVER_assert(n <= VP_MEMMAX, "memcpy length within the harness bound VP_MEMMAX"); for (u64 i = 0; i < VP_MEMMAX; i++) if (i < n) d[i] = s[i]; return d; }
u8* __ir_memmove(u8* d, u8* s, u64 n) { __CPROVER_assert(n <= VP_MEMMAX, "memmove length within the harness bound VP_MEMMAX");
  u8 t_[VP_MEMMAX]; for (u64 i = 0; i < VP_MEMMAX; i++) if (i < n) t_[i] = s[i]; for (u64 i = 0; i < VP_MEMMAX; i++) if (i < n) d[i] = t_[i]; return d; }
u8* __ir_memset(u8* d, u8 c, u64 n) { __CPROVER_assert(n <= VP_MEMMAX, "memset length within the harness bound VP_MEMMAX"); for (u64 i = 0; i < VP_MEMMAX; i++) if (i < n) d[i] = c; return d; }
#endif
void __ir_atomic_begin(void) {}
void __ir_atomic_end(void) {}
void __ir_fence(void) {}

/* ------------------------------------------------------------------ exceptions
 * A pending exception is a flag checked by generated code after every call.  Type matching
 * walks the single-inheritance chain of Itanium type_info objects.                              */
u8 _ZTVN10__cxxabiv120__si_class_type_infoE[24];
u8 _ZTVN10__cxxabiv117__class_type_infoE[24];
u8 _ZTVN10__cxxabiv121__vmi_class_type_infoE[24];
typedef struct { u8* vptr; const char* name; u8* base; } __ir_ti;
/* type_info objects of the std exception classes (byte arrays: the generated code declares them as extern u8[]) */
#define TI_DECL(sym) u8 sym[24] __attribute__((aligned(8)))
TI_DECL(_ZTISt9exception); TI_DECL(_ZTISt13runtime_error); TI_DECL(_ZTISt11logic_error); TI_DECL(_ZTISt9bad_alloc);
TI_DECL(_ZTISt16invalid_argument); TI_DECL(_ZTISt12length_error); TI_DECL(_ZTISt12out_of_range); TI_DECL(_ZTISt12domain_error);
TI_DECL(_ZTISt11range_error); TI_DECL(_ZTISt14overflow_error); TI_DECL(_ZTISt8bad_cast); TI_DECL(_ZTISt17bad_function_call);
static void __ir_ti_si(u8* t, u8* base) { ((__ir_ti*)t)->vptr = _ZTVN10__cxxabiv120__si_class_type_infoE + 16; ((__ir_ti*)t)->name = 0; ((__ir_ti*)t)->base = base; }
void __ir_rt_init(void) {
  ((__ir_ti*)_ZTISt9exception)->vptr = _ZTVN10__cxxabiv117__class_type_infoE + 16;
  __ir_ti_si(_ZTISt13runtime_error, _ZTISt9exception); __ir_ti_si(_ZTISt11logic_error, _ZTISt9exception);
  __ir_ti_si(_ZTISt9bad_alloc, _ZTISt9exception); __ir_ti_si(_ZTISt8bad_cast, _ZTISt9exception);
  __ir_ti_si(_ZTISt17bad_function_call, _ZTISt9exception);
  __ir_ti_si(_ZTISt16invalid_argument, _ZTISt11logic_error); __ir_ti_si(_ZTISt12length_error, _ZTISt11logic_error);
  __ir_ti_si(_ZTISt12out_of_range, _ZTISt11logic_error); __ir_ti_si(_ZTISt12domain_error, _ZTISt11logic_error);
  __ir_ti_si(_ZTISt11range_error, _ZTISt13runtime_error); __ir_ti_si(_ZTISt14overflow_error, _ZTISt13runtime_error);
}

static int __ir_type_matches(u8* thrown, u8* want) {
  if (want == 0) return 1;
  u8* t = thrown;
  for (int d = 0; d < 5 && t; d++) {
    if (t == want) return 1;
    if (*(u8**)t == _ZTVN10__cxxabiv120__si_class_type_infoE + 16) t = ((__ir_ti*)t)->base; else t = 0;
  }
  return 0;
}
#define __IR_MAXTID 12
static u8* __ir_tid_tab[__IR_MAXTID]; static int __ir_tid_n;
u32 __ir_typeid_for(u8* ti) {
  for (int i = 0; i < __IR_MAXTID; i++) { if (i < __ir_tid_n && __ir_tid_tab[i] == ti) return (u32)(i + 1); }
  __CPROVER_assert(__ir_tid_n < __IR_MAXTID, "typeid table full");
  __ir_tid_tab[__ir_tid_n] = ti; __ir_tid_n++; return (u32)__ir_tid_n;
}
void __ir_landingpad(u8* lp) { *(u8**)lp = __ir_exc_obj; *(u32*)(lp + 8) = 0; __ir_exc_pending = 0; }
void __ir_lp_select(u8* lp, int n, u8** clauses) {
  for (int i = 0; i < n; i++) {
    if (__ir_type_matches(__ir_exc_type, clauses[i])) { *(u32*)(lp + 8) = __ir_typeid_for(clauses[i]); return; }
  }
  *(u32*)(lp + 8) = 0; /* cleanup only */
}
void __ir_resume(u8* p) { (void)p; __ir_exc_pending = 1; }
u8* __cxa_allocate_exception(u64 n) { u8* p = (u8*)malloc(n ? n : 1); __CPROVER_assume(p != 0); return p; }
void __cxa_free_exception(u8* p) { (void)p; }
void __cxa_throw(u8* o, u8* t, u8* d) { (void)d; __ir_exc_obj = o; __ir_exc_type = t; __ir_exc_pending = 1; }
u8* __cxa_begin_catch(u8* p) { return p; }
void __cxa_end_catch(void) {}
void __cxa_rethrow(void) { __ir_exc_pending = 1; }
u32 __cxa_guard_acquire(u8* g) { return *g ? 0 : 1; }
void __cxa_guard_release(u8* g) { *g = 1; }
void __cxa_guard_abort(u8* g) { (void)g; }
u32 __cxa_atexit(u8* f, u8* a, u8* d) { (void)f; (void)a; (void)d; return 0; }
#ifndef NATIVE
u8 __dso_handle[8];
#endif
void _ZSt9terminatev(void) { __CPROVER_assert(0, "std::terminate called"); __CPROVER_assume(0); }
void __cxa_pure_virtual(void) { __CPROVER_assert(0, "pure virtual called"); __CPROVER_assume(0); }
/* helpers for harnesses */
static int vp_take_exception(void) { int p = __ir_exc_pending; __ir_exc_pending = 0; return p; }
static int vp_exc_is(u8* ti) { return __ir_type_matches(__ir_exc_type, ti); }

/* std exception classes: constructors set a vptr whose what() slot (2) is vp_exc_what; message text is not modelled */
u8* vp_exc_what(u8* self) { (void)self; return (u8*)"exception"; }
static void* vp_exc_vt[6] = { 0, 0, 0, 0, (void*)vp_exc_what, 0 };   /* address point at +16: slots 0,1 dtors, 2 what */
#define VP_EXC_SETVT(self) (*(void***)(self) = vp_exc_vt + 2)
#define VP_EXC_CTOR(sym) void sym(u8* self, u8* msg) { (void)msg; VP_EXC_SETVT(self); }
VP_EXC_CTOR(_ZNSt13runtime_errorC1EPKc) VP_EXC_CTOR(_ZNSt13runtime_errorC2EPKc)
VP_EXC_CTOR(_ZNSt13runtime_errorC1ERKNSt7__cxx1112basic_stringIcSt11char_traitsIcESaIcEEE)
VP_EXC_CTOR(_ZNSt13runtime_errorC2ERKNSt7__cxx1112basic_stringIcSt11char_traitsIcESaIcEEE)
VP_EXC_CTOR(_ZNSt11range_errorC1EPKc) VP_EXC_CTOR(_ZNSt11logic_errorC1EPKc) VP_EXC_CTOR(_ZNSt11logic_errorC2EPKc)
VP_EXC_CTOR(_ZNSt16invalid_argumentC1EPKc) VP_EXC_CTOR(_ZNSt12length_errorC1EPKc) VP_EXC_CTOR(_ZNSt12out_of_rangeC1EPKc)
VP_EXC_CTOR(_ZNSt12domain_errorC1EPKc)
VP_EXC_CTOR(_ZNSt16invalid_argumentC1ERKNSt7__cxx1112basic_stringIcSt11char_traitsIcESaIcEEE)
void _ZNSt13runtime_errorD1Ev(u8* s) { (void)s; } void _ZNSt13runtime_errorD2Ev(u8* s) { (void)s; }
void _ZNSt11range_errorD1Ev(u8* s) { (void)s; } void _ZNSt11logic_errorD1Ev(u8* s) { (void)s; } void _ZNSt11logic_errorD2Ev(u8* s) { (void)s; }
void _ZNSt16invalid_argumentD1Ev(u8* s) { (void)s; } void _ZNSt12length_errorD1Ev(u8* s) { (void)s; }
void _ZNSt12out_of_rangeD1Ev(u8* s) { (void)s; } void _ZNSt12domain_errorD1Ev(u8* s) { (void)s; }
void _ZNSt9exceptionD2Ev(u8* s) { (void)s; } void _ZNSt9exceptionD1Ev(u8* s) { (void)s; }
u8* _ZNKSt13runtime_error4whatEv(u8* s) { return vp_exc_what(s); }
u8* _ZNKSt11logic_error4whatEv(u8* s) { return vp_exc_what(s); }
u8* _ZNKSt9exception4whatEv(u8* s) { return vp_exc_what(s); }
#if defined(VP_DISPATCH_ru8p_u8p) && !defined(VP_DISPATCH_CUSTOM_ru8p_u8p)
u8* __ir_indirect_ru8p_u8p(u8* fp, u8* a0) { if (fp == (u8*)vp_exc_what) return vp_exc_what(a0); __ir_bad_indirect(); return 0; }
#endif
/* __throw_* helpers of libstdc++ */
static void vp_throw_std(u8* ti) { u8* o = (u8*)malloc(16); __CPROVER_assume(o != 0); VP_EXC_SETVT(o); __ir_exc_obj = o; __ir_exc_type = ti; __ir_exc_pending = 1; }
#define VP_THROW(sym, ti) void sym(u8* m) { (void)m; vp_throw_std(ti); }
VP_THROW(_ZSt20__throw_length_errorPKc, _ZTISt12length_error)
VP_THROW(_ZSt19__throw_logic_errorPKc, _ZTISt11logic_error)
VP_THROW(_ZSt24__throw_invalid_argumentPKc, _ZTISt16invalid_argument)
VP_THROW(_ZSt20__throw_out_of_rangePKc, _ZTISt12out_of_range)
void _ZSt24__throw_out_of_range_fmtPKcz(u8* f, ...) { (void)f; vp_throw_std(_ZTISt12out_of_range); }
void _ZSt17__throw_bad_allocv(void) { vp_throw_std(_ZTISt9bad_alloc); }
void _ZSt25__throw_bad_function_callv(void) { vp_throw_std(_ZTISt17bad_function_call); }
/* allocation: exact-size objects, failure out of scope */
#ifdef VP_ALLOC_FIXED
/* fixed-size blocks (a heap object of symbolic size makes CBMC's encoding explode): the request must fit; accesses between
 * the requested size and VP_ALLOC_FIXED are then NOT reported by CBMC -- harnesses using this mode assert sizes functionally */
u8* _Znwm(u64 n) { __CPROVER_assert(n <= VP_ALLOC_FIXED, "allocation request within the harness bound VP_ALLOC_FIXED"); u8* p = (u8*)malloc(VP_ALLOC_FIXED); __CPROVER_assume(p != 0); return p; }
#else
u8* _Znwm(u64 n) { u8* p = (u8*)malloc(n ? n : 1); __CPROVER_assume(p != 0); return p; }
#endif
u8* _Znam(u64 n) { u8* p = (u8*)malloc(n ? n : 1); __CPROVER_assume(p != 0); return p; }
void _ZdlPv(u8* p) { (void)p; }
void _ZdaPv(u8* p) { (void)p; }
void _ZdlPvm(u8* p, u64 n) { (void)p; (void)n; }
#endif /* !REAL */

/* ------------------------------------------------------------------ libstdc++ basic_streambuf<char> layout (x86-64) */
typedef struct { void** vptr; u8 *eback, *gptr, *egptr, *pbase, *pptr, *epptr; void* loc; } sb_t;
typedef struct { sb_t* buf; } cursor_t;
#ifndef REAL
u32 _ZNSt15basic_streambufIcSt11char_traitsIcEE9underflowEv(u8* p) { (void)p; return (u32)-1; }
u32 _ZNSt15basic_streambufIcSt11char_traitsIcEE5uflowEv(u8* p) {
  sb_t* s = (sb_t*)p; (void)s; return (u32)-1; /* reached only when gptr == egptr: underflow() is eof */ }
u64 _ZNSt15basic_streambufIcSt11char_traitsIcEE9showmanycEv(u8* p) { (void)p; return 0; }
u32 _ZNSt15basic_streambufIcSt11char_traitsIcEE4syncEv(u8* p) { (void)p; return 0; }
u32 _ZNSt15basic_streambufIcSt11char_traitsIcEE9pbackfailEi(u8* p, u32 c) { (void)p; (void)c; return (u32)-1; }
u32 _ZNSt15basic_streambufIcSt11char_traitsIcEE8overflowEi(u8* p, u32 c) { (void)p; (void)c; return (u32)-1; }
#else
u32 _ZNSt15basic_streambufIcSt11char_traitsIcEE9underflowEv(u8* p);
u32 _ZNSt15basic_streambufIcSt11char_traitsIcEE5uflowEv(u8* p);
u64 _ZNSt15basic_streambufIcSt11char_traitsIcEE9showmanycEv(u8* p);
u32 _ZNSt15basic_streambufIcSt11char_traitsIcEE4syncEv(u8* p);
#endif
/* vtable of a plain read-only streambuf over a byte range (slots per Itanium ABI for basic_streambuf):
 * 0,1 dtors  2 imbue  3 setbuf  4 seekoff  5 seekpos  6 sync  7 showmanyc  8 xsgetn  9 underflow  10 uflow
 * 11 pbackfail  12 xsputn  13 overflow */
static void* vp_sb_vt[16] = {
  [6] = (void*)_ZNSt15basic_streambufIcSt11char_traitsIcEE4syncEv,
  [7] = (void*)_ZNSt15basic_streambufIcSt11char_traitsIcEE9showmanycEv,
  [9] = (void*)_ZNSt15basic_streambufIcSt11char_traitsIcEE9underflowEv,
  [10] = (void*)_ZNSt15basic_streambufIcSt11char_traitsIcEE5uflowEv };
static void vp_sb_init(sb_t* sb, u8* b, u64 pos, u64 n) {
  sb->vptr = vp_sb_vt; sb->eback = b; sb->gptr = b + pos; sb->egptr = b + n; sb->pbase = 0; sb->pptr = 0; sb->epptr = 0; sb->loc = 0; }

void __ir_init_globals(void);
#endif
