/* Real-layout libstdc++ std::string / std::vector helpers for inl-mode units: the inlined libstdc++ code of the
 * unit manipulates the real representation {char* p; size_t len; union {char local[16]; size_t cap;}}; only the
 * out-of-line members are modelled here, with exact-size heap storage so that any off-by-one is out of bounds. */
#ifndef VP_STR_REAL_H
#define VP_STR_REAL_H
#include "rt.h"
typedef struct { u8* p; u64 len; union { u8 local[16]; u64 cap; } u; } rstr_t;
typedef struct { u8* b; u8* e; u8* c; } rvec_t;
static void rstr_init_empty(rstr_t* s) { s->p = s->u.local; s->len = 0; s->u.local[0] = 0; }
/* string over an exact-size heap block (len+1 bytes, NUL-terminated), capacity == len */
static void rstr_init_heap(rstr_t* s, u8* block, u64 len) { s->p = block; s->len = len; s->u.cap = len; }
#ifndef REAL
u64 vp_reserve_max;  /* ghost: largest reserve() request seen */
/* basic_string::_M_construct(size_type n, char c) */
void _ZNSt7__cxx1112basic_stringIcSt11char_traitsIcESaIcEE12_M_constructEmc(u8* s_, u64 n, u8 c) {
  rstr_t* s = (rstr_t*)s_; u8* p;
  if (n > 15) { p = (u8*)malloc(n + 1); __CPROVER_assume(p != 0); s->u.cap = n; } else p = s->u.local;
  for (u64 i = 0; i < n; i++) p[i] = c;
  p[n] = 0; s->p = p; s->len = n; }
/* basic_string::reserve() (shrink request, C++20 form used by shrink_to_fit): no observable effect */
void _ZNSt7__cxx1112basic_stringIcSt11char_traitsIcESaIcEE7reserveEv(u8* s) { (void)s; }
/* basic_string::_M_create(size_type& cap, size_type old) */
u8* _ZNSt7__cxx1112basic_stringIcSt11char_traitsIcESaIcEE9_M_createERmm(u8* s, u8* capp, u64 old) {
  (void)s; (void)old; u64 cap = *(u64*)capp; u8* p = (u8*)malloc(cap + 1); __CPROVER_assume(p != 0); return p; }
#endif
#endif
