/* Ghost models of libstdc++ containers for sel-mode units: the unit's IR keeps std::string / map / vector operations as
 * calls; here a std::string object (32 bytes) is the pair {ptr,len} ALIASING its source bytes (slot 0 = ptr, slot 1 = len),
 * so that "which bytes did the parser take" is visible as (offset,length) and every construction from (ptr,len) is checked
 * to read only readable memory (an exact-size buffer makes an over-long token an out-of-bounds access).                */
#ifndef VP_GHOST_H
#define VP_GHOST_H
#include "rt.h"
typedef struct { u8* p; u64 len; u64 pad[2]; } gstr_t;
#ifndef REAL
#define GS(x) ((gstr_t*)(x))
static void gs_check(u8* p, u64 n) { __CPROVER_assert(n == 0 || __CPROVER_r_ok(p, n), "std::string constructed from (ptr,len): the whole range is readable (inside the delivered bytes)"); }
/* basic_string(const char*, size_t, const allocator&) */
void _ZNSt7__cxx1112basic_stringIcSt11char_traitsIcESaIcEEC2EPKcmRKS3_(u8* s, u8* p, u64 n, u8* a) { (void)a; gs_check(p, n); GS(s)->p = p; GS(s)->len = n; }
void _ZNSt7__cxx1112basic_stringIcSt11char_traitsIcESaIcEEC1EPKcmRKS3_(u8* s, u8* p, u64 n, u8* a) { (void)a; gs_check(p, n); GS(s)->p = p; GS(s)->len = n; }
/* basic_string(const char*, const allocator&): NUL-terminated source (string literals) */
#ifndef VP_GS_ARENA   /* with VP_GS_ARENA (ghost_more.h) the source is copied: it may be a local buffer that dies */
void _ZNSt7__cxx1112basic_stringIcSt11char_traitsIcESaIcEEC2IS3_EEPKcRKS3_(u8* s, u8* p, u8* a) { (void)a; u64 n = 0; while (p[n]) n++; GS(s)->p = p; GS(s)->len = n; }
#endif
void _ZNSt7__cxx1112basic_stringIcSt11char_traitsIcESaIcEEC2Ev(u8* s) { GS(s)->p = (u8*)""; GS(s)->len = 0; }
void _ZNSt7__cxx1112basic_stringIcSt11char_traitsIcESaIcEEC2EOS4_(u8* s, u8* o) { GS(s)->p = GS(o)->p; GS(s)->len = GS(o)->len; GS(o)->len = 0; }
void _ZNSt7__cxx1112basic_stringIcSt11char_traitsIcESaIcEEC2ERKS4_(u8* s, u8* o) { GS(s)->p = GS(o)->p; GS(s)->len = GS(o)->len; }
u8* _ZNSt7__cxx1112basic_stringIcSt11char_traitsIcESaIcEEaSEOS4_(u8* s, u8* o) { GS(s)->p = GS(o)->p; GS(s)->len = GS(o)->len; GS(o)->len = 0; return s; }
u8* _ZNSt7__cxx1112basic_stringIcSt11char_traitsIcESaIcEEaSERKS4_(u8* s, u8* o) { GS(s)->p = GS(o)->p; GS(s)->len = GS(o)->len; return s; }
void _ZNSt7__cxx1112basic_stringIcSt11char_traitsIcESaIcEED2Ev(u8* s) { (void)s; }
void _ZNSt7__cxx1112basic_stringIcSt11char_traitsIcESaIcEED1Ev(u8* s) { (void)s; }
u8* _ZNKSt7__cxx1112basic_stringIcSt11char_traitsIcESaIcEE5c_strEv(u8* s) { return GS(s)->p; }
u8* _ZNKSt7__cxx1112basic_stringIcSt11char_traitsIcESaIcEE4dataEv(u8* s) { return GS(s)->p; }
u64 _ZNKSt7__cxx1112basic_stringIcSt11char_traitsIcESaIcEE4sizeEv(u8* s) { return GS(s)->len; }
u8* _ZNKSt7__cxx1112basic_stringIcSt11char_traitsIcESaIcEEixEm(u8* s, u64 i) { __CPROVER_assert(i <= GS(s)->len, "std::string::operator[] within [0, size()]"); return GS(s)->p + i; }
u8* _ZNSt7__cxx1112basic_stringIcSt11char_traitsIcESaIcEEixEm(u8* s, u64 i) { __CPROVER_assert(i <= GS(s)->len, "std::string::operator[] within [0, size()]"); return GS(s)->p + i; }
u64 _ZNKSt7__cxx1112basic_stringIcSt11char_traitsIcESaIcEE6lengthEv(u8* s) { return GS(s)->len; }
u8 _ZNKSt7__cxx1112basic_stringIcSt11char_traitsIcESaIcEE5emptyEv(u8* s) { return GS(s)->len == 0; }
/* searching and slicing (ghost strings alias their source, so a substring is a sub-range) */
u64 _ZNKSt7__cxx1112basic_stringIcSt11char_traitsIcESaIcEE4findEcm(u8* s, u8 c, u64 pos) { for (u64 i = pos; i < GS(s)->len; i++) if (GS(s)->p[i] == c) return i; return ~(u64)0; }
u64 _ZNKSt7__cxx1112basic_stringIcSt11char_traitsIcESaIcEE5rfindEcm(u8* s, u8 c, u64 pos) { u64 r = ~(u64)0; for (u64 i = 0; i < GS(s)->len; i++) if ((pos == ~(u64)0 || i <= pos) && GS(s)->p[i] == c) r = i; return r; }
u64 _ZNKSt7__cxx1112basic_stringIcSt11char_traitsIcESaIcEE12find_last_ofEcm(u8* s, u8 c, u64 pos) { return _ZNKSt7__cxx1112basic_stringIcSt11char_traitsIcESaIcEE5rfindEcm(s, c, pos); }
u64 _ZNKSt7__cxx1112basic_stringIcSt11char_traitsIcESaIcEE13find_first_ofEcm(u8* s, u8 c, u64 pos) { for (u64 i = pos; i < GS(s)->len; i++) if (GS(s)->p[i] == c) return i; return ~(u64)0; }
void _ZNKSt7__cxx1112basic_stringIcSt11char_traitsIcESaIcEE6substrEmm(u8* ret, u8* s, u64 pos, u64 n) {
  if (pos > GS(s)->len) { _ZSt24__throw_out_of_range_fmtPKcz(0); return; }
  u64 rem = GS(s)->len - pos; GS(ret)->p = GS(s)->p + pos; GS(ret)->len = n < rem ? n : rem; }
u8* _ZNSt7__cxx1112basic_stringIcSt11char_traitsIcESaIcEEaSEPKc(u8* s, u8* lit) { u64 n = 0; while (lit[n]) n++; GS(s)->p = lit; GS(s)->len = n; return s; }
static int gs_eq_lit(u8* s, const char* lit) { u64 n = 0; while (lit[n]) n++; if (GS(s)->len != n) return 0; for (u64 i = 0; i < n; i++) if (GS(s)->p[i] != (u8)lit[i]) return 0; return 1; }
u8 _ZSteqIcSt11char_traitsIcESaIcEEbRKNSt7__cxx1112basic_stringIT_T0_T1_EEPKS5_(u8* s, u8* lit) { return gs_eq_lit(s, (const char*)lit); }
void _ZStplIcSt11char_traitsIcESaIcEENSt7__cxx1112basic_stringIT_T0_T1_EEPKS5_RKS8_(u8* ret, u8* lit, u8* s) { (void)lit; GS(ret)->p = GS(s)->p; GS(ret)->len = GS(s)->len; /* error-message formatting: content irrelevant */ }
#endif
#endif
