/* libc models (names prefixed x_ by ir2c).  Readers touch exactly the bytes the C standard lets the real function
 * touch: scanners go byte by byte and stop at the first deciding byte, so any read past an exact-size block is
 * reported by CBMC as an out-of-bounds access.  Cross-checked natively against glibc by engine/selftest_models.c. */
#ifndef VP_LIBC_H
#define VP_LIBC_H
#include "rt.h"
#ifndef REAL
static int vp_isspace(u8 c) { return c == ' ' || (c >= 9 && c <= 13); }
u32 x_tolower(u32 c) { return (c >= 'A' && c <= 'Z') ? c + 32 : c; }
u32 x_toupper(u32 c) { return (c >= 'a' && c <= 'z') ? c - 32 : c; }
u32 x_isdigit(u32 c) { return c >= '0' && c <= '9'; }
u32 x_isspace(u32 c) { return c < 256 && vp_isspace((u8)c); }
u32 x_isalpha(u32 c) { return (c >= 'A' && c <= 'Z') || (c >= 'a' && c <= 'z'); }
u32 x_isxdigit(u32 c) { return (c >= 48 && c <= 57) || (c >= 65 && c <= 70) || (c >= 97 && c <= 102); }
u32 x_isalnum(u32 c) { return x_isalpha(c) || x_isdigit(c); }
u64 x_strlen(u8* s) { u64 n = 0; while (s[n]) n++; return n; }
/* memcmp/bcmp: both ranges must be readable for n bytes (contract); result sign as glibc */
u32 x_memcmp(u8* a, u8* b, u64 n) { u32 r = 0; for (u64 i = 0; i < n; i++) { u8 x = a[i], y = b[i]; if (r == 0 && x != y) r = x < y ? (u32)-1 : 1; } return r; }
u32 x_bcmp(u8* a, u8* b, u64 n) { return x_memcmp(a, b, n); }
u8* x_memchr(u8* s, u32 c, u64 n) { for (u64 i = 0; i < n; i++) if (s[i] == (u8)c) return s + i; return 0; }
u32 x_strcmp(u8* a, u8* b) { for (u64 i = 0;; i++) { u8 x = a[i], y = b[i]; if (x != y) return x < y ? (u32)-1 : 1; if (!x) return 0; } }
u32 x_strncmp(u8* a, u8* b, u64 n) { for (u64 i = 0; i < n; i++) { u8 x = a[i], y = b[i]; if (x != y) return x < y ? (u32)-1 : 1; if (!x) return 0; } return 0; }
u32 x_strncasecmp(u8* a, u8* b, u64 n) { for (u64 i = 0; i < n; i++) { u8 x = (u8)x_tolower(a[i]), y = (u8)x_tolower(b[i]); if (x != y) return x < y ? (u32)-1 : 1; if (!x) return 0; } return 0; }
u32 x_strcasecmp(u8* a, u8* b) { for (u64 i = 0;; i++) { u8 x = (u8)x_tolower(a[i]), y = (u8)x_tolower(b[i]); if (x != y) return x < y ? (u32)-1 : 1; if (!x) return 0; } }
static int vp_digv(u8 c, int base) { int v = (c >= '0' && c <= '9') ? c - '0' : (c >= 'a' && c <= 'z') ? c - 'a' + 10 : (c >= 'A' && c <= 'Z') ? c - 'A' + 10 : 99; return v < base ? v : -1; }
int vp_errno;
u8* x___errno_location(void) { return (u8*)&vp_errno; }
/* strtol / strtoul / strtoll: skips isspace, optional sign, optional 0x for base 16 (and base 0 not supported), digits; saturates */
static u64 vp_strtox(u8* s, u8** end, u32 base, int is_signed) {
  u8* p = s; while (vp_isspace(*p)) p++;
  int neg = 0; if (*p == '-') { neg = 1; p++; } else if (*p == '+') { p++; }
  if (base == 16 && p[0] == '0' && (p[1] == 'x' || p[1] == 'X') && vp_digv(p[2], 16) >= 0) p += 2;
  u64 acc = 0; int any = 0, ovf = 0, d;
  u64 lim = is_signed ? (neg ? (u64)1 << 63 : ((u64)1 << 63) - 1) : ~(u64)0;
  while ((d = vp_digv(*p, (int)base)) >= 0) {
    if (!ovf) { if (acc > (lim - (u64)d) / base) { ovf = 1; acc = lim; } else acc = acc * base + (u64)d; }
    any = 1; p++; }
  if (end) *end = any ? p : s;
  if (ovf) vp_errno = 34;
  if (!any) return 0;
  if (is_signed) return neg ? (u64)(-(i64)acc) : acc;
  return neg && !ovf ? (u64)(-(i64)acc) : acc;
}
u64 x_strtol(u8* s, u8* end, u32 base) { return vp_strtox(s, (u8**)end, base, 1); }
u64 x_strtoll(u8* s, u8* end, u32 base) { return vp_strtox(s, (u8**)end, base, 1); }
u64 x_strtoul(u8* s, u8* end, u32 base) { return vp_strtox(s, (u8**)end, base, 0); }
u64 x_strtoull(u8* s, u8* end, u32 base) { return vp_strtox(s, (u8**)end, base, 0); }
/* strtod as a *scanner*: which bytes are read and where the numeral ends.  The value is an uninterpreted
 * (nondeterministic) double unless the numeral is of the simple form d.dd, which callers in mime.cc use for q-values. */
double nondet_double(void);
double x_strtod(u8* s, u8* end_) {
  u8** end = (u8**)end_; u8* p = s; while (vp_isspace(*p)) p++;
  if (*p == '-' || *p == '+') p++;
  u8 c0 = (u8)x_tolower(*p);
  if (c0 == 'i') { /* inf / infinity */
    if (x_tolower(p[1]) == 'n' && x_tolower(p[2]) == 'f') { p += 3;
      if (x_tolower(p[0]) == 'i' && x_tolower(p[1]) == 'n' && x_tolower(p[2]) == 'i' && x_tolower(p[3]) == 't' && x_tolower(p[4]) == 'y') p += 5;
      if (end) *end = p;
#ifdef NATIVE
      return 0;
#else
      return nondet_double();
#endif
    }
    if (end) *end = s; return 0; }
  if (c0 == 'n') { if (x_tolower(p[1]) == 'a' && x_tolower(p[2]) == 'n') { p += 3;
      if (*p == '(') { u8* q = p + 1; while (x_isalnum(*q) || *q == '_') q++; if (*q == ')') p = q + 1; }
      if (end) *end = p;
#ifdef NATIVE
      return 0;
#else
      return nondet_double();
#endif
    }
    if (end) *end = s; return 0; }
  int hex = 0; if (p[0] == '0' && (p[1] == 'x' || p[1] == 'X') && (vp_digv(p[2], 16) >= 0 || (p[2] == '.' && vp_digv(p[3], 16) >= 0))) { hex = 1; p += 2; }
  int any = 0; i64 ip = 0, fp = 0, fd = 0; int simple = !hex;
  while (vp_digv(*p, hex ? 16 : 10) >= 0) { if (ip < 1000) ip = ip * 10 + (*p - '0'); any = 1; p++; }
  if (*p == '.') { u8* q = p + 1; int anyf = 0; while (vp_digv(*q, hex ? 16 : 10) >= 0) { if (fd < 2) { fp = fp * 10 + (*q - '0'); fd++; } else simple = 0; anyf = 1; q++; }
    if (any || anyf) { p = q; any = 1; } }
  if (!any) { if (end) *end = s; return 0; }
  u8 e = (u8)x_tolower(*p);
  if ((!hex && e == 'e') || (hex && e == 'p')) { u8* q = p + 1; if (*q == '-' || *q == '+') q++; if (vp_digv(*q, 10) >= 0) { while (vp_digv(*q, 10) >= 0) q++; p = q; simple = 0; } }
  if (end) *end = p;
  if (simple && ip < 1000) return (double)ip + (fd == 1 ? (double)fp / 10.0 : fd == 2 ? (double)fp / 100.0 : 0.0);
#ifdef NATIVE
  return 0;
#else
  return nondet_double();
#endif
}
#endif
#endif
