/* Harness input layer: every nondeterministic choice of a harness is named, recorded in the CBMC
 * trace (__CPROVER_input) and can be fed back natively from a replay file ("name value" lines).   */
#ifndef VP_H
#define VP_H
#include "rt.h"
#ifndef NATIVE
u8 nondet_u8(void); u16 nondet_u16(void); u32 nondet_u32(void); u64 nondet_u64(void);
i32 nondet_i32(void); i64 nondet_i64(void);
#define VP_IN(T, var, name) T var = nondet_##T(); __CPROVER_input(name, var)
#define VP_SET(T, lhs, name) do { T t_ = nondet_##T(); __CPROVER_input(name, t_); (lhs) = t_; } while (0)
#define VP_WITNESS_POINT(msg) __CPROVER_assert(0, msg)
#define VP_OBS(name, v) do { } while (0)
#else
#include <stdio.h>
#define VP_MAXIN 4096
static char vp_in_name[VP_MAXIN][24]; static long long vp_in_val[VP_MAXIN]; static int vp_in_used[VP_MAXIN]; static int vp_in_n = -1;
static void vp_replay_load(void) {
  const char* f = getenv("VP_REPLAY"); vp_in_n = 0;
  if (!f) return;
  FILE* fp = fopen(f, "r"); if (!fp) { perror("VP_REPLAY"); _exit(5); }
  char nm[64]; long long v;
  while (vp_in_n < VP_MAXIN && fscanf(fp, "%23s %lld", nm, &v) == 2) { strcpy(vp_in_name[vp_in_n], nm); vp_in_val[vp_in_n] = v; vp_in_n++; }
  fclose(fp);
}
static long long vp_replay_get(const char* name);
static unsigned long long vp_rng; static int vp_rng_on = -1;
static unsigned long long vp_rnd(void) { vp_rng ^= vp_rng << 13; vp_rng ^= vp_rng >> 7; vp_rng ^= vp_rng << 17; return vp_rng; }
static const char vp_alpha[] = "\r\n\r\n  ::;;==,,//??&&..--++**[]\"\"%%0123456789abcdefxABCDEFX GETHTP/1.01qQwWchunkedlosptyimUR\t\0\377\200";
static long long vp_replay_get_sz(const char* name, int size) {
  if (vp_rng_on < 0) { const char* r = getenv("VP_RANDOM"); vp_rng_on = r != 0; if (r) { vp_rng = 88172645463325252ULL ^ (strtoull(r, 0, 10) * 0x9E3779B97F4A7C15ULL); vp_rnd(); vp_rnd(); } }
  if (!vp_rng_on) return vp_replay_get(name);
  unsigned long long r = vp_rnd();
  if (size == 1) return (r & 3) ? (unsigned char)vp_alpha[(r >> 8) % (sizeof vp_alpha - 1)] : (long long)((r >> 16) & 255);
  switch (r & 15) { case 0: return (long long)vp_rnd(); case 1: case 2: return (long long)((r >> 8) & 255); case 3: return -(long long)((r >> 8) & 7);
    default: return (long long)((r >> 8) % 17); }
}
static long long vp_replay_get(const char* name) {
  if (vp_in_n < 0) vp_replay_load();
  for (int i = 0; i < vp_in_n; i++) if (!vp_in_used[i] && !strcmp(vp_in_name[i], name)) { vp_in_used[i] = 1; return vp_in_val[i]; }
  return 0; /* value not in trace: the solver did not need it */
}
#define VP_IN(T, var, name) T var = (T)vp_replay_get_sz(name, sizeof(T))
#define VP_SET(T, lhs, name) do { (lhs) = (T)vp_replay_get_sz(name, sizeof(T)); } while (0)
#define VP_OBS(name, v) printf("OBS %s %lld\n", name, (long long)(v))
#define VP_WITNESS_POINT(msg) do { printf("WITNESS-REACHED: %s\n", msg); } while (0)
#endif

/* exact-size heap block of n bytes with symbolic contents (n may be symbolic but bounded by max) */
#define VP_BYTES(ptr, n, max, name) \
  u8* ptr = (u8*)malloc(n); __CPROVER_assume(ptr != 0); \
  for (u64 i_ = 0; i_ < (max); i_++) { if (i_ < (u64)(n)) { VP_SET(u8, ptr[i_], name); } }

#ifdef WITNESS
#define VP_END(msg) VP_WITNESS_POINT(msg)
#else
#define VP_END(msg) do { } while (0)
#endif
#endif
