/* Contract stubs for the StreamCursor primitives (src/common/stream.cc), for step-level harnesses whose unit does not
 * include stream.cc.  Each stub is exactly the post-condition that the cursor kernel harnesses (harness/c03_cursor.c:
 * cursor_advance, cursor_eol, cursor_next, cursor_basic) prove for the real code on every buffer within their bound,
 * so a step-level verdict holds "modulo the cursor lemmas", which are discharged by the same check run.
 * A call outside a lemma's precondition (advance with a count >= 2^63) is an assertion failure here.              */
#ifndef VP_CURSOR_CONTRACT_H
#define VP_CURSOR_CONTRACT_H
#include "rt.h"
#ifndef REAL
#define CC_SB(c) (((cursor_t*)(c))->buf)
#define CC_AVAIL(c) ((u64)CC_SB(c)->egptr - (u64)CC_SB(c)->gptr)
u8 _ZN8Pistache12StreamCursor7advanceEm(u8* c, u64 count) {
  __CPROVER_assert(count < ((u64)1 << 63), "StreamCursor::advance is never called with a count >= 2^63 (negative ssize_t: 2^63.. iterations)");
  if (count >= ((u64)1 << 63)) { __CPROVER_assume(0); }
  if (count > CC_AVAIL(c)) return 0;
  CC_SB(c)->gptr += count; return 1; }
u8 _ZNK8Pistache12StreamCursor3eolEv(u8* c) { return CC_AVAIL(c) >= 2 && CC_SB(c)->gptr[0] == 13 && CC_SB(c)->gptr[1] == 10; }
u8 _ZNK8Pistache12StreamCursor3eofEv(u8* c) { return CC_AVAIL(c) == 0; }
u64 _ZNK8Pistache12StreamCursor9remainingEv(u8* c) { return CC_AVAIL(c); }
u8 _ZNK8Pistache12StreamCursor7currentEv(u8* c) { return CC_AVAIL(c) == 0 ? (u8)0xff : CC_SB(c)->gptr[0]; }
u32 _ZNK8Pistache12StreamCursor4nextEv(u8* c) { return CC_AVAIL(c) >= 2 ? (u32)(i32)(i8)CC_SB(c)->gptr[1] : (u32)-1; }
u8* _ZNK8Pistache12StreamCursor6offsetEv(u8* c) { return CC_SB(c)->gptr; }
u8* _ZNK8Pistache12StreamCursor6offsetEm(u8* c, u64 off) { return CC_SB(c)->eback + off; }
void _ZN8Pistache12StreamCursor5resetEv(u8* c) { CC_SB(c)->eback = 0; CC_SB(c)->gptr = 0; CC_SB(c)->egptr = 0; }
u64 _ZNK8Pistache12StreamCursor4diffEm(u8* c, u64 other) { return ((u64)CC_SB(c)->gptr - (u64)CC_SB(c)->eback) - other; }
/* match_until(initializer_list<char>{c...}, cursor, Insensitive) as proven by cursor_until: stops at the first byte equal
 * to a (lower-cased) delimiter, or at the end of the delivered bytes; true iff a delimiter was found */
static u8 cc_lc(u8 c) { return (c >= 'A' && c <= 'Z') ? c + 32 : c; }
u8 _ZN8Pistache11match_untilESt16initializer_listIcERNS_12StreamCursorENS_15CaseSensitivityE(u8* set, u64 ns, u8* c, u32 cs) {
  __CPROVER_assert(cs == 1 && ns >= 1 && ns <= 3, "match_until contract covers the default (Insensitive) mode with 1..3 delimiters");
  u8* p = CC_SB(c)->gptr; u8* e = CC_SB(c)->egptr;
  while (p != e) { u8 b = *p; if (b == cc_lc(set[0]) || (ns >= 2 && b == cc_lc(set[1])) || (ns >= 3 && b == cc_lc(set[2]))) break; p++; }
  CC_SB(c)->gptr = p; return p != e; }
u8 _ZN8Pistache11match_untilEcRNS_12StreamCursorENS_15CaseSensitivityE(u8 ch, u8* c, u32 cs) { u8 set[1] = { ch }; return _ZN8Pistache11match_untilESt16initializer_listIcERNS_12StreamCursorENS_15CaseSensitivityE(set, 1, c, cs); }
/* match_raw(buf, len, cursor) as proven by cursor_raw */
u8 _ZN8Pistache9match_rawEPKvmRNS_12StreamCursorE(u8* pat, u64 m, u8* c) {
  if (CC_AVAIL(c) < m) return 0;
  for (u64 i = 0; i < m; i++) if (CC_SB(c)->gptr[i] != pat[i]) return 0;
  CC_SB(c)->gptr += m; return 1; }
/* match_string(str, len, cursor, cs) as proven by cursor_string (patterns <= PATMAX bytes there): succeeds iff the literal is a
 * prefix of the available bytes (byte-wise for Sensitive, C-locale case folding for Insensitive), consumes it on success */
u8 _ZN8Pistache12match_stringEPKcmRNS_12StreamCursorENS_15CaseSensitivityE(u8* pat, u64 m, u8* c, u32 cs) {
  __CPROVER_assert(m <= 24, "match_string contract: literal of at most 24 bytes");
  if (CC_AVAIL(c) < m) return 0;
  for (u64 i = 0; i < 24; i++) if (i < m) { u8 x = CC_SB(c)->gptr[i], y = pat[i]; if (cs == 0 ? x != y : cc_lc(x) != cc_lc(y)) return 0; }
  CC_SB(c)->gptr += m; return 1; }
/* match_literal(ch, cursor, cs) as proven by cursor_literal */
u8 _ZN8Pistache13match_literalEcRNS_12StreamCursorENS_15CaseSensitivityE(u8 ch, u8* c, u32 cs) {
  if (CC_AVAIL(c) < 1) return 0;
  u8 x = CC_SB(c)->gptr[0]; if (cs == 0 ? x != ch : cc_lc(x) != cc_lc(ch)) return 0;
  CC_SB(c)->gptr += 1; return 1; }
/* skip_whitespaces(cursor) as proven by cursor_skipws: stops at the first delivered byte that is neither ' ' nor TAB */
void _ZN8Pistache16skip_whitespacesERNS_12StreamCursorE(u8* c) {
  u8* p = CC_SB(c)->gptr; u8* e = CC_SB(c)->egptr;
  while (p != e && (*p == ' ' || *p == 9)) p++;
  CC_SB(c)->gptr = p; }
/* match_double(&val, cursor): strtod on a NUL-terminated COPY of the remaining bytes (what the real code does since af1a923;
 * proven for the real code by cursor_double: same value, same advance, nothing consumed without a numeral) */
#ifdef VP_LIBC_H
#ifndef CC_DMAX
#define CC_DMAX 24
#endif
u8 _ZN8Pistache12match_doubleEPdRNS_12StreamCursorE(u8* val, u8* c) {
  u64 n = CC_AVAIL(c); __CPROVER_assert(n <= CC_DMAX, "match_double contract: at most CC_DMAX bytes remain (harness bound)");
  u8 tmp[CC_DMAX + 1]; for (u64 i = 0; i < CC_DMAX; i++) tmp[i] = i < n ? CC_SB(c)->gptr[i] : 0; tmp[CC_DMAX] = 0;
  u8* end = 0; double v = x_strtod(tmp, (u8*)&end); *(double*)val = v;
  if (end == tmp) return 0;
  CC_SB(c)->gptr += (u64)(end - tmp); return 1; }
#endif
#endif
#endif
