/* Contract stubs for the StreamCursor primitives (src/common/stream.cc), for step-level harnesses whose unit does not
 * include stream.cc.  Each stub is exactly the post-condition that the cursor kernel harnesses (harness/c03_cursor.c:
 * cursor_advance, cursor_eol, cursor_next, cursor_basic) prove for the real code on every buffer within their bound,
 * so a step-level verdict holds "modulo the cursor lemmas", which are discharged by the same check run.
 * A call outside a lemma's precondition (advance with a count >= 2^63) is an assertion failure here.              */
#ifndef VP_CURSOR_CONTRACT_H
#define VP_CURSOR_CONTRACT_H
#include "rt.h"
#ifndef REAL
#define CC_SB(c) (((cursor_t*)(c))->buf)
#define CC_AVAIL(c) ((u64)CC_SB(c)->egptr - (u64)CC_SB(c)->gptr)
u8 _ZN8Pistache12StreamCursor7advanceEm(u8* c, u64 count) {
  __CPROVER_assert(count < ((u64)1 << 63), "StreamCursor::advance is never called with a count >= 2^63 (negative ssize_t: 2^63.. iterations)");
  if (count >= ((u64)1 << 63)) { __CPROVER_assume(0); }
  if (count > CC_AVAIL(c)) return 0;
  CC_SB(c)->gptr += count; return 1; }
u8 _ZNK8Pistache12StreamCursor3eolEv(u8* c) { return CC_AVAIL(c) >= 2 && CC_SB(c)->gptr[0] == 13 && CC_SB(c)->gptr[1] == 10; }
u8 _ZNK8Pistache12StreamCursor3eofEv(u8* c) { return CC_AVAIL(c) == 0; }
u64 _ZNK8Pistache12StreamCursor9remainingEv(u8* c) { return CC_AVAIL(c); }
u8 _ZNK8Pistache12StreamCursor7currentEv(u8* c) { return CC_AVAIL(c) == 0 ? (u8)0xff : CC_SB(c)->gptr[0]; }
u32 _ZNK8Pistache12StreamCursor4nextEv(u8* c) { return CC_AVAIL(c) >= 2 ? (u32)(i32)(i8)CC_SB(c)->gptr[1] : (u32)-1; }
u8* _ZNK8Pistache12StreamCursor6offsetEv(u8* c) { return CC_SB(c)->gptr; }
u8* _ZNK8Pistache12StreamCursor6offsetEm(u8* c, u64 off) { return CC_SB(c)->eback + off; }
void _ZN8Pistache12StreamCursor5resetEv(u8* c) { CC_SB(c)->eback = 0; CC_SB(c)->gptr = 0; CC_SB(c)->egptr = 0; }
u64 _ZNK8Pistache12StreamCursor4diffEm(u8* c, u64 other) { return ((u64)CC_SB(c)->gptr - (u64)CC_SB(c)->eback) - other; }
#endif
#endif
