/* More ghost models for sel-mode units (see ghost.h): std::optional<std::string>/<int>, std::ostream as a byte log,
 * std::map<std::string,std::string> as a small association array in insertion order (keys unique by byte comparison).
 * Layouts follow libstdc++: optional<T> = { T payload; bool engaged } so that code inlined from the unit agrees.          */
#ifndef VP_GHOST_MORE_H
#define VP_GHOST_MORE_H
#include "ghost.h"
#ifndef REAL
/* ---------------------------------------------------------------- optional<string> (40 bytes: string + engaged at 32) */
#define OS_ENG(o) (*(u8*)((o) + 32))
void _ZNSt8optionalINSt7__cxx1112basic_stringIcSt11char_traitsIcESaIcEEEEC2Ev(u8* o) { GS(o)->p = (u8*)""; GS(o)->len = 0; OS_ENG(o) = 0; }
void _ZNSt14_Optional_baseINSt7__cxx1112basic_stringIcSt11char_traitsIcESaIcEEELb0ELb0EED2Ev(u8* o) { (void)o; }
u8 _ZNKSt8optionalINSt7__cxx1112basic_stringIcSt11char_traitsIcESaIcEEEE9has_valueEv(u8* o) { return OS_ENG(o); }
u8* _ZNKSt19_Optional_base_implINSt7__cxx1112basic_stringIcSt11char_traitsIcESaIcEEESt14_Optional_baseIS5_Lb0ELb0EEE6_M_getEv(u8* o) {
  __CPROVER_assert(OS_ENG(o), "optional<string> dereferenced only when engaged"); return o; }
/* optional<string>::operator=(string&&) */
u8* _ZNSt8optionalINSt7__cxx1112basic_stringIcSt11char_traitsIcESaIcEEEEaSIS5_EENSt9enable_ifIX7__and_vISt6__not_ISt7is_sameIS6_NSt9remove_cvINSt16remove_referenceIT_E4typeEE4typeEEES9_ISt6__and_IJSt9is_scalarIS5_ESA_IS5_NSt5decayISD_E4typeEEEEESt16is_constructibleIS5_JSD_EESt13is_assignableIRS5_SD_EEERS6_E4typeEOSD_(u8* o, u8* s) {
  GS(o)->p = GS(s)->p; GS(o)->len = GS(s)->len; GS(s)->len = 0; OS_ENG(o) = 1; return o; }
/* ---------------------------------------------------------------- optional<int> (8 bytes: int + engaged at 4) */
void _ZNSt8optionalIiEC2Ev(u8* o) { *(u32*)o = 0; o[4] = 0; }
void _ZNSt8optionalIiEC2IiLb1EEEOT_(u8* o, u8* v) { *(u32*)o = *(u32*)v; o[4] = 1; }
u8 _ZNKSt8optionalIiE9has_valueEv(u8* o) { return o[4]; }
u8* _ZNKSt19_Optional_base_implIiSt14_Optional_baseIiLb1ELb1EEE6_M_getEv(u8* o) { __CPROVER_assert(o[4], "optional<int> dereferenced only when engaged"); return o; }
/* ---------------------------------------------------------------- std::ostream: append-only byte log */
#ifndef VP_OSMAX
#define VP_OSMAX 96
#endif
typedef struct { u8 log[VP_OSMAX]; u64 len; u64 cap; int failed; } gos_t;
static void gos_init(gos_t* o, u64 cap) { o->len = 0; o->cap = cap; o->failed = 0; }
static void gos_put(gos_t* o, u8* p, u64 n, u64 maxn) {
  if (o->failed) return;
  __CPROVER_assert(n <= maxn, "ghost ostream: a single insertion stays within the harness bound");
  for (u64 i = 0; i < maxn; i++) if (i < n) {
    if (o->len < o->cap && o->len < VP_OSMAX) { o->log[o->len] = p[i]; o->len++; } else { o->failed = 1; } } }
/* operator<<(ostream&, const char*) -- string literals of the unit (NUL-terminated, <= 24 bytes) */
u8* _ZStlsISt11char_traitsIcEERSt13basic_ostreamIcT_ES5_PKc(u8* os, u8* lit) { u64 n = 0; while (lit[n]) n++; gos_put((gos_t*)os, lit, n, 24); return os; }
/* operator<<(ostream&, const std::string&) */
#ifndef VP_OS_STRMAX
#define VP_OS_STRMAX 8
#endif
u8* _ZStlsIcSt11char_traitsIcESaIcEERSt13basic_ostreamIT_T0_ES7_RKNSt7__cxx1112basic_stringIS4_S5_T1_EE(u8* os, u8* s) { gos_put((gos_t*)os, GS(s)->p, GS(s)->len, VP_OS_STRMAX); return os; }
/* operator<<(ostream&, char) */
u8* _ZStlsISt11char_traitsIcEERSt13basic_ostreamIcT_ES5_c(u8* os, u8 c) { gos_put((gos_t*)os, &c, 1, 1); return os; }
/* ---------------------------------------------------------------- map<string,string> */
#ifndef VP_GMAP_CAP
#define VP_GMAP_CAP 3
#endif
typedef struct { gstr_t k; gstr_t v; } gpair_t;
typedef struct { gpair_t e[VP_GMAP_CAP + 1]; u64 n; } gmap_t;
#ifndef VP_GMAPS
#define VP_GMAPS 8
#endif
static gmap_t vp_gmaps[VP_GMAPS]; static int vp_gmaps_used;
#define GM(m) (&vp_gmaps[*(u64*)(m)])
static void gmap_new(u8* m) { __CPROVER_assert(vp_gmaps_used < VP_GMAPS, "ghost map table large enough"); *(u64*)m = (u64)vp_gmaps_used; vp_gmaps[vp_gmaps_used].n = 0; vp_gmaps_used++; }
static int gs_same(gstr_t* a, gstr_t* b, u64 maxn) { if (a->len != b->len) return 0; for (u64 i = 0; i < maxn; i++) if (i < a->len && a->p[i] != b->p[i]) return 0; return 1; }
#ifndef VP_GMAP_KEYMAX
#define VP_GMAP_KEYMAX 16
#endif
static void gmap_insert(gmap_t* g, gstr_t* k, gstr_t* v) {
  for (u64 i = 0; i < VP_GMAP_CAP; i++) if (i < g->n && gs_same(&g->e[i].k, k, VP_GMAP_KEYMAX)) return;   /* insert keeps the first value */
  __CPROVER_assert(g->n < VP_GMAP_CAP, "ghost map capacity (harness bound on distinct keys)");
  if (g->n < VP_GMAP_CAP) { g->e[g->n].k = *k; g->e[g->n].v = *v; g->n++; } }
void _ZNSt3mapINSt7__cxx1112basic_stringIcSt11char_traitsIcESaIcEEES5_St4lessIS5_ESaISt4pairIKS5_S5_EEEC2Ev(u8* m) { gmap_new(m); }
void _ZNSt3mapINSt7__cxx1112basic_stringIcSt11char_traitsIcESaIcEEES5_St4lessIS5_ESaISt4pairIKS5_S5_EEED2Ev(u8* m) { (void)m; }
u8 _ZNKSt3mapINSt7__cxx1112basic_stringIcSt11char_traitsIcESaIcEEES5_St4lessIS5_ESaISt4pairIKS5_S5_EEE5emptyEv(u8* m) { return GM(m)->n == 0; }
/* iterators are pointers to entries; end() is the entry after the last */
u8* _ZSt5beginISt3mapINSt7__cxx1112basic_stringIcSt11char_traitsIcESaIcEEES6_St4lessIS6_ESaISt4pairIKS6_S6_EEEEDTcldtfp_5beginEERKT_(u8* m) { return (u8*)&GM(m)->e[0]; }
u8* _ZSt3endISt3mapINSt7__cxx1112basic_stringIcSt11char_traitsIcESaIcEEES6_St4lessIS6_ESaISt4pairIKS6_S6_EEEEDTcldtfp_3endEERKT_(u8* m) { return (u8*)&GM(m)->e[GM(m)->n]; }
u8 _ZStneRKSt23_Rb_tree_const_iteratorISt4pairIKNSt7__cxx1112basic_stringIcSt11char_traitsIcESaIcEEES6_EESB_(u8* a, u8* b) { return *(u8**)a != *(u8**)b; }
u8* _ZNKSt23_Rb_tree_const_iteratorISt4pairIKNSt7__cxx1112basic_stringIcSt11char_traitsIcESaIcEEES6_EEptEv(u8* it) { return *(u8**)it; }
u8* _ZNSt23_Rb_tree_const_iteratorISt4pairIKNSt7__cxx1112basic_stringIcSt11char_traitsIcESaIcEEES6_EEppEv(u8* it) { *(u8**)it += sizeof(gpair_t); return it; }
/* make_pair(string&&, string&&) -> pair<string,string> (sret); pair dtor; map::insert(pair&&) (returns pair<iterator,bool> in regs: ignored by callers) */
void _ZSt9make_pairINSt7__cxx1112basic_stringIcSt11char_traitsIcESaIcEEES5_ESt4pairINSt25__strip_reference_wrapperINSt5decayIT_E4typeEE6__typeENS7_INS8_IT0_E4typeEE6__typeEEOS9_OSE_(u8* ret, u8* a, u8* b) {
  gpair_t* p = (gpair_t*)ret; p->k = *GS(a); p->v = *GS(b); GS(a)->len = 0; GS(b)->len = 0; }
void _ZNSt4pairINSt7__cxx1112basic_stringIcSt11char_traitsIcESaIcEEES5_ED2Ev(u8* p) { (void)p; }
void _ZNSt4pairINSt7__cxx1112basic_stringIcSt11char_traitsIcESaIcEEES5_EC2IS5_S5_Lb1EEEOT_OT0_(u8* pr, u8* a, u8* b) { gpair_t* p = (gpair_t*)pr; p->k = *GS(a); p->v = *GS(b); GS(a)->len = 0; GS(b)->len = 0; }   /* pair(string&&, string&&) */
void _ZNSt4pairINSt7__cxx1112basic_stringIcSt11char_traitsIcESaIcEEES5_EC2IRS5_S9_Lb1EEEOT_OT0_(u8* pr, u8* a, u8* b) { gpair_t* p = (gpair_t*)pr; p->k = *GS(a); p->v = *GS(b); }
agg16_8 _ZNSt3mapINSt7__cxx1112basic_stringIcSt11char_traitsIcESaIcEEES5_St4lessIS5_ESaISt4pairIKS5_S5_EEE6insertIS8_IS5_S5_EEENSt9enable_ifIXsr16is_constructibleISA_T_EE5valueES8_ISt17_Rb_tree_iteratorISA_EbEE4typeEOSG_(u8* m, u8* pr) { agg16_8 r = { { 0 } }; gpair_t* p = (gpair_t*)pr; gmap_insert(GM(m), &p->k, &p->v); return r; }
#endif
/* ======================================================================================================================
 * Owned ghost strings (opt-in per harness with VP_GS_ARENA): string building (reserve, +=, +) copies into a bump arena, so a
 * ghost string may outlive the bytes it was built from.  Plain construction from (ptr,len) still aliases (ghost.h).       */
#if !defined(REAL) && defined(VP_GS_ARENA)
#ifndef VP_GS_APPMAX
#define VP_GS_APPMAX 24
#endif
static u8 gs_arena[VP_GS_ARENA]; static u64 gs_arena_used;
static u8* gs_alloc(u64 n) { __CPROVER_assert(gs_arena_used + n <= VP_GS_ARENA, "ghost string arena large enough (harness bound)"); u8* p = gs_arena + gs_arena_used; gs_arena_used += n; return p; }
/* s := s ++ p[0..n) ; when s already ends at the arena top it grows in place */
static void gs_append(u8* s, u8* p, u64 n) {
  __CPROVER_assert(n <= VP_GS_APPMAX, "ghost string append within the harness bound VP_GS_APPMAX");
  gstr_t* g = GS(s);
  if (!(g->len > 0 && g->p + g->len == gs_arena + gs_arena_used)) {
    __CPROVER_assert(g->len <= VP_GS_APPMAX, "ghost string re-homing within the harness bound");
    u8* np = gs_alloc(g->len); for (u64 i = 0; i < VP_GS_APPMAX; i++) if (i < g->len) np[i] = g->p[i]; g->p = np; }
  u8* t = gs_alloc(n); for (u64 i = 0; i < VP_GS_APPMAX; i++) if (i < n) t[i] = p[i];
  g->len += n; }
void _ZNSt7__cxx1112basic_stringIcSt11char_traitsIcESaIcEE7reserveEm(u8* s, u64 n) { (void)s; (void)n; }
u8* _ZNSt7__cxx1112basic_stringIcSt11char_traitsIcESaIcEEpLEPKc(u8* s, u8* lit) { u64 n = 0; while (lit[n]) n++; gs_append(s, lit, n); return s; }
u8* _ZNSt7__cxx1112basic_stringIcSt11char_traitsIcESaIcEEpLERKS4_(u8* s, u8* o) { gs_append(s, GS(o)->p, GS(o)->len); return s; }
/* operator+(const string&, const char*) and operator+(string&&, const string&): sret */
void _ZStplIcSt11char_traitsIcESaIcEENSt7__cxx1112basic_stringIT_T0_T1_EERKS8_PKS5_(u8* ret, u8* a, u8* lit) { GS(ret)->p = (u8*)""; GS(ret)->len = 0; gs_append(ret, GS(a)->p, GS(a)->len); u64 n = 0; while (lit[n]) n++; gs_append(ret, lit, n); }
void _ZStplIcSt11char_traitsIcESaIcEENSt7__cxx1112basic_stringIT_T0_T1_EEOS8_RKS8_(u8* ret, u8* a, u8* b) { GS(ret)->p = GS(a)->p; GS(ret)->len = GS(a)->len; GS(a)->len = 0; gs_append(ret, GS(b)->p, GS(b)->len); }
/* a NUL-terminated source that may die (local char buffer): copied */
/* short NUL-terminated sources (<= VP_GS_CSTRCOPY bytes: local char buffers such as Q::toString's) are copied; longer ones are the
 * unit's string literals (error messages) and are aliased -- reading an aliased dead local would be reported by CBMC */
#ifndef VP_GS_CSTRCOPY
#define VP_GS_CSTRCOPY 8
#endif
static void gs_from_cstr_copy(u8* s, u8* p) {
  u64 n = 0; for (u64 i = 0; i <= VP_GS_CSTRCOPY; i++) if (n == i && p[i]) n++;
  if (n > VP_GS_CSTRCOPY) { while (p[n]) n++; GS(s)->p = p; GS(s)->len = n; return; }
  GS(s)->p = (u8*)""; GS(s)->len = 0; gs_append(s, p, n); }
void _ZNSt7__cxx1112basic_stringIcSt11char_traitsIcESaIcEEC2IS3_EEPKcRKS3_(u8* s, u8* p, u8* a) { (void)a; gs_from_cstr_copy(s, p); }
#endif
/* ---------------------------------------------------------------- unordered_map<string,string> on the same association array */
#ifndef REAL
void _ZNSt13unordered_mapINSt7__cxx1112basic_stringIcSt11char_traitsIcESaIcEEES5_St4hashIS5_ESt8equal_toIS5_ESaISt4pairIKS5_S5_EEEC2Ev(u8* m) { gmap_new(m); }
void _ZNSt13unordered_mapINSt7__cxx1112basic_stringIcSt11char_traitsIcESaIcEEES5_St4hashIS5_ESt8equal_toIS5_ESaISt4pairIKS5_S5_EEED2Ev(u8* m) { (void)m; }
u8* _ZNKSt13unordered_mapINSt7__cxx1112basic_stringIcSt11char_traitsIcESaIcEEES5_St4hashIS5_ESt8equal_toIS5_ESaISt4pairIKS5_S5_EEE5beginEv(u8* m) { return (u8*)&GM(m)->e[0]; }
u8* _ZNKSt13unordered_mapINSt7__cxx1112basic_stringIcSt11char_traitsIcESaIcEEES5_St4hashIS5_ESt8equal_toIS5_ESaISt4pairIKS5_S5_EEE3endEv(u8* m) { return (u8*)&GM(m)->e[GM(m)->n]; }
u8* _ZNKSt8__detail20_Node_const_iteratorISt4pairIKNSt7__cxx1112basic_stringIcSt11char_traitsIcESaIcEEES7_ELb0ELb1EEdeEv(u8* it) { return *(u8**)it; }
u8* _ZNSt8__detail20_Node_const_iteratorISt4pairIKNSt7__cxx1112basic_stringIcSt11char_traitsIcESaIcEEES7_ELb0ELb1EEppEv(u8* it) { *(u8**)it += sizeof(gpair_t); return it; }
u8 _ZNSt8__detailneERKNS_19_Node_iterator_baseISt4pairIKNSt7__cxx1112basic_stringIcSt11char_traitsIcESaIcEEES7_ELb1EEESC_(u8* a, u8* b) { return *(u8**)a != *(u8**)b; }
agg16_8 _ZNSt13unordered_mapINSt7__cxx1112basic_stringIcSt11char_traitsIcESaIcEEES5_St4hashIS5_ESt8equal_toIS5_ESaISt4pairIKS5_S5_EEE6insertISA_IS5_S5_EEENSt9enable_ifIXsr16is_constructibleISC_OT_EE5valueESA_INSt8__detail14_Node_iteratorISC_Lb0ELb1EEEbEE4typeESJ_(u8* m, u8* pr) {
  agg16_8 r = { { 0 } }; gpair_t* p = (gpair_t*)pr; gmap_insert(GM(m), &p->k, &p->v); return r; }
#endif
#endif
