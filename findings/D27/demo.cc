// D27 demo: ResponseStream << integer announces a chunk size that is not the number of bytes written (digitsCount stops at the first zero digit, ignores the sign, counts 0 as zero digits; the value is then printed in hex)
#include <pistache/endpoint.h>
#include <pistache/http.h>
#include <sys/socket.h>
#include <netinet/in.h>
#include <arpa/inet.h>
#include <unistd.h>
#include <iostream>
#include <thread>
using namespace Pistache;
struct H : Http::Handler { HTTP_PROTOTYPE(H)
  void onRequest(const Http::Request&, Http::ResponseWriter w) override {
    auto s = w.stream(Http::Code::Ok);
    s << 7 << 100 << 255 << -5;      // four chunks: "7", "100", "255", "-5"
    s << Http::ends;
  } };
// independent decoder of a chunked body (RFC 7230 4.1, no extensions, no trailers); returns false if the framing is broken
static bool dechunk(const std::string& b, std::string& out) {
  size_t p = 0;
  for (;;) {
    size_t e = b.find("\r\n", p); if (e == std::string::npos || e == p) return false;
    size_t n = 0; for (size_t k = p; k < e; k++) { char c = b[k]; int d = c >= '0' && c <= '9' ? c - '0' : c >= 'a' && c <= 'f' ? c - 'a' + 10 : c >= 'A' && c <= 'F' ? c - 'A' + 10 : -1; if (d < 0) return false; n = n * 16 + d; }
    p = e + 2;
    if (n == 0) return b.compare(p, std::string::npos, "\r\n") == 0;
    if (p + n + 2 > b.size() || b.compare(p + n, 2, "\r\n") != 0) return false;
    out.append(b, p, n); p += n + 2; } }
int main() {
  Http::Endpoint server(Address(Ipv4::loopback(), Port(0)));
  server.init(Http::Endpoint::options().threads(1).flags(Tcp::Options::ReuseAddr));
  server.setHandler(Http::make_handler<H>()); server.serveThreaded();
  int fd = socket(AF_INET, SOCK_STREAM, 0); sockaddr_in a{}; a.sin_family = AF_INET; a.sin_port = htons(server.getPort()); a.sin_addr.s_addr = htonl(INADDR_LOOPBACK);
  connect(fd, (sockaddr*)&a, sizeof a); const char* rq = "GET / HTTP/1.1\r\nHost: x\r\n\r\n"; send(fd, rq, strlen(rq), 0);
  std::string data; char buf[4096]; timeval tv{1, 0}; setsockopt(fd, SOL_SOCKET, SO_RCVTIMEO, &tv, sizeof tv);
  for (;;) { ssize_t n = recv(fd, buf, sizeof buf, 0); if (n <= 0) break; data.append(buf, n); }
  close(fd); server.shutdown();
  size_t h = data.find("\r\n\r\n"); std::string body = h == std::string::npos ? "" : data.substr(h + 4), decoded;
  bool framed = dechunk(body, decoded);
  std::cout << "--- body as received ---\n" << body << "\n--- chunk framing valid: " << framed << ", decoded: '" << decoded << "' (the data written: '7100255-5')\n";
  bool bad = !framed || decoded != "7100255-5";
  std::cout << (bad ? "FAIL: the decoded chunks are not the data written\n" : "ok\n");
  return bad; }
