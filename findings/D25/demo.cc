// D25 demo: a streamed response whose header block does not fit into the maximum response size: the ResponseStream constructor does not throw and a head without Transfer-Encoding / blank line goes out, followed by chunks
#include <pistache/endpoint.h>
#include <pistache/http.h>
#include <sys/socket.h>
#include <netinet/in.h>
#include <arpa/inet.h>
#include <unistd.h>
#include <iostream>
#include <thread>
using namespace Pistache;
struct H : Http::Handler { HTTP_PROTOTYPE(H)
  void onRequest(const Http::Request&, Http::ResponseWriter w) override {
    w.headers().add<Http::Header::Server>(std::string(200, 's'));   // this header line does not fit into maxResponseSize = 128
    try {
      auto s = w.stream(Http::Code::Ok);                            // head: status line fits, the Server header does not
      threw = false;
      s.flush();                                                    // send the head early (as an event-stream handler does)
      try { s.write("abc", 3); s.flush(); s.ends(); } catch (const std::exception& e) { std::cerr << "later write: " << e.what() << "\n"; }
    } catch (const std::exception& e) { threw = true; std::cerr << "stream(): " << e.what() << "\n"; }
  }
  static bool threw; };
bool H::threw = false;
int main() {
  Http::Endpoint server(Address(Ipv4::loopback(), Port(0)));
  server.init(Http::Endpoint::options().threads(1).maxResponseSize(128).flags(Tcp::Options::ReuseAddr));
  server.setHandler(Http::make_handler<H>()); server.serveThreaded();
  int fd = socket(AF_INET, SOCK_STREAM, 0); sockaddr_in a{}; a.sin_family = AF_INET; a.sin_port = htons(server.getPort()); a.sin_addr.s_addr = htonl(INADDR_LOOPBACK);
  connect(fd, (sockaddr*)&a, sizeof a); const char* rq = "GET / HTTP/1.1\r\nHost: x\r\n\r\n"; send(fd, rq, strlen(rq), 0);
  std::string data; char buf[4096]; timeval tv{1, 0}; setsockopt(fd, SOL_SOCKET, SO_RCVTIMEO, &tv, sizeof tv);
  for (;;) { ssize_t n = recv(fd, buf, sizeof buf, 0); if (n <= 0) break; data.append(buf, n); }
  close(fd); server.shutdown();
  bool blank = data.find("\r\n\r\n") != std::string::npos, te = data.find("Transfer-Encoding: chunked") != std::string::npos;
  std::cout << "stream() threw: " << H::threw << "; bytes received: " << data.size() << "; has Transfer-Encoding: " << te << "; has the blank line that ends the head before the first chunk: " << (data.find("\r\n\r\n3\r\nabc") != std::string::npos) << "\n";
  std::cout << "--- received ---\n" << data << "\n---\n";
  bool bad = !H::threw && !data.empty() && !(te && blank && data.find("\r\n\r\n3\r\nabc") != std::string::npos);
  std::cout << (bad ? "FAIL: a streamed response with a cut head was emitted\n" : "ok\n");
  return bad; }
