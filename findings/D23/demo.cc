// D23 demo: a chunk that does not fit into the maximum response size is cut silently; after a flush the stream still ends "successfully"
#include <pistache/endpoint.h>
#include <pistache/http.h>
#include <sys/socket.h>
#include <netinet/in.h>
#include <arpa/inet.h>
#include <unistd.h>
#include <iostream>
#include <thread>
using namespace Pistache;
struct H : Http::Handler { HTTP_PROTOTYPE(H)
  void onRequest(const Http::Request&, Http::ResponseWriter w) override {
    auto s = w.stream(Http::Code::Ok);
    std::string big(300, 'x');
    s.write(big.data(), big.size());    // does not fit into maxResponseSize = 128
    s.flush();
    try { s.ends(); ended = true; } catch (const std::exception& e) { ended = false; }
  }
  static bool ended; };
bool H::ended = false;
int main() {
  Http::Endpoint server(Address(Ipv4::loopback(), Port(0)));
  server.init(Http::Endpoint::options().threads(1).maxResponseSize(128).flags(Tcp::Options::ReuseAddr));
  server.setHandler(Http::make_handler<H>()); server.serveThreaded();
  int fd = socket(AF_INET, SOCK_STREAM, 0); sockaddr_in a{}; a.sin_family = AF_INET; a.sin_port = htons(server.getPort()); a.sin_addr.s_addr = htonl(INADDR_LOOPBACK);
  connect(fd, (sockaddr*)&a, sizeof a); const char* rq = "GET / HTTP/1.1\r\nHost: x\r\n\r\n"; send(fd, rq, strlen(rq), 0);
  std::string data; char buf[4096]; timeval tv{1, 0}; setsockopt(fd, SOL_SOCKET, SO_RCVTIMEO, &tv, sizeof tv);
  for (;;) { ssize_t n = recv(fd, buf, sizeof buf, 0); if (n <= 0) break; data.append(buf, n); }
  close(fd); server.shutdown();
  size_t xs = 0; for (char c : data) xs += c == 'x';
  std::cout << "ends() succeeded: " << H::ended << "; chunk header says 0x12c = 300 bytes, body bytes received: " << xs << "\n";
  bool bad = H::ended && xs != 300;
  std::cout << (bad ? "FAIL: a truncated chunk was sent and the stream ended as if complete\n" : "ok\n");
  return bad; }
