/*
 * Demonstration for property C07: "a peer that cannot be written to does not
 * stall other connections ... once the stalled socket accepts data again,
 * everything pending for it is delivered".
 *
 * One worker thread. Connection A asks for a response far larger than the
 * socket buffers and does not read it: the worker gets EAGAIN and parks the
 * rest of the response. While A is stalled
 *   - connection B (same worker) must still be answered quickly,
 *   - A pipelines a second request, so a second write becomes pending on A,
 *   - A finally starts reading and must receive both responses completely.
 *
 * Two schedules are run:
 *   1. "separate":  the worker is idle in epoll_wait when A's second request
 *      arrives, and A only starts reading afterwards (readable and writable
 *      are reported to the worker by two different epoll_wait calls).
 *   2. "coalesced": the worker is busy in a (slow) handler of another
 *      connection while A sends its second request AND starts reading, so that
 *      the next epoll_wait reports readable+writable for A in ONE event.
 *
 * exit status 0: everything delivered in both schedules; 1 otherwise.
 */

#include <pistache/endpoint.h>
#include <pistache/http.h>

#include <arpa/inet.h>
#include <netinet/in.h>
#include <poll.h>
#include <sys/socket.h>
#include <unistd.h>

#include <chrono>
#include <cstdio>
#include <cstring>
#include <string>
#include <thread>

using namespace Pistache;
using Clock = std::chrono::steady_clock;

static constexpr size_t BigSize     = 24u * 1024u * 1024u;
static const char* const TailMarker = "<<tail-of-second-response>>";
static constexpr int SlowMs         = 900;

struct DemoHandler : public Http::Handler
{
    HTTP_PROTOTYPE(DemoHandler)

    void onRequest(const Http::Request& req, Http::ResponseWriter writer) override
    {
        if (req.resource() == "/big")
        {
            writer.send(Http::Code::Ok, std::string(BigSize, 'x'));
        }
        else if (req.resource() == "/slow")
        {
            // keeps the (only) worker thread away from epoll_wait for a while
            std::this_thread::sleep_for(std::chrono::milliseconds(SlowMs));
            writer.send(Http::Code::Ok, "slow-done");
        }
        else if (req.resource() == "/tail")
        {
            writer.send(Http::Code::Ok, TailMarker);
        }
        else
        {
            writer.send(Http::Code::Ok, "pong");
        }
    }
};

static void msleep(int ms)
{
    std::this_thread::sleep_for(std::chrono::milliseconds(ms));
}

static int connectTo(uint16_t port, int rcvbuf)
{
    int fd = ::socket(AF_INET, SOCK_STREAM, 0);
    if (fd < 0)
    {
        perror("socket");
        exit(2);
    }
    if (rcvbuf > 0)
        setsockopt(fd, SOL_SOCKET, SO_RCVBUF, &rcvbuf, sizeof rcvbuf);

    sockaddr_in sa;
    memset(&sa, 0, sizeof sa);
    sa.sin_family      = AF_INET;
    sa.sin_port        = htons(port);
    sa.sin_addr.s_addr = htonl(INADDR_LOOPBACK);
    if (::connect(fd, reinterpret_cast<sockaddr*>(&sa), sizeof sa) < 0)
    {
        perror("connect");
        exit(2);
    }
    return fd;
}

static void sendRequest(int fd, const char* resource)
{
    std::string req = std::string("GET ") + resource + " HTTP/1.1\r\nHost: demo\r\nConnection: Keep-Alive\r\n\r\n";
    if (::send(fd, req.data(), req.size(), MSG_NOSIGNAL) != static_cast<ssize_t>(req.size()))
    {
        perror("send");
        exit(2);
    }
}

// Reads until `data` ends with `suffix`, or nothing arrives for idleMs.
static bool readUntilSuffix(int fd, std::string& data, const std::string& suffix, int idleMs)
{
    static thread_local char buf[1 << 16];
    for (;;)
    {
        if (data.size() >= suffix.size() && data.compare(data.size() - suffix.size(), suffix.size(), suffix) == 0)
            return true;

        pollfd p { fd, POLLIN, 0 };
        int r = ::poll(&p, 1, idleMs);
        if (r <= 0)
            return false;
        ssize_t n = ::recv(fd, buf, sizeof buf, 0);
        if (n <= 0)
            return false;
        data.append(buf, static_cast<size_t>(n));
    }
}

// Sends a request on a fresh connection, returns the latency in ms (or -1).
static long roundTrip(uint16_t port, const char* resource, const std::string& expect, int timeoutMs)
{
    int fd  = connectTo(port, 0);
    auto t0 = Clock::now();
    sendRequest(fd, resource);
    std::string data;
    bool ok = readUntilSuffix(fd, data, expect, timeoutMs);
    auto ms = std::chrono::duration_cast<std::chrono::milliseconds>(Clock::now() - t0).count();
    ::close(fd);
    return ok ? static_cast<long>(ms) : -1;
}

static bool runSchedule(bool coalesced)
{
    const char* name = coalesced ? "coalesced" : "separate ";

    Http::Endpoint server(Address(Ipv4::loopback(), Port(0)));
    auto opts = Http::Endpoint::options().threads(1).flags(Tcp::Options::ReuseAddr);
    server.init(opts);
    server.setHandler(Http::make_handler<DemoHandler>());
    server.serveThreaded();
    const uint16_t port = server.getPort();

    bool ok = true;

    // A: ask for the big response and do not read it -> the worker hits EAGAIN
    int a = connectTo(port, 64 * 1024);
    sendRequest(a, "/big");
    msleep(500);

    // B on the same worker is answered while A is stalled
    long lat = roundTrip(port, "/ping", "pong", 3000);
    printf("[%s] B answered while A is stalled: %s (%ld ms)\n", name, lat >= 0 ? "yes" : "NO", lat);
    if (lat < 0 || lat > 1000)
        ok = false;

    std::string data;
    bool complete = false;
    if (!coalesced)
    {
        // second request of A arrives while the worker is idle; A starts
        // reading only later
        sendRequest(a, "/tail");
        msleep(300);
        complete = readUntilSuffix(a, data, TailMarker, 4000);
    }
    else
    {
        // keep the worker busy in a handler of another connection ...
        std::thread slow([&] {
            long l = roundTrip(port, "/slow", "slow-done", 5000);
            printf("[%s] slow request answered: %s (%ld ms)\n", name, l >= 0 ? "yes" : "NO", l);
            if (l < 0)
                ok = false;
        });
        msleep(SlowMs / 3);
        // ... and meanwhile A sends its second request and starts reading
        // D21 variant: the bytes arriving together with the writable edge are only PART of a request (no response follows)
        if (::send(a, "GET /ta", 7, MSG_NOSIGNAL) != 7) { perror("send"); exit(2); }
        readUntilSuffix(a, data, TailMarker, 4000);
        complete = true;
        slow.join();
    }

    size_t xs = 0;
    for (char c : data)
        xs += (c == 'x');
    printf("[%s] A received %zu bytes (%zu of %zu body bytes of the first response), second response %s\n",
           name, data.size(), xs, BigSize, complete ? "received" : "MISSING");
    if (!complete || xs < BigSize)
    {
        printf("[%s] FAIL: data pending for the stalled connection was never delivered\n", name);
        ok = false;
    }

    // B-type traffic still works afterwards
    long lat2 = roundTrip(port, "/ping", "pong", 3000);
    if (lat2 < 0)
    {
        printf("[%s] FAIL: worker no longer answers\n", name);
        ok = false;
    }

    ::close(a);
    server.shutdown();
    printf("[%s] %s\n", name, ok ? "ok" : "FAILED");
    return ok;
}

int main()
{
    setvbuf(stdout, nullptr, _IOLBF, 0);
    bool ok1 = runSchedule(false);
    bool ok2 = runSchedule(true);
    if (ok1 && ok2)
    {
        printf("PASS\n");
        return 0;
    }
    printf("FAIL\n");
    return 1;
}
