/* Cursor primitives of src/common/stream.cc (inl mode): memory safety on an exact-size receive buffer, termination,
 * and the functional contract each parser step relies on.  Buffer: n <= N symbolic bytes in a heap block of exactly n
 * bytes, cursor at symbolic pos <= n (= "pos bytes consumed, n delivered so far").                               */
#include "vp.h"
#include "libc.h"
#include "str_real.h"
u8 _ZN8Pistache12StreamCursor7advanceEm(u8*, u64);
u8 _ZNK8Pistache12StreamCursor3eolEv(u8*);
u32 _ZNK8Pistache12StreamCursor4nextEv(u8*);
u8 _ZNK8Pistache12StreamCursor3eofEv(u8*);
u8 _ZNK8Pistache12StreamCursor7currentEv(u8*);
u64 _ZNK8Pistache12StreamCursor9remainingEv(u8*);
u8* _ZNK8Pistache12StreamCursor6offsetEv(u8*); u8* _ZNK8Pistache12StreamCursor6offsetEm(u8*, u64); u64 _ZNK8Pistache12StreamCursor4diffEm(u8*, u64);
u8 _ZN8Pistache9match_rawEPKvmRNS_12StreamCursorE(u8*, u64, u8*);
u8 _ZN8Pistache12match_stringEPKcmRNS_12StreamCursorENS_15CaseSensitivityE(u8*, u64, u8*, u32);
u8 _ZN8Pistache13match_literalEcRNS_12StreamCursorENS_15CaseSensitivityE(u8, u8*, u32);
u8 _ZN8Pistache11match_untilESt16initializer_listIcERNS_12StreamCursorENS_15CaseSensitivityE(u8*, u64, u8*, u32);
u8 _ZN8Pistache12match_doubleEPdRNS_12StreamCursorE(u8*, u8*);
void _ZN8Pistache16skip_whitespacesERNS_12StreamCursorE(u8*);
void _ZN8Pistache12StreamCursor5resetEv(u8*);
#ifndef N
#define N 6
#endif
#ifndef PATMAX
#define PATMAX 4
#endif
static u8 lc(u8 c) { return (c >= 'A' && c <= 'Z') ? c + 32 : c; }
int main(void) {
#ifndef REAL
  __ir_init_globals();
#endif
  VP_IN(u64, n, "n"); __CPROVER_assume(n <= N);
  VP_BYTES(b, n, N, "b");
  VP_IN(u64, pos, "pos"); __CPROVER_assume(pos <= n);
  sb_t sb; vp_sb_init(&sb, b, pos, n);
  cursor_t c = { &sb };
  u64 avail = n - pos;
#define INVARIANT() __CPROVER_assert(sb.eback == b && sb.egptr == b + n && (u64)sb.gptr >= (u64)(b + pos) && (u64)sb.gptr <= (u64)(b + n), "cursor stays inside the delivered bytes and never moves backwards")
#define CUR() ((u64)sb.gptr - (u64)b)
#if defined(H_EOL)
  u8 r = _ZNK8Pistache12StreamCursor3eolEv((u8*)&c);
  VP_OBS("r", r);
  INVARIANT();
  __CPROVER_assert(CUR() == pos, "eol does not move the cursor");
  __CPROVER_assert((r != 0) == (avail >= 2 && b[pos] == 13 && b[pos + 1] == 10), "eol() is true iff CR LF are both among the delivered bytes at the cursor");
#elif defined(H_NEXT)
  u32 r = _ZNK8Pistache12StreamCursor4nextEv((u8*)&c);
  VP_OBS("r", (i32)r);
  INVARIANT();
  if (avail >= 2) __CPROVER_assert(r == (u32)(i32)(i8)b[pos + 1], "next() is the byte after the current one");
  else __CPROVER_assert(r == (u32)-1, "next() is Eof when fewer than two bytes are available");
#elif defined(H_ADVANCE)
  VP_IN(u64, cnt, "cnt"); __CPROVER_assume(cnt < ((u64)1 << 63));  /* callers never pass a count >= 2^63: asserted at every call site in the step harnesses */
  u8 r = _ZN8Pistache12StreamCursor7advanceEm((u8*)&c, cnt);
  VP_OBS("r", r); VP_OBS("cur", CUR());
  INVARIANT();
  __CPROVER_assert((r != 0) == (cnt <= avail), "advance(count) succeeds iff count <= available");
  __CPROVER_assert(CUR() == (r ? pos + cnt : pos), "advance moves by exactly count, or not at all");
#elif defined(H_BASIC)
  u8 e = _ZNK8Pistache12StreamCursor3eofEv((u8*)&c);
  u64 rem = _ZNK8Pistache12StreamCursor9remainingEv((u8*)&c);
  VP_OBS("e", e); VP_OBS("rem", rem);
  __CPROVER_assert((e != 0) == (avail == 0) && rem == avail, "eof()/remaining() reflect the delivered bytes");
  { u8 cu = _ZNK8Pistache12StreamCursor7currentEv((u8*)&c); VP_OBS("cu", cu); __CPROVER_assert(cu == (avail > 0 ? b[pos] : (u8)0xff), "current() is the byte at the cursor, or (char)EOF when nothing is available"); }
  __CPROVER_assert(_ZNK8Pistache12StreamCursor6offsetEv((u8*)&c) == b + pos && _ZNK8Pistache12StreamCursor6offsetEm((u8*)&c, pos) == b + pos && _ZNK8Pistache12StreamCursor4diffEm((u8*)&c, 0) == pos, "offset()/offset(n)/diff(n) are plain pointer arithmetic on the get area");
  INVARIANT();
#elif defined(H_RESET)
  _ZN8Pistache12StreamCursor5resetEv((u8*)&c);
  VP_OBS("z", sb.eback == 0);
  __CPROVER_assert(sb.eback == 0 && sb.gptr == 0 && sb.egptr == 0, "StreamCursor::reset() empties the get area");
#elif defined(H_RAW) || defined(H_STRING)
  VP_IN(u64, m, "m"); __CPROVER_assume(m <= PATMAX);
  u8 pat[PATMAX + 1]; for (int i = 0; i < PATMAX; i++) { VP_SET(u8, pat[i], "pat"); } pat[PATMAX] = 0;
#ifdef H_STRING
  for (u64 i = 0; i < PATMAX; i++) if (i < m) __CPROVER_assume(pat[i] != 0);   /* literals passed by callers contain no NUL */
  VP_IN(u32, cs, "cs"); __CPROVER_assume(cs <= 1);
  u8 r = _ZN8Pistache12match_stringEPKcmRNS_12StreamCursorENS_15CaseSensitivityE(pat, m, (u8*)&c, cs);
#else
  u32 cs = 0;
  u8 r = _ZN8Pistache9match_rawEPKvmRNS_12StreamCursorE(pat, m, (u8*)&c);
#endif
  VP_OBS("r", r); VP_OBS("cur", CUR());
  INVARIANT();
  int eq = m <= avail;
  for (u64 i = 0; i < PATMAX; i++) if (eq && i < m) { if (cs == 0 ? b[pos + i] != pat[i] : lc(b[pos + i]) != lc(pat[i])) eq = 0; }
#ifdef H_STRING
  /* case-sensitive comparison of match_string is strncmp: a NUL in the buffer equal to... cannot match a NUL-free literal */
#endif
  __CPROVER_assert((r != 0) == (eq != 0), "match succeeds iff the pattern is a prefix of the available bytes (under the case rule)");
  __CPROVER_assert(CUR() == (r ? pos + m : pos), "match consumes the pattern on success and nothing on failure");
#elif defined(H_LITERAL)
  VP_IN(u8, ch, "ch"); VP_IN(u32, cs, "cs"); __CPROVER_assume(cs <= 1);
  u8 r = _ZN8Pistache13match_literalEcRNS_12StreamCursorENS_15CaseSensitivityE(ch, (u8*)&c, cs);
  VP_OBS("r", r); VP_OBS("cur", CUR());
  INVARIANT();
  int eq = avail >= 1 && (cs == 0 ? b[pos] == ch : lc(b[pos]) == lc(ch));
  __CPROVER_assert((r != 0) == eq && CUR() == (r ? pos + 1 : pos), "match_literal consumes one matching byte or nothing");
#elif defined(H_UNTIL)
  u8 set[3]; VP_SET(u8, set[0], "set"); VP_SET(u8, set[1], "set"); VP_SET(u8, set[2], "set");
  VP_IN(u64, ns, "ns"); __CPROVER_assume(ns >= 1 && ns <= 3);
  u8 r = _ZN8Pistache11match_untilESt16initializer_listIcERNS_12StreamCursorENS_15CaseSensitivityE(set, ns, (u8*)&c, 1 /* Insensitive: the default every parser step uses */);
  VP_OBS("r", r); VP_OBS("cur", CUR());
  INVARIANT();
  /* as implemented for Insensitive: the delimiter is lower-cased, the input byte is not (delimiters used by the parser are not letters) */
  u64 k = pos; while (k < n && !(b[k] == lc(set[0]) || (ns >= 2 && b[k] == lc(set[1])) || (ns >= 3 && b[k] == lc(set[2])))) k++;
  __CPROVER_assert((r != 0) == (k < n), "match_until succeeds iff a delimiter is among the delivered bytes");
  __CPROVER_assert(CUR() == k, "match_until stops at the first delimiter (or at the end of the delivered bytes)");
#elif defined(H_SKIPWS)
  _ZN8Pistache16skip_whitespacesERNS_12StreamCursorE((u8*)&c);
  VP_OBS("cur", CUR());
  INVARIANT();
  u64 k = pos; while (k < n && (b[k] == ' ' || b[k] == '\t')) k++;
  __CPROVER_assert(CUR() == k, "skip_whitespaces stops at the first non-blank delivered byte");
#elif defined(H_DOUBLE)
  /* any exact-size buffer that is NOT NUL-terminated: strtod must never look beyond the delivered bytes */
  double val;
  u8 r = _ZN8Pistache12match_doubleEPdRNS_12StreamCursorE((u8*)&val, (u8*)&c);
  VP_OBS("r", r); VP_OBS("cur", CUR());
  INVARIANT();
  __CPROVER_assert(r || CUR() == pos, "match_double consumes nothing when there is no numeral");
#ifndef REAL
  /* functional contract used by the step-level harnesses (models/cursor_contract.h): strtod on a NUL-terminated COPY of the
   * remaining bytes decides how far the cursor moves */
  { u8 tmp[N + 1]; for (u64 i = 0; i < N; i++) tmp[i] = (pos + i < n) ? b[pos + i] : 0; tmp[N] = 0; u8* e_ = 0; (void)x_strtod(tmp, (u8*)&e_);
    __CPROVER_assert((r != 0) == (e_ != tmp), "match_double succeeds iff strtod finds a numeral at the start of the remaining bytes");
    __CPROVER_assert(CUR() == pos + (r ? (u64)(e_ - tmp) : 0), "match_double consumes exactly the numeral"); }
#endif
#endif
  VP_END("witness: end of harness reached");
  return 0;
}
