// C05 kernels: instantiates the ResponseStream insertion operator template of include/pistache/http.h (one chunk per insertion)
// for the integral types and for C strings.
#include <pistache/http.h>
using namespace Pistache::Http;
extern "C" {
void c05_ins_int(ResponseStream* s, const int* v) { *s << *v; }
void c05_ins_uint(ResponseStream* s, const unsigned* v) { *s << *v; }
void c05_ins_short(ResponseStream* s, const int16_t* v) { *s << *v; }
void c05_ins_long(ResponseStream* s, const int64_t* v) { *s << *v; }
void c05_ins_cstr(ResponseStream* s, const char* const* v) { *s << *v; }
void c05_ins_bool(ResponseStream* s, const bool* v) { *s << *v; }
void c05_ins_arr(ResponseStream* s, const char (*v)[4]) { *s << *v; }
void c05_ins_u8(ResponseStream* s, const uint8_t* v) { *s << *v; }
}
