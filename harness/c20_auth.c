/* C20(c): Basic credentials through the Authorization header (src/common/http_header.cc, sel mode, ghost strings with an arena).
 * Base64Encoder::EncodeString and Base64Decoder::Decode are an abstract inverse pair here (that they ARE inverse of each other is
 * what the codec harnesses of this property prove): encoding yields an opaque text of arbitrary length and content, decoding exactly
 * that text yields the bytes that were encoded.  For every user of 0..UL bytes without ':' and every password of 0..PL arbitrary
 * bytes (colons included): after setBasicUserPassword(user, password), getBasicUser() returns exactly the user and
 * getBasicPassword() exactly the password; the header value is "Basic " followed by the encoded text; a user containing ':' is
 * refused with std::runtime_error.                                                                                               */
#define VP_GS_ARENA 200
#define VP_GS_APPMAX 24
#include "vp.h"
#include "libc.h"
#include "ghost_more.h"
#include "offsets.h"
#ifndef UL
#define UL 2
#endif
#ifndef PL
#define PL 3
#endif
void _ZN8Pistache4Http6Header13Authorization20setBasicUserPasswordERKNSt7__cxx1112basic_stringIcSt11char_traitsIcESaIcEEESA_(u8*, u8*, u8*);
void _ZNK8Pistache4Http6Header13Authorization12getBasicUserB5cxx11Ev(u8*, u8*);
void _ZNK8Pistache4Http6Header13Authorization16getBasicPasswordB5cxx11Ev(u8*, u8*);
/* more ghost string operations */
u64 _ZNKSt7__cxx1112basic_stringIcSt11char_traitsIcESaIcEE5rfindEPKcm(u8* s, u8* lit, u64 pos) {
  __CPROVER_assert(pos == 0, "rfind model: prefix test only (pos == 0)"); u64 n = 0; while (lit[n]) n++;
  if (GS(s)->len < n) return ~(u64)0; for (u64 i = 0; i < 8; i++) if (i < n && GS(s)->p[i] != lit[i]) return ~(u64)0; return 0; }
u8* _ZNKSt7__cxx1112basic_stringIcSt11char_traitsIcESaIcEE5beginEv(u8* s) { return GS(s)->p; }
u8* _ZNKSt7__cxx1112basic_stringIcSt11char_traitsIcESaIcEE3endEv(u8* s) { return GS(s)->p + GS(s)->len; }
u8* _ZNSt7__cxx1112basic_stringIcSt11char_traitsIcESaIcEE5beginEv(u8* s) { return GS(s)->p; }
u8* _ZNSt7__cxx1112basic_stringIcSt11char_traitsIcESaIcEE3endEv(u8* s) { return GS(s)->p + GS(s)->len; }
static void gs_range(u8* s, u8* b, u8* e) { __CPROVER_assert(__CPROVER_same_object(b, e) && (u64)b <= (u64)e, "string built from an iterator range: first <= last, inside one string"); GS(s)->p = b; GS(s)->len = (u64)(e - b); }
void _ZNSt7__cxx1112basic_stringIcSt11char_traitsIcESaIcEEC2IN9__gnu_cxx17__normal_iteratorIPKcS4_EEvEET_SB_RKS3_(u8* s, u8* b, u8* e, u8* a) { (void)a; gs_range(s, b, e); }
void _ZNSt7__cxx1112basic_stringIcSt11char_traitsIcESaIcEEC2IN9__gnu_cxx17__normal_iteratorIPcS4_EEvEET_SA_RKS3_(u8* s, u8* b, u8* e, u8* a) { (void)a; gs_range(s, b, e); }
void _ZNSt7__cxx1112basic_stringIcSt11char_traitsIcESaIcEE9push_backEc(u8* s, u8 c) { gs_append(s, &c, 1); }
void _ZStplIcSt11char_traitsIcESaIcEENSt7__cxx1112basic_stringIT_T0_T1_EERKS8_OS8_(u8* ret, u8* a, u8* b) { GS(ret)->p = (u8*)""; GS(ret)->len = 0; gs_append(ret, GS(a)->p, GS(a)->len); gs_append(ret, GS(b)->p, GS(b)->len); }
void _ZStplIcSt11char_traitsIcESaIcEENSt7__cxx1112basic_stringIT_T0_T1_EEOS8_S9_(u8* ret, u8* a, u8* b) { GS(ret)->p = (u8*)""; GS(ret)->len = 0; gs_append(ret, GS(a)->p, GS(a)->len); gs_append(ret, GS(b)->p, GS(b)->len); }
/* the codec as an abstract inverse pair */
#define EL 4
static u8 enc_text[EL]; static u64 enc_len; static u8 cred[UL + PL + 2]; static u64 cred_len; static int n_enc, n_dec;
void _ZN13Base64Encoder12EncodeStringERKNSt7__cxx1112basic_stringIcSt11char_traitsIcESaIcEEE(u8* ret, u8* s) {
  __CPROVER_assert(GS(s)->len <= UL + PL + 1, "credentials within the harness bound"); n_enc++; cred_len = GS(s)->len;
  for (u64 i = 0; i < UL + PL + 1; i++) if (i < cred_len) cred[i] = GS(s)->p[i];
  GS(ret)->p = enc_text; GS(ret)->len = enc_len; }
typedef struct { u8* b; u8* e; u8* c; } vec_t;
static vec_t decoded;
u8* _ZN13Base64Decoder6DecodeEv(u8* dec) {
  gstr_t* in = GS(*(u8**)dec);                        /* Base64Decoder::m_Base64EncodedString is a reference: first word */
  __CPROVER_assert(in->len == enc_len, "the text handed to the decoder is exactly the encoded credentials (length)");
  for (u64 i = 0; i < EL; i++) if (i < enc_len && in->len == enc_len) __CPROVER_assert(in->p[i] == enc_text[i], "the text handed to the decoder is exactly the encoded credentials (bytes)");
  n_dec++; decoded.b = cred; decoded.e = cred + cred_len; return (u8*)&decoded; }
u8* _ZNKSt6vectorISt4byteSaIS0_EE5beginEv(u8* v) { return ((vec_t*)v)->b; }
u8* _ZNKSt6vectorISt4byteSaIS0_EE3endEv(u8* v) { return ((vec_t*)v)->e; }
u64 _ZNKSt6vectorISt4byteSaIS0_EE4sizeEv(u8* v) { return (u64)(((vec_t*)v)->e - ((vec_t*)v)->b); }
u8 _ZNKSt6vectorISt4byteSaIS0_EE5emptyEv(u8* v) { return ((vec_t*)v)->e == ((vec_t*)v)->b; }
u8* _ZNKSt6vectorISt4byteSaIS0_EE4dataEv(u8* v) { return ((vec_t*)v)->b; }
u8* _ZNKSt6vectorISt4byteSaIS0_EEixEm(u8* v, u64 i) { return ((vec_t*)v)->b + i; }
void _ZNSt6vectorISt4byteSaIS0_EEC2Ev(u8* v) { ((vec_t*)v)->b = 0; ((vec_t*)v)->e = 0; }
void _ZNSt6vectorISt4byteSaIS0_EED2Ev(u8* v) { (void)v; }
static u8 auth[64] __attribute__((aligned(8)));      /* Header vptr + std::string value_ at offset 8 */
int main(void) {
  __ir_init_globals();
  static u8 ub[UL + 1], pb[PL + 1]; u64 ul, pl; VP_SET(u64, ul, "user_len"); VP_SET(u64, pl, "pass_len"); __CPROVER_assume(ul <= UL && pl <= PL);
  for (int i = 0; i < UL; i++) { VP_SET(u8, ub[i], "user"); } for (int i = 0; i < PL; i++) { VP_SET(u8, pb[i], "pass"); }
  VP_SET(u64, enc_len, "enc_len"); __CPROVER_assume(enc_len >= 1 && enc_len <= EL); for (int i = 0; i < EL; i++) { VP_SET(u8, enc_text[i], "enc"); }
  int colon = 0; for (u64 i = 0; i < UL; i++) if (i < ul && ub[i] == ':') colon = 1;
  gstr_t user = { ub, ul, { 0, 0 } }, pass = { pb, pl, { 0, 0 } };
  GS(auth + 8)->p = (u8*)""; GS(auth + 8)->len = 0;
  _ZN8Pistache4Http6Header13Authorization20setBasicUserPasswordERKNSt7__cxx1112basic_stringIcSt11char_traitsIcESaIcEEESA_(auth, (u8*)&user, (u8*)&pass);
  int thr = vp_take_exception();
  __CPROVER_assert((thr != 0) == (colon != 0), "a user id is refused iff it contains a colon");
  if (thr) __CPROVER_assert(vp_exc_is(_ZTISt13runtime_error) && n_enc == 0, "refusal is std::runtime_error, nothing is encoded");
  if (!thr) {
    __CPROVER_assert(n_enc == 1 && cred_len == ul + 1 + pl, "the credentials encoded are user ':' password");
    for (u64 i = 0; i < UL + PL + 1; i++) if (i < cred_len) __CPROVER_assert(cred[i] == (i < ul ? ub[i] : i == ul ? (u8)':' : pb[i - ul - 1]), "the credentials encoded are user ':' password (bytes)");
    gstr_t* v = GS(auth + 8);
    __CPROVER_assert(v->len == 6 + enc_len && v->p[0] == 'B' && v->p[1] == 'a' && v->p[2] == 's' && v->p[3] == 'i' && v->p[4] == 'c' && v->p[5] == ' ', "the header value is \"Basic \" followed by the encoded credentials");
    static gstr_t gu, gp;
    _ZNK8Pistache4Http6Header13Authorization12getBasicUserB5cxx11Ev((u8*)&gu, auth);
    __CPROVER_assert(!vp_take_exception(), "getBasicUser accepts the value it was given");
    __CPROVER_assert(gu.len == ul, "getBasicUser returns the user (length)"); for (u64 i = 0; i < UL; i++) if (i < ul && gu.len == ul) __CPROVER_assert(gu.p[i] == ub[i], "getBasicUser returns the user (bytes)");
    _ZNK8Pistache4Http6Header13Authorization16getBasicPasswordB5cxx11Ev((u8*)&gp, auth);
    __CPROVER_assert(!vp_take_exception(), "getBasicPassword accepts the value it was given");
    __CPROVER_assert(gp.len == pl, "getBasicPassword returns the password (length)"); for (u64 i = 0; i < PL; i++) if (i < pl && gp.len == pl) __CPROVER_assert(gp.p[i] == pb[i], "getBasicPassword returns the password, colons included (bytes)");
  }
  VP_END("witness: end of harness reached");
  return 0;
}
