// Member offsets of the promise combinator data (see offsets_http.cc).
#include <memory>
#include <mutex>
#include <tuple>
#include <vector>
#include <string>
#include <functional>
#include <atomic>
#include <condition_variable>
#include <stdexcept>
#include <typeinfo>
#define private public
#define protected public
#include <pistache/async.h>
#include <cstdio>
#include <cstddef>
#pragma GCC diagnostic ignored "-Winvalid-offsetof"
using namespace Pistache::Async;
struct AllData2 : Impl::All::Data { AllData2(size_t n, Resolver r, Rejection j) : Impl::All::Data(n, std::move(r), std::move(j)) {} std::tuple<int, int> results; };
struct AllData3 : Impl::All::Data { AllData3(size_t n, Resolver r, Rejection j) : Impl::All::Data(n, std::move(r), std::move(j)) {} std::tuple<int, int, int> results; };
struct AnyData : Impl::Any::Data { AnyData(size_t n, Resolver r, Rejection j) : Impl::Any::Data(n, std::move(r), std::move(j)) {} };
#define O(name, T, m) printf("#define OFF_%s %zu\n", #name, offsetof(T, m))
#define S(name, T) printf("#define SIZEOF_%s %zu\n", #name, sizeof(T))
int main() {
  O(AllData_resolve, Impl::All::Data, resolve); O(AllData_reject, Impl::All::Data, reject);
  O(AllData2_results, AllData2, results); S(AllData2, AllData2); O(AllData3_results, AllData3, results); S(AllData3, AllData3);
  O(AnyData_resolve, Impl::Any::Data, resolve); O(AnyData_reject, Impl::Any::Data, reject); S(AnyData, AnyData);
  { alignas(8) static char b[sizeof(std::tuple<int,int>)]; auto* t = reinterpret_cast<std::tuple<int,int>*>(b); printf("#define OFF_Tuple2_0 %zu\n#define OFF_Tuple2_1 %zu\n", (size_t)((char*)&std::get<0>(*t) - b), (size_t)((char*)&std::get<1>(*t) - b)); }
  { alignas(8) static char b[sizeof(std::tuple<int,int,int>)]; auto* t = reinterpret_cast<std::tuple<int,int,int>*>(b); printf("#define OFF_Tuple3_0 %zu\n#define OFF_Tuple3_1 %zu\n#define OFF_Tuple3_2 %zu\n", (size_t)((char*)&std::get<0>(*t) - b), (size_t)((char*)&std::get<1>(*t) - b), (size_t)((char*)&std::get<2>(*t) - b)); }
  O(Any_core, Any, core_);
  typedef Impl::WhenAllRange<int, std::vector<int>> WAR; typedef WAR::DataT<int> WarData;
  O(WarData_total, WarData, total); O(WarData_resolved, WarData, resolved); O(WarData_rejected, WarData, rejected); O(WarData_mtx, WarData, mtx);
  O(WarData_resolve, WarData, resolve); O(WarData_reject, WarData, reject); O(WarData_results, WarData, results); S(WarData, WarData);
  return 0;
}
